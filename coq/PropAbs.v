(* Abstract model of immediate-mode propagation (node.h markDirty/evaluate, binding.h, property.h setHelper).
   Proof-only abstraction of coq/PropDefs.v: no tables, handles or registries; the subscribers of p.valueChanged are
   an arbitrary but fixed list [order p].  Leaves carry the identity of their PropertyNode. *)
From Coq Require Import List Arith ZArith Lia Bool.
Import ListNotations.

Section Model.
Variable F1 : nat -> Z -> Z.            (* interpretation of unary user functions  *)
Variable F2 : nat -> Z -> Z -> Z.       (* interpretation of binary user functions *)
Variable F3 : nat -> Z -> Z -> Z -> Z.  (* interpretation of ternary user functions *)
Variable order : nat -> list (nat * nat). (* subscribers of p.valueChanged in delivery order: (bound property, leaf lid) *)

Inductive tree :=
| Const (z : Z)
| Leaf (p lid : nat) (d : bool)
| Un (f : nat) (d : bool) (c : Z) (k : tree)
| Bin (f : nat) (d : bool) (c : Z) (k1 k2 : tree)
| Tern (f : nat) (d : bool) (c : Z) (k1 k2 k3 : tree).

Fixpoint den (env : nat -> Z) (t : tree) : Z :=
  match t with
  | Const z => z | Leaf p _ _ => env p
  | Un f _ _ k => F1 f (den env k)
  | Bin f _ _ k1 k2 => F2 f (den env k1) (den env k2)
  | Tern f _ _ k1 k2 k3 => F3 f (den env k1) (den env k2) (den env k3)
  end.

Fixpoint leaves (t : tree) : list (nat * nat) :=
  match t with
  | Const _ => [] | Leaf p lid _ => [(p, lid)]
  | Un _ _ _ k => leaves k | Bin _ _ _ k1 k2 => leaves k1 ++ leaves k2
  | Tern _ _ _ k1 k2 k3 => leaves k1 ++ leaves k2 ++ leaves k3
  end.

Fixpoint clean (t : tree) : Prop :=
  match t with
  | Const _ => True | Leaf _ _ d => d = false
  | Un _ d _ k => d = false /\ clean k
  | Bin _ d _ k1 k2 => d = false /\ clean k1 /\ clean k2
  | Tern _ d _ k1 k2 k3 => d = false /\ clean k1 /\ clean k2 /\ clean k3
  end.

(* value a clean node hands to its parent *)
Definition val (env : nat -> Z) (t : tree) : Z :=
  match t with Const z => z | Leaf p _ _ => env p | Un _ _ c _ => c | Bin _ _ c _ _ => c | Tern _ _ c _ _ _ => c end.

(* Dirtyable::markDirty started at leaf [lid]: new tree, and whether the walk continues to the parent *)
Fixpoint mark (t : tree) (lid : nat) : tree * bool :=
  match t with
  | Const _ => (t, false)
  | Leaf p i d => if Nat.eqb i lid then (if d then (t, false) else (Leaf p i true, true)) else (t, false)
  | Un f d c k =>
      let '(k', up) := mark k lid in
      if up then (if d then (Un f d c k', false) else (Un f true c k', true)) else (Un f d c k', false)
  | Bin f d c k1 k2 =>
      let '(k1', up1) := mark k1 lid in
      let '(k2', up2) := mark k2 lid in
      if up1 || up2 then (if d then (Bin f d c k1' k2', false) else (Bin f true c k1' k2', true))
      else (Bin f d c k1' k2', false)
  | Tern f d c k1 k2 k3 =>
      let '(k1', up1) := mark k1 lid in
      let '(k2', up2) := mark k2 lid in
      let '(k3', up3) := mark k3 lid in
      if up1 || up2 || up3 then (if d then (Tern f d c k1' k2' k3', false) else (Tern f true c k1' k2' k3', true))
      else (Tern f d c k1' k2' k3', false)
  end.

(* NodeInterface::evaluate *)
Fixpoint eval (env : nat -> Z) (t : tree) : tree * Z :=
  match t with
  | Const z => (t, z)
  | Leaf p i _ => (Leaf p i false, env p)
  | Un f d c k =>
      if d then let '(k', v) := eval env k in (Un f false (F1 f v) k', F1 f v) else (t, c)
  | Bin f d c k1 k2 =>
      if d then let '(k1', v1) := eval env k1 in let '(k2', v2) := eval env k2 in
                (Bin f false (F2 f v1 v2) k1' k2', F2 f v1 v2)
      else (t, c)
  | Tern f d c k1 k2 k3 =>
      if d then let '(k1', v1) := eval env k1 in let '(k2', v2) := eval env k2 in let '(k3', v3) := eval env k3 in
                (Tern f false (F3 f v1 v2 v3) k1' k2' k3', F3 f v1 v2 v3)
      else (t, c)
  end.

Definition nopend (P : list (nat * nat)) (q : nat) (t : tree) : Prop :=
  forall p lid, In (p, lid) (leaves t) -> ~ In (q, lid) P.

(* every operator node without a pending leaf beneath it caches its denotation *)
Fixpoint consis (env : nat -> Z) (P : list (nat * nat)) (q : nat) (t : tree) : Prop :=
  match t with
  | Const _ | Leaf _ _ _ => True
  | Un f _ c k => consis env P q k /\ (nopend P q t -> c = den env t)
  | Bin f _ c k1 k2 => consis env P q k1 /\ consis env P q k2 /\ (nopend P q t -> c = den env t)
  | Tern f _ c k1 k2 k3 => consis env P q k1 /\ consis env P q k2 /\ consis env P q k3 /\ (nopend P q t -> c = den env t)
  end.

Record state := { env : nat -> Z; tr : nat -> option tree; oof : bool }.

Definition set_env (e : nat -> Z) (q : nat) (v : Z) : nat -> Z := fun x => if Nat.eqb x q then v else e x.
Definition set_tr (m : nat -> option tree) (q : nat) (t : tree) : nat -> option tree := fun x => if Nat.eqb x q then Some t else m x.

Section Step.
  Variable notify_rec : state -> nat -> state.

  (* one subscriber of the emission: PropertyNode::markDirty -> ... -> Binding::markDirty -> evaluate -> setHelper *)
  Definition deliver (s : state) (qi : nat * nat) : state :=
    if oof s then s else
    let '(q, lid) := qi in
    match tr s q with
    | None => s
    | Some t =>
        let '(t1, up) := mark t lid in
        if up then
          let '(t2, v) := eval (env s) t1 in
          let s1 := {| env := env s; tr := set_tr (tr s) q t2; oof := false |} in
          if Z.eqb v (env s q) then s1
          else notify_rec {| env := set_env (env s) q v; tr := tr s1; oof := false |} q
        else {| env := env s; tr := set_tr (tr s) q t1; oof := false |}
    end.

  Definition notify_body (s : state) (p : nat) : state := fold_left deliver (order p) s.
End Step.

Fixpoint notify (fuel : nat) (s : state) (p : nat) : state :=
  match fuel with
  | O => {| env := env s; tr := tr s; oof := true |}
  | S f => notify_body (notify f) s p
  end.

Definition set (fuel : nat) (s : state) (p : nat) (v : Z) : state :=
  if Z.eqb v (env s p) then s
  else notify fuel {| env := set_env (env s) p v; tr := tr s; oof := oof s |} p.

End Model.
