(* Move construction of a property in a world of evaluator-driven bindings: the state conditions of the one-pass theorem
   (PropSimLazy.LSC, PropGrowLazy.LSND, LREG) are kept - the registry is untouched and every registered target, every tree, every
   leaf is the old one with the source renamed to the destination. *)
From KDB Require Import Util UtilProofs PropDefs PropFlags PropLink PropLinkBasics PropLinkOps PropLinkMove PropLinkTheorems PropSim PropGrow PropSimLazy PropGrowLazy PropGrowMore PropGrowLazyMore PropMove.
From KDB Require PropAbs PropAbsProofs PropAbsLazy PropProofs PropCheck.
Module L := PropAbsLazy.

Section MoveLazy.
  Variable fn : nat -> list Z -> option Z.
  Variable rtl : bool.
  Variable ev : nat.
  Hypothesis ev_pos : ev <> 0.
  Notation F1 := (PropSim.F1 fn).
  Notation F2 := (PropSim.F2 fn).
  Notation F3 := (PropSim.F3 fn).
  Notation LSC := (PropSimLazy.LSC ev).
  Notation LSND := (PropGrowLazy.LSND fn).
  Notation LREG := (PropGrowLazy.LREG ev).
  Notation abs_tree := PropSim.abs_tree.

  Lemma aren_val rho (e e' : nat -> Z) t : (forall p lid, In (p, lid) (A.leaves t) -> e' (rho p) = e p) -> A.val e' (aren rho t) = A.val e t.
  Proof. destruct t; cbn [aren A.val A.leaves]; intros H; try reflexivity. apply (H p lid). left; reflexivity. Qed.

  Lemma aren_sound rho (e e' : nat -> Z) : forall t, (forall p lid, In (p, lid) (A.leaves t) -> e' (rho p) = e p) ->
    L.sound F1 F2 F3 e t -> L.sound F1 F2 F3 e' (aren rho t).
  Proof.
    induction t as [z|p l d|f d c k IH|f d c k1 IH1 k2 IH2|f d c k1 IH1 k2 IH2 k3 IH3]; intros H HS; cbn [aren L.sound A.leaves] in *; try exact I.
    - destruct HS as [S1 S2]. split; [apply IH; assumption|]. intros Hd. destruct (S2 Hd) as [C1 C2]. split; [apply aren_clean; exact C1|].
      rewrite (aren_val rho e e' k H). exact C2.
    - destruct HS as (S1 & S2 & S3).
      assert (H1 : forall p lid, In (p, lid) (A.leaves k1) -> e' (rho p) = e p) by (intros p lid Hi; apply (H p lid); apply in_or_app; auto).
      assert (H2 : forall p lid, In (p, lid) (A.leaves k2) -> e' (rho p) = e p) by (intros p lid Hi; apply (H p lid); apply in_or_app; auto).
      split; [auto|]. split; [auto|]. intros Hd. destruct (S3 Hd) as (C1 & C2 & C3). split; [apply aren_clean; exact C1|]. split; [apply aren_clean; exact C2|].
      rewrite (aren_val rho e e' k1 H1), (aren_val rho e e' k2 H2). exact C3.
    - destruct HS as (S1 & S2 & S3 & S4).
      assert (H1 : forall p lid, In (p, lid) (A.leaves k1) -> e' (rho p) = e p) by (intros p lid Hi; apply (H p lid); apply in_or_app; auto).
      assert (H2 : forall p lid, In (p, lid) (A.leaves k2) -> e' (rho p) = e p) by (intros p lid Hi; apply (H p lid); apply in_or_app; right; apply in_or_app; auto).
      assert (H3 : forall p lid, In (p, lid) (A.leaves k3) -> e' (rho p) = e p) by (intros p lid Hi; apply (H p lid); apply in_or_app; right; apply in_or_app; auto).
      split; [auto|]. split; [auto|]. split; [auto|]. intros Hd. destruct (S4 Hd) as (C1 & C2 & C3 & C4).
      split; [apply aren_clean; exact C1|]. split; [apply aren_clean; exact C2|]. split; [apply aren_clean; exact C3|].
      rewrite (aren_val rho e e' k1 H1), (aren_val rho e e' k2 H2), (aren_val rho e e' k3 H3). exact C4.
  Qed.

  Lemma regs_of_rho w w' (rho : nat -> nat) l : (forall b, lz w' b = option_map rho (lz w b)) -> regs_of w' l = map rho (regs_of w l).
  Proof.
    intros H. unfold regs_of. induction l as [|rb r IH]; [reflexivity|]. cbn [flat_map]. rewrite map_app, <- IH, H. destruct (lz w (snd rb)); reflexivity.
  Qed.

  Lemma rn_inj src dst a b : a <> dst -> b <> dst -> rn src dst a = rn src dst b -> a = b.
  Proof. unfold rn. intros Ha Hb. destruct (Nat.eqb_spec a src), (Nat.eqb_spec b src); intros E; congruence. Qed.

  Lemma lazy_grow_movector fuel w src dst w' :
    LSC w -> LSND w -> LREG w -> NOEMIT w -> step1 fn rtl fuel w (PMoveCtor src dst) = (w', None) -> LSC w' /\ LSND w' /\ LREG w'.
  Proof.
    intros HSC HSN HR HNE H. pose proof HSC as (Hinv & Hna & Hsi & Hal). pose proof HSN as (s & (R1 & R2) & HS).
    pose proof (movector_pinv fn rtl fuel w src dst w' None Hinv HNE H I) as Hinv'.
    destruct (movector_shape fn rtl fuel w src dst w' Hinv HNE H) as (s0 & dn & sn & Hs & Hd & Hne & Vd & Ud & Vs & Us & PW & Sw & HB & _ & HT & EV & LEN).
    set (rho := rn src dst).
    assert (Pd : pview w dst = None) by (unfold pview; rewrite Hd; reflexivity).
    (* nothing that exists is called dst *)
    assert (Ltg : forall b lf q, has_leaf w b lf -> lf_tg lf = Some q -> q <> dst).
    { intros b lf q Hl Ht ->. exact (pi_leafx _ _ _ _ _ _ _ Hinv _ _ _ Hl Ht Pd). }
    (* the binding that updates q in the new world is the image of the one that updated (q with dst renamed back to src) *)
    assert (LOF : forall q, match lz_of w' q with
                            | Some x' => q <> src /\ exists x, lz_of w (if Nat.eqb q dst then src else q) = Some x /\
                                           abs_tree (b_root x') = option_map (aren rho) (abs_tree (b_root x)) /\
                                           leaves (b_root x') = map (mvl src dst) (leaves (b_root x))
                            | None => q = src \/ lz_of w (if Nat.eqb q dst then src else q) = None end).
    { assert (K : forall q pr b, lookup (w_props w) q = Some pr -> pr_updater pr = Some b ->
                    match get_bind w' b with
                    | Some x' => exists x, get_bind w b = Some x /\ abs_tree (b_root x') = option_map (aren rho) (abs_tree (b_root x)) /\
                                           leaves (b_root x') = map (mvl src dst) (leaves (b_root x))
                    | None => get_bind w b = None end).
      { intros q pr b _ _. pose proof (HB b) as Hb. destruct (get_bind w b) as [x|] eqn:Hx, (get_bind w' b) as [x'|] eqn:Hx'; try (exfalso; exact Hb); [|reflexivity].
        exists x. split; [reflexivity|]. split; [exact (proj2 Hb)|exact (proj2 (HT b x x' Hx Hx'))]. }
      intros q. unfold lz_of. rewrite PW. destruct (Nat.eqb_spec q dst) as [->|Hqd].
      - rewrite Hs, Ud. destruct (pr_updater s0) as [b|] eqn:Hub; [|right; reflexivity].
        pose proof (K src s0 b Hs Hub) as Hk. destruct (get_bind w' b) as [x'|]; [|right; exact Hk].
        destruct Hk as (x & Hx & Ha & Hl). split; [intros E; apply Hne; symmetry; exact E|]. exists x. auto.
      - destruct (Nat.eqb_spec q src) as [Eq|Hqs]; [rewrite Us; left; exact Eq|].
        destruct (lookup (w_props w) q) as [pr|] eqn:Hp; [|right; reflexivity]. destruct (pr_updater pr) as [b|] eqn:Hub; [|right; reflexivity].
        pose proof (K q pr b Hp Hub) as Hk. destruct (get_bind w' b) as [x'|]; [|right; exact Hk].
        destruct Hk as (x & Hx & Ha & Hl). split; [exact Hqs|]. exists x. auto. }
    assert (LZ : forall b, lz w' b = option_map rho (lz w b)).
    { intros b. unfold lz. pose proof (HB b) as Hb. destruct (get_bind w b) as [x|] eqn:Hx, (get_bind w' b) as [x'|] eqn:Hx'; try (exfalso; exact Hb); [|reflexivity].
      exact (proj1 (HT b x x' Hx Hx')). }
    assert (HSC' : LSC w').
    { split; [exact Hinv'|]. split; [|split].
      - intros t pos ser label act Hsl. apply Sw in Hsl. eapply Hna; eauto.
      - intros q x' Hx'. pose proof (LOF q) as Hq. rewrite Hx' in Hq. destruct Hq as (_ & x & Hx & Ea & _). rewrite Ea.
        pose proof (Hsi _ _ Hx) as Hn. destruct (abs_tree (b_root x)); [discriminate|contradiction].
      - split; [exact (proj1 Hal)|]. intros b x' Hx'. pose proof (HB b) as Hb. rewrite Hx' in Hb. destruct (get_bind w b) as [x|] eqn:Hx; [|destruct Hb].
        rewrite (proj1 Hb). exact (proj2 Hal _ _ Hx). }
    split; [exact HSC'|]. split.
    - set (s' := {| L.lenv := fun x => if Nat.eqb x dst then L.lenv s src else L.lenv s x;
                    L.ltr := fun q => if Nat.eqb q src then None else option_map (aren rho) (L.ltr s (if Nat.eqb q dst then src else q)) |}).
      exists s'. split; [split|].
      + intros q prq Hq. rewrite PW in Hq. cbn [s' L.lenv]. destruct (Nat.eqb_spec q dst) as [->|Hqd].
        * inversion Hq; subst prq. rewrite Vd. exact (R1 _ _ Hs).
        * destruct (Nat.eqb_spec q src) as [->|Hqs]; [inversion Hq; subst prq; rewrite Vs; exact (R1 _ _ Hs)|auto].
      + intros q. cbn [s' L.ltr]. pose proof (LOF q) as Hq. destruct (lz_of w' q) as [x'|].
        * destruct Hq as (Hqs & x & Hx & Ea & _). destruct (Nat.eqb_spec q src); [contradiction|]. rewrite R2, Hx. symmetry. exact Ea.
        * destruct (Nat.eqb_spec q src) as [|Hqs]; [reflexivity|]. destruct Hq as [Hq|Hq]; [contradiction|]. rewrite R2, Hq. reflexivity.
      + intros q t' Ht'. cbn [s' L.ltr L.lenv] in Ht' |- *. destruct (Nat.eqb_spec q src) as [|Hqs]; [discriminate Ht'|].
        set (q0 := if Nat.eqb q dst then src else q) in *.
        destruct (L.ltr s q0) as [t|] eqn:Ht; [|discriminate Ht']. inversion Ht'; subst t'; clear Ht'.
        apply (aren_sound rho (L.lenv s)); [|exact (HS q0 t Ht)].
        intros p lid Hi. rewrite R2 in Ht. destruct (lz_of w q0) as [x|] eqn:Hx; [|discriminate Ht].
        destruct (abs_leaf_in _ _ _ _ Ht Hi) as (lf & Hlf & Htg & _).
        destruct (lz_of_bind _ _ _ Hx) as (b & pr & _ & _ & Hb).
        assert (Hl : has_leaf w b lf) by (exists (leaves (b_root x)), (b_target x); split; [unfold bview; rewrite Hb; reflexivity|exact Hlf]).
        pose proof (Ltg _ _ _ Hl Htg) as Hpd. unfold rho, rn. destruct (Nat.eqb_spec p src) as [->|Hps]; [rewrite Nat.eqb_refl; reflexivity|].
        destruct (Nat.eqb_spec p dst); [contradiction|reflexivity].
    - unfold PropGrowLazy.LREG in *. rewrite EV. destruct (nth_error (w_evps w) ev) as [st|] eqn:Hst; [|exact I].
      destruct HR as (ND & HC & HBd & HE).
      assert (Er : regs_of w' (ep_registry st) = map rho (regs_of w (ep_registry st))).
      { apply regs_of_rho. exact LZ. }
      rewrite Er.
      assert (Hex : forall q, In q (regs_of w (ep_registry st)) -> q <> dst) by (intros q Hq ->; exact (HE dst Hq Hd)).
      split; [|split; [|split]].
      + (* distinct targets stay distinct *)
        clear -ND Hex. induction (regs_of w (ep_registry st)) as [|a l IH]; cbn [map]; [constructor|]. inversion ND as [|? ? Ha Hl]; subst.
        constructor; [|apply IH; [exact Hl|intros q Hq; apply Hex; right; exact Hq]].
        intros Hi. apply in_map_iff in Hi. destruct Hi as (b & E & Hb). apply Ha.
        rewrite (rn_inj src dst a b (Hex a (or_introl eq_refl)) (Hex b (or_intror Hb)) (eq_sym E)). exact Hb.
      + (* dependency order *)
        assert (G : forall regs, (forall q, In q regs -> q <> dst) -> lchain w regs -> lchain w' (map rho regs)).
        { induction regs as [|q r IHr]; cbn [lchain map]; intros Hxr HCr; [exact I|]. destruct HCr as [HA HCr].
          split; [|apply IHr; [intros q' Hq'; apply Hxr; right; exact Hq'|exact HCr]].
          intros x' lf' p' Hx' Hi Ht Hin.
          assert (Hqd : q <> dst) by (apply Hxr; left; reflexivity).
          pose proof (LOF (rho q)) as Hq. rewrite Hx' in Hq. destruct Hq as (Hqs & x & Hx & _ & El).
          assert (Eq0 : (if Nat.eqb (rho q) dst then src else rho q) = q).
          { unfold rho, rn. destruct (Nat.eqb_spec q src) as [->|Hq0]; [rewrite Nat.eqb_refl; reflexivity|]. destruct (Nat.eqb_spec q dst); [contradiction|reflexivity]. }
          rewrite Eq0 in Hx. rewrite El in Hi. apply in_map_iff in Hi. destruct Hi as (lf & <- & Hlf).
          rewrite (mvl_tg src dst lf Hne) in Ht. destruct (lf_tg lf) as [p0|] eqn:Etq; [|discriminate Ht].
          destruct (lz_of_bind _ _ _ Hx) as (b & pr & _ & _ & Hb).
          assert (Hl : has_leaf w b lf) by (exists (leaves (b_root x)), (b_target x); split; [unfold bview; rewrite Hb; reflexivity|exact Hlf]).
          pose proof (Ltg _ _ _ Hl Etq) as Hp0d. destruct (Nat.eqb_spec p0 dst); [contradiction|].
          assert (Ep' : p' = rho p0) by (unfold rho, rn; destruct (Nat.eqb p0 src); congruence). subst p'.
          apply (HA x lf p0 Hx Hlf Etq).
          change (In (rho p0) (map rho (q :: r))) in Hin. apply in_map_iff in Hin. destruct Hin as (y & Ey & Hy).
          rewrite <- (rn_inj src dst y p0 (Hxr y Hy) Hp0d Ey). exact Hy. }
        apply G; [exact Hex|exact HC].
      + intros rb Hi. rewrite LEN. auto.
      + intros q' Hq'. apply in_map_iff in Hq'. destruct Hq' as (q & <- & Hq). rewrite PW. unfold rho, rn.
        destruct (Nat.eqb_spec q src) as [->|Hqs]; [rewrite Nat.eqb_refl; discriminate|].
        pose proof (Hex q Hq) as Hqd. destruct (Nat.eqb_spec q dst); [contradiction|]. destruct (Nat.eqb_spec q src); [contradiction|]. exact (HE q Hq).
  Qed.

  (* ---- the registry invariant when some bindings died and the targets of the others were renamed ---- *)
  Lemma regs_sub_map w w' src dst (f : nat * nat -> bool) :
    (forall b, lz w' b = None \/ lz w' b = option_map (rn src dst) (lz w b)) ->
    forall reg, exists l2, PropGrowLazyMore.Sub l2 (regs_of w reg) /\ regs_of w' (filter f reg) = map (rn src dst) l2 /\
                           forall q, In q l2 -> exists b, lz w b = Some q /\ lz w' b = Some (rn src dst q).
  Proof.
    intros HL. induction reg as [|rb r IH]; [exists []; split; [constructor|split; [reflexivity|intros q []]]|].
    destruct IH as (l2 & S2 & E2 & K2).
    assert (E1 : regs_of w (rb :: r) = (match lz w (snd rb) with Some q => [q] | None => [] end) ++ regs_of w r) by reflexivity. rewrite E1.
    cbn [filter]. destruct (f rb).
    - assert (E3 : regs_of w' (rb :: filter f r) = (match lz w' (snd rb) with Some q => [q] | None => [] end) ++ regs_of w' (filter f r)) by reflexivity. rewrite E3, E2.
      destruct (HL (snd rb)) as [E|E]; rewrite E.
      + exists l2. split; [|split; [reflexivity|exact K2]]. destruct (lz w (snd rb)); [apply PropGrowLazyMore.Sub_drop|]; exact S2.
      + destruct (lz w (snd rb)) as [q|] eqn:Eq; cbn [option_map app].
        * exists (q :: l2). split; [apply PropGrowLazyMore.Sub_keep; exact S2|]. split; [reflexivity|].
          intros q' [<-|Hq']; [exists (snd rb); split; [exact Eq|rewrite E; reflexivity]|exact (K2 q' Hq')].
        * exists l2. split; [exact S2|split; [reflexivity|exact K2]].
    - exists l2. split; [|split; [exact E2|exact K2]]. destruct (lz w (snd rb)); [apply PropGrowLazyMore.Sub_drop|]; exact S2.
  Qed.

  Lemma LREG_renamed w w' src dst (f : nat * nat -> bool) :
    src <> dst -> pinv w -> LREG w ->
    (forall b, lz w' b = None \/ lz w' b = option_map (rn src dst) (lz w b)) ->
    (forall b, lz w b = Some dst -> lz w' b = None) ->
    (forall q x', lz_of w' q = Some x' -> q <> src /\ exists x, lz_of w (if Nat.eqb q dst then src else q) = Some x /\
                                             leaves (b_root x') = map (mvl src dst) (leaves (b_root x))) ->
    (forall b lf q, has_leaf w b lf -> lf_tg lf = Some q -> q <> dst) ->
    nth_error (w_evps w') ev = option_map (fun st => {| ep_registry := filter f (ep_registry st); ep_next := ep_next st |}) (nth_error (w_evps w) ev) ->
    length (w_binds w') = length (w_binds w) ->
    (forall q, q <> dst -> lookup (w_props w) q <> None -> lookup (w_props w') (rn src dst q) <> None) ->
    LREG w'.
  Proof.
    intros Hne Hinv HR HL Hdst LOF Ltg Hev LEN HPx. set (rho := rn src dst). unfold PropGrowLazy.LREG in *. rewrite Hev.
    destruct (nth_error (w_evps w) ev) as [st|] eqn:Hst; [|exact I]. cbn [option_map ep_registry].
    destruct HR as (ND & HC & HBd & HE).
    destruct (regs_sub_map w w' src dst f HL (ep_registry st)) as (l2 & S2 & E2 & K2). rewrite E2.
    assert (Hex : forall q, In q l2 -> q <> dst).
    { intros q Hq ->. destruct (K2 dst Hq) as (b & Hb & Hb'). rewrite (Hdst b Hb) in Hb'. discriminate Hb'. }
    pose proof (PropGrowLazyMore.Sub_NoDup _ _ S2 ND) as ND2.
    assert (HC2 : lchain w l2) by (apply (PropGrowLazyMore.lchain_sub w w _ _ S2 HC); reflexivity).
    split; [|split; [|split]].
    - clear -ND2 Hex. induction l2 as [|a l IH]; cbn [map]; [constructor|]. inversion ND2 as [|? ? Ha Hl]; subst.
      constructor; [|apply IH; [intros q Hq; apply Hex; right; exact Hq|exact Hl]].
      intros Hi. apply in_map_iff in Hi. destruct Hi as (b & E & Hb). apply Ha.
      rewrite (rn_inj src dst a b (Hex a (or_introl eq_refl)) (Hex b (or_intror Hb)) (eq_sym E)). exact Hb.
    - assert (G : forall regs, (forall q, In q regs -> q <> dst) -> lchain w regs -> lchain w' (map rho regs)).
      { induction regs as [|q r IHr]; cbn [lchain map]; intros Hxr HCr; [exact I|]. destruct HCr as [HA HCr].
        split; [|apply IHr; [intros q' Hq'; apply Hxr; right; exact Hq'|exact HCr]].
        intros x' lf' p' Hx' Hi Ht Hin.
        assert (Hqd : q <> dst) by (apply Hxr; left; reflexivity).
        destruct (LOF (rho q) x' Hx') as (Hqs & x & Hx & El).
        assert (Eq0 : (if Nat.eqb (rho q) dst then src else rho q) = q).
        { unfold rho, rn. destruct (Nat.eqb_spec q src) as [->|Hq0]; [rewrite Nat.eqb_refl; reflexivity|]. destruct (Nat.eqb_spec q dst); [contradiction|reflexivity]. }
        rewrite Eq0 in Hx. rewrite El in Hi. apply in_map_iff in Hi. destruct Hi as (lf & <- & Hlf).
        rewrite (mvl_tg src dst lf Hne) in Ht. destruct (lf_tg lf) as [p0|] eqn:Etq; [|discriminate Ht].
        destruct (PropGrowLazy.lz_of_bind _ _ _ Hx) as (b & pr & _ & _ & Hb).
        assert (Hl : has_leaf w b lf) by (exists (leaves (b_root x)), (b_target x); split; [unfold bview; rewrite Hb; reflexivity|exact Hlf]).
        pose proof (Ltg _ _ _ Hl Etq) as Hp0d. destruct (Nat.eqb_spec p0 dst); [contradiction|].
        assert (Ep' : p' = rho p0) by (unfold rho, rn; destruct (Nat.eqb p0 src); congruence). subst p'.
        apply (HA x lf p0 Hx Hlf Etq).
        change (In (rho p0) (map rho (q :: r))) in Hin. apply in_map_iff in Hin. destruct Hin as (y & Ey & Hy).
        rewrite <- (rn_inj src dst y p0 (Hxr y Hy) Hp0d Ey). exact Hy. }
      apply G; [exact Hex|exact HC2].
    - intros rb Hi. apply filter_In in Hi. destruct Hi as [Hi _]. rewrite LEN. auto.
    - intros q' Hq'. apply in_map_iff in Hq'. destruct Hq' as (q & <- & Hq). apply HPx; [exact (Hex q Hq)|].
      exact (HE q (PropGrowLazyMore.Sub_In _ _ S2 q Hq)).
  Qed.

  (* ---- move ASSIGNMENT over a destination that no binding reads ---- *)
  Lemma lazy_grow_moveassign fuel w dst src w' :
    LSC w -> LSND w -> LREG w -> NOEMIT w -> (forall b lf, has_leaf w b lf -> lf_tg lf <> Some dst) ->
    step1 fn rtl fuel w (PMoveAssign dst src) = (w', None) -> LSC w' /\ LSND w' /\ LREG w'.
  Proof.
    intros HSC HSN HR HNE Hnr H. pose proof HSC as (Hinv & Hna & Hsi & Hal). pose proof HSN as (s & (R1 & R2) & HS).
    pose proof (moveassign_pinv fn rtl fuel w dst src w' None Hinv HNE H I) as Hinv'.
    destruct (moveassign_shape fn rtl fuel w dst src w' Hinv HNE Hnr H) as (s0 & d0 & dn & sn & Hs & Hd & Hne & Vd & Ud & Vs & Us & PW & Sw & HB & HT & HEV & LEN).
    set (rho := rn src dst).
    assert (Pdd : pview w dst = Some (psigs_of d0)) by (unfold pview; rewrite Hd; reflexivity).
    assert (Ltg : forall b lf q, has_leaf w b lf -> lf_tg lf = Some q -> q <> dst) by (intros b lf q Hl Ht ->; exact (Hnr b lf Hl Ht)).
    (* the old binding of dst, if any *)
    assert (Hbd : forall b, pr_updater d0 = Some b -> get_bind w' b = None).
    { intros b Hu. rewrite Hu in HEV. destruct HEV as (x & _ & G & _). exact G. }
    assert (Hnotbd : forall q pr b, q <> dst -> lookup (w_props w) q = Some pr -> pr_updater pr = Some b -> pr_updater d0 <> Some b).
    { intros q pr b Hq Hp Hu Hud.
      assert (Pq : pview w q = Some (psigs_of pr)) by (unfold pview; rewrite Hp; reflexivity).
      destruct (pi_upd _ _ _ _ _ _ _ Hinv _ _ _ Pq Hu (fun z => z)) as (ls & Eb).
      destruct (pi_upd _ _ _ _ _ _ _ Hinv _ _ _ Pdd Hud (fun z => z)) as (ls' & Eb'). rewrite Eb in Eb'. inversion Eb'. contradiction. }
    assert (LOF : forall q, match lz_of w' q with
                            | Some x' => q <> src /\ exists x, lz_of w (if Nat.eqb q dst then src else q) = Some x /\
                                           abs_tree (b_root x') = option_map (aren rho) (abs_tree (b_root x)) /\
                                           leaves (b_root x') = map (mvl src dst) (leaves (b_root x))
                            | None => q = src \/ lz_of w (if Nat.eqb q dst then src else q) = None end).
    { assert (K : forall q pr b, q <> dst -> lookup (w_props w) q = Some pr -> pr_updater pr = Some b ->
                    match get_bind w' b with
                    | Some x' => exists x, get_bind w b = Some x /\ abs_tree (b_root x') = option_map (aren rho) (abs_tree (b_root x)) /\
                                           leaves (b_root x') = map (mvl src dst) (leaves (b_root x))
                    | None => get_bind w b = None end).
      { intros q pr b Hq Hp Hu. pose proof (Hnotbd q pr b Hq Hp Hu) as Hnb. pose proof (HB b Hnb) as Hb.
        destruct (get_bind w b) as [x|] eqn:Hx, (get_bind w' b) as [x'|] eqn:Hx'; try (exfalso; exact Hb); [|reflexivity].
        exists x. split; [reflexivity|]. split; [exact (proj2 Hb)|exact (proj2 (HT b x x' Hnb Hx Hx'))]. }
      intros q. unfold lz_of. rewrite PW. destruct (Nat.eqb_spec q dst) as [->|Hqd].
      - rewrite Hs, Ud. destruct (pr_updater s0) as [b|] eqn:Hub; [|right; reflexivity].
        pose proof (K src s0 b Hne Hs Hub) as Hk. destruct (get_bind w' b) as [x'|]; [|right; exact Hk].
        destruct Hk as (x & Hx & Ha & Hl). split; [intros E; apply Hne; symmetry; exact E|]. exists x. auto.
      - destruct (Nat.eqb_spec q src) as [Eq|Hqs]; [rewrite Us; left; exact Eq|].
        destruct (lookup (w_props w) q) as [pr|] eqn:Hp; [|right; reflexivity]. destruct (pr_updater pr) as [b|] eqn:Hub; [|right; reflexivity].
        pose proof (K q pr b Hqd Hp Hub) as Hk. destruct (get_bind w' b) as [x'|]; [|right; exact Hk].
        destruct Hk as (x & Hx & Ha & Hl). split; [exact Hqs|]. exists x. auto. }
    assert (LZ : forall b, lz w' b = if opt_eqb Nat.eqb (pr_updater d0) (Some b) then None else option_map rho (lz w b)).
    { intros b. unfold lz. destruct (opt_eqb Nat.eqb (pr_updater d0) (Some b)) eqn:Eu.
      - assert (Hu : pr_updater d0 = Some b) by (destruct (pr_updater d0) as [bu|]; cbn [opt_eqb] in Eu; [apply Nat.eqb_eq in Eu; congruence|discriminate Eu]).
        rewrite (Hbd b Hu). reflexivity.
      - assert (Hnb : pr_updater d0 <> Some b) by (intros E; rewrite E in Eu; cbn [opt_eqb] in Eu; rewrite Nat.eqb_refl in Eu; discriminate Eu).
        pose proof (HB b Hnb) as Hb. destruct (get_bind w b) as [x|] eqn:Hx, (get_bind w' b) as [x'|] eqn:Hx'; try (exfalso; exact Hb); [|reflexivity].
        exact (proj1 (HT b x x' Hnb Hx Hx')). }
    assert (HSC' : LSC w').
    { split; [exact Hinv'|]. split; [|split].
      - intros t pos ser label act Hsl. apply Sw in Hsl. eapply Hna; eauto.
      - intros q x' Hx'. pose proof (LOF q) as Hq. rewrite Hx' in Hq. destruct Hq as (_ & x & Hx & Ea & _). rewrite Ea.
        pose proof (Hsi _ _ Hx) as Hn. destruct (abs_tree (b_root x)); [discriminate|contradiction].
      - split; [exact (proj1 Hal)|]. intros b x' Hx'.
        assert (Hnb : pr_updater d0 <> Some b) by (intros E; rewrite (Hbd b E) in Hx'; discriminate Hx').
        pose proof (HB b Hnb) as Hb. rewrite Hx' in Hb. destruct (get_bind w b) as [x|] eqn:Hx; [|destruct Hb].
        rewrite (proj1 Hb). exact (proj2 Hal _ _ Hx). }
    split; [exact HSC'|]. split.
    - set (s' := {| L.lenv := fun x => if Nat.eqb x dst then L.lenv s src else L.lenv s x;
                    L.ltr := fun q => if Nat.eqb q src then None else option_map (aren rho) (L.ltr s (if Nat.eqb q dst then src else q)) |}).
      exists s'. split; [split|].
      + intros q prq Hq. rewrite PW in Hq. cbn [s' L.lenv]. destruct (Nat.eqb_spec q dst) as [->|Hqd].
        * inversion Hq; subst prq. rewrite Vd. exact (R1 _ _ Hs).
        * destruct (Nat.eqb_spec q src) as [->|Hqs]; [inversion Hq; subst prq; rewrite Vs; exact (R1 _ _ Hs)|auto].
      + intros q. cbn [s' L.ltr]. pose proof (LOF q) as Hq. destruct (lz_of w' q) as [x'|].
        * destruct Hq as (Hqs & x & Hx & Ea & _). destruct (Nat.eqb_spec q src); [contradiction|]. rewrite R2, Hx. symmetry. exact Ea.
        * destruct (Nat.eqb_spec q src) as [|Hqs]; [reflexivity|]. destruct Hq as [Hq|Hq]; [contradiction|]. rewrite R2, Hq. reflexivity.
      + intros q t' Ht'. cbn [s' L.ltr L.lenv] in Ht' |- *. destruct (Nat.eqb_spec q src) as [|Hqs]; [discriminate Ht'|].
        set (q0 := if Nat.eqb q dst then src else q) in *.
        destruct (L.ltr s q0) as [t|] eqn:Ht; [|discriminate Ht']. inversion Ht'; subst t'; clear Ht'.
        apply (aren_sound rho (L.lenv s)); [|exact (HS q0 t Ht)].
        intros p lid Hi. rewrite R2 in Ht. destruct (lz_of w q0) as [x|] eqn:Hx; [|discriminate Ht].
        destruct (abs_leaf_in _ _ _ _ Ht Hi) as (lf & Hlf & Htg & _).
        destruct (PropGrowLazy.lz_of_bind _ _ _ Hx) as (b & pr & _ & _ & Hb).
        assert (Hl : has_leaf w b lf) by (exists (leaves (b_root x)), (b_target x); split; [unfold bview; rewrite Hb; reflexivity|exact Hlf]).
        pose proof (Ltg _ _ _ Hl Htg) as Hpd. unfold rho, rn. destruct (Nat.eqb_spec p src) as [->|Hps]; [rewrite Nat.eqb_refl; reflexivity|].
        destruct (Nat.eqb_spec p dst); [contradiction|reflexivity].
    - (* the registry of ev: possibly without the entry of dst's old binding, every other target renamed *)
      assert (Hf : exists f : nat * nat -> bool, nth_error (w_evps w') ev =
                     option_map (fun st => {| ep_registry := filter f (ep_registry st); ep_next := ep_next st |}) (nth_error (w_evps w) ev)).
      { destruct (pr_updater d0) as [bd|] eqn:Hud.
        - destruct HEV as (x & _ & _ & Ev). rewrite Ev. exact (PropGrowLazyMore.evps_after_destroy ev (w_evps w) x).
        - exists (fun _ => true). rewrite HEV. destruct (nth_error (w_evps w) ev) as [[rg nx]|]; [|reflexivity]. cbn [option_map ep_registry ep_next].
          assert (Ef : forall l : list (nat * nat), filter (fun _ => true) l = l) by (induction l as [|a l IH]; cbn; [reflexivity|rewrite IH; reflexivity]). rewrite Ef. reflexivity. }
      destruct Hf as (f & Hf).
      apply (LREG_renamed w w' src dst f Hne Hinv HR).
      + intros b. rewrite LZ. destruct (opt_eqb Nat.eqb (pr_updater d0) (Some b)); auto.
      + intros b Hb. rewrite LZ. unfold lz in Hb. destruct (get_bind w b) as [x|] eqn:Hx; [|discriminate Hb].
        assert (Bv : bview w b = Some (leaves (b_root x), Some dst)) by (unfold bview; rewrite Hx, Hb; reflexivity).
        destruct (pi_tgt _ _ _ _ _ _ _ Hinv _ _ _ Bv) as (vq & Evq & Euq). rewrite Pdd in Evq. inversion Evq; subst vq. cbn in Euq.
        rewrite Euq. cbn [opt_eqb]. rewrite Nat.eqb_refl. reflexivity.
      + intros q x' Hx'. pose proof (LOF q) as Hq. rewrite Hx' in Hq. destruct Hq as (Hqs & x & Hx & _ & El). split; [exact Hqs|]. exists x. auto.
      + exact Ltg.
      + exact Hf.
      + exact LEN.
      + intros q Hqd Hex. rewrite PW. unfold rn. destruct (Nat.eqb_spec q src) as [->|Hqs]; [rewrite Nat.eqb_refl; discriminate|].
        destruct (Nat.eqb_spec q dst); [contradiction|]. destruct (Nat.eqb_spec q src); [contradiction|exact Hex].
  Qed.

  (* ---- histories: the operations of PropGrowLazyMore.grow_op_lazy2, move construction of any property, move assignment over
     a destination that no live binding reads ---- *)
  Definition grow_op_lazy3 (w : world) (o : op) : Prop :=
    match o with
    | PMoveCtor _ _ => True
    | PMoveAssign dst _ => PropGrowMore.no_reader_b w dst = true
    | _ => PropGrowLazyMore.grow_op_lazy2 w o end.

  Theorem lazy_grow3_step f w o w' :
    LSC w -> LSND w -> LREG w -> NOEMIT w -> grow_op_lazy3 w o -> step1 fn rtl (S f) w o = (w', None) ->
    LSC w' /\ LSND w' /\ LREG w' /\ NOEMIT w'.
  Proof.
    intros HSC HS HR HNE Ho H.
    assert (HNE' : NOEMIT w') by (pose proof (step1_tmono fn rtl (S f) w o) as M; rewrite H in M; cbn [fst] in M; eapply NOEMIT_tmono; eauto).
    enough (LSC w' /\ LSND w' /\ LREG w') by tauto.
    destruct o; cbn [grow_op_lazy3] in Ho; try (exact (PropGrowLazyMore.lazy_grow2_step fn rtl ev ev_pos f w _ w' HSC HS HR Ho H)).
    - exact (lazy_grow_movector (S f) w src dst w' HSC HS HR HNE H).
    - exact (lazy_grow_moveassign (S f) w dst src w' HSC HS HR HNE (PropGrowMore.no_reader_sound w dst Ho) H).
  Qed.

  Fixpoint lazy_run3_ok (f : nat) (w : world) (ops : list op) : Prop :=
    match ops with
    | [] => True
    | o :: r => grow_op_lazy3 w o /\ snd (step1 fn rtl (S f) w o) = None /\ lazy_run3_ok f (step fn rtl (S f) w o) r
    end.

  Theorem lazy_grow3_coherent f : forall ops w, LSC w -> LSND w -> LREG w -> NOEMIT w -> lazy_run3_ok f w ops ->
    LSC (fold_left (step fn rtl (S f)) ops w) /\ LSND (fold_left (step fn rtl (S f)) ops w) /\ LREG (fold_left (step fn rtl (S f)) ops w).
  Proof.
    induction ops as [|o r IH]; intros w HSC HS HR HNE Hok; cbn [fold_left]; [auto|]. destruct Hok as (Ho & Hn & Hr).
    pose proof (step_noemit fn rtl (S f) w o HNE) as HNE1.
    unfold step in *. destruct (step1 fn rtl (S f) w o) as [w1 e] eqn:E. cbn [snd] in Hn. subst e.
    destruct (lazy_grow3_step f w o w1 HSC HS HR HNE Ho E) as (SC1 & S1 & R1 & _).
    apply IH; [| | |exact HNE1|exact Hr].
    - eapply (PropGrowLazy.LSC_views ev w1); eauto. apply views_log.
    - eapply (PropGrowLazy.LSND_views fn w1); eauto.
    - apply (PropGrowLazy.LREG_REQ ev w1); [|exact R1]. apply PropGrowLazy.REQ_same; auto.
  Qed.

  (* C06 / C11 end to end: after any such history - moves included - ONE evaluateAll makes every registered bound property equal to
     its expression recomputed from scratch *)
  Theorem lazy3_reachable_one_pass f ops e w' :
    lazy_run3_ok f world0 ops ->
    let w := run fn rtl (S f) ops in
    lookup (w_bevs w) e = Some ev ->
    step1 fn rtl (S f) w (BevEvalAll e) = (w', None) ->
    forall st, nth_error (w_evps w) ev = Some st ->
    forall q x pr z, In q (regs_of w (ep_registry st)) -> lz_of w' q = Some x -> lookup (w_props w') q = Some pr ->
      PropCheck.den_node fn (values w') (b_root x) = Some z -> pr_value pr = z.
  Proof.
    intros Hok w He H st Hst.
    destruct (lazy_grow3_coherent f ops world0 (PropGrowLazy.LSC_world0 ev ev_pos) (PropGrowLazy.LSND_world0 fn) (PropGrowLazy.LREG_world0 ev ev_pos) (PropMove.NOEMIT_world0) Hok) as (HSC & HS & HR).
    change (LSC w) in HSC. change (LSND w) in HS. change (LREG w) in HR. unfold PropGrowLazy.LREG in HR. rewrite Hst in HR. destruct HR as (ND & HC & _ & _).
    destruct (lazy_evalall_consistent fn rtl ev (S f) w e st w' HSC (PropGrowLazy.LCOH_of_LSND fn ev ev_pos w (proj1 HSC) HS) He Hst ND HC H) as (_ & _ & R). exact R.
  Qed.
End MoveLazy.
