(* The link structure of the property layer: which expression leaf refers to which property, which subscription in
   which property signal belongs to which leaf, which binding updates which property.  Definitions only:
     - views of a world that forget everything the link structure does not depend on (values, caches, dirty flags,
       emitting flags, registries, the trace);
     - the conjuncts of the link invariant `pinv` (proved for every legal history in PropLinkProofs.v);
     - an executable version `pinv_b` of the same statement (run by the driver on every world reached by the generated
       scripts: a test of the statement before and besides its proof). *)
From KDB Require Import Util PropDefs.

Record leaf := { lf_tg : option nat; lf_id : nat; lf_hc : handle; lf_hm : handle; lf_hd : handle }.

Fixpoint leaves (t : node) : list leaf :=
  match t with
  | NConst _ => []
  | NProp tg _ l hc hm hd => [{| lf_tg := tg; lf_id := l; lf_hc := hc; lf_hm := hm; lf_hd := hd |}]
  | NOp1 _ _ _ a => leaves a
  | NOp2 _ _ _ a b => leaves a ++ leaves b
  | NOp3 _ _ _ a b c => leaves a ++ leaves b ++ leaves c
  end.

Definition lf_handles (lf : leaf) : list handle := [lf_hc lf; lf_hm lf; lf_hd lf].
(* the handle a leaf holds on signal k of its property *)
Definition lf_h (k : sigkind) (lf : leaf) : handle :=
  match k with KChanged => lf_hc lf | KMoved => lf_hm lf | KDestroyed => lf_hd lf | KAbout => lf_hc lf end.
Definition node_kind (k : sigkind) : Prop := k = KChanged \/ k = KMoved \/ k = KDestroyed.

Record psigs := { ps_about : option nat; ps_changed : option nat; ps_destroyed : option nat; ps_moved : option nat; ps_updater : option nat }.
Definition psig (v : psigs) (k : sigkind) : option nat :=
  match k with KAbout => ps_about v | KChanged => ps_changed v | KDestroyed => ps_destroyed v | KMoved => ps_moved v end.
Definition psigs_of (pr : prop) : psigs :=
  {| ps_about := pr_about pr; ps_changed := pr_changed pr; ps_destroyed := pr_destroyed pr; ps_moved := pr_moved pr; ps_updater := pr_updater pr |}.

(* ---------- views ---------- *)
Definition bview (w : world) (b : nat) : option (list leaf * option nat) :=
  match get_bind w b with Some x => Some (leaves (b_root x), b_target x) | None => None end.
Definition tview (w : world) (t : nat) : option (list (option (nat * subscriber)) * list nat * bool) :=
  match get_table w t with Some tb => Some (t_slots tb, t_free tb, t_alive tb) | None => None end.
Definition pview (w : world) (p : nat) : option psigs :=
  match lookup (w_props w) p with Some pr => Some (psigs_of pr) | None => None end.

Definition slot_at (w : world) (t pos ser : nat) (s : subscriber) : Prop :=
  exists sl fr al, tview w t = Some (sl, fr, al) /\ nth_error sl pos = Some (Some (ser, s)).
Definition live (w : world) (h : handle) (s : subscriber) : Prop := slot_at w (h_table h) (h_pos h) (h_serial h) s.
Definition has_leaf (w : world) (b : nat) (lf : leaf) : Prop := exists ls tg, bview w b = Some (ls, tg) /\ In lf ls.
Definition owns (w : world) (p : nat) (k : sigkind) (t : nat) : Prop := exists v, pview w p = Some v /\ psig v k = Some t.

(* ---------- the conjuncts ---------- *)
Definition none_of : nat -> Prop := fun _ => False.

(* free positions are empty and listed once *)
Definition TWF (w : world) : Prop :=
  forall t sl fr al, tview w t = Some (sl, fr, al) -> NoDup fr /\ forall i, In i fr -> nth_error sl i = Some None.
(* a signal of a live property has a live table, and no two signals share one *)
Definition OWN (S : nat -> Prop) (w : world) : Prop := forall p k t, owns w p k t -> ~ S p -> exists sl fr, tview w t = Some (sl, fr, true).
(* the table of a destroyed signal is empty *)
Definition DEAD (w : world) : Prop := forall t sl fr pos x, tview w t = Some (sl, fr, false) -> nth_error sl pos = Some x -> x = None.
Definition OWNINJ (w : world) : Prop := forall p k p' k' t, owns w p k t -> owns w p' k' t -> p = p' /\ k = k'.
(* subscribers of destroyed() and of the private moved signal never act (no re-entrancy during those walks) *)
Definition QUIET (w : world) : Prop :=
  forall p k t pos ser s, owns w p k t -> k = KDestroyed \/ k = KMoved -> slot_at w t pos ser s ->
    (exists label, s = SObs label None) \/ (exists b l, s = SNode b l).
(* a leaf never refers to a property that is gone *)
Definition LEAFX (w : world) : Prop := forall b lf p, has_leaf w b lf -> lf_tg lf = Some p -> pview w p <> None.
(* ... and is subscribed to that property's changed / moved / destroyed signal (S: properties exempted meanwhile) *)
Definition LEAFK (k : sigkind) (S : nat -> Prop) (w : world) : Prop :=
  forall b lf p, has_leaf w b lf -> lf_tg lf = Some p -> ~ S p ->
    owns w p k (h_table (lf_h k lf)) /\ live w (lf_h k lf) (SNode b (lf_id lf)).
(* every node subscription belongs to a leaf of a live binding (X: bindings under construction / destruction) ... *)
Definition SLOTX (X : nat -> Prop) (w : world) : Prop :=
  forall t pos ser b l, ~ X b -> slot_at w t pos ser (SNode b l) ->
    exists lf, has_leaf w b lf /\ lf_id lf = l /\ In {| h_table := t; h_pos := pos; h_serial := ser |} (lf_handles lf).
Definition SLOT : world -> Prop := SLOTX none_of.
(* ... which refers to the property owning that signal *)
Definition SLOTOWN (S : nat -> Prop) (w : world) : Prop :=
  forall t pos ser b l lf p k, slot_at w t pos ser (SNode b l) -> has_leaf w b lf -> lf_id lf = l -> owns w p k t -> ~ S p ->
    lf_tg lf = Some p.
Definition LEAFIDS (w : world) : Prop := forall b ls tg, bview w b = Some (ls, tg) -> NoDup (map lf_id ls).
(* serial numbers: everything issued so far is below the counter; a handle's serial designates its own kind of slot *)
Definition SER (w : world) : Prop :=
  (forall t pos ser s, slot_at w t pos ser s -> ser < w_serial w) /\
  (forall n h, lookup (w_obs w) n = Some h -> h_serial h < w_serial w) /\
  (forall b lf h, has_leaf w b lf -> In h (lf_handles lf) -> h_serial h < w_serial w).
Definition OBSN (w : world) : Prop :=
  forall n h t pos s, lookup (w_obs w) n = Some h -> slot_at w t pos (h_serial h) s -> exists label act, s = SObs label act.
Definition NODEU (w : world) : Prop :=
  forall b lf h t pos s, has_leaf w b lf -> In h (lf_handles lf) -> slot_at w t pos (h_serial h) s -> exists l, s = SNode b l.
(* updater and target are mutual; user-held bindings update nothing *)
Definition UPD (S : nat -> Prop) (w : world) : Prop :=
  forall p v b, pview w p = Some v -> ps_updater v = Some b -> ~ S p -> exists ls, bview w b = Some (ls, Some p).
Definition TGT (w : world) : Prop :=
  forall b ls p, bview w b = Some (ls, Some p) -> exists v, pview w p = Some v /\ ps_updater v = Some b.
Definition HELD (w : world) : Prop :=
  forall n b, lookup (w_held w) n = Some b -> b < length (w_binds w) /\ forall ls tg, bview w b = Some (ls, tg) -> tg = None.

(* the invariant with exemptions: X bindings whose subscriptions are being created / removed; Sc Sm Sd properties whose leaves are
   being resubscribed; So properties whose signals are changing hands; Su properties whose updater is being replaced *)
Record pinvg (X Sc Sm Sd So Su : nat -> Prop) (w : world) : Prop := {
  pi_twf : TWF w; pi_dead : DEAD w; pi_own : OWN So w; pi_owninj : OWNINJ w; pi_quiet : QUIET w;
  pi_leafx : LEAFX w; pi_leafc : LEAFK KChanged Sc w; pi_leafm : LEAFK KMoved Sm w; pi_leafd : LEAFK KDestroyed Sd w;
  pi_slot : SLOTX X w; pi_slotown : SLOTOWN So w; pi_leafids : LEAFIDS w;
  pi_ser : SER w; pi_obsn : OBSN w; pi_nodeu : NODEU w;
  pi_upd : UPD Su w; pi_tgt : TGT w; pi_held : HELD w }.

Definition pinv : world -> Prop := pinvg none_of none_of none_of none_of none_of none_of.

(* exceptions that mean "this script is not a legal program / not modelled", as opposed to library exceptions *)
Definition okx (e : option pexn) : Prop :=
  match e with Some PxBad | Some PxUnmodelled | Some PxFuel => False | _ => True end.
Definition okxb (e : option pexn) : bool :=
  match e with Some PxBad | Some PxUnmodelled | Some PxFuel => false | _ => true end.

(* ---------- executable version (a test instrument; not used by any proof) ---------- *)
Definition handle_eqb (a b : handle) : bool :=
  Nat.eqb (h_table a) (h_table b) && Nat.eqb (h_pos a) (h_pos b) && Nat.eqb (h_serial a) (h_serial b).
Definition kind_eqb (a b : sigkind) : bool :=
  match a, b with KAbout, KAbout | KChanged, KChanged | KDestroyed, KDestroyed | KMoved, KMoved => true | _, _ => false end.
Fixpoint nodupb (l : list nat) : bool :=
  match l with [] => true | x :: r => negb (existsb (Nat.eqb x) r) && nodupb r end.

Definition all_slots (w : world) : list (nat * nat * nat * subscriber) :=
  flat_map (fun '(t, tb) =>
    flat_map (fun '(pos, s) => match s with Some (ser, x) => [(t, pos, ser, x)] | None => [] end)
             (combine (seq 0 (length (t_slots tb))) (t_slots tb)))
    (combine (seq 0 (length (w_tables w))) (w_tables w)).
Definition all_leaves (w : world) : list (nat * leaf) :=
  flat_map (fun '(b, x) => if b_alive x then map (fun lf => (b, lf)) (leaves (b_root x)) else [])
           (combine (seq 0 (length (w_binds w))) (w_binds w)).
Definition all_owns (w : world) : list (nat * sigkind * nat) :=
  flat_map (fun p => match lookup (w_props w) p with
                     | Some pr => flat_map (fun k => match sig_of pr k with Some t => [(p, k, t)] | None => [] end) [KAbout; KChanged; KDestroyed; KMoved]
                     | None => [] end) (map fst (w_props w)).
Definition slot_is (w : world) (h : handle) (s : subscriber) : bool :=
  match get_table w (h_table h) with
  | Some tb => match nth_error (t_slots tb) (h_pos h) with
               | Some (Some (ser, SNode b l)) => match s with SNode b' l' => Nat.eqb ser (h_serial h) && Nat.eqb b b' && Nat.eqb l l' | _ => false end
               | _ => false end
  | None => false end.
Definition owns_b (w : world) (p : nat) (k : sigkind) (t : nat) : bool :=
  match lookup (w_props w) p with Some pr => opt_eqb Nat.eqb (sig_of pr k) (Some t) | None => false end.

Definition pinv_b (w : world) : list bool :=
  let slots := all_slots w in let lvs := all_leaves w in let ow := all_owns w in
  [ (* TWF *)
    forallb (fun tb => nodupb (t_free tb) && forallb (fun i => match nth_error (t_slots tb) i with Some None => true | _ => false end) (t_free tb)
                       && (t_alive tb || forallb (fun x => match x with None => true | Some _ => false end) (t_slots tb))) (w_tables w);
    (* OWN *)
    forallb (fun '(p, k, t) => match get_table w t with Some tb => t_alive tb | None => false end) ow;
    (* OWNINJ *)
    nodupb (map (fun '(p, k, t) => t) ow) && nodupb (map fst (w_props w));
    (* QUIET *)
    forallb (fun '(p, k, t) => match k with
                               | KDestroyed | KMoved => forallb (fun '(t', pos, ser, s) => if Nat.eqb t t' then match s with SObs _ (Some _) => false | _ => true end else true) slots
                               | _ => true end) ow;
    (* LEAFX, LEAFK *)
    forallb (fun '(b, lf) => match lf_tg lf with
                             | None => true
                             | Some p => match lookup (w_props w) p with
                                         | None => false
                                         | Some pr => forallb (fun k => owns_b w p k (h_table (lf_h k lf)) && slot_is w (lf_h k lf) (SNode b (lf_id lf))) [KChanged; KMoved; KDestroyed]
                                         end end) lvs;
    (* SLOT, SLOTOWN *)
    forallb (fun '(t, pos, ser, s) => match s with
                                      | SNode b l =>
                                          existsb (fun '(b', lf) => Nat.eqb b b' && Nat.eqb (lf_id lf) l && existsb (handle_eqb {| h_table := t; h_pos := pos; h_serial := ser |}) (lf_handles lf)) lvs &&
                                          forallb (fun '(b', lf) => if Nat.eqb b b' && Nat.eqb (lf_id lf) l then
                                                                      forallb (fun '(p, k, t') => if Nat.eqb t t' then opt_eqb Nat.eqb (lf_tg lf) (Some p) else true) ow
                                                                    else true) lvs
                                      | _ => true end) slots;
    (* LEAFIDS *)
    forallb (fun x => if b_alive x then nodupb (map lf_id (leaves (b_root x))) else true) (w_binds w);
    (* SER *)
    forallb (fun '(t, pos, ser, s) => Nat.ltb ser (w_serial w)) slots &&
    forallb (fun n => match lookup (w_obs w) n with Some h => Nat.ltb (h_serial h) (w_serial w) | None => true end) (map fst (w_obs w)) &&
    forallb (fun '(b, lf) => forallb (fun h => Nat.ltb (h_serial h) (w_serial w)) (lf_handles lf)) lvs;
    (* OBSN *)
    forallb (fun n => match lookup (w_obs w) n with
                      | Some h => forallb (fun '(t, pos, ser, s) => if Nat.eqb ser (h_serial h) then match s with SObs _ _ => true | _ => false end else true) slots
                      | None => true end) (map fst (w_obs w));
    (* NODEU *)
    forallb (fun '(b, lf) => forallb (fun h => forallb (fun '(t, pos, ser, s) => if Nat.eqb ser (h_serial h) then match s with SNode b' _ => Nat.eqb b b' | _ => false end else true) slots) (lf_handles lf)) lvs;
    (* UPD *)
    forallb (fun p => match lookup (w_props w) p with
                      | Some pr => match pr_updater pr with
                                   | Some b => match get_bind w b with Some x => opt_eqb Nat.eqb (b_target x) (Some p) | None => false end
                                   | None => true end
                      | None => true end) (map fst (w_props w));
    (* TGT *)
    forallb (fun '(b, x) => if b_alive x then match b_target x with
                                              | Some p => match lookup (w_props w) p with Some pr => opt_eqb Nat.eqb (pr_updater pr) (Some b) | None => false end
                                              | None => true end else true) (combine (seq 0 (length (w_binds w))) (w_binds w));
    (* HELD *)
    forallb (fun n => match lookup (w_held w) n with
                      | Some b => Nat.ltb b (length (w_binds w)) && match get_bind w b with Some x => match b_target x with None => true | Some _ => false end | None => true end
                      | None => true end) (map fst (w_held w)) ].
