(* Theorems proved directly on the executable property-layer model (PropDefs.v). *)
From KDB Require Import Util UtilProofs PropDefs.

Section P.
  Variable fn : nat -> list Z -> option Z.
  Variable rtl : bool.

  (* ------------------------------------------------------------------------------------------ *)
  (* C03: the change protocol, for a property whose observers are plain user observers *)

  Definition obs_only (tb : table) : Prop :=
    forall x ser s, nth_error (t_slots tb) x = Some (Some (ser, s)) -> exists label, s = SObs label None.

  Definition labels_at (tb : table) (idxs : list nat) : list nat :=
    flat_map (fun x => match nth_error (t_slots tb) x with
                       | Some (Some (_, SObs label _)) => [label]
                       | _ => [] end) idxs.

  Lemma walk_obs_only R w t p k payload tb : forall idxs,
    get_table w t = Some tb -> obs_only tb ->
    exists w', walk fn rtl R w t p k payload idxs = (w', None) /\
      w_trace w' = rev (map (fun label => EvNotify label k payload (values w p)) (labels_at tb idxs)) ++ w_trace w /\
      w_tables w' = w_tables w /\ w_props w' = w_props w /\ w_binds w' = w_binds w /\ w_evps w' = w_evps w /\
      w_bevs w' = w_bevs w /\ w_obs w' = w_obs w /\ w_held w' = w_held w /\ w_serial w' = w_serial w.
  Proof.
    intros idxs Ht Hobs. revert w Ht. induction idxs as [|x r IH]; intros w Ht; cbn [walk labels_at flat_map].
    - exists w. repeat split; reflexivity.
    - rewrite Ht. destruct (nth_error (t_slots tb) x) as [[[ser s]|]|] eqn:Hx.
      + destruct (Hobs _ _ _ Hx) as (label & ->). cbn [deliver].
        set (w1 := log (EvNotify label k payload (values w p)) w).
        assert (Ht1 : get_table w1 t = Some tb) by exact Ht.
        destruct (IH w1 Ht1) as (w' & Hw & Htr & Hrest).
        destruct payload as [|v0 pl]; cbn [app].
        * exists w'. split; [exact Hw|]. split; [|exact Hrest].
          rewrite Htr. cbn [map rev]. rewrite <- app_assoc. reflexivity.
        * exists w'. split; [exact Hw|]. split; [|exact Hrest].
          rewrite Htr. cbn [map rev]. rewrite <- app_assoc. reflexivity.
      + cbn [app]. apply IH; assumption.
      + cbn [app]. apply IH; assumption.
  Qed.

  Definition all_labels (w : world) (ot : option nat) : list nat :=
    match ot with
    | Some t => match get_table w t with Some tb => labels_at tb (seq 0 (length (t_slots tb))) | None => [] end
    | None => [] end.

  Definition table_ok (w : world) (ot : option nat) : Prop :=
    match ot with
    | None => True
    | Some t => exists tb, get_table w t = Some tb /\ obs_only tb /\ t_emitting tb = false
    end.

  Lemma emit_obs_only R w ot p k payload :
    table_ok w ot ->
    exists w', emit fn rtl R w ot p k payload = (w', None) /\
      w_trace w' = rev (map (fun label => EvNotify label k payload (values w p)) (all_labels w ot)) ++ w_trace w /\
      w_tables w' = w_tables w /\ w_props w' = w_props w /\ w_binds w' = w_binds w /\ w_evps w' = w_evps w /\
      w_bevs w' = w_bevs w /\ w_obs w' = w_obs w /\ w_held w' = w_held w /\ w_serial w' = w_serial w.
  Proof.
    intros Hok. destruct ot as [t|]; cbn [emit all_labels].
    - destruct Hok as (tb & Ht & Hobs & Hem). rewrite Ht, Hem.
      set (tb1 := {| t_slots := t_slots tb; t_free := t_free tb; t_emitting := true; t_alive := t_alive tb |}).
      set (w1 := put_table w t tb1).
      assert (Hlt : t < length (w_tables w)) by (apply nth_error_Some; unfold get_table in Ht; congruence).
      assert (Ht1 : get_table w1 t = Some tb1) by (unfold get_table, w1, put_table; cbn; apply nth_upd_same; assumption).
      assert (Hobs1 : obs_only tb1) by exact Hobs.
      destruct (walk_obs_only R w1 t p k payload tb1 (seq 0 (length (t_slots tb))) Ht1 Hobs1)
        as (w2 & Hw & Htr & Htab & Hpr & Hrest).
      rewrite Hw. unfold get_table. rewrite Htab. fold (get_table w1 t). rewrite Ht1.
      eexists. split; [reflexivity|]. cbn [put_table set_tables w_trace w_tables w_props w_binds w_evps w_bevs w_obs w_held w_serial].
      split; [exact Htr|]. split.
      + rewrite Htab. unfold w1, put_table; cbn. rewrite upd_upd. apply upd_same.
        unfold get_table in Ht. rewrite Ht. destruct tb; cbn in *; subst; reflexivity.
      + exact (conj Hpr Hrest).
    - exists w. repeat split; reflexivity.
  Qed.

  (* C03: an equal value changes nothing and notifies nobody *)
  Theorem set_equal_is_silent f w p pr :
    lookup (w_props w) p = Some pr -> set_helper fn rtl (S f) w p (pr_value pr) = (w, None).
  Proof. intros H. cbn [set_helper]. rewrite H, Z.eqb_refl. reflexivity. Qed.

  (* C03: any other value: about-to-change (old, new) to every about-observer while get() = old, then the store,
     then changed (new) to every changed-observer while get() = new; each observer exactly once, in table order *)
  Theorem set_protocol f w p v pr :
    lookup (w_props w) p = Some pr -> v <> pr_value pr ->
    table_ok w (pr_about pr) -> table_ok w (pr_changed pr) ->
    exists w', set_helper fn rtl (S f) w p v = (w', None) /\
      w_trace w' = rev (map (fun label => EvNotify label KChanged [v] (Some v)) (all_labels w (pr_changed pr)))
                   ++ rev (map (fun label => EvNotify label KAbout [pr_value pr; v] (Some (pr_value pr))) (all_labels w (pr_about pr)))
                   ++ w_trace w /\
      lookup (w_props w') p = Some (prop_set_value pr v) /\
      (forall q, q <> p -> lookup (w_props w') q = lookup (w_props w) q) /\
      w_tables w' = w_tables w /\ w_binds w' = w_binds w.
  Proof.
    intros Hp Hne Hoa Hoc. cbn [set_helper]. rewrite Hp.
    destruct (Z.eqb_spec v (pr_value pr)) as [->|_]; [contradiction|].
    destruct (emit_obs_only (set_helper fn rtl f) w (pr_about pr) p KAbout [pr_value pr; v] Hoa)
      as (w1 & He1 & Htr1 & Htab1 & Hpr1 & Hb1 & Hrest1).
    rewrite He1. rewrite Hpr1, Hp.
    set (w2 := set_props w1 (bind_key (w_props w) p (prop_set_value pr v))).
    assert (Hoc2 : table_ok w2 (pr_changed pr)).
    { destruct (pr_changed pr) as [t|]; [|exact I]. destruct Hoc as (tb & Ht & Ho & He).
      exists tb. unfold get_table, w2 in *; cbn. rewrite Htab1. auto. }
    destruct (emit_obs_only (set_helper fn rtl f) w2 (pr_changed pr) p KChanged [v] Hoc2)
      as (w3 & He3 & Htr3 & Htab3 & Hpr3 & Hb3 & Hrest3).
    cbn [prop_set_value pr_changed]. fold w2. rewrite He3.
    exists w3. split; [reflexivity|]. split.
    - assert (Hv2 : values w2 p = Some v) by (unfold values, w2; cbn [set_props w_props]; rewrite lookup_bind_same; reflexivity).
      assert (Hv0 : values w p = Some (pr_value pr)) by (unfold values; rewrite Hp; reflexivity).
      assert (Hl2 : all_labels w2 (pr_changed pr) = all_labels w (pr_changed pr)).
      { unfold all_labels, get_table, w2; cbn. rewrite Htab1. reflexivity. }
      assert (Ht2 : w_trace w2 = w_trace w1) by reflexivity.
      rewrite Htr3, Hv2, Hl2, Ht2, Htr1, Hv0. reflexivity.
    - rewrite Hpr3. unfold w2; cbn [set_props w_props w_tables w_binds].
      split; [apply lookup_bind_same|]. split; [intros q Hq; apply lookup_bind_other; assumption|].
      split; [rewrite Htab3; unfold w2; cbn; exact Htab1|rewrite Hb3; unfold w2; cbn; exact Hb1].
  Qed.

  (* C03: all write paths run the same protocol: set(), operator= and operator>> are one call of setHelper, guarded
     by the read-only check; a binding writes through setHelper as well (binding_evaluate ends in rec_set) *)
  Theorem write_paths_agree fuel w p v path1 path2 :
    step1 fn rtl fuel w (PSet p v path1) = step1 fn rtl fuel w (PSet p v path2).
  Proof. reflexivity. Qed.

  (* ------------------------------------------------------------------------------------------ *)
  (* C07: a bound property rejects every direct write and nothing changes *)
  Theorem bound_rejects_writes fuel w p v path pr b :
    lookup (w_props w) p = Some pr -> pr_updater pr = Some b ->
    step1 fn rtl fuel w (PSet p v path) = (w, Some PxReadOnly).
  Proof. intros Hp Hu. cbn [step1]. rewrite Hp, Hu. reflexivity. Qed.

  Theorem unbound_accepts_writes fuel w p v path pr :
    lookup (w_props w) p = Some pr -> pr_updater pr = None ->
    step1 fn rtl fuel w (PSet p v path) = set_helper fn rtl fuel w p v.
  Proof. intros Hp Hu. cbn [step1]. rewrite Hp, Hu. reflexivity. Qed.

  (* destroying a binding does not touch any property (value, signals, updater fields) nor any observer handle *)
  Lemma unsubscribe_props w h : w_props (fst (unsubscribe w h)) = w_props w /\ w_obs (fst (unsubscribe w h)) = w_obs w.
  Proof.
    unfold unsubscribe. destruct (get_table w (h_table h)) as [tb|]; [|auto].
    destruct (negb (t_alive tb)); [auto|].
    destruct (nth_error (t_slots tb) (h_pos h)) as [[[ser s]|]|]; auto.
    destruct (Nat.eqb ser (h_serial h)); [|auto]. destruct (t_emitting tb); auto.
  Qed.

  Lemma unsubscribe_all_props hs : forall w,
    w_props (fst (unsubscribe_all w hs)) = w_props w /\ w_obs (fst (unsubscribe_all w hs)) = w_obs w.
  Proof.
    induction hs as [|h r IH]; intros w; cbn [unsubscribe_all]; [auto|].
    destruct (unsubscribe_props w h) as [H1 H2].
    destruct (unsubscribe w h) as [w1 [e|]]; cbn [fst] in *; [auto|].
    destruct (IH w1) as [H3 H4]. split; congruence.
  Qed.

  Lemma destroy_binding_props w b :
    w_props (fst (destroy_binding w b)) = w_props w /\ w_obs (fst (destroy_binding w b)) = w_obs w.
  Proof.
    unfold destroy_binding. destruct (get_bind w b) as [x|]; [|auto].
    match goal with |- context [unsubscribe_all ?w0 ?hs] => destruct (unsubscribe_all_props hs w0) as [H1 H2] end.
    rewrite H1, H2. destruct (nth_error (w_evps w) (b_evp x)); auto.
  Qed.

  (* C07: reset keeps the value and the observers, removes the updater, and makes the property writable again *)
  Theorem reset_keeps_value fuel w p pr b w' :
    lookup (w_props w) p = Some pr -> pr_updater pr = Some b ->
    step1 fn rtl fuel w (PReset p) = (w', None) ->
    lookup (w_props w') p = Some (prop_set_updater pr None) /\
    (forall q, q <> p -> lookup (w_props w') q = lookup (w_props w) q) /\ w_obs w' = w_obs w.
  Proof.
    intros Hp Hu. cbn [step1]. rewrite Hp, Hu.
    destruct (destroy_binding_props w b) as [H1 H2].
    destruct (destroy_binding w b) as [w1 [e|]]; cbn [fst] in *; [discriminate|].
    rewrite H1, Hp. intros E; inversion E; subst w'. cbn [set_props w_props w_obs].
    split; [apply lookup_bind_same|]. split; [intros q Hq; apply lookup_bind_other; assumption|assumption].
  Qed.

  (* ------------------------------------------------------------------------------------------ *)
  (* C13: evaluation of a tree *)

  Definition root_dirty (t : node) : bool :=
    match t with
    | NConst _ => false | NProp _ d _ _ _ _ => d
    | NOp1 _ d _ _ => d | NOp2 _ d _ _ _ => d | NOp3 _ d _ _ _ _ => d end.

  (* a clean operator node hands out its cache and runs no user function; reading a property node runs none *)
  Theorem eval_clean_runs_nothing val t :
    root_dirty t = false -> snd (eval fn rtl val t) = [].
  Proof.
    destruct t as [v|tg d l hc hm hd|f d c a|f d c a b|f d c a b e]; cbn [root_dirty eval]; intros H; subst; try reflexivity.
    destruct tg as [q|]; [destruct (val q)|]; reflexivity.
  Qed.

  (* number of operator nodes in a tree *)
  Fixpoint ops (t : node) : nat :=
    match t with
    | NConst _ | NProp _ _ _ _ _ _ => 0
    | NOp1 _ _ _ a => S (ops a) | NOp2 _ _ _ a b => S (ops a + ops b) | NOp3 _ _ _ a b c => S (ops a + ops b + ops c)
    end.

  (* one evaluation of a tree calls at most one user function per operator node (each node is evaluated at most once) *)
  Theorem eval_once_per_node val : forall t, length (snd (eval fn rtl val t)) <= ops t.
  Proof.
    induction t as [v|tg d l hc hm hd|f d c a IHa|f d c a IHa b IHb|f d c a IHa b IHb e IHe]; cbn [eval ops].
    - cbn; lia.
    - destruct tg as [q|]; [destruct (val q)|]; cbn; lia.
    - destruct d; [|cbn; lia]. destruct (eval fn rtl val a) as [[a' ra] la]. cbn [snd] in *.
      destruct ra as [va|x]; [destruct (fn f [va])|]; cbn [snd]; rewrite ?app_length; cbn; lia.
    - destruct d; [|cbn; lia]. destruct rtl.
      + destruct (eval fn true val b) as [[b' rb] lb]. cbn [snd] in *. destruct rb as [vb|x]; [|cbn; lia].
        destruct (eval fn true val a) as [[a' ra] la]. cbn [snd] in *.
        destruct ra as [va|x]; [destruct (fn f [va; vb])|]; cbn [snd]; rewrite ?app_length; cbn; lia.
      + destruct (eval fn false val a) as [[a' ra] la]. cbn [snd] in *. destruct ra as [va|x]; [|cbn; lia].
        destruct (eval fn false val b) as [[b' rb] lb]. cbn [snd] in *.
        destruct rb as [vb|x]; [destruct (fn f [va; vb])|]; cbn [snd]; rewrite ?app_length; cbn; lia.
    - destruct d; [|cbn; lia]. destruct rtl.
      + destruct (eval fn true val e) as [[e' re] le]. cbn [snd] in *. destruct re as [ve|x]; [|cbn; lia].
        destruct (eval fn true val b) as [[b' rb] lb]. cbn [snd] in *. destruct rb as [vb|x]; [|cbn; rewrite ?app_length; lia].
        destruct (eval fn true val a) as [[a' ra] la]. cbn [snd] in *.
        destruct ra as [va|x]; [destruct (fn f [va; vb; ve])|]; cbn [snd]; rewrite ?app_length; cbn; lia.
      + destruct (eval fn false val a) as [[a' ra] la]. cbn [snd] in *. destruct ra as [va|x]; [|cbn; lia].
        destruct (eval fn false val b) as [[b' rb] lb]. cbn [snd] in *. destruct rb as [vb|x]; [|cbn; rewrite ?app_length; lia].
        destruct (eval fn false val e) as [[e' re] le]. cbn [snd] in *.
        destruct re as [ve|x]; [destruct (fn f [va; vb; ve])|]; cbn [snd]; rewrite ?app_length; cbn; lia.
  Qed.

  (* reading a property runs no user function and changes nothing but the trace *)
  Theorem get_is_free fuel w p pr :
    lookup (w_props w) p = Some pr -> step1 fn rtl fuel w (PGet p) = (log (EvVal (Some (pr_value pr))) w, None).
  Proof. intros H. cbn [step1]. rewrite H. reflexivity. Qed.

  (* C06 / C13: a change notification reaching a node of an evaluator-driven binding only marks: no user function,
     no write to the bound property, no notification *)
  Theorem manual_delivery_only_marks R w p payload b leaf x t up :
    get_bind w b = Some x -> b_evp x <> 0 -> mark (b_root x) leaf = Some (t, up) ->
    deliver fn rtl R w p KChanged payload (SNode b leaf) = (put_bind w b (bind_with_root x t), None).
  Proof.
    intros Hb Hev Hm. cbn [deliver]. rewrite Hb, Hm.
    destruct (Nat.eqb_spec (b_evp x) 0); [contradiction|]. destruct up; reflexivity.
  Qed.

  (* ------------------------------------------------------------------------------------------ *)
  (* C06: a change of an input whose subscribers are plain observers and nodes of evaluator-driven bindings changes
     no property value, runs no user function and notifies nobody but the input's own observers *)

  Definition manual_or_obs (w : world) (s : subscriber) : Prop :=
    match s with
    | SObs _ None => True
    | SObs _ (Some _) => False
    | SNode b _ => forall x, get_bind w b = Some x -> b_evp x <> 0
    end.

  Definition quiet_table (w : world) (tb : table) : Prop :=
    forall x ser s, nth_error (t_slots tb) x = Some (Some (ser, s)) -> manual_or_obs w s.

  Definition only_notifications (l : list event) : Prop :=
    forall e, In e l -> exists label k pl seen, e = EvNotify label k pl seen.

  Lemma get_bind_put w b x b' :
    get_bind (put_bind w b x) b' = if Nat.eqb b b' then (if Nat.ltb b (length (w_binds w)) then (if b_alive x then Some x else None) else None) else get_bind w b'.
  Proof.
    unfold get_bind, put_bind; cbn [set_binds w_binds]. rewrite nth_upd.
    destruct (Nat.eqb b b'); [|reflexivity]. destruct (Nat.ltb b (length (w_binds w))); reflexivity.
  Qed.

  Lemma walk_quiet R w t p payload tb : forall idxs,
    get_table w t = Some tb -> quiet_table w tb ->
    exists l, w_trace (fst (walk fn rtl R w t p KChanged payload idxs)) = l ++ w_trace w /\ only_notifications l /\
      w_props (fst (walk fn rtl R w t p KChanged payload idxs)) = w_props w /\
      w_tables (fst (walk fn rtl R w t p KChanged payload idxs)) = w_tables w.
  Proof.
    intros idxs. revert w. induction idxs as [|x r IH]; intros w Ht Hq; cbn [walk].
    - exists []. repeat split; auto. intros e [].
    - rewrite Ht. destruct (nth_error (t_slots tb) x) as [[[ser s]|]|] eqn:Hx; [|apply IH; assumption|apply IH; assumption].
      pose proof (Hq _ _ _ Hx) as Hs. destruct s as [label [q|]|b leaf]; cbn [manual_or_obs] in Hs; [contradiction| |].
      + assert (Hd : deliver fn rtl R w p KChanged payload (SObs label None) = (log (EvNotify label KChanged payload (values w p)) w, None))
          by (cbn [deliver]; destruct payload; reflexivity).
        rewrite Hd.
        set (w1 := log (EvNotify label KChanged payload (values w p)) w).
        assert (Hq1 : quiet_table w1 tb) by exact Hq.
        destruct (IH w1 Ht Hq1) as (l & Hl & Hn & Hp & Htb).
        exists (l ++ [EvNotify label KChanged payload (values w p)]). rewrite Hl. unfold w1; cbn [log w_trace].
        rewrite <- app_assoc. repeat split; auto.
        intros e He. apply in_app_or in He. destruct He as [He|[<-|[]]]; [apply Hn; assumption|eauto].
      + cbn [deliver]. destruct (get_bind w b) as [x0|] eqn:Hb.
        2:{ exists []. cbn. repeat split; auto. intros e []. }
        specialize (Hs x0 eq_refl).
        destruct (mark (b_root x0) leaf) as [[t' up]|].
        2:{ exists []. cbn. repeat split; auto. intros e []. }
        destruct (Nat.eqb_spec (b_evp x0) 0) as [E|_]; [contradiction|].
        set (w1 := put_bind w b (bind_with_root x0 t')).
        assert (Hw1 : (if up then ok w1 else ok w1) = (w1, None)) by (destruct up; reflexivity).
        rewrite Hw1.
        assert (Ht1 : get_table w1 t = Some tb) by exact Ht.
        assert (Hq1 : quiet_table w1 tb).
        { intros y ser' s' Hy. specialize (Hq _ _ _ Hy). destruct s' as [l' [q'|]|b' leaf']; cbn [manual_or_obs] in *; auto.
          intros x' Hx'. unfold w1 in Hx'. rewrite get_bind_put in Hx'.
          destruct (Nat.eqb_spec b b') as [<-|Hne]; [|apply Hq; assumption].
          destruct (Nat.ltb b (length (w_binds w))); [|discriminate].
          cbn [bind_with_root b_alive] in Hx'. destruct (b_alive x0); inversion Hx'; subst. cbn. assumption. }
        destruct (IH w1 Ht1 Hq1) as (l & Hl & Hn & Hp & Htb).
        exists l. repeat split; auto.
  Qed.

  Lemma emit_quiet R w t p payload tb :
    get_table w t = Some tb -> quiet_table w tb ->
    exists l, w_trace (fst (emit fn rtl R w (Some t) p KChanged payload)) = l ++ w_trace w /\ only_notifications l /\
              w_props (fst (emit fn rtl R w (Some t) p KChanged payload)) = w_props w.
  Proof.
    intros Ht Hq. cbn [emit]. rewrite Ht.
    destruct (t_emitting tb); [exists []; cbn; repeat split; auto; intros e []|].
    set (tb1 := {| t_slots := t_slots tb; t_free := t_free tb; t_emitting := true; t_alive := t_alive tb |}).
    set (w1 := put_table w t tb1).
    assert (Hlt : t < length (w_tables w)) by (apply nth_error_Some; unfold get_table in Ht; congruence).
    assert (Ht1 : get_table w1 t = Some tb1) by (unfold get_table, w1, put_table; cbn; apply nth_upd_same; assumption).
    assert (Hq1 : quiet_table w1 tb1) by exact Hq.
    destruct (walk_quiet R w1 t p payload tb1 (seq 0 (length (t_slots tb))) Ht1 Hq1) as (l & Hl & Hn & Hp & Htb).
    destruct (walk fn rtl R w1 t p KChanged payload (seq 0 (length (t_slots tb)))) as [w2 e]. cbn [fst] in *.
    exists l. destruct (get_table w2 t); cbn [fst put_table set_tables w_trace w_props]; repeat split; auto.
  Qed.

  (* the whole assignment *)
  Theorem set_is_silent_for_manual f w p v pr t tb :
    lookup (w_props w) p = Some pr -> v <> pr_value pr ->
    table_ok w (pr_about pr) -> pr_changed pr = Some t -> get_table w t = Some tb -> quiet_table w tb ->
    exists l, w_trace (fst (set_helper fn rtl (S f) w p v)) = l ++ w_trace w /\ only_notifications l /\
              lookup (w_props (fst (set_helper fn rtl (S f) w p v))) p = Some (prop_set_value pr v) /\
              (forall q, q <> p -> lookup (w_props (fst (set_helper fn rtl (S f) w p v))) q = lookup (w_props w) q).
  Proof.
    intros Hp Hne Hoa Hc Ht Hq. cbn [set_helper]. rewrite Hp.
    destruct (Z.eqb_spec v (pr_value pr)) as [->|_]; [contradiction|].
    destruct (emit_obs_only (set_helper fn rtl f) w (pr_about pr) p KAbout [pr_value pr; v] Hoa)
      as (w1 & He1 & Htr1 & Htab1 & Hpr1 & Hb1 & Hrest1).
    rewrite He1, Hpr1, Hp.
    set (w2 := set_props w1 (bind_key (w_props w) p (prop_set_value pr v))).
    cbn [prop_set_value pr_changed]. fold w2. rewrite Hc.
    assert (Ht2 : get_table w2 t = Some tb) by (unfold get_table, w2 in *; cbn; rewrite Htab1; exact Ht).
    assert (Hq2 : quiet_table w2 tb).
    { intros y ser s Hy. specialize (Hq _ _ _ Hy). destruct s as [l' [q'|]|b' leaf']; cbn [manual_or_obs] in *; auto.
      intros x' Hx'. apply Hq. unfold get_bind, w2 in *; cbn in Hx'. rewrite Hb1 in Hx'. exact Hx'. }
    destruct (emit_quiet (set_helper fn rtl f) w2 t p [v] tb Ht2 Hq2) as (l & Hl & Hn & Hprops).
    exists (l ++ rev (map (fun label => EvNotify label KAbout [pr_value pr; v] (values w p)) (all_labels w (pr_about pr)))).
    split; [rewrite Hl; unfold w2; cbn [set_props w_trace]; rewrite Htr1, <- app_assoc; reflexivity|].
    split.
    - intros e He. apply in_app_or in He. destruct He as [He|He]; [apply Hn; assumption|].
      apply in_rev in He. apply in_map_iff in He. destruct He as (lab & <- & _). eauto.
    - rewrite Hprops. unfold w2; cbn [set_props w_props].
      split; [apply lookup_bind_same|intros q Hq0; apply lookup_bind_other; assumption].
  Qed.

  Lemma log_fns_props l : forall w, w_props (log_fns l w) = w_props w.
  Proof. induction l as [|f r IH]; intros w; cbn [log_fns]; [reflexivity|]. rewrite IH. reflexivity. Qed.

  (* C10: an evaluation that fails (dead input, throwing function) raises before the update function is called *)
  Theorem failed_evaluation_keeps_value R w b x t e l :
    get_bind w b = Some x -> eval fn rtl (values w) (b_root x) = (t, inr e, l) ->
    w_props (fst (binding_evaluate fn rtl R w b)) = w_props w /\ snd (binding_evaluate fn rtl R w b) = Some e.
  Proof.
    intros Hb He. unfold binding_evaluate. rewrite Hb, He. cbn [fst snd throw].
    split; [|reflexivity]. rewrite log_fns_props. reflexivity.
  Qed.

  Theorem dead_leaf_reports val d l hc hm hd :
    eval fn rtl val (NProp None d l hc hm hd) = (NProp None d l hc hm hd, inr PxDestroyed, []).
  Proof. reflexivity. Qed.
End P.
