(* Refinement with writing observers of BOTH signals (coq/PropAbsAct2.v): besides the observers of valueChanged of coq/PropSimAct.v, observers of
   valueAboutToChange of UNBOUND properties may assign the old value to another property.  Same structure as PropSimAct.v; the recursive knot
   of the abstract side is the pair (set2 f, notify2 f) for the knot `set_helper f` of the executable side. *)
From Coq Require Import List Arith ZArith Lia Bool.
Import ListNotations.
From KDB Require Import Util UtilProofs PropDefs PropFlags PropLink PropLinkBasics PropLinkOps PropLinkTheorems PropSim PropSimAct.
From KDB Require PropAbs PropAbsProofs PropAbsAct PropAbsAct2 PropProofs.
Module C2 := PropAbsAct2.

Section SimAct2.
  Variable fn : nat -> list Z -> option Z.
  Variable rtl : bool.
  Notation F1 := (PropSim.F1 fn).
  Notation F2 := (PropSim.F2 fn).
  Notation F3 := (PropSim.F3 fn).
  Notation abs_tree := PropSim.abs_tree.
  Notation Rel := PropSim.Rel.
  Notation FR := PropSim.FR.
  Notation SIMPLE := PropSim.SIMPLE.
  Notation imm := PropSim.imm.
  Notation imm_of := PropSim.imm_of.
  Notation sub_of := PropSimAct.sub_of.
  Notation ord_slots' := PropSimAct.ord_slots'.
  Notation ORD' := PropSimAct.ORD'.

  Definition unbound (w : world) (p : nat) : Prop := exists v, pview w p = Some v /\ ps_updater v = None.
  (* every acting observer assigns; it listens to valueChanged of some property or to valueAboutToChange of an unbound one *)
  Definition ACTB (w : world) : Prop :=
    forall t pos ser label a, slot_at w t pos ser (SObs label (Some a)) ->
      exists tgt p, a = (false, tgt) /\ (owns w p KChanged t \/ (owns w p KAbout t /\ unbound w p)).
  Definition SCB (w : world) : Prop := pinv w /\ ACTB w /\ SIMPLE w.

  Definition tgt_of (w : world) (x : option (option (nat * subscriber))) : list nat :=
    match x with
    | Some (Some (_, SObs _ (Some (false, tgt)))) => match pview w tgt with Some _ => [tgt] | None => [] end
    | _ => []
    end.
  Definition ord_slotsA (w : world) (sl : list (option (nat * subscriber))) (idxs : list nat) : list nat :=
    flat_map (fun x => tgt_of w (nth_error sl x)) idxs.
  Definition ORDA (w : world) (p : nat) : list nat :=
    match pview w p with
    | Some v => match ps_about v with
                | Some t => match tview w t with Some (sl, _, _) => ord_slotsA w sl (seq 0 (length sl)) | None => [] end
                | None => [] end
    | None => [] end.

  Lemma ord_slotsA_FR w w' sl idxs : FR w w' -> ord_slotsA w' sl idxs = ord_slotsA w sl idxs.
  Proof.
    intros (_ & _ & A3 & _). unfold ord_slotsA. apply flat_map_ext. intros x. unfold tgt_of.
    destruct (nth_error sl x) as [[[ser [label [[[|] tgt]|]|b l]]|]|]; try reflexivity. rewrite A3. reflexivity.
  Qed.
  Lemma FR_ORDA w w' p : FR w w' -> ORDA w' p = ORDA w p.
  Proof.
    intros F. pose proof F as (A1 & A2 & A3 & _). unfold ORDA. rewrite A3. destruct (pview w p) as [v|]; [|reflexivity]. destruct (ps_about v) as [t|]; [|reflexivity].
    rewrite A2. destruct (tview w t) as [[[sl fr] al]|]; [|reflexivity]. apply ord_slotsA_FR. exact F.
  Qed.

  Lemma SCB_FR w w' : FR w w' -> pinv w -> ACTB w -> pinv w' /\ ACTB w'.
  Proof.
    intros F Hinv Hn. split; [eapply pinv_views; [apply PropSim.FR_views; exact F|exact Hinv]|].
    intros t pos ser label a Hs. destruct F as (_ & T & P & _). unfold slot_at in Hs. rewrite T in Hs.
    destruct (Hn t pos ser label a Hs) as (tgt & p & E & Ho). exists tgt, p. split; [exact E|].
    destruct Ho as [(v & Pv & Sv)|((v & Pv & Sv) & (u & Pu & Uu))]; [left; exists v; rewrite P; auto|right; split; [exists v; rewrite P; auto|exists u; rewrite P; auto]].
  Qed.

  (* no writing observer listens to valueAboutToChange of a bound property *)
  Lemma ORDA_bound w q vq b : pinv w -> ACTB w -> pview w q = Some vq -> ps_updater vq = Some b -> ORDA w q = [].
  Proof.
    intros Hinv Hna Pv Uq. unfold ORDA. rewrite Pv. destruct (ps_about vq) as [t|] eqn:Ea; [|reflexivity].
    destruct (tview w t) as [[[sl fr] al]|] eqn:Tv; [|reflexivity].
    assert (Ho : owns w q KAbout t) by (exists vq; auto).
    unfold ord_slotsA. induction (seq 0 (length sl)) as [|x r IH]; cbn [flat_map]; [reflexivity|]. rewrite IH, app_nil_r.
    unfold tgt_of. destruct (nth_error sl x) as [[[ser [label [[[|] tgt]|]|b' l]]|]|] eqn:Hx; try reflexivity.
    exfalso. destruct (Hna t x ser label (false, tgt)) as (tgt' & p & _ & Hor); [exists sl, fr, al; auto|].
    destruct Hor as [Hc|(Hab & (u & Pu & Uu))].
    - destruct (pi_owninj _ _ _ _ _ _ _ Hinv _ _ _ _ _ Ho Hc) as (_ & E). discriminate E.
    - destruct (pi_owninj _ _ _ _ _ _ _ Hinv _ _ _ _ _ Ho Hab) as (E & _). subst p. rewrite Pv in Pu. inversion Pu; subst u. congruence.
  Qed.

  Section DeliverB.
    Variable order' : nat -> list C.sub.
    Variable orderA : nat -> list nat.
    Variable f : nat.
    Variable R : world -> nat -> Z -> res.
    Notation SR := (C2.set2 F1 F2 F3 order' orderA f).
    Notation N := (C2.notify2 F1 F2 F3 order' orderA f).
    Definition ORDOKB (w : world) : Prop := (forall p, order' p = ORD' w p) /\ (forall p, orderA p = ORDA w p).
    Lemma ORDOKB_FR w w' : FR w w' -> ORDOKB w -> ORDOKB w'.
    Proof. intros F [H1 H2]. split; intros p; [rewrite (PropSimAct.FR_ORD' _ _ p F); apply H1|rewrite (FR_ORDA _ _ p F); apply H2]. Qed.
    Hypothesis HR : forall w q v w' s, SCB w -> ORDOKB w -> Rel w s -> R w q v = (w', None) ->
                      SCB w' /\ FR w w' /\ Rel w' (SR s q v).

    Definition aact (w : world) (s : A.state) (v0 : Z) (tgt : nat) : A.state :=
      match pview w tgt with Some _ => C2.act2 SR s v0 tgt | None => s end.
    Definition adeliver2 (w : world) (s : A.state) (v0 : Z) (sub : subscriber) : A.state :=
      match sub with
      | SNode b l => match imm w b with Some q => A.deliver F1 F2 F3 (C.nrec2 N) s (q, l) | None => s end
      | SObs _ (Some (false, tgt)) => aact w s v0 tgt
      | SObs _ _ => s
      end.

    (* an observer that writes: the nested assignment (payload v0: the announced value, or the old value for valueAboutToChange) *)
    Lemma sim_act w s p k payload v0 rest label tgt w' :
      SCB w -> ORDOKB w -> Rel w s -> payload = v0 :: rest ->
      deliver fn rtl R w p k payload (SObs label (Some (false, tgt))) = (w', None) ->
      SCB w' /\ FR w w' /\ Rel w' (aact w s v0 tgt).
    Proof.
      intros (Hinv & Hna & Hsi) Hord HRel -> H. cbn [deliver] in H.
      assert (SCl : SCB (log (EvNotify label k (v0 :: rest) (values w p)) w)).
      { split; [exact (pinv_views _ _ (views_log _ w) Hinv)|split; [exact Hna|exact Hsi]]. }
      assert (FRl : FR w (log (EvNotify label k (v0 :: rest) (values w p)) w)) by (repeat split).
      change (lookup (w_props (log (EvNotify label k (v0 :: rest) (values w p)) w)) tgt) with (lookup (w_props w) tgt) in H.
      unfold aact, pview. destruct (lookup (w_props w) tgt) as [pr|] eqn:Hp.
      - destruct (pr_updater pr) as [bu|] eqn:Hu; [discriminate H|].
        destruct (HR _ _ _ _ _ SCl (ORDOKB_FR _ _ FRl Hord) HRel H) as (SC' & FR' & Rel').
        split; [exact SC'|]. split; [eapply PropSim.FR_trans; [exact FRl|exact FR']|].
        destruct HRel as (R1 & R2 & R3). unfold C2.act2. rewrite R3, R2. unfold PropSim.imm_of. rewrite Hp, Hu. exact Rel'.
      - inversion H; subst w'. split; [exact SCl|]. split; [exact FRl|exact HRel].
    Qed.

    Lemma sim_deliver2 w s p v0 sub w' :
      SCB w -> ORDOKB w -> Rel w s ->
      (forall label a, sub = SObs label (Some a) -> exists tgt, a = (false, tgt)) ->
      deliver fn rtl R w p KChanged [v0] sub = (w', None) ->
      SCB w' /\ FR w w' /\ Rel w' (adeliver2 w s v0 sub).
    Proof.
      intros HSCB Hord HRel Hact H. pose proof HSCB as (Hinv & Hna & Hsi). destruct sub as [label act|b l]; cbn [adeliver2] in *.
      - destruct act as [[[|] tgt]|].
        + destruct (Hact _ _ eq_refl) as (tgt' & E). discriminate E.
        + exact (sim_act w s p KChanged [v0] v0 [] label tgt w' HSCB Hord HRel eq_refl H).
        + cbn [deliver] in H. inversion H; subst w'.
          split; [split; [exact (pinv_views _ _ (views_log _ w) Hinv)|split; [exact Hna|exact Hsi]]|]. split; [repeat split|exact HRel].
      - cbn [deliver] in H.
        destruct (get_bind w b) as [x|] eqn:Hb; [|discriminate H].
        destruct (mark (b_root x) l) as [[t1 up]|] eqn:Hm; [|discriminate H].
        pose proof (leaves_mark _ _ _ _ Hm) as Hl1.
        set (w1 := put_bind w b (bind_with_root x t1)) in *.
        pose proof (PropSim.put_root_FR w b x t1 Hb Hl1) as FR1.
        destruct (SCB_FR _ _ FR1 Hinv Hna) as [Hinv1 Hna1].
        destruct (imm w b) as [q|] eqn:Hi.
        + (* an immediate-mode binding that updates q *)
          assert (Hevp : Nat.eqb (b_evp x) 0 = true /\ b_target x = Some q).
          { unfold imm in Hi. rewrite Hb in Hi. destruct (Nat.eqb (b_evp x) 0); [auto|discriminate Hi]. }
          destruct Hevp as [Hevp Htg].
          assert (Bv : bview w b = Some (leaves (b_root x), Some q)) by (unfold bview; rewrite Hb, Htg; reflexivity).
          destruct (pi_tgt _ _ _ _ _ _ _ Hinv _ _ _ Bv) as (vq & Evq & Euq).
          assert (Himm : imm_of w q = Some x).
          { unfold imm_of. unfold pview in Evq. destruct (lookup (w_props w) q) as [pr|]; [|discriminate Evq]. assert (vq = psigs_of pr) by congruence. subst vq.
            cbn in Euq. rewrite Euq, Hb, Hevp. reflexivity. }
          destruct HRel as (R1 & R2 & R3).
          destruct (abs_tree (b_root x)) as [T|] eqn:HT; [|exfalso; exact (Hsi _ _ Himm HT)].
          assert (Htr : A.tr s q = Some T) by (rewrite R2, Himm; exact HT).
          destruct (PropSim.sim_mark fn _ _ _ _ _ HT (PropSim.abs_nodup _ _ _ _ Hinv Hb HT) Hm) as [Et1 Eup].
          unfold A.deliver. rewrite R3, Htr. destruct (A.mark T l) as [T1 up'] eqn:HmT. cbn [fst snd] in *. subst up'.
          assert (Hsi1 : forall t T', abs_tree t = Some T' -> leaves t = leaves (b_root x) -> SIMPLE (put_bind w b (bind_with_root x t))).
          { intros t T' Ht _ q' x' Hx'. unfold imm_of in Hx'. change (w_props (put_bind w b (bind_with_root x t))) with (w_props w) in Hx'.
            destruct (lookup (w_props w) q') as [pr'|] eqn:Hp'; [|discriminate Hx']. destruct (pr_updater pr') as [b'|] eqn:Hu'; [|discriminate Hx'].
            rewrite (PropSim.get_bind_put_root _ _ _ _ _ Hb) in Hx'. destruct (Nat.eqb_spec b b') as [<-|Hne].
            - cbn [bind_with_root b_evp] in Hx'. rewrite Hevp in Hx'. inversion Hx'; subst. cbn [bind_with_root b_root]. congruence.
            - apply (Hsi q' x'). unfold imm_of. rewrite Hp', Hu'. exact Hx'. }
          destruct up.
          * (* the walk reached the root: Binding::markDirty evaluates at once *)
            rewrite Hevp in H. unfold binding_evaluate in H.
            assert (Hb1 : get_bind w1 b = Some (bind_with_root x t1)) by (unfold w1; rewrite (PropSim.get_bind_put_root _ _ _ _ _ Hb), Nat.eqb_refl; reflexivity).
            rewrite Hb1 in H. cbn [bind_with_root b_root b_target] in H.
            destruct (eval fn rtl (values w1) t1) as [[t2 r] lg] eqn:He. destruct r as [v'|ex]; [|discriminate H].
            rewrite Htg in H.
            assert (Rel1 : Rel w1 {| A.env := A.env s; A.tr := A.set_tr (A.tr s) q T1; A.oof := false |}).
            { apply (PropSim.put_root_Rel_imm w s b x t1 T1 q Hinv (conj R1 (conj R2 R3)) Hb Hi Et1). }
            assert (Hval : forall p0 lid, In (p0, lid) (A.leaves T1) -> values w1 p0 = Some (A.env s p0)).
            { intros p0 lid Hin. change (values w1 p0) with (values w p0). eapply (PropSim.values_env w s p0 lid T b x Hinv (conj R1 (conj R2 R3)) Hb HT).
              pose proof (PropAbsProofs.mark_leaves T l) as ML. rewrite HmT in ML. cbn [fst] in ML. rewrite <- ML. exact Hin. }
            destruct (PropSim.sim_eval fn rtl (values w1) (A.env s) t1 T1 t2 v' lg Et1 Hval He) as [Et2 Ev'].
            destruct (A.eval F1 F2 F3 (A.env s) T1) as [T2 vT] eqn:HeT. cbn [fst snd] in *. subst vT.
            pose proof (leaves_eval fn rtl (values w1) t1) as Hl2. rewrite He in Hl2. cbn [fst] in Hl2.
            set (w2 := log_fns lg (put_bind w1 b (bind_with_root (bind_with_root x t1) t2))) in *.
            assert (Eq2 : put_bind w1 b (bind_with_root (bind_with_root x t1) t2) = put_bind w b (bind_with_root x t2)).
            { unfold w1, put_bind; cbn [set_binds w_binds w_tables w_props w_evps w_bevs w_obs w_held w_serial w_trace bind_with_root b_root b_evp b_regid b_target b_alive].
              rewrite upd_upd. reflexivity. }
            assert (Hl2' : leaves t2 = leaves (b_root x)) by congruence.
            pose proof (PropSim.put_root_FR w b x t2 Hb Hl2') as FR2.
            assert (FR2' : FR w w2) by (eapply PropSim.FR_trans; [exact FR2|]; unfold w2; rewrite Eq2; apply PropSim.FR_log_fns).
            destruct (SCB_FR _ _ FR2' Hinv Hna) as [Hinv2 Hna2].
            assert (Rel2 : Rel w2 {| A.env := A.env s; A.tr := A.set_tr (A.tr s) q T2; A.oof := false |}).
            { unfold w2. rewrite Eq2. apply PropSim.Rel_log_fns. apply (PropSim.put_root_Rel_imm w s b x t2 T2 q Hinv (conj R1 (conj R2 R3)) Hb Hi Et2). }
            assert (Hsi2 : SIMPLE w2) by (unfold w2; rewrite Eq2; apply PropSim.SIMPLE_log_fns; exact (Hsi1 t2 T2 Et2 Hl2')).
            destruct (HR _ _ _ _ _ (conj Hinv2 (conj Hna2 Hsi2)) (ORDOKB_FR _ _ FR2' Hord) Rel2 H) as (SC' & FR' & Rel').
            split; [exact SC'|]. split; [eapply PropSim.FR_trans; eauto|].
            (* the nested assignment to the bound property q: no writing about-to-change observer sits on a bound property *)
            assert (EA : orderA q = []).
            { rewrite (proj2 Hord q). apply (ORDA_bound w q vq b Hinv Hna Evq Euq). }
            destruct f as [|f']; [destruct Rel' as (_ & _ & Q3); cbn in Q3; discriminate Q3|].
            cbn [C2.set2] in Rel'. unfold C2.set_body2 in Rel'. cbn [A.env A.tr A.oof] in Rel'.
            destruct (Z.eqb v' (A.env s q)); [exact Rel'|].
            unfold C2.about_body2 in Rel'. rewrite EA in Rel'. cbn [fold_left A.oof A.env A.tr] in Rel'.
            unfold C.nrec2. cbn [A.env C2.notify2]. unfold A.set_env at 2. rewrite Nat.eqb_refl. exact Rel'.
          * (* the walk stopped at a node that was dirty already *)
            inversion H; subst w'. split; [exact (conj Hinv1 (conj Hna1 (Hsi1 t1 T1 Et1 Hl1)))|]. split; [exact FR1|].
            apply (PropSim.put_root_Rel_imm w s b x t1 T1 q Hinv (conj R1 (conj R2 R3)) Hb Hi Et1).
        + (* an evaluator-driven binding, or a binding that updates nothing *)
          assert (Hsi1 : forall t, SIMPLE (put_bind w b (bind_with_root x t))).
          { intros t q' x' Hx'. unfold imm_of in Hx'. change (w_props (put_bind w b (bind_with_root x t))) with (w_props w) in Hx'.
            destruct (lookup (w_props w) q') as [pr'|] eqn:Hp'; [|discriminate Hx']. destruct (pr_updater pr') as [b'|] eqn:Hu'; [|discriminate Hx'].
            rewrite (PropSim.get_bind_put_root _ _ _ _ _ Hb) in Hx'. destruct (Nat.eqb_spec b b') as [<-|Hne].
            - exfalso. cbn [bind_with_root b_evp] in Hx'. destruct (Nat.eqb (b_evp x) 0) eqn:Eevp; [|discriminate Hx'].
              assert (Pv' : pview w q' = Some (psigs_of pr')) by (unfold pview; rewrite Hp'; reflexivity).
              destruct (pi_upd _ _ _ _ _ _ _ Hinv _ _ _ Pv' Hu' (fun z => z)) as (ls & Eb). unfold bview in Eb. rewrite Hb in Eb.
              unfold imm in Hi. rewrite Hb, Eevp in Hi. congruence.
            - apply (Hsi q' x'). unfold imm_of. rewrite Hp', Hu'. exact Hx'. }
          destruct up.
          * destruct (Nat.eqb (b_evp x) 0) eqn:Eevp.
            -- (* immediate, but the update function is the default one: evaluate, nothing else *)
               unfold binding_evaluate in H.
               assert (Hb1 : get_bind w1 b = Some (bind_with_root x t1)) by (unfold w1; rewrite (PropSim.get_bind_put_root _ _ _ _ _ Hb), Nat.eqb_refl; reflexivity).
               rewrite Hb1 in H. cbn [bind_with_root b_root b_target] in H.
               destruct (eval fn rtl (values w1) t1) as [[t2 r] lg] eqn:He. destruct r as [v'|ex]; [|discriminate H].
               assert (Htg : b_target x = None) by (unfold imm in Hi; rewrite Hb, Eevp in Hi; exact Hi). rewrite Htg in H. inversion H; subst w'.
               pose proof (leaves_eval fn rtl (values w1) t1) as Hl2. rewrite He in Hl2. cbn [fst] in Hl2.
               assert (Eq2 : put_bind w1 b (bind_with_root (bind_with_root x t1) t2) = put_bind w b (bind_with_root x t2)).
               { unfold w1, put_bind; cbn [set_binds w_binds w_tables w_props w_evps w_bevs w_obs w_held w_serial w_trace bind_with_root b_root b_evp b_regid b_target b_alive].
                 rewrite upd_upd. reflexivity. }
               rewrite Eq2. assert (Hl2' : leaves t2 = leaves (b_root x)) by congruence.
               pose proof (PropSim.put_root_FR w b x t2 Hb Hl2') as FR2.
               assert (FR2' : FR w (log_fns lg (put_bind w b (bind_with_root x t2)))) by (eapply PropSim.FR_trans; [exact FR2|apply PropSim.FR_log_fns]).
               destruct (SCB_FR _ _ FR2' Hinv Hna) as [Hinv2 Hna2].
               split; [split; [exact Hinv2|split; [exact Hna2|apply PropSim.SIMPLE_log_fns; apply Hsi1]]|split; [exact FR2'|]].
               apply PropSim.Rel_log_fns. apply (PropSim.put_root_Rel_other w s b x t2 Hinv HRel Hb Hi).
            -- inversion H; subst w'. split; [exact (conj Hinv1 (conj Hna1 (Hsi1 t1)))|]. split; [exact FR1|].
               apply (PropSim.put_root_Rel_other w s b x t1 Hinv HRel Hb Hi).
          * inversion H; subst w'. split; [exact (conj Hinv1 (conj Hna1 (Hsi1 t1)))|]. split; [exact FR1|].
            apply (PropSim.put_root_Rel_other w s b x t1 Hinv HRel Hb Hi).
    Qed.

    Lemma sim_walk2 t p v0 sl fr al : forall idxs w s w',
      SCB w -> ORDOKB w -> Rel w s -> tview w t = Some (sl, fr, al) ->
      walk fn rtl R w t p KChanged [v0] idxs = (w', None) ->
      SCB w' /\ FR w w' /\ Rel w' (fold_left (C2.deliver2 F1 F2 F3 SR N v0) (ord_slots' w sl idxs) s).
    Proof.
      induction idxs as [|x r IH]; intros w s w' HSC Hord HRel Ht H; cbn [walk PropSimAct.ord_slots' flat_map] in *.
      - inversion H; subst. split; [exact HSC|]. split; [apply PropSim.FR_refl|exact HRel].
      - apply tview_Some in Ht. destruct Ht as (tb & Hgt & Esl & Efr & Eal). rewrite Hgt, Esl in H.
        assert (Tv : tview w t = Some (sl, fr, al)) by (unfold tview; rewrite Hgt; congruence).
        fold (ord_slots' w sl r).
        destruct (nth_error sl x) as [[[ser sub]|]|] eqn:Hx.
        + destruct (deliver fn rtl R w p KChanged [v0] sub) as [w1 [ex|]] eqn:Hd; [discriminate H|].
          destruct (sim_deliver2 w s p v0 sub w1 HSC Hord HRel) as (SC1 & FR1 & Rel1); [|exact Hd|].
          { intros label a ->. destruct HSC as (_ & Hna & _). destruct (Hna t x ser label a) as (tgt & p' & E & _); [exists sl, fr, al; auto|]. exists tgt. exact E. }
          assert (Tv1 : tview w1 t = Some (sl, fr, al)) by (destruct FR1 as (_ & T1 & _); rewrite T1; exact Tv).
          destruct (IH w1 _ w' SC1 (ORDOKB_FR _ _ FR1 Hord) Rel1 Tv1 H) as (SC' & FR' & Rel').
          split; [exact SC'|]. split; [eapply PropSim.FR_trans; eauto|].
          rewrite (PropSimAct.ord_slots'_FR _ _ sl r FR1) in Rel'. rewrite fold_left_app.
          replace (fold_left (C2.deliver2 F1 F2 F3 SR N v0) (sub_of w (Some (Some (ser, sub)))) s) with (adeliver2 w s v0 sub); [exact Rel'|].
          unfold PropSimAct.sub_of, adeliver2, aact. destruct sub as [label [[[|] tgt]|]|b l]; try reflexivity.
          * destruct (pview w tgt); reflexivity.
          * destruct (imm w b); reflexivity.
        + cbn [PropSimAct.sub_of app]. apply IH; auto.
        + cbn [PropSimAct.sub_of app]. apply IH; auto.
    Qed.

    Lemma sim_emit_changed2 w s p v0 ot w' :
      SCB w -> ORDOKB w -> Rel w s -> (exists vp, pview w p = Some vp /\ ps_changed vp = ot) ->
      emit fn rtl R w ot p KChanged [v0] = (w', None) ->
      SCB w' /\ FR w w' /\ Rel w' (C2.notify_body2 F1 F2 F3 order' SR N s p v0).
    Proof.
      intros HSC Hord HRel (vp & Hvp & Hch) H. unfold C2.notify_body2. rewrite (proj1 Hord p). unfold PropSimAct.ORD'. rewrite Hvp, Hch.
      unfold emit in H. destruct ot as [t|]; [|inversion H; subst; split; [exact HSC|split; [apply PropSim.FR_refl|exact HRel]]].
      destruct (get_table w t) as [tb|] eqn:Hgt; [|discriminate H]. destruct (t_emitting tb) eqn:Hem; [discriminate H|].
      assert (Tv : tview w t = Some (t_slots tb, t_free tb, t_alive tb)) by (unfold tview; rewrite Hgt; reflexivity). rewrite Tv.
      set (w1 := put_table w t _) in *.
      pose proof (views_put_flag w t tb true Hgt) as (V1 & V2 & V3 & V4 & V5 & V6 & V7).
      assert (F1' : FR w w1) by (split; [intros b; reflexivity|repeat split; auto]).
      destruct HSC as (Hinv & Hna & Hsi). destruct (SCB_FR _ _ F1' Hinv Hna) as [Hinv1 Hna1].
      assert (Rel1 : Rel w1 s) by exact HRel.
      assert (Tv1 : tview w1 t = Some (t_slots tb, t_free tb, t_alive tb)) by (rewrite V2; exact Tv).
      destruct (walk fn rtl R w1 t p KChanged [v0] (seq 0 (length (t_slots tb)))) as [w2 e2] eqn:Hw.
      destruct e2 as [ex|]; [destruct (get_table w2 t); inversion H|].
      destruct (sim_walk2 t p v0 _ _ _ _ w1 s w2 (conj Hinv1 (conj Hna1 Hsi)) (ORDOKB_FR _ _ F1' Hord) Rel1 Tv1 Hw) as (SC2 & FR2 & Rel2).
      rewrite (PropSimAct.ord_slots'_FR _ _ _ _ F1') in Rel2.
      destruct (get_table w2 t) as [tb2|] eqn:Hgt2; inversion H; subst w'.
      - pose proof (views_put_flag w2 t tb2 false Hgt2) as (U1 & U2 & U3 & U4 & U5 & U6 & U7).
        assert (F3' : FR w2 (put_table w2 t {| t_slots := t_slots tb2; t_free := t_free tb2; t_emitting := false; t_alive := t_alive tb2 |}))
          by (split; [intros b; reflexivity|repeat split; auto]).
        destruct SC2 as (Hinv2 & Hna2 & Hsi2). destruct (SCB_FR _ _ F3' Hinv2 Hna2) as [Hinv3 Hna3].
        split; [exact (conj Hinv3 (conj Hna3 Hsi2))|]. split; [eapply PropSim.FR_trans; [exact F1'|eapply PropSim.FR_trans; eauto]|exact Rel2].
      - split; [exact SC2|]. split; [eapply PropSim.FR_trans; eauto|exact Rel2].
    Qed.

    (* the about-to-change emission: plain observers and observers that write the old value somewhere *)
    Lemma about_walk2 t p old new sl fr al : forall idxs w s w',
      SCB w -> ORDOKB w -> Rel w s -> tview w t = Some (sl, fr, al) ->
      walk fn rtl R w t p KAbout [old; new] idxs = (w', None) ->
      SCB w' /\ FR w w' /\ Rel w' (fold_left (fun s0 tgt => C2.act2 SR s0 old tgt) (ord_slotsA w sl idxs) s).
    Proof.
      induction idxs as [|x r IH]; intros w s w' HSC Hord HRel Ht H; cbn [walk ord_slotsA flat_map] in *.
      - inversion H; subst. split; [exact HSC|]. split; [apply PropSim.FR_refl|exact HRel].
      - apply tview_Some in Ht. destruct Ht as (tb & Hgt & Esl & Efr & Eal). rewrite Hgt, Esl in H.
        assert (Tv : tview w t = Some (sl, fr, al)) by (unfold tview; rewrite Hgt; congruence).
        fold (ord_slotsA w sl r).
        destruct (nth_error sl x) as [[[ser sub]|]|] eqn:Hx; [|cbn [tgt_of app]; apply IH; auto|cbn [tgt_of app]; apply IH; auto].
        destruct (deliver fn rtl R w p KAbout [old; new] sub) as [w1 [ex|]] eqn:Hd; [discriminate H|].
        assert (Step : SCB w1 /\ FR w w1 /\ Rel w1 (fold_left (fun s0 tgt => C2.act2 SR s0 old tgt) (tgt_of w (Some (Some (ser, sub)))) s)).
        { destruct sub as [label act|b l].
          - destruct act as [[[|] tgt]|].
            + exfalso. destruct HSC as (_ & Hna & _). destruct (Hna t x ser label (true, tgt)) as (tgt' & p' & E & _); [exists sl, fr, al; auto|]. discriminate E.
            + destruct (sim_act w s p KAbout [old; new] old [new] label tgt w1 HSC Hord HRel eq_refl Hd) as (A1 & A2 & A3).
              split; [exact A1|]. split; [exact A2|]. unfold tgt_of, aact in *. destruct (pview w tgt); exact A3.
            + cbn [deliver] in Hd. inversion Hd; subst w1. destruct HSC as (Hinv & Hna & Hsi).
              split; [split; [exact (pinv_views _ _ (views_log _ w) Hinv)|split; [exact Hna|exact Hsi]]|]. split; [repeat split|exact HRel].
          - cbn [deliver] in Hd. destruct (get_bind w b); discriminate Hd. }
        destruct Step as (SC1 & FR1 & Rel1).
        assert (Tv1 : tview w1 t = Some (sl, fr, al)) by (destruct FR1 as (_ & T1 & _); rewrite T1; exact Tv).
        destruct (IH w1 _ w' SC1 (ORDOKB_FR _ _ FR1 Hord) Rel1 Tv1 H) as (SC' & FR' & Rel').
        split; [exact SC'|]. split; [eapply PropSim.FR_trans; eauto|].
        rewrite (ord_slotsA_FR _ _ sl r FR1) in Rel'. rewrite fold_left_app. exact Rel'.
    Qed.

    Lemma about_emit2 w s p old new ot w' :
      SCB w -> ORDOKB w -> Rel w s -> (exists vp, pview w p = Some vp /\ ps_about vp = ot) ->
      emit fn rtl R w ot p KAbout [old; new] = (w', None) ->
      SCB w' /\ FR w w' /\ Rel w' (C2.about_body2 orderA SR s p old).
    Proof.
      intros HSC Hord HRel (vp & Hvp & Hch) H. unfold C2.about_body2. rewrite (proj2 Hord p). unfold ORDA. rewrite Hvp, Hch.
      unfold emit in H. destruct ot as [t|]; [|inversion H; subst; split; [exact HSC|split; [apply PropSim.FR_refl|exact HRel]]].
      destruct (get_table w t) as [tb|] eqn:Hgt; [|discriminate H]. destruct (t_emitting tb) eqn:Hem; [discriminate H|].
      assert (Tv : tview w t = Some (t_slots tb, t_free tb, t_alive tb)) by (unfold tview; rewrite Hgt; reflexivity). rewrite Tv.
      set (w1 := put_table w t _) in *.
      pose proof (views_put_flag w t tb true Hgt) as (V1 & V2 & V3 & V4 & V5 & V6 & V7).
      assert (F1' : FR w w1) by (split; [intros b; reflexivity|repeat split; auto]).
      destruct HSC as (Hinv & Hna & Hsi). destruct (SCB_FR _ _ F1' Hinv Hna) as [Hinv1 Hna1].
      assert (Rel1 : Rel w1 s) by exact HRel.
      assert (Tv1 : tview w1 t = Some (t_slots tb, t_free tb, t_alive tb)) by (rewrite V2; exact Tv).
      destruct (walk fn rtl R w1 t p KAbout [old; new] (seq 0 (length (t_slots tb)))) as [w2 e2] eqn:Hw.
      destruct e2 as [ex|]; [destruct (get_table w2 t); inversion H|].
      destruct (about_walk2 t p old new _ _ _ _ w1 s w2 (conj Hinv1 (conj Hna1 Hsi)) (ORDOKB_FR _ _ F1' Hord) Rel1 Tv1 Hw) as (SC2 & FR2 & Rel2).
      rewrite (ord_slotsA_FR _ _ _ _ F1') in Rel2.
      destruct (get_table w2 t) as [tb2|] eqn:Hgt2; inversion H; subst w'.
      - pose proof (views_put_flag w2 t tb2 false Hgt2) as (U1 & U2 & U3 & U4 & U5 & U6 & U7).
        assert (F3' : FR w2 (put_table w2 t {| t_slots := t_slots tb2; t_free := t_free tb2; t_emitting := false; t_alive := t_alive tb2 |}))
          by (split; [intros b; reflexivity|repeat split; auto]).
        destruct SC2 as (Hinv2 & Hna2 & Hsi2). destruct (SCB_FR _ _ F3' Hinv2 Hna2) as [Hinv3 Hna3].
        split; [exact (conj Hinv3 (conj Hna3 Hsi2))|]. split; [eapply PropSim.FR_trans; [exact F1'|eapply PropSim.FR_trans; eauto]|exact Rel2].
      - split; [exact SC2|]. split; [eapply PropSim.FR_trans; eauto|exact Rel2].
    Qed.
  End DeliverB.

  (* Property::setHelper is the abstract assignment with writing observers of both signals *)
  Theorem sim_set2 order' orderA : forall f w q v w' s,
    SCB w -> ORDOKB order' orderA w -> Rel w s -> set_helper fn rtl f w q v = (w', None) ->
    SCB w' /\ FR w w' /\ Rel w' (C2.set2 F1 F2 F3 order' orderA f s q v).
  Proof.
    induction f as [|f IH]; intros w q v w' s HSC Hord HRel H; cbn [set_helper] in H; [discriminate H|].
    destruct (lookup (w_props w) q) as [pr|] eqn:Hq; [|discriminate H].
    pose proof HRel as (R1 & R2 & R3). cbn [C2.set2]. unfold C2.set_body2. rewrite (R1 _ _ Hq).
    destruct (Z.eqb v (pr_value pr)) eqn:Ev.
    - inversion H; subst. split; [exact HSC|split; [apply PropSim.FR_refl|exact HRel]].
    - destruct (emit fn rtl (set_helper fn rtl f) w (pr_about pr) q KAbout [pr_value pr; v]) as [w1 [ex|]] eqn:He1; [discriminate H|].
      destruct (about_emit2 order' orderA f (set_helper fn rtl f) IH w s q (pr_value pr) v (pr_about pr) w1 HSC Hord HRel) as (SC1 & FR1 & Rel1).
      { exists (psigs_of pr). split; [unfold pview; rewrite Hq; reflexivity|reflexivity]. }
      { exact He1. }
      set (s1 := C2.about_body2 orderA (C2.set2 F1 F2 F3 order' orderA f) s q (pr_value pr)) in *.
      destruct Rel1 as (Q1 & Q2 & Q3). rewrite Q3.
      destruct (lookup (w_props w1) q) as [pr1|] eqn:Hq1; [|discriminate H].
      set (w2 := set_props w1 (bind_key (w_props w1) q (prop_set_value pr1 v))) in *.
      assert (F2' : FR w1 w2).
      { pose proof (views_set_value w1 q pr1 v Hq1) as (V1 & V2 & V3 & V4 & V5 & V6 & V7). split; [intros b; reflexivity|repeat split; auto]. }
      destruct SC1 as (Hinv1 & Hna1 & Hsi1). destruct (SCB_FR _ _ F2' Hinv1 Hna1) as [Hinv2 Hna2].
      assert (IO : forall q', imm_of w2 q' = imm_of w1 q').
      { intros q'. unfold PropSim.imm_of, w2; cbn [set_props w_props]. rewrite lookup_bind. destruct (Nat.eqb_spec q' q) as [->|]; [|reflexivity].
        rewrite Hq1. reflexivity. }
      assert (Hsi2 : SIMPLE w2) by (intros q' x' Hx'; rewrite IO in Hx'; eauto).
      set (s2 := {| A.env := A.set_env (A.env s1) q v; A.tr := A.tr s1; A.oof := false |}).
      assert (Rel2 : Rel w2 s2).
      { split; [|split; [|reflexivity]].
        - intros p0 pr0 Hp0. unfold w2 in Hp0; cbn [set_props w_props] in Hp0. rewrite lookup_bind in Hp0. cbn [s2 A.env]. unfold A.set_env.
          destruct (Nat.eqb_spec p0 q) as [->|]; [inversion Hp0; reflexivity|auto].
        - intros q'. cbn [s2 A.tr]. rewrite IO. apply Q2. }
      assert (Hord2 : ORDOKB order' orderA w2) by (eapply ORDOKB_FR; [|exact Hord]; eapply PropSim.FR_trans; eauto).
      destruct (sim_emit_changed2 order' orderA f (set_helper fn rtl f) IH w2 s2 q v (pr_changed pr1) w' (conj Hinv2 (conj Hna2 Hsi2)) Hord2 Rel2) as (SC' & FR' & Rel').
      { exists (psigs_of (prop_set_value pr1 v)). split; [|reflexivity]. unfold pview, w2; cbn [set_props w_props]. rewrite lookup_bind_same. reflexivity. }
      { exact H. }
      split; [exact SC'|]. split; [eapply PropSim.FR_trans; [exact FR1|eapply PropSim.FR_trans; eauto]|exact Rel'].
  Qed.

  (* C02 with writing observers of both signals, one assignment that returns normally: coherence (PropSim.COH) is kept *)
  Theorem assignment_coherent_act2 f w p pr v w' :
    SCB w -> PropSim.COH fn w -> lookup (w_props w) p = Some pr -> pr_updater pr = None ->
    set_helper fn rtl f w p v = (w', None) -> SCB w' /\ PropSim.COH fn w' /\ FR w w'.
  Proof.
    intros HSC (s & HRel & HInv) Hp Hu H.
    destruct (sim_set2 (ORD' w) (ORDA w) f w p v w' s HSC (conj (fun _ => eq_refl) (fun _ => eq_refl)) HRel H) as (SC' & FR' & Rel').
    split; [exact SC'|]. split; [|exact FR'].
    exists (C2.set2 F1 F2 F3 (ORD' w) (ORDA w) f s p v). split; [exact Rel'|].
    apply (PropSim.Inv_order_ext fn (C.lorder (ORD' w))); [intros p0; rewrite (PropSim.FR_ORD _ _ p0 FR'); symmetry; apply PropSimAct.lorder_ORD'|].
    destruct HRel as (R1 & R2 & R3). apply C2.set2_consistent; auto.
    - rewrite R2. unfold PropSim.imm_of. rewrite Hp, Hu. reflexivity.
    - apply (PropSim.Inv_order_ext fn (PropSim.ORD w)); [intros p0; apply PropSimAct.lorder_ORD'|exact HInv].
    - destruct Rel' as (_ & _ & Q3). exact Q3.
  Qed.

  Lemma SCA_SCB w : PropSimAct.SCA w -> SCB w.
  Proof.
    intros (Hinv & Hna & Hsi). split; [exact Hinv|split; [|exact Hsi]]. intros t pos ser label a Hs.
    destruct (Hna t pos ser label a Hs) as (tgt & p & E & Ho). exists tgt, p. split; [exact E|left; exact Ho].
  Qed.
End SimAct2.
