(* C13 - Lazy evaluation: a binding function runs only when one of its inputs changed.
   Proved here: the evaluation discipline of one tree (clean nodes run nothing, each node at most once per evaluation),
   reads are free, evaluator-driven notifications only mark, and - C13_function_runs_iff_an_input_beneath_changed - the statement
   itself for one tree: after notifications for a set of leaves, one evaluation runs exactly the functions above those leaves.
   The strict statement "only if an input beneath it changed" thus holds in evaluator-driven mode and for single notification
   paths; in immediate mode a function reached by
   k >= 2 notification paths from ONE changed input runs up to k times: known finding KF-C13-multipath (DESIGN.md 7),
   exhibited by C13_multipath_refuted below. *)
From Coq Require Import List ZArith.
Import ListNotations.
From KDB Require Import Util PropDefs PropProofs.
From KDB Require PropLazyEval PropSimLazy PropNotify PropEq PropEqProofs.

Theorem C13_clean_runs_nothing :
  forall fn rtl val t, root_dirty t = false -> snd (eval fn rtl val t) = [].
Proof. exact eval_clean_runs_nothing. Qed.
Print Assumptions C13_clean_runs_nothing.

Theorem C13_single_evaluation_once :
  forall fn rtl val t, length (snd (eval fn rtl val t)) <= ops t.
Proof. exact eval_once_per_node. Qed.
Print Assumptions C13_single_evaluation_once.

Theorem C13_reads_free :
  forall fn rtl fuel w p pr,
    lookup (w_props w) p = Some pr -> step1 fn rtl fuel w (PGet p) = (log (EvVal (Some (pr_value pr))) w, None).
Proof. exact get_is_free. Qed.
Print Assumptions C13_reads_free.

Theorem C13_manual_notification_only_marks :
  forall fn rtl R w p payload b leaf x t up,
    get_bind w b = Some x -> b_evp x <> 0 -> mark (b_root x) leaf = Some (t, up) ->
    deliver fn rtl R w p KChanged payload (SNode b leaf) = (put_bind w b (bind_with_root x t), None).
Proof. exact manual_delivery_only_marks. Qed.
Print Assumptions C13_manual_notification_only_marks.

(* the statement itself, for one tree and single notification paths (coq/PropLazyEval.v): a clean tree - what a successful
   evaluation leaves behind -, change notifications for any set L of its input leaves, then ONE successful evaluation: the functions
   that run are EXACTLY those of the operator nodes with a leaf of L beneath them (`expected`: each once, children before parents),
   no other function runs, and the tree is clean again (so a further evaluation with nothing changed runs nothing) *)
Theorem C13_function_runs_iff_an_input_beneath_changed :
  forall fn val rtl L t,
    PropLazyEval.cleanN t -> NoDup (PropLazyEval.lids t) -> (forall l, In l L -> In l (PropLazyEval.lids t)) ->
    exists t1, PropLazyEval.marks t L = Some t1 /\
      forall t2 v lg, eval fn rtl val t1 = (t2, inl v, lg) -> lg = PropLazyEval.expected rtl L t /\ PropLazyEval.cleanN t2.
Proof. exact PropLazyEval.lazy_eval_exact. Qed.
Print Assumptions C13_function_runs_iff_an_input_beneath_changed.

(* non-vacuity: h(g(p0), p1) with p1 changed: h (7) runs, g (8) does not; with p0 changed: g then h *)
Example C13_exact_example :
  let lf := fun p l => NProp (Some p) false l dummy_handle dummy_handle dummy_handle in
  let t := NOp2 7 false 0%Z (NOp1 8 false 0%Z (lf 0 0)) (lf 1 1) in
  PropLazyEval.expected true [1] t = [7] /\ PropLazyEval.expected true [0] t = [8; 7] /\ PropLazyEval.expected true [] t = [] /\
  match PropLazyEval.marks t [1] with
  | Some t1 => snd (eval (fun _ l => Some (fold_right Z.add 0%Z l)) true (fun _ => Some 1%Z) t1) = [7]
  | None => False end.
Proof. vm_compute. repeat split; reflexivity. Qed.

(* "evaluating when nothing changed invokes no user function at all", at the level of a whole network of evaluator-driven bindings
   (coq/PropNotify.v): an evaluateAll that directly follows another one records nothing - no user function runs, no observer is called -
   and in fact returns the very same world (C06_second_evaluate_all_changes_nothing) *)
Theorem C13_evaluate_all_when_nothing_changed_runs_nothing :
  forall fn rtl ev fuel w e st w1 w2 r,
    PropSimLazy.LSC ev w -> PropSimLazy.LCOH fn w -> lookup (w_bevs w) e = Some ev -> nth_error (w_evps w) ev = Some st ->
    NoDup (PropSimLazy.regs_of w (ep_registry st)) -> PropSimLazy.lchain w (PropSimLazy.regs_of w (ep_registry st)) ->
    (forall rb, In rb (ep_registry st) -> PropSimLazy.lz w (snd rb) <> None) ->
    step1 fn rtl (S fuel) w (BevEvalAll e) = (w1, None) ->
    step1 fn rtl (S fuel) w1 (BevEvalAll e) = (w2, r) -> r = None /\ w_trace w2 = w_trace w1.
Proof. exact PropNotify.lazy_second_evalall_runs_nothing. Qed.
Print Assumptions C13_evaluate_all_when_nothing_changed_runs_nothing.

(* "changed" is what the property's equality relation says: assigning an input a value equal to its current one is no change - the world
   stays exactly as it was (no binding node is marked, no function runs, nothing is recorded) ... *)
Theorem C13_write_of_equal_value_runs_nothing :
  forall fn rtl f w p pr, lookup (w_props w) p = Some pr -> set_helper fn rtl (S f) w p (pr_value pr) = (w, None).
Proof. exact set_equal_is_silent. Qed.
Print Assumptions C13_write_of_equal_value_runs_nothing.

(* ... and this for EVERY equality relation (coq/PropEq.v: operator== whether noexcept or not, a specialised equal_to, ...): no subscriber
   of valueChanged - the PropertyNode of a binding is one - hears of a write the relation deems equal.  The equality layer of the
   correspondence runs this model against Property<T> with immediate bindings reading it (`ebind`, `fn` observations). *)
Theorem C13_write_of_equal_value_notifies_no_binding_any_equality :
  forall (V : Type) (eqv : V -> V -> bool) s v, eqv v (PropEq.e_cur s) = true -> PropEq.ewrite V eqv s v = (s, []).
Proof. exact PropEqProofs.write_equal_silent. Qed.
Print Assumptions C13_write_of_equal_value_notifies_no_binding_any_equality.

(* non-vacuity: a class type with plain operator== (flavour FLoose), two changed-subscribers (one of them a binding): writing 7 over 7 is silent,
   writing 8 reaches both *)
Example C13_equal_write_example :
  let s := PropEq.Build_est Z 7%Z 0 2 in
  snd (PropEq.ewrite Z (PropEq.eqv_of PropEq.FLoose) s 7%Z) = [] /\
  length (snd (PropEq.ewrite Z (PropEq.eqv_of PropEq.FLoose) s 8%Z)) = 2.
Proof. vm_compute. split; reflexivity. Qed.

(* the strict statement is false in immediate mode: f(x, x) runs f twice for one change of x *)
Theorem C13_multipath_refuted :
  let fn := fun (f : nat) (l : list Z) => Some (fold_right Z.add 0%Z l) in
  let w := run fn true 6 [PNew 0 1%Z; PBind 1 (EOp2 7 (EProp 0) (EProp 0)) MImmediate] in
  let w' := step fn true 6 w (PSet 0 5%Z WSet) in
  length (filter (fun e => match e with EvFn 7 => true | _ => false end) (firstn (length (w_trace w') - length (w_trace w)) (w_trace w'))) = 2.
Proof. vm_compute. reflexivity. Qed.
Print Assumptions C13_multipath_refuted.
