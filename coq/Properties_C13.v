(* C13 - Lazy evaluation: a binding function runs only when one of its inputs changed.
   Proved here: the evaluation discipline of one tree (clean nodes run nothing, each node at most once per evaluation),
   reads are free, evaluator-driven notifications only mark.  The strict statement "only if an input beneath it
   changed" holds in evaluator-driven mode and for single notification paths; in immediate mode a function reached by
   k >= 2 notification paths from ONE changed input runs up to k times: known finding KF-C13-multipath (DESIGN.md 7),
   exhibited by C13_multipath_refuted below. *)
From KDB Require Import Util PropDefs PropProofs.

Theorem C13_clean_runs_nothing :
  forall fn rtl val t, root_dirty t = false -> snd (eval fn rtl val t) = [].
Proof. exact eval_clean_runs_nothing. Qed.
Print Assumptions C13_clean_runs_nothing.

Theorem C13_single_evaluation_once :
  forall fn rtl val t, length (snd (eval fn rtl val t)) <= ops t.
Proof. exact eval_once_per_node. Qed.
Print Assumptions C13_single_evaluation_once.

Theorem C13_reads_free :
  forall fn rtl fuel w p pr,
    lookup (w_props w) p = Some pr -> step1 fn rtl fuel w (PGet p) = (log (EvVal (Some (pr_value pr))) w, None).
Proof. exact get_is_free. Qed.
Print Assumptions C13_reads_free.

Theorem C13_manual_notification_only_marks :
  forall fn rtl R w p payload b leaf x t up,
    get_bind w b = Some x -> b_evp x <> 0 -> mark (b_root x) leaf = Some (t, up) ->
    deliver fn rtl R w p KChanged payload (SNode b leaf) = (put_bind w b (bind_with_root x t), None).
Proof. exact manual_delivery_only_marks. Qed.
Print Assumptions C13_manual_notification_only_marks.

(* the strict statement is false in immediate mode: f(x, x) runs f twice for one change of x *)
Theorem C13_multipath_refuted :
  let fn := fun (f : nat) (l : list Z) => Some (fold_right Z.add 0%Z l) in
  let w := run fn true 6 [PNew 0 1%Z; PBind 1 (EOp2 7 (EProp 0) (EProp 0)) MImmediate] in
  let w' := step fn true 6 w (PSet 0 5%Z WSet) in
  length (filter (fun e => match e with EvFn 7 => true | _ => false end) (firstn (length (w_trace w') - length (w_trace w)) (w_trace w'))) = 2.
Proof. vm_compute. reflexivity. Qed.
Print Assumptions C13_multipath_refuted.
