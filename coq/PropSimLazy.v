(* Refinement for evaluator-driven bindings: in worlds all of whose bindings belong to ONE explicit BindingEvaluator and whose
   observers do not act, Property::setHelper of the executable model (coq/PropDefs.v) is the abstract `lset` of coq/PropAbsLazy.v (it
   marks, evaluates nothing, changes no other value) and BindingEvaluator::evaluateAll is the abstract `eval_all`; hence the one-pass
   consistency theorem of the abstract model holds for the executable model. *)
From KDB Require Import Util UtilProofs PropDefs PropFlags PropLink PropLinkBasics PropLinkOps PropLinkTheorems PropSim.
From KDB Require PropAbs PropAbsProofs PropAbsLazy PropProofs PropCheck.
Module A := PropAbs.
Module L := PropAbsLazy.

Section SimLazy.
  Variable fn : nat -> list Z -> option Z.
  Variable rtl : bool.
  Variable ev : nat.                    (* the BindingEvaluator::Private all bindings are registered with *)
  Hypothesis ev_pos : ev <> 0.
  Notation F1 := (PropSim.F1 fn).
  Notation F2 := (PropSim.F2 fn).
  Notation F3 := (PropSim.F3 fn).

  (* the property a binding of the evaluator updates / the binding of the evaluator that updates q *)
  Definition lz (w : world) (b : nat) : option nat :=
    match get_bind w b with Some x => b_target x | None => None end.
  Definition lz_of (w : world) (q : nat) : option binding :=
    match lookup (w_props w) q with
    | Some pr => match pr_updater pr with Some b => get_bind w b | None => None end
    | None => None end.

  Definition lord_slots (w : world) (sl : list (option (nat * subscriber))) (idxs : list nat) : list (nat * nat) :=
    flat_map (fun x => match nth_error sl x with
                       | Some (Some (_, SNode b l)) => match lz w b with Some q => [(q, l)] | None => [] end
                       | _ => [] end) idxs.
  Definition LORD (w : world) (p : nat) : list (nat * nat) :=
    match pview w p with
    | Some v => match ps_changed v with
                | Some t => match tview w t with Some (sl, _, _) => lord_slots w sl (seq 0 (length sl)) | None => [] end
                | None => [] end
    | None => [] end.

  Definition LRel (w : world) (s : L.lstate) : Prop :=
    (forall p pr, lookup (w_props w) p = Some pr -> L.lenv s p = pr_value pr) /\
    (forall q, L.ltr s q = match lz_of w q with Some x => abs_tree (b_root x) | None => None end).

  (* every live binding is evaluator-driven (registered with ev or with ANY other explicit evaluator); trees are abstractable (no dead input) *)
  Definition ALLLAZY (w : world) : Prop := ev <> 0 /\ forall b x, get_bind w b = Some x -> b_evp x <> 0.
  Definition LSIMPLE (w : world) : Prop := forall q x, lz_of w q = Some x -> abs_tree (b_root x) <> None.
  Definition LSC (w : world) : Prop := pinv w /\ NOACT w /\ LSIMPLE w /\ ALLLAZY w.

  Definition LFR (w w' : world) : Prop :=
    (forall b, lz w' b = lz w b) /\ (forall t, tview w' t = tview w t) /\ (forall p, pview w' p = pview w p) /\
    (forall b, bview w' b = bview w b) /\ w_obs w' = w_obs w /\ w_held w' = w_held w /\ w_serial w' = w_serial w /\
    length (w_binds w') = length (w_binds w) /\ w_evps w' = w_evps w /\ w_bevs w' = w_bevs w /\
    (forall b x', get_bind w' b = Some x' -> exists x, get_bind w b = Some x /\ b_evp x' = b_evp x).
  Lemma LFR_refl w : LFR w w.
  Proof. repeat split; eauto. Qed.
  Lemma LFR_trans a b c : LFR a b -> LFR b c -> LFR a c.
  Proof.
    intros (A1 & A2 & A3 & A4 & A5 & A6 & A7 & A8 & A9 & A10 & A11) (B1 & B2 & B3 & B4 & B5 & B6 & B7 & B8 & B9 & B10 & B11).
    repeat split; intros; try congruence. destruct (B11 _ _ H) as (y & Hy & Ey). destruct (A11 _ _ Hy) as (z & Hz & Ez). exists z. split; [exact Hz|congruence].
  Qed.
  Lemma LFR_views w w' : LFR w w' -> views_eq w w'.
  Proof. intros (A1 & A2 & A3 & A4 & A5 & A6 & A7 & A8 & _). repeat split; auto. Qed.
  Lemma LFR_LORD w w' p : LFR w w' -> LORD w' p = LORD w p.
  Proof.
    intros (A1 & A2 & A3 & _). unfold LORD. rewrite A3. destruct (pview w p) as [v|]; [|reflexivity]. destruct (ps_changed v) as [t|]; [|reflexivity].
    rewrite A2. destruct (tview w t) as [[[sl fr] al]|]; [|reflexivity]. unfold lord_slots. apply flat_map_ext. intros x.
    destruct (nth_error sl x) as [[[ser [label act|b l]]|]|]; try reflexivity. rewrite A1. reflexivity.
  Qed.

  Lemma put_root_LFR w b x t : get_bind w b = Some x -> leaves t = leaves (b_root x) -> LFR w (put_bind w b (bind_with_root x t)).
  Proof.
    intros Hb Hl. pose proof (views_put_root w b x t Hb Hl) as (V1 & V2 & V3 & V4 & V5 & V6 & V7).
    split; [|repeat split; auto].
    - intros b'. unfold lz. rewrite (get_bind_put_root _ _ _ _ _ Hb). destruct (Nat.eqb_spec b b') as [<-|]; [|reflexivity]. rewrite Hb. reflexivity.
    - intros b' x' Hx'. rewrite (get_bind_put_root _ _ _ _ _ Hb) in Hx'. destruct (Nat.eqb_spec b b') as [<-|]; [|eauto]. inversion Hx'; subst. eauto.
  Qed.

  Lemma put_root_LRel w s b x t T' q :
    pinv w -> LRel w s -> get_bind w b = Some x -> b_target x = Some q -> abs_tree t = Some T' ->
    LRel (put_bind w b (bind_with_root x t)) {| L.lenv := L.lenv s; L.ltr := A.set_tr (L.ltr s) q T' |}.
  Proof.
    intros Hinv (R1 & R2) Hb Htg Ht.
    assert (Bv : bview w b = Some (leaves (b_root x), Some q)) by (unfold bview; rewrite Hb, Htg; reflexivity).
    destruct (pi_tgt _ _ _ _ _ _ _ Hinv _ _ _ Bv) as (v & Ev & Eu).
    split.
    - intros p pr Hp. cbn [L.lenv]. apply R1. exact Hp.
    - intros q'. cbn [L.ltr]. unfold A.set_tr, lz_of. change (w_props (put_bind w b (bind_with_root x t))) with (w_props w).
      destruct (Nat.eqb_spec q' q) as [->|Hne].
      + unfold pview in Ev. destruct (lookup (w_props w) q) as [pr|]; [|discriminate Ev]. assert (v = psigs_of pr) by congruence. subst v. cbn in Eu. rewrite Eu.
        rewrite (get_bind_put_root _ _ _ _ _ Hb), Nat.eqb_refl. cbn [bind_with_root b_root]. symmetry. exact Ht.
      + rewrite R2. unfold lz_of. destruct (lookup (w_props w) q') as [pr'|] eqn:Hp'; [|reflexivity]. destruct (pr_updater pr') as [b'|] eqn:Hu'; [|reflexivity].
        rewrite (get_bind_put_root _ _ _ _ _ Hb). destruct (Nat.eqb_spec b b') as [<-|]; [|reflexivity].
        exfalso. assert (Pv' : pview w q' = Some (psigs_of pr')) by (unfold pview; rewrite Hp'; reflexivity).
        destruct (pi_upd _ _ _ _ _ _ _ Hinv _ _ _ Pv' Hu' (fun z => z)) as (ls & Eb). congruence.
  Qed.

  Lemma put_root_LRel_other w s b x t :
    pinv w -> LRel w s -> get_bind w b = Some x -> b_target x = None -> LRel (put_bind w b (bind_with_root x t)) s.
  Proof.
    intros Hinv (R1 & R2) Hb Htg. split; [exact R1|].
    intros q'. rewrite R2. unfold lz_of. change (w_props (put_bind w b (bind_with_root x t))) with (w_props w).
    destruct (lookup (w_props w) q') as [pr'|] eqn:Hp'; [|reflexivity]. destruct (pr_updater pr') as [b'|] eqn:Hu'; [|reflexivity].
    rewrite (get_bind_put_root _ _ _ _ _ Hb). destruct (Nat.eqb_spec b b') as [<-|]; [|reflexivity].
    exfalso. assert (Pv' : pview w q' = Some (psigs_of pr')) by (unfold pview; rewrite Hp'; reflexivity).
    destruct (pi_upd _ _ _ _ _ _ _ Hinv _ _ _ Pv' Hu' (fun z => z)) as (ls & Eb). unfold bview in Eb. rewrite Hb in Eb. congruence.
  Qed.

  Lemma LSC_LFR w w' : LFR w w' -> pinv w -> NOACT w -> ALLLAZY w -> pinv w' /\ NOACT w' /\ ALLLAZY w'.
  Proof.
    intros F Hinv Hn Ha. split; [eapply pinv_views; [apply LFR_views; exact F|exact Hinv]|]. split.
    - intros t pos ser label act Hs. destruct F as (_ & T & _). unfold slot_at in Hs. rewrite T in Hs. eapply Hn; eauto.
    - split; [exact (proj1 Ha)|]. intros b x' Hx'. destruct F as (_ & _ & _ & _ & _ & _ & _ & _ & _ & _ & F11). destruct (F11 _ _ Hx') as (x & Hx & E). rewrite E. exact (proj2 Ha _ _ Hx).
  Qed.

  Definition ladeliver (w : world) (s : L.lstate) (sub : subscriber) : L.lstate :=
    match sub with
    | SNode b l => match lz w b with Some q => L.mark_one s (q, l) | None => s end
    | SObs _ _ => s
    end.

  Section Walk.
    Variable R : world -> nat -> Z -> res.

    (* a notification reaching a node of an evaluator-driven binding only marks *)
    Lemma sim_ldeliver w s p v0 sub w' :
      LSC w -> LRel w s -> (forall label act, sub = SObs label act -> act = None) ->
      deliver fn rtl R w p KChanged [v0] sub = (w', None) ->
      LSC w' /\ LFR w w' /\ LRel w' (ladeliver w s sub).
    Proof.
      intros (Hinv & Hna & Hsi & Hal) HRel Hact H. destruct sub as [label act|b l]; cbn [deliver ladeliver] in *.
      - rewrite (Hact _ _ eq_refl) in H. inversion H; subst.
        split; [exact (conj (pinv_views _ _ (views_log _ w) Hinv) (conj Hna (conj Hsi Hal)))|]. split; [repeat split; eauto|exact HRel].
      - destruct (get_bind w b) as [x|] eqn:Hb; [|discriminate H].
        destruct (mark (b_root x) l) as [[t1 up]|] eqn:Hm; [|discriminate H].
        pose proof (leaves_mark _ _ _ _ Hm) as Hl1.
        assert (Hevp : Nat.eqb (b_evp x) 0 = false) by (apply Nat.eqb_neq; exact (proj2 Hal _ _ Hb)).
        rewrite Hevp in H. assert (Hw' : w' = put_bind w b (bind_with_root x t1)) by (destruct up; inversion H; reflexivity). subst w'. clear H.
        pose proof (put_root_LFR w b x t1 Hb Hl1) as FR1. destruct (LSC_LFR _ _ FR1 Hinv Hna Hal) as (Hinv1 & Hna1 & Hal1).
        unfold lz. rewrite Hb. destruct (b_target x) as [q|] eqn:Htg.
        + assert (Bv : bview w b = Some (leaves (b_root x), Some q)) by (unfold bview; rewrite Hb, Htg; reflexivity).
          destruct (pi_tgt _ _ _ _ _ _ _ Hinv _ _ _ Bv) as (vq & Evq & Euq).
          assert (Hlz : lz_of w q = Some x).
          { unfold lz_of. unfold pview in Evq. destruct (lookup (w_props w) q) as [pr|]; [|discriminate Evq]. assert (vq = psigs_of pr) by congruence. subst vq.
            cbn in Euq. rewrite Euq. exact Hb. }
          destruct HRel as (R1 & R2).
          destruct (abs_tree (b_root x)) as [T|] eqn:HT; [|exfalso; exact (Hsi _ _ Hlz HT)].
          assert (Htr : L.ltr s q = Some T) by (rewrite R2, Hlz; exact HT).
          destruct (sim_mark fn _ _ _ _ _ HT (abs_nodup _ _ _ _ Hinv Hb HT) Hm) as [Et1 _].
          unfold L.mark_one; cbn [fst snd]. rewrite Htr.
          split; [split; [exact Hinv1|split; [exact Hna1|split; [|exact Hal1]]]|split; [exact FR1|]].
          * intros q' x' Hx'. unfold lz_of in Hx'. change (w_props (put_bind w b (bind_with_root x t1))) with (w_props w) in Hx'.
            destruct (lookup (w_props w) q') as [pr'|] eqn:Hp'; [|discriminate Hx']. destruct (pr_updater pr') as [b'|] eqn:Hu'; [|discriminate Hx'].
            rewrite (get_bind_put_root _ _ _ _ _ Hb) in Hx'. destruct (Nat.eqb_spec b b') as [<-|Hne].
            -- inversion Hx'; subst x'. cbn [bind_with_root b_root]. congruence.
            -- apply (Hsi q' x'). unfold lz_of. rewrite Hp', Hu'. exact Hx'.
          * apply (put_root_LRel w s b x t1 _ q Hinv (conj R1 R2) Hb Htg Et1).
        + split; [split; [exact Hinv1|split; [exact Hna1|split; [|exact Hal1]]]|split; [exact FR1|]].
          * intros q' x' Hx'. unfold lz_of in Hx'. change (w_props (put_bind w b (bind_with_root x t1))) with (w_props w) in Hx'.
            destruct (lookup (w_props w) q') as [pr'|] eqn:Hp'; [|discriminate Hx']. destruct (pr_updater pr') as [b'|] eqn:Hu'; [|discriminate Hx'].
            rewrite (get_bind_put_root _ _ _ _ _ Hb) in Hx'. destruct (Nat.eqb_spec b b') as [<-|Hne].
            -- exfalso. assert (Pv' : pview w q' = Some (psigs_of pr')) by (unfold pview; rewrite Hp'; reflexivity).
               destruct (pi_upd _ _ _ _ _ _ _ Hinv _ _ _ Pv' Hu' (fun z => z)) as (ls & Eb). unfold bview in Eb. rewrite Hb in Eb. congruence.
            -- apply (Hsi q' x'). unfold lz_of. rewrite Hp', Hu'. exact Hx'.
          * apply (put_root_LRel_other w s b x t1 Hinv HRel Hb Htg).
    Qed.

    Lemma lord_slots_LFR w w' sl idxs : LFR w w' -> lord_slots w' sl idxs = lord_slots w sl idxs.
    Proof.
      intros (A1 & _). unfold lord_slots. apply flat_map_ext. intros x. destruct (nth_error sl x) as [[[ser [label act|b l]]|]|]; try reflexivity.
      rewrite A1. reflexivity.
    Qed.

    Lemma sim_lwalk t p v0 sl fr al : forall idxs w s w',
      LSC w -> LRel w s -> tview w t = Some (sl, fr, al) ->
      walk fn rtl R w t p KChanged [v0] idxs = (w', None) ->
      LSC w' /\ LFR w w' /\ LRel w' (L.mark_all s (lord_slots w sl idxs)).
    Proof.
      induction idxs as [|x r IH]; intros w s w' HSC HRel Ht H; cbn [walk lord_slots flat_map] in *.
      - inversion H; subst. split; [exact HSC|]. split; [apply LFR_refl|exact HRel].
      - apply tview_Some in Ht. destruct Ht as (tb & Hgt & Esl & Efr & Eal). rewrite Hgt, Esl in H.
        assert (Tv : tview w t = Some (sl, fr, al)) by (unfold tview; rewrite Hgt; congruence).
        destruct (nth_error sl x) as [[[ser sub]|]|] eqn:Hx.
        + destruct (deliver fn rtl R w p KChanged [v0] sub) as [w1 [ex|]] eqn:Hd; [discriminate H|].
          destruct (sim_ldeliver w s p v0 sub w1 HSC HRel) as (SC1 & FR1 & Rel1); [|exact Hd|].
          { intros label act ->. destruct HSC as (_ & Hna & _). eapply (Hna t x ser label act). exists sl, fr, al. auto. }
          assert (Tv1 : tview w1 t = Some (sl, fr, al)) by (destruct FR1 as (_ & T1 & _); rewrite T1; exact Tv).
          destruct (IH w1 _ w' SC1 Rel1 Tv1 H) as (SC' & FR' & Rel').
          split; [exact SC'|]. split; [eapply LFR_trans; eauto|].
          rewrite (lord_slots_LFR _ _ sl r FR1) in Rel'. unfold L.mark_all in *. rewrite fold_left_app.
          replace (fold_left L.mark_one match sub with SNode b l => match lz w b with Some q => [(q, l)] | None => [] end | SObs _ _ => [] end s)
            with (ladeliver w s sub); [exact Rel'|].
          destruct sub as [label act|b l]; [reflexivity|]. cbn [ladeliver]. destruct (lz w b); reflexivity.
        + cbn [app]. apply IH; auto.
        + cbn [app]. apply IH; auto.
    Qed.
  End Walk.

  Section Emit.
    Variable R : world -> nat -> Z -> res.

    Lemma flag_LFR w t tb e : get_table w t = Some tb ->
      LFR w (put_table w t {| t_slots := t_slots tb; t_free := t_free tb; t_emitting := e; t_alive := t_alive tb |}).
    Proof.
      intros Hgt. pose proof (views_put_flag w t tb e Hgt) as (V1 & V2 & V3 & V4 & V5 & V6 & V7).
      split; [intros b; reflexivity|]. repeat split; auto. intros b x' Hx'. exists x'. auto.
    Qed.

    Lemma sim_lemit_changed w s p v0 ot w' :
      LSC w -> LRel w s -> (exists vp, pview w p = Some vp /\ ps_changed vp = ot) ->
      emit fn rtl R w ot p KChanged [v0] = (w', None) ->
      LSC w' /\ LFR w w' /\ LRel w' (L.mark_all s (LORD w p)).
    Proof.
      intros HSC HRel (vp & Hvp & Hch) H. unfold LORD. rewrite Hvp, Hch.
      unfold emit in H. destruct ot as [t|]; [|inversion H; subst; split; [exact HSC|split; [apply LFR_refl|exact HRel]]].
      destruct (get_table w t) as [tb|] eqn:Hgt; [|discriminate H]. destruct (t_emitting tb) eqn:Hem; [discriminate H|].
      assert (Tv : tview w t = Some (t_slots tb, t_free tb, t_alive tb)) by (unfold tview; rewrite Hgt; reflexivity). rewrite Tv.
      set (w1 := put_table w t _) in *.
      pose proof (flag_LFR w t tb true Hgt) as F1'.
      destruct HSC as (Hinv & Hna & Hsi & Hal). destruct (LSC_LFR _ _ F1' Hinv Hna Hal) as (Hinv1 & Hna1 & Hal1).
      assert (Rel1 : LRel w1 s) by exact HRel.
      assert (Tv1 : tview w1 t = Some (t_slots tb, t_free tb, t_alive tb)) by (destruct F1' as (_ & T1 & _); rewrite T1; exact Tv).
      destruct (walk fn rtl R w1 t p KChanged [v0] (seq 0 (length (t_slots tb)))) as [w2 e2] eqn:Hw.
      destruct e2 as [ex|]; [destruct (get_table w2 t); inversion H|].
      destruct (sim_lwalk R t p v0 _ _ _ _ w1 s w2 (conj Hinv1 (conj Hna1 (conj Hsi Hal1))) Rel1 Tv1 Hw) as (SC2 & FR2 & Rel2).
      rewrite (lord_slots_LFR _ _ _ _ F1') in Rel2.
      destruct (get_table w2 t) as [tb2|] eqn:Hgt2; inversion H; subst w'.
      - pose proof (flag_LFR w2 t tb2 false Hgt2) as F3.
        destruct SC2 as (Hinv2 & Hna2 & Hsi2 & Hal2). destruct (LSC_LFR _ _ F3 Hinv2 Hna2 Hal2) as (Hinv3 & Hna3 & Hal3).
        split; [exact (conj Hinv3 (conj Hna3 (conj Hsi2 Hal3)))|]. split; [eapply LFR_trans; [exact F1'|eapply LFR_trans; eauto]|exact Rel2].
      - split; [exact SC2|]. split; [eapply LFR_trans; eauto|exact Rel2].
    Qed.

    Lemma about_lwalk t p payload : forall idxs w s w',
      LSC w -> LRel w s -> walk fn rtl R w t p KAbout payload idxs = (w', None) -> LSC w' /\ LFR w w' /\ LRel w' s /\ w_props w' = w_props w.
    Proof.
      induction idxs as [|x r IH]; intros w s w' HSC HRel H; cbn [walk] in H.
      - inversion H; subst. split; [exact HSC|split; [apply LFR_refl|split; [exact HRel|reflexivity]]].
      - destruct (get_table w t) as [tb|] eqn:Hgt; [|discriminate H].
        destruct (nth_error (t_slots tb) x) as [[[ser sub]|]|] eqn:Hx; try (eapply IH; eauto; fail).
        destruct sub as [label act|b l].
        + assert (act = None).
          { destruct HSC as (_ & Hna & _). eapply (Hna t x ser label act). exists (t_slots tb), (t_free tb), (t_alive tb). split; [unfold tview; rewrite Hgt; reflexivity|exact Hx]. }
          subst act. cbn [deliver] in H. destruct HSC as (Hinv & Hna & Hsi & Hal).
          assert (HSC1 : LSC (log (EvNotify label KAbout payload (values w p)) w)) by (exact (conj (pinv_views _ _ (views_log _ w) Hinv) (conj Hna (conj Hsi Hal)))).
          destruct payload as [|v0 pl]; cbn in H;
            (destruct (IH _ s w' HSC1 HRel H) as (A1 & A2 & A3 & A4); split; [exact A1|]; split; [eapply LFR_trans; [|exact A2]; repeat split; eauto|split; [exact A3|exact A4]]).
        + cbn [deliver] in H. destruct (get_bind w b); discriminate H.
    Qed.

    Lemma about_lemit w s p payload ot w' :
      LSC w -> LRel w s -> emit fn rtl R w ot p KAbout payload = (w', None) -> LSC w' /\ LFR w w' /\ LRel w' s /\ w_props w' = w_props w.
    Proof.
      intros HSC HRel H. unfold emit in H. destruct ot as [t|]; [|inversion H; subst; split; [exact HSC|split; [apply LFR_refl|split; [exact HRel|reflexivity]]]].
      destruct (get_table w t) as [tb|] eqn:Hgt; [|discriminate H]. destruct (t_emitting tb); [discriminate H|].
      set (w1 := put_table w t _) in *.
      pose proof (flag_LFR w t tb true Hgt) as F1'.
      destruct HSC as (Hinv & Hna & Hsi & Hal). destruct (LSC_LFR _ _ F1' Hinv Hna Hal) as (Hinv1 & Hna1 & Hal1).
      destruct (walk fn rtl R w1 t p KAbout payload (seq 0 (length (t_slots tb)))) as [w2 e2] eqn:Hw.
      destruct e2 as [ex|]; [destruct (get_table w2 t); inversion H|].
      destruct (about_lwalk t p payload _ w1 s w2 (conj Hinv1 (conj Hna1 (conj Hsi Hal1))) HRel Hw) as (SC2 & FR2 & Rel2 & P2).
      destruct (get_table w2 t) as [tb2|] eqn:Hgt2; inversion H; subst w'.
      - pose proof (flag_LFR w2 t tb2 false Hgt2) as F3.
        destruct SC2 as (Hinv2 & Hna2 & Hsi2 & Hal2). destruct (LSC_LFR _ _ F3 Hinv2 Hna2 Hal2) as (Hinv3 & Hna3 & Hal3).
        split; [exact (conj Hinv3 (conj Hna3 (conj Hsi2 Hal3)))|]. split; [eapply LFR_trans; [exact F1'|eapply LFR_trans; eauto]|split; [exact Rel2|exact P2]].
      - split; [exact SC2|]. split; [eapply LFR_trans; eauto|split; [exact Rel2|exact P2]].
    Qed.
  End Emit.

  (* Property::setHelper in a world of evaluator-driven bindings is the abstract `lset`: it stores the value and marks the readers;
     nothing is evaluated, no other value changes (whatever the depth fuel: nothing is re-entered) *)
  Theorem sim_lset f w q v w' s :
    LSC w -> LRel w s -> set_helper fn rtl (S f) w q v = (w', None) ->
    LSC w' /\ LFR w w' /\ LRel w' (L.lset (LORD w) s q v).
  Proof.
    intros HSC HRel H. cbn [set_helper] in H.
    destruct (lookup (w_props w) q) as [pr|] eqn:Hq; [|discriminate H].
    destruct HRel as (R1 & R2). unfold L.lset. rewrite (R1 _ _ Hq).
    destruct (Z.eqb v (pr_value pr)) eqn:Ev.
    - inversion H; subst. split; [exact HSC|split; [apply LFR_refl|exact (conj R1 R2)]].
    - destruct (emit fn rtl (set_helper fn rtl f) w (pr_about pr) q KAbout [pr_value pr; v]) as [w1 [ex|]] eqn:He1; [discriminate H|].
      destruct (about_lemit _ _ _ _ _ _ _ HSC (conj R1 R2) He1) as (SC1 & FR1 & Rel1 & P1).
      assert (Hq1 : lookup (w_props w1) q = Some pr) by (rewrite P1; exact Hq).
      rewrite Hq1 in H.
      set (w2 := set_props w1 (bind_key (w_props w1) q (prop_set_value pr v))) in *.
      assert (F2' : LFR w1 w2).
      { pose proof (views_set_value w1 q pr v Hq1) as (V1 & V2 & V3 & V4 & V5 & V6 & V7). split; [intros b; reflexivity|]. repeat split; auto. intros b x' Hx'. exists x'. auto. }
      destruct SC1 as (Hinv1 & Hna1 & Hsi1 & Hal1). destruct (LSC_LFR _ _ F2' Hinv1 Hna1 Hal1) as (Hinv2 & Hna2 & Hal2).
      assert (IO : forall q', lz_of w2 q' = lz_of w1 q').
      { intros q'. unfold lz_of, w2; cbn [set_props w_props]. rewrite lookup_bind. destruct (Nat.eqb_spec q' q) as [->|]; [|reflexivity].
        rewrite Hq1. reflexivity. }
      assert (Hsi2 : LSIMPLE w2) by (intros q' x' Hx'; rewrite IO in Hx'; eauto).
      set (s2 := {| L.lenv := A.set_env (L.lenv s) q v; L.ltr := L.ltr s |}).
      assert (Rel2 : LRel w2 s2).
      { destruct Rel1 as (Q1 & Q2). split.
        - intros p0 pr0 Hp0. unfold w2 in Hp0; cbn [set_props w_props] in Hp0. rewrite lookup_bind in Hp0. cbn [s2 L.lenv]. unfold A.set_env.
          destruct (Nat.eqb_spec p0 q) as [->|]; [inversion Hp0; reflexivity|auto].
        - intros q'. rewrite IO. apply Q2. }
      destruct (sim_lemit_changed (set_helper fn rtl f) w2 s2 q v (pr_changed pr) w' (conj Hinv2 (conj Hna2 (conj Hsi2 Hal2))) Rel2) as (SC' & FR' & Rel').
      { exists (psigs_of (prop_set_value pr v)). split; [|reflexivity]. unfold pview, w2; cbn [set_props w_props]. rewrite lookup_bind_same. reflexivity. }
      { exact H. }
      split; [exact SC'|]. split; [eapply LFR_trans; [exact FR1|eapply LFR_trans; eauto]|].
      replace (LORD w q) with (LORD w2 q); [exact Rel'|]. apply LFR_LORD. eapply LFR_trans; eauto.
  Qed.

  (* ---- Binding::evaluate and BindingEvaluator::evaluateAll ---- *)
  Definition LORDOK (order : nat -> list (nat * nat)) (w : world) : Prop := forall p, order p = LORD w p.
  Lemma LORDOK_LFR order w w' : LFR w w' -> LORDOK order w -> LORDOK order w'.
  Proof. intros F H p. rewrite (LFR_LORD _ _ p F). apply H. Qed.

  Lemma lset_order_ext (o o' : nat -> list (nat * nat)) s q v : o q = o' q -> L.lset o s q v = L.lset o' s q v.
  Proof. intros E. unfold L.lset. rewrite E. reflexivity. Qed.

  Lemma LFR_log_fns lg : forall w0, LFR w0 (log_fns lg w0).
  Proof.
    induction lg as [|g r IH]; intros w0; cbn [log_fns]; [apply LFR_refl|]. eapply LFR_trans; [|apply IH]. repeat split; eauto.
  Qed.
  Lemma lz_of_log_fns lg : forall w0 q', lz_of (log_fns lg w0) q' = lz_of w0 q'.
  Proof. induction lg as [|g r IH]; intros w0 q'; cbn [log_fns]; [reflexivity|]. rewrite IH. reflexivity. Qed.
  Lemma LRel_log_fns lg w0 s : LRel w0 s -> LRel (log_fns lg w0) s.
  Proof.
    intros (Q1 & Q2). split.
    - intros p0 pr0 Hp0. rewrite PropProofs.log_fns_props in Hp0. auto.
    - intros q'. rewrite lz_of_log_fns. apply Q2.
  Qed.

  Lemma sim_lbinding_evaluate order fuel w s b w' :
    LSC w -> LORDOK order w -> LRel w s -> binding_evaluate fn rtl (set_helper fn rtl fuel) w b = (w', None) ->
    LSC w' /\ LFR w w' /\ LRel w' (match lz w b with Some q => L.eval_one F1 F2 F3 order s q | None => s end).
  Proof.
    intros (Hinv & Hna & Hsi & Hal) Hord HRel H. unfold binding_evaluate in H.
    destruct (get_bind w b) as [x|] eqn:Hb; [|discriminate H].
    destruct (eval fn rtl (values w) (b_root x)) as [[t r] lg] eqn:He. destruct r as [v|ex]; [|discriminate H].
    pose proof (leaves_eval fn rtl (values w) (b_root x)) as Hl. rewrite He in Hl. cbn [fst] in Hl.
    set (w1 := log_fns lg (put_bind w b (bind_with_root x t))) in *.
    assert (FR1 : LFR w w1) by (eapply LFR_trans; [apply (put_root_LFR w b x t Hb Hl)|apply LFR_log_fns]).
    destruct (LSC_LFR _ _ FR1 Hinv Hna Hal) as (Hinv1 & Hna1 & Hal1).
    unfold lz. rewrite Hb. destruct (b_target x) as [q|] eqn:Htg.
    - assert (Bv : bview w b = Some (leaves (b_root x), Some q)) by (unfold bview; rewrite Hb, Htg; reflexivity).
      destruct (pi_tgt _ _ _ _ _ _ _ Hinv _ _ _ Bv) as (vq & Evq & Euq).
      assert (Hlz : lz_of w q = Some x).
      { unfold lz_of. unfold pview in Evq. destruct (lookup (w_props w) q) as [pr|]; [|discriminate Evq]. assert (vq = psigs_of pr) by congruence. subst vq.
        cbn in Euq. rewrite Euq. exact Hb. }
      pose proof HRel as (R1 & R2).
      destruct (abs_tree (b_root x)) as [T|] eqn:HT; [|exfalso; exact (Hsi _ _ Hlz HT)].
      assert (Htr : L.ltr s q = Some T) by (rewrite R2, Hlz; exact HT).
      assert (Hval : forall p0 lid, In (p0, lid) (A.leaves T) -> values w p0 = Some (L.lenv s p0)).
      { intros p0 lid Hi. destruct (abs_leaf_in _ _ _ _ HT Hi) as (lf & Hlf & Htg0 & _).
        destruct (leaf_target_exists w b x lf p0 Hinv Hb Hlf Htg0) as (pr & Hp & _). unfold values. rewrite Hp. cbn. rewrite (R1 _ _ Hp). reflexivity. }
      destruct (sim_eval fn rtl (values w) (L.lenv s) _ _ _ _ _ HT Hval He) as [Et Ev].
      unfold L.eval_one. rewrite Htr. destruct (A.eval F1 F2 F3 (L.lenv s) T) as [T2 vT] eqn:HeT. cbn [fst snd] in *. subst vT.
      assert (Rel1 : LRel w1 {| L.lenv := L.lenv s; L.ltr := A.set_tr (L.ltr s) q T2 |}).
      { unfold w1. apply LRel_log_fns. apply (put_root_LRel w s b x t T2 q Hinv HRel Hb Htg Et). }
      assert (Hsi1 : LSIMPLE w1).
      { intros q' x' Hx'. unfold w1 in Hx'. rewrite lz_of_log_fns in Hx'. unfold lz_of in Hx'. change (w_props (put_bind w b (bind_with_root x t))) with (w_props w) in Hx'.
        destruct (lookup (w_props w) q') as [pr'|] eqn:Hp'; [|discriminate Hx']. destruct (pr_updater pr') as [b'|] eqn:Hu'; [|discriminate Hx'].
        rewrite (get_bind_put_root _ _ _ _ _ Hb) in Hx'. destruct (Nat.eqb_spec b b') as [<-|Hne].
        - inversion Hx'; subst x'. cbn [bind_with_root b_root]. congruence.
        - apply (Hsi q' x'). unfold lz_of. rewrite Hp', Hu'. exact Hx'. }
      destruct fuel as [|f]; [cbn [set_helper] in H; discriminate H|].
      destruct (sim_lset f w1 q v w' _ (conj Hinv1 (conj Hna1 (conj Hsi1 Hal1))) Rel1 H) as (SC' & FR' & Rel').
      split; [exact SC'|]. split; [eapply LFR_trans; eauto|].
      rewrite (lset_order_ext order (LORD w1) _ q v); [exact Rel'|]. rewrite (LFR_LORD _ _ q FR1). apply Hord.
    - inversion H; subst w'.
      split; [split; [exact Hinv1|split; [exact Hna1|split; [|exact Hal1]]]|split; [exact FR1|]].
      + intros q' x' Hx'. unfold w1 in Hx'. rewrite lz_of_log_fns in Hx'. unfold lz_of in Hx'. change (w_props (put_bind w b (bind_with_root x t))) with (w_props w) in Hx'.
        destruct (lookup (w_props w) q') as [pr'|] eqn:Hp'; [|discriminate Hx']. destruct (pr_updater pr') as [b'|] eqn:Hu'; [|discriminate Hx'].
        rewrite (get_bind_put_root _ _ _ _ _ Hb) in Hx'. destruct (Nat.eqb_spec b b') as [<-|Hne].
        * exfalso. assert (Pv' : pview w q' = Some (psigs_of pr')) by (unfold pview; rewrite Hp'; reflexivity).
          destruct (pi_upd _ _ _ _ _ _ _ Hinv _ _ _ Pv' Hu' (fun z => z)) as (ls & Eb). unfold bview in Eb. rewrite Hb in Eb. congruence.
        * apply (Hsi q' x'). unfold lz_of. rewrite Hp', Hu'. exact Hx'.
      + unfold w1. apply LRel_log_fns. apply (put_root_LRel_other w s b x t Hinv HRel Hb Htg).
  Qed.

  (* the properties updated by the registered bindings, in registration order *)
  Definition regs_of (w : world) (l : list (nat * nat)) : list nat :=
    flat_map (fun rb => match lz w (snd rb) with Some q => [q] | None => [] end) l.
  Lemma regs_of_LFR w w' l : LFR w w' -> regs_of w' l = regs_of w l.
  Proof. intros (A1 & _). unfold regs_of. apply flat_map_ext. intros rb. rewrite A1. reflexivity. Qed.

  (* the loop of evaluateAll (the fix inside PropDefs.step1) *)
  Definition evalall_loop (fuel id : nat) : list (nat * nat) -> world -> res :=
    fix go (l : list (nat * nat)) (w : world) : res :=
      match l with
      | [] => ok w
      | (rid, b) :: r =>
          let still := match nth_error (w_evps w) id with
                       | Some st' => existsb (fun q => Nat.eqb (fst q) rid) (ep_registry st')
                       | None => false end in
          if still then
            match binding_evaluate fn rtl (set_helper fn rtl fuel) w b with
            | (w1, None) => go r w1
            | (w1, Some x) => (w1, Some x)
            end
          else go r w
      end.

  Lemma sim_lloop order fuel id : forall l w s w' st,
    LSC w -> LORDOK order w -> LRel w s -> nth_error (w_evps w) id = Some st -> (forall rb, In rb l -> In rb (ep_registry st)) ->
    evalall_loop fuel id l w = (w', None) ->
    LSC w' /\ LFR w w' /\ LRel w' (L.eval_all F1 F2 F3 order (regs_of w l) s).
  Proof.
    induction l as [|[rid b] r IH]; intros w s w' st HSC Hord HRel Hst Hin H; cbn [evalall_loop] in H.
    - inversion H; subst. split; [exact HSC|]. split; [apply LFR_refl|exact HRel].
    - rewrite Hst in H.
      assert (Hstill : existsb (fun q => Nat.eqb (fst q) rid) (ep_registry st) = true).
      { apply existsb_exists. exists (rid, b). split; [apply Hin; left; reflexivity|cbn; apply Nat.eqb_refl]. }
      rewrite Hstill in H.
      destruct (binding_evaluate fn rtl (set_helper fn rtl fuel) w b) as [w1 [ex|]] eqn:Hb; [discriminate H|].
      destruct (sim_lbinding_evaluate order fuel w s b w1 HSC Hord HRel Hb) as (SC1 & FR1 & Rel1).
      assert (Hst1 : nth_error (w_evps w1) id = Some st) by (destruct FR1 as (_ & _ & _ & _ & _ & _ & _ & _ & E & _); rewrite E; exact Hst).
      destruct (IH w1 _ w' st SC1 (LORDOK_LFR _ _ _ FR1 Hord) Rel1 Hst1 (fun rb Hi => Hin rb (or_intror Hi)) H) as (SC' & FR' & Rel').
      split; [exact SC'|]. split; [eapply LFR_trans; eauto|].
      rewrite (regs_of_LFR _ _ r FR1) in Rel'. unfold regs_of at 1. cbn [flat_map snd]. unfold L.eval_all in *. rewrite fold_left_app.
      fold (regs_of w r). destruct (lz w b) as [q|]; [exact Rel'|exact Rel'].
  Qed.

  (* ---- coherence of a world of evaluator-driven bindings ---- *)
  Definition LCOH (w : world) : Prop := exists s, LRel w s /\ L.LInv F1 F2 F3 (LORD w) s.

  Lemma LInv_order_ext (o o' : nat -> list (nat * nat)) s : (forall p, o' p = o p) -> L.LInv F1 F2 F3 o s -> L.LInv F1 F2 F3 o' s.
  Proof.
    intros E H q t Ht. destruct (H q t Ht) as (A1 & A2 & A3 & A4). repeat split; auto.
    - intros p lid Hi. rewrite E. auto.
    - intros p p' lid Hi. rewrite E in Hi. eauto.
  Qed.

  (* no registered binding reads the property it updates or one updated by a binding registered after it *)
  Fixpoint lchain (w : world) (regs : list nat) : Prop :=
    match regs with
    | [] => True
    | q :: r => (forall x lf p, lz_of w q = Some x -> In lf (leaves (b_root x)) -> lf_tg lf = Some p -> ~ In p (q :: r)) /\ lchain w r
    end.

  Lemma chain_of_lchain w s : LRel w s -> forall regs, lchain w regs -> L.chain s regs.
  Proof.
    intros (R1 & R2). induction regs as [|q r IH]; cbn [lchain L.chain]; [auto|]. intros [HA HC]. split; [|auto].
    intros t p lid Ht Hi. rewrite R2 in Ht. destruct (lz_of w q) as [x|] eqn:Hx; [|discriminate Ht].
    destruct (abs_leaf_in _ _ _ _ Ht Hi) as (lf & Hlf & Htg & _). eapply HA; eauto.
  Qed.

  (* an assignment in a world of evaluator-driven bindings: coherence kept, no other property changes its value *)
  Theorem lazy_assignment f w p v w' :
    LSC w -> LCOH w -> set_helper fn rtl (S f) w p v = (w', None) ->
    LSC w' /\ LCOH w' /\ LFR w w' /\ (forall q, q <> p -> values w' q = values w q).
  Proof.
    intros HSC (s & HRel & HInv) H. destruct (sim_lset f w p v w' s HSC HRel H) as (SC' & FR' & Rel').
    split; [exact SC'|]. split; [|split; [exact FR'|]].
    - exists (L.lset (LORD w) s p v). split; [exact Rel'|]. apply (LInv_order_ext (LORD w)); [intros p0; apply LFR_LORD; exact FR'|].
      apply L.lset_inv. exact HInv.
    - intros q Hne. destruct HRel as (R1 & _), Rel' as (Q1 & _). destruct FR' as (_ & _ & P3 & _).
      unfold values. pose proof (P3 q) as Ep. unfold pview in Ep.
      destruct (lookup (w_props w') q) as [pr'|] eqn:E', (lookup (w_props w) q) as [pr|] eqn:E; try discriminate Ep; [|reflexivity].
      cbn. rewrite <- (Q1 _ _ E'), <- (R1 _ _ E). rewrite (L.lset_env F1 F2 F3). destruct (Nat.eqb_spec q p); [contradiction|reflexivity].
  Qed.

  (* evaluateAll keeps the state conditions (whatever the registration order) *)
  Theorem lazy_evalall_keeps fuel w e st w' :
    LSC w -> LCOH w -> lookup (w_bevs w) e = Some ev -> nth_error (w_evps w) ev = Some st ->
    step1 fn rtl fuel w (BevEvalAll e) = (w', None) -> LSC w' /\ LCOH w' /\ LFR w w'.
  Proof.
    intros HSC (s & HRel & HInv) He Hst H. cbn [step1] in H. rewrite He, Hst in H.
    change (evalall_loop fuel ev (ep_registry st) w = (w', None)) in H.
    destruct (sim_lloop (LORD w) fuel ev (ep_registry st) w s w' st HSC (fun _ => eq_refl) HRel Hst (fun rb Hi => Hi) H) as (SC' & FR' & Rel').
    split; [exact SC'|]. split; [|exact FR'].
    exists (L.eval_all F1 F2 F3 (LORD w) (regs_of w (ep_registry st)) s). split; [exact Rel'|].
    apply (LInv_order_ext (LORD w)); [intros p0; apply LFR_LORD; exact FR'|apply L.eval_all_inv; exact HInv].
  Qed.

  (* C06 on the executable model: one evaluateAll over bindings registered in dependency order *)
  Theorem lazy_evalall_consistent fuel w e st w' :
    LSC w -> LCOH w -> lookup (w_bevs w) e = Some ev -> nth_error (w_evps w) ev = Some st ->
    NoDup (regs_of w (ep_registry st)) -> lchain w (regs_of w (ep_registry st)) ->
    step1 fn rtl fuel w (BevEvalAll e) = (w', None) ->
    LSC w' /\ LCOH w' /\
    forall q x pr z, In q (regs_of w (ep_registry st)) -> lz_of w' q = Some x -> lookup (w_props w') q = Some pr ->
      PropCheck.den_node fn (values w') (b_root x) = Some z -> pr_value pr = z.
  Proof.
    intros HSC (s & HRel & HInv) He Hst ND HC H. cbn [step1] in H. rewrite He, Hst in H.
    change (evalall_loop fuel ev (ep_registry st) w = (w', None)) in H.
    destruct (sim_lloop (LORD w) fuel ev (ep_registry st) w s w' st HSC (fun _ => eq_refl) HRel Hst (fun rb Hi => Hi) H) as (SC' & FR' & Rel').
    set (regs := regs_of w (ep_registry st)) in *. set (s' := L.eval_all F1 F2 F3 (LORD w) regs s) in *.
    assert (HInv' : L.LInv F1 F2 F3 (LORD w) s') by (apply L.eval_all_inv; exact HInv).
    split; [exact SC'|]. split.
    - exists s'. split; [exact Rel'|]. apply (LInv_order_ext (LORD w)); [intros p0; apply LFR_LORD; exact FR'|exact HInv'].
    - intros q x pr z Hq Hx Hp Hd. destruct SC' as (Hinv' & Hna' & Hsi' & Hal'). pose proof Rel' as (Q1 & Q2).
      destruct (abs_tree (b_root x)) as [T|] eqn:HT; [|exfalso; exact (Hsi' _ _ Hx HT)].
      assert (Htr : L.ltr s' q = Some T) by (rewrite Q2, Hx; exact HT).
      destruct (L.eval_all_consistent F1 F2 F3 (LORD w) regs s HInv ND (chain_of_lchain w s HRel regs HC) q T Hq Htr) as [_ Eden].
      assert (Hb : exists b, get_bind w' b = Some x).
      { unfold lz_of in Hx. rewrite Hp in Hx. destruct (pr_updater pr) as [b|]; [eauto|discriminate Hx]. }
      destruct Hb as (b & Hb).
      assert (Hval : forall p0 lid, In (p0, lid) (A.leaves T) -> values w' p0 = Some (L.lenv s' p0)).
      { intros p0 lid Hi. destruct (abs_leaf_in _ _ _ _ HT Hi) as (lf & Hlf & Htg0 & _).
        destruct (leaf_target_exists w' b x lf p0 Hinv' Hb Hlf Htg0) as (pr0 & Hp0 & _). unfold values. rewrite Hp0. cbn. rewrite (Q1 _ _ Hp0). reflexivity. }
      rewrite (den_node_abs fn (values w') (L.lenv s') _ _ _ HT Hval Hd). rewrite <- (Q1 _ _ Hp). exact Eden.
  Qed.
End SimLazy.
