(* The link invariant holds in every world reached by a legal history of the property-layer model, and what it says in
   terms of the model's own vocabulary. *)
From KDB Require Import Util UtilProofs PropDefs PropFlags PropLink PropLinkBasics PropLinkOps PropLinkMove.

Lemma nth_nil {A} n : nth_error (@nil A) n = None.
Proof. destruct n; reflexivity. Qed.

Lemma pinv_world0 : pinv world0.
Proof.
  assert (T : forall t, tview world0 t = None) by (intros t; unfold tview, get_table; cbn; rewrite nth_nil; reflexivity).
  assert (B : forall b, bview world0 b = None) by (intros b; unfold bview, get_bind; cbn; rewrite nth_nil; reflexivity).
  assert (P : forall p, pview world0 p = None) by reflexivity.
  assert (S : forall t pos ser s, ~ slot_at world0 t pos ser s) by (intros t pos ser s (sl & fr & al & E & _); rewrite T in E; discriminate E).
  assert (HL : forall b lf, ~ has_leaf world0 b lf) by (intros b lf (ls & tg & E & _); rewrite B in E; discriminate E).
  assert (OW : forall p k t, ~ owns world0 p k t) by (intros p k t (v & E & _); discriminate E).
  constructor.
  - intros t sl fr al E. rewrite T in E. discriminate E.
  - intros t sl fr pos x E. rewrite T in E. discriminate E.
  - intros p k t Ho. destruct (OW _ _ _ Ho).
  - intros p k p' k' t Ho. destruct (OW _ _ _ Ho).
  - intros p k t pos ser s Ho. destruct (OW _ _ _ Ho).
  - intros b lf p Hl. destruct (HL _ _ Hl).
  - intros b lf p Hl. destruct (HL _ _ Hl).
  - intros b lf p Hl. destruct (HL _ _ Hl).
  - intros b lf p Hl. destruct (HL _ _ Hl).
  - intros t pos ser b l _ Hs. destruct (S _ _ _ _ Hs).
  - intros t pos ser b l lf p k Hs. destruct (S _ _ _ _ Hs).
  - intros b ls tg E. rewrite B in E. discriminate E.
  - repeat split.
    + intros t pos ser s Hs. destruct (S _ _ _ _ Hs).
    + intros n h E. discriminate E.
    + intros b lf h Hl. destruct (HL _ _ Hl).
  - intros n h t pos s E. discriminate E.
  - intros b lf h t pos s Hl. destruct (HL _ _ Hl).
  - intros p v b E. discriminate E.
  - intros b ls p E. rewrite B in E. discriminate E.
  - intros n b E. discriminate E.
Qed.

Lemma noemit_world0 : NOEMIT world0.
Proof. intros t (tb & E & _). unfold get_table in E. cbn in E. rewrite nth_nil in E. discriminate E. Qed.

Section Run.
  Variable fn : nat -> list Z -> option Z.
  Variable rtl : bool.
  Variable fuel : nat.

  (* one operation: any expression, any user functions, either evaluation order, observers that write or reset *)
  Theorem step1_pinv w o w' e :
    pinv w -> NOEMIT w -> step1 fn rtl fuel w o = (w', e) -> okx e -> pinv w'.
  Proof.
    intros Hinv HNE H Hok. destruct (is_move o) eqn:Hm.
    - destruct o; try discriminate Hm; [eapply movector_pinv|eapply moveassign_pinv]; eauto.
    - eapply step1_pinv_nomove; eauto.
  Qed.

  (* a legal history: no operation was answered with "not a legal program", "not modelled" or "out of fuel" *)
  Fixpoint run_ok (w : world) (ops : list op) : Prop :=
    match ops with
    | [] => True
    | o :: r => okx (snd (step1 fn rtl fuel w o)) /\ run_ok (step fn rtl fuel w o) r
    end.
  Fixpoint run_okb (w : world) (ops : list op) : bool :=
    match ops with
    | [] => true
    | o :: r => okxb (snd (step1 fn rtl fuel w o)) && run_okb (step fn rtl fuel w o) r
    end.
  Lemma okxb_okx e : okxb e = true -> okx e.
  Proof. destruct e as [[]|]; cbn; auto; discriminate. Qed.
  Lemma run_okb_ok : forall ops w, run_okb w ops = true -> run_ok w ops.
  Proof.
    induction ops as [|o r IH]; intros w H; cbn in *; [exact I|]. apply andb_prop in H. destruct H as [H1 H2].
    split; [apply okxb_okx; exact H1|apply IH; exact H2].
  Qed.

  Theorem run_pinv : forall ops w, pinv w -> NOEMIT w -> run_ok w ops ->
    pinv (fold_left (step fn rtl fuel) ops w) /\ NOEMIT (fold_left (step fn rtl fuel) ops w).
  Proof.
    induction ops as [|o r IH]; intros w Hinv HNE Hok; cbn [fold_left]; [auto|]. destruct Hok as [Ho Hr].
    apply IH; [| |exact Hr].
    - unfold step. destruct (step1 fn rtl fuel w o) as [w1 e] eqn:E. cbn [snd] in Ho.
      eapply pinv_views; [apply views_log|]. eapply step1_pinv; eauto.
    - apply step_noemit. exact HNE.
  Qed.

  Theorem reachable_pinv ops : run_ok world0 ops -> pinv (run fn rtl fuel ops).
  Proof. intros H. apply (run_pinv ops world0 pinv_world0 noemit_world0 H). Qed.

  (* ---- what the invariant says, in the vocabulary of the model ---- *)

  (* C10: no expression leaf of a live binding refers to a property that is gone; it holds live subscriptions on the changed,
     moved and destroyed signals of exactly the property it refers to (so it will hear about its destruction or move) *)
  Theorem leaf_target_exists w b x lf p :
    pinv w -> get_bind w b = Some x -> In lf (leaves (b_root x)) -> lf_tg lf = Some p ->
    exists pr, lookup (w_props w) p = Some pr /\
      pr_changed pr = Some (h_table (lf_hc lf)) /\ live w (lf_hc lf) (SNode b (lf_id lf)) /\
      pr_moved pr = Some (h_table (lf_hm lf)) /\ live w (lf_hm lf) (SNode b (lf_id lf)) /\
      pr_destroyed pr = Some (h_table (lf_hd lf)) /\ live w (lf_hd lf) (SNode b (lf_id lf)).
  Proof.
    intros Hinv Hb Hi Ht.
    assert (Hl : has_leaf w b lf) by (exists (leaves (b_root x)), (b_target x); split; [unfold bview; rewrite Hb; reflexivity|exact Hi]).
    destruct (pi_leafc _ _ _ _ _ _ _ Hinv _ _ _ Hl Ht (fun z => z)) as [(v & Ev & Ec) Lc].
    destruct (pi_leafm _ _ _ _ _ _ _ Hinv _ _ _ Hl Ht (fun z => z)) as [(v2 & Ev2 & Em) Lm].
    destruct (pi_leafd _ _ _ _ _ _ _ Hinv _ _ _ Hl Ht (fun z => z)) as [(v3 & Ev3 & Ed) Ld].
    unfold pview in *. destruct (lookup (w_props w) p) as [pr|]; [|discriminate Ev].
    assert (v = psigs_of pr) by congruence. assert (v2 = psigs_of pr) by congruence. assert (v3 = psigs_of pr) by congruence. subst.
    exists pr. cbn in Ec, Em, Ed. auto 10.
  Qed.

  (* ... hence evaluating the tree of a live binding never reads a missing property *)
  Lemma eval_bad_leaf val : forall t, snd (fst (eval fn rtl val t)) = inr PxBad ->
    exists lf p, In lf (leaves t) /\ lf_tg lf = Some p /\ val p = None.
  Proof.
    induction t as [v|tg d l hc hm hd|f d c a IHa|f d c a IHa b IHb|f d c a IHa b IHb e IHe]; cbn [eval leaves].
    - discriminate.
    - destruct tg as [p|]; [|discriminate]. destruct (val p) eqn:E; [discriminate|]. intros _. eexists _, p. split; [left; reflexivity|auto].
    - destruct d; [|discriminate]. destruct (eval fn rtl val a) as [[a' ra] la]. cbn [fst snd] in *.
      destruct ra as [va|x]; [destruct (fn f [va]); discriminate|]. cbn. intros E. inversion E; subst. apply IHa. reflexivity.
    - destruct d; [|discriminate].
      destruct (eval fn rtl val a) as [[a' ra] la], (eval fn rtl val b) as [[b' rb] lb]. cbn [fst snd] in *.
      assert (Ha : ra = inr PxBad -> exists lf p, In lf (leaves a ++ leaves b) /\ lf_tg lf = Some p /\ val p = None)
        by (intros E; destruct (IHa E) as (lf & p & Hi & Hx); exists lf, p; split; [apply in_or_app; auto|exact Hx]).
      assert (Hb : rb = inr PxBad -> exists lf p, In lf (leaves a ++ leaves b) /\ lf_tg lf = Some p /\ val p = None)
        by (intros E; destruct (IHb E) as (lf & p & Hi & Hx); exists lf, p; split; [apply in_or_app; auto|exact Hx]).
      destruct rtl.
      + destruct rb as [vb|x]; [destruct ra as [va|x]; [destruct (fn f [va; vb]); discriminate|]|]; cbn; intros E; inversion E; subst; auto.
      + destruct ra as [va|x]; [destruct rb as [vb|x]; [destruct (fn f [va; vb]); discriminate|]|]; cbn; intros E; inversion E; subst; auto.
    - destruct d; [|discriminate].
      destruct (eval fn rtl val a) as [[a' ra] la], (eval fn rtl val b) as [[b' rb] lb], (eval fn rtl val e) as [[e' re] le]. cbn [fst snd] in *.
      assert (Ha : ra = inr PxBad -> exists lf p, In lf (leaves a ++ leaves b ++ leaves e) /\ lf_tg lf = Some p /\ val p = None)
        by (intros E; destruct (IHa E) as (lf & p & Hi & Hx); exists lf, p; split; [apply in_or_app; auto|exact Hx]).
      assert (Hb : rb = inr PxBad -> exists lf p, In lf (leaves a ++ leaves b ++ leaves e) /\ lf_tg lf = Some p /\ val p = None)
        by (intros E; destruct (IHb E) as (lf & p & Hi & Hx); exists lf, p; split; [apply in_or_app; right; apply in_or_app; auto|exact Hx]).
      assert (He : re = inr PxBad -> exists lf p, In lf (leaves a ++ leaves b ++ leaves e) /\ lf_tg lf = Some p /\ val p = None)
        by (intros E; destruct (IHe E) as (lf & p & Hi & Hx); exists lf, p; split; [apply in_or_app; right; apply in_or_app; auto|exact Hx]).
      destruct rtl.
      + destruct re as [ve|x]; [destruct rb as [vb|x]; [destruct ra as [va|x]; [destruct (fn f [va; vb; ve]); discriminate|]|]|];
          cbn; intros E; inversion E; subst; auto.
      + destruct ra as [va|x]; [destruct rb as [vb|x]; [destruct re as [ve|x]; [destruct (fn f [va; vb; ve]); discriminate|]|]|];
          cbn; intros E; inversion E; subst; auto.
  Qed.

  Theorem evaluation_never_dangles w b x :
    pinv w -> get_bind w b = Some x -> snd (fst (eval fn rtl (values w) (b_root x))) <> inr PxBad.
  Proof.
    intros Hinv Hb E. destruct (eval_bad_leaf _ _ E) as (lf & p & Hi & Ht & Hv).
    destruct (leaf_target_exists _ _ _ _ _ Hinv Hb Hi Ht) as (pr & Hp & _). unfold values in Hv. rewrite Hp in Hv. discriminate Hv.
  Qed.

  (* updater and binding refer to each other *)
  Theorem updater_target_mutual w p pr b :
    pinv w -> lookup (w_props w) p = Some pr -> pr_updater pr = Some b -> exists x, get_bind w b = Some x /\ b_target x = Some p.
  Proof.
    intros Hinv Hp Hu. assert (Pv : pview w p = Some (psigs_of pr)) by (unfold pview; rewrite Hp; reflexivity).
    destruct (pi_upd _ _ _ _ _ _ _ Hinv _ _ _ Pv Hu (fun z => z)) as (ls & Eb). unfold bview in Eb.
    destruct (get_bind w b) as [x|]; [|discriminate Eb]. exists x. split; [reflexivity|]. congruence.
  Qed.

  (* C07: after reset() the former binding is gone and holds no subscription on any signal any more: no later write to any
     former input can reach it; the same holds for the binding replaced by an assignment of a new one *)
  Theorem reset_disconnects w p pr b w' :
    pinv w -> lookup (w_props w) p = Some pr -> pr_updater pr = Some b -> step1 fn rtl fuel w (PReset p) = (w', None) ->
    pinv w' /\ get_bind w' b = None /\ (forall t pos ser l, ~ slot_at w' t pos ser (SNode b l)) /\
    (exists pr', lookup (w_props w') p = Some pr' /\ pr_updater pr' = None).
  Proof.
    intros Hinv Hp Hu H. cbn [step1] in H. rewrite Hp, Hu in H.
    destruct (destroy_binding w b) as [w1 [ex|]] eqn:Hd; [discriminate H|].
    destruct (reset_pinv _ _ _ _ _ Hinv Hp Hu Hd) as (Hp1 & I1 & I2 & I3 & _). rewrite Hp1 in H. inversion H; subst. split; [exact I1|].
    split; [|split].
    - unfold bview in I3. change (get_bind (set_props w1 _) b) with (get_bind w1 b). destruct (get_bind w1 b); [discriminate I3|reflexivity].
    - exact I2.
    - eexists. split; [cbn [set_props w_props]; apply lookup_bind_same|reflexivity].
  Qed.

  (* every node subscription found in any signal belongs to a leaf of a live binding that refers to the signal's owner *)
  Theorem no_orphan_subscription w t pos ser b l :
    pinv w -> slot_at w t pos ser (SNode b l) ->
    exists x lf, get_bind w b = Some x /\ In lf (leaves (b_root x)) /\ lf_id lf = l /\
                 In {| h_table := t; h_pos := pos; h_serial := ser |} (lf_handles lf).
  Proof.
    intros Hinv Hs. destruct (pi_slot _ _ _ _ _ _ _ Hinv _ _ _ _ _ (fun z => z) Hs) as (lf & (ls & tg & Eb & Hi) & Hid & Hh).
    unfold bview in Eb. destruct (get_bind w b) as [x|]; [|discriminate Eb]. exists x, lf. inversion Eb; subst. auto.
  Qed.

  Theorem only_live_subscribed w t pos ser b l : pinv w -> slot_at w t pos ser (SNode b l) -> exists x, get_bind w b = Some x.
  Proof. intros H1 H2. destruct (no_orphan_subscription w t pos ser b l H1 H2) as (x & _ & E & _). exists x. exact E. Qed.
End Run.
