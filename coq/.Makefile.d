generated/GenWidth.vo generated/GenWidth.glob generated/GenWidth.v.beautified generated/GenWidth.required_vo: generated/GenWidth.v 
generated/GenWidth.vio: generated/GenWidth.v 
generated/GenWidth.vos generated/GenWidth.vok generated/GenWidth.required_vos: generated/GenWidth.v 
Util.vo Util.glob Util.v.beautified Util.required_vo: Util.v 
Util.vio: Util.v 
Util.vos Util.vok Util.required_vos: Util.v 
UtilProofs.vo UtilProofs.glob UtilProofs.v.beautified UtilProofs.required_vo: UtilProofs.v Util.vo
UtilProofs.vio: UtilProofs.v Util.vio
UtilProofs.vos UtilProofs.vok UtilProofs.required_vos: UtilProofs.v Util.vos
GenIdx.vo GenIdx.glob GenIdx.v.beautified GenIdx.required_vo: GenIdx.v Util.vo generated/GenWidth.vo
GenIdx.vio: GenIdx.v Util.vio generated/GenWidth.vio
GenIdx.vos GenIdx.vok GenIdx.required_vos: GenIdx.v Util.vos generated/GenWidth.vos
GenIdxProofs.vo GenIdxProofs.glob GenIdxProofs.v.beautified GenIdxProofs.required_vo: GenIdxProofs.v Util.vo UtilProofs.vo GenIdx.vo generated/GenWidth.vo
GenIdxProofs.vio: GenIdxProofs.v Util.vio UtilProofs.vio GenIdx.vio generated/GenWidth.vio
GenIdxProofs.vos GenIdxProofs.vok GenIdxProofs.required_vos: GenIdxProofs.v Util.vos UtilProofs.vos GenIdx.vos generated/GenWidth.vos
SigDefs.vo SigDefs.glob SigDefs.v.beautified SigDefs.required_vo: SigDefs.v GenIdx.vo
SigDefs.vio: SigDefs.v GenIdx.vio
SigDefs.vos SigDefs.vok SigDefs.required_vos: SigDefs.v GenIdx.vos
SigInv.vo SigInv.glob SigInv.v.beautified SigInv.required_vo: SigInv.v Util.vo UtilProofs.vo GenIdx.vo GenIdxProofs.vo SigDefs.vo
SigInv.vio: SigInv.v Util.vio UtilProofs.vio GenIdx.vio GenIdxProofs.vio SigDefs.vio
SigInv.vos SigInv.vok SigInv.required_vos: SigInv.v Util.vos UtilProofs.vos GenIdx.vos GenIdxProofs.vos SigDefs.vos
