generated/GenWidth.vo generated/GenWidth.glob generated/GenWidth.v.beautified generated/GenWidth.required_vo: generated/GenWidth.v 
generated/GenWidth.vio: generated/GenWidth.v 
generated/GenWidth.vos generated/GenWidth.vok generated/GenWidth.required_vos: generated/GenWidth.v 
Util.vo Util.glob Util.v.beautified Util.required_vo: Util.v 
Util.vio: Util.v 
Util.vos Util.vok Util.required_vos: Util.v 
GenIdx.vo GenIdx.glob GenIdx.v.beautified GenIdx.required_vo: GenIdx.v Util.vo generated/GenWidth.vo
GenIdx.vio: GenIdx.v Util.vio generated/GenWidth.vio
GenIdx.vos GenIdx.vok GenIdx.required_vos: GenIdx.v Util.vos generated/GenWidth.vos
SigDefs.vo SigDefs.glob SigDefs.v.beautified SigDefs.required_vo: SigDefs.v GenIdx.vo
SigDefs.vio: SigDefs.v GenIdx.vio
SigDefs.vos SigDefs.vok SigDefs.required_vos: SigDefs.v GenIdx.vos
