(* Proofs about the concurrency model of ConnectionEvaluator (ConcModel.v). *)
From KDB Require Import EvalIR ConcModel.
From Coq Require Import Lia Permutation.

(* ================================================================================================ *)
(* Part A: no deadlock under every interleaving *)

Definition owners_exist (s : lstate) : Prop :=
  (forall o, mown s = Some o -> exists t, nth_error (ths s) o = Some t) /\
  (forall o, lown s = Some o -> exists t, nth_error (ths s) o = Some t).

Definition LInv (s : lstate) : Prop := linv s /\ owners_exist s.

Lemma nth_upd_th_same l i t : i < List.length l -> nth_error (upd_th l i t) i = Some t.
Proof. revert i; induction l as [|h r IH]; intros [|j] H; cbn in *; try lia; auto. apply IH; lia. Qed.
Lemma nth_upd_th_other l i j t : i <> j -> nth_error (upd_th l i t) j = nth_error l j.
Proof. revert i j; induction l as [|h r IH]; intros [|i] [|j] H; cbn; auto; try congruence. Qed.

Lemma LInv_init progs : LInv (linit progs).
Proof.
  split.
  - intros i t H. cbn in H. rewrite nth_error_map in H.
    destruct (nth_error progs i) as [p|]; [|discriminate]. inversion H; subst t; clear H. cbn.
    repeat split; try discriminate.
    + unfold pc_ok; cbn. destruct p as [|c r]; [reflexivity|]. destruct c; cbn; lia.
    + unfold holdsM; cbn. destruct p as [|[] r]; cbn; discriminate.
    + unfold holdsL; cbn. destruct p as [|[] r]; cbn; discriminate.
  - split; intros o H; discriminate.
Qed.

(* the next action of a thread, read off its position *)
Lemma next_when_holdsM t : pc_ok t -> holdsM t = true -> next_act t = Some RelM.
Proof.
  unfold pc_ok, holdsM, next_act. destruct (todo t) as [|[] r]; try discriminate; intros _ H;
    apply Nat.eqb_eq in H; rewrite H; reflexivity.
Qed.

Lemma next_when_holdsL t : pc_ok t -> holdsL t = true -> holdsM t = false ->
  next_act t = Some RelL \/ next_act t = Some AcqM.
Proof.
  unfold pc_ok, holdsL, holdsM, next_act. destruct (todo t) as [|[] r]; try discriminate; intros Hp H Hm.
  - apply Nat.eqb_eq in H; rewrite H; left; reflexivity.
  - cbn in Hp. destruct (pc t) as [|[|[|[|n]]]]; cbn in *; try discriminate; try lia; auto.
Qed.

Lemma next_exists t : pc_ok t -> finished t = false -> exists a, next_act t = Some a.
Proof.
  unfold pc_ok, finished, next_act. destruct (todo t) as [|c r]; [discriminate|]. intros H _.
  destruct (nth_error (shape c) (pc t)) eqn:E; [eauto|]. apply nth_error_None in E. lia.
Qed.

(* C08: every reachable state in which some thread still has work has a thread that can take a step *)
Theorem no_deadlock_step s :
  LInv s -> (exists i t, nth_error (ths s) i = Some t /\ finished t = false) -> exists i, enabled s i = true.
Proof.
  intros [Hinv [Hom Hol]] (i & t & Ht & Hf).
  destruct (mown s) as [o|] eqn:Hm.
  - destruct (Hom o eq_refl) as (to & Hto). destruct (Hinv o to Hto) as (Hp & HM & _).
    exists o. unfold enabled. rewrite Hto. rewrite (next_when_holdsM to Hp (proj2 HM Hm)). reflexivity.
  - destruct (lown s) as [o|] eqn:Hl.
    + destruct (Hol o eq_refl) as (to & Hto). destruct (Hinv o to Hto) as (Hp & HM & HL).
      assert (HnM : holdsM to = false).
      { destruct (holdsM to) eqn:E; [|reflexivity]. destruct HM as [HM1 _]. specialize (HM1 eq_refl). congruence. }
      exists o. unfold enabled. rewrite Hto.
      destruct (next_when_holdsL to Hp (proj2 HL Hl) HnM) as [-> | ->]; [reflexivity|]. rewrite Hm. reflexivity.
    + destruct (Hinv i t Ht) as (Hp & _). destruct (next_exists t Hp Hf) as (a & Ha).
      exists i. unfold enabled. rewrite Ht, Ha. destruct a; rewrite ?Hm, ?Hl; reflexivity.
Qed.

(* the invariant is preserved by every step of every thread *)
Lemma holds_advance_cases t :
  pc_ok t -> finished t = false ->
  match next_act t with
  | Some AcqM => holdsM t = false /\ holdsM (advance t) = true /\ holdsL (advance t) = holdsL t
  | Some RelM => holdsM t = true /\ holdsM (advance t) = false /\ holdsL (advance t) = holdsL t
  | Some AcqL => holdsL t = false /\ holdsL (advance t) = true /\ holdsM (advance t) = holdsM t /\ holdsM t = false
  | Some RelL => holdsL t = true /\ holdsL (advance t) = false /\ holdsM (advance t) = holdsM t /\ holdsM t = false
  | None => False
  end /\ pc_ok (advance t).
Proof.
  unfold pc_ok, finished, next_act, advance, holdsM, holdsL.
  destruct t as [p td]; cbn [pc todo]. destruct td as [|c r]; [discriminate|]. intros Hp _.
  destruct c; cbn [shape List.length] in *;
    destruct p as [|[|[|[|n]]]]; try lia; cbn;
    repeat split; auto; try lia;
    try (destruct r as [|[] r']; cbn; auto; lia).
Qed.

Theorem LInv_step s i : LInv s -> LInv (lstep s i).
Proof.
  intros [Hinv [Hom Hol]]. unfold lstep.
  destruct (enabled s i) eqn:Hen; cbn [negb]; [|split; [assumption|split; assumption]].
  unfold enabled in Hen. destruct (nth_error (ths s) i) as [t|] eqn:Ht; [|discriminate].
  destruct (Hinv i t Ht) as (Hp & HM & HL).
  assert (Hfin : finished t = false).
  { unfold finished, next_act in *. destruct (todo t); [discriminate|reflexivity]. }
  destruct (holds_advance_cases t Hp Hfin) as [Hcase Hp'].
  assert (Hi : i < List.length (ths s)) by (apply nth_error_Some; congruence).
  destruct (next_act t) as [[| | |]|] eqn:Hn; try contradiction.
  - (* AcqM *)
    destruct Hcase as (H0 & H1 & H2).
    assert (Hfree : mown s = None).
    { destruct (mown s) as [o|] eqn:E; [|reflexivity]. apply Nat.eqb_eq in Hen; subst o.
      destruct HM as [_ HM2]. specialize (HM2 eq_refl). congruence. }
    split.
    + intros j tj Hj. cbn [ths mown lown] in *.
      destruct (Nat.eq_dec i j) as [<-|Hne].
      * rewrite nth_upd_th_same in Hj by assumption. inversion Hj; subst tj.
        split; [assumption|]. split; [split; auto|]. rewrite H2. exact HL.
      * rewrite nth_upd_th_other in Hj by assumption. destruct (Hinv j tj Hj) as (Hpj & HMj & HLj).
        split; [assumption|]. split; [|assumption]. split.
        -- intros E. apply HMj in E. congruence.
        -- intros E; inversion E; contradiction.
    + split; cbn [ths mown lown].
      * intros o E; inversion E; subst o. exists (advance t). apply nth_upd_th_same; assumption.
      * intros o E. destruct (Hol o E) as (to & Hto). destruct (Nat.eq_dec i o) as [<-|Hne].
        -- exists (advance t). apply nth_upd_th_same; assumption.
        -- exists to. rewrite nth_upd_th_other by assumption. assumption.
  - (* RelM *)
    destruct Hcase as (H0 & H1 & H2). pose proof (proj1 HM H0) as Hown.
    split.
    + intros j tj Hj. cbn [ths mown lown] in *.
      destruct (Nat.eq_dec i j) as [<-|Hne].
      * rewrite nth_upd_th_same in Hj by assumption. inversion Hj; subst tj.
        split; [assumption|]. split; [split; [congruence|discriminate]|]. rewrite H2. exact HL.
      * rewrite nth_upd_th_other in Hj by assumption. destruct (Hinv j tj Hj) as (Hpj & HMj & HLj).
        split; [assumption|]. split; [|assumption]. split; [|discriminate].
        intros E. apply HMj in E. congruence.
    + split; cbn [ths mown lown]; [intros o E; discriminate|].
      intros o E. destruct (Hol o E) as (to & Hto). destruct (Nat.eq_dec i o) as [<-|Hne].
      * exists (advance t). apply nth_upd_th_same; assumption.
      * exists to. rewrite nth_upd_th_other by assumption. assumption.
  - (* AcqL *)
    destruct Hcase as (H0 & H1 & H2 & H3).
    assert (Hfree : lown s = None) by (destruct (lown s); [discriminate|reflexivity]).
    split.
    + intros j tj Hj. cbn [ths mown lown] in *.
      destruct (Nat.eq_dec i j) as [<-|Hne].
      * rewrite nth_upd_th_same in Hj by assumption. inversion Hj; subst tj.
        split; [assumption|]. split; [rewrite H2; exact HM|]. split; auto.
      * rewrite nth_upd_th_other in Hj by assumption. destruct (Hinv j tj Hj) as (Hpj & HMj & HLj).
        split; [assumption|]. split; [assumption|]. split.
        -- intros E. apply HLj in E. congruence.
        -- intros E; inversion E; contradiction.
    + split; cbn [ths mown lown].
      * intros o E. destruct (Hom o E) as (to & Hto). destruct (Nat.eq_dec i o) as [<-|Hne].
        -- exists (advance t). apply nth_upd_th_same; assumption.
        -- exists to. rewrite nth_upd_th_other by assumption. assumption.
      * intros o E; inversion E; subst o. exists (advance t). apply nth_upd_th_same; assumption.
  - (* RelL *)
    destruct Hcase as (H0 & H1 & H2 & H3). pose proof (proj1 HL H0) as Hown.
    split.
    + intros j tj Hj. cbn [ths mown lown] in *.
      destruct (Nat.eq_dec i j) as [<-|Hne].
      * rewrite nth_upd_th_same in Hj by assumption. inversion Hj; subst tj.
        split; [assumption|]. split; [rewrite H2; exact HM|]. split; [congruence|discriminate].
      * rewrite nth_upd_th_other in Hj by assumption. destruct (Hinv j tj Hj) as (Hpj & HMj & HLj).
        split; [assumption|]. split; [assumption|]. split; [|discriminate].
        intros E. apply HLj in E. congruence.
    + split; cbn [ths mown lown]; [|intros o E; discriminate].
      intros o E. destruct (Hom o E) as (to & Hto). destruct (Nat.eq_dec i o) as [<-|Hne].
      * exists (advance t). apply nth_upd_th_same; assumption.
      * exists to. rewrite nth_upd_th_other by assumption. assumption.
Qed.

Definition lrun (progs : list (list call)) (sched : list nat) : lstate := fold_left lstep sched (linit progs).

Theorem LInv_reachable progs sched : LInv (lrun progs sched).
Proof.
  unfold lrun. generalize (LInv_init progs). generalize (linit progs).
  induction sched as [|i r IH]; intros s H; cbn [fold_left]; [exact H|]. apply IH. apply LInv_step; exact H.
Qed.

Theorem no_deadlock progs sched :
  (exists i t, nth_error (ths (lrun progs sched)) i = Some t /\ finished t = false) ->
  exists i, enabled (lrun progs sched) i = true.
Proof. apply no_deadlock_step, LInv_reachable. Qed.

(* the shapes used above are the lock skeletons of the methods as they are written *)
Lemma shapes_are_skeletons :
  shape CEmit = method_skeleton expected_enqueue /\ shape CDisc = method_skeleton expected_dequeue /\
  shape CEval = method_skeleton expected_evaluate /\ shape CEvalLocked = [AcqL] ++ method_skeleton expected_evaluate ++ [RelL].
Proof. repeat split; reflexivity. Qed.

(* ================================================================================================ *)
(* Part B: histories of atomic sections *)

Lemma NoDup_app_remove_l {A} (l1 l2 : list A) : NoDup (l1 ++ l2) -> NoDup l2.
Proof. induction l1 as [|a r IH]; cbn; intros H; [exact H|]. inversion H; subst. auto. Qed.
Lemma NoDup_app_swap {A} (l1 l2 : list A) : NoDup (l1 ++ l2) -> NoDup (l2 ++ l1).
Proof. intros H. eapply Permutation_NoDup; [apply Permutation_app_comm|exact H]. Qed.
Lemma NoDup_app_remove_r {A} (l1 l2 : list A) : NoDup (l1 ++ l2) -> NoDup l1.
Proof. intros H. apply NoDup_app_swap in H. eapply NoDup_app_remove_l; exact H. Qed.

Definition ids_of (s : astate) : list nat := map q_id (aq s) ++ map (fun e => snd (fst e)) (alog s).

Definition AInv (s : astate) : Prop :=
  NoDup (ids_of s) /\ (forall id, In id (ids_of s) -> id < anext s).

Lemma AInv_init : AInv ainit.
Proof. split; [constructor|intros id []]. Qed.

Lemma filter_map_incl {A B} (f : A -> B) p (l : list A) x : In x (map f (filter p l)) -> In x (map f l).
Proof. intros H. apply in_map_iff in H. destruct H as (a & <- & Ha). apply filter_In in Ha. apply in_map; tauto. Qed.

Lemma NoDup_map_filter {A B} (f : A -> B) p (l : list A) : NoDup (map f l) -> NoDup (map f (filter p l)).
Proof.
  induction l as [|a r IH]; cbn; intros H; [constructor|]. inversion H as [|? ? Hn Hr]; subst.
  destruct (p a); cbn; [constructor|]; auto. intros Hin. apply Hn. eapply filter_map_incl; eassumption.
Qed.

Lemma AInv_step s ev : AInv s -> AInv (astep s ev).
Proof.
  intros [Hnd Hlt]. unfold AInv, ids_of in *. destruct ev as [t [c|c|]]; cbn [astep aq alog anext].
  - split.
    + rewrite map_app. cbn [map q_id]. rewrite <- app_assoc. cbn [app].
      apply (NoDup_Add (Add_app (anext s) (map q_id (aq s)) (map (fun e : nat * nat * nat => snd (fst e)) (alog s)))).
      split; [exact Hnd|]. intros Hin. specialize (Hlt _ Hin). lia.
    + intros id Hin. rewrite map_app in Hin. cbn in Hin. rewrite <- app_assoc in Hin. cbn in Hin.
      apply in_app_or in Hin. destruct Hin as [Hin|[<-|Hin]]; [|lia|].
      * assert (id < anext s) by (apply Hlt, in_or_app; auto). lia.
      * assert (id < anext s) by (apply Hlt, in_or_app; auto). lia.
  - split.
    + revert Hnd. generalize (map (fun e : nat * nat * nat => snd (fst e)) (alog s)). intros L Hnd.
      induction (aq s) as [|a r IH]; cbn in *; [assumption|].
      inversion Hnd as [|? ? Hn Hr]; subst.
      destruct (negb (Nat.eqb (q_conn a) c)); cbn; [constructor|]; auto.
      intros Hin. apply Hn. apply in_app_or in Hin. apply in_or_app. destruct Hin as [Hin|Hin]; [left|right; assumption].
      eapply filter_map_incl; eassumption.
    + intros id Hin. apply in_app_or in Hin.
      assert (id < anext s); [|lia]. apply Hlt. apply in_or_app. destruct Hin as [Hin|Hin]; [left|right; assumption].
      eapply filter_map_incl; eassumption.
  - split.
    + cbn [map app]. rewrite map_app, map_rev, map_map. cbn [fst snd].
      eapply Permutation_NoDup; [|exact Hnd].
      apply Permutation_app_tail. apply Permutation_rev.
    + intros id Hin. cbn [map app] in Hin. rewrite map_app, map_rev, map_map in Hin. cbn [fst snd] in Hin.
      assert (id < anext s); [|lia]. apply Hlt. apply in_app_or in Hin. apply in_or_app.
      destruct Hin as [Hin|Hin]; [left; apply in_rev; assumption|right; assumption].
Qed.

Lemma AInv_run h : AInv (arun h).
Proof.
  unfold arun. generalize AInv_init. generalize ainit.
  induction h as [|e r IH]; intros s H; cbn [fold_left]; [exact H|]. apply IH, AInv_step; exact H.
Qed.

Lemma runs_le1 (l : list (nat * nat * nat)) id :
  NoDup (map (fun e : nat * nat * nat => snd (fst e)) l) ->
  List.length (filter (fun e : nat * nat * nat => Nat.eqb (snd (fst e)) id) l) <= 1.
Proof.
  induction l as [|e r IH]; cbn; intros H; [lia|]. inversion H as [|? ? Hn Hr]; subst.
  destruct (Nat.eqb_spec (snd (fst e)) id) as [E|E]; cbn; [|apply IH; assumption].
  assert (List.length (filter (fun e0 : nat * nat * nat => Nat.eqb (snd (fst e0)) id) r) = 0); [|lia].
  destruct (filter (fun e0 : nat * nat * nat => Nat.eqb (snd (fst e0)) id) r) as [|x xs] eqn:F; [reflexivity|exfalso].
  assert (Hx : In x (filter (fun e0 : nat * nat * nat => Nat.eqb (snd (fst e0)) id) r)) by (rewrite F; left; reflexivity).
  apply filter_In in Hx. destruct Hx as [Hx Hid]. apply Nat.eqb_eq in Hid.
  apply Hn. rewrite E, <- Hid. exact (in_map (fun e0 : nat * nat * nat => snd (fst e0)) r x Hx).
Qed.

(* every queued invocation runs at most once, under every history *)
Theorem at_most_once h id : runs_of id (arun h) <= 1.
Proof.
  destruct (AInv_run h) as [Hnd _]. unfold ids_of in Hnd. apply NoDup_app_remove_l in Hnd.
  unfold runs_of. apply runs_le1. exact Hnd.
Qed.

(* slots run only on a thread that is evaluating *)
Theorem slots_on_evaluating_thread h t id c : In (t, id, c) (alog (arun h)) -> In (t, APass) h.
Proof.
  unfold arun. assert (G : forall s, In (t, id, c) (alog (fold_left astep h s)) -> In (t, id, c) (alog s) \/ In (t, APass) h).
  { induction h as [|[u o] r IH]; intros s H; cbn [fold_left] in H; [left; exact H|].
    destruct (IH _ H) as [H1|H1]; [|right; right; exact H1].
    destruct o as [c0|c0|]; cbn [astep alog] in H1; try (left; exact H1).
    apply in_app_or in H1. destruct H1 as [H1|H1]; [|left; exact H1].
    apply in_rev in H1. apply in_map_iff in H1. destruct H1 as (x & E & _). inversion E; subst. right; left; reflexivity. }
  intros H. destruct (G ainit H) as [[]|H1]; exact H1.
Qed.

(* disconnect is a barrier: when the dequeue has returned nothing of that connection is pending ... *)
Theorem dequeue_cancels s t c x : In x (aq (astep s (t, ADeq c))) -> q_conn x <> c.
Proof.
  cbn [astep aq]. intros H. apply filter_In in H. destruct H as [_ H].
  destruct (Nat.eqb_spec (q_conn x) c); [discriminate|assumption].
Qed.

(* ... and whatever of that connection runs later was enqueued after the disconnect *)
Theorem nothing_old_runs_after_disconnect h2 : forall s t c u id,
  AInv s ->
  In (u, id, c) (alog (fold_left astep h2 (astep s (t, ADeq c)))) -> In (u, id, c) (alog s) \/ anext s < id.
Proof.
  intros s t c u id HI H.
  set (s0 := astep s (t, ADeq c)) in *.
  assert (G : forall h st, (forall x, In x (aq st) -> q_conn x = c -> anext s < q_id x) -> anext s < anext st ->
              In (u, id, c) (alog (fold_left astep h st)) -> In (u, id, c) (alog st) \/ anext s < id).
  { induction h as [|[v o] r IH]; intros st Hq Hn Hin; cbn [fold_left] in Hin; [left; exact Hin|].
    assert (Hstep : (forall x, In x (aq (astep st (v, o))) -> q_conn x = c -> anext s < q_id x) /\ anext s < anext (astep st (v, o)) /\
                    (In (u, id, c) (alog (astep st (v, o))) -> In (u, id, c) (alog st) \/ anext s < id)).
    { destruct o as [c0|c0|]; cbn [astep aq alog anext].
      - split; [|split; [lia|auto]]. intros x Hx Hc. apply in_app_or in Hx. destruct Hx as [Hx|[<-|[]]]; [auto|cbn; lia].
      - split; [|split; [lia|auto]]. intros x Hx Hc. apply filter_In in Hx. apply Hq; tauto.
      - split; [intros x []|split; [lia|]]. intros H1. apply in_app_or in H1. destruct H1 as [H1|H1]; [|left; exact H1].
        apply in_rev in H1. apply in_map_iff in H1. destruct H1 as (x & E & Hx). inversion E; subst. right. apply Hq; auto. }
    destruct Hstep as (Hq' & Hn' & Hl').
    destruct (IH _ Hq' Hn' Hin) as [H1|H1]; [apply Hl'; exact H1|right; exact H1]. }
  assert (P1 : forall x, In x (aq s0) -> q_conn x = c -> anext s < q_id x)
    by (intros x Hx Hc; exfalso; eapply dequeue_cancels; eassumption).
  assert (P2 : anext s < anext s0) by (unfold s0; cbn; lia).
  destruct (G h2 s0 P1 P2 H) as [H1|H1]; [left; exact H1|right; exact H1].
Qed.

(* exactly once: what is pending when a pass starts has run once when it ends, and nothing is pending afterwards *)
Theorem pass_runs_pending s t id :
  AInv s -> In id (map q_id (aq s)) ->
  runs_of id (astep s (t, APass)) = 1 /\ aq (astep s (t, APass)) = [].
Proof.
  intros HI Hin. split; [|reflexivity].
  pose proof (AInv_step s (t, APass) HI) as [Hnd' _].
  assert (Hle : runs_of id (astep s (t, APass)) <= 1).
  { unfold ids_of in Hnd'. apply NoDup_app_remove_l in Hnd'. unfold runs_of. apply runs_le1. exact Hnd'. }
  assert (Hge : 1 <= runs_of id (astep s (t, APass))).
  { unfold runs_of. cbn [astep alog]. rewrite filter_app, app_length.
    apply in_map_iff in Hin. destruct Hin as (x & <- & Hx).
    assert (Hin' : In (t, q_id x, q_conn x) (filter (fun e => Nat.eqb (snd (fst e)) (q_id x)) (rev (map (fun x0 => (t, q_id x0, q_conn x0)) (aq s))))).
    { apply filter_In. split; [apply in_rev; rewrite rev_involutive; apply in_map_iff; exists x; auto|cbn; apply Nat.eqb_refl]. }
    destruct (filter _ (rev _)); [contradiction|cbn; lia]. }
  lia.
Qed.
