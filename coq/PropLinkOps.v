(* The link invariant is preserved by every operation of the property-layer model (PropDefs.step1), for arbitrary
   expressions, user functions, evaluation order and re-entrant observers. *)
From KDB Require Import Util UtilProofs PropDefs PropLink PropLinkBasics.

(* ------------------------------------------------------------------------------------------------ *)
(* a binding disappears (everything else equal) *)
Section Shrink.
  Variables w w2 : world.
  Hypothesis T : forall t, tview w2 t = tview w t.
  Hypothesis P : forall p, pview w2 p = pview w p.
  Hypothesis O : w_obs w2 = w_obs w.
  Hypothesis Hd : w_held w2 = w_held w.
  Hypothesis Sr : w_serial w2 = w_serial w.
  Hypothesis B : forall b, bview w2 b = bview w b \/ bview w2 b = None.
  Hypothesis L : length (w_binds w2) = length (w_binds w).

  Lemma shrink_has_leaf b lf : has_leaf w2 b lf -> has_leaf w b lf.
  Proof. intros (ls & tg & Eb & Hi). destruct (B b) as [Hb|Hb]; rewrite Hb in Eb; [exists ls, tg; auto|discriminate Eb]. Qed.
  Lemma shrink_slot t pos ser s : slot_at w2 t pos ser s <-> slot_at w t pos ser s.
  Proof. unfold slot_at. rewrite T. tauto. Qed.
  Lemma shrink_owns p k t : owns w2 p k t <-> owns w p k t.
  Proof. unfold owns. rewrite P. tauto. Qed.

  Lemma pinvg_shrink X Sc Sm Sd So Su :
    pinvg X Sc Sm Sd So Su w ->
    pinvg (fun y => X y \/ (bview w y <> None /\ bview w2 y = None)) Sc Sm Sd So
          (fun p => Su p \/ exists b ls, bview w b = Some (ls, Some p) /\ bview w2 b = None) w2.
  Proof.
    intros []. constructor.
    - intros t sl fr al Et. rewrite T in Et. eauto.
    - intros t sl fr pos x Et. rewrite T in Et. eauto.
    - intros p k t Ho Hs. apply shrink_owns in Ho. destruct (pi_own _ _ _ Ho Hs) as (sl & fr & Et). exists sl, fr. rewrite T. exact Et.
    - intros p k p' k' t H1 H2. apply shrink_owns in H1, H2. eauto.
    - intros p k t pos ser s Ho Hk Hs. apply shrink_owns in Ho. apply shrink_slot in Hs. eauto.
    - intros b lf p Hl Ht. apply shrink_has_leaf in Hl. rewrite P. eauto.
    - intros b lf p Hl Ht Hs. apply shrink_has_leaf in Hl. destruct (pi_leafc _ _ _ Hl Ht Hs). split; [apply shrink_owns|apply shrink_slot]; assumption.
    - intros b lf p Hl Ht Hs. apply shrink_has_leaf in Hl. destruct (pi_leafm _ _ _ Hl Ht Hs). split; [apply shrink_owns|apply shrink_slot]; assumption.
    - intros b lf p Hl Ht Hs. apply shrink_has_leaf in Hl. destruct (pi_leafd _ _ _ Hl Ht Hs). split; [apply shrink_owns|apply shrink_slot]; assumption.
    - intros t pos ser b l Hx Hs. apply shrink_slot in Hs.
      assert (Hx' : ~ X b) by tauto. destruct (pi_slot _ _ _ _ _ Hx' Hs) as (lf & (ls & tg & Eb & Hi) & Hid & Hh).
      exists lf. split; [|auto]. exists ls, tg. split; [|exact Hi]. destruct (B b) as [Hb|Hb]; [congruence|].
      exfalso. apply Hx. right. split; [congruence|exact Hb].
    - intros t pos ser b l lf p k Hs Hl Hid Ho Hp. apply shrink_slot in Hs. apply shrink_has_leaf in Hl. apply shrink_owns in Ho. eauto.
    - intros b ls tg Eb. destruct (B b) as [Hb|Hb]; rewrite Hb in Eb; [eauto|discriminate Eb].
    - destruct pi_ser as (S1 & S2 & S3). unfold SER. rewrite Sr, O. repeat split.
      + intros t pos ser s Hs. apply shrink_slot in Hs. eauto.
      + exact S2.
      + intros b lf h Hl Hi. apply shrink_has_leaf in Hl. eauto.
    - intros n h t pos s Hn Hs. rewrite O in Hn. apply shrink_slot in Hs. eauto.
    - intros b lf h t pos s Hl Hi Hs. apply shrink_has_leaf in Hl. apply shrink_slot in Hs. eauto.
    - intros p v b Hp Hu Hs. rewrite P in Hp. assert (Hs' : ~ Su p) by tauto.
      destruct (pi_upd _ _ _ Hp Hu Hs') as (ls & Eb). exists ls. destruct (B b) as [Hb|Hb]; [congruence|].
      exfalso. apply Hs. right. eauto.
    - intros b ls p Eb. destruct (B b) as [Hb|Hb]; rewrite Hb in Eb; [|discriminate Eb].
      destruct (pi_tgt _ _ _ Eb) as (v & Ev & Eu). exists v. rewrite P. auto.
    - intros n b Hn. rewrite Hd in Hn. destruct (pi_held _ _ Hn) as [Ha Hb0]. split; [rewrite L; exact Ha|].
      intros ls tg Eb. destruct (B b) as [Hb|Hb]; rewrite Hb in Eb; [eauto|discriminate Eb].
  Qed.
End Shrink.

(* ------------------------------------------------------------------------------------------------ *)
(* ~Binding *)

Lemma unsubscribe_all_pinvg b X Sc Sm Sd So Su : forall hs w w',
  pinvg X Sc Sm Sd So Su w -> bview w b = None ->
  (forall t pos ser l, slot_at w t pos ser (SNode b l) -> In {| h_table := t; h_pos := pos; h_serial := ser |} hs) ->
  (forall h t pos s, In h hs -> slot_at w t pos (h_serial h) s -> exists l, s = SNode b l) ->
  unsubscribe_all w hs = (w', None) ->
  pinvg X Sc Sm Sd So Su w' /\ (forall t pos ser l, ~ slot_at w' t pos ser (SNode b l)) /\
  w_props w' = w_props w /\ w_binds w' = w_binds w /\ w_obs w' = w_obs w /\ w_held w' = w_held w /\
  w_serial w' = w_serial w /\ w_evps w' = w_evps w /\ (forall t pos ser s, slot_at w' t pos ser s -> slot_at w t pos ser s) /\
  (forall t sl fr al, tview w t = Some (sl, fr, al) -> exists sl' fr', tview w' t = Some (sl', fr', al)).
Proof.
  induction hs as [|h r IH]; intros w w' Hinv Hb J K H; cbn [unsubscribe_all] in H.
  - inversion H; subst. split; [exact Hinv|]. split; [intros t pos ser l Hs; exact (J _ _ _ _ Hs)|]. repeat split; eauto.
  - destruct (unsubscribe w h) as [w1 e] eqn:Hu.
    destruct (unsubscribe_cases _ _ _ _ Hu (pi_dead _ _ _ _ _ _ _ Hinv)) as [(-> & ->)|[(-> & -> & Hno)|(-> & s & Hrem)]].
    + discriminate H.
    + apply IH; auto.
      * intros t pos ser l Hs. destruct (J _ _ _ _ Hs) as [Eh|Hin]; [|exact Hin].
        exfalso. subst h. exact (Hno _ Hs).
      * intros h0 t pos s Hin. apply K. right. exact Hin.
    + assert (Es : exists l, s = SNode b l) by (eapply (K h); [left; reflexivity|exact (re_was _ _ _ _ _ _ Hrem)]).
      destruct Es as (l0 & ->).
      assert (Hinv1 : pinvg X Sc Sm Sd So Su w1).
      { eapply pinvg_rem; eauto. intros b' lf (ls & tg & Eb & _) Heq. inversion Heq; subst. congruence. }
      assert (Hb1 : bview w1 b = None) by (rewrite (bview_binds _ _ (re_binds _ _ _ _ _ _ Hrem)); exact Hb).
      destruct (IH w1 w' Hinv1 Hb1) as (I1 & I2 & I3 & I4 & I5 & I6 & I7 & I8 & I9 & I10); auto.
      * intros t pos ser l Hs. apply (re_sub _ _ _ _ _ _ Hrem) in Hs. destruct Hs as [Hs Hne].
        destruct (J _ _ _ _ Hs) as [Eh|Hin]; [|exact Hin]. exfalso. apply Hne. subst h. auto.
      * intros h0 t pos s Hin Hs. apply (re_sub _ _ _ _ _ _ Hrem) in Hs. destruct Hs as [Hs _]. eapply K; [right; exact Hin|exact Hs].
      * split; [exact I1|]. split; [exact I2|]. repeat split.
        -- rewrite I3. apply (re_props _ _ _ _ _ _ Hrem).
        -- rewrite I4. apply (re_binds _ _ _ _ _ _ Hrem).
        -- rewrite I5. apply (re_obs _ _ _ _ _ _ Hrem).
        -- rewrite I6. apply (re_held _ _ _ _ _ _ Hrem).
        -- rewrite I7. apply (re_serial _ _ _ _ _ _ Hrem).
        -- rewrite I8. apply (re_evps _ _ _ _ _ _ Hrem).
        -- intros t pos ser s0 Hs. apply I9 in Hs. apply (re_sub _ _ _ _ _ _ Hrem) in Hs. tauto.
        -- intros t sl fr al Et. destruct (re_tables _ _ _ _ _ _ Hrem _ _ _ _ Et) as (sl1 & fr1 & Et1). eauto.
Qed.

Lemma pinvg_slotx (X X' Sc Sm Sd So Su : nat -> Prop) w : pinvg X' Sc Sm Sd So Su w -> SLOTX X w -> pinvg X Sc Sm Sd So Su w.
Proof. intros [] H. constructor; assumption. Qed.

Lemma destroy_binding_pinvg (X Sc Sm Sd So Su : nat -> Prop) w b w' :
  pinvg X Sc Sm Sd So Su w -> ~ X b -> destroy_binding w b = (w', None) ->
  pinvg X Sc Sm Sd So (fun p => Su p \/ exists ls, bview w b = Some (ls, Some p)) w' /\
  bview w' b = None /\ (forall b', b' <> b -> bview w' b' = bview w b') /\
  (forall t pos ser l, ~ slot_at w' t pos ser (SNode b l)) /\
  w_props w' = w_props w /\ w_obs w' = w_obs w /\ w_held w' = w_held w /\ w_serial w' = w_serial w /\
  length (w_binds w') = length (w_binds w) /\ (forall t pos ser s, slot_at w' t pos ser s -> slot_at w t pos ser s) /\
  (forall t sl fr al, tview w t = Some (sl, fr, al) -> exists sl' fr', tview w' t = Some (sl', fr', al)).
Proof.
  intros Hinv HX H. unfold destroy_binding in H. destruct (get_bind w b) as [x|] eqn:Hb.
  2:{ inversion H; subst w'. assert (Hbv : bview w b = None) by (unfold bview; rewrite Hb; reflexivity).
      split; [eapply pinvg_mono; try exact Hinv; auto|]. split; [exact Hbv|]. split; [auto|]. split; [|repeat split; eauto].
      intros t pos ser l Hs. destruct (pi_slot _ _ _ _ _ _ _ Hinv _ _ _ _ _ HX Hs) as (lf & (ls & tg & Eb & _) & _). congruence. }
  set (w1 := match nth_error (w_evps w) (b_evp x) with
             | Some ep => set_evps w (upd (w_evps w) (b_evp x) {| ep_registry := filter (fun q => negb (Nat.eqb (fst q) (b_regid x))) (ep_registry ep); ep_next := ep_next ep |})
             | None => w end) in *.
  assert (V1 : views_eq w w1) by (unfold w1; destruct (nth_error (w_evps w) (b_evp x)); [apply views_set_evps|apply views_eq_refl]).
  assert (Hinv1 : pinvg X Sc Sm Sd So Su w1) by (eapply pinvg_views; eauto).
  set (dead := {| b_root := b_root x; b_evp := b_evp x; b_regid := b_regid x; b_target := None; b_alive := false |}) in *.
  set (w2 := put_bind w1 b dead) in *.
  assert (Bv2 : forall b', bview w2 b' = if Nat.eqb b b' then None else bview w1 b').
  { intros b'. unfold w2. rewrite bview_put_bind. destruct (Nat.eqb b b'); [|reflexivity]. destruct (Nat.ltb b (length (w_binds w1))); reflexivity. }
  assert (Bv1 : forall b', bview w1 b' = bview w b') by (destruct V1 as (B & _); exact B).
  assert (Hbv : bview w b = Some (leaves (b_root x), b_target x)) by (unfold bview; rewrite Hb; reflexivity).
  assert (Hinv2 : pinvg (fun y => X y \/ y = b) Sc Sm Sd So (fun p => Su p \/ exists ls, bview w b = Some (ls, Some p)) w2).
  { eapply pinvg_mono; [| | | | | |apply (pinvg_shrink w1 w2); try reflexivity; [| |exact Hinv1]]; auto.
    - intros y [Hy|[Hy1 Hy2]]; [auto|]. right. rewrite Bv2 in Hy2. destruct (Nat.eqb_spec b y); [auto|]. congruence.
    - intros p [Hp|(b0 & ls & E1 & E2)]; [auto|]. right. rewrite Bv2 in E2. destruct (Nat.eqb_spec b b0) as [<-|]; [|congruence].
      exists ls. rewrite <- Bv1. exact E1.
    - intros b'. rewrite Bv2. destruct (Nat.eqb b b'); auto.
    - unfold w2, put_bind; cbn [set_binds w_binds]. apply upd_length. }
  assert (Hb2 : bview w2 b = None) by (rewrite Bv2, Nat.eqb_refl; reflexivity).
  assert (S2 : forall t pos ser s, slot_at w2 t pos ser s <-> slot_at w t pos ser s).
  { intros. unfold slot_at. destruct V1 as (_ & T1 & _). change (tview w2 t) with (tview w1 t). rewrite T1. tauto. }
  destruct (unsubscribe_all_pinvg b _ _ _ _ _ _ (node_handles (b_root x)) w2 w' Hinv2 Hb2) as (I1 & I2 & I3 & I4 & I5 & I6 & I7 & I8 & I9' & I10'); auto.
  - intros t pos ser l Hs. apply S2 in Hs. destruct (pi_slot _ _ _ _ _ _ _ Hinv _ _ _ _ _ HX Hs) as (lf & (ls & tg & Eb & Hi) & _ & Hh).
    rewrite Hbv in Eb. inversion Eb; subst ls tg. rewrite node_handles_leaves. apply in_flat_map. exists lf. auto.
  - intros h t pos s Hin Hs. apply S2 in Hs. rewrite node_handles_leaves in Hin. apply in_flat_map in Hin. destruct Hin as (lf & Hi & Hh).
    eapply (pi_nodeu _ _ _ _ _ _ _ Hinv b lf h); eauto. exists (leaves (b_root x)), (b_target x). auto.
  - assert (Bw' : forall b', bview w' b' = bview w2 b') by (apply bview_binds; exact I4).
    split.
    { eapply pinvg_slotx; [exact I1|]. intros t pos ser b0 l Hx Hs. destruct (Nat.eq_dec b0 b) as [->|Hne].
      - exfalso. exact (I2 _ _ _ _ Hs).
      - apply (pi_slot _ _ _ _ _ _ _ I1); [|exact Hs]. intros [Hy|Hy]; auto. }
    split; [rewrite Bw'; exact Hb2|]. split.
    { intros b' Hne. rewrite Bw', Bv2, Bv1. destruct (Nat.eqb_spec b b'); [congruence|reflexivity]. }
    split; [exact I2|].
    assert (F : w_props w2 = w_props w /\ w_obs w2 = w_obs w /\ w_held w2 = w_held w /\ w_serial w2 = w_serial w /\
                length (w_binds w2) = length (w_binds w)).
    { unfold w2, put_bind; cbn [set_binds w_binds w_props w_obs w_held w_serial]. rewrite upd_length. unfold w1.
      destruct (nth_error (w_evps w) (b_evp x)); repeat split. }
    destruct F as (F1 & F2 & F3 & F4 & F5). repeat split; try congruence.
    + intros t pos ser s Hs. apply I9' in Hs. apply S2. exact Hs.
    + intros t sl fr al Et. apply (I10' t sl fr al). destruct V1 as (_ & T1 & _). change (tview w2 t) with (tview w1 t). rewrite T1. exact Et.
Qed.

Lemma unsubscribe_exn w h w1 e : unsubscribe w h = (w1, Some e) -> e = PxUnmodelled.
Proof.
  unfold unsubscribe. destruct (get_table w (h_table h)) as [tb|]; [|discriminate].
  destruct (negb (t_alive tb)); [discriminate|].
  destruct (nth_error (t_slots tb) (h_pos h)) as [[[ser s]|]|]; try discriminate.
  destruct (Nat.eqb ser (h_serial h)); [|discriminate]. destruct (t_emitting tb); [|discriminate].
  intros H; inversion H; reflexivity.
Qed.
Lemma unsubscribe_all_exn hs : forall w w1 e, unsubscribe_all w hs = (w1, Some e) -> e = PxUnmodelled.
Proof.
  induction hs as [|h r IH]; intros w w1 e H; cbn [unsubscribe_all] in H; [discriminate H|].
  destruct (unsubscribe w h) as [w2 [e2|]] eqn:Hu.
  - inversion H; subst. eapply unsubscribe_exn; eauto.
  - eauto.
Qed.
Lemma destroy_binding_exn w b w1 e : destroy_binding w b = (w1, Some e) -> e = PxUnmodelled.
Proof.
  unfold destroy_binding. destruct (get_bind w b); [|discriminate]. apply unsubscribe_all_exn.
Qed.
Lemma kill_table_exn w ot w1 e : kill_table w ot = (w1, Some e) -> e = PxUnmodelled.
Proof.
  unfold kill_table. destruct ot as [t|]; [|discriminate]. destruct (get_table w t) as [tb|]; [|discriminate].
  destruct (t_emitting tb); [|discriminate]. intros H; inversion H; reflexivity.
Qed.

(* ------------------------------------------------------------------------------------------------ *)
(* only the updater fields of some properties change *)
Section UpdOnly.
  Variables w w' : world.
  Hypothesis T : forall t, tview w' t = tview w t.
  Hypothesis BL : forall b ls tg, bview w' b = Some (ls, tg) -> exists tg0, bview w b = Some (ls, tg0).
  Hypothesis BR : forall b ls tg, bview w b = Some (ls, tg) -> exists tg1, bview w' b = Some (ls, tg1).
  Hypothesis O : w_obs w' = w_obs w.
  Hypothesis Sr : w_serial w' = w_serial w.
  Hypothesis PO : forall p k t, owns w' p k t <-> owns w p k t.
  Hypothesis PN : forall p, pview w' p = None -> pview w p = None.

  Lemma uo_slot t pos ser s : slot_at w' t pos ser s <-> slot_at w t pos ser s.
  Proof. unfold slot_at. rewrite T. tauto. Qed.
  Lemma uo_leaf b lf : has_leaf w' b lf <-> has_leaf w b lf.
  Proof.
    unfold has_leaf. split; intros (ls & tg & E & Hi).
    - destruct (BL _ _ _ E) as (tg0 & E0). eauto.
    - destruct (BR _ _ _ E) as (tg1 & E1). eauto.
  Qed.

  Lemma pinvg_updonly (X Sc Sm Sd So Su Su' : nat -> Prop) :
    pinvg X Sc Sm Sd So Su w -> UPD Su' w' -> TGT w' -> HELD w' -> pinvg X Sc Sm Sd So Su' w'.
  Proof.
    intros [] HU HT HH. constructor; try assumption.
    - intros t sl fr al Et. rewrite T in Et. eauto.
    - intros t sl fr pos x Et. rewrite T in Et. eauto.
    - intros p k t Ho Hs. apply PO in Ho. destruct (pi_own _ _ _ Ho Hs) as (sl & fr & Et). exists sl, fr. rewrite T. exact Et.
    - intros p k p' k' t H1 H2. apply PO in H1, H2. eauto.
    - intros p k t pos ser s Ho Hk Hs. apply PO in Ho. apply uo_slot in Hs. eauto.
    - intros b lf p Hl Ht Hn. apply uo_leaf in Hl. apply PN in Hn. exact (pi_leafx _ _ _ Hl Ht Hn).
    - intros b lf p Hl Ht Hs. apply uo_leaf in Hl. destruct (pi_leafc _ _ _ Hl Ht Hs). split; [apply PO|apply uo_slot]; assumption.
    - intros b lf p Hl Ht Hs. apply uo_leaf in Hl. destruct (pi_leafm _ _ _ Hl Ht Hs). split; [apply PO|apply uo_slot]; assumption.
    - intros b lf p Hl Ht Hs. apply uo_leaf in Hl. destruct (pi_leafd _ _ _ Hl Ht Hs). split; [apply PO|apply uo_slot]; assumption.
    - intros t pos ser b l Hx Hs. apply uo_slot in Hs. destruct (pi_slot _ _ _ _ _ Hx Hs) as (lf & Ha & Hb). exists lf. split; [apply uo_leaf; exact Ha|exact Hb].
    - intros t pos ser b l lf p k Hs Hl Hid Ho Hp. apply uo_slot in Hs. apply uo_leaf in Hl. apply PO in Ho. eauto.
    - intros b ls tg Eb. destruct (BL _ _ _ Eb) as (tg0 & E0). eauto.
    - destruct pi_ser as (S1 & S2 & S3). unfold SER. rewrite Sr, O. repeat split.
      + intros t pos ser s Hs. apply uo_slot in Hs. eauto.
      + exact S2.
      + intros b lf h Hl Hi. apply uo_leaf in Hl. eauto.
    - intros n h t pos s Hn Hs. rewrite O in Hn. apply uo_slot in Hs. eauto.
    - intros b lf h t pos s Hl Hi Hs. apply uo_leaf in Hl. apply uo_slot in Hs. eauto.
  Qed.
End UpdOnly.

Lemma psig_set_updater pr u k : psig (psigs_of (prop_set_updater pr u)) k = psig (psigs_of pr) k.
Proof. destruct k; reflexivity. Qed.

Lemma owns_set_updater w q pr u p k t :
  lookup (w_props w) q = Some pr ->
  owns (set_props w (bind_key (w_props w) q (prop_set_updater pr u))) p k t <-> owns w p k t.
Proof.
  intros Hq. unfold owns. rewrite pview_bind. destruct (Nat.eqb_spec p q) as [->|Hne]; [|tauto].
  unfold pview. rewrite Hq. split; intros (v & E & Es); inversion E; subst; eexists; split; try reflexivity.
  - rewrite psig_set_updater in Es. exact Es.
  - rewrite psig_set_updater. exact Es.
Qed.
Lemma pnone_set_updater w q pr u p :
  lookup (w_props w) q = Some pr ->
  pview (set_props w (bind_key (w_props w) q (prop_set_updater pr u))) p = None <-> pview w p = None.
Proof.
  intros Hq. rewrite pview_bind. destruct (Nat.eqb_spec p q) as [->|Hne]; [|tauto].
  unfold pview. rewrite Hq. split; discriminate.
Qed.

(* Property::reset(), also the first half of assigning a new binding *)
Lemma reset_pinv w q pr b w2 :
  pinv w -> lookup (w_props w) q = Some pr -> pr_updater pr = Some b -> destroy_binding w b = (w2, None) ->
  lookup (w_props w2) q = Some pr /\
  pinv (set_props w2 (bind_key (w_props w2) q (prop_set_updater pr None))) /\
  (forall t pos ser l, ~ slot_at w2 t pos ser (SNode b l)) /\ bview w2 b = None /\
  (forall b', b' <> b -> bview w2 b' = bview w b') /\ w_props w2 = w_props w /\ length (w_binds w2) = length (w_binds w).
Proof.
  intros Hinv Hq Hu Hd.
  destruct (destroy_binding_pinvg _ _ _ _ _ _ _ _ _ Hinv (fun x => x) Hd) as (I1 & I2 & I3 & I4 & I5 & I6 & I7 & I8 & I9 & I10 & I11).
  assert (Hq2 : lookup (w_props w2) q = Some pr) by (rewrite I5; exact Hq).
  assert (Pq : pview w q = Some (psigs_of pr)) by (unfold pview; rewrite Hq; reflexivity).
  destruct (pi_upd _ _ _ _ _ _ _ Hinv _ _ _ Pq Hu (fun x => x)) as (lsb & Ebw).
  split; [exact Hq2|]. split; [|auto 10].
  set (w' := set_props w2 (bind_key (w_props w2) q (prop_set_updater pr None))).
  assert (Pv : forall p, pview w' p = if Nat.eqb p q then Some (psigs_of (prop_set_updater pr None)) else pview w2 p) by (intros p; apply pview_bind).
  eapply (pinvg_updonly w2 w'); try reflexivity; try exact I1; try (intros b0 ls tg E; exists tg; exact E); try exact (pi_held _ _ _ _ _ _ _ I1).
  - intros p k t. apply owns_set_updater. exact Hq2.
  - intros p Hn. apply (pnone_set_updater w2 q pr None p Hq2). exact Hn.
  - intros p v b0 Hp Hub _. rewrite Pv in Hp. destruct (Nat.eqb_spec p q) as [->|Hne].
    + inversion Hp; subst v. discriminate Hub.
    + assert (Hns : ~ (none_of p \/ exists ls, bview w b = Some (ls, Some p))).
      { intros [[]|(ls & E)]. rewrite Ebw in E. inversion E; congruence. }
      destruct (pi_upd _ _ _ _ _ _ _ I1 _ _ _ Hp Hub Hns) as (ls & E). exists ls. exact E.
  - intros b0 ls p Eb. change (bview w' b0) with (bview w2 b0) in Eb.
    destruct (pi_tgt _ _ _ _ _ _ _ I1 _ _ _ Eb) as (v & Ev & Eu). rewrite Pv.
    destruct (Nat.eqb_spec p q) as [->|Hne]; [|eauto].
    exfalso. unfold pview in Ev. rewrite Hq2 in Ev. inversion Ev; subst v. cbn in Eu. rewrite Hu in Eu. inversion Eu; subst b0. congruence.
Qed.

(* ------------------------------------------------------------------------------------------------ *)
(* writes and their notifications, with arbitrary re-entrant observers *)

Definition goodR (R : world -> nat -> Z -> res) : Prop :=
  forall w q v w' e, pinv w -> R w q v = (w', e) -> okx e -> pinv w'.

Section Reentrant.
  Variable fn : nat -> list Z -> option Z.
  Variable rtl : bool.
  Variable R : world -> nat -> Z -> res.
  Hypothesis HR : goodR R.

  Lemma binding_evaluate_pinv w b w' e :
    pinv w -> binding_evaluate fn rtl R w b = (w', e) -> okx e -> pinv w'.
  Proof.
    intros Hinv H Hok. unfold binding_evaluate in H. destruct (get_bind w b) as [x|] eqn:Hb.
    2:{ inversion H; subst. destruct Hok. }
    destruct (eval fn rtl (values w) (b_root x)) as [[t r] l] eqn:He.
    assert (Hl : leaves t = leaves (b_root x)).
    { pose proof (leaves_eval fn rtl (values w) (b_root x)) as L. rewrite He in L. exact L. }
    set (w1 := log_fns l (put_bind w b (bind_with_root x t))) in *.
    assert (Hinv1 : pinv w1).
    { eapply pinv_views; [|exact Hinv]. eapply views_eq_trans; [apply (views_put_root w b x t Hb Hl)|apply views_log_fns]. }
    destruct r as [v|ex].
    - destruct (b_target x) as [p|]; [eapply HR; eauto|inversion H; subst; exact Hinv1].
    - inversion H; subst. exact Hinv1.
  Qed.

  Lemma deliver_pinv w p k payload s w' e :
    k = KAbout \/ k = KChanged ->
    pinv w -> deliver fn rtl R w p k payload s = (w', e) -> okx e -> pinv w'.
  Proof.
    intros Hk Hinv H Hok. destruct s as [label act|b leaf]; cbn [deliver] in H.
    - set (w1 := log (EvNotify label k payload (values w p)) w) in *.
      assert (Hinv1 : pinv w1) by (eapply pinv_views; [apply views_log|exact Hinv]).
      destruct act as [[[|] q]|].
      + (* reset *)
        destruct (lookup (w_props w1) q) as [pr|] eqn:Hq; [|inversion H; subst; exact Hinv1].
        destruct (pr_updater pr) as [b|] eqn:Hu; [|inversion H; subst; exact Hinv1].
        destruct (destroy_binding w1 b) as [w2 [ex|]] eqn:Hd.
        * inversion H; subst. apply destroy_binding_exn in Hd. subst. destruct Hok.
        * destruct (reset_pinv _ _ _ _ _ Hinv1 Hq Hu Hd) as (Hq2 & I & _). rewrite Hq2 in H. inversion H; subst. exact I.
      + (* set *)
        destruct payload as [|v pl]; [inversion H; subst; exact Hinv1|].
        destruct (lookup (w_props w1) q) as [pr|] eqn:Hq; [|inversion H; subst; exact Hinv1].
        destruct (pr_updater pr) as [b|]; [inversion H; subst; exact Hinv1|]. eapply HR; eauto.
      + destruct payload; inversion H; subst; exact Hinv1.
    - destruct (get_bind w b) as [x|] eqn:Hb; [|inversion H; subst; destruct Hok].
      destruct Hk as [->| ->]; [inversion H; subst; destruct Hok|].
      destruct (mark (b_root x) leaf) as [[t up]|] eqn:Hm; [|inversion H; subst; destruct Hok].
      set (w1 := put_bind w b (bind_with_root x t)) in *.
      assert (Hinv1 : pinv w1).
      { eapply pinv_views; [|exact Hinv]. apply views_put_root; [exact Hb|]. eapply leaves_mark; eauto. }
      destruct up; [|inversion H; subst; exact Hinv1].
      destruct (Nat.eqb (b_evp x) 0); [|inversion H; subst; exact Hinv1].
      eapply binding_evaluate_pinv; eauto.
  Qed.

  Lemma walk_pinv t p k payload : k = KAbout \/ k = KChanged ->
    forall idxs w w' e, pinv w -> walk fn rtl R w t p k payload idxs = (w', e) -> okx e -> pinv w'.
  Proof.
    intros Hk. induction idxs as [|x r IH]; intros w w' e Hinv H Hok; cbn [walk] in H.
    - inversion H; subst. exact Hinv.
    - destruct (get_table w t) as [tb|]; [|inversion H; subst; destruct Hok].
      destruct (nth_error (t_slots tb) x) as [[[ser s]|]|]; try (eapply IH; eauto; fail).
      destruct (deliver fn rtl R w p k payload s) as [w1 [ex|]] eqn:Hd.
      + inversion H; subst. eapply deliver_pinv; eauto.
      + eapply IH; [|exact H|exact Hok]. eapply deliver_pinv; eauto. exact I.
  Qed.

  Lemma emit_pinv w ot p k payload w' e : k = KAbout \/ k = KChanged ->
    pinv w -> emit fn rtl R w ot p k payload = (w', e) -> okx e -> pinv w'.
  Proof.
    intros Hk Hinv H Hok. unfold emit in H. destruct ot as [t|]; [|inversion H; subst; exact Hinv].
    destruct (get_table w t) as [tb|] eqn:Ht; [|inversion H; subst; destruct Hok].
    destruct (t_emitting tb); [inversion H; subst; exact Hinv|].
    set (w1 := put_table w t _) in *.
    assert (Hinv1 : pinv w1) by (eapply pinv_views; [apply (views_put_flag w t tb true Ht)|exact Hinv]).
    destruct (walk fn rtl R w1 t p k payload (seq 0 (length (t_slots tb)))) as [w2 e2] eqn:Hw.
    assert (Hinv2 : okx e2 -> pinv w2) by (intros Ho; eapply walk_pinv; eauto).
    destruct (get_table w2 t) as [tb2|] eqn:Ht2; inversion H; subst.
    - eapply pinv_views; [apply (views_put_flag w2 t tb2 false Ht2)|auto].
    - auto.
  Qed.
End Reentrant.

Lemma set_helper_good fn rtl : forall fuel, goodR (set_helper fn rtl fuel).
Proof.
  induction fuel as [|f IH]; intros w q v w' e Hinv H Hok; cbn [set_helper] in H.
  - inversion H; subst. destruct Hok.
  - destruct (lookup (w_props w) q) as [pr|] eqn:Hq; [|inversion H; subst; destruct Hok].
    destruct (Z.eqb v (pr_value pr)); [inversion H; subst; exact Hinv|].
    destruct (emit fn rtl (set_helper fn rtl f) w (pr_about pr) q KAbout [pr_value pr; v]) as [w1 [ex|]] eqn:He.
    + inversion H; subst. eapply (emit_pinv fn rtl _ IH); [left; reflexivity|exact Hinv|exact He|exact Hok].
    + assert (Hinv1 : pinv w1) by (eapply (emit_pinv fn rtl _ IH); [left; reflexivity|exact Hinv|exact He|exact I]).
      destruct (lookup (w_props w1) q) as [pr1|] eqn:Hq1; [|inversion H; subst; destruct Hok].
      eapply (emit_pinv fn rtl _ IH); [right; reflexivity| |exact H|exact Hok].
      eapply pinv_views; [apply (views_set_value w1 q pr1 v Hq1)|exact Hinv1].
Qed.

(* ------------------------------------------------------------------------------------------------ *)
(* the simple operations *)

Lemma pinv_new_prop w p v : pinv w -> lookup (w_props w) p = None -> pinv (set_props w (bind_key (w_props w) p (prop_new v))).
Proof.
  intros Hinv Hp. set (w' := set_props w _).
  assert (Pn : pview w p = None) by (unfold pview; rewrite Hp; reflexivity).
  assert (Pv : forall q, pview w' q = if Nat.eqb q p then Some (psigs_of (prop_new v)) else pview w q) by (intros q; apply pview_bind).
  assert (PO : forall q k t, owns w' q k t <-> owns w q k t).
  { intros q k t. unfold owns. rewrite Pv. destruct (Nat.eqb_spec q p) as [Heq|Hne]; [|tauto]. rewrite Heq, Pn.
    split; intros (x & E & Es); inversion E; subst x. destruct k; discriminate Es. }
  eapply (pinvg_updonly w w'); try reflexivity; try exact Hinv; try exact PO; try (intros b0 ls tg E; exists tg; exact E); try exact (pi_held _ _ _ _ _ _ _ Hinv).
  - intros q Hn. rewrite Pv in Hn. destruct (Nat.eqb_spec q p) as [Heq|Hne]; [discriminate Hn|exact Hn].
  - intros q x b Hq Hu _. rewrite Pv in Hq. destruct (Nat.eqb_spec q p) as [Heq|Hne]; [inversion Hq; subst x; discriminate Hu|].
    exact (pi_upd _ _ _ _ _ _ _ Hinv _ _ _ Hq Hu (fun z => z)).
  - intros b ls q Eb. destruct (pi_tgt _ _ _ _ _ _ _ Hinv _ _ _ Eb) as (x & Ex & Eu). exists x. rewrite Pv.
    destruct (Nat.eqb_spec q p) as [Heq|Hne]; [congruence|auto].
Qed.

Lemma pinv_set_obs w n hd :
  pinv w -> h_serial hd < w_serial w -> (forall t pos s, slot_at w t pos (h_serial hd) s -> exists label act, s = SObs label act) ->
  pinv (set_obs w (bind_key (w_obs w) n hd)).
Proof.
  intros [] H1 H2. constructor; try assumption.
  - destruct pi_ser as (S1 & S2 & S3). repeat split; try assumption.
    intros n0 h Hn. cbn [set_obs w_obs] in Hn. rewrite lookup_bind in Hn. destruct (Nat.eqb n0 n); [inversion Hn; subst; exact H1|eauto].
  - intros n0 h t pos s Hn Hs. cbn [set_obs w_obs] in Hn. rewrite lookup_bind in Hn.
    destruct (Nat.eqb n0 n); [inversion Hn; subst; eauto|]. exact (pi_obsn _ _ _ _ _ Hn Hs).
Qed.

Lemma lookup_remove_Some {X} (m : nmap X) k j x : lookup (remove_key m k) j = Some x -> lookup m j = Some x.
Proof.
  destruct (Nat.eq_dec j k) as [->|Hne]; [rewrite lookup_remove_same; discriminate|]. rewrite lookup_remove_other by exact Hne. auto.
Qed.

Section Simple.
  Variable fn : nat -> list Z -> option Z.
  Variable rtl : bool.
  Variable fuel : nat.

  Lemma observe_pinv w p k label h act w' e :
    pinv w -> step1 fn rtl fuel w (PObserve p k label h act) = (w', e) -> okx e -> pinv w'.
  Proof.
    intros Hinv H Hok. cbn [step1] in H.
    destruct (match k, act with KMoved, _ => true | KDestroyed, Some _ => true | _, _ => false end) eqn:Hk; [inversion H; subst; destruct Hok|].
    destruct (subscribe w p k (SObs label act)) as [[w1 hd]|] eqn:Hs; [|inversion H; subst; destruct Hok].
    inversion H; subst w' e; clear H.
    pose proof (subscribe_ext _ _ _ _ _ _ Hs (pi_twf _ _ _ _ _ _ _ Hinv) (pi_own _ _ _ _ _ _ _ Hinv)) as E.
    assert (Hinv1 : pinv w1).
    { eapply pinvg_sub; [exact E|exact Hinv| |intros b l Es; discriminate Es].
      intros Hkk. left. destruct Hkk as [-> | ->]; [|discriminate Hk]. destruct act; [discriminate Hk|]. eauto. }
    apply pinv_set_obs; [exact Hinv1| |].
    - rewrite (se_hser _ _ _ _ _ _ E), (se_serial _ _ _ _ _ _ E). lia.
    - intros t pos s Hsl. destruct (se_new _ _ _ _ _ _ E _ _ _ _ Hsl) as [Hold|(_ & _ & _ & ->)]; [|eauto].
      destruct (pi_ser _ _ _ _ _ _ _ Hinv) as (S1 & _). specialize (S1 _ _ _ _ Hold). rewrite (se_hser _ _ _ _ _ _ E) in S1. lia.
  Qed.

  Lemma unobserve_pinv w h w' e :
    pinv w -> step1 fn rtl fuel w (PUnobserve h) = (w', e) -> okx e -> pinv w'.
  Proof.
    intros Hinv H Hok. cbn [step1] in H. destruct (lookup (w_obs w) h) as [hd|] eqn:Hh; [|inversion H; subst; destruct Hok].
    destruct (unsubscribe_cases _ _ _ _ H (pi_dead _ _ _ _ _ _ _ Hinv)) as [(-> & ->)|[(-> & -> & _)|(-> & s & Hrem)]].
    - destruct Hok.
    - exact Hinv.
    - eapply pinvg_rem; [exact Hrem|exact Hinv|].
      destruct (pi_obsn _ _ _ _ _ _ _ Hinv _ _ _ _ _ Hh (re_was _ _ _ _ _ _ Hrem)) as (label & act & ->). intros b lf _ Heq. discriminate Heq.
  Qed.
End Simple.

(* ------------------------------------------------------------------------------------------------ *)
(* the walks over destroyed() and the private moved signal: no observer acts, every node slot re-targets its leaf *)

Definition visited (sl : list (option (nat * subscriber))) (idxs : list nat) : list (nat * nat) :=
  flat_map (fun x => match nth_error sl x with Some (Some (_, SNode b l)) => [(b, l)] | _ => [] end) idxs.

Definition rt_step (f : option nat -> option nat) (b : nat) (lf : leaf) (v : nat * nat) : leaf :=
  if Nat.eqb (fst v) b then lf_retarget (snd v) f lf else lf.
Definition rt_leaf (f : option nat -> option nat) (vis : list (nat * nat)) (b : nat) (lf : leaf) : leaf :=
  fold_left (rt_step f b) vis lf.

Definition bmap (g : nat -> leaf -> leaf) (w : world) (b : nat) : option (list leaf * option nat) :=
  match bview w b with Some (ls, tg) => Some (map (g b) ls, tg) | None => None end.

Definition f_destroyed : option nat -> option nat := fun _ => None.
Definition f_moved (na : nat) : option nat -> option nat :=
  fun tg => match tg with Some q => if Nat.eqb q na then None else Some na | None => Some na end.

Section QuietWalk.
  Variable fn : nat -> list Z -> option Z.
  Variable rtl : bool.
  Variable R : world -> nat -> Z -> res.
  Variables (p : nat) (k : sigkind) (payload : list Z) (f : option nat -> option nat).
  Hypothesis Hnode : forall w b leaf x, get_bind w b = Some x ->
    deliver fn rtl R w p k payload (SNode b leaf) = (put_bind w b (bind_with_root x (retarget (b_root x) leaf f)), None).
  Hypothesis Hobs : forall w label, deliver fn rtl R w p k payload (SObs label None) = (log (EvNotify label k payload (values w p)) w, None).

  Lemma walk_quiet_rt t tb : forall idxs w,
    get_table w t = Some tb ->
    (forall x ser s, In x idxs -> nth_error (t_slots tb) x = Some (Some (ser, s)) ->
       (exists label, s = SObs label None) \/ (exists b l, s = SNode b l /\ bview w b <> None)) ->
    exists w', walk fn rtl R w t p k payload idxs = (w', None) /\
      w_tables w' = w_tables w /\ w_props w' = w_props w /\ w_obs w' = w_obs w /\ w_held w' = w_held w /\
      w_serial w' = w_serial w /\ w_evps w' = w_evps w /\ length (w_binds w') = length (w_binds w) /\
      forall b, bview w' b = bmap (rt_leaf f (visited (t_slots tb) idxs)) w b.
  Proof.
    induction idxs as [|x r IH]; intros w Ht Hq; cbn [walk visited flat_map].
    - exists w. repeat split. intros b. unfold bmap, rt_leaf. cbn [fold_left]. destruct (bview w b) as [[ls tg]|]; [|reflexivity].
      rewrite map_id. reflexivity.
    - rewrite Ht. destruct (nth_error (t_slots tb) x) as [[[ser s]|]|] eqn:Hx.
      + destruct (Hq x ser s (or_introl eq_refl) Hx) as [(label & ->)|(b & l & -> & Hb)].
        * rewrite Hobs. set (w1 := log _ w).
          destruct (IH w1) as (w' & Hw & I1 & I2 & I3 & I4 & I5 & I6 & I7 & I8); [exact Ht|intros; eapply Hq; eauto; right; assumption|].
          exists w'. split; [exact Hw|]. cbn [app]. repeat split; try assumption. 
        * destruct (get_bind w b) as [xb|] eqn:Hgb; [|exfalso; apply Hb; unfold bview; rewrite Hgb; reflexivity].
          rewrite (Hnode w b l xb Hgb). set (w1 := put_bind w b _).
          destruct (get_bind_lt _ _ _ Hgb) as [Hlt Hal]. pose proof Hlt as Hlt'. apply Nat.ltb_lt in Hlt'.
          assert (Bv1 : forall b', bview w1 b' = bmap (fun b0 lf => rt_step f b0 lf (b, l)) w b').
          { intros b'. unfold w1. rewrite bview_put_bind, Hlt'. cbn [bind_with_root b_alive b_root b_target]. rewrite Hal.
            unfold bmap, rt_step; cbn [fst snd]. destruct (Nat.eqb_spec b b') as [<-|Hne].
            - unfold bview. rewrite Hgb. rewrite leaves_retarget. reflexivity.
            - destruct (bview w b') as [[ls tg]|]; [|reflexivity]. rewrite map_id. reflexivity. }
          destruct (IH w1) as (w' & Hw & I1 & I2 & I3 & I4 & I5 & I6 & I7 & I8); [exact Ht| |].
          { intros x0 ser0 s0 Hin Hn. destruct (Hq x0 ser0 s0 (or_intror Hin) Hn) as [Ho|(b0 & l0 & -> & Hb0)]; [left; exact Ho|].
            right. exists b0, l0. split; [reflexivity|]. rewrite Bv1. unfold bmap. destruct (bview w b0) as [[ls tg]|]; [discriminate|exact Hb0]. }
          exists w'. split; [exact Hw|]. repeat split; try assumption.
          -- rewrite I7. unfold w1, put_bind; cbn [set_binds w_binds]. apply upd_length.
          -- intros b'. rewrite I8. unfold bmap. rewrite Bv1. unfold bmap. destruct (bview w b') as [[ls tg]|]; [|reflexivity].
             rewrite map_map. reflexivity.
      + cbn [app]. apply IH; [exact Ht|intros; eapply Hq; eauto; right; assumption].
      + cbn [app]. apply IH; [exact Ht|intros; eapply Hq; eauto; right; assumption].
  Qed.
End QuietWalk.

Section QuietEmit.
  Variable fn : nat -> list Z -> option Z.
  Variable rtl : bool.
  Variable R : world -> nat -> Z -> res.

  Lemma deliver_destroyed_node w p b leaf x : get_bind w b = Some x ->
    deliver fn rtl R w p KDestroyed [] (SNode b leaf) = (put_bind w b (bind_with_root x (retarget (b_root x) leaf f_destroyed)), None).
  Proof. intros Hb. cbn [deliver]. rewrite Hb. reflexivity. Qed.
  Lemma deliver_destroyed_obs w p label :
    deliver fn rtl R w p KDestroyed [] (SObs label None) = (log (EvNotify label KDestroyed [] (values w p)) w, None).
  Proof. reflexivity. Qed.
  Lemma deliver_moved_node w p dst b leaf x : get_bind w b = Some x ->
    deliver fn rtl R w p KMoved [Z.of_nat dst] (SNode b leaf) = (put_bind w b (bind_with_root x (retarget (b_root x) leaf (f_moved dst))), None).
  Proof. intros Hb. cbn [deliver]. rewrite Hb. rewrite Nat2Z.id. reflexivity. Qed.
  Lemma deliver_moved_obs w p dst label :
    deliver fn rtl R w p KMoved [Z.of_nat dst] (SObs label None) = (log (EvNotify label KMoved [Z.of_nat dst] (values w p)) w, None).
  Proof. reflexivity. Qed.

  (* Signal::emit on a quiet table that is not emitting *)
  Lemma emit_quiet_rt p k payload f w t tb :
    (forall w b leaf x, get_bind w b = Some x ->
       deliver fn rtl R w p k payload (SNode b leaf) = (put_bind w b (bind_with_root x (retarget (b_root x) leaf f)), None)) ->
    (forall w label, deliver fn rtl R w p k payload (SObs label None) = (log (EvNotify label k payload (values w p)) w, None)) ->
    get_table w t = Some tb -> t_emitting tb = false ->
    (forall x ser s, nth_error (t_slots tb) x = Some (Some (ser, s)) ->
       (exists label, s = SObs label None) \/ (exists b l, s = SNode b l /\ bview w b <> None)) ->
    exists w', emit fn rtl R w (Some t) p k payload = (w', None) /\
      (forall t', tview w' t' = tview w t') /\ w_props w' = w_props w /\ w_obs w' = w_obs w /\ w_held w' = w_held w /\
      w_serial w' = w_serial w /\ length (w_binds w') = length (w_binds w) /\
      forall b, bview w' b = bmap (rt_leaf f (visited (t_slots tb) (seq 0 (length (t_slots tb))))) w b.
  Proof.
    intros Hnode Hobs Ht Hem Hq. unfold emit. rewrite Ht, Hem.
    set (tb1 := {| t_slots := t_slots tb; t_free := t_free tb; t_emitting := true; t_alive := t_alive tb |}).
    set (w1 := put_table w t tb1).
    pose proof (get_table_lt _ _ _ Ht) as Hlt.
    assert (Ht1 : get_table w1 t = Some tb1) by (unfold get_table, w1, put_table; cbn [set_tables w_tables]; apply nth_upd_same; exact Hlt).
    destruct (walk_quiet_rt fn rtl R p k payload f Hnode Hobs t tb1 (seq 0 (length (t_slots tb))) w1 Ht1) as (w2 & Hw & I1 & I2 & I3 & I4 & I5 & I6 & I7 & I8).
    { intros x ser s _ Hn. exact (Hq x ser s Hn). }
    cbn [t_slots tb1] in Hw. rewrite Hw.
    assert (Ht2 : get_table w2 t = Some tb1) by (unfold get_table; rewrite I1; exact Ht1).
    rewrite Ht2. eexists. split; [reflexivity|]. cbn [tb1 t_slots t_free t_alive].
    repeat split; try assumption.
    - intros t'. rewrite tview_put_table. apply Nat.ltb_lt in Hlt.
      assert (Hl2 : length (w_tables w2) = length (w_tables w)) by (rewrite I1; unfold w1, put_table; cbn [set_tables w_tables]; apply upd_length).
      rewrite Hl2, Hlt. destruct (Nat.eqb_spec t t') as [<-|Hne].
      + unfold tview. rewrite Ht. reflexivity.
      + unfold tview, get_table. rewrite I1. unfold w1, put_table; cbn [set_tables w_tables]. rewrite nth_upd_other by exact Hne. reflexivity.
  Qed.
End QuietEmit.

(* ------------------------------------------------------------------------------------------------ *)
(* leaves are re-targeted (identity and handles kept), nothing else changes *)
Section LeafMap.
  Variables w w1 : world.
  Variable g : nat -> leaf -> leaf.
  Hypothesis T : forall t, tview w1 t = tview w t.
  Hypothesis P : forall p, pview w1 p = pview w p.
  Hypothesis O : w_obs w1 = w_obs w.
  Hypothesis Hd : w_held w1 = w_held w.
  Hypothesis Sr : w_serial w1 = w_serial w.
  Hypothesis B : forall b, bview w1 b = bmap g w b.
  Hypothesis Gid : forall b lf, lf_id (g b lf) = lf_id lf.
  Hypothesis Gh : forall b lf, lf_handles (g b lf) = lf_handles lf.
  Hypothesis L : length (w_binds w1) = length (w_binds w).

  Lemma lm_leaf b lf' : has_leaf w1 b lf' <-> exists lf, has_leaf w b lf /\ lf' = g b lf.
  Proof.
    unfold has_leaf. rewrite B. unfold bmap. split.
    - intros (ls' & tg & E & Hi). destruct (bview w b) as [[ls tg0]|]; [|discriminate E]. inversion E; subst.
      apply in_map_iff in Hi. destruct Hi as (lf & <- & Hi). exists lf. split; [exists ls, tg; auto|reflexivity].
    - intros (lf & (ls & tg & E & Hi) & ->). rewrite E. exists (map (g b) ls), tg. split; [reflexivity|]. apply in_map. exact Hi.
  Qed.
  Lemma lm_slot t pos ser s : slot_at w1 t pos ser s <-> slot_at w t pos ser s.
  Proof. unfold slot_at. rewrite T. tauto. Qed.
  Lemma lm_owns p k t : owns w1 p k t <-> owns w p k t.
  Proof. unfold owns. rewrite P. tauto. Qed.

  Lemma pinvg_leafmap (X Sc Sm Sd So Su Sc' Sm' Sd' So' : nat -> Prop) :
    pinvg X Sc Sm Sd So Su w -> OWN So' w1 ->
    LEAFX w1 -> LEAFK KChanged Sc' w1 -> LEAFK KMoved Sm' w1 -> LEAFK KDestroyed Sd' w1 -> SLOTOWN So' w1 ->
    pinvg X Sc' Sm' Sd' So' Su w1.
  Proof.
    intros [] HOW HX HC HM HD HS. constructor; try assumption.
    - intros t sl fr al Et. rewrite T in Et. eauto.
    - intros t sl fr pos x Et. rewrite T in Et. eauto.
    - intros p k p' k' t H1 H2. apply lm_owns in H1, H2. eauto.
    - intros p k t pos ser s Ho Hk Hs. apply lm_owns in Ho. apply lm_slot in Hs. eauto.
    - intros t pos ser b l Hx Hs. apply lm_slot in Hs. destruct (pi_slot _ _ _ _ _ Hx Hs) as (lf & Ha & Hb & Hc).
      exists (g b lf). split; [apply lm_leaf; eauto|]. rewrite Gid, Gh. auto.
    - intros b ls' tg Eb. rewrite B in Eb. unfold bmap in Eb. destruct (bview w b) as [[ls tg0]|] eqn:E0; [|discriminate Eb].
      inversion Eb; subst. rewrite map_map. erewrite map_ext; [eapply pi_leafids; eauto|]. intros lf. apply Gid.
    - destruct pi_ser as (S1 & S2 & S3). unfold SER. rewrite Sr, O. repeat split.
      + intros t pos ser s Hs. apply lm_slot in Hs. eauto.
      + exact S2.
      + intros b lf' h Hl Hi. apply lm_leaf in Hl. destruct Hl as (lf & Hl & ->). rewrite Gh in Hi. eauto.
    - intros n h t pos s Hn Hs. rewrite O in Hn. apply lm_slot in Hs. eauto.
    - intros b lf' h t pos s Hl Hi Hs. apply lm_leaf in Hl. destruct Hl as (lf & Hl & ->). rewrite Gh in Hi. apply lm_slot in Hs. eauto.
    - intros p v b Hp Hu Hs. rewrite P in Hp. destruct (pi_upd _ _ _ Hp Hu Hs) as (ls & Eb). exists (map (g b) ls). rewrite B. unfold bmap. rewrite Eb. reflexivity.
    - intros b ls' p Eb. rewrite B in Eb. unfold bmap in Eb. destruct (bview w b) as [[ls tg0]|] eqn:E0; [|discriminate Eb].
      inversion Eb; subst. destruct (pi_tgt _ _ _ E0) as (v & Ev & Eu). exists v. rewrite P. auto.
    - intros n b Hn. rewrite Hd in Hn. destruct (pi_held _ _ Hn) as [Ha Hb0]. split; [rewrite L; exact Ha|].
      intros ls' tg Eb. rewrite B in Eb. unfold bmap in Eb. destruct (bview w b) as [[ls tg0]|] eqn:E0; [|discriminate Eb].
      inversion Eb; subst. eauto.
  Qed.
End LeafMap.

(* ------------------------------------------------------------------------------------------------ *)
(* which leaves a walk re-targets *)

Lemma rt_step_id f b lf v : lf_id (rt_step f b lf v) = lf_id lf.
Proof. unfold rt_step. destruct (Nat.eqb (fst v) b); [apply lf_retarget_id|reflexivity]. Qed.
Lemma rt_step_handles f b lf v : lf_handles (rt_step f b lf v) = lf_handles lf.
Proof. unfold rt_step. destruct (Nat.eqb (fst v) b); [apply lf_retarget_handles|reflexivity]. Qed.
Lemma rt_leaf_id f vis b : forall lf, lf_id (rt_leaf f vis b lf) = lf_id lf.
Proof. unfold rt_leaf. induction vis as [|v r IH]; intros lf; cbn [fold_left]; [reflexivity|]. rewrite IH. apply rt_step_id. Qed.
Lemma rt_leaf_handles f vis b : forall lf, lf_handles (rt_leaf f vis b lf) = lf_handles lf.
Proof. unfold rt_leaf. induction vis as [|v r IH]; intros lf; cbn [fold_left]; [reflexivity|]. rewrite IH. apply rt_step_handles. Qed.

Lemma rt_leaf_notin f vis b : forall lf, ~ In (b, lf_id lf) vis -> rt_leaf f vis b lf = lf.
Proof.
  unfold rt_leaf. induction vis as [|[b' l'] r IH]; intros lf Hn; cbn [fold_left]; [reflexivity|].
  assert (Hs : rt_step f b lf (b', l') = lf).
  { unfold rt_step, lf_retarget; cbn [fst snd]. destruct (Nat.eqb_spec b' b) as [->|]; [|reflexivity].
    destruct (Nat.eqb_spec (lf_id lf) l') as [<-|]; [|reflexivity]. exfalso. apply Hn. left. reflexivity. }
  rewrite Hs. apply IH. intros Hi. apply Hn. right. exact Hi.
Qed.

Lemma lf_set_tg_idem lf a c : lf_set_tg (lf_set_tg lf a) c = lf_set_tg lf c.
Proof. reflexivity. Qed.

Lemma rt_leaf_destroyed_none vis b : forall lf, lf_tg lf = None -> rt_leaf f_destroyed vis b lf = lf.
Proof.
  unfold rt_leaf. induction vis as [|[b' l'] r IH]; intros lf Hn; cbn [fold_left]; [reflexivity|].
  assert (Hs : rt_step f_destroyed b lf (b', l') = lf).
  { unfold rt_step, lf_retarget, f_destroyed; cbn [fst snd]. destruct (Nat.eqb b' b); [|reflexivity].
    destruct (Nat.eqb (lf_id lf) l'); [|reflexivity]. destruct lf; cbn in *; subst; reflexivity. }
  rewrite Hs. apply IH. exact Hn.
Qed.

Lemma rt_leaf_destroyed_in vis b : forall lf, In (b, lf_id lf) vis -> rt_leaf f_destroyed vis b lf = lf_set_tg lf None.
Proof.
  unfold rt_leaf. induction vis as [|[b' l'] r IH]; intros lf Hi; cbn [fold_left]; [destruct Hi|].
  unfold rt_step at 2; cbn [fst snd]. destruct (Nat.eqb_spec b' b) as [->|Hb].
  - unfold lf_retarget. destruct (Nat.eqb_spec (lf_id lf) l') as [<-|Hl].
    + apply (rt_leaf_destroyed_none r b (lf_set_tg lf (f_destroyed (lf_tg lf)))). reflexivity.
    + apply IH. destruct Hi as [E|Hi]; [inversion E; congruence|exact Hi].
  - apply IH. destruct Hi as [E|Hi]; [inversion E; congruence|exact Hi].
Qed.

Lemma in_visited sl b l : In (b, l) (visited sl (seq 0 (length sl))) <-> exists x ser, nth_error sl x = Some (Some (ser, SNode b l)).
Proof.
  unfold visited. rewrite in_flat_map. split.
  - intros (x & _ & Hi). destruct (nth_error sl x) as [[[ser [label act|b' l']]|]|] eqn:E; try destruct Hi.
    + inversion H; subst. eauto.
    + destruct H.
  - intros (x & ser & E). exists x. split; [apply in_seq; split; [lia|]; cbn; apply nth_error_Some; congruence|]. rewrite E. left. reflexivity.
Qed.

Lemma pair_eq_dec (a c : nat * nat) : {a = c} + {a <> c}.
Proof. decide equality; apply Nat.eq_dec. Qed.

Definition untarget (p : nat) (lf : leaf) : leaf :=
  match lf_tg lf with Some q => if Nat.eqb q p then lf_set_tg lf None else lf | None => lf end.

Lemma destroyed_walk_effect w p v t tb :
  pinv w -> pview w p = Some v -> ps_destroyed v = Some t -> get_table w t = Some tb ->
  forall b lf, has_leaf w b lf ->
    rt_leaf f_destroyed (visited (t_slots tb) (seq 0 (length (t_slots tb)))) b lf = untarget p lf.
Proof.
  intros Hinv Hp Hd Ht b lf Hl.
  assert (Ow : owns w p KDestroyed t) by (exists v; auto).
  assert (Tv : tview w t = Some (t_slots tb, t_free tb, t_alive tb)) by (unfold tview; rewrite Ht; reflexivity).
  destruct (in_dec pair_eq_dec
                   (b, lf_id lf) (visited (t_slots tb) (seq 0 (length (t_slots tb))))) as [Hi|Hn].
  - rewrite (rt_leaf_destroyed_in _ _ _ Hi). apply in_visited in Hi. destruct Hi as (x & ser & E).
    assert (Hs : slot_at w t x ser (SNode b (lf_id lf))) by (exists (t_slots tb), (t_free tb), (t_alive tb); auto).
    assert (Etg : lf_tg lf = Some p) by (eapply (pi_slotown _ _ _ _ _ _ _ Hinv); eauto; intros []).
    unfold untarget. rewrite Etg, Nat.eqb_refl. reflexivity.
  - rewrite (rt_leaf_notin _ _ _ _ Hn). unfold untarget. destruct (lf_tg lf) as [q|] eqn:Etg; [|reflexivity].
    destruct (Nat.eqb_spec q p) as [->|]; [|reflexivity]. exfalso. apply Hn.
    destruct (pi_leafd _ _ _ _ _ _ _ Hinv _ _ _ Hl Etg (fun z => z)) as [(v' & Ev & Es) (sl & fr & al & Et & En)].
    rewrite Hp in Ev. inversion Ev; subst v'. cbn [psig] in Es. rewrite Hd in Es. inversion Es as [Eh]. cbn [lf_h] in *.
    rewrite <- Eh, Tv in Et. inversion Et; subst. apply in_visited. eauto.
Qed.

Lemma untarget_id p lf : lf_id (untarget p lf) = lf_id lf.
Proof. unfold untarget. destruct (lf_tg lf) as [q|]; [destruct (Nat.eqb q p)|]; reflexivity. Qed.
Lemma untarget_handles p lf : lf_handles (untarget p lf) = lf_handles lf.
Proof. unfold untarget. destruct (lf_tg lf) as [q|]; [destruct (Nat.eqb q p)|]; reflexivity. Qed.
Lemma untarget_tg p lf q : lf_tg (untarget p lf) = Some q -> lf_tg lf = Some q /\ q <> p /\ untarget p lf = lf.
Proof.
  unfold untarget. destruct (lf_tg lf) as [q0|] eqn:E; [|rewrite E; discriminate].
  destruct (Nat.eqb_spec q0 p) as [->|Hne]; [discriminate|]. rewrite E. intros H; inversion H; subst. auto.
Qed.

Definition NOLEAF (p : nat) (w : world) : Prop := forall b lf, has_leaf w b lf -> lf_tg lf <> Some p.

Lemma after_destroyed_walk w w1 p :
  pinv w ->
  (forall t, tview w1 t = tview w t) -> (forall q, pview w1 q = pview w q) -> w_obs w1 = w_obs w -> w_held w1 = w_held w ->
  w_serial w1 = w_serial w -> (forall b, bview w1 b = bmap (fun _ => untarget p) w b) -> length (w_binds w1) = length (w_binds w) ->
  pinvg none_of none_of none_of none_of (eq p) none_of w1 /\ NOLEAF p w1.
Proof.
  intros Hinv T P O Hd Sr B L.
  pose proof (lm_leaf w w1 _ B) as HL.
  assert (LK : forall k, LEAFK k none_of w -> LEAFK k none_of w1).
  { intros k HK b lf' q Hl Ht _. apply HL in Hl. destruct Hl as (lf & Hl & ->). apply untarget_tg in Ht. destruct Ht as (Ht & Hne & Eu).
    rewrite Eu. destruct (HK _ _ _ Hl Ht (fun z => z)) as [Ha Hb]. split; [apply (lm_owns w w1 P); exact Ha|apply (lm_slot w w1 T); exact Hb]. }
  split.
  - eapply (pinvg_leafmap w w1 (fun _ => untarget p)); eauto using untarget_id, untarget_handles.
    + intros q k t Ho _. apply (lm_owns w w1 P) in Ho. destruct (pi_own _ _ _ _ _ _ _ Hinv _ _ _ Ho (fun z => z)) as (sl & fr & E). exists sl, fr. rewrite T. exact E.
    + intros b lf' q Hl Ht. apply HL in Hl. destruct Hl as (lf & Hl & ->). apply untarget_tg in Ht. destruct Ht as (Ht & _). rewrite P.
      exact (pi_leafx _ _ _ _ _ _ _ Hinv _ _ _ Hl Ht).
    + apply LK. exact (pi_leafc _ _ _ _ _ _ _ Hinv).
    + apply LK. exact (pi_leafm _ _ _ _ _ _ _ Hinv).
    + apply LK. exact (pi_leafd _ _ _ _ _ _ _ Hinv).
    + intros t pos ser b l lf' q k Hs Hl Hid Ho Hq. apply HL in Hl. destruct Hl as (lf & Hl & ->). rewrite untarget_id in Hid.
      apply (lm_slot w w1 T) in Hs. apply (lm_owns w w1 P) in Ho.
      assert (Et : lf_tg lf = Some q) by (eapply (pi_slotown _ _ _ _ _ _ _ Hinv); eauto; intros []).
      unfold untarget. rewrite Et. destruct (Nat.eqb_spec q p) as [->|]; [exfalso; apply Hq; reflexivity|exact Et].
  - intros b lf' Hl Ht. apply HL in Hl. destruct Hl as (lf & Hl & ->). apply untarget_tg in Ht. destruct Ht as (_ & Hne & _). apply Hne. reflexivity.
Qed.

(* ------------------------------------------------------------------------------------------------ *)
(* ~Property *)

Definition NOTARGET (p : nat) (w : world) : Prop := forall b ls, bview w b <> Some (ls, Some p).

Lemma remove_prop_pinv w p :
  pinvg none_of (eq p) (eq p) (eq p) (eq p) (eq p) w -> NOLEAF p w -> NOTARGET p w ->
  pinv (set_props w (remove_key (w_props w) p)).
Proof.
  intros [] HNL HNT. set (w' := set_props w _).
  assert (Pv : forall q, pview w' q = if Nat.eqb q p then None else pview w q).
  { intros q. unfold pview, w'; cbn [set_props w_props]. destruct (Nat.eqb_spec q p) as [->|Hne].
    - rewrite lookup_remove_same. reflexivity.
    - rewrite lookup_remove_other by exact Hne. reflexivity. }
  assert (PO : forall q k t, owns w' q k t <-> (owns w q k t /\ q <> p)).
  { intros q k t. unfold owns. rewrite Pv. destruct (Nat.eqb_spec q p) as [->|Hne].
    - split; [intros (v & E & _); discriminate E|tauto].
    - tauto. }
  constructor; try assumption.
  - intros q k t Ho _. apply PO in Ho. destruct Ho as [Ho Hne]. apply (pi_own _ _ _ Ho). congruence.
  - intros q k q' k' t H1 H2. apply PO in H1, H2. destruct H1, H2. eauto.
  - intros q k t pos ser s Ho Hk Hs. apply PO in Ho. destruct Ho. eapply pi_quiet; eauto.
  - intros b lf q Hl Ht. rewrite Pv. destruct (Nat.eqb_spec q p) as [->|Hne]; [exfalso; exact (HNL _ _ Hl Ht)|eauto].
  - intros b lf q Hl Ht _. assert (Hne : q <> p) by (intros ->; exact (HNL _ _ Hl Ht)).
    destruct (pi_leafc _ _ _ Hl Ht (fun E => Hne (eq_sym E))) as [Ha Hb]. split; [apply PO; auto|exact Hb].
  - intros b lf q Hl Ht _. assert (Hne : q <> p) by (intros ->; exact (HNL _ _ Hl Ht)).
    destruct (pi_leafm _ _ _ Hl Ht (fun E => Hne (eq_sym E))) as [Ha Hb]. split; [apply PO; auto|exact Hb].
  - intros b lf q Hl Ht _. assert (Hne : q <> p) by (intros ->; exact (HNL _ _ Hl Ht)).
    destruct (pi_leafd _ _ _ Hl Ht (fun E => Hne (eq_sym E))) as [Ha Hb]. split; [apply PO; auto|exact Hb].
  - intros t pos ser b l lf q k Hs Hl Hid Ho _. apply PO in Ho. destruct Ho as [Ho Hne]. eapply pi_slotown; eauto.
  - intros q v b Hq Hu _. rewrite Pv in Hq. destruct (Nat.eqb_spec q p) as [->|Hne]; [discriminate Hq|]. eapply pi_upd; eauto.
  - intros b ls q Eb. destruct (pi_tgt _ _ _ Eb) as (v & Ev & Eu). exists v. rewrite Pv.
    destruct (Nat.eqb_spec q p) as [->|Hne]; [exfalso; exact (HNT _ _ Eb)|auto].
Qed.

Lemma bmap_ext g g' w b : (forall lf, has_leaf w b lf -> g b lf = g' b lf) -> bmap g w b = bmap g' w b.
Proof.
  intros H. unfold bmap. destruct (bview w b) as [[ls tg]|] eqn:E; [|reflexivity]. f_equal. f_equal.
  apply map_ext_in. intros lf Hi. apply H. exists ls, tg. auto.
Qed.

Section DestroyProp.
  Variable fn : nat -> list Z -> option Z.
  Variable rtl : bool.

  (* the state between the destroyed() emission and the removal of the property *)
  Definition dying (p : nat) (pr : prop) (w : world) : Prop :=
    pinvg none_of (eq p) (eq p) (eq p) (eq p) (eq p) w /\ NOLEAF p w /\ NOTARGET p w /\ lookup (w_props w) p = Some pr.

  Lemma dying_kill p pr k w w' e :
    dying p pr w -> kill_table w (sig_of pr k) = (w', e) -> okx e -> e = None /\ dying p pr w'.
  Proof.
    intros (Hinv & HNL & HNT & Hp) H Hok.
    destruct (kill_table_cases _ _ _ _ H) as [(-> & ->)|[(-> & -> & _)|(-> & t & Et & Hk)]].
    - destruct Hok.
    - split; [reflexivity|]. exact (conj Hinv (conj HNL (conj HNT Hp))).
    - split; [reflexivity|].
      assert (Ow : owns w p k t) by (exists (psigs_of pr); split; [unfold pview; rewrite Hp; reflexivity|rewrite psig_sig_of; exact Et]).
      split; [|split; [|split]].
      + eapply pinvg_kill; [exact Hk|exact Hinv|]. intros q k' Ho.
        destruct (pi_owninj _ _ _ _ _ _ _ Hinv _ _ _ _ _ Ho Ow) as [-> _]. auto.
      + intros b lf Hl. apply (has_leaf_binds _ _ (ke_binds _ _ _ Hk)) in Hl. eauto.
      + intros b ls. rewrite (bview_binds _ _ (ke_binds _ _ _ Hk)). apply HNT.
      + rewrite (ke_props _ _ _ Hk). exact Hp.
  Qed.

  Lemma destroy_prop_pinv fuel w p w' e :
    pinv w -> destroy_prop fn rtl fuel w p = (w', e) -> okx e -> pinv w'.
  Proof.
    intros Hinv H Hok. unfold destroy_prop in H.
    destruct (lookup (w_props w) p) as [pr|] eqn:Hp; [|inversion H; subst; destruct Hok].
    assert (Pv : pview w p = Some (psigs_of pr)) by (unfold pview; rewrite Hp; reflexivity).
    (* 1: the destroyed() emission *)
    assert (Hemit : (exists ex, emit fn rtl (set_helper fn rtl fuel) w (pr_destroyed pr) p KDestroyed [] = (w, Some ex) /\ ex = PxEmitting) \/
                    exists w1, emit fn rtl (set_helper fn rtl fuel) w (pr_destroyed pr) p KDestroyed [] = (w1, None) /\
                      pinvg none_of none_of none_of none_of (eq p) none_of w1 /\ NOLEAF p w1 /\ w_props w1 = w_props w).
    { destruct (pr_destroyed pr) as [t|] eqn:Hd.
      - assert (Ow : owns w p KDestroyed t) by (exists (psigs_of pr); auto).
        destruct (pi_own _ _ _ _ _ _ _ Hinv _ _ _ Ow (fun z => z)) as (sl & fr & Et).
        apply tview_Some in Et. destruct Et as (tb & Ht & <- & <- & Hal).
        destruct (t_emitting tb) eqn:Hem.
        + left. exists PxEmitting. split; [|reflexivity]. unfold emit. rewrite Ht, Hem. reflexivity.
        + right.
          destruct (emit_quiet_rt fn rtl (set_helper fn rtl fuel) p KDestroyed [] f_destroyed w t tb
                      (fun w0 => deliver_destroyed_node fn rtl _ w0 p) (fun w0 => deliver_destroyed_obs fn rtl _ w0 p) Ht Hem)
            as (w1 & He & I1 & I2 & I3 & I4 & I5 & I6 & I7).
          { intros x ser s Hn.
            assert (Hs : slot_at w t x ser s) by (exists (t_slots tb), (t_free tb), (t_alive tb); split; [unfold tview; rewrite Ht; reflexivity|exact Hn]).
            destruct (pi_quiet _ _ _ _ _ _ _ Hinv _ _ _ _ _ _ Ow (or_introl eq_refl) Hs) as [Ho|(b & l & ->)]; [left; exact Ho|].
            right. exists b, l. split; [reflexivity|].
            destruct (pi_slot _ _ _ _ _ _ _ Hinv _ _ _ _ _ (fun z => z) Hs) as (lf & (ls & tg & Eb & _) & _). congruence. }
          exists w1. split; [exact He|].
          assert (B : forall b, bview w1 b = bmap (fun _ => untarget p) w b).
          { intros b. rewrite I7. apply bmap_ext. intros lf Hl. eapply destroyed_walk_effect; eauto. }
          destruct (after_destroyed_walk w w1 p Hinv I1) as [A1 A2]; auto.
          intros q. unfold pview. rewrite I2. reflexivity.
      - right. exists w. split; [reflexivity|]. split; [|split; [|reflexivity]].
        + eapply pinvg_mono; [| | | | | |exact Hinv]; cbv beta; try (intros x Hx; exact Hx); try (intros x Hx; exact (False_ind _ Hx)).
        + intros b lf Hl Ht. destruct (pi_leafd _ _ _ _ _ _ _ Hinv _ _ _ Hl Ht (fun z => z)) as [(v & Ev & Es) _].
          rewrite Pv in Ev. inversion Ev; subst v. cbn [psig psigs_of ps_destroyed] in Es. congruence. }
    destruct Hemit as [(ex & He & ->)|(w1 & He & Hinv1 & HNL1 & Hp1)]; rewrite He in H.
    { inversion H; subst. exact Hinv. }
    (* 2: the updater dies *)
    assert (Hupd : forall w2 e2, (match pr_updater pr with Some b => destroy_binding w1 b | None => ok w1 end) = (w2, e2) -> okx e2 ->
                   e2 = None /\ dying p pr w2).
    { intros w2 e2 Hu Hok2. assert (Hp1' : lookup (w_props w1) p = Some pr) by (rewrite Hp1; exact Hp).
      assert (Pv1 : pview w1 p = Some (psigs_of pr)) by (unfold pview; rewrite Hp1'; reflexivity).
      destruct (pr_updater pr) as [b|] eqn:Hub.
      - destruct e2 as [ex|]; [apply destroy_binding_exn in Hu; subst; destruct Hok2|]. split; [reflexivity|].
        destruct (destroy_binding_pinvg _ _ _ _ _ _ _ _ _ Hinv1 (fun z => z) Hu) as (I1 & I2 & I3 & I4 & I5 & I6 & I7 & I8 & I9 & I10 & I11).
        destruct (pi_upd _ _ _ _ _ _ _ Hinv1 _ _ _ Pv1 Hub (fun z => z)) as (lsb & Eb).
        split; [|split; [|split]].
        + eapply pinvg_mono; [| | | | | |exact I1]; cbv beta; try (intros x Hx; exact Hx); try (intros x Hx; exact (False_ind _ Hx)).
          intros x [[]|(ls & E)]. rewrite Eb in E. inversion E; reflexivity.
        + intros b' lf (ls & tg & E & Hi). destruct (Nat.eq_dec b' b) as [->|Hne]; [congruence|]. rewrite (I3 _ Hne) in E. apply (HNL1 b' lf). exists ls, tg. auto.
        + intros b' ls E. destruct (Nat.eq_dec b' b) as [->|Hne]; [congruence|]. rewrite (I3 _ Hne) in E.
          destruct (pi_tgt _ _ _ _ _ _ _ Hinv1 _ _ _ E) as (v & Ev & Eu). rewrite Pv1 in Ev. inversion Ev; subst v. cbn in Eu. congruence.
        + rewrite I5. exact Hp1'.
      - inversion Hu; subst. split; [reflexivity|]. split; [|split; [|split]].
        + eapply pinvg_mono; [| | | | | |exact Hinv1]; cbv beta; try (intros x Hx; exact Hx); try (intros x Hx; exact (False_ind _ Hx)).
        + exact HNL1.
        + intros b' ls E. destruct (pi_tgt _ _ _ _ _ _ _ Hinv1 _ _ _ E) as (v & Ev & Eu). rewrite Pv1 in Ev. inversion Ev; subst v. cbn in Eu. congruence.
        + exact Hp1'. }
    destruct (match pr_updater pr with Some b => destroy_binding w1 b | None => ok w1 end) as [w2 e2] eqn:Hu.
    destruct e2 as [ex|]; [inversion H; subst; destruct (Hupd _ _ eq_refl Hok); discriminate|].
    destruct (Hupd _ _ eq_refl I) as [_ D2].
    (* 3: the four signals die, the property goes *)
    destruct (kill_table w2 (pr_destroyed pr)) as [w3 e3] eqn:K3.
    destruct e3 as [ex|]; [inversion H; subst; destruct (dying_kill p pr KDestroyed _ _ _ D2 K3 Hok); discriminate|].
    destruct (dying_kill p pr KDestroyed _ _ _ D2 K3 I) as [_ D3].
    destruct (kill_table w3 (pr_moved pr)) as [w4 e4] eqn:K4.
    destruct e4 as [ex|]; [inversion H; subst; destruct (dying_kill p pr KMoved _ _ _ D3 K4 Hok); discriminate|].
    destruct (dying_kill p pr KMoved _ _ _ D3 K4 I) as [_ D4].
    destruct (kill_table w4 (pr_changed pr)) as [w5 e5] eqn:K5.
    destruct e5 as [ex|]; [inversion H; subst; destruct (dying_kill p pr KChanged _ _ _ D4 K5 Hok); discriminate|].
    destruct (dying_kill p pr KChanged _ _ _ D4 K5 I) as [_ D5].
    destruct (kill_table w5 (pr_about pr)) as [w6 e6] eqn:K6.
    destruct e6 as [ex|]; [inversion H; subst; destruct (dying_kill p pr KAbout _ _ _ D5 K6 Hok); discriminate|].
    destruct (dying_kill p pr KAbout _ _ _ D5 K6 I) as [_ (D6 & N6 & T6 & _)].
    inversion H; subst. apply remove_prop_pinv; assumption.
  Qed.
End DestroyProp.

(* ------------------------------------------------------------------------------------------------ *)
(* building an expression tree for the binding that is about to get index bnew *)

Definition mkh (t pos ser : nat) : handle := {| h_table := t; h_pos := pos; h_serial := ser |}.

Record BI (s0 bnew next : nat) (acc : list leaf) (pend : list (handle * nat)) (w : world) : Prop := {
  bi_inv : pinvg (eq bnew) none_of none_of none_of none_of none_of w;
  bi_fresh : bview w bnew = None;
  bi_ser : s0 <= w_serial w;
  bi_newslots : forall t pos ser s, slot_at w t pos ser s -> s0 <= ser -> exists l, s = SNode bnew l;
  bi_slots : forall t pos ser l, slot_at w t pos ser (SNode bnew l) ->
               (exists lf, In lf acc /\ lf_id lf = l /\ In (mkh t pos ser) (lf_handles lf)) \/ In (mkh t pos ser, l) pend;
  bi_leaves : forall lf, In lf acc -> exists p, lf_tg lf = Some p /\
               forall k, node_kind k -> owns w p k (h_table (lf_h k lf)) /\ live w (lf_h k lf) (SNode bnew (lf_id lf));
  bi_ids : forall lf, In lf acc -> lf_id lf < next;
  bi_nodup : NoDup (map lf_id acc);
  bi_hser : forall lf h, In lf acc -> In h (lf_handles lf) -> s0 <= h_serial h < w_serial w }.

Lemma BI_views s0 bnew next acc pend w w' : views_eq w w' -> BI s0 bnew next acc pend w -> BI s0 bnew next acc pend w'.
Proof.
  intros V []. pose proof V as (B & T & P & O & Hd & Sr & L). constructor; try assumption.
  - eapply pinvg_views; eauto.
  - rewrite B. assumption.
  - rewrite Sr. assumption.
  - intros t pos ser s Hs. apply (slot_at_views _ _ V) in Hs. eauto.
  - intros t pos ser l Hs. apply (slot_at_views _ _ V) in Hs. eauto.
  - intros lf Hi. destruct (bi_leaves0 _ Hi) as (p & Ht & Hk). exists p. split; [exact Ht|]. intros k Hnk. destruct (Hk k Hnk).
    split; [apply (owns_views _ _ V)|apply (live_views _ _ V)]; assumption.
  - intros lf h Hi Hh. rewrite Sr. eauto.
Qed.

(* one more subscription of the node with id l *)
Lemma BI_sub s0 bnew next acc pend w p k l h w1 :
  BI s0 bnew next acc pend w -> sub_ext w p k (SNode bnew l) h w1 -> BI s0 bnew next acc ((h, l) :: pend) w1.
Proof.
  intros [] E. constructor.
  - eapply pinvg_sub; [exact E|exact bi_inv0| |].
    + intros _. right. eauto.
    + intros b l0 Es. inversion Es; subst. auto.
  - rewrite (bview_binds _ _ (se_binds _ _ _ _ _ _ E)). assumption.
  - rewrite (se_serial _ _ _ _ _ _ E). lia.
  - intros t pos ser s Hs Hge. destruct (se_new _ _ _ _ _ _ E _ _ _ _ Hs) as [Hold|(-> & -> & -> & ->)]; [eauto|eauto].
  - intros t pos ser l0 Hs. destruct (se_new _ _ _ _ _ _ E _ _ _ _ Hs) as [Hold|(-> & -> & -> & Es)].
    + destruct (bi_slots0 _ _ _ _ Hold) as [Ha|Hp]; [left; exact Ha|right; right; exact Hp].
    + inversion Es; subst. right. left. destruct h; reflexivity.
  - intros lf Hi. destruct (bi_leaves0 _ Hi) as (q & Ht & Hk). exists q. split; [exact Ht|]. intros k0 Hnk. destruct (Hk k0 Hnk).
    split; [eapply se_owns_old; eauto|eapply se_old; eauto].
  - assumption.
  - assumption.
  - intros lf h0 Hi Hh. rewrite (se_serial _ _ _ _ _ _ E). specialize (bi_hser0 _ _ Hi Hh). lia.
Qed.

Lemma NoDup_snoc {A} (l : list A) x : NoDup l -> ~ In x l -> NoDup (l ++ [x]).
Proof.
  intros ND Hn. induction l as [|a r IH]; cbn; [constructor; [intros []|constructor]|].
  inversion ND; subst. constructor.
  - rewrite in_app_iff. intros [Hi|[->|[]]]; [contradiction|]. apply Hn. left. reflexivity.
  - apply IH; [assumption|]. intros Hi. apply Hn. right. exact Hi.
Qed.

Lemma BI_leaf s0 bnew next acc w p w1 hc w2 hm w3 hd :
  BI s0 bnew next acc [] w ->
  subscribe w p KChanged (SNode bnew next) = Some (w1, hc) ->
  subscribe w1 p KMoved (SNode bnew next) = Some (w2, hm) ->
  subscribe w2 p KDestroyed (SNode bnew next) = Some (w3, hd) ->
  BI s0 bnew (S next) (acc ++ [{| lf_tg := Some p; lf_id := next; lf_hc := hc; lf_hm := hm; lf_hd := hd |}]) [] w3 /\
  w_binds w3 = w_binds w /\ w_held w3 = w_held w.
Proof.
  intros H0 S1 S2 S3.
  pose proof (subscribe_ext _ _ _ _ _ _ S1 (pi_twf _ _ _ _ _ _ _ (bi_inv _ _ _ _ _ _ H0)) (pi_own _ _ _ _ _ _ _ (bi_inv _ _ _ _ _ _ H0))) as E1.
  pose proof (BI_sub _ _ _ _ _ _ _ _ _ _ _ H0 E1) as H1.
  pose proof (subscribe_ext _ _ _ _ _ _ S2 (pi_twf _ _ _ _ _ _ _ (bi_inv _ _ _ _ _ _ H1)) (pi_own _ _ _ _ _ _ _ (bi_inv _ _ _ _ _ _ H1))) as E2.
  pose proof (BI_sub _ _ _ _ _ _ _ _ _ _ _ H1 E2) as H2.
  pose proof (subscribe_ext _ _ _ _ _ _ S3 (pi_twf _ _ _ _ _ _ _ (bi_inv _ _ _ _ _ _ H2)) (pi_own _ _ _ _ _ _ _ (bi_inv _ _ _ _ _ _ H2))) as E3.
  pose proof (BI_sub _ _ _ _ _ _ _ _ _ _ _ H2 E3) as H3.
  split; [|split; [rewrite (se_binds _ _ _ _ _ _ E3), (se_binds _ _ _ _ _ _ E2), (se_binds _ _ _ _ _ _ E1); reflexivity|
                   rewrite (se_held _ _ _ _ _ _ E3), (se_held _ _ _ _ _ _ E2), (se_held _ _ _ _ _ _ E1); reflexivity]].
  set (lf0 := {| lf_tg := Some p; lf_id := next; lf_hc := hc; lf_hm := hm; lf_hd := hd |}).
  destruct H3. destruct H0 as [_ _ ser0 _ _ _ ids0 _ _].
  constructor; try assumption.
  - intros t pos ser l Hs. left. destruct (bi_slots0 _ _ _ _ Hs) as [(lf & Hi & Hid & Hh)|Hp].
    + exists lf. rewrite in_app_iff. auto.
    + exists lf0. rewrite in_app_iff. split; [right; left; reflexivity|].
      destruct Hp as [Ep|[Ep|[Ep|[]]]]; inversion Ep; subst; (split; [reflexivity|]); cbn [lf_handles lf0 lf_hc lf_hm lf_hd In]; auto 6.
  - intros lf Hi. apply in_app_iff in Hi. destruct Hi as [Hi|[<-|[]]]; [eauto|].
    exists p. split; [reflexivity|]. intros k [->|[->| ->]]; cbn [lf_h lf0 lf_hc lf_hm lf_hd lf_id].
    + split.
      * eapply se_owns_old; [exact E3|]. eapply se_owns_old; [exact E2|]. exact (se_owns_h _ _ _ _ _ _ E1).
      * eapply se_old; [exact E3|]. eapply se_old; [exact E2|]. exact (se_live _ _ _ _ _ _ E1).
    + split.
      * eapply se_owns_old; [exact E3|]. exact (se_owns_h _ _ _ _ _ _ E2).
      * eapply se_old; [exact E3|]. exact (se_live _ _ _ _ _ _ E2).
    + split; [exact (se_owns_h _ _ _ _ _ _ E3)|exact (se_live _ _ _ _ _ _ E3)].
  - intros lf Hi. apply in_app_iff in Hi. destruct Hi as [Hi|[<-|[]]]; [specialize (ids0 _ Hi); lia|cbn; lia].
  - rewrite map_app. cbn [map lf_id lf0]. apply NoDup_snoc; [assumption|].
    intros Hi. apply in_map_iff in Hi. destruct Hi as (lf & Eid & Hi). specialize (ids0 _ Hi). lia.
  - intros lf h Hi Hh. apply in_app_iff in Hi. destruct Hi as [Hi|[<-|[]]]; [eauto|].
    pose proof (se_serial _ _ _ _ _ _ E1). pose proof (se_serial _ _ _ _ _ _ E2). pose proof (se_serial _ _ _ _ _ _ E3).
    pose proof (se_hser _ _ _ _ _ _ E1). pose proof (se_hser _ _ _ _ _ _ E2). pose proof (se_hser _ _ _ _ _ _ E3).
    cbn [lf_handles lf0 lf_hc lf_hm lf_hd] in Hh. destruct Hh as [<-|[<-|[<-|[]]]]; unfold lf0; cbn [lf_hc lf_hm lf_hd]; lia.
Qed.

Lemma log_fns_frame l : forall w, w_binds (log_fns l w) = w_binds w /\ w_held (log_fns l w) = w_held w.
Proof. induction l as [|x r IH]; intros w; cbn [log_fns]; [auto|]. destruct (IH (log (EvFn x) w)) as [A B]. rewrite A, B. auto. Qed.

Lemma build_BI fn rtl s0 bnew : forall e w next acc w1 nd n1,
  BI s0 bnew next acc [] w -> build fn rtl w bnew next e = inl (Some (w1, nd, n1)) ->
  BI s0 bnew n1 (acc ++ leaves nd) [] w1 /\ w_binds w1 = w_binds w /\ w_held w1 = w_held w.
Proof.
  induction e as [v|p|f a IHa|f a IHa c IHc|f a IHa c IHc d IHd]; intros w next acc w' nd n' H0 H; cbn [build] in H.
  - inversion H; subst. cbn [leaves]. rewrite app_nil_r. auto.
  - destruct (subscribe w p KChanged (SNode bnew next)) as [[w1 hc]|] eqn:S1; [|discriminate H].
    destruct (subscribe w1 p KMoved (SNode bnew next)) as [[w2 hm]|] eqn:S2; [|discriminate H].
    destruct (subscribe w2 p KDestroyed (SNode bnew next)) as [[w3 hd]|] eqn:S3; [|discriminate H].
    inversion H; subst. cbn [leaves]. eapply BI_leaf; eauto.
  - destruct (build fn rtl w bnew next a) as [[[[w1 na] n1]|]|ex] eqn:Ha; try discriminate H.
    destruct (IHa _ _ _ _ _ _ H0 Ha) as (H1 & B1 & D1).
    destruct (eval fn rtl (values w1) (NOp1 f true 0%Z na)) as [[t r] l] eqn:He. destruct r as [v|ex]; [|discriminate H].
    inversion H; subst.
    pose proof (leaves_eval fn rtl (values w1) (NOp1 f true 0%Z na)) as L. rewrite He in L. cbn [fst leaves] in L. rewrite L.
    destruct (log_fns_frame l w1) as [F1 F2].
    split; [eapply BI_views; [apply views_log_fns|exact H1]|split; congruence].
  - destruct (build fn rtl w bnew next a) as [[[[w1 na] n1]|]|ex] eqn:Ha; try discriminate H.
    destruct (IHa _ _ _ _ _ _ H0 Ha) as (H1 & B1 & D1).
    destruct (build fn rtl w1 bnew n1 c) as [[[[w2 nc] n2]|]|ex] eqn:Hc; try discriminate H.
    destruct (IHc _ _ _ _ _ _ H1 Hc) as (H2 & B2 & D2).
    destruct (eval fn rtl (values w2) (NOp2 f true 0%Z na nc)) as [[t r] l] eqn:He. destruct r as [v|ex]; [|discriminate H].
    inversion H; subst.
    pose proof (leaves_eval fn rtl (values w2) (NOp2 f true 0%Z na nc)) as L. rewrite He in L. cbn [fst leaves] in L. rewrite L, app_assoc.
    destruct (log_fns_frame l w2) as [F1 F2].
    split; [eapply BI_views; [apply views_log_fns|exact H2]|split; congruence].
  - destruct (build fn rtl w bnew next a) as [[[[w1 na] n1]|]|ex] eqn:Ha; try discriminate H.
    destruct (IHa _ _ _ _ _ _ H0 Ha) as (H1 & B1 & D1).
    destruct (build fn rtl w1 bnew n1 c) as [[[[w2 nc] n2]|]|ex] eqn:Hc; try discriminate H.
    destruct (IHc _ _ _ _ _ _ H1 Hc) as (H2 & B2 & D2).
    destruct (build fn rtl w2 bnew n2 d) as [[[[w3 ndd] n3]|]|ex] eqn:Hd; try discriminate H.
    destruct (IHd _ _ _ _ _ _ H2 Hd) as (H3 & B3 & D3).
    destruct (eval fn rtl (values w3) (NOp3 f true 0%Z na nc ndd)) as [[t r] l] eqn:He. destruct r as [v|ex]; [|discriminate H].
    inversion H; subst.
    pose proof (leaves_eval fn rtl (values w3) (NOp3 f true 0%Z na nc ndd)) as L. rewrite He in L. cbn [fst leaves] in L.
    rewrite L, !app_assoc.
    destruct (log_fns_frame l w3) as [F1 F2].
    split; [eapply BI_views; [apply views_log_fns|exact H3]|split; congruence].
Qed.

Lemma in_handles_kind lf h : In h (lf_handles lf) -> exists k, node_kind k /\ h = lf_h k lf.
Proof.
  intros [<-|[<-|[<-|[]]]]; [exists KChanged|exists KMoved|exists KDestroyed]; split; try reflexivity; unfold node_kind; auto.
Qed.

Lemma NoDup_map_inj {A B} (f : A -> B) l x y : NoDup (map f l) -> In x l -> In y l -> f x = f y -> x = y.
Proof.
  induction l as [|a r IH]; intros ND Hx Hy E; [destruct Hx|]. cbn in ND. inversion ND as [|? ? Hn ND']; subst.
  destruct Hx as [->|Hx], Hy as [->|Hy]; auto.
  - exfalso. apply Hn. rewrite E. apply in_map. exact Hy.
  - exfalso. apply Hn. rewrite <- E. apply in_map. exact Hx.
Qed.

(* the finished tree becomes binding number b *)
Lemma append_binding s0 next root w nb :
  BI s0 (length (w_binds w)) next (leaves root) [] w -> b_root nb = root -> b_target nb = None -> b_alive nb = true ->
  pinv (set_binds w (w_binds w ++ [nb])).
Proof.
  intros [] Hr Ht Ha. set (b := length (w_binds w)) in *. set (w3 := set_binds w (w_binds w ++ [nb])).
  assert (Bv : forall b', bview w3 b' = if Nat.eqb b' b then Some (leaves root, None) else bview w b').
  { intros b'. unfold bview, get_bind, w3; cbn [set_binds w_binds]. destruct (Nat.eqb_spec b' b) as [->|Hne].
    - unfold b. rewrite nth_error_app2 by lia. rewrite Nat.sub_diag. cbn. rewrite Ha, Hr, Ht. reflexivity.
    - destruct (Nat.lt_ge_cases b' b) as [Hlt|Hge].
      + rewrite nth_error_app1 by exact Hlt. reflexivity.
      + replace (nth_error (w_binds w ++ [nb]) b') with (@None binding); [|symmetry; apply nth_error_None; rewrite app_length; cbn; unfold b in *; lia].
        replace (nth_error (w_binds w) b') with (@None binding); [reflexivity|symmetry; apply nth_error_None; unfold b in *; lia]. }
  assert (HL : forall b' lf, has_leaf w3 b' lf <-> (b' = b /\ In lf (leaves root)) \/ (b' <> b /\ has_leaf w b' lf)).
  { intros b' lf. unfold has_leaf. rewrite Bv. destruct (Nat.eqb_spec b' b) as [->|Hne].
    - split; [intros (ls & tg & E & Hi); inversion E; subst; auto|]. intros [[_ Hi]|[Hne _]]; [eauto|congruence].
    - split; [intros Hx; right; auto|]. intros [[Hx _]|[_ Hx]]; [congruence|exact Hx]. }
  destruct bi_inv0.
  assert (LK : forall k, node_kind k -> LEAFK k none_of w -> LEAFK k none_of w3).
  { intros k Hk HK b' lf q Hl Htg _. apply HL in Hl. destruct Hl as [[-> Hi]|[Hne Hl]].
    - destruct (bi_leaves0 _ Hi) as (q' & Eq & Hq). rewrite Htg in Eq. inversion Eq; subst q'. exact (Hq k Hk).
    - exact (HK _ _ _ Hl Htg (fun z => z)). }
  constructor; try assumption.
  - intros b' lf q Hl Htg. apply HL in Hl. destruct Hl as [[-> Hi]|[Hne Hl]]; [|eauto].
    destruct (bi_leaves0 _ Hi) as (q' & Eq & Hq). rewrite Htg in Eq. inversion Eq; subst q'.
    destruct (Hq KChanged (or_introl eq_refl)) as [(v & Ev & _) _]. change (pview w3 q) with (pview w q). congruence.
  - apply LK; [left; reflexivity|assumption].
  - apply LK; [right; left; reflexivity|assumption].
  - apply LK; [right; right; reflexivity|assumption].
  - intros t pos ser b' l _ Hs. change (slot_at w3 t pos ser (SNode b' l)) with (slot_at w t pos ser (SNode b' l)) in Hs.
    destruct (Nat.eq_dec b' b) as [->|Hne].
    + destruct (bi_slots0 _ _ _ _ Hs) as [(lf & Hi & Hid & Hh)|[]]. exists lf. split; [apply HL; left; auto|auto].
    + destruct (pi_slot _ _ _ _ _ (fun E => Hne (eq_sym E)) Hs) as (lf & Hl & Hx). exists lf. split; [apply HL; right; auto|exact Hx].
  - intros t pos ser b' l lf q k Hs Hl Hid Ho _. change (slot_at w t pos ser (SNode b' l)) in Hs. change (owns w q k t) in Ho.
    apply HL in Hl. destruct Hl as [[-> Hi]|[Hne Hl]]; [|eapply pi_slotown; eauto].
    destruct (bi_slots0 _ _ _ _ Hs) as [(lf' & Hi' & Hid' & Hh)|[]].
    assert (lf' = lf) by (eapply (NoDup_map_inj lf_id); eauto; congruence). subst lf'.
    destruct (in_handles_kind _ _ Hh) as (k' & Hk' & Eh). destruct (bi_leaves0 _ Hi) as (q' & Eq & Hq).
    destruct (Hq k' Hk') as [Ho' _]. rewrite <- Eh in Ho'. cbn [mkh h_table] in Ho'.
    destruct (pi_owninj _ _ _ _ _ Ho Ho') as [-> _]. exact Eq.
  - intros b' ls tg Eb. rewrite Bv in Eb. destruct (Nat.eqb_spec b' b); [inversion Eb; subst; exact bi_nodup0|eauto].
  - destruct pi_ser as (S1 & S2 & S3). repeat split; try assumption.
    intros b' lf h Hl Hh. apply HL in Hl. destruct Hl as [[-> Hi]|[Hne Hl]]; [|eauto].
    change (w_serial w3) with (w_serial w). destruct (bi_hser0 _ _ Hi Hh). assumption.
  - intros b' lf h t pos s Hl Hh Hs. change (slot_at w t pos (h_serial h) s) in Hs. apply HL in Hl. destruct Hl as [[-> Hi]|[Hne Hl]]; [|eauto].
    destruct (bi_hser0 _ _ Hi Hh) as [Hge _]. eauto.
  - intros q v b0 Hq Hu _. change (pview w q = Some v) in Hq. destruct (pi_upd _ _ _ Hq Hu (fun z => z)) as (ls & Eb). exists ls. rewrite Bv.
    destruct (Nat.eqb_spec b0 b) as [->|]; [congruence|exact Eb].
  - intros b' ls q Eb. rewrite Bv in Eb. destruct (Nat.eqb_spec b' b); [discriminate Eb|]. exact (pi_tgt _ _ _ Eb).
  - intros n b' Hn. change (lookup (w_held w) n = Some b') in Hn. destruct (pi_held _ _ Hn) as [Hlt Hx]. split.
    + unfold w3; cbn [set_binds w_binds]. rewrite app_length. lia.
    + intros ls tg Eb. rewrite Bv in Eb. destruct (Nat.eqb_spec b' b); [inversion Eb; reflexivity|eauto].
Qed.

Lemma make_binding_pinv fn rtl w e m w' b :
  pinv w -> make_binding fn rtl w e m = inl (w', b) ->
  pinv w' /\ (exists ls, bview w' b = Some (ls, None)) /\ (forall n, lookup (w_held w') n <> Some b).
Proof.
  intros Hinv H. unfold make_binding in H.
  destruct (match m with MImmediate => Some 0 | MEvaluator ev => lookup (w_bevs w) ev end) as [ep|]; [|discriminate H].
  destruct (nth_error (w_evps w) ep) as [st|]; [|discriminate H].
  set (b0 := length (w_binds w)) in *.
  destruct (build fn rtl w b0 0 e) as [[[[w1 root] n1]|]|ex] eqn:Hb; try discriminate H.
  inversion H; subst w' b; clear H.
  assert (H0 : BI (w_serial w) b0 0 [] [] w).
  { constructor.
    - eapply pinvg_mono; [| | | | | |exact Hinv]; cbv beta; try (intros x Hx; exact Hx); try (intros x Hx; exact (False_ind _ Hx)).
    - unfold bview, get_bind. replace (nth_error (w_binds w) b0) with (@None binding); [reflexivity|symmetry; apply nth_error_None; unfold b0; lia].
    - lia.
    - intros t pos ser s Hs Hge. destruct (pi_ser _ _ _ _ _ _ _ Hinv) as (S1 & _). specialize (S1 _ _ _ _ Hs). exfalso; lia.
    - intros t pos ser l Hs. exfalso. destruct (pi_slot _ _ _ _ _ _ _ Hinv _ _ _ _ _ (fun z => z) Hs) as (lf & (ls & tg & Eb & _) & _).
      unfold bview, get_bind in Eb. replace (nth_error (w_binds w) b0) with (@None binding) in Eb; [discriminate Eb|symmetry; apply nth_error_None; unfold b0; lia].
    - intros lf [].
    - intros lf [].
    - constructor.
    - intros lf h []. }
  destruct (build_BI fn rtl _ _ _ _ _ _ _ _ _ H0 Hb) as (H1 & B1 & D1). cbn [app] in H1.
  set (w2 := set_evps w1 _).
  assert (H2 : BI (w_serial w) b0 n1 (leaves root) [] w2) by (eapply BI_views; [apply views_set_evps|exact H1]).
  assert (Eb0 : b0 = length (w_binds w2)) by (unfold w2; cbn [set_evps w_binds]; rewrite B1; reflexivity).
  rewrite Eb0 in H2.
  pose proof (append_binding _ _ root w2 {| b_root := root; b_evp := ep; b_regid := S (ep_next st); b_target := None; b_alive := true |} H2 eq_refl eq_refl eq_refl) as Hinv3.
  split; [exact Hinv3|]. split.
  - exists (leaves root). unfold bview, get_bind; cbn [set_binds w_binds]. rewrite Eb0. change (length (w_binds w2)) with (length (w_binds w1)).
    rewrite nth_error_app2 by lia. rewrite Nat.sub_diag. reflexivity.
  - intros n Hn. cbn [set_binds w_held] in Hn. change (w_held w2) with (w_held w1) in Hn. rewrite D1 in Hn.
    destruct (pi_held _ _ _ _ _ _ _ Hinv _ _ Hn) as [Hlt _]. unfold b0 in Hlt. lia.
Qed.

(* ------------------------------------------------------------------------------------------------ *)
(* Property::operator=(std::unique_ptr<PropertyUpdater>&&) *)

Lemma install_updater w p pr b x ls :
  pinvg none_of none_of none_of none_of none_of (eq p) w -> lookup (w_props w) p = Some pr -> get_bind w b = Some x ->
  bview w b = Some (ls, None) -> (forall n, lookup (w_held w) n <> Some b) -> NOTARGET p w ->
  pinv (put_bind (set_props w (bind_key (w_props w) p (prop_set_updater pr (Some b)))) b (bind_with_target x (Some p))).
Proof.
  intros Hinv Hp Hb Hbv Hh HNT.
  set (w2 := set_props w (bind_key (w_props w) p (prop_set_updater pr (Some b)))).
  set (w3 := put_bind w2 b (bind_with_target x (Some p))).
  destruct (get_bind_lt _ _ _ Hb) as [Hlt Hal]. pose proof Hlt as Hlt'. apply Nat.ltb_lt in Hlt'.
  assert (Bv : forall b', bview w3 b' = if Nat.eqb b b' then Some (ls, Some p) else bview w b').
  { intros b'. unfold w3. rewrite bview_put_bind. change (length (w_binds w2)) with (length (w_binds w)). rewrite Hlt'.
    cbn [bind_with_target b_alive b_root b_target]. rewrite Hal. destruct (Nat.eqb_spec b b') as [<-|]; [|reflexivity].
    unfold bview in Hbv. rewrite Hb in Hbv. inversion Hbv; subst. reflexivity. }
  assert (Pv : forall q, pview w3 q = if Nat.eqb q p then Some (psigs_of (prop_set_updater pr (Some b))) else pview w q).
  { intros q. change (pview w3 q) with (pview w2 q). apply pview_bind. }
  eapply (pinvg_updonly w w3); try reflexivity; try exact Hinv.
  - intros b' ls' tg E. rewrite Bv in E. destruct (Nat.eqb_spec b b') as [<-|]; [inversion E; subst; eauto|eauto].
  - intros b' ls' tg E. rewrite Bv. destruct (Nat.eqb_spec b b') as [<-|]; [rewrite Hbv in E; inversion E; subst; eauto|eauto].
  - intros q k t. change (owns w3 q k t) with (owns w2 q k t). apply owns_set_updater. exact Hp.
  - intros q Hn. change (pview w3 q) with (pview w2 q) in Hn. apply (pnone_set_updater w p pr (Some b) q Hp). exact Hn.
  - intros q v b0 Hq Hu _. rewrite Pv in Hq. destruct (Nat.eqb_spec q p) as [Heq|Hne].
    + inversion Hq; subst v. cbn in Hu. inversion Hu; subst b0. exists ls. rewrite Bv, Nat.eqb_refl. congruence.
    + destruct (pi_upd _ _ _ _ _ _ _ Hinv _ _ _ Hq Hu (fun E => Hne (eq_sym E))) as (ls0 & E0). exists ls0. rewrite Bv.
      destruct (Nat.eqb_spec b b0) as [<-|]; [congruence|exact E0].
  - intros b' ls' q Eb. rewrite Bv in Eb. rewrite Pv. destruct (Nat.eqb_spec b b') as [<-|Hne].
    + inversion Eb; subst. rewrite Nat.eqb_refl. eexists. split; reflexivity.
    + destruct (Nat.eqb_spec q p) as [->|]; [exfalso; exact (HNT _ _ Eb)|]. exact (pi_tgt _ _ _ _ _ _ _ Hinv _ _ _ Eb).
  - intros n b' Hn. change (lookup (w_held w) n = Some b') in Hn. destruct (pi_held _ _ _ _ _ _ _ Hinv _ _ Hn) as [Ha Hx]. split.
    + unfold w3, put_bind; cbn [set_binds w_binds]. rewrite upd_length. exact Ha.
    + intros ls' tg Eb. rewrite Bv in Eb. destruct (Nat.eqb_spec b b') as [<-|]; [exfalso; exact (Hh _ Hn)|eauto].
Qed.

Lemma assign_binding_pinv fn rtl fuel w p b w' e :
  pinv w -> (exists ls, bview w b = Some (ls, None)) -> (forall n, lookup (w_held w) n <> Some b) ->
  assign_binding fn rtl fuel w p b = (w', e) -> okx e -> pinv w'.
Proof.
  intros Hinv (ls & Hbv) Hh H Hok. unfold assign_binding in H.
  destruct (lookup (w_props w) p) as [pr|] eqn:Hp; [|inversion H; subst; destruct Hok].
  assert (Pv : pview w p = Some (psigs_of pr)) by (unfold pview; rewrite Hp; reflexivity).
  (* the previous binding goes *)
  assert (Hold : forall w1 e1, (match pr_updater pr with Some old => destroy_binding w old | None => ok w end) = (w1, e1) -> okx e1 ->
            e1 = None /\ pinvg none_of none_of none_of none_of none_of (eq p) w1 /\ NOTARGET p w1 /\ bview w1 b = Some (ls, None) /\
            w_props w1 = w_props w /\ w_held w1 = w_held w).
  { intros w1 e1 Hd Hok1. destruct (pr_updater pr) as [old|] eqn:Hu.
    - destruct e1 as [ex|]; [apply destroy_binding_exn in Hd; subst; destruct Hok1|]. split; [reflexivity|].
      destruct (destroy_binding_pinvg _ _ _ _ _ _ _ _ _ Hinv (fun z => z) Hd) as (I1 & I2 & I3 & I4 & I5 & I6 & I7 & I8 & I9 & I10 & I11).
      destruct (pi_upd _ _ _ _ _ _ _ Hinv _ _ _ Pv Hu (fun z => z)) as (lso & Eo).
      assert (Hne : b <> old) by (intros ->; congruence).
      split; [|split; [|split; [|split]]]; try assumption.
      + eapply pinvg_mono; [| | | | | |exact I1]; cbv beta; try (intros x Hx; exact Hx).
        intros x [[]|(ls0 & E0)]. rewrite Eo in E0. inversion E0; reflexivity.
      + intros b' ls' E. destruct (Nat.eq_dec b' old) as [->|Hn']; [congruence|]. rewrite (I3 _ Hn') in E.
        destruct (pi_tgt _ _ _ _ _ _ _ Hinv _ _ _ E) as (v & Ev & Eu). rewrite Pv in Ev. inversion Ev; subst v. cbn in Eu. congruence.
      + rewrite (I3 _ Hne). exact Hbv.
    - inversion Hd; subst. split; [reflexivity|]. split; [|split; [|split; [|split]]]; try reflexivity; try assumption.
      + eapply pinvg_mono; [| | | | | |exact Hinv]; cbv beta; try (intros x Hx; exact Hx); try (intros x Hx; exact (False_ind _ Hx)).
      + intros b' ls' E. destruct (pi_tgt _ _ _ _ _ _ _ Hinv _ _ _ E) as (v & Ev & Eu). rewrite Pv in Ev. inversion Ev; subst v. cbn in Eu. congruence. }
  destruct (match pr_updater pr with Some old => destroy_binding w old | None => ok w end) as [w1 e1] eqn:Hd.
  destruct e1 as [ex|]; [inversion H; subst; destruct (Hold _ _ eq_refl Hok); discriminate|].
  destruct (Hold _ _ eq_refl I) as (_ & Hinv1 & HNT1 & Hbv1 & Hp1 & Hh1).
  rewrite Hp1, Hp in H.
  destruct (get_bind w1 b) as [x|] eqn:Hb; [|inversion H; subst; destruct Hok].
  assert (Hh1' : forall n, lookup (w_held w1) n <> Some b) by (rewrite Hh1; exact Hh).
  assert (Hp1' : lookup (w_props w1) p = Some pr) by (rewrite Hp1; exact Hp).
  pose proof (install_updater w1 p pr b x ls Hinv1 Hp1' Hb Hbv1 Hh1' HNT1) as Hinv3. rewrite Hp1 in Hinv3.
  set (w2 := set_props w1 (bind_key (w_props w) p (prop_set_updater pr (Some b)))) in *.
  set (w3 := put_bind w2 b (bind_with_target x (Some p))) in *.
  destruct (eval fn rtl (values w3) (b_root x)) as [[t r] l] eqn:He.
  assert (Hb3 : get_bind w3 b = Some (bind_with_target x (Some p))).
  { destruct (get_bind_lt _ _ _ Hb) as [Hlt Hal]. unfold get_bind, w3, put_bind; cbn [set_binds w_binds].
    rewrite nth_upd_same by exact Hlt. cbn [bind_with_target b_alive]. rewrite Hal. reflexivity. }
  assert (Hl : leaves t = leaves (b_root (bind_with_target x (Some p)))).
  { pose proof (leaves_eval fn rtl (values w3) (b_root x)) as L. rewrite He in L. exact L. }
  set (w4 := log_fns l (put_bind w3 b (bind_with_root (bind_with_target x (Some p)) t))) in *.
  assert (Hinv4 : pinv w4).
  { eapply pinv_views; [|exact Hinv3]. eapply views_eq_trans; [apply (views_put_root w3 b _ t Hb3 Hl)|apply views_log_fns]. }
  destruct r as [v|ex].
  - eapply set_helper_good; eauto.
  - inversion H; subst. exact Hinv4.
Qed.

(* ------------------------------------------------------------------------------------------------ *)
(* user-held bindings *)
Lemma pinv_hold w n b ls : pinv w -> bview w b = Some (ls, None) -> pinv (set_held w (bind_key (w_held w) n b)).
Proof.
  intros [] Hb. constructor; try assumption.
  intros n0 b0 Hn. cbn [set_held w_held] in Hn. rewrite lookup_bind in Hn. destruct (Nat.eqb n0 n).
  - inversion Hn; subst b0. split.
    + unfold bview in Hb. destruct (get_bind w b) as [x|] eqn:E; [|discriminate Hb]. exact (proj1 (get_bind_lt _ _ _ E)).
    + intros ls' tg E. change (bview w b = Some (ls', tg)) in E. congruence.
  - exact (pi_held _ _ Hn).
Qed.

Lemma pinv_unhold w n : pinv w -> pinv (set_held w (remove_key (w_held w) n)).
Proof.
  intros []. constructor; try assumption.
  intros n0 b0 Hn. cbn [set_held w_held] in Hn. apply lookup_remove_Some in Hn. exact (pi_held _ _ Hn).
Qed.

Definition is_move (o : op) : bool := match o with PMoveCtor _ _ | PMoveAssign _ _ => true | _ => false end.

Section Step.
  Variable fn : nat -> list Z -> option Z.
  Variable rtl : bool.

  Lemma step1_pinv_nomove fuel w o w' e :
    is_move o = false -> pinv w -> step1 fn rtl fuel w o = (w', e) -> okx e -> pinv w'.
  Proof.
    intros Hm Hinv H Hok. destruct o; try discriminate Hm; cbn [step1] in H.
    - (* PNew *) destruct (lookup (w_props w) p) eqn:Hp; inversion H; subst; [destruct Hok|]. apply pinv_new_prop; assumption.
    - (* PDel *) eapply destroy_prop_pinv; eauto.
    - (* PSet *) destruct (lookup (w_props w) p) as [pr|]; [|inversion H; subst; destruct Hok].
      destruct (pr_updater pr); [inversion H; subst; exact Hinv|]. eapply set_helper_good; eauto.
    - (* PGet *) destruct (lookup (w_props w) p) as [pr|]; inversion H; subst; [|destruct Hok]. eapply pinv_views; [apply views_log|exact Hinv].
    - (* PHasBinding *) destruct (lookup (w_props w) p) as [pr|]; inversion H; subst; [|destruct Hok]. eapply pinv_views; [apply views_log|exact Hinv].
    - (* PObserve *) eapply (observe_pinv fn rtl fuel); [exact Hinv|exact H|exact Hok].
    - (* PUnobserve *) eapply (unobserve_pinv fn rtl fuel); [exact Hinv|exact H|exact Hok].
    - (* PAssignFrom *) destruct (lookup (w_props w) p) as [pr|]; [|inversion H; subst; destruct Hok].
      destruct (lookup (w_props w) q) as [qr|]; [|inversion H; subst; destruct Hok].
      destruct (pr_updater pr); [inversion H; subst; exact Hinv|]. eapply set_helper_good; eauto.
    - (* PBind *) destruct (make_binding fn rtl w e0 m) as [[w1 b]|x] eqn:Hmb; [|inversion H; subst; exact Hinv].
      destruct (make_binding_pinv _ _ _ _ _ _ _ Hinv Hmb) as (Hinv1 & Hb1 & Hh1).
      destruct (lookup (w_props w1) p) as [pr|] eqn:Hp.
      + eapply assign_binding_pinv; eauto.
      + eapply (assign_binding_pinv fn rtl fuel (set_props w1 (bind_key (w_props w1) p (prop_new 0%Z)))); [|exact Hb1|exact Hh1|exact H|exact Hok].
        apply pinv_new_prop; assumption.
    - (* PReset *) destruct (lookup (w_props w) p) as [pr|] eqn:Hp; [|inversion H; subst; destruct Hok].
      destruct (pr_updater pr) as [b|] eqn:Hu; [|inversion H; subst; exact Hinv].
      destruct (destroy_binding w b) as [w1 [ex|]] eqn:Hd.
      + inversion H; subst. apply destroy_binding_exn in Hd. subst. destruct Hok.
      + destruct (reset_pinv _ _ _ _ _ Hinv Hp Hu Hd) as (Hp1 & I1 & _). rewrite Hp1 in H. inversion H; subst. exact I1.
    - (* BevNew *) destruct (lookup (w_bevs w) e0); inversion H; subst; [destruct Hok|]. eapply (pinv_views w); [|exact Hinv]. repeat split.
    - (* BevCopy *) destruct (lookup (w_bevs w) src), (lookup (w_bevs w) dst); inversion H; subst; try destruct Hok.
      eapply (pinv_views w); [|exact Hinv]. repeat split.
    - (* BevDel *) destruct (lookup (w_bevs w) e0); inversion H; subst; [|destruct Hok]. eapply (pinv_views w); [|exact Hinv]. repeat split.
    - (* BevEvalAll *) destruct (lookup (w_bevs w) e0) as [id|]; [|inversion H; subst; destruct Hok].
      destruct (nth_error (w_evps w) id) as [st|]; [|inversion H; subst; destruct Hok].
      revert w Hinv H. generalize (ep_registry st). intros l. induction l as [|[rid b] r IH]; intros w Hinv H.
      + inversion H; subst. exact Hinv.
      + destruct (match nth_error (w_evps w) id with Some st' => existsb (fun q => Nat.eqb (fst q) rid) (ep_registry st') | None => false end).
        * destruct (binding_evaluate fn rtl (set_helper fn rtl fuel) w b) as [w1 [x|]] eqn:Hb.
          -- inversion H; subst. eapply binding_evaluate_pinv; [apply set_helper_good|exact Hinv|exact Hb|exact Hok].
          -- eapply IH; [|exact H]. eapply binding_evaluate_pinv; [apply set_helper_good|exact Hinv|exact Hb|exact I].
        * eapply IH; eauto.
    - (* BHold *) destruct (lookup (w_held w) b); [inversion H; subst; destruct Hok|].
      destruct (make_binding fn rtl w e0 m) as [[w1 id]|x] eqn:Hmb; inversion H; subst; [|exact Hinv].
      destruct (make_binding_pinv _ _ _ _ _ _ _ Hinv Hmb) as (Hinv1 & (ls & Hb1) & _). eapply pinv_hold; eauto.
    - (* BHoldDel *) destruct (lookup (w_held w) b) as [id|] eqn:Hh; [|inversion H; subst; destruct Hok].
      destruct (destroy_binding w id) as [w1 [ex|]] eqn:Hd; inversion H; subst.
      + apply destroy_binding_exn in Hd. subst. destruct Hok.
      + destruct (destroy_binding_pinvg _ _ _ _ _ _ _ _ _ Hinv (fun z => z) Hd) as (I1 & _).
        apply pinv_unhold. eapply pinvg_mono; [| | | | | |exact I1]; cbv beta; try (intros x Hx; exact Hx).
        intros x [[]|(ls & E)]. destruct (pi_held _ _ _ _ _ _ _ Hinv _ _ Hh) as [_ Hx]. specialize (Hx _ _ E). discriminate Hx.
  Qed.
End Step.
