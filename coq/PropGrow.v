(* Coherence (PropSim.COH) is established and kept by every history that creates properties, attaches plain observers, binds FRESH
   properties with immediate evaluation to unary / binary operator expressions over existing properties (bound ones included) and
   assigns to inputs: in every world such a history reaches, every bound property equals its expression recomputed from scratch. *)
From KDB Require Import Util UtilProofs PropDefs PropFlags PropLink PropLinkBasics PropLinkOps PropLinkTheorems PropSim.
From KDB Require PropAbs PropAbsProofs PropProofs PropCheck.
Module A := PropAbs.
Module AP := PropAbsProofs.

Section Grow.
  Variable fn : nat -> list Z -> option Z.
  Variable rtl : bool.
  Notation F1 := (PropSim.F1 fn).
  Notation F2 := (PropSim.F2 fn).
  Notation F3 := (PropSim.F3 fn).
  Notation COH := (PropSim.COH fn).

  Lemma in_ORD w p q l :
    In (q, l) (ORD w p) <-> exists t pos ser b, owns w p KChanged t /\ slot_at w t pos ser (SNode b l) /\ imm w b = Some q.
  Proof.
    unfold ORD, owns, slot_at. destruct (pview w p) as [v|]; [|split; [intros []|intros (t & pos & ser & b & (v & E & _) & _); discriminate E]].
    destruct (ps_changed v) as [t|] eqn:Ec.
    2:{ split; [intros []|]. intros (t & pos & ser & b & (v' & E & Es) & _). inversion E; subst v'. cbn in Es. congruence. }
    destruct (tview w t) as [[[sl fr] al]|] eqn:Et.
    2:{ split; [intros []|]. intros (t' & pos & ser & b & (v' & E & Es) & (sl & fr & al & Et' & _) & _). inversion E; subst v'. cbn in Es.
        assert (t' = t) by congruence. subst t'. congruence. }
    unfold ord_slots. rewrite in_flat_map. split.
    - intros (x & Hx & Hi). destruct (nth_error sl x) as [[[ser [label act|b l']]|]|] eqn:En; try destruct Hi.
      destruct (imm w b) as [q'|] eqn:Ei; [|destruct Hi]. destruct Hi as [E|[]]. inversion E; subst.
      exists t, x, ser, b. split; [exists v; auto|]. split; [exists sl, fr, al; auto|exact Ei].
    - intros (t' & pos & ser & b & (v' & E & Es) & (sl' & fr' & al' & Et' & En) & Ei). inversion E; subst v'. cbn in Es.
      assert (t' = t) by congruence. subst t'. rewrite Et in Et'. inversion Et'; subst. exists pos. split.
      + apply in_seq. split; [lia|]. cbn. apply nth_error_Some. congruence.
      + rewrite En, Ei. left. reflexivity.
  Qed.

  Lemma Inv_order_incl (o o' : nat -> list (nat * nat)) s :
    (forall p x, In x (o p) -> In x (o' p)) -> AP.Inv F1 F2 F3 o s [] -> AP.Inv F1 F2 F3 o' s [].
  Proof. intros E H q t Ht. destruct (H q t Ht) as (A1 & A2 & A3 & A4). repeat split; auto. Qed.

  (* ---- the empty world ---- *)
  Lemma SC_world0 : SC world0.
  Proof.
    split; [exact pinv_world0|]. split.
    - intros t pos ser label act (sl & fr & al & E & _). unfold tview, get_table in E. cbn in E. rewrite nth_nil in E. discriminate E.
    - intros q x E. discriminate E.
  Qed.
  Lemma COH_world0 : COH world0.
  Proof.
    exists {| A.env := fun _ => 0%Z; A.tr := fun _ => None; A.oof := false |}. split.
    - split; [intros p pr E; discriminate E|]. split; [intros q; reflexivity|reflexivity].
    - intros q t E. discriminate E.
  Qed.

  (* ---- a new property ---- *)
  Lemma grow_new w p v :
    SC w -> COH w -> lookup (w_props w) p = None ->
    let w' := set_props w (bind_key (w_props w) p (prop_new v)) in SC w' /\ COH w'.
  Proof.
    intros (Hinv & Hna & Hsi) (s & (R1 & R2 & R3) & HInv) Hp w'.
    assert (Pn : pview w p = None) by (unfold pview; rewrite Hp; reflexivity).
    assert (IO : forall q, imm_of w' q = imm_of w q).
    { intros q. unfold imm_of, w'; cbn [set_props w_props]. rewrite lookup_bind. destruct (Nat.eqb_spec q p) as [->|]; [rewrite Hp; reflexivity|reflexivity]. }
    assert (OR : forall p0 x, In x (ORD w p0) -> In x (ORD w' p0)).
    { intros p0 [q l] Hi. apply in_ORD in Hi. destruct Hi as (t & pos & ser & b & (vv & Ev & Es) & Hs & Hi). apply in_ORD.
      exists t, pos, ser, b. split; [|split; [exact Hs|exact Hi]]. exists vv. split; [|exact Es].
      unfold w'. rewrite pview_bind. destruct (Nat.eqb_spec p0 p) as [->|]; [congruence|exact Ev]. }
    split.
    - split; [apply pinv_new_prop; assumption|]. split; [exact Hna|]. intros q x Hx. rewrite IO in Hx. eauto.
    - exists {| A.env := A.set_env (A.env s) p v; A.tr := A.tr s; A.oof := false |}. split.
      + split; [|split; [intros q; rewrite IO; apply R2|reflexivity]].
        intros p0 pr0 Hp0. unfold w' in Hp0; cbn [set_props w_props] in Hp0. rewrite lookup_bind in Hp0. cbn [A.env]. unfold A.set_env.
        destruct (Nat.eqb_spec p0 p) as [->|]; [inversion Hp0; reflexivity|auto].
      + apply (Inv_order_incl (ORD w)); [exact OR|].
        assert (Eo : ORD w p = []) by (unfold ORD; rewrite Pn; reflexivity).
        pose proof (AP.Inv_env_change F1 F2 F3 (ORD w) s [] p v) as IE. rewrite Eo in IE. cbn [app] in IE. apply IE.
        * intros q t Ht. destruct (HInv q t Ht) as (A1 & A2 & A3 & A4). repeat split; auto.
        * intros t Ht. rewrite R2 in Ht. unfold imm_of in Ht. rewrite Hp in Ht. discriminate Ht.
  Qed.

  (* ---- one more subscription (of something that is not a leaf of an immediate binding with a target) ---- *)
  Lemma imm_of_pview w q :
    imm_of w q = match pview w q with
                 | Some v => match ps_updater v with
                             | Some b => match get_bind w b with Some x => if Nat.eqb (b_evp x) 0 then Some x else None | None => None end
                             | None => None end
                 | None => None end.
  Proof. unfold imm_of, pview. destruct (lookup (w_props w) q) as [pr|]; reflexivity. Qed.

  Lemma sub_imm_of w p k sub h w1 : sub_ext w p k sub h w1 -> forall q, imm_of w1 q = imm_of w q.
  Proof.
    intros E q. rewrite !imm_of_pview. destruct (pview w q) as [v|] eqn:Ev.
    - destruct (se_pview_fwd _ _ _ _ _ _ E _ _ Ev) as (v1 & Ev1 & Eu). rewrite Ev1, Eu. destruct (ps_updater v) as [b|]; [|reflexivity].
      unfold get_bind. rewrite (se_binds _ _ _ _ _ _ E). reflexivity.
    - apply (se_pdom _ _ _ _ _ _ E) in Ev. rewrite Ev. reflexivity.
  Qed.
  Lemma sub_imm w p k sub h w1 : sub_ext w p k sub h w1 -> forall b, imm w1 b = imm w b.
  Proof. intros E b. unfold imm, get_bind. rewrite (se_binds _ _ _ _ _ _ E). reflexivity. Qed.

  Lemma sub_Rel w p k sub h w1 s : sub_ext w p k sub h w1 -> Rel w s -> Rel w1 s.
  Proof.
    intros E (R1 & R2 & R3). split; [|split; [intros q; rewrite (sub_imm_of _ _ _ _ _ _ E); apply R2|exact R3]].
    intros p0 pr1 Hp1. pose proof (se_vals _ _ _ _ _ _ E p0) as Hv. unfold values in Hv. rewrite Hp1 in Hv. cbn in Hv.
    destruct (lookup (w_props w) p0) as [pr0|] eqn:Hp0; [|discriminate Hv]. cbn in Hv. rewrite (R1 _ _ Hp0). congruence.
  Qed.

  Lemma sub_ORD w p k sub h w1 : sub_ext w p k sub h w1 -> forall p0 x, In x (ORD w p0) -> In x (ORD w1 p0).
  Proof.
    intros E p0 [q l] Hi. apply in_ORD in Hi. destruct Hi as (t & pos & ser & b & Ho & Hs & Hi). apply in_ORD.
    exists t, pos, ser, b. split; [eapply se_owns_old; eauto|]. split; [eapply se_old; eauto|]. rewrite (sub_imm _ _ _ _ _ _ E). exact Hi.
  Qed.

  Lemma sub_COH w p k sub h w1 : sub_ext w p k sub h w1 -> COH w -> COH w1.
  Proof.
    intros E (s & HRel & HInv). exists s. split; [eapply sub_Rel; eauto|]. eapply Inv_order_incl; [|exact HInv]. apply (sub_ORD _ _ _ _ _ _ E).
  Qed.

  Lemma sub_SIMPLE w p k sub h w1 : sub_ext w p k sub h w1 -> SIMPLE w -> SIMPLE w1.
  Proof. intros E H q x Hx. rewrite (sub_imm_of _ _ _ _ _ _ E) in Hx. eauto. Qed.

  Lemma sub_NOACT w p k sub h w1 : sub_ext w p k sub h w1 -> NOACT w -> (forall label act, sub = SObs label act -> act = None) -> NOACT w1.
  Proof.
    intros E H Hs t pos ser label act Hsl. destruct (se_new _ _ _ _ _ _ E _ _ _ _ Hsl) as [Hold|(_ & _ & _ & Es)]; [eauto|]. symmetry in Es. eauto.
  Qed.

  (* ---- a plain observer ---- *)
  Lemma grow_observe fuel w p k label h w' :
    SC w -> COH w -> step1 fn rtl fuel w (PObserve p k label h None) = (w', None) -> SC w' /\ COH w'.
  Proof.
    intros (Hinv & Hna & Hsi) HC H.
    assert (Hinv' : pinv w') by (eapply (observe_pinv fn rtl fuel); eauto; exact I).
    cbn [step1] in H. destruct (match k with KMoved => true | _ => false end) eqn:Hk; [destruct k; discriminate|].
    replace (match k, @None (bool * nat) with KMoved, _ => true | KDestroyed, Some _ => true | _, _ => false end) with false in H by (destruct k; reflexivity).
    destruct (subscribe w p k (SObs label None)) as [[w1 hd]|] eqn:Hs; [|discriminate H]. inversion H; subst w'.
    pose proof (subscribe_ext _ _ _ _ _ _ Hs (pi_twf _ _ _ _ _ _ _ Hinv) (pi_own _ _ _ _ _ _ _ Hinv)) as E.
    split.
    - split; [exact Hinv'|]. split.
      + apply (sub_NOACT _ _ _ _ _ _ E Hna). intros label0 act E0. inversion E0; reflexivity.
      + exact (sub_SIMPLE _ _ _ _ _ _ E Hsi).
    - exact (sub_COH _ _ _ _ _ _ E HC).
  Qed.

  (* ---- building a tree ---- *)

  (* what building leaves alone / only extends *)
  Definition GR (w w1 : world) : Prop :=
    (forall q, imm_of w1 q = imm_of w q) /\ (forall b, imm w1 b = imm w b) /\ (forall q, values w1 q = values w q) /\
    (forall p0 x, In x (ORD w p0) -> In x (ORD w1 p0)) /\
    (forall t pos ser label act, slot_at w1 t pos ser (SObs label act) -> slot_at w t pos ser (SObs label act)) /\
    (forall q k t, owns w q k t -> owns w1 q k t) /\
    (* a property with a valueAboutToChange table keeps its updater (a freshly created property has no table yet) *)
    (forall q v t, pview w q = Some v -> psig v KAbout = Some t -> exists v1, pview w1 q = Some v1 /\ psig v1 KAbout = Some t /\ ps_updater v1 = ps_updater v).
  Lemma GR_refl w : GR w w.
  Proof. repeat split; auto. intros q v t H Ht; exists v; auto. Qed.
  Lemma GR_trans a b c : GR a b -> GR b c -> GR a c.
  Proof.
    intros (A1 & A2 & A3 & A4 & A5 & A6 & A7) (B1 & B2 & B3 & B4 & B5 & B6 & B7). repeat split; intros; try congruence; eauto.
    destruct (A7 _ _ _ H H0) as (v1 & P1 & T1 & U1). destruct (B7 _ _ _ P1 T1) as (v2 & P2 & T2 & U2). exists v2. split; [exact P2|split; [exact T2|congruence]].
  Qed.
  Lemma GR_sub w p k b l h w1 : sub_ext w p k (SNode b l) h w1 -> GR w w1.
  Proof.
    intros E. split; [apply (sub_imm_of _ _ _ _ _ _ E)|]. split; [apply (sub_imm _ _ _ _ _ _ E)|]. split; [apply (se_vals _ _ _ _ _ _ E)|].
    split; [apply (sub_ORD _ _ _ _ _ _ E)|]. split; [|split; [exact (se_owns_old _ _ _ _ _ _ E)|]].
    - intros t pos ser label act Hs. destruct (se_new _ _ _ _ _ _ E _ _ _ _ Hs) as [Ho|(_ & _ & _ & Ex)]; [exact Ho|discriminate Ex].
    - intros q v t Pv Pt. assert (Ho : owns w q KAbout t) by (exists v; auto). destruct (se_owns_old _ _ _ _ _ _ E _ _ _ Ho) as (v1 & P1 & T1).
      exists v1. split; [exact P1|split; [exact T1|exact (se_upd _ _ _ _ _ _ E q v v1 Pv P1)]].
  Qed.
  Lemma GR_log_fns l w : GR w (log_fns l w).
  Proof.
    pose proof (FR_log_fns l w) as F. pose proof F as (F1' & F2' & F3' & _).
    split; [intros q; apply imm_of_log_fns|]. split; [exact F1'|]. split; [intros q; unfold values; rewrite PropProofs.log_fns_props; reflexivity|]. split; [|split; [|split]].
    - intros p0 x Hi. rewrite (FR_ORD _ _ p0 F). exact Hi.
    - intros t pos ser label act Hs. unfold slot_at in *. rewrite F2' in Hs. exact Hs.
    - intros q k t (v & Pv & Sv). exists v. rewrite F3'. auto.
    - intros q v t Pv Pt. exists v. rewrite F3'. auto.
  Qed.

  Lemma build_grow s0 bnew : forall e w next acc w1 nd n1,
    BI s0 bnew next acc [] w -> build fn rtl w bnew next e = inl (Some (w1, nd, n1)) ->
    GR w w1 /\
    (forall env q, (forall p v, values w p = Some v -> env p = v) ->
       exists T, abs_tree nd = Some T /\ A.clean T /\ A.consis F1 F2 F3 env [] q T /\
                 (forall p lid, In (p, lid) (A.leaves T) -> values w1 p = Some (env p))).
  Proof.
    induction e as [v|p|f a IHa|f a IHa c IHc|f a IHa c IHc d IHd]; intros w next acc w' nd n' H0 H.
    - cbn [build] in H. inversion H; subst. split; [apply GR_refl|]. intros env q Henv. exists (A.Const v). cbn. repeat split; auto. intros p lid [].
    - cbn [build] in H.
      destruct (subscribe w p KChanged (SNode bnew next)) as [[w1 hc]|] eqn:S1; [|discriminate H].
      destruct (subscribe w1 p KMoved (SNode bnew next)) as [[w2 hm]|] eqn:S2; [|discriminate H].
      destruct (subscribe w2 p KDestroyed (SNode bnew next)) as [[w3 hd]|] eqn:S3; [|discriminate H].
      inversion H; subst; clear H.
      pose proof (subscribe_ext _ _ _ _ _ _ S1 (pi_twf _ _ _ _ _ _ _ (bi_inv _ _ _ _ _ _ H0)) (pi_own _ _ _ _ _ _ _ (bi_inv _ _ _ _ _ _ H0))) as E1.
      pose proof (BI_sub _ _ _ _ _ _ _ _ _ _ _ H0 E1) as H1.
      pose proof (subscribe_ext _ _ _ _ _ _ S2 (pi_twf _ _ _ _ _ _ _ (bi_inv _ _ _ _ _ _ H1)) (pi_own _ _ _ _ _ _ _ (bi_inv _ _ _ _ _ _ H1))) as E2.
      pose proof (BI_sub _ _ _ _ _ _ _ _ _ _ _ H1 E2) as H2.
      pose proof (subscribe_ext _ _ _ _ _ _ S3 (pi_twf _ _ _ _ _ _ _ (bi_inv _ _ _ _ _ _ H2)) (pi_own _ _ _ _ _ _ _ (bi_inv _ _ _ _ _ _ H2))) as E3.
      assert (G : GR w w') by (eapply GR_trans; [eapply GR_sub; exact E1|eapply GR_trans; eapply GR_sub; eauto]).
      split; [exact G|]. intros env q Henv. exists (A.Leaf p next false). cbn. repeat split; auto.
      intros p0 lid [E|[]]. inversion E; subst p0 lid. destruct G as (_ & _ & Gv & _). rewrite Gv.
      unfold subscribe in S1. unfold values. destruct (lookup (w_props w) p) as [pr|] eqn:Hp; [|discriminate S1]. cbn. f_equal. symmetry. apply Henv. unfold values. rewrite Hp. reflexivity.
    - cbn [build] in H. destruct (build fn rtl w bnew next a) as [[[[w1 na] n1]|]|ex] eqn:Ha; try discriminate H.
      destruct (IHa _ _ _ _ _ _ H0 Ha) as [G1 T1].
      destruct (eval fn rtl (values w1) (NOp1 f true 0%Z na)) as [[t r] l] eqn:He. destruct r as [v|ex]; [|discriminate H]. inversion H; subst; clear H.
      split; [eapply GR_trans; [exact G1|apply GR_log_fns]|].
      intros env q Henv. destruct (T1 env q Henv) as (Ta & Ea & Ca & Na & Va).
      assert (Eabs : abs_tree (NOp1 f true 0%Z na) = Some (A.Un f true 0%Z Ta)) by (cbn [abs_tree]; rewrite Ea; reflexivity).
      destruct (sim_eval fn rtl (values w1) env _ _ _ _ _ Eabs Va He) as [Et Ev]. cbn [A.eval] in Et, Ev.
      rewrite (AP.eval_clean F1 F2 F3 env Ta Ca) in Et, Ev. cbn [fst snd] in Et, Ev.
      eexists. split; [exact Et|]. split; [cbn; auto|]. split.
      + cbn [A.consis]. split; [exact Na|]. intros _. cbn [A.den]. rewrite (AP.val_den F1 F2 F3 env [] q Ta Ca Na); [reflexivity|]. intros p0 lid _ [].
      + intros p0 lid Hi. cbn [A.leaves] in Hi. unfold values. rewrite PropProofs.log_fns_props. apply (Va p0 lid Hi).
    - cbn [build] in H. destruct (build fn rtl w bnew next a) as [[[[w1 na] n1]|]|ex] eqn:Ha; try discriminate H.
      destruct (IHa _ _ _ _ _ _ H0 Ha) as [G1 T1]. destruct (build_BI fn rtl _ _ _ _ _ _ _ _ _ H0 Ha) as (H1 & _).
      destruct (build fn rtl w1 bnew n1 c) as [[[[w2 nc] n2]|]|ex] eqn:Hc; try discriminate H.
      destruct (IHc _ _ _ _ _ _ H1 Hc) as [G2 T2].
      destruct (eval fn rtl (values w2) (NOp2 f true 0%Z na nc)) as [[t r] l] eqn:He. destruct r as [v|ex]; [|discriminate H]. inversion H; subst; clear H.
      split; [eapply GR_trans; [exact G1|eapply GR_trans; [exact G2|apply GR_log_fns]]|].
      intros env q Henv.
      destruct (T1 env q Henv) as (Ta & Ea & Ca & Na & Va).
      assert (Henv1 : forall p v0, values w1 p = Some v0 -> env p = v0) by (intros p v0 E; apply Henv; destruct G1 as (_ & _ & Gv & _); rewrite <- Gv; exact E).
      destruct (T2 env q Henv1) as (Tc & Ec & Cc & Nc & Vc).
      assert (Va2 : forall p lid, In (p, lid) (A.leaves Ta) -> values w2 p = Some (env p)) by (intros p lid Hi; destruct G2 as (_ & _ & Gv & _); rewrite Gv; eauto).
      assert (Eabs : abs_tree (NOp2 f true 0%Z na nc) = Some (A.Bin f true 0%Z Ta Tc)) by (cbn [abs_tree]; rewrite Ea, Ec; reflexivity).
      assert (Vall : forall p lid, In (p, lid) (A.leaves (A.Bin f true 0%Z Ta Tc)) -> values w2 p = Some (env p)).
      { intros p lid Hi. cbn [A.leaves] in Hi. apply in_app_iff in Hi. destruct Hi; eauto. }
      destruct (sim_eval fn rtl (values w2) env _ _ _ _ _ Eabs Vall He) as [Et Ev]. cbn [A.eval] in Et, Ev.
      rewrite (AP.eval_clean F1 F2 F3 env Ta Ca), (AP.eval_clean F1 F2 F3 env Tc Cc) in Et, Ev. cbn [fst snd] in Et, Ev.
      eexists. split; [exact Et|]. split; [cbn; auto|]. split.
      + cbn [A.consis]. split; [exact Na|]. split; [exact Nc|]. intros _. cbn [A.den].
        rewrite (AP.val_den F1 F2 F3 env [] q Ta Ca Na), (AP.val_den F1 F2 F3 env [] q Tc Cc Nc); [reflexivity| |]; intros p0 lid _ [].
      + intros p0 lid Hi. unfold values. rewrite PropProofs.log_fns_props. apply (Vall p0 lid Hi).
    - cbn [build] in H. destruct (build fn rtl w bnew next a) as [[[[w1 na] n1]|]|ex] eqn:Ha; try discriminate H.
      destruct (IHa _ _ _ _ _ _ H0 Ha) as [G1 T1]. destruct (build_BI fn rtl _ _ _ _ _ _ _ _ _ H0 Ha) as (H1 & _).
      destruct (build fn rtl w1 bnew n1 c) as [[[[w2 nc] n2]|]|ex] eqn:Hc; try discriminate H.
      destruct (IHc _ _ _ _ _ _ H1 Hc) as [G2 T2]. destruct (build_BI fn rtl _ _ _ _ _ _ _ _ _ H1 Hc) as (H2 & _).
      destruct (build fn rtl w2 bnew n2 d) as [[[[w3 ndd] n3]|]|ex] eqn:Hd; try discriminate H.
      destruct (IHd _ _ _ _ _ _ H2 Hd) as [G3 T3].
      destruct (eval fn rtl (values w3) (NOp3 f true 0%Z na nc ndd)) as [[t r] l] eqn:He. destruct r as [v|ex]; [|discriminate H]. inversion H; subst; clear H.
      split; [eapply GR_trans; [exact G1|eapply GR_trans; [exact G2|eapply GR_trans; [exact G3|apply GR_log_fns]]]|].
      intros env q Henv.
      destruct (T1 env q Henv) as (Ta & Ea & Ca & Na & Va).
      assert (Henv1 : forall p v0, values w1 p = Some v0 -> env p = v0) by (intros p v0 E; apply Henv; destruct G1 as (_ & _ & Gv & _); rewrite <- Gv; exact E).
      destruct (T2 env q Henv1) as (Tc & Ec & Cc & Nc & Vc).
      assert (Henv2 : forall p v0, values w2 p = Some v0 -> env p = v0) by (intros p v0 E; apply Henv1; destruct G2 as (_ & _ & Gv & _); rewrite <- Gv; exact E).
      destruct (T3 env q Henv2) as (Td & Ed & Cd & Nd & Vd).
      assert (Va3 : forall p lid, In (p, lid) (A.leaves Ta) -> values w3 p = Some (env p)).
      { intros p lid Hi. destruct G2 as (_ & _ & Gv2 & _), G3 as (_ & _ & Gv3 & _). rewrite Gv3, Gv2. eauto. }
      assert (Vc3 : forall p lid, In (p, lid) (A.leaves Tc) -> values w3 p = Some (env p)) by (intros p lid Hi; destruct G3 as (_ & _ & Gv & _); rewrite Gv; eauto).
      assert (Eabs : abs_tree (NOp3 f true 0%Z na nc ndd) = Some (A.Tern f true 0%Z Ta Tc Td)) by (cbn [abs_tree]; rewrite Ea, Ec, Ed; reflexivity).
      assert (Vall : forall p lid, In (p, lid) (A.leaves (A.Tern f true 0%Z Ta Tc Td)) -> values w3 p = Some (env p)).
      { intros p lid Hi. cbn [A.leaves] in Hi. apply in_app_iff in Hi. destruct Hi as [Hi|Hi]; [eauto|]. apply in_app_iff in Hi. destruct Hi; eauto. }
      destruct (sim_eval fn rtl (values w3) env _ _ _ _ _ Eabs Vall He) as [Et Ev]. cbn [A.eval] in Et, Ev.
      rewrite (AP.eval_clean F1 F2 F3 env Ta Ca), (AP.eval_clean F1 F2 F3 env Tc Cc), (AP.eval_clean F1 F2 F3 env Td Cd) in Et, Ev. cbn [fst snd] in Et, Ev.
      eexists. split; [exact Et|]. split; [cbn; auto|]. split.
      + cbn [A.consis]. split; [exact Na|]. split; [exact Nc|]. split; [exact Nd|]. intros _. cbn [A.den].
        rewrite (AP.val_den F1 F2 F3 env [] q Ta Ca Na), (AP.val_den F1 F2 F3 env [] q Tc Cc Nc), (AP.val_den F1 F2 F3 env [] q Td Cd Nd); [reflexivity| | |]; intros p0 lid _ [].
      + intros p0 lid Hi. unfold values. rewrite PropProofs.log_fns_props. apply (Vall p0 lid Hi).
  Qed.

  (* ---- a new immediate binding object (not yet installed in a property) ---- *)
  (* any evaluation mode: the new binding is registered with the immediate evaluator (index 0) or with the explicit one *)
  Lemma make_binding_grow_m w e m w1 b :
    pinv w -> make_binding fn rtl w e m = inl (w1, b) ->
    GR w w1 /\ b = length (w_binds w) /\
    exists xb, get_bind w1 b = Some xb /\
      match m with MImmediate => b_evp xb = 0 | MEvaluator ev => lookup (w_bevs w) ev = Some (b_evp xb) end /\ b_target xb = None /\
      (forall env q, (forall p v, values w p = Some v -> env p = v) ->
         exists T, abs_tree (b_root xb) = Some T /\ A.clean T /\ A.consis F1 F2 F3 env [] q T /\
                   (forall p lid, In (p, lid) (A.leaves T) -> values w1 p = Some (env p))).
  Proof.
    intros Hinv H. unfold make_binding in H.
    destruct (match m with MImmediate => Some 0 | MEvaluator ev => lookup (w_bevs w) ev end) as [ep|] eqn:Hep; [|discriminate H].
    destruct (nth_error (w_evps w) ep) as [st|]; [|discriminate H].
    set (b0 := length (w_binds w)) in *.
    destruct (build fn rtl w b0 0 e) as [[[[w1' root] n1]|]|ex] eqn:Hb; try discriminate H. inversion H; subst w1 b; clear H.
    assert (H0 : BI (w_serial w) b0 0 [] [] w).
    { constructor.
      - eapply pinvg_mono; [| | | | | |exact Hinv]; cbv beta; try (intros x Hx; exact Hx); try (intros x Hx; exact (False_ind _ Hx)).
      - unfold bview, get_bind. replace (nth_error (w_binds w) b0) with (@None binding); [reflexivity|symmetry; apply nth_error_None; unfold b0; lia].
      - lia.
      - intros t pos ser s Hs Hge. destruct (pi_ser _ _ _ _ _ _ _ Hinv) as (S1 & _). specialize (S1 _ _ _ _ Hs). exfalso; lia.
      - intros t pos ser l Hs. exfalso. destruct (pi_slot _ _ _ _ _ _ _ Hinv _ _ _ _ _ (fun z => z) Hs) as (lf & (ls & tg & Eb & _) & _).
        unfold bview, get_bind in Eb. replace (nth_error (w_binds w) b0) with (@None binding) in Eb; [discriminate Eb|symmetry; apply nth_error_None; unfold b0; lia].
      - intros lf [].
      - intros lf [].
      - constructor.
      - intros lf h []. }
    destruct (build_grow _ _ _ _ _ _ _ _ _ H0 Hb) as [G T]. destruct (build_BI fn rtl _ _ _ _ _ _ _ _ _ H0 Hb) as (_ & B1 & _).
    set (nb := {| b_root := root; b_evp := ep; b_regid := S (ep_next st); b_target := None; b_alive := true |}).
    match goal with |- GR _ ?W /\ _ => set (w3 := W) in * end.
    assert (Gb : forall b', b' < b0 -> get_bind w3 b' = get_bind w1' b').
    { intros b' Hlt. unfold get_bind, w3; cbn [set_binds set_evps w_binds]. rewrite nth_error_app1 by (rewrite B1; exact Hlt). reflexivity. }
    assert (Gn : get_bind w3 b0 = Some nb).
    { unfold get_bind, w3; cbn [set_binds set_evps w_binds]. rewrite nth_error_app2 by (rewrite B1; unfold b0; lia). replace (b0 - length (w_binds w1')) with 0 by (rewrite B1; unfold b0; lia). reflexivity. }
    assert (Gold : forall b', get_bind w1' b' <> None -> get_bind w3 b' = get_bind w1' b').
    { intros b' Hn. apply Gb. unfold b0. rewrite <- B1. apply nth_error_Some. intros En. apply Hn. unfold get_bind. rewrite En. reflexivity. }
    assert (G3 : GR w1' w3).
    { split; [|split; [|split; [intros q; reflexivity|split]]].
      - intros q. rewrite !imm_of_pview. change (pview w3 q) with (pview w1' q). destruct (pview w1' q) as [v|] eqn:Ev; [|reflexivity].
        destruct (ps_updater v) as [b'|] eqn:Eu; [|reflexivity].
        destruct (get_bind w1' b') as [x'|] eqn:Eg; [rewrite Gold by congruence; rewrite Eg; reflexivity|].
        (* an updater is a live binding *)
        exfalso. assert (Hinv1 : pinvg (eq b0) none_of none_of none_of none_of none_of w1').
        { destruct (build_BI fn rtl _ _ _ _ _ _ _ _ _ H0 Hb) as (HB & _). exact (bi_inv _ _ _ _ _ _ HB). }
        destruct (pi_upd _ _ _ _ _ _ _ Hinv1 _ _ _ Ev Eu (fun z => z)) as (ls & Eb). unfold bview in Eb. rewrite Eg in Eb. discriminate Eb.
      - intros b'. unfold imm. destruct (Nat.lt_ge_cases b' b0) as [Hlt|Hge]; [rewrite Gb by exact Hlt; reflexivity|].
        assert (En : get_bind w1' b' = None) by (unfold get_bind; replace (nth_error (w_binds w1') b') with (@None binding); [reflexivity|symmetry; apply nth_error_None; rewrite B1; exact Hge]).
        rewrite En. destruct (Nat.eq_dec b' b0) as [->|Hne]; [rewrite Gn; cbn [nb b_evp b_target]; destruct (Nat.eqb ep 0); reflexivity|].
        unfold get_bind, w3; cbn [set_binds set_evps w_binds]. replace (nth_error (w_binds w1' ++ [nb]) b') with (@None binding); [reflexivity|].
        symmetry. apply nth_error_None. rewrite app_length, B1. cbn. unfold b0 in *. lia.
      - intros p0 [q l] Hi. apply in_ORD in Hi. destruct Hi as (t & pos & ser & b' & Ho & Hs & Hi). apply in_ORD. exists t, pos, ser, b'. split; [exact Ho|]. split; [exact Hs|].
        unfold imm in *. destruct (get_bind w1' b') as [x'|] eqn:Eg; [|discriminate Hi]. rewrite Gold by congruence. rewrite Eg. exact Hi.
      - split; [auto|split; [auto|intros q v t Hv Ht; exists v; auto]]. }
    split; [eapply GR_trans; eauto|]. split; [reflexivity|]. exists nb. split; [exact Gn|]. split; [destruct m; [inversion Hep; subst ep; reflexivity|exact Hep]|]. split; [reflexivity|].
    intros env q Henv. destruct (T env q Henv) as (T0 & E0 & C0 & N0 & V0). exists T0. repeat split; auto.
  Qed.

  Lemma make_binding_grow w e w1 b :
    pinv w -> make_binding fn rtl w e MImmediate = inl (w1, b) ->
    GR w w1 /\ b = length (w_binds w) /\
    exists xb, get_bind w1 b = Some xb /\ b_evp xb = 0 /\ b_target xb = None /\
      (forall env q, (forall p v, values w p = Some v -> env p = v) ->
         exists T, abs_tree (b_root xb) = Some T /\ A.clean T /\ A.consis F1 F2 F3 env [] q T /\
                   (forall p lid, In (p, lid) (A.leaves T) -> values w1 p = Some (env p))).
  Proof. intros Hinv H. exact (make_binding_grow_m w e MImmediate w1 b Hinv H). Qed.


  Lemma values_lookup w p v : values w p = Some v <-> exists pr, lookup (w_props w) p = Some pr /\ pr_value pr = v.
  Proof.
    unfold values. destruct (lookup (w_props w) p) as [pr|]; cbn; split.
    - intros E; inversion E. eauto.
    - intros (pr' & E & <-). inversion E; reflexivity.
    - discriminate.
    - intros (pr' & E & _). discriminate E.
  Qed.

  Lemma GR_SC w w1 : GR w w1 -> pinv w1 -> SC w -> SC w1.
  Proof.
    intros (G1 & G2 & G3 & G4 & G5 & G6 & G7) Hinv1 (Hinv & Hna & Hsi). split; [exact Hinv1|]. split.
    - intros t pos ser label act Hs. eapply Hna. eapply G5. exact Hs.
    - intros q x Hx. rewrite G1 in Hx. eauto.
  Qed.
  Lemma GR_COH w w1 : GR w w1 -> COH w -> COH w1.
  Proof.
    intros (G1 & G2 & G3 & G4 & G5 & G6 & G7) (s & (R1 & R2 & R3) & HInv). exists s. split.
    - split; [|split; [intros q; rewrite G1; apply R2|exact R3]]. intros p0 pr1 Hp1.
      assert (Hv : values w1 p0 = Some (pr_value pr1)) by (apply values_lookup; eauto). rewrite G3 in Hv. apply values_lookup in Hv.
      destruct Hv as (pr0 & Hp0 & Ev). rewrite (R1 _ _ Hp0). exact Ev.
    - eapply Inv_order_incl; [|exact HInv]. exact G4.
  Qed.

  (* ---- installing a freshly built immediate binding in an unbound property ---- *)
  Lemma assign_fresh fuel w p pr b xb T w' :
    SC w -> COH w -> lookup (w_props w) p = Some pr -> pr_updater pr = None ->
    get_bind w b = Some xb -> b_evp xb = 0 -> b_target xb = None -> (forall n, lookup (w_held w) n <> Some b) ->
    abs_tree (b_root xb) = Some T ->
    (forall s, Rel w s -> A.clean T /\ A.consis F1 F2 F3 (A.env s) [] p T /\ (forall p0 lid, In (p0, lid) (A.leaves T) -> values w p0 = Some (A.env s p0))) ->
    assign_binding fn rtl fuel w p b = (w', None) -> SC w' /\ COH w'.
  Proof.
    intros (Hinv & Hna & Hsi) (s & HRel & HInv) Hp Hu Hb Hevp Htg Hheld HT Htree H.
    destruct (Htree s HRel) as (HC & HN & HV). pose proof HRel as (R1 & R2 & R3).
    unfold assign_binding in H. rewrite Hp, Hu in H. cbn [ok] in H. rewrite Hp, Hb in H.
    set (w2 := set_props w (bind_key (w_props w) p (prop_set_updater pr (Some b)))) in *.
    set (xb3 := bind_with_target xb (Some p)) in *.
    set (w3 := put_bind w2 b xb3) in *.
    destruct (get_bind_lt _ _ _ Hb) as [Hlt Hal].
    assert (Bvb : bview w b = Some (leaves (b_root xb), None)) by (unfold bview; rewrite Hb, Htg; reflexivity).
    assert (HNT : NOTARGET p w).
    { intros b' ls E. destruct (pi_tgt _ _ _ _ _ _ _ Hinv _ _ _ E) as (vv & Ev & Eu). unfold pview in Ev. rewrite Hp in Ev. assert (vv = psigs_of pr) by congruence. subst vv. cbn in Eu. congruence. }
    assert (Hinv3 : pinv w3).
    { apply (install_updater w p pr b xb (leaves (b_root xb))); auto.
      eapply pinvg_mono; [| | | | | |exact Hinv]; cbv beta; try (intros x Hx; exact Hx); try (intros x Hx; exact (False_ind _ Hx)). }
    assert (V3 : forall q, values w3 q = values w q).
    { intros q. unfold values. change (w_props w3) with (w_props w2). unfold w2; cbn [set_props w_props]. rewrite lookup_bind.
      destruct (Nat.eqb_spec q p) as [->|]; [rewrite Hp; reflexivity|reflexivity]. }
    destruct (eval fn rtl (values w3) (b_root xb)) as [[t r] l] eqn:He. destruct r as [v|ex]; [|discriminate H].
    assert (HV3 : forall p0 lid, In (p0, lid) (A.leaves T) -> values w3 p0 = Some (A.env s p0)) by (intros; rewrite V3; eauto).
    destruct (sim_eval fn rtl (values w3) (A.env s) _ _ _ _ _ HT HV3 He) as [Et Ev]. rewrite (AP.eval_clean F1 F2 F3 (A.env s) T HC) in Et, Ev. cbn [fst snd] in Et, Ev.
    assert (Hden : v = A.den F1 F2 F3 (A.env s) T) by (rewrite Ev; apply (AP.val_den F1 F2 F3 (A.env s) [] p T HC HN); intros p0 lid _ []).
    assert (Hb3 : get_bind w3 b = Some xb3).
    { unfold get_bind, w3, put_bind; cbn [set_binds w_binds]. change (w_binds w2) with (w_binds w). rewrite nth_upd_same by exact Hlt.
      unfold xb3; cbn [bind_with_target b_alive]. rewrite Hal. reflexivity. }
    pose proof (leaves_eval fn rtl (values w3) (b_root xb)) as Hl. rewrite He in Hl. cbn [fst] in Hl.
    set (w4 := log_fns l (put_bind w3 b (bind_with_root xb3 t))) in *.
    assert (V34 : views_eq w3 w4).
    { eapply views_eq_trans; [apply (views_put_root w3 b xb3 t Hb3); exact Hl|apply views_log_fns]. }
    assert (Hinv4 : pinv w4) by (eapply pinv_views; eauto).
    (* the views of w4 in terms of w *)
    assert (G4 : forall b', get_bind w4 b' = if Nat.eqb b b' then Some (bind_with_root xb3 t) else get_bind w b').
    { intros b'. unfold w4. assert (E : forall w0, get_bind (log_fns l w0) b' = get_bind w0 b') by (clear; induction l as [|g r IH]; intros w0; cbn [log_fns]; [reflexivity|rewrite IH; reflexivity]).
      rewrite E. rewrite (get_bind_put_root _ _ _ _ _ Hb3). destruct (Nat.eqb_spec b b') as [<-|Hne]; [reflexivity|].
      unfold get_bind, w3, put_bind; cbn [set_binds w_binds]. change (w_binds w2) with (w_binds w). rewrite nth_upd_other by exact Hne. reflexivity. }
    assert (P4 : w_props w4 = w_props w2) by (unfold w4; rewrite PropProofs.log_fns_props; reflexivity).
    assert (L4 : forall q, lookup (w_props w4) q = if Nat.eqb q p then Some (prop_set_updater pr (Some b)) else lookup (w_props w) q).
    { intros q. rewrite P4. unfold w2; cbn [set_props w_props]. apply lookup_bind. }
    assert (T4 : forall t0, tview w4 t0 = tview w t0).
    { intros t0. destruct V34 as (_ & T34 & _). rewrite T34. reflexivity. }
    assert (I4 : forall b', imm w4 b' = if Nat.eqb b b' then Some p else imm w b').
    { intros b'. unfold imm. rewrite G4. destruct (Nat.eqb_spec b b') as [<-|]; [|reflexivity]. cbn [bind_with_root xb3 bind_with_target b_evp b_target]. rewrite Hevp. reflexivity. }
    assert (IO4 : forall q, imm_of w4 q = if Nat.eqb q p then Some (bind_with_root xb3 t) else imm_of w q).
    { intros q. unfold imm_of. rewrite L4. destruct (Nat.eqb_spec q p) as [->|Hne].
      - cbn [prop_set_updater pr_updater]. rewrite G4, Nat.eqb_refl. cbn [bind_with_root xb3 bind_with_target b_evp]. rewrite Hevp. reflexivity.
      - destruct (lookup (w_props w) q) as [pr'|] eqn:Hq; [|reflexivity]. destruct (pr_updater pr') as [b'|] eqn:Hu'; [|reflexivity]. rewrite G4.
        destruct (Nat.eqb_spec b b') as [<-|]; [|reflexivity]. exfalso.
        assert (Pv' : pview w q = Some (psigs_of pr')) by (unfold pview; rewrite Hq; reflexivity).
        destruct (pi_upd _ _ _ _ _ _ _ Hinv _ _ _ Pv' Hu' (fun z => z)) as (ls & Eb). congruence. }
    assert (O4 : forall p0 x, In x (ORD w p0) -> In x (ORD w4 p0)).
    { intros p0 [q l0] Hi. apply in_ORD in Hi. destruct Hi as (t0 & pos & ser & b' & (vv & Evv & Es) & Hs & Hi). apply in_ORD. exists t0, pos, ser, b'. split; [|split].
      - unfold owns, pview. rewrite L4. unfold pview in Evv. destruct (Nat.eqb_spec p0 p) as [->|]; [|exists vv; auto].
        rewrite Hp in Evv. assert (vv = psigs_of pr) by congruence. subst vv. eexists. split; [reflexivity|]. rewrite psig_set_updater. exact Es.
      - unfold slot_at. rewrite T4. exact Hs.
      - rewrite I4. destruct (Nat.eqb_spec b b') as [<-|]; [|exact Hi]. unfold imm in Hi. rewrite Hb, Hevp, Htg in Hi. discriminate Hi. }
    set (s4 := {| A.env := A.env s; A.tr := A.set_tr (A.tr s) p T; A.oof := false |}).
    assert (Rel4 : Rel w4 s4).
    { split; [|split; [|reflexivity]].
      - intros q prq Hq. rewrite L4 in Hq. cbn [s4 A.env]. destruct (Nat.eqb_spec q p) as [->|]; [|auto].
        inversion Hq; subst prq. cbn [prop_set_updater pr_value]. exact (R1 _ _ Hp).
      - intros q. cbn [s4 A.tr]. unfold A.set_tr. rewrite IO4. destruct (Nat.eqb_spec q p) as [->|]; [|apply R2].
        cbn [bind_with_root b_root]. symmetry. exact Et. }
    assert (SC4 : SC w4).
    { split; [exact Hinv4|]. split.
      - intros t0 pos ser label act Hs. unfold slot_at in Hs. rewrite T4 in Hs. eapply Hna; eauto.
      - intros q x Hx. rewrite IO4 in Hx. destruct (Nat.eqb_spec q p) as [->|]; [|eauto]. inversion Hx; subst x. cbn [bind_with_root b_root]. congruence. }
    destruct (sim_set fn rtl (ORD w4) fuel w4 p v w' s4 SC4 (fun _ => eq_refl) Rel4 H) as (SC' & FR' & Rel').
    split; [exact SC'|].
    exists (A.set F1 F2 F3 (ORD w4) fuel s4 p v). split; [exact Rel'|].
    apply (Inv_order_incl (ORD w4)); [intros p0 x Hi; rewrite (FR_ORD _ _ p0 FR'); exact Hi|].
    (* everything but the value of p itself is in order *)
    assert (Pre : AP.PreInv F1 F2 F3 (ORD w4) s4 [] p).
    { intros q t0 Ht0. cbn [s4 A.tr A.env] in *. unfold A.set_tr in Ht0. destruct (Nat.eqb_spec q p) as [->|Hne].
      - inversion Ht0; subst t0. split; [exact HC|]. split; [exact HN|]. split; [intros Hx; contradiction|].
        intros p0 lid Hi. destruct (abs_leaf_in _ _ _ _ HT Hi) as (lf & Hlf & Htg0 & Hid).
        assert (Hl4 : has_leaf w4 b lf).
        { exists (leaves t), (Some p). split; [unfold bview; rewrite G4, Nat.eqb_refl; reflexivity|rewrite Hl; exact Hlf]. }
        destruct (pi_leafc _ _ _ _ _ _ _ Hinv4 _ _ _ Hl4 Htg0 (fun z => z)) as [Ho Hv]. apply in_ORD.
        exists (h_table (lf_hc lf)), (h_pos (lf_hc lf)), (h_serial (lf_hc lf)), b. split; [exact Ho|]. split; [rewrite <- Hid; exact Hv|]. rewrite I4, Nat.eqb_refl. reflexivity.
      - destruct (HInv q t0 Ht0) as (A1 & A2 & A3 & A4). repeat split; auto. }
    assert (Hv : forall t0, A.tr s4 p = Some t0 -> A.nopend [] p t0 -> v = A.den F1 F2 F3 (A.env s4) t0).
    { intros t0 Ht0 _. cbn [s4 A.tr A.env] in *. unfold A.set_tr in Ht0. rewrite Nat.eqb_refl in Ht0. inversion Ht0; subst t0. exact Hden. }
    unfold A.set in *. destruct (Z.eqb v (A.env s4 p)) eqn:Ez.
    - (* the new expression gives the value the property has already *)
      apply Z.eqb_eq in Ez. intros q t0 Ht0. destruct (Pre q t0 Ht0) as (A1 & A2 & A3 & A4). repeat split; auto.
      intros Hn. destruct (Nat.eq_dec q p) as [->|Hne]; [|auto]. rewrite <- Ez. apply Hv; assumption.
    - pose proof (AP.Inv_env_change F1 F2 F3 (ORD w4) s4 [] p v Pre Hv) as IE.
      apply (proj2 (AP.notify_ok F1 F2 F3 (ORD w4) fuel)); [exact IE|]. destruct Rel' as (_ & _ & Q3). exact Q3.
  Qed.

  (* ---- p = makeBoundProperty(expression): a fresh property bound with immediate evaluation ---- *)
  Lemma grow_bind fuel w p e w' :
    SC w -> COH w -> lookup (w_props w) p = None ->
    step1 fn rtl fuel w (PBind p e MImmediate) = (w', None) -> SC w' /\ COH w'.
  Proof.
    intros HSC HC Hp H. pose proof HSC as (Hinv & Hna & Hsi). cbn [step1] in H.
    destruct (make_binding fn rtl w e MImmediate) as [[w1 b]|x] eqn:Hm; [|discriminate H].
    destruct (make_binding_grow _ _ _ _ Hinv Hm) as (G & Eb & xb & Hxb & Hevp & Htg & Htree).
    destruct (make_binding_pinv _ _ _ _ _ _ _ Hinv Hm) as (Hinv1 & _ & Hheld).
    assert (Vp : values w1 p = None) by (destruct G as (_ & _ & G3 & _); rewrite G3; unfold values; rewrite Hp; reflexivity).
    assert (Hp1 : lookup (w_props w1) p = None) by (unfold values in Vp; destruct (lookup (w_props w1) p); [discriminate Vp|reflexivity]).
    rewrite Hp1 in H.
    pose proof (GR_SC _ _ G Hinv1 HSC) as SC1. pose proof (GR_COH _ _ G HC) as COH1.
    destruct (grow_new w1 p 0%Z SC1 COH1 Hp1) as (SCn & COHn).
    set (w1n := set_props w1 (bind_key (w_props w1) p (prop_new 0%Z))) in *.
    set (env0 := fun p0 => match values w p0 with Some v => v | None => 0%Z end).
    destruct (Htree env0 p) as (T & HT & _); [intros p0 v0 E; unfold env0; rewrite E; reflexivity|].
    apply (assign_fresh fuel w1n p (prop_new 0%Z) b xb T w' SCn COHn); auto.
    - unfold w1n; cbn [set_props w_props]. apply lookup_bind_same.
    - intros s (R1 & R2 & R3).
      destruct (Htree (A.env s) p) as (T' & HT' & C' & N' & V').
      { intros p0 v0 E. destruct G as (_ & _ & G3 & _). rewrite <- G3 in E. apply values_lookup in E. destruct E as (pr0 & Hp0 & Ev).
        assert (Hne : p0 <> p) by (intros ->; congruence).
        rewrite <- Ev. apply R1. unfold w1n; cbn [set_props w_props]. rewrite lookup_bind_other by exact Hne. exact Hp0. }
      assert (T' = T) by congruence. subst T'. split; [exact C'|]. split; [exact N'|].
      intros p0 lid Hi. specialize (V' p0 lid Hi). assert (Hne : p0 <> p) by (intros ->; congruence).
      unfold values, w1n; cbn [set_props w_props]. rewrite lookup_bind_other by exact Hne. exact V'.
  Qed.

  (* ---- an assignment to an unbound property ---- *)
  Lemma grow_set fuel w p v path w' :
    SC w -> COH w -> step1 fn rtl fuel w (PSet p v path) = (w', None) -> SC w' /\ COH w'.
  Proof.
    intros HSC HC H. cbn [step1] in H. destruct (lookup (w_props w) p) as [pr|] eqn:Hp; [|discriminate H].
    destruct (pr_updater pr) eqn:Hu; [discriminate H|].
    destruct (assignment_coherent fn rtl fuel w p pr v w' HSC HC Hp Hu H) as (A1 & A2 & _). auto.
  Qed.

  (* ---- histories ---- *)
  (* the operations of a growing network; PBind must name a property that does not exist yet (makeBoundProperty) *)
  Definition grow_op (w : world) (o : op) : Prop :=
    match o with
    | PNew _ _ | PSet _ _ _ | PGet _ | PHasBinding _ => True
    | PObserve _ _ _ _ None => True
    | PBind p e MImmediate => lookup (w_props w) p = None
    | _ => False
    end.

  Theorem grow_step fuel w o w' :
    SC w -> COH w -> grow_op w o -> step1 fn rtl fuel w o = (w', None) -> SC w' /\ COH w'.
  Proof.
    intros HSC HC Ho H. destruct o; cbn [grow_op] in Ho; try destruct Ho.
    - cbn [step1] in H. destruct (lookup (w_props w) p) eqn:Hp; [discriminate H|]. inversion H; subst. apply grow_new; assumption.
    - eapply grow_set; eauto.
    - cbn [step1] in H. destruct (lookup (w_props w) p); [|discriminate H]. inversion H; subst.
      destruct HSC as (Hinv & Hna & Hsi). split; [split; [eapply pinv_views; [apply views_log|exact Hinv]|split; [exact Hna|exact Hsi]]|exact HC].
    - cbn [step1] in H. destruct (lookup (w_props w) p); [|discriminate H]. inversion H; subst.
      destruct HSC as (Hinv & Hna & Hsi). split; [split; [eapply pinv_views; [apply views_log|exact Hinv]|split; [exact Hna|exact Hsi]]|exact HC].
    - destruct act; [destruct Ho|]. eapply grow_observe; eauto.
    - destruct m; [|destruct Ho]. eapply grow_bind; eauto.
  Qed.

  Fixpoint grow_run_ok (fuel : nat) (w : world) (ops : list op) : Prop :=
    match ops with
    | [] => True
    | o :: r => grow_op w o /\ snd (step1 fn rtl fuel w o) = None /\ grow_run_ok fuel (step fn rtl fuel w o) r
    end.

  Lemma SC_log e w : SC w -> SC (log e w).
  Proof. intros (Hinv & Hna & Hsi). split; [eapply pinv_views; [apply views_log|exact Hinv]|split; [exact Hna|exact Hsi]]. Qed.

  (* C02 for growing networks: in every world reached, every immediately bound property equals its expression *)
  Theorem grow_coherent fuel : forall ops w, SC w -> COH w -> grow_run_ok fuel w ops ->
    SC (fold_left (step fn rtl fuel) ops w) /\ COH (fold_left (step fn rtl fuel) ops w).
  Proof.
    induction ops as [|o r IH]; intros w HSC HC Hok; cbn [fold_left]; [auto|]. destruct Hok as (Ho & Hn & Hr).
    unfold step in *. destruct (step1 fn rtl fuel w o) as [w1 e] eqn:E. cbn [snd] in Hn. subst e.
    destruct (grow_step fuel w o w1 HSC HC Ho E) as [SC1 COH1].
    apply IH; [apply SC_log; exact SC1|exact COH1|exact Hr].
  Qed.

  Theorem grow_reachable_consistent fuel ops q x pr z :
    grow_run_ok fuel world0 ops ->
    let w := run fn rtl fuel ops in
    imm_of w q = Some x -> lookup (w_props w) q = Some pr ->
    PropCheck.den_node fn (values w) (b_root x) = Some z -> pr_value pr = z.
  Proof.
    intros Hok w Hi Hq Hd. destruct (grow_coherent fuel ops world0 SC_world0 COH_world0 Hok) as [HSC HC].
    eapply (coherent_bound_equals_expression fn); eauto.
  Qed.
End Grow.
