(* Invariants of the generational index array (GenIdx.v):
   - wf: allocator and value slots agree; the free list is exactly the dead positions;
   - the array behaves as a finite map keyed by generational ids (get/insert/erase/update laws);
   - freshness: as long as fewer than 2^gen_bits ids were issued, a newly issued id differs from every id
     issued before, and an id that went stale stays stale for ever. *)
From KDB Require Import Util UtilProofs GenIdx.
From KDB.generated Require Import GenWidth.

Lemma W_gt1 : (1 < W)%N.
Proof. reflexivity. Qed.
Global Opaque W.

Lemma gidx_eqb_eq a b : gidx_eqb a b = true <-> a = b.
Proof.
  unfold gidx_eqb. rewrite andb_true_iff, Nat.eqb_eq, N.eqb_eq.
  destruct a, b; simpl; split; [intros [-> ->]; reflexivity|intros H; inversion H; auto].
Qed.
Lemma gidx_eqb_refl a : gidx_eqb a a = true.
Proof. apply gidx_eqb_eq; reflexivity. Qed.
Lemma gidx_eqb_neq a b : gidx_eqb a b = false <-> a <> b.
Proof.
  split.
  - intros H E. apply gidx_eqb_eq in E. congruence.
  - intros H. destruct (gidx_eqb a b) eqn:E; [apply gidx_eqb_eq in E; contradiction|reflexivity].
Qed.
Lemma gidx_eta k : {| gi_index := gi_index k; gi_gen := gi_gen k |} = k.
Proof. destruct k; reflexivity. Qed.

(* ---------------------------------------------------------------------------------------------- *)
(* allocator *)

Definition wf_alloc (al : galloc) : Prop :=
  NoDup (ga_free al) /\
  (forall i, In i (ga_free al) <-> exists e, nth_error (ga_entries al) i = Some e /\ ae_live e = false).

Lemma wf_alloc_empty : wf_alloc ga_empty.
Proof.
  split; [constructor|]. intros i; simpl; split; [contradiction|].
  intros (e & He & _). destruct i; discriminate.
Qed.

Lemma isLive_spec al k :
  ga_isLive al k = true <->
  exists e, nth_error (ga_entries al) (gi_index k) = Some e /\ ae_gen e = gi_gen k /\ ae_live e = true.
Proof.
  unfold ga_isLive. destruct (nth_error (ga_entries al) (gi_index k)) as [e|].
  - rewrite andb_true_iff, N.eqb_eq. split.
    + intros [H1 H2]; exists e; auto.
    + intros (e' & He & H1 & H2); inversion He; subst; auto.
  - split; [discriminate|intros (e & He & _); discriminate].
Qed.

Lemma allocate_length al : let '(al', k) := ga_allocate al in
  length (ga_entries al') = if ga_free al then S (length (ga_entries al)) else length (ga_entries al).
Proof.
  unfold ga_allocate. destruct (ga_free al) as [|i f]; simpl.
  - rewrite app_length; simpl; lia.
  - apply upd_length.
Qed.

Lemma wf_alloc_allocate al al' k :
  wf_alloc al -> ga_allocate al = (al', k) ->
  wf_alloc al' /\ gi_index k < length (ga_entries al') /\
  nth_error (ga_entries al') (gi_index k) = Some {| ae_live := true; ae_gen := gi_gen k |} /\
  (forall j, j <> gi_index k -> nth_error (ga_entries al') j = nth_error (ga_entries al) j) /\
  ga_isLive al k = false /\
  (match nth_error (ga_entries al) (gi_index k) with
   | Some e => ae_live e = false /\ gi_gen k = ((ae_gen e + 1) mod W)%N /\ length (ga_entries al') = length (ga_entries al)
   | None => gi_gen k = 0%N /\ gi_index k = length (ga_entries al) /\ length (ga_entries al') = S (length (ga_entries al))
   end).
Proof.
  intros [Hnd Hfree] Hal. unfold ga_allocate in Hal.
  destruct (ga_free al) as [|i f] eqn:Hf.
  - inversion Hal; subst al' k; clear Hal; cbn [gi_index gi_gen ga_entries ga_free].
    assert (Hnone : nth_error (ga_entries al) (length (ga_entries al)) = None)
      by (apply nth_error_None; lia).
    split; [|split; [|split; [|split; [|split]]]].
    + split; [constructor|]. intros j; cbn; split; [contradiction|].
      intros (e & He & Hd).
      destruct (Nat.lt_ge_cases j (length (ga_entries al))) as [Hlt|Hge].
      * rewrite nth_error_app1 in He by assumption.
        assert (Hc : In j []) by (apply Hfree; eauto). contradiction.
      * rewrite nth_error_app2 in He by assumption.
        destruct (j - length (ga_entries al)) as [|n]; cbn in He; [inversion He; subst; discriminate|destruct n; discriminate].
    + rewrite app_length; simpl; lia.
    + rewrite nth_error_app2 by lia. rewrite Nat.sub_diag; reflexivity.
    + intros j Hj.
      destruct (Nat.lt_ge_cases j (length (ga_entries al))) as [Hlt|Hge].
      * apply nth_error_app1; assumption.
      * rewrite nth_error_app2 by assumption.
        assert (nth_error (ga_entries al) j = None) as -> by (apply nth_error_None; lia).
        destruct (j - length (ga_entries al)) as [|n] eqn:E; [lia|]. destruct n; reflexivity.
    + unfold ga_isLive; cbn. rewrite Hnone; reflexivity.
    + rewrite Hnone. rewrite app_length; simpl. repeat split; lia.
  - assert (Hi : In i (i :: f)) by (left; reflexivity).
    apply Hfree in Hi. destruct Hi as (e & He & Hdead).
    rewrite He in Hal. inversion Hal; subst al' k; clear Hal; cbn [gi_index gi_gen ga_entries ga_free].
    assert (Hilt : i < length (ga_entries al)) by (apply nth_error_Some; congruence).
    inversion Hnd as [|? ? Hnotin Hnd']; subst.
    split; [|split; [|split; [|split; [|split]]]].
    + split; [assumption|]. intros j. cbn [ga_entries ga_free]. split.
      * intros Hj. assert (Hj' : In j (i :: f)) by (right; assumption).
        apply Hfree in Hj'. destruct Hj' as (e' & He' & Hd').
        assert (i <> j) by (intros ->; contradiction).
        exists e'; split; [rewrite nth_upd_other by assumption; assumption|assumption].
      * intros (e' & He' & Hd').
        destruct (Nat.eq_dec i j) as [<-|Hne].
        -- rewrite nth_upd_same in He' by assumption. inversion He'; subst; discriminate.
        -- rewrite nth_upd_other in He' by assumption.
           assert (Hj : In j (i :: f)) by (apply Hfree; eauto).
           destruct Hj; [contradiction|assumption].
    + rewrite upd_length; assumption.
    + apply nth_upd_same; assumption.
    + intros j Hj. apply nth_upd_other; auto.
    + unfold ga_isLive; cbn. rewrite He. rewrite Hdead. apply andb_false_r.
    + rewrite He. rewrite upd_length. auto.
Qed.

Lemma wf_alloc_deallocate al k :
  wf_alloc al ->
  wf_alloc (fst (ga_deallocate al k)) /\
  snd (ga_deallocate al k) = ga_isLive al k /\
  length (ga_entries (fst (ga_deallocate al k))) = length (ga_entries al) /\
  (forall j, j <> gi_index k -> nth_error (ga_entries (fst (ga_deallocate al k))) j = nth_error (ga_entries al) j) /\
  (ga_isLive al k = true ->
     nth_error (ga_entries (fst (ga_deallocate al k))) (gi_index k) = Some {| ae_live := false; ae_gen := gi_gen k |}) /\
  (ga_isLive al k = false -> fst (ga_deallocate al k) = al).
Proof.
  intros [Hnd Hfree]. unfold ga_deallocate.
  destruct (ga_isLive al k) eqn:Hl.
  - apply isLive_spec in Hl. destruct Hl as (e & He & Hg & Hlive). rewrite He. cbn [fst snd ga_entries ga_free].
    assert (Hilt : gi_index k < length (ga_entries al)) by (apply nth_error_Some; congruence).
    assert (Hnotin : ~ In (gi_index k) (ga_free al)).
    { intros Hin. apply Hfree in Hin. destruct Hin as (e' & He' & Hd). rewrite He in He'; inversion He'; subst. congruence. }
    split; [|split; [|split; [|split; [|split]]]].
    + split; [constructor; assumption|]. intros j; cbn; split.
      * intros [<-|Hj].
        -- eexists; split; [apply nth_upd_same; assumption|reflexivity].
        -- assert (gi_index k <> j) by (intros <-; contradiction).
           apply Hfree in Hj. destruct Hj as (e' & He' & Hd').
           exists e'; split; [rewrite nth_upd_other by assumption; assumption|assumption].
      * intros (e' & He' & Hd').
        destruct (Nat.eq_dec (gi_index k) j) as [<-|Hne]; [left; reflexivity|right].
        rewrite nth_upd_other in He' by assumption. apply Hfree; eauto.
    + reflexivity.
    + apply upd_length.
    + intros j Hj. apply nth_upd_other; auto.
    + intros _. rewrite Hg. apply nth_upd_same; assumption.
    + discriminate.
  - cbn [fst snd]. repeat split; auto; try discriminate. apply Hfree. apply Hfree.
Qed.

(* ---------------------------------------------------------------------------------------------- *)
(* array *)

Definition wf {T} (a : garray T) : Prop :=
  wf_alloc (g_alloc a) /\
  length (g_slots a) = length (ga_entries (g_alloc a)) /\
  (forall i e, nth_error (ga_entries (g_alloc a)) i = Some e ->
     match nth_error (g_slots a) i with
     | Some (Some (g, _)) => ae_live e = true /\ g = ae_gen e
     | Some None => ae_live e = false
     | None => False
     end).

Lemma wf_empty {T} : wf (@g_empty T).
Proof.
  split; [apply wf_alloc_empty|]. split; [reflexivity|]. intros i e H. destruct i; discriminate.
Qed.

Lemma wf_slot_alloc {T} (a : garray T) i g v :
  wf a -> nth_error (g_slots a) i = Some (Some (g, v)) ->
  nth_error (ga_entries (g_alloc a)) i = Some {| ae_live := true; ae_gen := g |}.
Proof.
  intros (_ & Hlen & Hag) Hs.
  assert (Hi : i < length (ga_entries (g_alloc a))) by (rewrite <- Hlen; apply nth_error_Some; congruence).
  destruct (nth_error (ga_entries (g_alloc a)) i) as [e|] eqn:He; [|apply nth_error_None in He; lia].
  specialize (Hag _ _ He). rewrite Hs in Hag. destruct Hag as [Hl ->]. destruct e; simpl in *; subst; reflexivity.
Qed.

Lemma get_slot {T} (a : garray T) k v :
  g_get a k = Some v <-> nth_error (g_slots a) (gi_index k) = Some (Some (gi_gen k, v)).
Proof.
  unfold g_get. destruct (nth_error (g_slots a) (gi_index k)) as [[[g v']|]|]; try (split; discriminate).
  destruct (N.eqb_spec g (gi_gen k)) as [->|Hne]; split; intros H; inversion H; subst; auto; congruence.
Qed.

Lemma get_isLive {T} (a : garray T) k v : wf a -> g_get a k = Some v -> ga_isLive (g_alloc a) k = true.
Proof.
  intros Hwf Hg. apply get_slot in Hg. apply (wf_slot_alloc _ _ _ _ Hwf) in Hg.
  apply isLive_spec. eexists; split; [eassumption|]. auto.
Qed.

Lemma isLive_get {T} (a : garray T) k : wf a -> ga_isLive (g_alloc a) k = true -> exists v, g_get a k = Some v.
Proof.
  intros (_ & Hlen & Hag) Hl. apply isLive_spec in Hl. destruct Hl as (e & He & Hg & Hlive).
  specialize (Hag _ _ He).
  destruct (nth_error (g_slots a) (gi_index k)) as [[[g v]|]|] eqn:Hs; try contradiction; [|congruence].
  destruct Hag as [_ ->]. exists v. apply get_slot. rewrite Hs, Hg. reflexivity.
Qed.

Lemma indexAt_slot {T} (a : garray T) i k :
  wf a ->
  (g_indexAt a i = Some k <-> exists v, nth_error (g_slots a) i = Some (Some (gi_gen k, v)) /\ gi_index k = i).
Proof.
  intros Hwf. unfold g_indexAt.
  destruct (nth_error (g_slots a) i) as [[[g v]|]|] eqn:Hs.
  - assert (Hl : ga_isLive (g_alloc a) {| gi_index := i; gi_gen := g |} = true).
    { apply isLive_spec. cbn. eexists; split; [apply (wf_slot_alloc _ _ _ _ Hwf Hs)|auto]. }
    rewrite Hl. split.
    + intros H; inversion H; subst; cbn. eauto.
    + intros (v' & H & Hi). inversion H; subst. rewrite gidx_eta. reflexivity.
  - split; [discriminate|intros (v & H & _); discriminate].
  - split; [discriminate|intros (v & H & _); discriminate].
Qed.

Lemma indexAt_get {T} (a : garray T) i k :
  wf a -> g_indexAt a i = Some k -> gi_index k = i /\ exists v, g_get a k = Some v.
Proof.
  intros Hwf H. apply (indexAt_slot _ _ _ Hwf) in H. destruct H as (v & Hs & Hi).
  split; [assumption|]. exists v. apply get_slot. rewrite Hi; assumption.
Qed.

Lemma get_indexAt {T} (a : garray T) k v :
  wf a -> g_get a k = Some v -> g_indexAt a (gi_index k) = Some k.
Proof.
  intros Hwf H. apply (indexAt_slot _ _ _ Hwf). exists v. split; [apply get_slot; assumption|reflexivity].
Qed.

(* --- set / insert --- *)
Lemma insert_spec {T} (a : garray T) v a' k :
  wf a -> g_insert a v = (a', k) ->
  wf a' /\
  g_get a k = None /\ ga_isLive (g_alloc a) k = false /\
  (forall k', g_get a' k' = if gidx_eqb k k' then Some v else g_get a k') /\
  g_size a' = (if ga_free (g_alloc a) then S (g_size a) else g_size a) /\
  gi_index k < g_size a' /\
  (forall j, j <> gi_index k -> nth_error (g_slots a') j = nth_error (g_slots a) j \/
                                (nth_error (g_slots a') j = Some None /\ nth_error (g_slots a) j = None)) /\
  nth_error (g_slots a') (gi_index k) = Some (Some (gi_gen k, v)) /\
  g_alloc a' = fst (ga_allocate (g_alloc a)).
Proof.
  intros Hwf Hins. unfold g_insert in Hins.
  destruct (ga_allocate (g_alloc a)) as [al k0] eqn:Hal. inversion Hins; subst a' k; clear Hins.
  destruct Hwf as (Hwa & Hlen & Hag).
  destruct (wf_alloc_allocate _ _ _ Hwa Hal) as (Hwa' & Hklt & Hknew & Hother & Hnl & Hcase).
  unfold g_set; cbn [g_slots g_alloc].
  set (i := gi_index k0) in *.
  assert (Hlen' : length (upd (pad (g_slots a) (S i)) i (Some (gi_gen k0, v))) = length (ga_entries al)).
  { rewrite upd_length, pad_length, Hlen.
    destruct (nth_error (ga_entries (g_alloc a)) i) as [e|] eqn:He.
    - destruct Hcase as (_ & _ & ->). assert (i < length (ga_entries (g_alloc a))) by (apply nth_error_Some; congruence). lia.
    - destruct Hcase as (_ & Hi & ->). lia. }
  assert (Hipad : i < length (pad (g_slots a) (S i))) by (rewrite pad_length; lia).
  assert (Hslot_old : nth_error (g_slots a) i = Some None \/ nth_error (g_slots a) i = None).
  { destruct (nth_error (ga_entries (g_alloc a)) i) as [e|] eqn:He.
    - destruct Hcase as (Hd & _ & _). specialize (Hag _ _ He).
      destruct (nth_error (g_slots a) i) as [[[g v']|]|]; try contradiction; auto.
      destruct Hag; congruence.
    - right. apply nth_error_None. rewrite Hlen. apply nth_error_None; assumption. }
  split; [|split; [|split; [|split; [|split; [|split; [|split; [|split]]]]]]].
  - split; [assumption|]. split; [assumption|].
    intros j e He. cbn [g_slots g_alloc] in *.
    destruct (Nat.eq_dec i j) as [<-|Hne].
    + rewrite nth_upd_same by assumption. rewrite Hknew in He. inversion He; subst; cbn; auto.
    + rewrite nth_upd_other by assumption.
      rewrite Hother in He by auto.
      assert (Hj : j < length (g_slots a)) by (rewrite Hlen; apply nth_error_Some; congruence).
      rewrite pad_nth_old by assumption. apply Hag; assumption.
  - unfold g_get. fold i. destruct Hslot_old as [-> | ->]; reflexivity.
  - assumption.
  - intros k'. unfold g_get at 1; cbn [g_slots].
    destruct (gidx_eqb k0 k') eqn:E.
    + apply gidx_eqb_eq in E; subst k'. fold i. rewrite nth_upd_same by assumption.
      rewrite N.eqb_refl; reflexivity.
    + apply gidx_eqb_neq in E.
      destruct (Nat.eq_dec i (gi_index k')) as [Hi|Hne].
      * rewrite <- Hi. rewrite nth_upd_same by assumption.
        destruct (N.eqb_spec (gi_gen k0) (gi_gen k')) as [Hg|Hg].
        -- exfalso; apply E. destruct k0, k'; cbn in *; subst; reflexivity.
        -- unfold g_get. rewrite <- Hi. destruct Hslot_old as [-> | ->]; reflexivity.
      * rewrite nth_upd_other by assumption. unfold g_get.
        destruct (Nat.lt_ge_cases (gi_index k') (length (g_slots a))) as [Hlt|Hge].
        -- rewrite pad_nth_old by assumption. reflexivity.
        -- assert (nth_error (g_slots a) (gi_index k') = None) as -> by (apply nth_error_None; assumption).
           destruct (Nat.lt_ge_cases (gi_index k') (S i)) as [Hlt2|Hge2].
           ++ rewrite pad_nth_new by assumption. reflexivity.
           ++ assert (nth_error (pad (g_slots a) (S i)) (gi_index k') = None) as ->
                by (apply nth_error_None; rewrite pad_length; lia). reflexivity.
  - unfold g_size; cbn [g_slots]. rewrite Hlen'. unfold ga_allocate in Hal.
    destruct (ga_free (g_alloc a)) as [|x f]; inversion Hal; subst; cbn [ga_entries].
    + rewrite app_length, Hlen; simpl; lia.
    + rewrite upd_length, Hlen; reflexivity.
  - unfold g_size; cbn [g_slots]. rewrite upd_length. assumption.
  - intros j Hj. cbn [g_slots]. rewrite nth_upd_other by auto.
    destruct (Nat.lt_ge_cases j (length (g_slots a))) as [Hlt|Hge].
    + left. apply pad_nth_old; assumption.
    + assert (Hn : nth_error (g_slots a) j = None) by (apply nth_error_None; assumption).
      destruct (Nat.lt_ge_cases j (S i)) as [Hlt2|Hge2].
      * right. split; [apply pad_nth_new; assumption|assumption].
      * left. rewrite Hn. apply nth_error_None. rewrite pad_length. lia.
  - cbn [g_slots]. apply nth_upd_same; assumption.
  - reflexivity.
Qed.

(* --- erase --- *)
Lemma erase_spec {T} (a : garray T) k :
  wf a ->
  wf (g_erase a k) /\
  (forall k', g_get (g_erase a k) k' = if gidx_eqb k k' then None else g_get a k') /\
  g_size (g_erase a k) = g_size a /\
  (g_get a k = None -> g_erase a k = a) /\
  (forall j, j <> gi_index k -> nth_error (g_slots (g_erase a k)) j = nth_error (g_slots a) j) /\
  (g_get a k <> None -> nth_error (g_slots (g_erase a k)) (gi_index k) = Some None).
Proof.
  intros Hwf. pose proof Hwf as (Hwa & Hlen & Hag).
  destruct (wf_alloc_deallocate _ k Hwa) as (Hwa' & Hok & Hlen' & Hother & Hdead & Hsame).
  unfold g_erase. destruct (ga_deallocate (g_alloc a) k) as [al okb] eqn:Hd. cbn [fst snd] in *. subst okb.
  destruct (ga_isLive (g_alloc a) k) eqn:Hl.
  - destruct (isLive_get _ _ Hwf Hl) as (v & Hv).
    assert (Hs : nth_error (g_slots a) (gi_index k) = Some (Some (gi_gen k, v))) by (apply get_slot; assumption).
    assert (Hilt : gi_index k < length (g_slots a)) by (apply nth_error_Some; congruence).
    split; [|split; [|split; [|split; [|split]]]].
    + split; [assumption|]. cbn [g_slots g_alloc]. split; [rewrite upd_length; congruence|].
      intros j e He.
      destruct (Nat.eq_dec (gi_index k) j) as [<-|Hne].
      * rewrite nth_upd_same by assumption. rewrite (Hdead eq_refl) in He. inversion He; reflexivity.
      * rewrite nth_upd_other by assumption. rewrite Hother in He by auto. apply Hag; assumption.
    + intros k'. unfold g_get at 1; cbn [g_slots].
      destruct (gidx_eqb k k') eqn:E.
      * apply gidx_eqb_eq in E; subst k'. rewrite nth_upd_same by assumption. reflexivity.
      * apply gidx_eqb_neq in E.
        destruct (Nat.eq_dec (gi_index k) (gi_index k')) as [Hi|Hne].
        -- rewrite <- Hi. rewrite nth_upd_same by assumption.
           unfold g_get. rewrite <- Hi, Hs.
           destruct (N.eqb_spec (gi_gen k) (gi_gen k')) as [Hg|Hg]; [|reflexivity].
           exfalso; apply E. destruct k, k'; cbn in *; subst; reflexivity.
        -- rewrite nth_upd_other by assumption. reflexivity.
    + unfold g_size; cbn [g_slots]. apply upd_length.
    + intros Hn; congruence.
    + intros j Hj. cbn [g_slots]. apply nth_upd_other; auto.
    + intros _. cbn [g_slots]. apply nth_upd_same; assumption.
  - assert (Hnone : g_get a k = None).
    { destruct (g_get a k) eqn:Hg; [|reflexivity]. apply (get_isLive _ _ _ Hwf) in Hg. congruence. }
    split; [assumption|]. split; [|split; [reflexivity|split; [reflexivity|split; [reflexivity|]]]].
    + intros k'. destruct (gidx_eqb k k') eqn:E; [|reflexivity].
      apply gidx_eqb_eq in E; subst; assumption.
    + intros Hx; contradiction.
Qed.

(* --- update (write through the pointer returned by get) --- *)
Lemma update_spec {T} (a : garray T) k v :
  wf a ->
  wf (g_update a k v) /\
  (forall k', g_get (g_update a k v) k' =
              if gidx_eqb k k' then (match g_get a k with Some _ => Some v | None => None end) else g_get a k') /\
  g_size (g_update a k v) = g_size a /\
  g_alloc (g_update a k v) = g_alloc a /\
  (forall j, j <> gi_index k -> nth_error (g_slots (g_update a k v)) j = nth_error (g_slots a) j) /\
  (g_get a k <> None -> nth_error (g_slots (g_update a k v)) (gi_index k) = Some (Some (gi_gen k, v))).
Proof.
  intros Hwf. pose proof Hwf as (Hwa & Hlen & Hag). unfold g_update.
  destruct (g_get a k) as [v0|] eqn:Hg.
  - assert (Hs : nth_error (g_slots a) (gi_index k) = Some (Some (gi_gen k, v0))) by (apply get_slot; assumption).
    assert (Hilt : gi_index k < length (g_slots a)) by (apply nth_error_Some; congruence).
    split; [|split; [|split; [|split; [|split]]]].
    + split; [assumption|]. cbn [g_slots g_alloc]. split; [rewrite upd_length; assumption|].
      intros j e He. specialize (Hag _ _ He).
      destruct (Nat.eq_dec (gi_index k) j) as [<-|Hne].
      * rewrite nth_upd_same by assumption. rewrite Hs in Hag. assumption.
      * rewrite nth_upd_other by assumption. assumption.
    + intros k'. unfold g_get at 1; cbn [g_slots].
      destruct (gidx_eqb k k') eqn:E.
      * apply gidx_eqb_eq in E; subst k'. rewrite nth_upd_same by assumption. rewrite N.eqb_refl; reflexivity.
      * apply gidx_eqb_neq in E.
        destruct (Nat.eq_dec (gi_index k) (gi_index k')) as [Hi|Hne].
        -- rewrite <- Hi. rewrite nth_upd_same by assumption. unfold g_get. rewrite <- Hi, Hs.
           destruct (N.eqb_spec (gi_gen k) (gi_gen k')) as [Hgg|Hgg]; [|reflexivity].
           exfalso; apply E. destruct k, k'; cbn in *; subst; reflexivity.
        -- rewrite nth_upd_other by assumption. reflexivity.
    + unfold g_size; cbn [g_slots]. apply upd_length.
    + reflexivity.
    + intros j Hj. cbn [g_slots]. apply nth_upd_other; auto.
    + intros _. cbn [g_slots]. apply nth_upd_same; assumption.
  - split; [assumption|]. split; [|split; [reflexivity|split; [reflexivity|split; [reflexivity|]]]].
    + intros k'. destruct (gidx_eqb k k') eqn:E; [|reflexivity]. apply gidx_eqb_eq in E; subst; assumption.
    + intros Hx; contradiction.
Qed.

(* ---------------------------------------------------------------------------------------------- *)
(* the live contents, in entry order, as a function of the value slots only *)

Definition slot_entries {T} (sl : list (option (N * T))) (idxs : list nat) : list (gidx * T) :=
  flat_map (fun i => match nth_error sl i with
                     | Some (Some (g, v)) => [({| gi_index := i; gi_gen := g |}, v)]
                     | _ => [] end) idxs.

Lemma live_slots {T} (a : garray T) : wf a -> g_live a = slot_entries (g_slots a) (seq 0 (g_size a)).
Proof.
  intros Hwf. unfold g_live, slot_entries. apply flat_map_ext. intros i.
  destruct (nth_error (g_slots a) i) as [[[g v]|]|] eqn:Hs.
  - assert (Hi : g_indexAt a i = Some {| gi_index := i; gi_gen := g |}).
    { apply (indexAt_slot _ _ _ Hwf). exists v; cbn; auto. }
    rewrite Hi. assert (Hg : g_get a {| gi_index := i; gi_gen := g |} = Some v) by (apply get_slot; cbn; assumption).
    rewrite Hg. reflexivity.
  - unfold g_indexAt; rewrite Hs; reflexivity.
  - unfold g_indexAt; rewrite Hs; reflexivity.
Qed.

Lemma In_slot_entries {T} (sl : list (option (N * T))) idxs k v :
  In (k, v) (slot_entries sl idxs) <-> In (gi_index k) idxs /\ nth_error sl (gi_index k) = Some (Some (gi_gen k, v)).
Proof.
  unfold slot_entries. rewrite in_flat_map. split.
  - intros (i & Hi & Hin). destruct (nth_error sl i) as [[[g v']|]|] eqn:Hs; try contradiction.
    destruct Hin as [H|[]]. inversion H; subst; cbn. auto.
  - intros (Hi & Hs). exists (gi_index k). split; [assumption|]. rewrite Hs. left. rewrite gidx_eta; reflexivity.
Qed.

Lemma In_live {T} (a : garray T) k v : wf a -> (In (k, v) (g_live a) <-> g_get a k = Some v).
Proof.
  intros Hwf. rewrite (live_slots _ Hwf), In_slot_entries, get_slot. split.
  - intros [_ H]; assumption.
  - intros H; split; [|assumption]. apply in_seq. split; [lia|]. simpl.
    unfold g_size. apply nth_error_Some. congruence.
Qed.

Lemma slot_entries_keys_index {T} (sl : list (option (N * T))) idxs :
  map (fun p => gi_index (fst p)) (slot_entries sl idxs) =
  filter (fun i => match nth_error sl i with Some (Some _) => true | _ => false end) idxs.
Proof.
  induction idxs as [|i r IH]; simpl; [reflexivity|].
  rewrite map_app, IH. destruct (nth_error sl i) as [[[g v]|]|]; reflexivity.
Qed.

Lemma NoDup_live_keys {T} (a : garray T) : wf a -> NoDup (map fst (g_live a)).
Proof.
  intros Hwf. rewrite (live_slots _ Hwf).
  assert (H : NoDup (map (fun p : gidx * T => gi_index (fst p)) (slot_entries (g_slots a) (seq 0 (g_size a))))).
  { rewrite slot_entries_keys_index. apply NoDup_filter. apply seq_NoDup. }
  revert H. generalize (slot_entries (g_slots a) (seq 0 (g_size a))). intros l.
  induction l as [|[k v] t IH]; simpl; intros H; [constructor|].
  inversion H as [|? ? Hn Ht]; subst. constructor; [|apply IH; assumption].
  intros Hin. apply Hn. apply in_map_iff in Hin. destruct Hin as ([k' v'] & E & Hin); simpl in E; subst k'.
  apply in_map_iff. exists (k, v'); auto.
Qed.

(* ---------------------------------------------------------------------------------------------- *)
(* freshness: ids issued so far (ghost history, newest first) *)

Definition fresh_inv (al : galloc) (iss : list gidx) : Prop :=
  NoDup iss /\
  (forall k, In k iss -> exists e, nth_error (ga_entries al) (gi_index k) = Some e /\ (gi_gen k <= ae_gen e)%N) /\
  (forall i e, nth_error (ga_entries al) i = Some e -> (ae_gen e <= N.of_nat (length iss))%N) /\
  (forall i e, nth_error (ga_entries al) i = Some e -> ae_live e = true -> In {| gi_index := i; gi_gen := ae_gen e |} iss).

Lemma fresh_inv_empty : fresh_inv ga_empty [].
Proof.
  repeat split; try constructor; try contradiction; intros i e H; destruct i; discriminate.
Qed.

Lemma fresh_inv_allocate al iss al' k :
  wf_alloc al -> fresh_inv al iss -> (N.of_nat (length iss) + 1 < W)%N ->
  ga_allocate al = (al', k) ->
  fresh_inv al' (k :: iss) /\ ~ In k iss.
Proof.
  intros Hwa (Hnd & Hiss & Hbound & Hlive) Hw Hal.
  destruct (wf_alloc_allocate _ _ _ Hwa Hal) as (Hwa' & Hklt & Hknew & Hother & Hnl & Hcase).
  assert (Hfresh : ~ In k iss).
  { intros Hin. destruct (Hiss _ Hin) as (e & He & Hle). rewrite He in Hcase.
    destruct Hcase as (_ & Hg & _). specialize (Hbound _ _ He).
    rewrite N.mod_small in Hg by lia. lia. }
  split; [|assumption].
  split; [constructor; assumption|]. split; [|split].
  - intros k' [<-|Hin].
    + eexists; split; [eassumption|]. cbn; lia.
    + destruct (Hiss _ Hin) as (e & He & Hle).
      destruct (Nat.eq_dec (gi_index k') (gi_index k)) as [Hi|Hne].
      * rewrite Hi in He. rewrite He in Hcase. destruct Hcase as (_ & Hg & _).
        specialize (Hbound _ _ He). rewrite N.mod_small in Hg by lia.
        eexists; split; [rewrite Hi; eassumption|]. cbn. lia.
      * exists e; split; [rewrite Hother by assumption; assumption|assumption].
  - intros i e He. cbn [length]. rewrite Nat2N.inj_succ.
    destruct (Nat.eq_dec i (gi_index k)) as [->|Hne].
    + rewrite Hknew in He. inversion He; subst; cbn.
      destruct (nth_error (ga_entries al) (gi_index k)) as [e0|] eqn:He0.
      * destruct Hcase as (_ & Hg & _). specialize (Hbound _ _ He0). rewrite N.mod_small in Hg by lia. lia.
      * destruct Hcase as (Hg & _). lia.
    + rewrite Hother in He by assumption. specialize (Hbound _ _ He). lia.
  - intros i e He Hl.
    destruct (Nat.eq_dec i (gi_index k)) as [->|Hne].
    + rewrite Hknew in He. inversion He; subst; cbn. left. symmetry; apply gidx_eta.
    + rewrite Hother in He by assumption. right. eapply Hlive; eassumption.
Qed.

Lemma fresh_inv_deallocate al iss k :
  wf_alloc al -> fresh_inv al iss -> fresh_inv (fst (ga_deallocate al k)) iss.
Proof.
  intros Hwa (Hnd & Hiss & Hbound & Hlive).
  destruct (wf_alloc_deallocate _ k Hwa) as (_ & _ & _ & Hother & Hdead & Hsame).
  destruct (ga_isLive al k) eqn:Hl.
  - specialize (Hdead eq_refl). apply isLive_spec in Hl. destruct Hl as (e0 & He0 & Hg0 & Hl0).
    split; [assumption|]. split; [|split].
    + intros k' Hin. destruct (Hiss _ Hin) as (e & He & Hle).
      destruct (Nat.eq_dec (gi_index k') (gi_index k)) as [Hi|Hne].
      * rewrite Hi in He. rewrite He0 in He; inversion He; subst e.
        eexists; split; [rewrite Hi; eassumption|]. cbn. lia.
      * exists e; split; [rewrite Hother by assumption; assumption|assumption].
    + intros i e He.
      destruct (Nat.eq_dec i (gi_index k)) as [->|Hne].
      * rewrite Hdead in He; inversion He; subst; cbn. specialize (Hbound _ _ He0). lia.
      * rewrite Hother in He by assumption. eapply Hbound; eassumption.
    + intros i e He Hlv.
      destruct (Nat.eq_dec i (gi_index k)) as [->|Hne].
      * rewrite Hdead in He; inversion He; subst; discriminate.
      * rewrite Hother in He by assumption. eapply Hlive; eassumption.
  - rewrite (Hsame eq_refl). repeat split; assumption.
Qed.

(* an id that was issued and is no longer live: its position carries a later generation, or the same one, dead *)
Definition stale (al : galloc) (k : gidx) : Prop :=
  exists e, nth_error (ga_entries al) (gi_index k) = Some e /\
            ((gi_gen k < ae_gen e)%N \/ (gi_gen k = ae_gen e /\ ae_live e = false)).

Lemma stale_not_live al k : stale al k -> ga_isLive al k = false.
Proof.
  intros (e & He & H). unfold ga_isLive. rewrite He.
  destruct H as [H|[H1 H2]].
  - destruct (N.eqb_spec (ae_gen e) (gi_gen k)); [lia|reflexivity].
  - rewrite H2. apply andb_false_r.
Qed.

Lemma issued_live_or_stale al iss k : fresh_inv al iss -> In k iss -> ga_isLive al k = true \/ stale al k.
Proof.
  intros (_ & Hiss & _) Hin. destruct (Hiss _ Hin) as (e & He & Hle).
  destruct (N.eq_dec (gi_gen k) (ae_gen e)) as [Hg|Hg].
  - destruct (ae_live e) eqn:Hl.
    + left. apply isLive_spec. exists e; auto.
    + right. exists e; auto.
  - right. exists e; split; [assumption|]. left; lia.
Qed.

Lemma stale_allocate al iss al' k0 k :
  wf_alloc al -> fresh_inv al iss -> (N.of_nat (length iss) + 1 < W)%N ->
  ga_allocate al = (al', k0) -> stale al k -> stale al' k.
Proof.
  intros Hwa (Hnd & Hiss & Hbound & Hlive) Hw Hal (e & He & Hst).
  destruct (wf_alloc_allocate _ _ _ Hwa Hal) as (_ & _ & Hknew & Hother & _ & Hcase).
  destruct (Nat.eq_dec (gi_index k) (gi_index k0)) as [Hi|Hne].
  - rewrite Hi in He. rewrite He in Hcase. destruct Hcase as (_ & Hg & _).
    specialize (Hbound _ _ He). rewrite N.mod_small in Hg by lia.
    eexists; split; [rewrite Hi; eassumption|]. cbn. left. destruct Hst as [?|[? ?]]; lia.
  - exists e; split; [rewrite Hother by assumption; assumption|assumption].
Qed.

Lemma stale_deallocate al k0 k : wf_alloc al -> stale al k -> stale (fst (ga_deallocate al k0)) k.
Proof.
  intros Hwa (e & He & Hst).
  destruct (wf_alloc_deallocate _ k0 Hwa) as (_ & _ & _ & Hother & Hdead & Hsame).
  destruct (ga_isLive al k0) eqn:Hl.
  - specialize (Hdead eq_refl). apply isLive_spec in Hl. destruct Hl as (e0 & He0 & Hg0 & Hl0).
    destruct (Nat.eq_dec (gi_index k) (gi_index k0)) as [Hi|Hne].
    + rewrite Hi in He. rewrite He0 in He; inversion He; subst e.
      eexists; split; [rewrite Hi; eassumption|]. cbn.
      destruct Hst as [H|[H1 H2]]; [left; lia|congruence].
    + exists e; split; [rewrite Hother by assumption; assumption|assumption].
  - rewrite (Hsame eq_refl). exists e; auto.
Qed.

Lemma stale_get_none {T} (a : garray T) k : wf a -> stale (g_alloc a) k -> g_get a k = None.
Proof.
  intros Hwf Hst. destruct (g_get a k) eqn:Hg; [|reflexivity].
  apply (get_isLive _ _ _ Hwf) in Hg. apply stale_not_live in Hst. congruence.
Qed.

(* ---------------------------------------------------------------------------------------------- *)
(* the bound in the freshness theorem is tight: 2^gen_bits recyclings of one position bring back an old id.
   Symbolic (no computation): cycles of erase-then-insert on a one-entry array. *)
Section Wrap.
  Context {T : Type}.

  Definition single (g : N) (v : T) : garray T :=
    {| g_slots := [Some (g, v)];
       g_alloc := {| ga_entries := [{| ae_live := true; ae_gen := g |}]; ga_free := [] |} |}.

  Definition key0 (g : N) : gidx := {| gi_index := 0; gi_gen := g |}.

  Lemma cycle_single g v v' :
    g_insert (g_erase (single g v) (key0 g)) v' = (single ((g + 1) mod W)%N v', key0 ((g + 1) mod W)%N).
  Proof.
    unfold g_erase, ga_deallocate, ga_isLive, single, key0; cbn.
    rewrite N.eqb_refl; cbn. reflexivity.
  Qed.

  (* n times: erase the current occupant, insert (vs n) *)
  Fixpoint cycles (n : nat) (vs : nat -> T) (st : garray T * gidx) : garray T * gidx :=
    match n with
    | O => st
    | S n' => let '(a, k) := cycles n' vs st in g_insert (g_erase a k) (vs n')
    end.

  Lemma cycles_single n vs v0 :
    (0 < n) ->
    cycles n vs (single 0 v0, key0 0) = (single (N.of_nat n mod W)%N (vs (n - 1)), key0 (N.of_nat n mod W)%N).
  Proof.
    pose proof W_gt1 as HW.
    induction n as [|n IH]; intros Hn; [lia|].
    cbn [cycles]. destruct n as [|n'].
    - cbn [cycles]. rewrite cycle_single. cbn. reflexivity.
    - rewrite IH by lia. rewrite cycle_single.
      replace (S (S n') - 1) with (S n') by lia. replace (S n' - 1) with n' by lia.
      rewrite N.add_mod_idemp_l by lia.
      replace (N.of_nat (S n') + 1)%N with (N.of_nat (S (S n'))) by lia. reflexivity.
  Qed.

  (* after exactly W recyclings the very first id designates the newest value *)
  Theorem wrap_aliases (v0 vnew : T) :
    let '(a, k) := cycles (N.to_nat W) (fun _ => vnew) (single 0 v0, key0 0) in
    k = key0 0 /\ g_get a (key0 0) = Some vnew.
  Proof.
    pose proof W_gt1 as HW.
    rewrite cycles_single by lia. rewrite N2Nat.id, N.mod_same by lia.
    split; [reflexivity|]. unfold g_get, single, key0; cbn. reflexivity.
  Qed.

  Lemma single_is_first_insert (v0 : T) : g_insert g_empty v0 = (single 0 v0, key0 0).
  Proof. reflexivity. Qed.
End Wrap.
