(* C17 - Thread confinement: objects used by different threads never interfere.
   PARTIAL: the theorem is about the model's footprint discipline; that the real code has no other hidden sharing is
   supported by the regenerated list of static-storage variables (the only state not reached from user-created objects)
   and by ThreadSanitizer runs of disjoint per-thread workloads covering the public API (harness/c17). *)
From KDB Require Import TablesDefs Tables.
From KDB.generated Require Import Statics.

(* every variable of static storage duration the headers declare is thread_local or immutable *)
Theorem C17_all_statics_confined : forallb static_confined statics = true.
Proof. vm_compute. reflexivity. Qed.
Print Assumptions C17_all_statics_confined.

(* under the footprint discipline, every interleaving gives each thread exactly the result of running its own calls
   alone: no interference, for any number of threads, any calls, any schedule *)
Theorem C17_confined :
  forall (S E : Type) (stp : E -> nat -> S -> S) env sched st t,
    crun S E stp env st sched t = fold_left (fun s c => stp env c s) (calls_of t sched) (st t).
Proof. exact confined_projection. Qed.
Print Assumptions C17_confined.

Theorem C17_schedule_independent :
  forall (S E : Type) (stp : E -> nat -> S -> S) env st s1 s2 t,
    calls_of t s1 = calls_of t s2 -> crun S E stp env st s1 t = crun S E stp env st s2 t.
Proof. exact schedule_independent. Qed.
Print Assumptions C17_schedule_independent.

(* non-vacuity: the immediate-mode registry is in the list, and it is thread_local (after fix cf65d21) *)
Example C17_registry_is_thread_local :
  existsb (fun s => String.eqb (sv_name s) "ImmediateBindingEvaluator::instance::evaluator" && sv_thread_local s) statics = true.
Proof. vm_compute. reflexivity. Qed.
