(* Theorems about one emission with arbitrary re-entrant slot bodies (C09, C01):
   at most one direct invocation per connection, the table keeps its occupancy during the walk,
   every disconnect requested during the emission has been carried out when emit returns. *)
From KDB Require Import Util UtilProofs GenIdx GenIdxProofs SigDefs SigInv.

(* ids of the connections of Impl i that were invoked directly (from Impl::emit) in a list of events *)
Definition dkeys (i : nat) (l : list event) : list gidx :=
  flat_map (fun ev => match ev with
                      | EvSlot (Some (j, k)) true _ _ => if Nat.eqb j i then [k] else []
                      | _ => [] end) l.

Lemma dkeys_app i l1 l2 : dkeys i (l1 ++ l2) = dkeys i l1 ++ dkeys i l2.
Proof. unfold dkeys. apply flat_map_app. Qed.

Lemma dkeys_none i l :
  (forall k lab args, ~ In (EvSlot (Some (i, k)) true lab args) l) -> dkeys i l = [].
Proof.
  induction l as [|ev t IH]; intros H; [reflexivity|]. cbn [dkeys flat_map].
  fold (dkeys i t). rewrite IH by (intros k lab args Hin; eapply H; right; exact Hin).
  destruct ev as [[[j k]|] [|] lab args| | |]; try reflexivity.
  destruct (Nat.eqb_spec j i) as [->|Hne]; [|reflexivity].
  exfalso. eapply H. left. reflexivity.
Qed.

Lemma emitting_in_wle (T : nat -> Prop) w w' i : wle_on all all T w w' -> emitting_in w i -> emitting_in w' i.
Proof.
  intros L (m & Hm & He). destruct (wle_impls _ _ _ _ _ L _ _ Hm) as (m' & Hm' & _ & K).
  destruct (K I) as (E & _). exists m'; split; [assumption|congruence].
Qed.

(* a contract-abiding step logs nothing on behalf of an Impl that is emitting *)
Lemma wle_no_events (T : nat -> Prop) w w' i :
  wle_on all all T w w' -> T i -> emitting_in w i ->
  exists l, w_trace w' = l ++ w_trace w /\ dkeys i l = [].
Proof.
  intros L Ht He. destruct (wle_trace _ _ _ _ _ L) as (l & Hl & Hc).
  exists l; split; [assumption|]. apply dkeys_none. intros k lab args Hin.
  exact (Hc _ _ _ _ Hin Ht I He).
Qed.

Section Emit.
  Variable R : world -> nat -> res.
  Hypothesis HR : good R.

  Lemma invoke_direct_once w i k label args sid :
    winv w -> emitting_in w i ->
    exists l, w_trace (fst (invoke_slot R w (Some (i, k)) true label args sid)) = l ++ w_trace w /\ dkeys i l = [k].
  Proof.
    intros Hw He. unfold invoke_slot.
    set (w1 := log (EvSlot (Some (i, k)) true label args) w).
    assert (Hw1 : winv w1) by (unfold w1; same_impls).
    assert (He1 : emitting_in w1 i) by exact He.
    destruct (HR w1 sid Hw1) as [_ L].
    destruct (wle_no_events _ _ _ i L I He1) as (l & Hl & Hk).
    exists (l ++ [EvSlot (Some (i, k)) true label args]). split.
    - rewrite Hl. unfold w1; cbn. rewrite <- app_assoc. reflexivity.
    - rewrite dkeys_app, Hk. cbn. rewrite Nat.eqb_refl. reflexivity.
  Qed.

  Lemma fire_once w i k c args :
    winv w -> emitting_in w i ->
    exists l, w_trace (fst (fire R w i k c args)) = l ++ w_trace w /\ (dkeys i l = [k] \/ dkeys i l = []).
  Proof.
    intros Hw He. unfold fire. destruct (c_kind c).
    - destruct (invoke_direct_once w i k (c_label c) (adapt (c_arity c) (c_bound c) args) (c_script c) Hw He) as (l & Hl & Hk).
      exists l; auto.
    - set (w1 := set_handles w (bind_key (w_handles w) selfvar {| h_impl := Some i; h_id := Some k |})).
      assert (Hw1 : winv w1) by (unfold w1; same_impls).
      destruct (invoke_direct_once w1 i k (c_label c) args (c_script c) Hw1 He) as (l & Hl & Hk).
      exists l; auto.
    - set (w1 := handle_disconnect w {| h_impl := Some i; h_id := Some k |}).
      destruct (handle_disconnect_ok w {| h_impl := Some i; h_id := Some k |} Hw) as [Hw1 L1]. fold w1 in Hw1, L1.
      pose proof (emitting_in_wle _ _ _ i L1 He) as He1.
      destruct (wle_no_events _ _ _ i L1 I He) as (l1 & Hl1 & Hk1).
      destruct (invoke_direct_once w1 i k (c_label c) args (c_script c) Hw1 He1) as (l & Hl & Hk).
      exists (l ++ l1). split; [rewrite Hl, Hl1, app_assoc; reflexivity|].
      rewrite dkeys_app, Hk, Hk1. left; reflexivity.
    - destruct (ev_alive w ev).
      + destruct (ev_enqueue_ok w ev {| h_impl := Some i; h_id := Some k |}
                    {| v_label := c_label c; v_args := args; v_script := c_script c |} Hw) as [_ L1].
        destruct (wle_no_events _ _ _ i L1 I He) as (l1 & Hl1 & Hk1).
        exists l1; cbn [fst ok]. auto.
      + exists []; cbn; auto.
  Qed.

  (* the walk: every position is visited at most once, each visit invokes at most the entry stored there *)
  Lemma walk_once i args : forall idxs w, winv w -> emitting_in w i -> NoDup idxs ->
    exists l, w_trace (fst (walk R w i args idxs)) = l ++ w_trace w /\
              NoDup (map gi_index (dkeys i l)) /\ (forall k, In k (dkeys i l) -> In (gi_index k) idxs).
  Proof.
    induction idxs as [|x r IH]; intros w Hw He Hnd; cbn [walk].
    - exists []; cbn. repeat split; [constructor|intros k []].
    - inversion Hnd as [|? ? Hx Hr]; subst.
      assert (Hskip : exists l, w_trace (fst (walk R w i args r)) = l ++ w_trace w /\
                                NoDup (map gi_index (dkeys i l)) /\ (forall k, In k (dkeys i l) -> In (gi_index k) (x :: r))).
      { destruct (IH w Hw He Hr) as (l & Hl & Hn & Hin). exists l; repeat split; auto. intros k Hk; right; auto. }
      destruct (get_impl w i) as [m|] eqn:Hm; [|exists []; cbn; repeat split; [constructor|intros k []]].
      pose proof (Hw _ _ Hm) as (Hwf & _).
      destruct (g_indexAt (i_conns m) x) as [k|] eqn:Hix; [|exact Hskip].
      destruct (indexAt_get _ _ _ Hwf Hix) as (Hkx & c0 & Hc0).
      destruct (g_get (i_conns m) k) as [c|]; [|exact Hskip].
      destruct (c_blocked c || c_tbd c); [exact Hskip|].
      destruct (fire_once w i k c args Hw He) as (l1 & Hl1 & Hk1).
      pose proof (fire_ok R HR w i k c args Hw) as [Hw' L'].
      destruct (fire R w i k c args) as [w' [e|]] eqn:Hf; cbn [fst] in *.
      + exists l1. split; [assumption|]. destruct Hk1 as [-> | ->]; cbn.
        * split; [constructor; [intros []|constructor]|]. intros k' [<-|[]]. left; symmetry; assumption.
        * split; [constructor|intros k' []].
      + pose proof (emitting_in_wle _ _ _ i L' He) as He'.
        destruct (IH w' Hw' He' Hr) as (l2 & Hl2 & Hn2 & Hin2).
        exists (l2 ++ l1). split; [rewrite Hl2, Hl1, app_assoc; reflexivity|].
        rewrite dkeys_app, map_app. destruct Hk1 as [-> | ->]; cbn.
        * split.
          -- apply NoDup_app_intro; [assumption|constructor; [intros []|constructor]|].
             intros y Hy [<-|[]]. apply in_map_iff in Hy. destruct Hy as (k2 & E & Hk2).
             apply Hin2 in Hk2. rewrite E, Hkx in Hk2. contradiction.
          -- intros k' Hk'. apply in_app_or in Hk'. destruct Hk' as [Hk'|[<-|[]]];
               [right; apply Hin2; assumption|left; symmetry; assumption].
        * rewrite app_nil_r. split; [assumption|]. intros k' Hk'. rewrite app_nil_r in Hk'. right; apply Hin2; assumption.
  Qed.
End Emit.

(* ---------------------------------------------------------------------------------------------- *)
(* disconnecting logs nothing *)
Lemma trace_ev_dequeue w e h : w_trace (ev_dequeue w e h) = w_trace w.
Proof.
  unfold ev_dequeue. destruct (lookup (w_evs w) e) as [s|]; [|reflexivity].
  destruct (negb (e_alive s)); [reflexivity|]. destruct (e_evaluating s); reflexivity.
Qed.

Lemma trace_impl_disconnect w i k : w_trace (impl_disconnect w i k) = w_trace w.
Proof.
  unfold impl_disconnect. destruct (get_impl w i) as [m|]; [|reflexivity].
  destruct (g_get (i_conns m) k) as [c|]; [|reflexivity].
  destruct (i_emitting m); [reflexivity|]. cbn [put_impl set_impls w_trace].
  destruct (c_kind c); try reflexivity. destruct (ev_alive w ev); [apply trace_ev_dequeue|reflexivity].
Qed.

Lemma trace_disconnect_where p idxs : forall w i, w_trace (disconnect_where p w i idxs) = w_trace w.
Proof.
  induction idxs as [|x r IH]; intros w i; cbn [disconnect_where]; [reflexivity|].
  rewrite IH. destruct (get_impl w i) as [m|]; [|reflexivity].
  destruct (g_indexAt (i_conns m) x) as [k|]; [|reflexivity].
  destruct (g_get (i_conns m) k) as [c|]; [|reflexivity].
  destruct (p c); [apply trace_impl_disconnect|reflexivity].
Qed.

Lemma trace_finish_emit w i n : w_trace (finish_emit w i n) = w_trace w.
Proof.
  unfold finish_emit. destruct (get_impl w i) as [m|]; [|reflexivity].
  set (w1 := put_impl w i (impl_with_flags m false (i_dde m))).
  set (w2 := if i_dde m then disconnect_where c_tbd w1 i (seq 0 n) else w1).
  assert (H2 : w_trace w2 = w_trace w).
  { unfold w2. destruct (i_dde m); [rewrite trace_disconnect_where|]; reflexivity. }
  destruct (get_impl w2 i); [cbn; exact H2|exact H2].
Qed.

Section EmitTop.
  Variable R : world -> nat -> res.
  Hypothesis HR : good R.

  (* C09: in one emission every connection of the emitting signal is invoked at most once *)
  Theorem emit_at_most_once w s args i :
    winv w -> lookup (w_sigs w) s = Some (Some i) ->
    exists l, w_trace (fst (sig_emit R w s args)) = l ++ w_trace w /\ NoDup (dkeys i l).
  Proof.
    intros Hw Hs. unfold sig_emit. rewrite Hs.
    destruct (get_impl w i) as [m|] eqn:Hm; [|exists []; cbn; split; [reflexivity|constructor]].
    destruct (i_emitting m) eqn:Hem; [exists []; cbn; split; [reflexivity|constructor]|].
    set (m1 := impl_with_owner (impl_with_flags m true (i_dde m)) (i_owned m) true).
    set (w1 := put_impl w i m1).
    assert (Hw1 : winv w1) by (apply winv_put; [assumption|apply impl_ok_emit_start; eapply Hw; eassumption]).
    assert (He1 : emitting_in w1 i).
    { exists m1; split; [eapply get_put_same; eassumption|reflexivity]. }
    destruct (walk_once R HR i args (seq 0 (g_size (i_conns m))) w1 Hw1 He1 (seq_NoDup _ _)) as (l & Hl & Hn & _).
    destruct (walk R w1 i args (seq 0 (g_size (i_conns m)))) as [w2 e]. cbn [fst] in *.
    exists l. split; [rewrite trace_finish_emit; exact Hl|]. eapply NoDup_map_inv; exact Hn.
  Qed.

  (* C09: while the walk runs, the table of the emitting Impl keeps its occupancy: no entry is erased, hence no
     callable that may be executing is destroyed; and the Impl itself stays alive *)
  Theorem emit_table_stable w i args idxs m :
    winv w -> get_impl w i = Some m -> i_emitting m = true ->
    exists m', get_impl (fst (walk R w i args idxs)) i = Some m' /\
               keys (i_conns m') = keys (i_conns m) /\ g_alloc (i_conns m') = g_alloc (i_conns m) /\ i_emitting m' = true.
  Proof.
    intros Hw Hm Hem. destruct (walk_ok R HR i args idxs w Hw) as [_ L].
    destruct (wle_impls _ _ _ _ _ L _ _ Hm) as (m' & Hm' & _ & K). destruct (K I) as (E & S & _).
    destruct (S Hem) as [Hk Ha]. exists m'; repeat split; auto. congruence.
  Qed.

  (* C09: when emit returns - normally or by a library exception - nothing is emitting and no entry of the Impl is
     still marked: every disconnection requested during the emission has been carried out *)
  Theorem emit_effects_complete w s args i m' k c :
    winv w -> lookup (w_sigs w) s = Some (Some i) ->
    (forall m, get_impl w i = Some m -> i_emitting m = false) ->
    get_impl (fst (sig_emit R w s args)) i = Some m' -> g_get (i_conns m') k = Some c ->
    c_tbd c = false /\ i_emitting m' = false.
  Proof.
    intros Hw Hs Hne Hm' Hc.
    pose proof (sig_emit_ok R HR w s args Hw) as [Hw' _].
    revert Hm' Hw'. unfold sig_emit. rewrite Hs.
    destruct (get_impl w i) as [m|] eqn:Hm.
    2:{ cbn. intros H; unfold get_impl in *; congruence. }
    rewrite (Hne _ eq_refl).
    set (w1 := put_impl w i (impl_with_owner (impl_with_flags m true (i_dde m)) (i_owned m) true)).
    assert (Hw1 : winv w1) by (apply winv_put; [assumption|apply impl_ok_emit_start; eapply Hw; eassumption]).
    pose proof (walk_ok R HR i args (seq 0 (g_size (i_conns m))) w1 Hw1) as [Hw2 L2].
    destruct (walk R w1 i args (seq 0 (g_size (i_conns m)))) as [w2 e]. cbn [fst] in *.
    assert (Hg1 : get_impl w1 i = Some (impl_with_owner (impl_with_flags m true (i_dde m)) (i_owned m) true)) by (eapply get_put_same; eassumption).
    destruct (wle_impls _ _ _ _ _ L2 _ _ Hg1) as (m2 & Hg2 & _ & _).
    destruct (finish_emit_flag w2 i (g_size (i_conns m)) m2 Hg2 Hw2) as (m3 & Hg3 & He3 & Hd3).
    intros Hm' Hw'. rewrite Hg3 in Hm'; inversion Hm'; subst m'.
    split; [|assumption]. destruct (c_tbd c) eqn:Ht; [|reflexivity].
    destruct (Hw' _ _ Hg3) as (_ & _ & Hmk & _). specialize (Hmk _ _ Hc Ht). congruence.
  Qed.
End EmitTop.

(* ---------------------------------------------------------------------------------------------- *)
(* C09, "exactly once if its connection stayed connected and unblocked throughout": ARBITRARY bodies that leave the entry (i, k)
   as it is ([keeps_conn]: whatever else they do - disconnect / block other connections of the same signal, emit other signals,
   run passes - the entry under k still holds the same connection when they return): an emission that returns normally has
   invoked k, and by emit_at_most_once not twice. *)
Section Kept.
  Variable R : world -> nat -> res.
  Hypothesis HR : good R.
  Variables (i : nat) (k : gidx) (c : conn).

  Definition has_conn (w : world) : Prop := exists m, get_impl w i = Some m /\ g_get (i_conns m) k = Some c.
  Definition keeps_conn : Prop := forall w sid, winv w -> has_conn w -> has_conn (fst (R w sid)).
  Hypothesis HK : keeps_conn.

  Lemma has_conn_same w w' : w_impls w' = w_impls w -> has_conn w -> has_conn w'.
  Proof. intros E (m & Hm & Hc). exists m. unfold get_impl in *. rewrite E. auto. Qed.

  Lemma has_conn_disconnect_other w k' : winv w -> k' <> k -> has_conn w -> has_conn (impl_disconnect w i k').
  Proof.
    intros Hw Hne (m & Hm & Hc). unfold impl_disconnect. rewrite Hm. pose proof (Hw _ _ Hm) as (Hwf & _).
    assert (Hb : gidx_eqb k' k = false) by (apply gidx_eqb_neq; exact Hne).
    destruct (g_get (i_conns m) k') as [c'|] eqn:Hc'.
    - destruct (i_emitting m).
      + eexists. split; [eapply get_put_same; exact Hm|]. cbn.
        destruct (update_spec (i_conns m) k' (conn_set_tbd c') Hwf) as (_ & Hg & _). rewrite Hg, Hb. exact Hc.
      + set (w1 := match c_kind c' with KDeferred e => if ev_alive w e then ev_dequeue w e {| h_impl := Some i; h_id := Some k' |} else w | _ => w end).
        assert (E1 : get_impl w1 i = Some m).
        { unfold w1. destruct (c_kind c'); try exact Hm. destruct (ev_alive w ev); [|exact Hm]. unfold ev_dequeue.
          repeat match goal with |- context [match ?x with _ => _ end] => destruct x end; exact Hm. }
        eexists. split; [eapply get_put_same; exact E1|]. cbn.
        destruct (erase_spec (i_conns m) k' Hwf) as (_ & Hg & _). rewrite Hg, Hb. exact Hc.
    - eexists. split; [eapply get_put_same; exact Hm|]. cbn.
      destruct (erase_spec (i_conns m) k' Hwf) as (_ & Hg & _). rewrite Hg, Hb. exact Hc.
  Qed.

  (* firing another connection of the same signal leaves (i, k) as it is *)
  Lemma fire_other_keeps w k' c' args : winv w -> k' <> k -> has_conn w -> has_conn (fst (fire R w i k' c' args)).
  Proof.
    intros Hw Hne Hc. unfold fire, invoke_slot. destruct (c_kind c').
    - apply HK; [same_impls|exact Hc].
    - apply HK; [same_impls|exact Hc].
    - assert (H1 : winv (handle_disconnect w {| h_impl := Some i; h_id := Some k' |}) /\
                   has_conn (handle_disconnect w {| h_impl := Some i; h_id := Some k' |})).
      { split; [apply handle_disconnect_ok; exact Hw|]. unfold handle_disconnect.
        destruct (checked_lock w {| h_impl := Some i; h_id := Some k' |}) as [[j k'']|] eqn:EL; [|exact Hc].
        unfold checked_lock in EL. cbn [h_id h_impl] in EL.
        destruct (lock w (Some i)) as [j'|] eqn:Elk; [|discriminate EL].
        assert (j' = i).
        { unfold lock in Elk. destruct (get_impl w i) as [mi|]; [|discriminate Elk]. destruct (i_alive mi); inversion Elk; reflexivity. }
        subst j'. destruct (get_impl w i) as [mi|]; [|discriminate EL]. destruct (g_get (i_conns mi) k'); inversion EL; subst.
        apply has_conn_disconnect_other; assumption. }
      destruct H1 as [Hw1 Hc1]. apply HK; [same_impls|exact Hc1].
    - destruct (ev_alive w ev); [|exact Hc]. cbn [fst ok]. eapply has_conn_same; [|exact Hc]. unfold ev_enqueue.
      repeat match goal with |- context [match ?x with _ => _ end] => destruct x end; reflexivity.
  Qed.

  (* firing (i, k) itself logs its invocation *)
  Lemma fire_logs w args : winv w -> emitting_in w i -> (forall e, c_kind c <> KDeferred e) ->
    exists l, w_trace (fst (fire R w i k c args)) = l ++ w_trace w /\ In k (dkeys i l).
  Proof.
    intros Hw He Hnd. destruct (fire_once R HR w i k c args Hw He) as (l & Hl & _). unfold fire in *.
    destruct (c_kind c) eqn:Ek.
    - destruct (invoke_direct_once R HR w i k (c_label c) (adapt (c_arity c) (c_bound c) args) (c_script c) Hw He) as (l1 & Hl1 & Hk1).
      exists l1. split; [exact Hl1|rewrite Hk1; left; reflexivity].
    - set (w1 := set_handles w (bind_key (w_handles w) selfvar {| h_impl := Some i; h_id := Some k |})).
      assert (Hw1 : winv w1) by (unfold w1; same_impls).
      destruct (invoke_direct_once R HR w1 i k (c_label c) args (c_script c) Hw1 He) as (l1 & Hl1 & Hk1).
      exists l1. split; [exact Hl1|rewrite Hk1; left; reflexivity].
    - set (w1 := handle_disconnect w {| h_impl := Some i; h_id := Some k |}).
      destruct (handle_disconnect_ok w {| h_impl := Some i; h_id := Some k |} Hw) as [Hw1 L1]. fold w1 in Hw1, L1.
      pose proof (emitting_in_wle _ _ _ i L1 He) as He1.
      destruct (wle_no_events _ _ _ i L1 I He) as (l0 & Hl0 & _).
      destruct (invoke_direct_once R HR w1 i k (c_label c) args (c_script c) Hw1 He1) as (l1 & Hl1 & Hk1).
      exists (l1 ++ l0). split; [rewrite Hl1, Hl0, app_assoc; reflexivity|]. rewrite dkeys_app, Hk1. left; reflexivity.
    - exfalso. exact (Hnd ev eq_refl).
  Qed.

  Lemma walk_fires args : c_blocked c = false -> c_tbd c = false -> (forall e, c_kind c <> KDeferred e) ->
    forall idxs w w', winv w -> emitting_in w i -> has_conn w -> In (gi_index k) idxs ->
    walk R w i args idxs = (w', None) ->
    exists l, w_trace w' = l ++ w_trace w /\ In k (dkeys i l).
  Proof.
    intros Hub Hut Hnd. induction idxs as [|x r IH]; intros w w' Hw He Hc Hin H; [destruct Hin|].
    cbn [walk] in H. pose proof Hc as (m & Hm & Hg). rewrite Hm in H. pose proof (Hw _ _ Hm) as (Hwf & _).
    destruct (Nat.eq_dec x (gi_index k)) as [->|Hx].
    - rewrite (get_indexAt _ _ _ Hwf Hg), Hg, Hub, Hut in H. cbn [orb] in H.
      destruct (fire_logs w args Hw He Hnd) as (l1 & Hl1 & Hk1).
      pose proof (fire_ok R HR w i k c args Hw) as [Hw1 _].
      destruct (fire R w i k c args) as [w1 [e|]] eqn:Hf; [discriminate H|]. cbn [fst] in *.
      pose proof (walk_ok R HR i args r w1 Hw1) as [_ L2]. rewrite H in L2. cbn [fst] in L2.
      destruct (wle_trace _ _ _ _ _ L2) as (l2 & Hl2 & _).
      exists (l2 ++ l1). split; [rewrite Hl2, Hl1, app_assoc; reflexivity|]. rewrite dkeys_app. apply in_or_app; right; exact Hk1.
    - assert (Hin' : In (gi_index k) r) by (destruct Hin as [E|Hi]; [exfalso; exact (Hx E)|exact Hi]).
      destruct (g_indexAt (i_conns m) x) as [k'|] eqn:Hix; [|exact (IH w w' Hw He Hc Hin' H)].
      destruct (indexAt_get _ _ _ Hwf Hix) as (Hkx & _).
      assert (Hne : k' <> k) by (intros ->; exact (Hx (eq_sym Hkx))).
      destruct (g_get (i_conns m) k') as [c'|]; [|exact (IH w w' Hw He Hc Hin' H)].
      destruct (c_blocked c' || c_tbd c'); [exact (IH w w' Hw He Hc Hin' H)|].
      pose proof (fire_ok R HR w i k' c' args Hw) as [Hw1 L1].
      pose proof (fire_other_keeps w k' c' args Hw Hne Hc) as Hc1.
      destruct (fire R w i k' c' args) as [w1 [e|]] eqn:Hf; [discriminate H|]. cbn [fst] in *.
      pose proof (emitting_in_wle _ _ _ i L1 He) as He1.
      destruct (IH w1 w' Hw1 He1 Hc1 Hin' H) as (l2 & Hl2 & Hk2).
      destruct (wle_trace _ _ _ _ _ L1) as (l1 & Hl1 & _).
      exists (l2 ++ l1). split; [rewrite Hl2, Hl1, app_assoc; reflexivity|]. rewrite dkeys_app. apply in_or_app; left; exact Hk2.
  Qed.

  Theorem emit_exactly_once_if_kept w s args m w' :
    winv w -> lookup (w_sigs w) s = Some (Some i) -> get_impl w i = Some m -> i_emitting m = false ->
    g_get (i_conns m) k = Some c -> c_blocked c = false -> c_tbd c = false -> (forall e, c_kind c <> KDeferred e) ->
    sig_emit R w s args = (w', None) ->
    exists l, w_trace w' = l ++ w_trace w /\ In k (dkeys i l) /\ NoDup (dkeys i l).
  Proof.
    intros Hw Hs Hm Hem Hg Hub Hut Hnd H.
    destruct (emit_at_most_once R HR w s args i Hw Hs) as (l0 & Hl0 & Hn0). rewrite H in Hl0. cbn [fst] in Hl0.
    unfold sig_emit in H. rewrite Hs, Hm, Hem in H.
    set (m1 := impl_with_owner (impl_with_flags m true (i_dde m)) (i_owned m) true) in *.
    set (w1 := put_impl w i m1) in *.
    assert (Hw1 : winv w1) by (apply winv_put; [assumption|apply impl_ok_emit_start; eapply Hw; eassumption]).
    assert (Hg1 : get_impl w1 i = Some m1) by (eapply get_put_same; eassumption).
    assert (He1 : emitting_in w1 i) by (exists m1; split; [exact Hg1|reflexivity]).
    assert (Hc1 : has_conn w1) by (exists m1; split; [exact Hg1|exact Hg]).
    assert (Hin : In (gi_index k) (seq 0 (g_size (i_conns m)))).
    { apply in_seq. split; [lia|]. cbn. unfold g_get in Hg. unfold g_size.
      destruct (nth_error (g_slots (i_conns m)) (gi_index k)) eqn:En; [|discriminate Hg]. apply nth_error_Some. congruence. }
    destruct (walk R w1 i args (seq 0 (g_size (i_conns m)))) as [w2 e] eqn:EW. inversion H; subst w' e.
    destruct (walk_fires args Hub Hut Hnd _ w1 w2 Hw1 He1 Hc1 Hin EW) as (l & Hl & Hk).
    exists l0. split; [exact Hl0|]. split; [|exact Hn0].
    rewrite trace_finish_emit, Hl in Hl0. change (w_trace w1) with (w_trace w) in Hl0.
    apply app_inv_tail in Hl0. subst l0. exact Hk.
  Qed.
End Kept.

(* ---------------------------------------------------------------------------------------------- *)
(* C01, single-shot "is reached by exactly one emission in its life": for ARBITRARY slot bodies, an emission that invoked a
   single-shot connection leaves no entry under its id when it returns (normally or not) - and an id that went stale stays
   stale for ever (C12), so no later emission can reach it. *)

(* the sweep only removes entries *)
Lemma sweep_sub p idxs : forall w i m, winv w -> get_impl w i = Some m -> i_emitting m = false ->
  exists m', get_impl (disconnect_where p w i idxs) i = Some m' /\
             forall k c, g_get (i_conns m') k = Some c -> g_get (i_conns m) k = Some c.
Proof.
  induction idxs as [|x r IH]; intros w i m Hw Hm Hem; cbn [disconnect_where]; [exists m; auto|].
  rewrite Hm. pose proof (Hw _ _ Hm) as (Hwf & _).
  destruct (g_indexAt (i_conns m) x) as [k|] eqn:Hix; [|exact (IH w i m Hw Hm Hem)].
  destruct (g_get (i_conns m) k) as [c|] eqn:Hc; [|exact (IH w i m Hw Hm Hem)].
  destruct (p c); [|exact (IH w i m Hw Hm Hem)].
  pose proof (impl_disconnect_nonemitting w i k m c Hm Hem Hc) as Hm1.
  destruct (impl_disconnect_ok w i k Hw) as [Hw1 _].
  destruct (IH _ i _ Hw1 Hm1 Hem) as (m' & Hg & Hsub). exists m'. split; [exact Hg|].
  intros k0 c0 H0. apply Hsub in H0. cbn [i_conns impl_with_conns] in H0.
  destruct (erase_spec (i_conns m) k Hwf) as (_ & He & _). rewrite He in H0. destruct (gidx_eqb k k0); [discriminate H0|exact H0].
Qed.

Section Single.
  Variable R : world -> nat -> res.
  Hypothesis HR : good R.
  Variables (i : nat) (k : gidx).

  Definition single_at (w : world) : Prop := exists m c, get_impl w i = Some m /\ g_get (i_conns m) k = Some c /\ c_kind c = KSingle.
  Definition marked_at (w : world) : Prop := exists m c, get_impl w i = Some m /\ g_get (i_conns m) k = Some c /\ c_tbd c = true.

  Lemma single_at_wle (T : nat -> Prop) w w' : wle_on all all T w w' -> emitting_in w i -> single_at w -> single_at w'.
  Proof.
    intros L (m0 & Hm0 & He0) (m & c & Hm & Hc & Hk). assert (m0 = m) by congruence. subst m0.
    destruct (wle_impls _ _ _ _ _ L _ _ Hm) as (m' & Hm' & _ & K). destruct (K I) as (_ & _ & _ & M).
    destruct (M He0 k c Hc) as (c' & Hc' & Hk' & _). exists m', c'. split; [exact Hm'|]. split; [exact Hc'|congruence].
  Qed.
  Lemma marked_at_wle (T : nat -> Prop) w w' : wle_on all all T w w' -> emitting_in w i -> marked_at w -> marked_at w'.
  Proof.
    intros L (m0 & Hm0 & He0) (m & c & Hm & Hc & Ht). assert (m0 = m) by congruence. subst m0.
    destruct (wle_impls _ _ _ _ _ L _ _ Hm) as (m' & Hm' & _ & K). destruct (K I) as (_ & _ & _ & M).
    destruct (M He0 k c Hc) as (c' & Hc' & _ & Ht'). exists m', c'. split; [exact Hm'|]. split; [exact Hc'|auto].
  Qed.

  (* firing the single-shot connection marks it before its body runs, and the mark survives the body *)
  Lemma fire_single_marks w c args : winv w -> emitting_in w i ->
    (exists m, get_impl w i = Some m /\ g_get (i_conns m) k = Some c) -> c_kind c = KSingle ->
    marked_at (fst (fire R w i k c args)).
  Proof.
    intros Hw He (m & Hm & Hc) Hk. unfold fire. rewrite Hk.
    set (w1 := handle_disconnect w {| h_impl := Some i; h_id := Some k |}).
    destruct (handle_disconnect_ok w {| h_impl := Some i; h_id := Some k |} Hw) as [Hw1 L1]. fold w1 in Hw1, L1.
    pose proof (emitting_in_wle _ _ _ i L1 He) as He1.
    assert (M1 : marked_at w1).
    { destruct He as (m0 & Hm0 & Hem). assert (m0 = m) by congruence. subst m0.
      pose proof (Hw _ _ Hm) as (Hwf & _ & _ & Hal).
      unfold w1, handle_disconnect, checked_lock. cbn [h_id h_impl]. unfold lock. rewrite Hm, (Hal Hem), Hm, Hc.
      unfold impl_disconnect. rewrite Hm, Hc, Hem.
      eexists _, (conn_set_tbd c). split; [eapply get_put_same; exact Hm|]. cbn [i_conns impl_with_flags impl_with_conns].
      destruct (update_spec (i_conns m) k (conn_set_tbd c) Hwf) as (_ & Hg & _). rewrite Hg, gidx_eqb_refl, Hc. split; reflexivity. }
    unfold invoke_slot.
    set (w2 := log (EvSlot (Some (i, k)) true (c_label c) args) w1).
    assert (Hw2 : winv w2) by (unfold w2; same_impls).
    destruct (HR w2 (c_script c) Hw2) as [_ L2].
    apply (marked_at_wle _ w2 _ L2); [exact He1|exact M1].
  Qed.

  Lemma walk_single args : forall idxs w, winv w -> emitting_in w i -> single_at w ->
    exists l, w_trace (fst (walk R w i args idxs)) = l ++ w_trace w /\
              (In k (dkeys i l) -> marked_at (fst (walk R w i args idxs))).
  Proof.
    induction idxs as [|x r IH]; intros w Hw He Hs; cbn [walk].
    - exists []. split; [reflexivity|intros []].
    - pose proof Hs as (m & c & Hm & Hc & Hk). rewrite Hm. pose proof (Hw _ _ Hm) as (Hwf & _).
      destruct (g_indexAt (i_conns m) x) as [k'|] eqn:Hix; [|exact (IH w Hw He Hs)].
      destruct (g_get (i_conns m) k') as [c'|] eqn:Hc'; [|exact (IH w Hw He Hs)].
      destruct (c_blocked c' || c_tbd c'); [exact (IH w Hw He Hs)|].
      pose proof (fire_ok R HR w i k' c' args Hw) as [Hw1 L1].
      destruct (fire_once R HR w i k' c' args Hw He) as (l1 & Hl1 & Hk1).
      assert (M1 : In k (dkeys i l1) -> marked_at (fst (fire R w i k' c' args))).
      { intros Hin. destruct Hk1 as [E|E]; rewrite E in Hin; [|destruct Hin]. destruct Hin as [E'|[]]. subst k'.
        assert (c' = c) by congruence. subst c'. apply fire_single_marks; [exact Hw|exact He|exists m; auto|exact Hk]. }
      destruct (fire R w i k' c' args) as [w1 [e|]] eqn:Hf; cbn [fst] in *.
      + exists l1. split; [exact Hl1|exact M1].
      + pose proof (emitting_in_wle _ _ _ i L1 He) as He1.
        pose proof (single_at_wle _ w w1 L1 He Hs) as Hs1.
        destruct (IH w1 Hw1 He1 Hs1) as (l2 & Hl2 & M2).
        exists (l2 ++ l1). split; [rewrite Hl2, Hl1, app_assoc; reflexivity|].
        rewrite dkeys_app. intros Hin. apply in_app_or in Hin. destruct Hin as [Hin|Hin]; [exact (M2 Hin)|].
        pose proof (walk_ok R HR i args r w1 Hw1) as [_ L2].
        apply (marked_at_wle _ w1 _ L2 He1). exact (M1 Hin).
  Qed.

  Theorem emit_single_shot_gone w s args m c m' :
    winv w -> lookup (w_sigs w) s = Some (Some i) -> get_impl w i = Some m -> i_emitting m = false ->
    g_get (i_conns m) k = Some c -> c_kind c = KSingle ->
    forall l, w_trace (fst (sig_emit R w s args)) = l ++ w_trace w -> In k (dkeys i l) ->
    get_impl (fst (sig_emit R w s args)) i = Some m' -> g_get (i_conns m') k = None.
  Proof.
    intros Hw Hs Hm Hem Hc Hk l Hl Hin Hm'.
    assert (Hclean : forall c3, g_get (i_conns m') k = Some c3 -> c_tbd c3 = false).
    { intros c3 H3. assert (Hne : forall mm, get_impl w i = Some mm -> i_emitting mm = false) by (intros mm Hmm; congruence).
      exact (proj1 (emit_effects_complete R HR w s args i m' k c3 Hw Hs Hne Hm' H3)). }
    revert Hl Hm'. unfold sig_emit. rewrite Hs, Hm, Hem.
    set (m1 := impl_with_owner (impl_with_flags m true (i_dde m)) (i_owned m) true).
    set (w1 := put_impl w i m1).
    assert (Hw1 : winv w1) by (apply winv_put; [assumption|apply impl_ok_emit_start; eapply Hw; eassumption]).
    assert (Hg1 : get_impl w1 i = Some m1) by (eapply get_put_same; eassumption).
    assert (He1 : emitting_in w1 i) by (exists m1; split; [exact Hg1|reflexivity]).
    assert (Hs1 : single_at w1) by (exists m1, c; split; [exact Hg1|split; [exact Hc|exact Hk]]).
    destruct (walk_single args (seq 0 (g_size (i_conns m))) w1 Hw1 He1 Hs1) as (l2 & Hl2 & M2).
    pose proof (walk_ok R HR i args (seq 0 (g_size (i_conns m))) w1 Hw1) as [Hw2 _].
    destruct (walk R w1 i args (seq 0 (g_size (i_conns m)))) as [w2 e]. cbn [fst] in *.
    intros Hl Hm'. rewrite trace_finish_emit, Hl2 in Hl. change (w_trace w1) with (w_trace w) in Hl. apply app_inv_tail in Hl. subst l2.
    destruct (M2 Hin) as (m2 & c2 & Hg2 & Hc2 & Ht2).
    destruct (g_get (i_conns m') k) as [c3|] eqn:Hc3; [|reflexivity]. exfalso.
    pose proof (Hclean c3 eq_refl) as Ht3.
    (* whatever survived finish_emit was there, unchanged, before it *)
    revert Hm'. unfold finish_emit. rewrite Hg2.
    set (w3 := put_impl w2 i (impl_with_flags m2 false (i_dde m2))).
    assert (Hw3 : winv w3) by (apply winv_put; [assumption|apply impl_ok_emit_end; eapply Hw2; eassumption]).
    assert (Hg3 : get_impl w3 i = Some (impl_with_flags m2 false (i_dde m2))) by (eapply get_put_same; eassumption).
    assert (Hsub : exists m4, get_impl (if i_dde m2 then disconnect_where c_tbd w3 i (seq 0 (g_size (i_conns m))) else w3) i = Some m4 /\
                              forall k0 c0, g_get (i_conns m4) k0 = Some c0 -> g_get (i_conns m2) k0 = Some c0).
    { destruct (i_dde m2).
      - destruct (sweep_sub c_tbd (seq 0 (g_size (i_conns m))) w3 i _ Hw3 Hg3 eq_refl) as (m4 & Hg4 & S4). exists m4. split; [exact Hg4|exact S4].
      - eexists. split; [exact Hg3|auto]. }
    destruct Hsub as (m4 & Hg4 & S4). rewrite Hg4. intros Hm'.
    erewrite get_put_same in Hm' by exact Hg4. inversion Hm'; subst m'. cbn [i_conns impl_with_owner impl_with_flags] in Hc3.
    apply S4 in Hc3. congruence.
  Qed.
End Single.

(* the hypotheses of emit_exactly_once_if_kept are met by bodies that DO act on the emitting signal: every slot disconnects
   another connection k2 of it *)
Definition disc_other (i : nat) (k2 : gidx) : world -> nat -> res := fun w _ => ok (impl_disconnect w i k2).
Lemma disc_other_good i k2 : good (disc_other i k2).
Proof. intros w sid Hw. unfold disc_other; cbn [fst ok]. apply impl_disconnect_ok; exact Hw. Qed.
Lemma disc_other_keeps i k2 k c : k2 <> k -> keeps_conn (disc_other i k2) i k c.
Proof. intros Hne w sid Hw Hc. unfold disc_other; cbn [fst ok]. apply has_conn_disconnect_other; assumption. Qed.

(* the closed interpreter satisfies the contract, so the theorems hold for it with every table of slot bodies *)
Corollary script_emit_at_most_once tbl pass_fuel fuel w s args i :
  winv w -> lookup (w_sigs w) s = Some (Some i) ->
  exists l, w_trace (fst (sig_emit (script tbl pass_fuel fuel) w s args)) = l ++ w_trace w /\ NoDup (dkeys i l).
Proof. apply emit_at_most_once, script_good. Qed.


(* ---------------------------------------------------------------------------------------------- *)
(* C01: with slot bodies that do not call back into the library, an emission invokes EXACTLY the connected,
   unblocked connections, once each, in table order, with the adapted argument values; a deferred connection
   gets exactly one queued invocation (its evaluator's hook is the observable) *)

Definition quietR : world -> nat -> res := fun w _ => ok w.

Lemma quietR_good : good quietR.
Proof. intros w sid Hw. split; [assumption|apply wle_on_refl]. Qed.

Definition fire_events (i : nat) (args : list Z) (p : gidx * conn) : list event :=
  let '(k, c) := p in
  if c_blocked c || c_tbd c then [] else
  match c_kind c with
  | KPlain => [EvSlot (Some (i, k)) true (c_label c) (adapt (c_arity c) (c_bound c) args)]
  | KReflective _ => [EvSlot (Some (i, k)) true (c_label c) args]
  | KSingle => [EvSlot (Some (i, k)) true (c_label c) args]
  | KDeferred e => [EvAdded e]
  end.

(* the unblocked deferred connections at the given positions have a live evaluator *)
Definition deferred_ok (w : world) (sl : list (option (N * conn))) (idxs : list nat) : Prop :=
  forall x g c e, In x idxs -> nth_error sl x = Some (Some (g, c)) -> c_blocked c = false ->
                  c_kind c = KDeferred e -> ev_alive w e = true.

Lemma slot_entries_ext {T} (sl sl' : list (option (N * T))) idxs :
  (forall x, In x idxs -> nth_error sl' x = nth_error sl x) -> slot_entries sl' idxs = slot_entries sl idxs.
Proof.
  induction idxs as [|x r IH]; intros H; [reflexivity|]. cbn [slot_entries flat_map].
  rewrite (H x (or_introl eq_refl)). f_equal. apply IH. intros y Hy; apply H; right; assumption.
Qed.

Lemma fire_quiet w i m x g c args :
  winv w -> get_impl w i = Some m -> i_emitting m = true ->
  nth_error (g_slots (i_conns m)) x = Some (Some (g, c)) -> c_blocked c = false -> c_tbd c = false ->
  (forall e, c_kind c = KDeferred e -> ev_alive w e = true) ->
  let k := {| gi_index := x; gi_gen := g |} in
  exists w1 m1, fire quietR w i k c args = (w1, None) /\
    w_trace w1 = rev (fire_events i args (k, c)) ++ w_trace w /\
    get_impl w1 i = Some m1 /\ i_emitting m1 = true /\
    length (g_slots (i_conns m1)) = length (g_slots (i_conns m)) /\
    (forall y, y <> x -> nth_error (g_slots (i_conns m1)) y = nth_error (g_slots (i_conns m)) y) /\
    (forall e, ev_alive w1 e = ev_alive w e).
Proof.
  intros Hw Hm Hem Hs Hb Htb Hdef k.
  pose proof (Hw _ _ Hm) as (Hwf & _ & _ & Halv).
  assert (Hg : g_get (i_conns m) k = Some c) by (apply get_slot; cbn; assumption).
  unfold fire, fire_events. rewrite Hb, Htb. cbn [orb]. destruct (c_kind c) eqn:Hk.
  - exists (log (EvSlot (Some (i, k)) true (c_label c) (adapt (c_arity c) (c_bound c) args)) w), m.
    repeat split; auto.
  - eexists _, m. split; [unfold invoke_slot, quietR; reflexivity|]. repeat split; auto.
  - (* single shot: the entry is marked, then the slot runs *)
    assert (Hcl : checked_lock w {| h_impl := Some i; h_id := Some k |} = Some (i, k)).
    { unfold checked_lock, lock; cbn. rewrite Hm, (Halv Hem), Hm, Hg. reflexivity. }
    unfold handle_disconnect. rewrite Hcl. unfold impl_disconnect. rewrite Hm, Hg, Hem.
    destruct (update_spec _ k (conn_set_tbd c) Hwf) as (_ & _ & Hsz & _ & Hoth & _).
    eexists _, _. split; [unfold invoke_slot, quietR; reflexivity|].
    split; [reflexivity|]. split; [cbn [log]; eapply get_put_same; eassumption|].
    split; [reflexivity|]. split; [exact Hsz|]. split; [|reflexivity].
    intros y Hy. cbn [i_conns impl_with_flags impl_with_conns]. apply Hoth. cbn. auto.
  - rewrite (Hdef ev eq_refl). unfold ev_enqueue.
    pose proof (Hdef ev eq_refl) as Hal. unfold ev_alive in Hal.
    destruct (lookup (w_evs w) ev) as [s|] eqn:Hev; [|discriminate].
    eexists _, m. split; [reflexivity|]. split; [reflexivity|]. repeat split; auto.
    intros e0. unfold ev_alive. cbn [log set_evs w_evs]. rewrite lookup_bind.
    destruct (Nat.eqb_spec e0 ev) as [->|Hne]; [rewrite Hev|]; reflexivity.
Qed.

Lemma walk_quiet i args : forall idxs w m,
  winv w -> get_impl w i = Some m -> i_emitting m = true -> NoDup idxs ->
  deferred_ok w (g_slots (i_conns m)) idxs ->
  exists w' m', walk quietR w i args idxs = (w', None) /\
    w_trace w' = rev (flat_map (fire_events i args) (slot_entries (g_slots (i_conns m)) idxs)) ++ w_trace w /\
    get_impl w' i = Some m' /\ i_emitting m' = true /\
    length (g_slots (i_conns m')) = length (g_slots (i_conns m)).
Proof.
  induction idxs as [|x r IH]; intros w m Hw Hm Hem Hnd Hdef; cbn [walk].
  - exists w, m. repeat split; auto.
  - inversion Hnd as [|? ? Hx Hr]; subst. rewrite Hm.
    pose proof (Hw _ _ Hm) as (Hwf & _).
    assert (Hdef_r : deferred_ok w (g_slots (i_conns m)) r).
    { intros y g c e Hy. apply Hdef. right; assumption. }
    assert (Hse : slot_entries (g_slots (i_conns m)) (x :: r) =
                  (match nth_error (g_slots (i_conns m)) x with
                   | Some (Some (g, v)) => [({| gi_index := x; gi_gen := g |}, v)]
                   | _ => [] end) ++ slot_entries (g_slots (i_conns m)) r) by reflexivity.
    rewrite Hse. clear Hse. rewrite flat_map_app.
    destruct (nth_error (g_slots (i_conns m)) x) as [[[g c]|]|] eqn:Hs.
    + assert (Hix : g_indexAt (i_conns m) x = Some {| gi_index := x; gi_gen := g |}).
      { apply (indexAt_slot _ _ _ Hwf). exists c; cbn; auto. }
      assert (Hg : g_get (i_conns m) {| gi_index := x; gi_gen := g |} = Some c) by (apply get_slot; cbn; assumption).
      rewrite Hix, Hg. cbn [flat_map]. rewrite app_nil_r.
      destruct (c_blocked c || c_tbd c) eqn:Hbt.
      * destruct (IH w m Hw Hm Hem Hr Hdef_r) as (w' & m' & Hwalk & Htr & Hm' & Hem' & Hlen).
        exists w', m'. split; [assumption|]. split; [|auto].
        rewrite Htr. unfold fire_events at 2. rewrite Hbt. reflexivity.
      * apply orb_false_iff in Hbt. destruct Hbt as [Hb Htb].
        assert (Hd1 : forall e, c_kind c = KDeferred e -> ev_alive w e = true).
        { intros e He. eapply (Hdef x g c e); [left; reflexivity|assumption|assumption|assumption]. }
        destruct (fire_quiet w i m x g c args Hw Hm Hem Hs Hb Htb Hd1) as (w1 & m1 & Hf & Ht1 & Hm1 & Hem1 & Hl1 & Ho1 & Ha1).
        rewrite Hf.
        assert (Hw1 : winv w1).
        { pose proof (fire_ok quietR quietR_good w i {| gi_index := x; gi_gen := g |} c args Hw) as [H _].
          rewrite Hf in H. exact H. }
        assert (Hdef1 : deferred_ok w1 (g_slots (i_conns m1)) r).
        { intros y g' c' e Hy Hs' Hb' Hk'. rewrite Ha1. rewrite Ho1 in Hs' by (intros ->; contradiction).
          eapply Hdef_r; eassumption. }
        destruct (IH w1 m1 Hw1 Hm1 Hem1 Hr Hdef1) as (w' & m' & Hwalk & Htr & Hm' & Hem' & Hlen).
        exists w', m'. split; [assumption|]. split; [|repeat split; auto; congruence].
        rewrite Htr, Ht1.
        rewrite (slot_entries_ext (g_slots (i_conns m)) (g_slots (i_conns m1)) r)
          by (intros y Hy; apply Ho1; intros ->; contradiction).
        rewrite rev_app_distr, <- app_assoc. reflexivity.
    + unfold g_indexAt. rewrite Hs. cbn [flat_map app].
      destruct (IH w m Hw Hm Hem Hr Hdef_r) as (w' & m' & Hwalk & Htr & Hm' & Hem' & Hlen).
      exists w', m'. repeat split; auto.
    + unfold g_indexAt. rewrite Hs. cbn [flat_map app].
      destruct (IH w m Hw Hm Hem Hr Hdef_r) as (w' & m' & Hwalk & Htr & Hm' & Hem' & Hlen).
      exists w', m'. repeat split; auto.
Qed.

(* the emission as a whole *)
Theorem emit_exact w s args i m :
  winv w -> lookup (w_sigs w) s = Some (Some i) -> get_impl w i = Some m -> i_emitting m = false ->
  deferred_ok w (g_slots (i_conns m)) (seq 0 (g_size (i_conns m))) ->
  snd (sig_emit quietR w s args) = None /\
  w_trace (fst (sig_emit quietR w s args)) = rev (flat_map (fire_events i args) (g_live (i_conns m))) ++ w_trace w.
Proof.
  intros Hw Hs Hm Hem Hdef. unfold sig_emit. rewrite Hs, Hm, Hem.
  set (m1 := impl_with_owner (impl_with_flags m true (i_dde m)) (i_owned m) true).
  set (w1 := put_impl w i m1).
  assert (Hw1 : winv w1) by (apply winv_put; [assumption|apply impl_ok_emit_start; eapply Hw; eassumption]).
  assert (Hg1 : get_impl w1 i = Some m1) by (eapply get_put_same; eassumption).
  destruct (walk_quiet i args (seq 0 (g_size (i_conns m))) w1 m1 Hw1 Hg1 eq_refl (seq_NoDup _ _) Hdef)
    as (w' & m' & Hwalk & Htr & _).
  rewrite Hwalk. cbn [fst snd]. split; [reflexivity|].
  rewrite trace_finish_emit, Htr. cbn [i_conns m1 impl_with_owner impl_with_flags].
  rewrite (live_slots _ (proj1 (Hw _ _ Hm))). reflexivity.
Qed.

(* fix F12: an entry whose disconnection was requested earlier in the emission (it is only marked) is skipped at its turn *)
Lemma walk_marked_skipped R w i args x r m k c :
  get_impl w i = Some m -> g_indexAt (i_conns m) x = Some k -> g_get (i_conns m) k = Some c -> c_tbd c = true ->
  walk R w i args (x :: r) = walk R w i args r.
Proof. intros Hm Hx Hg Ht. cbn [walk]. rewrite Hm, Hx, Hg, Ht, Bool.orb_true_r. reflexivity. Qed.

(* sig_emit depends on the slot bodies only through their behaviour *)
Lemma walk_ext R R' i args : (forall w sid, R w sid = R' w sid) ->
  forall idxs w, walk R w i args idxs = walk R' w i args idxs.
Proof.
  intros HRR. induction idxs as [|x r IH]; intros w; cbn [walk]; [reflexivity|].
  destruct (get_impl w i) as [m|]; [|reflexivity].
  destruct (g_indexAt (i_conns m) x) as [k|]; [|apply IH].
  destruct (g_get (i_conns m) k) as [c|]; [|apply IH].
  destruct (c_blocked c || c_tbd c); [apply IH|].
  assert (Hf : fire R w i k c args = fire R' w i k c args).
  { unfold fire, invoke_slot. destruct (c_kind c); try rewrite HRR; reflexivity. }
  rewrite Hf. destruct (fire R' w i k c args) as [w' [e|]]; [reflexivity|apply IH].
Qed.

Lemma sig_emit_ext R R' w s args : (forall w sid, R w sid = R' w sid) -> sig_emit R w s args = sig_emit R' w s args.
Proof.
  intros HRR. unfold sig_emit. destruct (lookup (w_sigs w) s) as [[i|]|]; try reflexivity.
  destruct (get_impl w i) as [m|]; [|reflexivity]. destruct (i_emitting m); [reflexivity|].
  rewrite (walk_ext R R' i args HRR). reflexivity.
Qed.

(* for the closed interpreter: every table whose slot bodies are empty, every positive fuel *)
Corollary script_emit_exact tbl pass_fuel fuel w s args i m :
  (forall sid, tbl sid = []) ->
  winv w -> lookup (w_sigs w) s = Some (Some i) -> get_impl w i = Some m -> i_emitting m = false ->
  deferred_ok w (g_slots (i_conns m)) (seq 0 (g_size (i_conns m))) ->
  snd (sig_emit (script tbl pass_fuel (S fuel)) w s args) = None /\
  w_trace (fst (sig_emit (script tbl pass_fuel (S fuel)) w s args)) =
    rev (flat_map (fire_events i args) (g_live (i_conns m))) ++ w_trace w.
Proof.
  intros Hq. rewrite (sig_emit_ext (script tbl pass_fuel (S fuel)) quietR).
  - apply emit_exact.
  - intros w0 sid. cbn [script]. rewrite Hq. reflexivity.
Qed.
