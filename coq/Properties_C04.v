(* C04 - Disconnecting is final, seen through every handle copy, and releases the slot.
   Routes: every route of the model ends in `impl_disconnect w i k` (handle, scoped connection: via checked_lock;
   Signal::disconnect: via belongsTo; disconnectAll / destruction / overwrite by move: via sig_disconnect_all). *)
From KDB Require Import Util GenIdx GenIdxProofs SigDefs SigInv SigTheorems SigEmit SigDisc.

(* the disconnected id becomes stale ... *)
Theorem C04_disconnect_makes_stale :
  forall w i k m, winv w -> get_impl w i = Some m -> i_emitting m = false -> In k (i_issued m) ->
    stale_in (impl_disconnect w i k) i k.
Proof. exact disconnect_makes_stale. Qed.
Print Assumptions C04_disconnect_makes_stale.

(* ... stays stale after every further history (so: inactive through EVERY copy of the handle, for ever) ... *)
Theorem C04_final :
  forall tbl pass_fuel fuel ops w i k, winv w -> stale_in w i k ->
    stale_in (fold_left (step tbl pass_fuel fuel) ops w) i k /\
    checked_lock (fold_left (step tbl pass_fuel fuel) ops w) {| h_impl := Some i; h_id := Some k |} = None.
Proof. exact stale_final. Qed.
Print Assumptions C04_final.

(* ... and is never invoked again: an emission invokes only what is in the table (C01_emit_exact), a stale id is not *)
Theorem C04_stale_not_in_table :
  forall w i k m, winv w -> get_impl w i = Some m -> stale (g_alloc (i_conns m)) k -> g_get (i_conns m) k = None.
Proof. exact stale_not_in_table. Qed.
Print Assumptions C04_stale_not_in_table.

(* repeating the disconnect has no effect *)
Theorem C04_idempotent :
  forall w i k, winv w -> stale_in w i k ->
    impl_disconnect w i k = put_impl w i match get_impl w i with Some m => m | None => impl_new end.
Proof. exact stale_disconnect_noop. Qed.
Print Assumptions C04_idempotent.

(* exactly that entry goes; every other connection of this and of every other Impl is untouched *)
Theorem C04_frame :
  forall w i k m, winv w -> get_impl w i = Some m -> i_emitting m = false ->
    (forall k', conn_of (impl_disconnect w i k) i k' = if gidx_eqb k k' then None else conn_of w i k') /\
    (forall j, j <> i -> get_impl (impl_disconnect w i k) j = get_impl w j).
Proof. exact disconnect_effect. Qed.
Print Assumptions C04_frame.

(* disconnectAll / destruction / overwrite: the table is empty and the Impl dead, every handle to it inactive *)
Theorem C04_disconnect_all_empties :
  forall w s i m, winv w -> lookup (w_sigs w) s = Some (Some i) -> get_impl w i = Some m -> i_emitting m = false ->
    exists m', get_impl (sig_disconnect_all w s) i = Some m' /\ i_alive m' = false /\
               (forall k, g_get (i_conns m') k = None) /\
               lookup (w_sigs (sig_disconnect_all w s)) s = Some None.
Proof. exact disconnect_all_empties. Qed.
Print Assumptions C04_disconnect_all_empties.

(* the queued invocations of a deferred connection go with it *)
Theorem C04_queue_released :
  forall w e i k s m,
    lookup (w_evs w) e = Some s -> e_alive s = true -> e_evaluating s = false ->
    get_impl w i = Some m -> i_alive m = true ->
    exists s', lookup (w_evs (ev_dequeue w e {| h_impl := Some i; h_id := Some k |})) e = Some s' /\
               (forall v, ~ In ({| h_impl := Some i; h_id := Some k |}, v) (e_queue s')) /\
               (forall p, In p (e_queue s') -> In p (e_queue s)).
Proof. exact dequeue_removes. Qed.
Print Assumptions C04_queue_released.

Example C04_example :
  let w := run (fun _ => []) 8 4 [OSigNew 0 1; OConnect 0 0 100 1 [] 0; OHCopy 0 1; OScNew 0 0; OScDrop 0;
                                  OActive 1; OEmit 0 [5%Z]; ODiscS 0 1] in
  firstn 4 (w_trace w) = [EvDone None; EvDone None; EvDone None; EvBool false] /\ held_labels w = [].
Proof. vm_compute. split; reflexivity. Qed.
