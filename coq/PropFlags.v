(* No operation of the property-layer model leaves a signal marked as emitting: whatever is emitting after a call was
   emitting before it (Signal::emit clears its flag on every path), and tables are never removed.  Unconditional: holds
   for every world, every outcome, arbitrary re-entrant observers. *)
From KDB Require Import Util UtilProofs PropDefs.

Definition emitting (w : world) (t : nat) : Prop := exists tb, get_table w t = Some tb /\ t_emitting tb = true.
Definition tmono (w w' : world) : Prop :=
  length (w_tables w) <= length (w_tables w') /\ forall t, emitting w' t -> emitting w t.
Definition NOEMIT (w : world) : Prop := forall t, ~ emitting w t.

Lemma tmono_refl w : tmono w w.
Proof. split; auto. Qed.
Lemma tmono_trans a b c : tmono a b -> tmono b c -> tmono a c.
Proof. intros [L1 E1] [L2 E2]. split; [lia|auto]. Qed.
Lemma tmono_tables w w' : w_tables w' = w_tables w -> tmono w w'.
Proof. intros E. split; [rewrite E; lia|]. intros t (tb & Ht & He). exists tb. unfold get_table in *. rewrite <- E. auto. Qed.
Lemma NOEMIT_tmono w w' : NOEMIT w -> tmono w w' -> NOEMIT w'.
Proof. intros H [_ E] t He. exact (H t (E t He)). Qed.

(* replacing table t by one that is emitting only if the old one was *)
Lemma tmono_put w t tb tb' :
  get_table w t = Some tb -> (t_emitting tb' = true -> t_emitting tb = true) -> tmono w (put_table w t tb').
Proof.
  intros Ht Hf. split; [unfold put_table; cbn [set_tables w_tables]; rewrite upd_length; lia|].
  intros t' (x & Hx & He). unfold get_table, put_table in Hx; cbn [set_tables w_tables] in Hx. rewrite nth_upd in Hx.
  destruct (Nat.eqb_spec t t') as [<-|Hne].
  - destruct (Nat.ltb t (length (w_tables w))); [|discriminate Hx]. inversion Hx; subst x. exists tb. auto.
  - exists x. auto.
Qed.

Lemma subscribe_tmono w p k s w1 h : subscribe w p k s = Some (w1, h) -> tmono w w1.
Proof.
  unfold subscribe. destruct (lookup (w_props w) p) as [pr|]; [|discriminate].
  destruct (sig_of pr k) as [t|].
  - destruct (get_table w t) as [tb|] eqn:Ht; [|discriminate].
    destruct (t_free tb) as [|i f]; intros H; inversion H; subst; clear H;
      apply (tmono_put w t tb); auto.
  - set (w0 := set_props (set_tables w (w_tables w ++ [table_new])) _).
    assert (M0 : tmono w w0).
    { split; [unfold w0; cbn [set_props set_tables w_tables]; rewrite app_length; lia|].
      intros t (tb & Ht & He). unfold get_table, w0 in Ht; cbn [set_props set_tables w_tables] in Ht.
      destruct (Nat.lt_ge_cases t (length (w_tables w))) as [Hlt|Hge].
      - rewrite nth_error_app1 in Ht by exact Hlt. exists tb. auto.
      - rewrite nth_error_app2 in Ht by exact Hge. destruct (t - length (w_tables w)) as [|n]; cbn in Ht.
        + inversion Ht; subst tb. discriminate He.
        + destruct n; discriminate Ht. }
    destruct (get_table w0 (length (w_tables w))) as [tb|] eqn:Ht; [|discriminate].
    destruct (t_free tb) as [|i f]; intros H; inversion H; subst; clear H;
      (eapply tmono_trans; [exact M0|]); apply (tmono_put w0 _ tb); auto.
Qed.

Lemma unsubscribe_tmono w h : tmono w (fst (unsubscribe w h)).
Proof.
  unfold unsubscribe. destruct (get_table w (h_table h)) as [tb|] eqn:Ht; [|apply tmono_refl].
  destruct (negb (t_alive tb)); [apply tmono_refl|].
  destruct (nth_error (t_slots tb) (h_pos h)) as [[[ser s]|]|]; try apply tmono_refl.
  destruct (Nat.eqb ser (h_serial h)); [|apply tmono_refl]. destruct (t_emitting tb); [apply tmono_refl|].
  cbn [fst ok]. apply (tmono_put w _ tb); [exact Ht|discriminate].
Qed.
Lemma unsubscribe_all_tmono hs : forall w, tmono w (fst (unsubscribe_all w hs)).
Proof.
  induction hs as [|h r IH]; intros w; cbn [unsubscribe_all]; [apply tmono_refl|].
  pose proof (unsubscribe_tmono w h) as M. destruct (unsubscribe w h) as [w1 [e|]]; cbn [fst] in *; [exact M|].
  eapply tmono_trans; [exact M|apply IH].
Qed.
Lemma destroy_binding_tmono w b : tmono w (fst (destroy_binding w b)).
Proof.
  unfold destroy_binding. destruct (get_bind w b) as [x|]; [|apply tmono_refl].
  eapply tmono_trans; [|apply unsubscribe_all_tmono]. apply tmono_tables.
  destruct (nth_error (w_evps w) (b_evp x)); reflexivity.
Qed.
Lemma kill_table_tmono w ot : tmono w (fst (kill_table w ot)).
Proof.
  unfold kill_table. destruct ot as [t|]; [|apply tmono_refl]. destruct (get_table w t) as [tb|] eqn:Ht; [|apply tmono_refl].
  destruct (t_emitting tb); [apply tmono_refl|]. cbn [fst ok]. apply (tmono_put w t tb); [exact Ht|discriminate].
Qed.
Lemma log_fns_tables l : forall w, w_tables (log_fns l w) = w_tables w.
Proof. induction l as [|x r IH]; intros w; cbn [log_fns]; [reflexivity|]. rewrite IH. reflexivity. Qed.

Section Flags.
  Variable fn : nat -> list Z -> option Z.
  Variable rtl : bool.

  Lemma build_tmono b : forall e w next w1 nd n1, build fn rtl w b next e = inl (Some (w1, nd, n1)) -> tmono w w1.
  Proof.
    induction e as [v|p|f a IHa|f a IHa c IHc|f a IHa c IHc d IHd]; intros w next w' nd n' H; cbn [build] in H.
    - inversion H; subst. apply tmono_refl.
    - destruct (subscribe w p KChanged (SNode b next)) as [[w1 hc]|] eqn:S1; [|discriminate H].
      destruct (subscribe w1 p KMoved (SNode b next)) as [[w2 hm]|] eqn:S2; [|discriminate H].
      destruct (subscribe w2 p KDestroyed (SNode b next)) as [[w3 hd]|] eqn:S3; [|discriminate H].
      inversion H; subst. eapply tmono_trans; [eapply subscribe_tmono; eauto|]. eapply tmono_trans; eapply subscribe_tmono; eauto.
    - destruct (build fn rtl w b next a) as [[[[w1 na] n1]|]|ex] eqn:Ha; try discriminate H.
      destruct (eval fn rtl (values w1) (NOp1 f true 0%Z na)) as [[t r] l]. destruct r; [|discriminate H]. inversion H; subst.
      eapply tmono_trans; [eapply IHa; eauto|]. apply tmono_tables. apply log_fns_tables.
    - destruct (build fn rtl w b next a) as [[[[w1 na] n1]|]|ex] eqn:Ha; try discriminate H.
      destruct (build fn rtl w1 b n1 c) as [[[[w2 nc] n2]|]|ex] eqn:Hc; try discriminate H.
      destruct (eval fn rtl (values w2) (NOp2 f true 0%Z na nc)) as [[t r] l]. destruct r; [|discriminate H]. inversion H; subst.
      eapply tmono_trans; [eapply IHa; eauto|]. eapply tmono_trans; [eapply IHc; eauto|]. apply tmono_tables. apply log_fns_tables.
    - destruct (build fn rtl w b next a) as [[[[w1 na] n1]|]|ex] eqn:Ha; try discriminate H.
      destruct (build fn rtl w1 b n1 c) as [[[[w2 nc] n2]|]|ex] eqn:Hc; try discriminate H.
      destruct (build fn rtl w2 b n2 d) as [[[[w3 ndd] n3]|]|ex] eqn:Hd; try discriminate H.
      destruct (eval fn rtl (values w3) (NOp3 f true 0%Z na nc ndd)) as [[t r] l]. destruct r; [|discriminate H]. inversion H; subst.
      eapply tmono_trans; [eapply IHa; eauto|]. eapply tmono_trans; [eapply IHc; eauto|]. eapply tmono_trans; [eapply IHd; eauto|].
      apply tmono_tables. apply log_fns_tables.
  Qed.

  Lemma make_binding_tmono w e m w' b : make_binding fn rtl w e m = inl (w', b) -> tmono w w'.
  Proof.
    unfold make_binding. destruct (match m with MImmediate => Some 0 | MEvaluator ev => lookup (w_bevs w) ev end) as [ep|]; [|discriminate].
    destruct (nth_error (w_evps w) ep) as [st|]; [|discriminate].
    destruct (build fn rtl w (length (w_binds w)) 0 e) as [[[[w1 root] n1]|]|ex] eqn:Hb; try discriminate.
    intros H; inversion H; subst. eapply tmono_trans; [eapply build_tmono; eauto|]. apply tmono_tables. reflexivity.
  Qed.

  Definition goodF (R : world -> nat -> Z -> res) : Prop := forall w q v, tmono w (fst (R w q v)).

  Section Body.
    Variable R : world -> nat -> Z -> res.
    Hypothesis HR : goodF R.

    Lemma binding_evaluate_tmono w b : tmono w (fst (binding_evaluate fn rtl R w b)).
    Proof.
      unfold binding_evaluate. destruct (get_bind w b) as [x|]; [|apply tmono_refl].
      destruct (eval fn rtl (values w) (b_root x)) as [[t r] l].
      assert (M : tmono w (log_fns l (put_bind w b (bind_with_root x t)))) by (apply tmono_tables; rewrite log_fns_tables; reflexivity).
      destruct r as [v|ex]; [|exact M]. destruct (b_target x) as [p|]; [|exact M]. eapply tmono_trans; [exact M|apply HR].
    Qed.

    Lemma deliver_tmono w p k payload s : tmono w (fst (deliver fn rtl R w p k payload s)).
    Proof.
      destruct s as [label act|b leaf]; cbn [deliver].
      - set (w1 := log _ w). assert (M : tmono w w1) by (apply tmono_tables; reflexivity).
        destruct act as [[[|] q]|].
        + destruct (lookup (w_props w1) q) as [pr|]; [|exact M]. destruct (pr_updater pr) as [b|]; [|exact M].
          pose proof (destroy_binding_tmono w1 b) as M2. destruct (destroy_binding w1 b) as [w2 [e|]]; cbn [fst] in *.
          * exact (tmono_trans _ _ _ M M2).
          * destruct (lookup (w_props w2) q); cbn [fst]; (eapply tmono_trans; [exact M|]); (eapply tmono_trans; [exact M2|]); apply tmono_tables; reflexivity.
        + destruct payload as [|v pl]; [exact M|]. destruct (lookup (w_props w1) q) as [pr|]; [|exact M].
          destruct (pr_updater pr); [exact M|]. eapply tmono_trans; [exact M|apply HR].
        + destruct payload; exact M.
      - destruct (get_bind w b) as [x|]; [|apply tmono_refl]. destruct k.
        + apply tmono_refl.
        + destruct (mark (b_root x) leaf) as [[t up]|]; [|apply tmono_refl].
          assert (M : tmono w (put_bind w b (bind_with_root x t))) by (apply tmono_tables; reflexivity).
          destruct up; [|exact M]. destruct (Nat.eqb (b_evp x) 0); [|exact M]. eapply tmono_trans; [exact M|apply binding_evaluate_tmono].
        + apply tmono_tables; reflexivity.
        + destruct payload as [|a [|? ?]]; try apply tmono_refl. apply tmono_tables; reflexivity.
    Qed.

    Lemma walk_tmono t p k payload : forall idxs w, tmono w (fst (walk fn rtl R w t p k payload idxs)).
    Proof.
      induction idxs as [|x r IH]; intros w; cbn [walk]; [apply tmono_refl|].
      destruct (get_table w t) as [tb|]; [|apply tmono_refl].
      destruct (nth_error (t_slots tb) x) as [[[ser s]|]|]; try apply IH.
      pose proof (deliver_tmono w p k payload s) as M. destruct (deliver fn rtl R w p k payload s) as [w1 [e|]]; cbn [fst] in *; [exact M|].
      eapply tmono_trans; [exact M|apply IH].
    Qed.

    Lemma emit_tmono w ot p k payload : tmono w (fst (emit fn rtl R w ot p k payload)).
    Proof.
      unfold emit. destruct ot as [t|]; [|apply tmono_refl]. destruct (get_table w t) as [tb|] eqn:Ht; [|apply tmono_refl].
      destruct (t_emitting tb) eqn:Hem; [apply tmono_refl|].
      set (tb1 := {| t_slots := t_slots tb; t_free := t_free tb; t_emitting := true; t_alive := t_alive tb |}).
      set (w1 := put_table w t tb1).
      pose proof (walk_tmono t p k payload (seq 0 (length (t_slots tb))) w1) as [L2 E2].
      destruct (walk fn rtl R w1 t p k payload (seq 0 (length (t_slots tb)))) as [w2 e2]. cbn [fst] in *.
      assert (L1 : length (w_tables w1) = length (w_tables w)) by (unfold w1, put_table; cbn [set_tables w_tables]; apply upd_length).
      assert (Hlt : t < length (w_tables w)) by (apply nth_error_Some; unfold get_table in Ht; congruence).
      destruct (get_table w2 t) as [tb2|] eqn:Ht2; cbn [fst].
      - split; [unfold put_table; cbn [set_tables w_tables]; rewrite upd_length; lia|].
        intros t' (x & Hx & He). unfold get_table, put_table in Hx; cbn [set_tables w_tables] in Hx. rewrite nth_upd in Hx.
        destruct (Nat.eqb_spec t t') as [<-|Hne].
        + destruct (Nat.ltb t (length (w_tables w2))); [|discriminate Hx]. inversion Hx; subst x. discriminate He.
        + destruct (E2 t' (ex_intro _ x (conj Hx He))) as (y & Hy & Hey). unfold get_table, w1, put_table in Hy; cbn [set_tables w_tables] in Hy.
          rewrite nth_upd_other in Hy by exact Hne. exists y. auto.
      - exfalso. unfold get_table in Ht2. apply nth_error_None in Ht2. lia.
    Qed.
  End Body.

  Lemma set_helper_tmono : forall fuel, goodF (set_helper fn rtl fuel).
  Proof.
    induction fuel as [|f IH]; intros w q v; cbn [set_helper]; [apply tmono_refl|].
    destruct (lookup (w_props w) q) as [pr|]; [|apply tmono_refl].
    destruct (Z.eqb v (pr_value pr)); [apply tmono_refl|].
    pose proof (emit_tmono _ IH w (pr_about pr) q KAbout [pr_value pr; v]) as M1.
    destruct (emit fn rtl (set_helper fn rtl f) w (pr_about pr) q KAbout [pr_value pr; v]) as [w1 [e|]]; cbn [fst] in *; [exact M1|].
    destruct (lookup (w_props w1) q) as [pr1|]; [|exact M1].
    eapply tmono_trans; [exact M1|]. eapply tmono_trans; [|apply (emit_tmono _ IH)]. apply tmono_tables. reflexivity.
  Qed.

  Lemma assign_binding_tmono fuel w p b : tmono w (fst (assign_binding fn rtl fuel w p b)).
  Proof.
    unfold assign_binding. destruct (lookup (w_props w) p) as [pr|]; [|apply tmono_refl].
    match goal with |- context [let (_, _) := ?X in _] =>
      assert (M1 : tmono w (fst X)) by (destruct (pr_updater pr); [apply destroy_binding_tmono|apply tmono_refl]);
      revert M1; destruct X as [w1 [e|]]; intros M1; cbn [fst] in * end; [exact M1|].
    destruct (lookup (w_props w1) p) as [pr1|]; [|exact M1]. destruct (get_bind w1 b) as [x|]; [|exact M1].
    match goal with |- context [eval fn rtl ?v ?r] => destruct (eval fn rtl v r) as [[t r0] l] end.
    eapply tmono_trans; [exact M1|].
    match goal with |- tmono _ (fst (match r0 with inl _ => _ | inr _ => throw ?w4 _ end)) =>
      assert (M4 : tmono w1 w4) by (apply tmono_tables; rewrite log_fns_tables; reflexivity) end.
    destruct r0 as [v|ex]; [|exact M4]. eapply tmono_trans; [exact M4|apply set_helper_tmono].
  Qed.

  Ltac step_res M := match goal with |- tmono _ (fst (let '(_, _) := ?x in _)) => destruct x as [? [?|]] | |- tmono _ (fst (match ?x with (_, _) => _ end)) => destruct x as [? [?|]] end.

  Lemma destroy_prop_tmono fuel w p : tmono w (fst (destroy_prop fn rtl fuel w p)).
  Proof.
    unfold destroy_prop. destruct (lookup (w_props w) p) as [pr|]; [|apply tmono_refl].
    pose proof (emit_tmono _ (set_helper_tmono fuel) w (pr_destroyed pr) p KDestroyed []) as M1.
    destruct (emit fn rtl (set_helper fn rtl fuel) w (pr_destroyed pr) p KDestroyed []) as [w1 [e|]]; cbn [fst] in *; [exact M1|].
    match goal with |- context [let (_, _) := ?X in _] =>
      assert (M2 : tmono w1 (fst X)) by (destruct (pr_updater pr); [apply destroy_binding_tmono|apply tmono_refl]);
      revert M2; destruct X as [w2 [e|]]; intros M2; cbn [fst] in * end; [exact (tmono_trans _ _ _ M1 M2)|].
    pose proof (kill_table_tmono w2 (pr_destroyed pr)) as M3. destruct (kill_table w2 (pr_destroyed pr)) as [w3 [e|]]; cbn [fst] in *;
      [exact (tmono_trans _ _ _ M1 (tmono_trans _ _ _ M2 M3))|].
    pose proof (kill_table_tmono w3 (pr_moved pr)) as M4. destruct (kill_table w3 (pr_moved pr)) as [w4 [e|]]; cbn [fst] in *;
      [exact (tmono_trans _ _ _ M1 (tmono_trans _ _ _ M2 (tmono_trans _ _ _ M3 M4)))|].
    pose proof (kill_table_tmono w4 (pr_changed pr)) as M5. destruct (kill_table w4 (pr_changed pr)) as [w5 [e|]]; cbn [fst] in *;
      [exact (tmono_trans _ _ _ M1 (tmono_trans _ _ _ M2 (tmono_trans _ _ _ M3 (tmono_trans _ _ _ M4 M5))))|].
    pose proof (kill_table_tmono w5 (pr_about pr)) as M6. destruct (kill_table w5 (pr_about pr)) as [w6 [e|]]; cbn [fst] in *;
      [exact (tmono_trans _ _ _ M1 (tmono_trans _ _ _ M2 (tmono_trans _ _ _ M3 (tmono_trans _ _ _ M4 (tmono_trans _ _ _ M5 M6)))))|].
    eapply tmono_trans; [exact (tmono_trans _ _ _ M1 (tmono_trans _ _ _ M2 (tmono_trans _ _ _ M3 (tmono_trans _ _ _ M4 (tmono_trans _ _ _ M5 M6)))))|].
    apply tmono_tables. reflexivity.
  Qed.

  Lemma finish_move_tmono fuel w dst src om : tmono w (fst (finish_move fn rtl fuel w dst src om)).
  Proof.
    unfold finish_move. destruct (lookup (w_props w) dst) as [d|]; [|apply tmono_refl]. destruct (lookup (w_props w) src) as [s|]; [|apply tmono_refl].
    set (w1 := match pr_updater d with Some b => match get_bind w b with Some x => put_bind w b (bind_with_target x (Some dst)) | None => w end | None => w end).
    assert (M1 : tmono w w1) by (apply tmono_tables; unfold w1; destruct (pr_updater d) as [b|]; [destruct (get_bind w b)|]; reflexivity).
    pose proof (emit_tmono _ (set_helper_tmono fuel) w1 om dst KMoved [Z.of_nat dst]) as M2.
    destruct (emit fn rtl (set_helper fn rtl fuel) w1 om dst KMoved [Z.of_nat dst]) as [w2 [e|]]; cbn [fst] in *; [exact (tmono_trans _ _ _ M1 M2)|].
    pose proof (emit_tmono _ (set_helper_tmono fuel) w2 (pr_moved s) dst KMoved [Z.of_nat dst]) as M3.
    destruct (emit fn rtl (set_helper fn rtl fuel) w2 (pr_moved s) dst KMoved [Z.of_nat dst]) as [w3 [e|]]; cbn [fst] in *;
      [exact (tmono_trans _ _ _ M1 (tmono_trans _ _ _ M2 M3))|].
    pose proof (kill_table_tmono w3 om) as M4. destruct (kill_table w3 om) as [w4 [e|]]; cbn [fst] in *;
      [exact (tmono_trans _ _ _ M1 (tmono_trans _ _ _ M2 (tmono_trans _ _ _ M3 M4)))|].
    assert (M : tmono w w4) by exact (tmono_trans _ _ _ M1 (tmono_trans _ _ _ M2 (tmono_trans _ _ _ M3 M4))).
    destruct (lookup (w_props w4) dst); [|exact M]. destruct (lookup (w_props w4) src); [|exact M].
    eapply tmono_trans; [exact M|]. apply tmono_tables. reflexivity.
  Qed.

  Lemma step1_tmono fuel w o : tmono w (fst (step1 fn rtl fuel w o)).
  Proof.
    destruct o; cbn [step1].
    - destruct (lookup (w_props w) p); [apply tmono_refl|apply tmono_tables; reflexivity].
    - apply destroy_prop_tmono.
    - destruct (lookup (w_props w) p) as [pr|]; [|apply tmono_refl]. destruct (pr_updater pr); [apply tmono_refl|apply set_helper_tmono].
    - destruct (lookup (w_props w) p); [apply tmono_tables; reflexivity|apply tmono_refl].
    - destruct (lookup (w_props w) p); [apply tmono_tables; reflexivity|apply tmono_refl].
    - destruct (match k, act with KMoved, _ => true | KDestroyed, Some _ => true | _, _ => false end); [apply tmono_refl|].
      destruct (subscribe w p k (SObs label act)) as [[w1 hd]|] eqn:Hs; [|apply tmono_refl].
      eapply tmono_trans; [eapply subscribe_tmono; eauto|]. apply tmono_tables. reflexivity.
    - destruct (lookup (w_obs w) h); [apply unsubscribe_tmono|apply tmono_refl].
    - destruct (lookup (w_props w) p) as [pr|]; [|apply tmono_refl]. destruct (lookup (w_props w) q); [|apply tmono_refl].
      destruct (pr_updater pr); [apply tmono_refl|apply set_helper_tmono].
    - destruct (make_binding fn rtl w e m) as [[w1 b]|x] eqn:Hm; [|apply tmono_refl].
      pose proof (make_binding_tmono _ _ _ _ _ Hm) as M. destruct (lookup (w_props w1) p).
      + eapply tmono_trans; [exact M|apply assign_binding_tmono].
      + eapply tmono_trans; [exact M|]. eapply tmono_trans; [|apply assign_binding_tmono]. apply tmono_tables. reflexivity.
    - destruct (lookup (w_props w) p) as [pr|]; [|apply tmono_refl]. destruct (pr_updater pr) as [b|]; [|apply tmono_refl].
      pose proof (destroy_binding_tmono w b) as M. destruct (destroy_binding w b) as [w1 [e|]]; cbn [fst] in *; [exact M|].
      destruct (lookup (w_props w1) p); [|exact M]. eapply tmono_trans; [exact M|]. apply tmono_tables. reflexivity.
    - destruct (lookup (w_props w) src) as [s|]; [|apply tmono_refl]. destruct (lookup (w_props w) dst); [apply tmono_refl|].
      eapply tmono_trans; [|apply finish_move_tmono]. apply tmono_tables. reflexivity.
    - destruct (lookup (w_props w) src) as [s|]; [|apply tmono_refl]. destruct (lookup (w_props w) dst) as [d|]; [|apply tmono_refl].
      destruct (Nat.eqb src dst); [apply tmono_refl|].
      pose proof (kill_table_tmono w (pr_about d)) as M1. destruct (kill_table w (pr_about d)) as [w1 [e|]]; cbn [fst] in *; [exact M1|].
      pose proof (kill_table_tmono w1 (pr_changed d)) as M2. destruct (kill_table w1 (pr_changed d)) as [w2 [e|]]; cbn [fst] in *; [exact (tmono_trans _ _ _ M1 M2)|].
      pose proof (kill_table_tmono w2 (pr_destroyed d)) as M3. destruct (kill_table w2 (pr_destroyed d)) as [w3 [e|]]; cbn [fst] in *;
        [exact (tmono_trans _ _ _ M1 (tmono_trans _ _ _ M2 M3))|].
      match goal with |- context [let (_, _) := ?X in _] =>
        assert (M4 : tmono w3 (fst X)) by (destruct (pr_updater d); [apply destroy_binding_tmono|apply tmono_refl]);
        revert M4; destruct X as [w4 [e|]]; intros M4; cbn [fst] in * end;
        [exact (tmono_trans _ _ _ M1 (tmono_trans _ _ _ M2 (tmono_trans _ _ _ M3 M4)))|].
      eapply tmono_trans; [exact (tmono_trans _ _ _ M1 (tmono_trans _ _ _ M2 (tmono_trans _ _ _ M3 M4)))|].
      eapply tmono_trans; [|apply finish_move_tmono]. apply tmono_tables. reflexivity.
    - destruct (lookup (w_bevs w) e); [apply tmono_refl|apply tmono_tables; reflexivity].
    - destruct (lookup (w_bevs w) src), (lookup (w_bevs w) dst); try apply tmono_refl. apply tmono_tables; reflexivity.
    - destruct (lookup (w_bevs w) e); [apply tmono_tables; reflexivity|apply tmono_refl].
    - destruct (lookup (w_bevs w) e) as [id|]; [|apply tmono_refl]. destruct (nth_error (w_evps w) id) as [st|]; [|apply tmono_refl].
      generalize (ep_registry st). intros l. revert w. induction l as [|[rid b] r IH]; intros w; [apply tmono_refl|].
      destruct (match nth_error (w_evps w) id with Some st' => existsb (fun q => Nat.eqb (fst q) rid) (ep_registry st') | None => false end); [|apply IH].
      pose proof (binding_evaluate_tmono _ (set_helper_tmono fuel) w b) as M.
      destruct (binding_evaluate fn rtl (set_helper fn rtl fuel) w b) as [w1 [x|]]; cbn [fst] in *; [exact M|].
      eapply tmono_trans; [exact M|apply IH].
    - destruct (lookup (w_held w) b); [apply tmono_refl|]. destruct (make_binding fn rtl w e m) as [[w1 id]|x] eqn:Hm; [|apply tmono_refl].
      eapply tmono_trans; [eapply make_binding_tmono; eauto|]. apply tmono_tables. reflexivity.
    - destruct (lookup (w_held w) b) as [id|]; [|apply tmono_refl].
      pose proof (destroy_binding_tmono w id) as M. destruct (destroy_binding w id) as [w1 [e|]]; cbn [fst] in *; [|exact M].
      eapply tmono_trans; [exact M|]. apply tmono_tables. reflexivity.
  Qed.

  Lemma step_noemit fuel w o : NOEMIT w -> NOEMIT (step fn rtl fuel w o).
  Proof.
    intros H. unfold step. pose proof (step1_tmono fuel w o) as M. destruct (step1 fn rtl fuel w o) as [w' r]. cbn [fst] in M.
    eapply NOEMIT_tmono; [exact H|]. eapply tmono_trans; [exact M|]. apply tmono_tables. reflexivity.
  Qed.
End Flags.
