(* Extraction of the equality-relation model of the write protocol (ExtrOcamlBasic only). *)
From KDB Require Import PropEq.
Require Import ExtrOcamlBasic.
Extraction Language OCaml.
Extraction "eqmodel.ml" erun_f eqv_of.
