(* Extraction of the executable models.  ExtrOcamlBasic only (bool, option, unit, list, prod,
   sumbool, sumor mapped to OCaml's own types); nat, N, Z, positive stay the extracted datatypes.
   The output file is written to the directory coqc runs in (bin/verif runs it in out/extract). *)
From KDB Require Import SigDefs.
Require Import ExtrOcamlBasic.
Extraction Language OCaml.
Extraction "sigmodel.ml" step step1 script run world0 held_labels.
