(* Structural invariant of the signal-layer model and the contract satisfied by re-entrant slot bodies.
   winv   : every Impl's connection table is well formed and its issued-id history is duplicate free;
            holds in every reachable world, also in the middle of (nested) emissions and evaluation passes.
   wle    : "w' is what w can become while some emissions / passes are on the call stack":
            emitting flags, evaluating flags are untouched, the table of an emitting Impl keeps its occupancy
            (only connection flags change), the queue of an evaluating evaluator only grows at the end.
   The interpreter's recursive knot (rec_script) is abstracted by a variable R; every lemma is proved for an
   arbitrary R satisfying the contract, and `script fuel` satisfies it by induction on fuel. *)
From KDB Require Import Util UtilProofs GenIdx GenIdxProofs SigDefs.

(* ---------------------------------------------------------------------------------------------- *)
(* an entry is marked toBeDisconnected only while m_disconnectedDuringEmit is set *)
Definition no_stray_mark (m : impl) : Prop :=
  forall k c, g_get (i_conns m) k = Some c -> c_tbd c = true -> i_dde m = true.

Definition impl_ok (m : impl) : Prop :=
  wf (i_conns m) /\ fresh_inv (g_alloc (i_conns m)) (i_issued m) /\ no_stray_mark m /\
  (i_emitting m = true -> i_alive m = true).

Definition winv (w : world) : Prop := forall i m, get_impl w i = Some m -> impl_ok m.

(* occupancy of a table: which positions hold a value, and of which generation *)
Definition keys (g : garray conn) : list (option N) := map (option_map fst) (g_slots g).

(* ids are only ever added to the history, and an id that went stale stays stale *)
Definition issued_mono (m m' : impl) : Prop :=
  (exists l, i_issued m' = l ++ i_issued m) /\
  (forall k, stale (g_alloc (i_conns m)) k -> stale (g_alloc (i_conns m')) k).

(* during an emission an entry keeps its flavour, and a disconnect requested for it stays requested until the emission ends *)
Definition marks_kept (m m' : impl) : Prop :=
  forall k c, g_get (i_conns m) k = Some c ->
    exists c', g_get (i_conns m') k = Some c' /\ c_kind c' = c_kind c /\ (c_tbd c = true -> c_tbd c' = true).

Definition impl_keeps (m m' : impl) : Prop :=
  i_emitting m' = i_emitting m /\
  (i_emitting m = true -> keys (i_conns m') = keys (i_conns m) /\ g_alloc (i_conns m') = g_alloc (i_conns m)) /\
  (i_emitting m = false -> i_dde m = false -> i_dde m' = false) /\
  (i_emitting m = true -> marks_kept m m').

Definition ev_keeps (s s' : evst) : Prop :=
  e_evaluating s' = e_evaluating s /\
  (e_evaluating s = true -> e_alive s' = e_alive s /\ exists l, e_queue s' = e_queue s ++ l).

Definition emitting_in (w : world) (i : nat) : Prop := exists m, get_impl w i = Some m /\ i_emitting m = true.

(* P: Impls whose flags/occupancy must be kept; Q: evaluators whose flag/queue must be kept;
   T: Impls for which no direct slot invocation may be logged while they were already emitting *)
Record wle_on (P Q T : nat -> Prop) (w w' : world) : Prop := {
  wle_impls : forall i m, get_impl w i = Some m ->
              exists m', get_impl w' i = Some m' /\ issued_mono m m' /\ (P i -> impl_keeps m m');
  wle_evs : forall e s, lookup (w_evs w) e = Some s ->
            exists s', lookup (w_evs w') e = Some s' /\ (Q e -> ev_keeps s s');
  wle_new_impls : forall i m', get_impl w' i = Some m' -> get_impl w i = None -> P i ->
                  i_emitting m' = false /\ i_dde m' = false;
  wle_new_evs : forall e s', lookup (w_evs w') e = Some s' -> lookup (w_evs w) e = None -> Q e ->
                e_evaluating s' = false;
  wle_trace : exists l, w_trace w' = l ++ w_trace w /\
              forall i k lab args, In (EvSlot (Some (i, k)) true lab args) l -> T i -> P i -> ~ emitting_in w i }.

Definition all (_ : nat) : Prop := True.
Definition wle := wle_on all all all.

Lemma issued_mono_refl m : issued_mono m m.
Proof. split; [exists []; reflexivity|auto]. Qed.
Lemma issued_mono_trans a b c : issued_mono a b -> issued_mono b c -> issued_mono a c.
Proof.
  intros [[l1 H1] S1] [[l2 H2] S2]. split; [|auto].
  exists (l2 ++ l1). rewrite H2, H1, app_assoc; reflexivity.
Qed.
Lemma impl_keeps_refl m : impl_keeps m m.
Proof. split; [|split; [|split]]; auto. intros _ k c Hc. exists c; auto. Qed.
Lemma impl_keeps_trans a b c : impl_keeps a b -> impl_keeps b c -> impl_keeps a c.
Proof.
  intros (E1 & S1 & D1 & M1) (E2 & S2 & D2 & M2). split; [congruence|]. split; [|split].
  - intros Ha. destruct (S1 Ha) as [K1 A1]. rewrite <- E1 in Ha. destruct (S2 Ha) as [K2 A2]. split; congruence.
  - intros Ha Hd. apply D2; [congruence|]. apply D1; assumption.
  - intros Ha k c0 Hc. destruct (M1 Ha k c0 Hc) as (c1 & Hc1 & Hk1 & Ht1). rewrite <- E1 in Ha.
    destruct (M2 Ha k c1 Hc1) as (c2 & Hc2 & Hk2 & Ht2). exists c2. split; [exact Hc2|]. split; [congruence|auto].
Qed.
Lemma impl_keeps_same_conns m m' :
  i_emitting m' = i_emitting m -> i_conns m' = i_conns m -> (i_emitting m = false -> i_dde m = false -> i_dde m' = false) -> impl_keeps m m'.
Proof.
  intros E C D. split; [exact E|]. split; [intros _; rewrite C; auto|]. split; [exact D|]. intros _ k c Hc. rewrite C. exists c; auto.
Qed.
Lemma ev_keeps_refl s : ev_keeps s s.
Proof. split; auto. intros _. split; auto. exists []. symmetry; apply app_nil_r. Qed.
Lemma ev_keeps_trans a b c : ev_keeps a b -> ev_keeps b c -> ev_keeps a c.
Proof.
  intros [E1 S1] [E2 S2]. split; [congruence|]. intros Ha.
  destruct (S1 Ha) as [A1 [l1 Q1]]. rewrite <- E1 in Ha. destruct (S2 Ha) as [A2 [l2 Q2]].
  split; [congruence|]. exists (l1 ++ l2). rewrite Q2, Q1, app_assoc; reflexivity.
Qed.

Lemma wle_on_refl (P Q T : nat -> Prop) w : wle_on P Q T w w.
Proof.
  constructor.
  - intros i m H; exists m; split; [assumption|]. split; [apply issued_mono_refl|intros _; apply impl_keeps_refl].
  - intros e s H; exists s; split; [assumption|intros _; apply ev_keeps_refl].
  - intros i m' H1 H2; congruence.
  - intros e s' H1 H2; congruence.
  - exists []; split; [reflexivity|intros ? ? ? ? []].
Qed.

Lemma wle_on_trans (P Q T : nat -> Prop) a b c : wle_on P Q T a b -> wle_on P Q T b c -> wle_on P Q T a c.
Proof.
  intros [I1 E1 NI1 NE1 [l1 [T1 V1]]] [I2 E2 NI2 NE2 [l2 [T2 V2]]]. constructor.
  - intros i m H. destruct (I1 _ _ H) as (m' & H' & M1 & K1). destruct (I2 _ _ H') as (m'' & H'' & M2 & K2).
    exists m''; split; [assumption|]. split; [eapply issued_mono_trans; eassumption|].
    intros Hp. eapply impl_keeps_trans; eauto.
  - intros e s H. destruct (E1 _ _ H) as (s' & H' & K1). destruct (E2 _ _ H') as (s'' & H'' & K2).
    exists s''; split; [assumption|]. intros Hq. eapply ev_keeps_trans; eauto.
  - intros i m'' Hc Ha Hp. destruct (get_impl b i) as [mb|] eqn:Hb.
    + destruct (NI1 _ _ Hb Ha Hp) as [Eb Db]. destruct (I2 _ _ Hb) as (m2 & H2 & _ & K2).
      rewrite Hc in H2; inversion H2; subst m2. destruct (K2 Hp) as (E & _ & D).
      split; [congruence|]. apply D; assumption.
    + eapply NI2; eassumption.
  - intros e s'' Hc Ha Hq. destruct (lookup (w_evs b) e) as [sb|] eqn:Hb.
    + pose proof (NE1 _ _ Hb Ha Hq) as Eb. destruct (E2 _ _ Hb) as (s2 & H2 & K2).
      rewrite Hc in H2; inversion H2; subst s2. destruct (K2 Hq) as (E & _). congruence.
    + eapply NE2; eassumption.
  - exists (l2 ++ l1). split; [rewrite T2, T1, app_assoc; reflexivity|].
    intros i k lab args Hin Ht Hp. apply in_app_or in Hin. destruct Hin as [Hin|Hin].
    + intros (m & Hm & Hem). destruct (I1 _ _ Hm) as (m' & Hm' & _ & K). destruct (K Hp) as (E & _).
      eapply V2; [exact Hin|exact Ht|exact Hp|]. exists m'; split; [assumption|congruence].
    + eapply V1; eassumption.
Qed.

Lemma wle_on_weaken (P P' Q Q' T T' : nat -> Prop) w w' :
  (forall i, P' i -> P i) -> (forall e, Q' e -> Q e) -> (forall i, T' i -> T i) -> wle_on P Q T w w' -> wle_on P' Q' T' w w'.
Proof.
  intros HP HQ HT [I E NI NE [l [Tl Vl]]]. constructor.
  - intros i m H. destruct (I _ _ H) as (m' & H' & M & K). exists m'. split; [assumption|]. split; [assumption|].
    intros Hp. apply K. apply HP; assumption.
  - intros e s H. destruct (E _ _ H) as (s' & H' & K). exists s'; split; [assumption|].
    intros Hq. apply K. apply HQ; assumption.
  - intros i m' H1 H2 Hp. eapply NI; eauto.
  - intros e s' H1 H2 Hq. eapply NE; eauto.
  - exists l; split; [assumption|]. intros i k lab args Hin Ht Hp. eapply Vl; eauto.
Qed.

(* ---------------------------------------------------------------------------------------------- *)
(* frame lemmas for the world setters *)

Lemma get_put_impl w i m j :
  get_impl (put_impl w i m) j = if Nat.eqb i j then (if Nat.ltb i (length (w_impls w)) then Some m else None) else get_impl w j.
Proof. unfold get_impl, put_impl; cbn. apply nth_upd. Qed.

Lemma get_put_same w i m m0 : get_impl w i = Some m0 -> get_impl (put_impl w i m) i = Some m.
Proof.
  intros H. rewrite get_put_impl, Nat.eqb_refl.
  assert (i < length (w_impls w)) by (apply nth_error_Some; unfold get_impl in H; congruence).
  destruct (Nat.ltb_spec i (length (w_impls w))); [reflexivity|lia].
Qed.

Lemma get_put_other w i m j : i <> j -> get_impl (put_impl w i m) j = get_impl w j.
Proof. intros H. rewrite get_put_impl. destruct (Nat.eqb_spec i j); [contradiction|reflexivity]. Qed.

Lemma winv_put w i m : winv w -> impl_ok m -> winv (put_impl w i m).
Proof.
  intros Hw Hm j mj Hj. rewrite get_put_impl in Hj.
  destruct (Nat.eqb i j).
  - destruct (Nat.ltb i (length (w_impls w))); inversion Hj; subst; assumption.
  - eapply Hw; eassumption.
Qed.

Lemma wle_put (P Q T : nat -> Prop) w i m m' :
  get_impl w i = Some m -> issued_mono m m' -> (P i -> impl_keeps m m') -> wle_on P Q T w (put_impl w i m').
Proof.
  intros Hg Hm Hk. constructor.
  - intros j mj Hj. destruct (Nat.eq_dec i j) as [<-|Hne].
    + rewrite Hg in Hj; inversion Hj; subst mj. exists m'. split; [eapply get_put_same; eassumption|auto].
    + exists mj. rewrite get_put_other by assumption. split; [assumption|].
      split; [apply issued_mono_refl|intros _; apply impl_keeps_refl].
  - intros e s H; exists s; split; [assumption|intros _; apply ev_keeps_refl].
  - intros j mj' Hj Hn Hp. destruct (Nat.eq_dec i j) as [<-|Hne]; [congruence|].
    rewrite get_put_other in Hj by assumption. congruence.
  - intros e s' H1 H2; cbn in H1; congruence.
  - exists []; split; [reflexivity|intros ? ? ? ? []].
Qed.

Definition nondirect (l : list event) : Prop := forall src lab args, ~ In (EvSlot src true lab args) l.
Lemma nondirect_nil : nondirect [].
Proof. intros ? ? ? []. Qed.
Lemma nondirect_one e : (forall src lab args, e <> EvSlot src true lab args) -> nondirect [e].
Proof. intros H src lab args [E|[]]. eapply H; eauto. Qed.

Lemma wle_same_impls_evs_gen (P Q T : nat -> Prop) w w' :
  w_impls w' = w_impls w -> w_evs w' = w_evs w ->
  (exists l, w_trace w' = l ++ w_trace w /\
             forall i k lab args, In (EvSlot (Some (i, k)) true lab args) l -> T i -> P i -> ~ emitting_in w i) ->
  wle_on P Q T w w'.
Proof.
  intros Hi He Ht. constructor; [| | | |assumption].
  - intros i m H. exists m. unfold get_impl in *. rewrite Hi. split; [assumption|].
    split; [apply issued_mono_refl|intros _; apply impl_keeps_refl].
  - intros e s H. exists s. rewrite He. split; [assumption|intros _; apply ev_keeps_refl].
  - intros i m' H1 H2. unfold get_impl in *. rewrite Hi in H1. congruence.
  - intros e s' H1 H2. rewrite He in H1. congruence.
Qed.

Lemma wle_same_impls_evs (P Q T : nat -> Prop) w w' :
  w_impls w' = w_impls w -> w_evs w' = w_evs w -> (exists l, w_trace w' = l ++ w_trace w /\ nondirect l) -> wle_on P Q T w w'.
Proof.
  intros Hi He [l [Ht Hn]]. apply wle_same_impls_evs_gen; [assumption|assumption|].
  exists l; split; [assumption|intros i k lab args Hin; exfalso; eapply Hn; eauto].
Qed.

Lemma wle_log_direct (P Q T : nat -> Prop) w i k lab args :
  ~ T i -> wle_on P Q T w (log (EvSlot (Some (i, k)) true lab args) w).
Proof.
  intros Hn. apply wle_same_impls_evs_gen; [reflexivity|reflexivity|].
  eexists [_]; split; [reflexivity|]. intros i' k' lab' args' [E|[]] Ht. inversion E; subst. contradiction.
Qed.

Lemma winv_same_impls w w' : w_impls w' = w_impls w -> winv w -> winv w'.
Proof. intros H Hw i m Hg. unfold get_impl in Hg. rewrite H in Hg. eapply Hw; eassumption. Qed.

Ltac nd := first [ apply nondirect_nil | apply nondirect_one; (let E := fresh in intros ? ? ? E; discriminate E) ].
Ltac same_impls :=
  first [ apply wle_same_impls_evs; [reflexivity|reflexivity|first [exists []; split; [reflexivity|nd] | eexists [_]; split; [reflexivity|nd]]]
        | eapply winv_same_impls; [reflexivity|eassumption] ].

Lemma wle_set_evs (P Q T : nat -> Prop) w e s s' :
  lookup (w_evs w) e = Some s -> (Q e -> ev_keeps s s') -> wle_on P Q T w (set_evs w (bind_key (w_evs w) e s')).
Proof.
  intros He Hk. constructor.
  - intros i m H. exists m. split; [assumption|]. split; [apply issued_mono_refl|intros _; apply impl_keeps_refl].
  - intros e0 s0 H0. cbn [w_evs set_evs]. rewrite lookup_bind.
    destruct (Nat.eqb_spec e0 e) as [->|Hne].
    + rewrite He in H0; inversion H0; subst s0. exists s'; auto.
    + exists s0; split; [assumption|intros _; apply ev_keeps_refl].
  - intros i m' H1 H2. unfold get_impl in *; cbn in H1; congruence.
  - intros e0 s0 H1 H2. cbn [w_evs set_evs] in H1. rewrite lookup_bind in H1.
    destruct (Nat.eqb_spec e0 e) as [->|Hne]; congruence.
  - exists []; split; [reflexivity|intros ? ? ? ? []].
Qed.

Lemma wle_log (P Q T : nat -> Prop) w ev :
  (forall src lab args, ev <> EvSlot src true lab args) -> wle_on P Q T w (log ev w).
Proof.
  intros H. apply wle_same_impls_evs; [reflexivity|reflexivity|eexists [_]; split; [reflexivity|apply nondirect_one; assumption]].
Qed.

(* ---------------------------------------------------------------------------------------------- *)
(* table-level facts *)

Lemma keys_update (g : garray conn) k c : g_get g k <> None -> keys (g_update g k c) = keys g.
Proof.
  intros H. unfold g_update. destruct (g_get g k) as [c0|] eqn:Hg; [|contradiction].
  unfold keys; cbn [g_slots]. apply get_slot in Hg.
  apply nth_error_ext_eq'. intros j. rewrite !nth_error_map.
  destruct (Nat.eq_dec (gi_index k) j) as [<-|Hne].
  - rewrite nth_upd_same by (apply nth_error_Some; congruence). rewrite Hg. reflexivity.
  - rewrite nth_upd_other by assumption. reflexivity.
Qed.

Lemma marks_update m m' k c c' :
  wf (i_conns m) -> g_get (i_conns m) k = Some c -> c_kind c' = c_kind c -> (c_tbd c = true -> c_tbd c' = true) ->
  i_conns m' = g_update (i_conns m) k c' -> marks_kept m m'.
Proof.
  intros Hwf Hc Hk Ht E k0 c0 Hc0. rewrite E. destruct (update_spec (i_conns m) k c' Hwf) as (_ & Hg & _). rewrite Hg.
  destruct (gidx_eqb k k0) eqn:Ek.
  - apply gidx_eqb_eq in Ek. subst k0. rewrite Hc. exists c'. split; [reflexivity|]. assert (c0 = c) by congruence. subst c0. auto.
  - exists c0. auto.
Qed.

Lemma alloc_erase (g : garray conn) k : wf g -> g_alloc (g_erase g k) = fst (ga_deallocate (g_alloc g) k).
Proof.
  intros (Hwa & _). destruct (wf_alloc_deallocate _ k Hwa) as (_ & Hok & _ & _ & _ & Hsame).
  unfold g_erase. destruct (ga_deallocate (g_alloc g) k) as [al okb] eqn:Hd. cbn [fst snd] in *.
  destruct okb; [reflexivity|]. symmetry. apply Hsame. congruence.
Qed.

Lemma impl_ok_erase m k : impl_ok m -> impl_ok (impl_with_conns m (g_erase (i_conns m) k)).
Proof.
  intros (Hwf & Hfr & Hmk & Hal). split; [|split; [|split]]; cbn [i_conns i_issued impl_with_conns].
  - apply erase_spec; assumption.
  - rewrite alloc_erase by assumption. apply fresh_inv_deallocate; [apply Hwf|assumption].
  - intros k' c Hg Ht. cbn [i_conns i_dde impl_with_conns] in *.
    destruct (erase_spec _ k Hwf) as (_ & Hget & _). rewrite Hget in Hg.
    destruct (gidx_eqb k k'); [discriminate|]. eapply Hmk; eassumption.
  - exact Hal.
Qed.

(* overwrite an entry by one with the same mark (blocking), or by a marked one while setting the flag *)
Lemma impl_ok_update_same m k c c0 :
  impl_ok m -> g_get (i_conns m) k = Some c0 -> c_tbd c = c_tbd c0 ->
  impl_ok (impl_with_conns m (g_update (i_conns m) k c)).
Proof.
  intros (Hwf & Hfr & Hmk & Hal) Hc0 Ht. destruct (update_spec _ k c Hwf) as (Hwf' & Hget & _ & Ha & _).
  split; [|split; [|split]]; cbn [i_conns i_issued impl_with_conns]; [assumption|rewrite Ha; assumption| |exact Hal].
  intros k' c' Hg Hm'. cbn [i_conns i_dde impl_with_conns] in *. rewrite Hget in Hg.
  destruct (gidx_eqb k k') eqn:E.
  - rewrite Hc0 in Hg. inversion Hg; subst c'. eapply Hmk; [exact Hc0|congruence].
  - eapply Hmk; eassumption.
Qed.

Lemma impl_ok_mark m k c :
  impl_ok m -> i_emitting m = true ->
  impl_ok (impl_with_flags (impl_with_conns m (g_update (i_conns m) k c)) true true).
Proof.
  intros (Hwf & Hfr & Hmk & Hal) Hem. destruct (update_spec _ k c Hwf) as (Hwf' & _ & _ & Ha & _).
  split; [|split; [|split]]; cbn [i_conns i_issued i_alive i_emitting impl_with_conns impl_with_flags];
    [assumption|rewrite Ha; assumption| |intros _; apply Hal; assumption].
  intros k' c' _ _. reflexivity.
Qed.

Lemma impl_ok_emit_start m : impl_ok m -> impl_ok (impl_with_owner (impl_with_flags m true (i_dde m)) (i_owned m) true).
Proof. intros (Hwf & Hfr & Hmk & Hal). split; [|split; [|split]]; auto. Qed.
Lemma impl_ok_emit_end m : impl_ok m -> impl_ok (impl_with_flags m false (i_dde m)).
Proof. intros (Hwf & Hfr & Hmk & Hal). split; [|split; [|split]]; auto. cbn. discriminate. Qed.
Lemma impl_ok_release m : impl_ok m -> impl_ok (impl_with_owner m false (i_emitting m)).
Proof. intros (Hwf & Hfr & Hmk & Hal). split; [|split; [|split]]; auto. Qed.

(* ---------------------------------------------------------------------------------------------- *)
(* primitives of the model *)

Lemma wle_upgrade_impl (Q : nat -> Prop) w w' i m0 :
  get_impl w i = Some m0 -> i_emitting m0 = false ->
  wle_on (fun j => j <> i) Q (fun j => j <> i) w w' ->
  (forall m m', get_impl w i = Some m -> get_impl w' i = Some m' -> impl_keeps m m') ->
  wle_on all Q all w w'.
Proof.
  intros H0 Hem0 [I E NI NE [l [Tl Vl]]] Hi. constructor; [|assumption| |assumption|].
  - intros j m H. destruct (I _ _ H) as (m' & H' & M & K). exists m'; split; [assumption|]. split; [assumption|].
    intros _. destruct (Nat.eq_dec j i) as [->|Hne]; [eapply Hi; eassumption|apply K; assumption].
  - intros j m' H1 H2 _. destruct (Nat.eq_dec j i) as [->|Hne]; [congruence|]. eapply NI; eassumption.
  - exists l; split; [assumption|]. intros j k lab args Hin _ _.
    destruct (Nat.eq_dec j i) as [->|Hne].
    + intros (m & Hm & Hem). congruence.
    + eapply Vl; eassumption.
Qed.

Lemma wle_upgrade_ev (P T : nat -> Prop) w w' e s0 :
  lookup (w_evs w) e = Some s0 ->
  wle_on P (fun j => j <> e) T w w' ->
  (forall s s', lookup (w_evs w) e = Some s -> lookup (w_evs w') e = Some s' -> ev_keeps s s') ->
  wle_on P all T w w'.
Proof.
  intros H0 [I E NI NE Tr] He. constructor; [assumption| |assumption| |assumption].
  - intros j s H. destruct (E _ _ H) as (s' & H' & K). exists s'; split; [assumption|].
    intros _. destruct (Nat.eq_dec j e) as [->|Hne]; [eapply He; eassumption|apply K; assumption].
  - intros j s' H1 H2 _. destruct (Nat.eq_dec j e) as [->|Hne]; [congruence|]. eapply NE; eassumption.
Qed.

Ltac imono :=
  split; [exists []; reflexivity
         |intros ? ?; cbn [i_conns impl_with_conns impl_with_flags impl_with_owner]; try assumption].

Lemma ev_dequeue_ok w e h : winv w -> winv (ev_dequeue w e h) /\ wle w (ev_dequeue w e h).
Proof.
  intros Hw. unfold ev_dequeue. destruct (lookup (w_evs w) e) as [s|] eqn:He; [|split; [auto|apply wle_on_refl]].
  destruct (e_alive s); cbn [negb]; [|split; [auto|apply wle_on_refl]].
  destruct (e_evaluating s) eqn:Hev; [split; [auto|apply wle_on_refl]|].
  split; [same_impls|].
  eapply wle_set_evs; [eassumption|]. intros _. split; cbn; [congruence|]. rewrite Hev; discriminate.
Qed.

Lemma ev_enqueue_ok w e h v : winv w -> winv (ev_enqueue w e h v) /\ wle w (ev_enqueue w e h v).
Proof.
  intros Hw. unfold ev_enqueue. destruct (lookup (w_evs w) e) as [s|] eqn:He; [|split; [auto|apply wle_on_refl]].
  split; [same_impls|].
  eapply wle_on_trans; [|apply wle_log; (let E := fresh in intros ? ? ? E; discriminate E)].
  eapply wle_set_evs; [eassumption|]. intros _. split; cbn; [reflexivity|]. intros _. split; [reflexivity|eauto].
Qed.

Lemma impl_disconnect_ok w i k : winv w -> winv (impl_disconnect w i k) /\ wle w (impl_disconnect w i k).
Proof.
  intros Hw. unfold impl_disconnect. destruct (get_impl w i) as [m|] eqn:Hm; [|split; [auto|apply wle_on_refl]].
  pose proof (Hw _ _ Hm) as Hok.
  destruct (g_get (i_conns m) k) as [c|] eqn:Hc.
  - destruct (i_emitting m) eqn:Hem.
    + split.
      * apply winv_put; [assumption|]. apply impl_ok_mark; assumption.
      * eapply wle_put; [eassumption|imono|].
        { unfold g_update. rewrite Hc. assumption. }
        intros _. split; [cbn; congruence|split; [|split]].
        -- intros _. cbn. split; [apply keys_update; congruence|].
           unfold g_update. rewrite Hc. reflexivity.
        -- intros He; congruence.
        -- intros _. eapply (marks_update m _ k c (conn_set_tbd c)); [apply Hok|exact Hc|reflexivity|reflexivity|reflexivity].
    + set (w1 := match c_kind c with
                 | KDeferred e => if ev_alive w e then ev_dequeue w e {| h_impl := Some i; h_id := Some k |} else w
                 | _ => w end).
      assert (H1 : winv w1 /\ wle w w1).
      { unfold w1. destruct (c_kind c); try (split; [auto|apply wle_on_refl]).
        destruct (ev_alive w ev); [apply ev_dequeue_ok; assumption|split; [auto|apply wle_on_refl]]. }
      assert (Hm1 : get_impl w1 i = Some m).
      { unfold w1. destruct (c_kind c); try assumption. destruct (ev_alive w ev); [|assumption].
        unfold ev_dequeue. destruct (lookup (w_evs w) ev) as [s|]; [|assumption].
        destruct (negb (e_alive s)); [assumption|]. destruct (e_evaluating s); assumption. }
      destruct H1 as [Hw1 Hle1]. split.
      * apply winv_put; [auto|]. apply impl_ok_erase. assumption.
      * eapply wle_on_trans; [exact Hle1|].
        eapply wle_put; [eassumption|imono|].
        { rewrite alloc_erase by apply Hok. apply stale_deallocate; [apply Hok|assumption]. }
        intros _. split; [reflexivity|split; [|split]]; cbn; [rewrite Hem; discriminate|auto|rewrite Hem; discriminate].
  - pose proof Hok as (Hwf & Hfr & Hmk & Hal). destruct (erase_spec _ k Hwf) as (_ & _ & _ & Hnoop & _).
    rewrite (Hnoop Hc).
    assert (E : impl_with_conns m (i_conns m) = m) by (destruct m; reflexivity).
    rewrite E. split.
    + apply winv_put; assumption.
    + eapply wle_put; [eassumption|imono|]. intros _. apply impl_keeps_refl.
Qed.

Lemma disconnect_where_ok p idxs : forall w i, winv w -> winv (disconnect_where p w i idxs) /\ wle w (disconnect_where p w i idxs).
Proof.
  induction idxs as [|x r IH]; intros w i Hw; cbn [disconnect_where]; [split; [auto|apply wle_on_refl]|].
  set (w' := match get_impl w i with
             | Some m => match g_indexAt (i_conns m) x with
                         | Some k => match g_get (i_conns m) k with
                                     | Some c => if p c then impl_disconnect w i k else w
                                     | None => w end
                         | None => w end
             | None => w end).
  assert (H1 : winv w' /\ wle w w').
  { unfold w'. destruct (get_impl w i) as [m|]; [|split; [auto|apply wle_on_refl]].
    destruct (g_indexAt (i_conns m) x) as [k|]; [|split; [auto|apply wle_on_refl]].
    destruct (g_get (i_conns m) k) as [c|]; [|split; [auto|apply wle_on_refl]].
    destruct (p c); [apply impl_disconnect_ok; assumption|split; [auto|apply wle_on_refl]]. }
  destruct H1 as [Hw' Hle]. destruct (IH w' i Hw') as [Hw2 Hle2].
  split; [assumption|eapply wle_on_trans; eassumption].
Qed.

Lemma impl_disconnect_all_ok w i : winv w -> winv (impl_disconnect_all w i) /\ wle w (impl_disconnect_all w i).
Proof.
  intros Hw. unfold impl_disconnect_all. destruct (get_impl w i); [|split; [auto|apply wle_on_refl]].
  apply disconnect_where_ok; assumption.
Qed.

Lemma release_owner_ok w i : winv w -> winv (release_owner w i) /\ wle w (release_owner w i).
Proof.
  intros Hw. unfold release_owner. destruct (get_impl w i) as [m|] eqn:Hm; [|split; [auto|apply wle_on_refl]].
  split.
  - apply winv_put; [assumption|]. apply impl_ok_release. eapply Hw; eassumption.
  - eapply wle_put; [eassumption|imono|]. intros _. apply impl_keeps_same_conns; cbn; auto.
Qed.

Lemma sig_disconnect_all_ok w s : winv w -> winv (sig_disconnect_all w s) /\ wle w (sig_disconnect_all w s).
Proof.
  intros Hw. unfold sig_disconnect_all. destruct (lookup (w_sigs w) s) as [[i|]|]; try (split; [auto|apply wle_on_refl]).
  destruct (impl_disconnect_all_ok w i Hw) as [H1 L1].
  destruct (release_owner_ok _ i H1) as [H2 L2].
  split; [same_impls|].
  eapply wle_on_trans; [exact L1|]. eapply wle_on_trans; [exact L2|]. same_impls.
Qed.

Lemma handle_disconnect_ok w h : winv w -> winv (handle_disconnect w h) /\ wle w (handle_disconnect w h).
Proof.
  intros Hw. unfold handle_disconnect. destruct (checked_lock w h) as [[i k]|]; [|split; [auto|apply wle_on_refl]].
  apply impl_disconnect_ok; assumption.
Qed.

Lemma impl_block_ok w i k b : winv w -> winv (fst (impl_block w i k b)) /\ wle w (fst (impl_block w i k b)).
Proof.
  intros Hw. unfold impl_block. destruct (get_impl w i) as [m|] eqn:Hm; [|split; [auto|apply wle_on_refl]].
  destruct (g_get (i_conns m) k) as [c|] eqn:Hc; [|split; [auto|apply wle_on_refl]].
  cbn [fst]. split.
  - apply winv_put; [assumption|]. eapply impl_ok_update_same; [eapply Hw; eassumption|eassumption|reflexivity].
  - eapply wle_put; [eassumption|imono|].
    { unfold g_update. rewrite Hc. assumption. }
    intros _. split; [reflexivity|split; [|split]]; cbn; [|auto|].
    + intros _. split; [apply keys_update; congruence|]. unfold g_update. rewrite Hc. reflexivity.
    + intros _. eapply (marks_update m _ k c (conn_set_blocked c b)); [apply (Hw _ _ Hm)|exact Hc|reflexivity|intros Ht; exact Ht|reflexivity].
Qed.

Lemma impl_disconnect_nonemitting w i k m c :
  get_impl w i = Some m -> i_emitting m = false -> g_get (i_conns m) k = Some c ->
  get_impl (impl_disconnect w i k) i = Some (impl_with_conns m (g_erase (i_conns m) k)).
Proof.
  intros Hm Hem Hc. unfold impl_disconnect. rewrite Hm, Hc, Hem.
  set (w1 := match c_kind c with
             | KDeferred e => if ev_alive w e then ev_dequeue w e {| h_impl := Some i; h_id := Some k |} else w
             | _ => w end).
  assert (Hm1 : get_impl w1 i = Some m).
  { unfold w1. destruct (c_kind c); try assumption. destruct (ev_alive w ev); [|assumption].
    unfold ev_dequeue. destruct (lookup (w_evs w) ev) as [s|]; [|assumption].
    destruct (negb (e_alive s)); [assumption|]. destruct (e_evaluating s); assumption. }
  eapply get_put_same; eassumption.
Qed.

Definition clear_at (p : conn -> bool) (m : impl) (x : nat) : Prop :=
  forall g c, nth_error (g_slots (i_conns m)) x = Some (Some (g, c)) -> p c = false.
Definition unmarked_at := clear_at c_tbd.

(* the sweeps of finishEmit / disconnectAll: on a non-emitting Impl every visited position ends up without an
   entry satisfying p; positions keep being clear; nothing but the table of that Impl changes in it *)
Lemma sweep_ok p idxs : forall w i m, winv w -> get_impl w i = Some m -> i_emitting m = false ->
  exists m', get_impl (disconnect_where p w i idxs) i = Some m' /\ i_emitting m' = false /\
             i_dde m' = i_dde m /\ i_owned m' = i_owned m /\ i_alive m' = i_alive m /\
             g_size (i_conns m') = g_size (i_conns m) /\
             (forall x, In x idxs -> clear_at p m' x) /\
             (forall x, clear_at p m x -> clear_at p m' x).
Proof.
  induction idxs as [|x r IH]; intros w i m Hw Hm Hem; cbn [disconnect_where].
  - exists m. repeat split; auto. intros y [].
  - rewrite Hm. pose proof (Hw _ _ Hm) as (Hwf & Hfr & Hmk & Hal).
    destruct (g_indexAt (i_conns m) x) as [k|] eqn:Hix.
    + destruct (indexAt_get _ _ _ Hwf Hix) as (Hkx & c & Hc). rewrite Hc.
      destruct (p c) eqn:Ht.
      * pose proof (impl_disconnect_nonemitting w i k m c Hm Hem Hc) as Hm1.
        destruct (impl_disconnect_ok w i k Hw) as [Hw1 _].
        destruct (erase_spec _ k Hwf) as (_ & _ & Hsz & _ & Hoth & Hat).
        destruct (IH _ i _ Hw1 Hm1 Hem) as (m' & Hg & He & Hd & Ho & Hl & Hs & Hin & Hpres).
        exists m'. split; [assumption|]. split; [assumption|]. split; [assumption|]. split; [assumption|].
        split; [assumption|].
        split; [cbn [i_conns impl_with_conns] in Hs; congruence|].
        assert (Hx1 : clear_at p (impl_with_conns m (g_erase (i_conns m) k)) x).
        { intros g c' Hs'. cbn [i_conns impl_with_conns] in Hs'. rewrite <- Hkx in Hs'.
          rewrite Hat in Hs' by congruence. discriminate. }
        split.
        -- intros y [<-|Hy]; [apply Hpres; assumption|apply Hin; assumption].
        -- intros y Hy. apply Hpres. intros g c' Hs'. cbn [i_conns impl_with_conns] in Hs'.
           destruct (Nat.eq_dec y (gi_index k)) as [->|Hne].
           ++ rewrite Hat in Hs' by congruence. discriminate.
           ++ rewrite Hoth in Hs' by assumption. eapply Hy; eassumption.
      * destruct (IH _ i _ Hw Hm Hem) as (m' & Hg & He & Hd & Ho & Hl & Hs & Hin & Hpres).
        exists m'. repeat (split; [assumption|]). split; [|assumption].
        intros y [<-|Hy]; [|apply Hin; assumption]. apply Hpres.
        intros g c' Hs'. apply get_slot in Hc. rewrite Hkx in Hc. rewrite Hc in Hs'. inversion Hs'; subst; assumption.
    + destruct (IH _ i _ Hw Hm Hem) as (m' & Hg & He & Hd & Ho & Hl & Hs & Hin & Hpres).
      exists m'. repeat (split; [assumption|]). split; [|assumption].
      intros y [<-|Hy]; [|apply Hin; assumption]. apply Hpres.
      intros g c' Hs'.
      assert (Hix' : g_indexAt (i_conns m) x = Some {| gi_index := x; gi_gen := g |}).
      { apply (indexAt_slot _ _ _ Hwf). exists c'; cbn; auto. }
      congruence.
Qed.

Lemma finish_emit_ok w i n :
  winv w -> (forall m, get_impl w i = Some m -> g_size (i_conns m) <= n) ->
  winv (finish_emit w i n) /\ wle_on (fun j => j <> i) all all w (finish_emit w i n).
Proof.
  intros Hw Hn. unfold finish_emit. destruct (get_impl w i) as [m|] eqn:Hm; [|split; [auto|apply wle_on_refl]].
  pose proof (Hw _ _ Hm) as Hok. specialize (Hn _ eq_refl).
  set (m1 := impl_with_flags m false (i_dde m)).
  set (w1 := put_impl w i m1).
  assert (Hw1 : winv w1) by (apply winv_put; [assumption|apply impl_ok_emit_end; assumption]).
  assert (Hg1 : get_impl w1 i = Some m1) by (eapply get_put_same; eassumption).
  assert (L1 : wle_on (fun j => j <> i) all all w w1).
  { eapply wle_put; [eassumption|imono|]. intros Hc; contradiction Hc; reflexivity. }
  set (w2 := if i_dde m then disconnect_where c_tbd w1 i (seq 0 n) else w1).
  assert (H2 : winv w2 /\ wle w1 w2).
  { unfold w2. destruct (i_dde m); [apply disconnect_where_ok; assumption|split; [auto|apply wle_on_refl]]. }
  destruct H2 as [Hw2 L2].
  assert (L12 : wle_on (fun j => j <> i) all all w w2).
  { eapply wle_on_trans; [exact L1|]. eapply wle_on_weaken; [| | |exact L2]; unfold all; auto. }
  assert (H3 : exists m2, get_impl w2 i = Some m2 /\ forall k c, g_get (i_conns m2) k = Some c -> c_tbd c = false).
  { unfold w2. destruct (i_dde m) eqn:Hd.
    - destruct (sweep_ok c_tbd (seq 0 n) w1 i m1 Hw1 Hg1 eq_refl) as (m2 & Hg2 & _ & _ & _ & _ & Hs & Hin & _).
      exists m2; split; [assumption|]. intros k c Hc.
      apply get_slot in Hc. eapply (Hin (gi_index k)); [|exact Hc].
      apply in_seq. split; [lia|]. cbn.
      assert (gi_index k < g_size (i_conns m2)) by (unfold g_size; apply nth_error_Some; congruence).
      cbn [i_conns m1 impl_with_flags] in Hs. lia.
    - exists m1; split; [assumption|]. intros k c Hc.
      destruct Hok as (_ & _ & Hmk & _). destruct (c_tbd c) eqn:Ht; [|reflexivity].
      specialize (Hmk k c Hc Ht). congruence. }
  destruct H3 as (m2 & Hg2 & Hclean). rewrite Hg2.
  pose proof (Hw2 _ _ Hg2) as (Hwf2 & Hfr2 & _).
  split.
  - apply winv_put; [assumption|]. split; [|split; [|split]]; cbn; [assumption|assumption| |discriminate].
    intros k c Hc Ht. cbn in Hc. rewrite (Hclean _ _ Hc) in Ht. discriminate.
  - eapply wle_on_trans; [exact L12|]. eapply wle_put; [eassumption|imono|].
    intros Hc; contradiction Hc; reflexivity.
Qed.

Lemma finish_emit_flag w i n m :
  get_impl w i = Some m -> winv w ->
  exists m', get_impl (finish_emit w i n) i = Some m' /\ i_emitting m' = false /\ i_dde m' = false.
Proof.
  intros Hm Hw. unfold finish_emit. rewrite Hm.
  set (w1 := put_impl w i (impl_with_flags m false (i_dde m))).
  assert (Hw1 : winv w1) by (apply winv_put; [assumption|apply impl_ok_emit_end; eapply Hw; eassumption]).
  assert (Hg1 : get_impl w1 i = Some (impl_with_flags m false (i_dde m))) by (eapply get_put_same; eassumption).
  set (w2 := if i_dde m then disconnect_where c_tbd w1 i (seq 0 n) else w1).
  assert (H2 : wle w1 w2).
  { unfold w2. destruct (i_dde m); [apply disconnect_where_ok; assumption|apply wle_on_refl]. }
  destruct (wle_impls _ _ _ _ _ H2 _ _ Hg1) as (m2 & Hg2 & _ & K). rewrite Hg2.
  eexists; split; [eapply get_put_same; eassumption|]. cbn. auto.
Qed.

(* ---------------------------------------------------------------------------------------------- *)
(* the contract of a re-entrant slot body, and its preservation by every piece of the interpreter *)

Definition good (R : world -> nat -> res) : Prop :=
  forall w sid, winv w -> winv (fst (R w sid)) /\ wle w (fst (R w sid)).

Definition okresT (T : nat -> Prop) (w : world) (r : res) : Prop := winv (fst r) /\ wle_on all all T w (fst r).
Definition okres := okresT all.

Lemma okresT_ok T w : winv w -> okresT T w (ok w).
Proof. intros H; split; [assumption|apply wle_on_refl]. Qed.
Lemma okresT_throw T w e : winv w -> okresT T w (throw w e).
Proof. intros H; split; [assumption|apply wle_on_refl]. Qed.
Lemma okresT_trans T w w1 r : winv w1 /\ wle_on all all T w w1 -> okresT T w1 r -> okresT T w r.
Proof. intros [H1 L1] [H2 L2]. split; [assumption|eapply wle_on_trans; eassumption]. Qed.
Lemma okresT_weaken (T T' : nat -> Prop) w r : (forall i, T' i -> T i) -> okresT T w r -> okresT T' w r.
Proof. intros H [H1 L1]. split; [assumption|]. eapply wle_on_weaken; [| | |exact L1]; auto. Qed.
Lemma okres_ok w : winv w -> okres w (ok w).
Proof. apply okresT_ok. Qed.
Lemma okres_throw w e : winv w -> okres w (throw w e).
Proof. apply okresT_throw. Qed.
Lemma okres_trans w w1 r : winv w1 /\ wle w w1 -> okres w1 r -> okres w r.
Proof. apply okresT_trans. Qed.

Section Contract.
  Variable pass_fuel : nat.
  Variable R : world -> nat -> res.
  Hypothesis HR : good R.

  (* a slot called from an evaluation pass *)
  Lemma invoke_slot_pass_ok w src label args sid : winv w -> okres w (invoke_slot R w src false label args sid).
  Proof.
    intros Hw. unfold invoke_slot.
    apply okres_trans with (w1 := log (EvSlot src false label args) w).
    - split; [same_impls|apply wle_log; (let E := fresh in intros ? ? ? E; discriminate E)].
    - apply HR. same_impls.
  Qed.

  (* a slot called from the emission walk of Impl i: the only direct invocation logged on behalf of i *)
  Lemma invoke_slot_direct_ok w i k label args sid :
    winv w -> okresT (fun j => j <> i) w (invoke_slot R w (Some (i, k)) true label args sid).
  Proof.
    intros Hw. unfold invoke_slot.
    apply okresT_trans with (w1 := log (EvSlot (Some (i, k)) true label args) w).
    - split; [same_impls|]. apply wle_log_direct. intros Hc; apply Hc; reflexivity.
    - eapply okresT_weaken; [|apply HR; same_impls]. unfold all; auto.
  Qed.

  Lemma fire_ok w i k c args : winv w -> okresT (fun j => j <> i) w (fire R w i k c args).
  Proof.
    intros Hw. unfold fire. destruct (c_kind c).
    - apply invoke_slot_direct_ok; assumption.
    - eapply okresT_trans; [|apply invoke_slot_direct_ok; same_impls]. split; same_impls.
    - eapply okresT_trans.
      + destruct (handle_disconnect_ok w {| h_impl := Some i; h_id := Some k |} Hw) as [H1 L1].
        split; [exact H1|]. eapply wle_on_weaken; [| | |exact L1]; unfold all; auto.
      + apply invoke_slot_direct_ok. apply handle_disconnect_ok; assumption.
    - destruct (ev_alive w ev); [|apply okresT_throw; assumption].
      unfold ok, okresT; cbn [fst]. destruct (ev_enqueue_ok w ev {| h_impl := Some i; h_id := Some k |}
        {| v_label := c_label c; v_args := args; v_script := c_script c |} Hw) as [H1 L1].
      split; [exact H1|]. eapply wle_on_weaken; [| | |exact L1]; unfold all; auto.
  Qed.

  Lemma walk_ok i args idxs : forall w, winv w -> okresT (fun j => j <> i) w (walk R w i args idxs).
  Proof.
    induction idxs as [|x r IH]; intros w Hw; cbn [walk]; [apply okresT_ok; assumption|].
    destruct (get_impl w i) as [m|]; [|apply okresT_throw; assumption].
    destruct (g_indexAt (i_conns m) x) as [k|]; [|apply IH; assumption].
    destruct (g_get (i_conns m) k) as [c|]; [|apply IH; assumption].
    destruct (c_blocked c || c_tbd c); [apply IH; assumption|].
    pose proof (fire_ok w i k c args Hw) as Hf.
    destruct (fire R w i k c args) as [w' [e|]]; [exact Hf|].
    eapply okresT_trans; [exact Hf|]. apply IH. apply Hf.
  Qed.

  Lemma sig_emit_ok w s args : winv w -> okres w (sig_emit R w s args).
  Proof.
    intros Hw. unfold sig_emit.
    destruct (lookup (w_sigs w) s) as [[i|]|]; [|apply okres_ok; assumption|apply okres_throw; assumption].
    destruct (get_impl w i) as [m|] eqn:Hm; [|apply okres_throw; assumption].
    destruct (i_emitting m) eqn:Hem; [apply okres_throw; assumption|].
    set (m1 := impl_with_owner (impl_with_flags m true (i_dde m)) (i_owned m) true).
    set (w1 := put_impl w i m1).
    assert (Hw1 : winv w1) by (apply winv_put; [assumption|apply impl_ok_emit_start; eapply Hw; eassumption]).
    assert (L1 : wle_on (fun j => j <> i) all all w w1).
    { eapply wle_put; [eassumption|imono|]. intros Hc; contradiction Hc; reflexivity. }
    pose proof (walk_ok i args (seq 0 (g_size (i_conns m))) w1 Hw1) as [Hw2 L2].
    destruct (walk R w1 i args (seq 0 (g_size (i_conns m)))) as [w2 e]. cbn [fst] in *.
    assert (Hg1 : get_impl w1 i = Some m1) by (eapply get_put_same; eassumption).
    destruct (wle_impls _ _ _ _ _ L2 _ _ Hg1) as (m2 & Hg2 & _ & K2).
    assert (Hsz : forall mm, get_impl w2 i = Some mm -> g_size (i_conns mm) <= g_size (i_conns m)).
    { intros mm Hmm. rewrite Hg2 in Hmm; inversion Hmm; subst mm.
      destruct (K2 I) as (_ & Hk & _). destruct (Hk eq_refl) as [Hkeys _].
      unfold keys in Hkeys. apply (f_equal (@length _)) in Hkeys. rewrite !map_length in Hkeys.
      unfold g_size. cbn [i_conns m1 impl_with_flags impl_with_owner] in Hkeys. lia. }
    destruct (finish_emit_ok w2 i (g_size (i_conns m)) Hw2 Hsz) as [Hw3 L3].
    split; [assumption|]. cbn [fst].
    assert (L : wle_on (fun j => j <> i) all (fun j => j <> i) w (finish_emit w2 i (g_size (i_conns m)))).
    { eapply wle_on_trans; [eapply wle_on_weaken; [| | |exact L1]; unfold all; auto|].
      eapply wle_on_trans; [|eapply wle_on_weaken; [| | |exact L3]; unfold all; auto].
      eapply wle_on_weaken; [| | |exact L2]; unfold all; auto. }
    eapply wle_upgrade_impl; [exact Hm|exact Hem|exact L|].
    intros m0 m' H0 H'. rewrite Hm in H0; inversion H0; subst m0.
    destruct (finish_emit_flag w2 i (g_size (i_conns m)) m2 Hg2 Hw2) as (m3 & Hg3 & He3 & Hd3).
    rewrite Hg3 in H'; inversion H'; subst m'.
    split; [congruence|]. split; [rewrite Hem; discriminate|]. split; [auto|rewrite Hem; discriminate].
  Qed.

  Lemma pass_loop_ok e : forall fuel w pos, winv w -> okres w (pass_loop R fuel w e pos).
  Proof.
    induction fuel as [|f IH]; intros w pos Hw; cbn [pass_loop]; [apply okres_throw; assumption|].
    destruct (lookup (w_evs w) e) as [s|]; [|apply okres_throw; assumption].
    destruct (nth_error (e_queue s) pos) as [[h v]|]; [|apply okres_ok; assumption].
    pose proof (invoke_slot_pass_ok w (handle_src h) (v_label v) (v_args v) (v_script v) Hw) as Hf.
    destruct (invoke_slot R w (handle_src h) false (v_label v) (v_args v) (v_script v)) as [w' [x|]]; [exact Hf|].
    eapply okres_trans; [exact Hf|]. apply IH. apply Hf.
  Qed.

  Lemma ev_finish_ok w e : winv w -> winv (ev_finish w e) /\ wle_on all (fun j => j <> e) all w (ev_finish w e).
  Proof.
    intros Hw. unfold ev_finish. destruct (lookup (w_evs w) e) as [s|] eqn:He; [|split; [auto|apply wle_on_refl]].
    split; [same_impls|]. eapply wle_set_evs; [eassumption|]. intros Hc; contradiction Hc; reflexivity.
  Qed.

  Lemma eval_pass_ok w e : winv w -> okres w (eval_pass pass_fuel R w e).
  Proof.
    intros Hw. unfold eval_pass.
    destruct (lookup (w_evs w) e) as [s|] eqn:He; [|apply okres_throw; assumption].
    destruct (e_alive s) eqn:Hal; cbn [negb]; [|apply okres_throw; assumption].
    destruct (e_evaluating s) eqn:Hev; [apply okres_ok; assumption|].
    set (w1 := set_evs w (bind_key (w_evs w) e {| e_alive := true; e_queue := e_queue s; e_evaluating := true |})).
    assert (Hw1 : winv w1) by (unfold w1; same_impls).
    assert (L1 : wle_on all (fun j => j <> e) all w w1).
    { eapply wle_set_evs; [eassumption|]. intros Hc; contradiction Hc; reflexivity. }
    pose proof (pass_loop_ok e pass_fuel w1 0 Hw1) as [Hw2 L2].
    destruct (pass_loop R pass_fuel w1 e 0) as [w2 x]. cbn [fst] in *.
    destruct (ev_finish_ok w2 e Hw2) as [Hw3 L3].
    split; [assumption|]. cbn [fst].
    assert (L : wle_on all (fun j => j <> e) all w (ev_finish w2 e)).
    { eapply wle_on_trans; [exact L1|]. eapply wle_on_trans; [|exact L3].
      eapply wle_on_weaken; [| | |exact L2]; unfold all; auto. }
    eapply wle_upgrade_ev; [exact He|exact L|].
    intros s0 s' H0 H'. rewrite He in H0; inversion H0; subst s0.
    assert (Hg1 : lookup (w_evs w1) e = Some {| e_alive := true; e_queue := e_queue s; e_evaluating := true |})
      by (unfold w1; cbn [w_evs set_evs]; apply lookup_bind_same).
    destruct (wle_evs _ _ _ _ _ L2 _ _ Hg1) as (s2 & Hg2 & _).
    unfold ev_finish in H'. rewrite Hg2 in H'. cbn [w_evs set_evs] in H'. rewrite lookup_bind_same in H'.
    inversion H'; subst s'. split; cbn; [congruence|]. rewrite Hev; discriminate.
  Qed.

  Lemma do_connect_ok w s h c : winv w -> c_tbd c = false -> okres w (do_connect w s h c).
  Proof.
    intros Hw Htbd. unfold do_connect, ensure_impl.
    destruct (lookup (w_sigs w) s) as [[i|]|] eqn:Hs; [| |apply okres_throw; assumption].
    - destruct (get_impl w i) as [m|] eqn:Hm; [|apply okres_throw; assumption].
      destruct (i_emitting m) eqn:Hem; [apply okres_throw; assumption|].
      destruct (N.ltb_spec (N.of_nat (length (i_issued m)) + 1) W) as [Hlt|Hge]; cbn [negb];
        [|apply okres_throw; assumption].
      destruct (g_insert (i_conns m) c) as [g k] eqn:Hins.
      destruct (Hw _ _ Hm) as (Hwf & Hfr & Hmk & Halv).
      destruct (insert_spec _ _ _ _ Hwf Hins) as (Hwf' & _ & _ & Hget & _ & _ & _ & _ & Hal).
      assert (Hal' : ga_allocate (g_alloc (i_conns m)) = (g_alloc g, k)).
      { unfold g_insert in Hins. destruct (ga_allocate (g_alloc (i_conns m))) as [al k0] eqn:E.
        inversion Hins; subst. reflexivity. }
      destruct (fresh_inv_allocate _ _ _ _ (proj1 Hwf) Hfr Hlt Hal') as [Hfr' _].
      unfold ok, okres; cbn [fst]. split.
      + eapply winv_same_impls; [reflexivity|]. apply winv_put; [assumption|]. split; [|split; [|split]]; [assumption|assumption| |exact Halv].
        intros k' c' Hg Ht. cbn [impl_issue i_conns i_dde] in *. rewrite Hget in Hg.
        destruct (gidx_eqb k k'); [inversion Hg; subst; congruence|eapply Hmk; eassumption].
      + apply wle_on_trans with (b := put_impl w i (impl_issue m g k));
          [|apply wle_same_impls_evs; [reflexivity|reflexivity|exists []; split; [reflexivity|nd]]].
        eapply wle_put; [eassumption| |].
        { split; [exists [k]; reflexivity|]. intros k0 Hst. cbn [impl_issue i_conns].
          eapply stale_allocate; [apply Hwf|exact Hfr|exact Hlt|exact Hal'|exact Hst]. }
        intros _. split; [reflexivity|split; [|split]]; cbn; [rewrite Hem; discriminate|auto|rewrite Hem; discriminate].
    - set (i := length (w_impls w)).
      set (w1 := set_impls w (w_impls w ++ [impl_new])).
      set (w1' := set_sigs w1 (bind_key (w_sigs w1) s (Some i))).
      assert (Hg : get_impl w1' i = Some impl_new).
      { unfold get_impl, w1', w1; cbn. rewrite nth_error_app2 by (unfold i; lia). unfold i. rewrite Nat.sub_diag; reflexivity. }
      rewrite Hg. cbn [impl_new i_emitting i_issued length].
      assert (Hw1 : winv w1').
      { intros j mj Hj. unfold get_impl, w1', w1 in Hj; cbn in Hj.
        destruct (Nat.lt_ge_cases j (length (w_impls w))) as [Hl|Hge].
        - rewrite nth_error_app1 in Hj by assumption. eapply Hw; eassumption.
        - rewrite nth_error_app2 in Hj by assumption.
          destruct (j - length (w_impls w)) as [|n]; cbn in Hj; [|destruct n; discriminate].
          inversion Hj; subst mj. split; [apply wf_empty|split; [apply fresh_inv_empty|split; [|reflexivity]]].
          intros k' c' Hgk. unfold g_get in Hgk; cbn in Hgk. destruct (gi_index k'); discriminate. }
      assert (L1 : wle w w1').
      { constructor.
        - intros j mj Hj. exists mj. split.
          + unfold get_impl, w1', w1 in *; cbn. rewrite nth_error_app1; [assumption|].
            apply nth_error_Some; congruence.
          + split; [apply issued_mono_refl|intros _; apply impl_keeps_refl].
        - intros e se He. exists se; split; [assumption|intros _; apply ev_keeps_refl].
        - intros j mj' Hj Hn _. unfold get_impl, w1', w1 in *; cbn in Hj.
          assert (Hge : length (w_impls w) <= j) by (apply nth_error_None; assumption).
          rewrite nth_error_app2 in Hj by assumption.
          destruct (j - length (w_impls w)) as [|n]; cbn in Hj; [|destruct n; discriminate].
          inversion Hj; subst; auto.
        - intros e se' H1 H2. unfold w1', w1 in H1; cbn in H1. congruence.
        - exists []; split; [reflexivity|intros ? ? ? ? []]. }
      destruct (N.ltb_spec (N.of_nat 0 + 1) W) as [Hlt|Hge]; cbn [negb]; [|apply okres_throw; assumption].
      change (i_conns impl_new) with (@g_empty conn).
      destruct (g_insert g_empty c) as [g k] eqn:Hins.
      destruct (insert_spec _ _ _ _ (@wf_empty conn) Hins) as (Hwf' & _ & _ & Hget & _).
      assert (Hal' : ga_allocate ga_empty = (g_alloc g, k)).
      { unfold g_insert in Hins. cbn [g_alloc g_empty] in Hins. destruct (ga_allocate ga_empty) as [al k0] eqn:E.
        inversion Hins; subst. reflexivity. }
      destruct (fresh_inv_allocate _ _ _ _ wf_alloc_empty fresh_inv_empty Hlt Hal') as [Hfr' _].
      unfold ok, okres; cbn [fst]. split.
      + eapply winv_same_impls; [reflexivity|]. apply winv_put; [assumption|]. split; [|split; [|split]]; [assumption|assumption| |reflexivity].
        intros k' c' Hgk Ht. cbn [impl_issue i_conns i_dde] in *. rewrite Hget in Hgk.
        destruct (gidx_eqb k k'); [inversion Hgk; subst; congruence|]. unfold g_get in Hgk; cbn in Hgk. destruct (gi_index k'); discriminate.
      + eapply wle_on_trans; [exact L1|].
        apply wle_on_trans with (b := put_impl w1' i (impl_issue impl_new g k));
          [|apply wle_same_impls_evs; [reflexivity|reflexivity|exists []; split; [reflexivity|nd]]].
        eapply wle_put; [eassumption| |].
        { split; [exists [k]; reflexivity|]. intros k0 Hst. cbn [impl_issue i_conns].
          eapply stale_allocate; [apply wf_alloc_empty|apply fresh_inv_empty|exact Hlt|exact Hal'|exact Hst]. }
        intros _. split; [reflexivity|split; [|split]]; cbn; [discriminate|auto|discriminate].
  Qed.
End Contract.

(* ---------------------------------------------------------------------------------------------- *)
(* every library call preserves the invariant and the frame, for every contract-abiding slot body *)

Definition okw (w x : world) : Prop := winv x /\ wle w x.

Lemma okw_refl w : winv w -> okw w w.
Proof. intros H; split; [assumption|apply wle_on_refl]. Qed.
Lemma okw_step w x y : okw w x -> (winv x -> okw x y) -> okw w y.
Proof. intros [H1 L1] H. destruct (H H1) as [H2 L2]. split; [assumption|eapply wle_on_trans; eassumption]. Qed.
Lemma okw_same w x y :
  okw w x -> w_impls y = w_impls x -> w_evs y = w_evs x -> (exists l, w_trace y = l ++ w_trace x /\ nondirect l) -> okw w y.
Proof.
  intros [H1 L1] Hi He Ht. split; [eapply winv_same_impls; eassumption|].
  eapply wle_on_trans; [exact L1|]. apply wle_same_impls_evs; assumption.
Qed.

Ltac okw_tac Hw :=
  repeat first
    [ apply okw_refl; exact Hw
    | match goal with
      | |- okw _ (set_sigs ?x _) => apply (okw_same _ x); [|reflexivity|reflexivity|exists []; split; [reflexivity|nd]]
      | |- okw _ (set_handles ?x _) => apply (okw_same _ x); [|reflexivity|reflexivity|exists []; split; [reflexivity|nd]]
      | |- okw _ (set_scoped ?x _) => apply (okw_same _ x); [|reflexivity|reflexivity|exists []; split; [reflexivity|nd]]
      | |- okw _ (set_blockers ?x _) => apply (okw_same _ x); [|reflexivity|reflexivity|exists []; split; [reflexivity|nd]]
      | |- okw _ (log ?e ?x) => apply (okw_same _ x); [|reflexivity|reflexivity|exists [e]; split; [reflexivity|nd]]
      | |- okw _ (impl_disconnect ?x ?i ?k) => apply (okw_step _ x); [|intros ?; apply impl_disconnect_ok; assumption]
      | |- okw _ (handle_disconnect ?x ?h) => apply (okw_step _ x); [|intros ?; apply handle_disconnect_ok; assumption]
      | |- okw _ (sig_disconnect_all ?x ?s) => apply (okw_step _ x); [|intros ?; apply sig_disconnect_all_ok; assumption]
      | |- okw _ (fst (impl_block ?x ?i ?k ?b)) => apply (okw_step _ x); [|intros ?; apply impl_block_ok; assumption]
      end ].

Lemma wle_set_evs_new (P Q T : nat -> Prop) w e s' :
  lookup (w_evs w) e = None -> e_evaluating s' = false -> wle_on P Q T w (set_evs w (bind_key (w_evs w) e s')).
Proof.
  intros He Hev. constructor.
  - intros i m H. exists m. split; [assumption|]. split; [apply issued_mono_refl|intros _; apply impl_keeps_refl].
  - intros e0 s0 H0. cbn [w_evs set_evs]. rewrite lookup_bind.
    destruct (Nat.eqb_spec e0 e) as [->|Hne]; [congruence|].
    exists s0; split; [assumption|intros _; apply ev_keeps_refl].
  - intros i m' H1 H2. unfold get_impl in *; cbn in H1; congruence.
  - intros e0 s0 H1 H2 _. cbn [w_evs set_evs] in H1. rewrite lookup_bind in H1.
    destruct (Nat.eqb_spec e0 e); [inversion H1; subst; assumption|congruence].
  - exists []; split; [reflexivity|intros ? ? ? ? []].
Qed.

Section Step.
  Variable pass_fuel : nat.
  Variable R : world -> nat -> res.
  Hypothesis HR : good R.

  Lemma okres_of_okw w x e : okw w x -> okres w (x, e).
  Proof. intros H; exact H. Qed.

  Lemma with_handle_ok w h f : winv w -> (forall hd, okres w (f hd)) -> okres w (with_handle w h f).
  Proof. intros Hw Hf. unfold with_handle. destruct (lookup (w_handles w) h); [apply Hf|apply okres_throw; assumption]. Qed.

  Ltac brk :=
    repeat match goal with
           | |- okres _ (match ?x with _ => _ end) => destruct x eqn:?
           | |- okres _ (if ?x then _ else _) => destruct x eqn:?
           end.

  Ltac blk Hw :=
    match goal with
    | E : impl_block ?w ?i ?k ?b = (?w1, _) |- _ =>
        let H := fresh "Hb" in
        pose proof (impl_block_ok w i k b Hw) as H; rewrite E in H; cbn [fst] in H
    end.

  Ltac leaf Hw :=
    first
      [ apply okres_throw; exact Hw
      | apply okres_ok; exact Hw
      | unfold logb, ok, throw; apply okres_of_okw; okw_tac Hw ].

  Lemma step1_ok w o : winv w -> okres w (step1 pass_fuel R w o).
  Proof.
    intros Hw. destruct o; cbn [step1];
      try (apply with_handle_ok; [exact Hw|intros hd]);
      try (match goal with |- okres _ (with_handle _ _ _) => apply with_handle_ok; [exact Hw|intros hd2] end);
      brk;
      try (apply do_connect_ok; [assumption|reflexivity]);
      try (apply sig_emit_ok; assumption);
      try (apply eval_pass_ok; assumption);
      try (blk Hw);
      try (leaf Hw).
    all: try (unfold logb, ok, throw; apply okres_of_okw;
              match goal with Hb : winv ?w1 /\ wle _ ?w1 |- _ => destruct Hb as [Hb1 Hb2] end;
              repeat match goal with
                     | |- okw _ (log ?e ?x) => apply (okw_same _ x); [|reflexivity|reflexivity|exists [e]; split; [reflexivity|nd]]
                     | |- okw _ (set_blockers ?x _) => apply (okw_same _ x); [|reflexivity|reflexivity|exists []; split; [reflexivity|nd]]
                     end; split; assumption).
    all: try (match goal with Hb : winv ?x /\ wle ?w ?x |- okw ?w ?x => exact Hb end).
    - (* OBlDrop *)
      destruct (checked_lock w h) as [[i k]|]; okw_tac Hw.
    - (* OEvNew *)
      split; [same_impls|]. apply wle_set_evs_new; [assumption|reflexivity].
    - (* OEvDrop *)
      split; [same_impls|]. eapply wle_set_evs; [eassumption|]. intros _.
      split; cbn; [congruence|]. intros Hc; congruence.
  Qed.

  Lemma run_ops_ok ops : forall w, winv w -> okres w (run_ops pass_fuel R w ops).
  Proof.
    induction ops as [|o r IH]; intros w Hw; cbn [run_ops]; [apply okres_ok; assumption|].
    pose proof (step1_ok w o Hw) as H1.
    destruct (step1 pass_fuel R w o) as [w' [e|]]; [exact H1|].
    eapply okres_trans; [exact H1|]. apply IH. apply H1.
  Qed.
End Step.

Section Closed.
  Variable tbl : nat -> list op.
  Variable pass_fuel : nat.

  Lemma script_good fuel : good (script tbl pass_fuel fuel).
  Proof.
    induction fuel as [|f IH]; intros w sid Hw; cbn [script].
    - apply okres_throw; assumption.
    - apply run_ops_ok; assumption.
  Qed.

  Lemma step_ok fuel w o : winv w -> winv (step tbl pass_fuel fuel w o) /\ wle w (step tbl pass_fuel fuel w o).
  Proof.
    intros Hw. unfold step.
    pose proof (step1_ok pass_fuel _ (script_good fuel) w o Hw) as [H1 L1].
    destruct (step1 pass_fuel (script tbl pass_fuel fuel) w o) as [w' r]. cbn [fst] in *.
    split; [same_impls|]. eapply wle_on_trans; [exact L1|apply wle_log; (let E := fresh in intros ? ? ? E; discriminate E)].
  Qed.

  Lemma winv_world0 : winv world0.
  Proof. intros i m H. destruct i; discriminate. Qed.

  Theorem run_winv fuel ops : winv (run tbl pass_fuel fuel ops).
  Proof.
    unfold run. assert (H : forall w, winv w -> winv (fold_left (step tbl pass_fuel fuel) ops w)).
    { induction ops as [|o r IH]; intros w Hw; cbn [fold_left]; [assumption|]. apply IH. apply step_ok; assumption. }
    apply H, winv_world0.
  Qed.
End Closed.
