(* Evaluator-driven bindings in MIXED worlds (immediate and evaluator-driven bindings together, observers that do not act):
   the trees of the evaluator-driven bindings are always SOUND - a clean operator node has clean children and caches what it would
   compute from them over the CURRENT values - whatever cascade of immediate re-evaluations an assignment sets off.  Hence an
   evaluation of such a binding assigns exactly the value of its expression over the current inputs: caches are never stale.
   Proof: while setHelper(p) is between its store and the end of its walk the trees are sound for an environment that may differ
   from the current one at the PENDING properties (existentially, per tree); each walk marks every evaluator-driven leaf that reads
   its property (link invariant: every such leaf is subscribed there), after which the property is no longer pending. *)
From KDB Require Import Util UtilProofs PropDefs PropFlags PropLink PropLinkBasics PropLinkOps PropLinkTheorems PropSim.
From KDB Require PropAbs PropAbsProofs PropAbsLazy PropProofs PropReg PropGrow PropSimLazy PropGrowMore PropGrowLazyMore PropLinkMove PropMove PropMoveLazy.
Module A := PropAbs.
Module AP := PropAbsProofs.
Module L := PropAbsLazy.

Section MixedLazy.
  Variable fn : nat -> list Z -> option Z.
  Variable rtl : bool.
  Notation F1 := (PropSim.F1 fn).
  Notation F2 := (PropSim.F2 fn).
  Notation F3 := (PropSim.F3 fn).

  Definition envof (w : world) : nat -> Z := fun p => match lookup (w_props w) p with Some pr => pr_value pr | None => 0%Z end.
  (* the abstraction of the tree of a live evaluator-driven binding *)
  Definition ltree (w : world) (b : nat) (T : A.tree) : Prop :=
    exists x, get_bind w b = Some x /\ b_evp x <> 0 /\ abs_tree (b_root x) = Some T.
  Definition LSIMP (w : world) : Prop := forall b x, get_bind w b = Some x -> b_evp x <> 0 -> abs_tree (b_root x) <> None.
  (* sound up to the values of the pending properties P *)
  Definition MSx (P : nat -> Prop) (w : world) : Prop :=
    forall b T, ltree w b T -> exists e', (forall y, ~ P y -> e' y = envof w y) /\ L.sound F1 F2 F3 e' T.
  Definition ldirty (T : A.tree) (lid : nat) : Prop := forall p d, In (p, lid, d) (L.lflags T) -> d = true.
  (* evaluator-driven bindings persist, keep their leaves, and dirty leaves stay dirty *)
  Definition LZ (w w' : world) : Prop :=
    (forall b T, ltree w b T -> exists T', ltree w' b T' /\ A.leaves T' = A.leaves T /\ forall lid, ldirty T lid -> ldirty T' lid) /\
    (forall b T', ltree w' b T' -> exists T, ltree w b T).

  Lemma ltree_fun w b T T' : ltree w b T -> ltree w b T' -> T = T'.
  Proof. intros (x & Hx & _ & Ha) (x' & Hx' & _ & Ha'). congruence. Qed.
  Lemma LZ_refl w : LZ w w.
  Proof. split; [intros b T H; exists T; auto|intros b T H; exists T; exact H]. Qed.
  Lemma LZ_trans a b c : LZ a b -> LZ b c -> LZ a c.
  Proof.
    intros (A1 & A2) (B1 & B2). split.
    - intros n T H. destruct (A1 n T H) as (T1 & H1 & L1 & D1). destruct (B1 n T1 H1) as (T2 & H2 & L2 & D2).
      exists T2. split; [exact H2|]. split; [congruence|auto].
    - intros n T' H. destruct (B2 n T' H) as (T1 & H1). exact (A2 n T1 H1).
  Qed.

  (* worlds that agree on the evaluator-driven bindings and on the values *)
  Definition lzeq (w w' : world) : Prop :=
    (forall b x, b_evp x <> 0 -> (get_bind w' b = Some x <-> get_bind w b = Some x)) /\ (forall y, envof w' y = envof w y).
  Lemma lzeq_ltree w w' : lzeq w w' -> forall b T, ltree w' b T <-> ltree w b T.
  Proof. intros (G & _) b T. split; intros (x & Hx & He & Ha); exists x; (split; [apply (G b x He); exact Hx|auto]). Qed.
  Lemma lzeq_transfer P w w' : lzeq w w' -> LSIMP w -> MSx P w -> LSIMP w' /\ MSx P w' /\ LZ w w'.
  Proof.
    intros E HS HM. pose proof (lzeq_ltree w w' E) as LT. destruct E as (G & EV). split; [|split].
    - intros b x Hx He. apply (HS b x); [apply (G b x He); exact Hx|exact He].
    - intros b T H. destruct (HM b T (proj1 (LT b T) H)) as (e' & Ag & So). exists e'. split; [intros y Hy; rewrite EV; auto|exact So].
    - split; [intros b T H; exists T; split; [apply LT; exact H|auto]|intros b T H; exists T; apply LT; exact H].
  Qed.
  Lemma lzeq_same w w' : (forall b, get_bind w' b = get_bind w b) -> w_props w' = w_props w -> lzeq w w'.
  Proof. intros G Pp. split; [intros b x _; rewrite G; tauto|intros y; unfold envof; rewrite Pp; reflexivity]. Qed.
  (* overwriting an immediate binding by an immediate one *)
  Lemma lzeq_put_imm w b x y : get_bind w b = Some x -> b_evp x = 0 -> b_evp y = 0 -> lzeq w (put_bind w b y).
  Proof.
    intros Hb Hx Hy. destruct (get_bind_lt _ _ _ Hb) as [Hlt _]. split; [|intros z; reflexivity].
    intros c z Hz. unfold get_bind, put_bind; cbn [set_binds w_binds]. destruct (Nat.eq_dec b c) as [<-|Hne].
    - rewrite nth_upd_same by exact Hlt. fold (get_bind w b). rewrite Hb. split.
      + destruct (b_alive y); [|discriminate]. intros E; inversion E; subst. contradiction.
      + intros E; inversion E; subst. contradiction.
    - rewrite nth_upd_other by exact Hne. tauto.
  Qed.

  Lemma MSx_weaken (P Q : nat -> Prop) w : (forall y, P y -> Q y) -> MSx P w -> MSx Q w.
  Proof. intros PQ H b T Hl. destruct (H b T Hl) as (e' & Ag & So). exists e'. split; [intros y Hy; apply Ag; intros Py; exact (Hy (PQ y Py))|exact So]. Qed.

  (* the store of setHelper(p): p becomes pending *)
  Lemma MSx_store (P : nat -> Prop) w p pr v :
    lookup (w_props w) p = Some pr -> MSx (fun y => P y \/ y = p) w ->
    MSx (fun y => P y \/ y = p) (set_props w (bind_key (w_props w) p (prop_set_value pr v))).
  Proof.
    intros Hp H b T Hl. destruct (H b T Hl) as (e' & Ag & So). exists e'. split; [|exact So].
    intros y Hy. rewrite (Ag y Hy). unfold envof; cbn [set_props w_props]. rewrite lookup_bind.
    destruct (Nat.eqb_spec y p) as [->|]; [exfalso; apply Hy; right; reflexivity|reflexivity].
  Qed.

  Lemma ldirty_mark T l lid : ldirty T lid -> ldirty (fst (A.mark T l)) lid.
  Proof.
    intros H p d Hi. rewrite L.mark_lflags in Hi. apply in_map_iff in Hi. destruct Hi as ([[p0 i0] d0] & E & Hi0). unfold L.mflag in E. cbn in E.
    inversion E; subst. rewrite (H p d0 Hi0). reflexivity.
  Qed.
  Lemma ldirty_marked T lid : ldirty (fst (A.mark T lid)) lid.
  Proof.
    intros p d Hi. rewrite L.mark_lflags in Hi. apply in_map_iff in Hi. destruct Hi as ([[p0 i0] d0] & E & Hi0). unfold L.mflag in E. cbn in E.
    inversion E; subst. rewrite Nat.eqb_refl. apply orb_true_r.
  Qed.

  (* a change notification reaching a node of an evaluator-driven binding: the tree is marked, nothing else *)
  Lemma lazy_mark_step P w b x lid t1 up :
    pinv w -> LSIMP w -> MSx P w -> get_bind w b = Some x -> b_evp x <> 0 -> mark (b_root x) lid = Some (t1, up) ->
    let w1 := put_bind w b (bind_with_root x t1) in
    views_eq w w1 /\ LSIMP w1 /\ MSx P w1 /\ LZ w w1 /\ exists T', ltree w1 b T' /\ ldirty T' lid.
  Proof.
    intros Hinv HS HM Hb He Hm w1.
    destruct (abs_tree (b_root x)) as [T|] eqn:HT; [|exfalso; exact (HS b x Hb He HT)].
    assert (ND : NoDup (map snd (A.leaves T))).
    { rewrite <- (abs_leaves _ _ HT). apply (pi_leafids _ _ _ _ _ _ _ Hinv b (leaves (b_root x)) (b_target x)). unfold bview. rewrite Hb. reflexivity. }
    destruct (sim_mark fn _ _ _ _ _ HT ND Hm) as [Ht1 _].
    pose proof (leaves_mark _ _ _ _ Hm) as Hl1.
    destruct (get_bind_lt _ _ _ Hb) as [Hlt Hal].
    assert (G : forall c, get_bind w1 c = if Nat.eqb b c then Some (bind_with_root x t1) else get_bind w c) by (intros c; apply get_bind_put_root; exact Hb).
    assert (LT1 : forall c U, ltree w1 c U <-> (if Nat.eqb b c then U = fst (A.mark T lid) else ltree w c U)).
    { intros c U. unfold ltree. rewrite G. destruct (Nat.eqb_spec b c) as [<-|Hne]; [|tauto]. split.
      - intros (z & Hz & _ & Ha). inversion Hz; subst z. cbn [bind_with_root b_root] in Ha. congruence.
      - intros ->. exists (bind_with_root x t1). cbn [bind_with_root b_root b_evp]. auto. }
    split; [apply views_put_root; assumption|]. split; [|split; [|split]].
    - intros c z Hz Hez. rewrite G in Hz. destruct (Nat.eqb_spec b c) as [<-|Hne]; [|exact (HS c z Hz Hez)].
      inversion Hz; subst z. cbn [bind_with_root b_root]. rewrite Ht1. discriminate.
    - intros c U HU. apply LT1 in HU. destruct (Nat.eqb_spec b c) as [<-|Hne]; [|exact (HM c U HU)].
      subst U. destruct (HM b T) as (e' & Ag & So); [exists x; auto|]. exists e'. split; [exact Ag|apply L.mark_sound; exact So].
    - split.
      + intros c U HU. destruct (Nat.eqb_spec b c) as [<-|Hne].
        * assert (U = T) by (eapply ltree_fun; [exact HU|exists x; auto]). subst U.
          exists (fst (A.mark T lid)). split; [apply LT1; rewrite Nat.eqb_refl; reflexivity|]. split; [apply AP.mark_leaves|intros l0; apply ldirty_mark].
        * exists U. split; [apply LT1; destruct (Nat.eqb_spec b c); [contradiction|exact HU]|auto].
      + intros c U HU. apply LT1 in HU. destruct (Nat.eqb_spec b c) as [<-|Hne]; [exists T; exists x; auto|exists U; exact HU].
    - exists (fst (A.mark T lid)). split; [apply LT1; rewrite Nat.eqb_refl; reflexivity|apply ldirty_marked].
  Qed.

  Lemma lzeq_trans a b c : lzeq a b -> lzeq b c -> lzeq a c.
  Proof.
    intros (G1 & E1) (G2 & E2). split; [intros n x Hx; rewrite (G2 n x Hx); apply G1; exact Hx|intros y; rewrite E2; apply E1].
  Qed.
  Lemma NOACT_views w w' : views_eq w w' -> NOACT w -> NOACT w'.
  Proof. intros (_ & T & _) H t pos ser label act (sl & fr & al & Hv & Hn). rewrite T in Hv. apply (H t pos ser label act). exists sl, fr, al. auto. Qed.
  Lemma get_bind_log_fns lg : forall w0 b, get_bind (log_fns lg w0) b = get_bind w0 b.
  Proof. induction lg as [|g r IH]; intros w0 b; cbn [log_fns]; [reflexivity|]. rewrite IH. reflexivity. Qed.

  Lemma pdirty_of_ldirty p : forall T, (forall lid, In (p, lid) (A.leaves T) -> ldirty T lid) -> L.pdirty p T.
  Proof.
    induction T as [z|p' i d|f d c k IH|f d c k1 IH1 k2 IH2|f d c k1 IH1 k2 IH2 k3 IH3]; intros H; cbn [L.pdirty A.leaves L.lflags] in *.
    - exact I.
    - intros ->. apply (H i (or_introl eq_refl) p d). left. reflexivity.
    - apply IH. exact H.
    - split.
      + apply IH1. intros lid Hi q dd Hq. apply (H lid (in_or_app _ _ _ (or_introl Hi)) q dd). cbn [L.lflags]. apply in_or_app. left. exact Hq.
      + apply IH2. intros lid Hi q dd Hq. apply (H lid (in_or_app _ _ _ (or_intror Hi)) q dd). cbn [L.lflags]. apply in_or_app. right. exact Hq.
    - split; [|split].
      + apply IH1. intros lid Hi q dd Hq. apply (H lid (in_or_app _ _ _ (or_introl Hi)) q dd). cbn [L.lflags]. apply in_or_app. left. exact Hq.
      + apply IH2. intros lid Hi q dd Hq. apply (H lid (in_or_app _ _ _ (or_intror (in_or_app _ _ _ (or_introl Hi)))) q dd). cbn [L.lflags].
        apply in_or_app. right. apply in_or_app. left. exact Hq.
      + apply IH3. intros lid Hi q dd Hq. apply (H lid (in_or_app _ _ _ (or_intror (in_or_app _ _ _ (or_intror Hi)))) q dd). cbn [L.lflags].
        apply in_or_app. right. apply in_or_app. right. exact Hq.
  Qed.

  Definition STEP (R : world -> nat -> Z -> res) : Prop :=
    forall P w q v w', pinv w -> NOACT w -> LSIMP w -> MSx P w -> R w q v = (w', None) ->
      views_eq w w' /\ LSIMP w' /\ MSx P w' /\ LZ w w'.

  Section Body.
    Variable R : world -> nat -> Z -> res.
    Hypothesis HR : STEP R.

    (* Binding::evaluate of an IMMEDIATE binding: its own tree is not one of the evaluator-driven ones *)
    Lemma imm_evaluate P w b x w' :
      pinv w -> NOACT w -> LSIMP w -> MSx P w -> get_bind w b = Some x -> b_evp x = 0 ->
      binding_evaluate fn rtl R w b = (w', None) -> views_eq w w' /\ LSIMP w' /\ MSx P w' /\ LZ w w'.
    Proof.
      intros Hinv Hna HS HM Hb He H. unfold binding_evaluate in H. rewrite Hb in H.
      destruct (eval fn rtl (values w) (b_root x)) as [[t r] lg] eqn:Hev.
      pose proof (leaves_eval fn rtl (values w) (b_root x)) as Hl. rewrite Hev in Hl. cbn [fst] in Hl.
      set (w1 := log_fns lg (put_bind w b (bind_with_root x t))) in *.
      assert (V1 : views_eq w w1) by (eapply views_eq_trans; [apply (views_put_root w b x t Hb Hl)|apply views_log_fns]).
      assert (E1 : lzeq w w1).
      { eapply lzeq_trans; [apply (lzeq_put_imm w b x (bind_with_root x t) Hb He); exact He|].
        apply lzeq_same; [intros c; apply get_bind_log_fns|apply PropProofs.log_fns_props]. }
      destruct (lzeq_transfer P w w1 E1 HS HM) as (HS1 & HM1 & Z1).
      destruct r as [v|ex]; [|discriminate H]. destruct (b_target x) as [q|].
      - destruct (HR P w1 q v w' (pinv_views _ _ V1 Hinv) (NOACT_views _ _ V1 Hna) HS1 HM1 H) as (V2 & HS2 & HM2 & Z2).
        split; [eapply views_eq_trans; eauto|]. split; [exact HS2|]. split; [exact HM2|eapply LZ_trans; eauto].
      - inversion H; subst w'. auto.
    Qed.

    Lemma deliver_changed P w p v s w' :
      pinv w -> NOACT w -> LSIMP w -> MSx P w -> (forall label act, s = SObs label act -> act = None) ->
      deliver fn rtl R w p KChanged [v] s = (w', None) ->
      views_eq w w' /\ LSIMP w' /\ MSx P w' /\ LZ w w' /\
      (forall b lid, s = SNode b lid -> (exists T, ltree w b T) -> exists T', ltree w' b T' /\ ldirty T' lid).
    Proof.
      intros Hinv Hna HS HM Hact H. destruct s as [label act|b lid]; cbn [deliver] in H.
      - rewrite (Hact label act eq_refl) in H. inversion H; subst w'.
        destruct (lzeq_transfer P w _ (lzeq_same w (log (EvNotify label KChanged [v] (values w p)) w) (fun _ => eq_refl) eq_refl) HS HM) as (A1 & A2 & A3).
        split; [apply views_log|]. split; [exact A1|]. split; [exact A2|]. split; [exact A3|]. intros b lid E; discriminate E.
      - destruct (get_bind w b) as [x|] eqn:Hb; [|discriminate H].
        destruct (mark (b_root x) lid) as [[t1 up]|] eqn:Hm; [|discriminate H].
        destruct (Nat.eqb_spec (b_evp x) 0) as [He|He].
        + (* immediate *)
          set (w1 := put_bind w b (bind_with_root x t1)) in *.
          assert (V1 : views_eq w w1) by (apply views_put_root; [exact Hb|exact (leaves_mark _ _ _ _ Hm)]).
          assert (E1 : lzeq w w1) by (apply (lzeq_put_imm w b x _ Hb He); exact He).
          destruct (lzeq_transfer P w w1 E1 HS HM) as (HS1 & HM1 & Z1).
          assert (Last : forall b0 lid0, SNode b lid = SNode b0 lid0 -> (exists T, ltree w b0 T) -> False).
          { intros b0 lid0 E (T & z & Hz & Hez & _). inversion E; subst b0. rewrite Hb in Hz. inversion Hz; subst z. exact (Hez He). }
          destruct up.
          * assert (Hb1 : get_bind w1 b = Some (bind_with_root x t1)) by (unfold w1; rewrite (get_bind_put_root _ _ _ _ b Hb), Nat.eqb_refl; reflexivity).
            destruct (imm_evaluate P w1 b _ w' (pinv_views _ _ V1 Hinv) (NOACT_views _ _ V1 Hna) HS1 HM1 Hb1 He H) as (V2 & HS2 & HM2 & Z2).
            split; [eapply views_eq_trans; eauto|]. split; [exact HS2|]. split; [exact HM2|]. split; [eapply LZ_trans; eauto|].
            intros b0 lid0 E HT. destruct (Last b0 lid0 E HT).
          * inversion H; subst w'. split; [exact V1|]. split; [exact HS1|]. split; [exact HM1|]. split; [exact Z1|].
            intros b0 lid0 E HT. destruct (Last b0 lid0 E HT).
        + (* evaluator-driven: marked, never evaluated here *)
          assert (H1 : (put_bind w b (bind_with_root x t1), @None pexn) = (w', None)) by (destruct up; exact H).
          inversion H1; subst w'. destruct (lazy_mark_step P w b x lid t1 up Hinv HS HM Hb He Hm) as (A1 & A2 & A3 & A4 & A5).
          split; [exact A1|]. split; [exact A2|]. split; [exact A3|]. split; [exact A4|].
          intros b0 lid0 E _. inversion E; subst. exact A5.
    Qed.

    Lemma walk_changed P t p v : forall idxs w w',
      pinv w -> NOACT w -> LSIMP w -> MSx P w -> walk fn rtl R w t p KChanged [v] idxs = (w', None) ->
      views_eq w w' /\ LSIMP w' /\ MSx P w' /\ LZ w w' /\
      (forall x ser b lid, In x idxs -> slot_at w t x ser (SNode b lid) -> (exists T, ltree w b T) -> exists T', ltree w' b T' /\ ldirty T' lid).
    Proof.
      induction idxs as [|x r IH]; intros w w' Hinv Hna HS HM H; cbn [walk] in H.
      - inversion H; subst w'. split; [apply views_eq_refl|]. split; [exact HS|]. split; [exact HM|]. split; [apply LZ_refl|]. intros x ser b lid [].
      - destruct (get_table w t) as [tb|] eqn:Ht; [|discriminate H].
        assert (Htv : tview w t = Some (t_slots tb, t_free tb, t_alive tb)) by (unfold tview; rewrite Ht; reflexivity).
        destruct (nth_error (t_slots tb) x) as [[[ser s]|]|] eqn:Hx.
        + destruct (deliver fn rtl R w p KChanged [v] s) as [w1 [e|]] eqn:Hd; [discriminate H|].
          assert (Hact : forall label act, s = SObs label act -> act = None).
          { intros label act ->. apply (Hna t x ser label act). exists (t_slots tb), (t_free tb), (t_alive tb). auto. }
          destruct (deliver_changed P w p v s w1 Hinv Hna HS HM Hact Hd) as (V1 & HS1 & HM1 & Z1 & D1).
          destruct (IH w1 w' (pinv_views _ _ V1 Hinv) (NOACT_views _ _ V1 Hna) HS1 HM1 H) as (V2 & HS2 & HM2 & Z2 & D2).
          split; [eapply views_eq_trans; eauto|]. split; [exact HS2|]. split; [exact HM2|]. split; [eapply LZ_trans; eauto|].
          intros x0 ser0 b lid [<-|Hi] (sl & fr & al & Hv0 & Hn0) (T & HT).
          * rewrite Htv in Hv0. inversion Hv0; subst sl fr al. rewrite Hx in Hn0. inversion Hn0; subst ser0 s.
            destruct (D1 b lid eq_refl (ex_intro _ T HT)) as (T1 & HT1 & Hd1).
            destruct (proj1 Z2 b T1 HT1) as (T2 & HT2 & _ & Hmono). exists T2. split; [exact HT2|apply Hmono; exact Hd1].
          * destruct (proj1 Z1 b T HT) as (T1 & HT1 & _). apply (D2 x0 ser0 b lid Hi); [|exists T1; exact HT1].
            exists sl, fr, al. split; [|exact Hn0]. destruct V1 as (_ & TV & _). rewrite TV. exact Hv0.
        + destruct (IH w w' Hinv Hna HS HM H) as (V2 & HS2 & HM2 & Z2 & D2). split; [exact V2|]. split; [exact HS2|]. split; [exact HM2|]. split; [exact Z2|].
          intros x0 ser0 b lid [<-|Hi] (sl & fr & al & Hv0 & Hn0) HT; [rewrite Htv in Hv0; inversion Hv0; subst; rewrite Hx in Hn0; discriminate Hn0|].
          apply (D2 x0 ser0 b lid Hi); [exists sl, fr, al; auto|exact HT].
        + destruct (IH w w' Hinv Hna HS HM H) as (V2 & HS2 & HM2 & Z2 & D2). split; [exact V2|]. split; [exact HS2|]. split; [exact HM2|]. split; [exact Z2|].
          intros x0 ser0 b lid [<-|Hi] (sl & fr & al & Hv0 & Hn0) HT; [rewrite Htv in Hv0; inversion Hv0; subst; rewrite Hx in Hn0; discriminate Hn0|].
          apply (D2 x0 ser0 b lid Hi); [exists sl, fr, al; auto|exact HT].
    Qed.
    Lemma emit_changed P w ot p v w' :
      pinv w -> NOACT w -> LSIMP w -> MSx P w -> emit fn rtl R w ot p KChanged [v] = (w', None) ->
      views_eq w w' /\ LSIMP w' /\ MSx P w' /\ LZ w w' /\
      (forall t pos ser b lid, ot = Some t -> slot_at w t pos ser (SNode b lid) -> (exists T, ltree w b T) -> exists T', ltree w' b T' /\ ldirty T' lid).
    Proof.
      intros Hinv Hna HS HM H. destruct ot as [t|]; cbn [emit] in H.
      2:{ inversion H; subst w'. split; [apply views_eq_refl|]. split; [exact HS|]. split; [exact HM|]. split; [apply LZ_refl|]. intros t pos ser b lid E; discriminate E. }
      destruct (get_table w t) as [tb|] eqn:Ht; [|discriminate H]. destruct (t_emitting tb); [discriminate H|].
      set (tb1 := {| t_slots := t_slots tb; t_free := t_free tb; t_emitting := true; t_alive := t_alive tb |}) in *.
      set (w1 := put_table w t tb1) in *.
      assert (V1 : views_eq w w1) by (apply views_put_flag; exact Ht).
      destruct (lzeq_transfer P w w1 (lzeq_same w w1 (fun _ => eq_refl) eq_refl) HS HM) as (HS1 & HM1 & Z1).
      destruct (walk fn rtl R w1 t p KChanged [v] (seq 0 (length (t_slots tb)))) as [w2 [e|]] eqn:Hw.
      { destruct (get_table w2 t); discriminate H. }
      destruct (walk_changed P t p v _ w1 w2 (pinv_views _ _ V1 Hinv) (NOACT_views _ _ V1 Hna) HS1 HM1 Hw) as (V2 & HS2 & HM2 & Z2 & D2).
      assert (Fin : forall w3, (forall b, get_bind w3 b = get_bind w2 b) -> w_props w3 = w_props w2 -> views_eq w2 w3 -> (w3, @None pexn) = (w', None) ->
                views_eq w w' /\ LSIMP w' /\ MSx P w' /\ LZ w w' /\
                (forall t0 pos ser b lid, Some t = Some t0 -> slot_at w t0 pos ser (SNode b lid) -> (exists T, ltree w b T) -> exists T', ltree w' b T' /\ ldirty T' lid)).
      { intros w3 G3 P3 V3 E3. inversion E3; subst w'. destruct (lzeq_transfer P w2 w3 (lzeq_same w2 w3 G3 P3) HS2 HM2) as (HS3 & HM3 & Z3).
        split; [eapply views_eq_trans; [exact V1|eapply views_eq_trans; eauto]|]. split; [exact HS3|]. split; [exact HM3|].
        split; [eapply LZ_trans; [exact Z1|eapply LZ_trans; eauto]|].
        intros t0 pos ser b lid E0 Hs (T & HT). inversion E0; subst t0.
        assert (Hs1 : slot_at w1 t pos ser (SNode b lid)).
        { destruct Hs as (sl & fr & al & Hv & Hn). exists sl, fr, al. split; [|exact Hn]. destruct V1 as (_ & TV & _). rewrite TV. exact Hv. }
        assert (Hpos : In pos (seq 0 (length (t_slots tb)))).
        { destruct Hs as (sl & fr & al & Hv & Hn). unfold tview in Hv. rewrite Ht in Hv. inversion Hv; subst sl. apply in_seq. split; [lia|].
          cbn. apply nth_error_Some. congruence. }
        destruct (proj1 Z1 b T HT) as (T1 & HT1 & _).
        destruct (D2 pos ser b lid Hpos Hs1 (ex_intro _ T1 HT1)) as (T2 & HT2 & Hd2).
        destruct (proj1 Z3 b T2 HT2) as (T3 & HT3 & _ & Hm3). exists T3. split; [exact HT3|apply Hm3; exact Hd2]. }
      destruct (get_table w2 t) as [tb2|] eqn:Ht2.
      - match type of H with (?W3, _) = _ => apply (Fin W3 (fun _ => eq_refl) eq_refl (views_put_flag w2 t tb2 false Ht2) H) end.
      - apply (Fin w2 (fun _ => eq_refl) eq_refl (views_eq_refl w2) H).
    Qed.

    (* the about-to-change walk: observers only (a binding node is never subscribed there) *)
    Lemma walk_about t p payload : forall idxs w w',
      NOACT w -> walk fn rtl R w t p KAbout payload idxs = (w', None) ->
      (forall b, get_bind w' b = get_bind w b) /\ w_props w' = w_props w /\ views_eq w w'.
    Proof.
      induction idxs as [|x r IH]; intros w w' Hna H; cbn [walk] in H.
      - inversion H; subst. split; [reflexivity|]. split; [reflexivity|apply views_eq_refl].
      - destruct (get_table w t) as [tb|] eqn:Ht; [|discriminate H].
        destruct (nth_error (t_slots tb) x) as [[[ser s]|]|] eqn:Hx; [|exact (IH w w' Hna H)..].
        destruct s as [label act|b lid]; cbn [deliver] in H.
        + assert (act = None) by (apply (Hna t x ser label act); exists (t_slots tb), (t_free tb), (t_alive tb); split; [unfold tview; rewrite Ht; reflexivity|exact Hx]).
          subst act. set (w1 := log (EvNotify label KAbout payload (values w p)) w) in *.
          assert (H1 : walk fn rtl R w1 t p KAbout payload r = (w', None)) by (destruct payload; exact H).
          destruct (IH w1 w' (NOACT_views _ _ (views_log _ w) Hna) H1) as (A1 & A2 & A3).
          split; [exact A1|]. split; [exact A2|]. eapply views_eq_trans; [apply views_log|exact A3].
        + destruct (get_bind w b); discriminate H.
    Qed.

    Lemma emit_about P w ot p payload w' :
      NOACT w -> LSIMP w -> MSx P w -> emit fn rtl R w ot p KAbout payload = (w', None) ->
      views_eq w w' /\ LSIMP w' /\ MSx P w' /\ LZ w w' /\ w_props w' = w_props w.
    Proof.
      intros Hna HS HM H. destruct ot as [t|]; cbn [emit] in H.
      2:{ inversion H; subst w'. split; [apply views_eq_refl|]. split; [exact HS|]. split; [exact HM|]. split; [apply LZ_refl|reflexivity]. }
      destruct (get_table w t) as [tb|] eqn:Ht; [|discriminate H]. destruct (t_emitting tb); [discriminate H|].
      set (tb1 := {| t_slots := t_slots tb; t_free := t_free tb; t_emitting := true; t_alive := t_alive tb |}) in *.
      set (w1 := put_table w t tb1) in *.
      assert (V1 : views_eq w w1) by (apply views_put_flag; exact Ht).
      destruct (walk fn rtl R w1 t p KAbout payload (seq 0 (length (t_slots tb)))) as [w2 [e|]] eqn:Hw.
      { destruct (get_table w2 t); discriminate H. }
      destruct (walk_about t p payload _ w1 w2 (NOACT_views _ _ V1 Hna) Hw) as (G2 & P2 & V2).
      assert (Fin : forall w3, (forall b, get_bind w3 b = get_bind w2 b) -> w_props w3 = w_props w2 -> views_eq w2 w3 -> (w3, @None pexn) = (w', None) ->
                views_eq w w' /\ LSIMP w' /\ MSx P w' /\ LZ w w' /\ w_props w' = w_props w).
      { intros w3 G3 P3 V3 E3. inversion E3; subst w'.
        assert (E : lzeq w w3) by (apply lzeq_same; [intros b; rewrite G3, G2; reflexivity|rewrite P3, P2; reflexivity]).
        destruct (lzeq_transfer P w w3 E HS HM) as (HS3 & HM3 & Z3).
        split; [eapply views_eq_trans; [exact V1|eapply views_eq_trans; eauto]|]. split; [exact HS3|]. split; [exact HM3|]. split; [exact Z3|].
        rewrite P3, P2. reflexivity. }
      destruct (get_table w2 t) as [tb2|] eqn:Ht2.
      - match type of H with (?W3, _) = _ => apply (Fin W3 (fun _ => eq_refl) eq_refl (views_put_flag w2 t tb2 false Ht2) H) end.
      - apply (Fin w2 (fun _ => eq_refl) eq_refl (views_eq_refl w2) H).
    Qed.
  End Body.

  (* Property::setHelper in a mixed world *)
  Theorem set_helper_step : forall fuel, STEP (set_helper fn rtl fuel).
  Proof.
    induction fuel as [|f IH]; intros P w p v w' Hinv Hna HS HM H; cbn [set_helper] in H; [discriminate H|].
    destruct (lookup (w_props w) p) as [pr|] eqn:Hp; [|discriminate H].
    destruct (Z.eqb v (pr_value pr)).
    { inversion H; subst w'. split; [apply views_eq_refl|]. split; [exact HS|]. split; [exact HM|apply LZ_refl]. }
    destruct (emit fn rtl (set_helper fn rtl f) w (pr_about pr) p KAbout [pr_value pr; v]) as [w1 [e|]] eqn:He1; [discriminate H|].
    destruct (emit_about (set_helper fn rtl f) P w (pr_about pr) p _ w1 Hna HS HM He1) as (V1 & HS1 & HM1 & Z1 & P1).
    rewrite P1, Hp in H.
    set (w2 := set_props w1 (bind_key (w_props w) p (prop_set_value pr v))) in *.
    assert (Hp1 : lookup (w_props w1) p = Some pr) by (rewrite P1; exact Hp).
    assert (V2 : views_eq w1 w2) by (unfold w2; rewrite <- P1; apply views_set_value; exact Hp1).
    assert (G2 : forall b, get_bind w2 b = get_bind w1 b) by reflexivity.
    set (P' := fun y => P y \/ y = p).
    assert (HM2 : MSx P' w2).
    { unfold w2. rewrite <- P1. apply (MSx_store P w1 p pr v Hp1). apply (MSx_weaken P); [intros y Hy; left; exact Hy|exact HM1]. }
    assert (HS2 : LSIMP w2) by (intros b x Hx Hex; exact (HS1 b x Hx Hex)).
    assert (Z2 : LZ w1 w2).
    { split; [intros b T (x & Hx & Hex & Ha); exists T; split; [exists x; auto|auto]|intros b T (x & Hx & Hex & Ha); exists T; exists x; auto]. }
    assert (Hinv2 : pinv w2) by (apply (pinv_views _ _ V2); apply (pinv_views _ _ V1); exact Hinv).
    assert (Hna2 : NOACT w2) by (apply (NOACT_views _ _ V2); apply (NOACT_views _ _ V1); exact Hna).
    cbn [prop_set_value pr_changed] in H.
    destruct (emit_changed (set_helper fn rtl f) IH P' w2 (pr_changed pr) p v w' Hinv2 Hna2 HS2 HM2 H) as (V3 & HS3 & HM3 & Z3 & D3).
    split; [exact (views_eq_trans _ _ _ V1 (views_eq_trans _ _ _ V2 V3))|]. split; [exact HS3|]. split; [|exact (LZ_trans _ _ _ Z1 (LZ_trans _ _ _ Z2 Z3))].
    (* p is no longer pending: every evaluator-driven leaf that reads p has been marked *)
    intros b T' HT'. destruct (HM3 b T' HT') as (e' & Ag & So).
    assert (PD : L.pdirty p T').
    { apply pdirty_of_ldirty. intros lid Hi.
      destruct (proj2 Z3 b T' HT') as (T0 & HT0). destruct (proj1 Z3 b T0 HT0) as (T'' & HT'' & Hl'' & _).
      assert (T'' = T') by (eapply ltree_fun; eauto). subst T''. rewrite Hl'' in Hi.
      destruct HT0 as (x0 & Hx0 & Hex0 & Ha0).
      destruct (abs_leaf_in _ _ _ _ Ha0 Hi) as (lf & Hlf & Htg & Hid).
      assert (Hleaf : has_leaf w2 b lf) by (exists (leaves (b_root x0)), (b_target x0); split; [unfold bview; rewrite Hx0; reflexivity|exact Hlf]).
      destruct (pi_leafc _ _ _ _ _ _ _ Hinv2 b lf p Hleaf Htg (fun z => z)) as ((vv & Hpv & Hps) & Hlive).
      assert (Hch : pr_changed pr = Some (h_table (lf_h KChanged lf))).
      { unfold pview, w2 in Hpv; cbn [set_props w_props] in Hpv. rewrite lookup_bind_same in Hpv. inversion Hpv; subst vv. cbn in Hps. exact Hps. }
      unfold live in Hlive. rewrite Hid in Hlive.
      destruct (D3 _ _ _ b lid Hch Hlive (ex_intro _ T0 (ex_intro _ x0 (conj Hx0 (conj Hex0 Ha0))))) as (T3 & HT3 & Hd3).
      assert (T3 = T') by (eapply ltree_fun; eauto). subst T3. exact Hd3. }
    exists (A.set_env e' p (envof w' p)). split.
    - intros y Hy. unfold A.set_env. destruct (Nat.eqb_spec y p) as [->|Hne]; [reflexivity|]. apply Ag. intros [Py|Ey]; [exact (Hy Py)|exact (Hne Ey)].
    - apply (L.sound_env_change F1 F2 F3); assumption.
  Qed.
  (* ---- consequences ---- *)
  Lemma val_ext e e' t : (forall y, e' y = e y) -> A.val e' t = A.val e t.
  Proof. intros E. destruct t; cbn; auto. Qed.
  Lemma sound_ext e e' : (forall y, e' y = e y) -> forall t, L.sound F1 F2 F3 e' t -> L.sound F1 F2 F3 e t.
  Proof.
    intros E. induction t as [z|p i d|f d c k IH|f d c k1 IH1 k2 IH2|f d c k1 IH1 k2 IH2 k3 IH3]; cbn [L.sound]; auto.
    - intros (Sk & H). split; [auto|]. intros Hd. destruct (H Hd) as (Ck & ->). split; [exact Ck|]. rewrite (val_ext e e' k E). reflexivity.
    - intros (S1 & S2 & H). split; [auto|split; [auto|]]. intros Hd. destruct (H Hd) as (C1 & C2 & ->). repeat split; auto.
      rewrite (val_ext e e' k1 E), (val_ext e e' k2 E). reflexivity.
    - intros (S1 & S2 & S3 & H). split; [auto|split; [auto|split; [auto|]]]. intros Hd. destruct (H Hd) as (C1 & C2 & C3 & ->). repeat split; auto.
      rewrite (val_ext e e' k1 E), (val_ext e e' k2 E), (val_ext e e' k3 E). reflexivity.
  Qed.

  (* every tree of an evaluator-driven binding is sound for the CURRENT values *)
  Definition MS (w : world) : Prop := forall b T, ltree w b T -> L.sound F1 F2 F3 (envof w) T.
  Lemma MS_MSx w : MS w <-> MSx (fun _ => False) w.
  Proof.
    split.
    - intros H b T HT. exists (envof w). split; [reflexivity|exact (H b T HT)].
    - intros H b T HT. destruct (H b T HT) as (e' & Ag & So). apply (sound_ext (envof w) e'); [intros y; apply Ag; intros []|exact So].
  Qed.

  (* an assignment - whatever cascade of immediate re-evaluations it sets off - leaves every cache of every evaluator-driven binding right *)
  Theorem mixed_set_helper_keeps_sound fuel w p v w' :
    pinv w -> NOACT w -> LSIMP w -> MS w -> set_helper fn rtl fuel w p v = (w', None) ->
    pinv w' /\ NOACT w' /\ LSIMP w' /\ MS w' /\ views_eq w w'.
  Proof.
    intros Hinv Hna HS HM H. destruct (set_helper_step fuel (fun _ => False) w p v w' Hinv Hna HS (proj1 (MS_MSx w) HM) H) as (V & HS' & HM' & _).
    split; [exact (pinv_views _ _ V Hinv)|]. split; [exact (NOACT_views _ _ V Hna)|]. split; [exact HS'|]. split; [apply MS_MSx; exact HM'|exact V].
  Qed.

  (* a sound tree evaluates to the denotation of its expression *)
  Lemma eval_sound_den e : forall t, L.sound F1 F2 F3 e t -> snd (A.eval F1 F2 F3 e t) = A.den F1 F2 F3 e t.
  Proof.
    induction t as [z|p i d|f d c k IH|f d c k1 IH1 k2 IH2|f d c k1 IH1 k2 IH2 k3 IH3]; cbn [L.sound A.eval A.den]; auto.
    - intros (Sk & H). destruct d.
      + specialize (IH Sk). destruct (A.eval F1 F2 F3 e k) as [k' vk]. cbn [snd] in *. subst vk. reflexivity.
      + destruct (H eq_refl) as (Ck & ->). cbn [snd]. rewrite (L.clean_sound_den F1 F2 F3 e k Ck Sk). reflexivity.
    - intros (S1 & S2 & H). destruct d.
      + specialize (IH1 S1). specialize (IH2 S2). destruct (A.eval F1 F2 F3 e k1) as [k1' v1], (A.eval F1 F2 F3 e k2) as [k2' v2]. cbn [snd] in *. subst. reflexivity.
      + destruct (H eq_refl) as (C1 & C2 & ->). cbn [snd]. rewrite (L.clean_sound_den F1 F2 F3 e k1 C1 S1), (L.clean_sound_den F1 F2 F3 e k2 C2 S2). reflexivity.
    - intros (S1 & S2 & S3 & H). destruct d.
      + specialize (IH1 S1). specialize (IH2 S2). specialize (IH3 S3).
        destruct (A.eval F1 F2 F3 e k1) as [k1' v1], (A.eval F1 F2 F3 e k2) as [k2' v2], (A.eval F1 F2 F3 e k3) as [k3' v3]. cbn [snd] in *. subst. reflexivity.
      + destruct (H eq_refl) as (C1 & C2 & C3 & ->). cbn [snd].
        rewrite (L.clean_sound_den F1 F2 F3 e k1 C1 S1), (L.clean_sound_den F1 F2 F3 e k2 C2 S2), (L.clean_sound_den F1 F2 F3 e k3 C3 S3). reflexivity.
  Qed.
  (* Binding::evaluate of an EVALUATOR-DRIVEN binding in a mixed world: the value it hands to setHelper is the denotation of its
     expression over the current values (no cache is stale), and afterwards every cache is right again *)
  Theorem mixed_lazy_evaluate fuel w b x T w' :
    pinv w -> NOACT w -> LSIMP w -> MS w -> get_bind w b = Some x -> b_evp x <> 0 -> abs_tree (b_root x) = Some T ->
    binding_evaluate fn rtl (set_helper fn rtl fuel) w b = (w', None) ->
    pinv w' /\ NOACT w' /\ LSIMP w' /\ MS w' /\ views_eq w w' /\
    exists t lg, eval fn rtl (values w) (b_root x) = (t, inl (A.den F1 F2 F3 (envof w) T), lg).
  Proof.
    intros Hinv Hna HS HM Hb He HT H. unfold binding_evaluate in H. rewrite Hb in H.
    destruct (eval fn rtl (values w) (b_root x)) as [[t r] lg] eqn:Hev. destruct r as [v|ex]; [|discriminate H].
    assert (Hval : forall p0 lid, In (p0, lid) (A.leaves T) -> values w p0 = Some (envof w p0)).
    { intros p0 lid Hi. destruct (abs_leaf_in _ _ _ _ HT Hi) as (lf & Hlf & Htg0 & _).
      destruct (leaf_target_exists w b x lf p0 Hinv Hb Hlf Htg0) as (pr0 & Hp & _). unfold values, envof. rewrite Hp. reflexivity. }
    destruct (sim_eval fn rtl (values w) (envof w) _ _ _ _ _ HT Hval Hev) as [Et Ev].
    assert (So : L.sound F1 F2 F3 (envof w) T) by (apply (HM b T); exists x; auto).
    pose proof (L.eval_sound F1 F2 F3 (envof w) T So) as ES. destruct (A.eval F1 F2 F3 (envof w) T) as [T2 vT] eqn:HeT. cbn [fst snd] in *.
    destruct ES as (_ & So2 & _ & _).
    assert (Ev' : v = A.den F1 F2 F3 (envof w) T) by (rewrite Ev; pose proof (eval_sound_den (envof w) T So) as E; rewrite HeT in E; exact E).
    pose proof (leaves_eval fn rtl (values w) (b_root x)) as Hl. rewrite Hev in Hl. cbn [fst] in Hl.
    set (w1 := log_fns lg (put_bind w b (bind_with_root x t))) in *.
    assert (V1 : views_eq w w1) by (eapply views_eq_trans; [apply (views_put_root w b x t Hb Hl)|apply views_log_fns]).
    assert (G1 : forall c, get_bind w1 c = if Nat.eqb b c then Some (bind_with_root x t) else get_bind w c).
    { intros c. unfold w1. rewrite get_bind_log_fns. apply get_bind_put_root. exact Hb. }
    assert (P1 : w_props w1 = w_props w) by (unfold w1; rewrite PropProofs.log_fns_props; reflexivity).
    assert (HS1 : LSIMP w1).
    { intros c z Hz Hez. rewrite G1 in Hz. destruct (Nat.eqb_spec b c) as [<-|Hne]; [|exact (HS c z Hz Hez)].
      inversion Hz; subst z. cbn [bind_with_root b_root]. rewrite Et. discriminate. }
    assert (HM1 : MS w1).
    { intros c U (z & Hz & Hez & Ha). rewrite G1 in Hz. assert (EE : envof w1 = envof w) by (unfold envof; rewrite P1; reflexivity). rewrite EE.
      destruct (Nat.eqb_spec b c) as [<-|Hne]; [|apply (HM c U); exists z; auto].
      inversion Hz; subst z. cbn [bind_with_root b_root] in Ha. rewrite Et in Ha. inversion Ha; subst U. exact So2. }
    destruct (b_target x) as [q|].
    - destruct (mixed_set_helper_keeps_sound fuel w1 q v w' (pinv_views _ _ V1 Hinv) (NOACT_views _ _ V1 Hna) HS1 HM1 H) as (A1 & A2 & A3 & A4 & A5).
      split; [exact A1|]. split; [exact A2|]. split; [exact A3|]. split; [exact A4|]. split; [exact (views_eq_trans _ _ _ V1 A5)|].
      exists t, lg. rewrite Ev'. reflexivity.
    - inversion H; subst w'. split; [exact (pinv_views _ _ V1 Hinv)|]. split; [exact (NOACT_views _ _ V1 Hna)|]. split; [exact HS1|]. split; [exact HM1|].
      split; [exact V1|]. exists t, lg. rewrite Ev'. reflexivity.
  Qed.
  (* ================================================================================================================== *)
  (* the caches are right in every world a growing MIXED network reaches *)
  Definition ML (w : world) : Prop := pinv w /\ NOACT w /\ LSIMP w /\ MS w.

  Lemma val_leaves_ext e e' t : (forall y lid, In (y, lid) (A.leaves t) -> e' y = e y) -> A.val e' t = A.val e t.
  Proof. intros E. destruct t; cbn; auto. apply (E p lid). left. reflexivity. Qed.
  Lemma sound_leaves_ext e e' : forall t, (forall y lid, In (y, lid) (A.leaves t) -> e' y = e y) -> L.sound F1 F2 F3 e' t -> L.sound F1 F2 F3 e t.
  Proof.
    induction t as [z|p i d|f d c k IH|f d c k1 IH1 k2 IH2|f d c k1 IH1 k2 IH2 k3 IH3]; cbn [L.sound A.leaves]; auto.
    - intros E (Sk & H). split; [auto|]. intros Hd. destruct (H Hd) as (Ck & ->). split; [exact Ck|]. rewrite (val_leaves_ext e e' k E). reflexivity.
    - intros E (S1 & S2 & H).
      assert (E1 : forall y lid, In (y, lid) (A.leaves k1) -> e' y = e y) by (intros y lid Hi; apply (E y lid); apply in_or_app; left; exact Hi).
      assert (E2 : forall y lid, In (y, lid) (A.leaves k2) -> e' y = e y) by (intros y lid Hi; apply (E y lid); apply in_or_app; right; exact Hi).
      split; [auto|split; [auto|]]. intros Hd. destruct (H Hd) as (C1 & C2 & ->). repeat split; auto.
      rewrite (val_leaves_ext e e' k1 E1), (val_leaves_ext e e' k2 E2). reflexivity.
    - intros E (S1 & S2 & S3 & H).
      assert (E1 : forall y lid, In (y, lid) (A.leaves k1) -> e' y = e y) by (intros y lid Hi; apply (E y lid); apply in_or_app; left; exact Hi).
      assert (E2 : forall y lid, In (y, lid) (A.leaves k2) -> e' y = e y) by (intros y lid Hi; apply (E y lid); apply in_or_app; right; apply in_or_app; left; exact Hi).
      assert (E3 : forall y lid, In (y, lid) (A.leaves k3) -> e' y = e y) by (intros y lid Hi; apply (E y lid); apply in_or_app; right; apply in_or_app; right; exact Hi).
      split; [auto|split; [auto|split; [auto|]]]. intros Hd. destruct (H Hd) as (C1 & C2 & C3 & ->). repeat split; auto.
      rewrite (val_leaves_ext e e' k1 E1), (val_leaves_ext e e' k2 E2), (val_leaves_ext e e' k3 E3). reflexivity.
  Qed.

  (* the leaves of an evaluator-driven tree refer to existing properties *)
  Lemma ltree_leaf_exists w b T y lid : pinv w -> ltree w b T -> In (y, lid) (A.leaves T) -> lookup (w_props w) y <> None.
  Proof.
    intros Hinv (x & Hx & _ & Ha) Hi. destruct (abs_leaf_in _ _ _ _ Ha Hi) as (lf & Hlf & Htg & _).
    destruct (leaf_target_exists w b x lf y Hinv Hx Hlf Htg) as (pr & Hp & _). rewrite Hp. discriminate.
  Qed.

  (* worlds with the same bindings whose values agree wherever an existing property is concerned *)
  Lemma ML_lazy_same w w' :
    ML w -> (forall b, get_bind w' b = get_bind w b) -> (forall y, lookup (w_props w) y <> None -> envof w' y = envof w y) ->
    LSIMP w' /\ MS w'.
  Proof.
    intros (Hinv & _ & HS & HM) G E. split.
    - intros b x Hx He. rewrite G in Hx. exact (HS b x Hx He).
    - intros b T (x & Hx & He & Ha). rewrite G in Hx. assert (HT : ltree w b T) by (exists x; auto).
      apply (sound_leaves_ext (envof w') (envof w)); [|exact (HM b T HT)].
      intros y lid Hi. symmetry. apply E. exact (ltree_leaf_exists w b T y lid Hinv HT Hi).
  Qed.

  Lemma ML_new_prop w p v : ML w -> lookup (w_props w) p = None -> ML (set_props w (bind_key (w_props w) p (prop_new v))).
  Proof.
    intros HML Hp. pose proof HML as (Hinv & Hna & _). set (w' := set_props w _).
    destruct (ML_lazy_same w w' HML (fun _ => eq_refl)) as (HS' & HM').
    { intros y Hy. unfold envof, w'; cbn [set_props w_props]. rewrite lookup_bind. destruct (Nat.eqb_spec y p) as [->|]; [contradiction|reflexivity]. }
    split; [apply pinv_new_prop; assumption|]. split; [|split; assumption].
    intros t pos ser label act Hs. exact (Hna t pos ser label act Hs).
  Qed.

  (* a clean tree whose operator nodes cache their denotation - what building a binding produces - is sound *)
  Lemma clean_consis_sound e q : forall t, A.clean t -> A.consis F1 F2 F3 e [] q t -> L.sound F1 F2 F3 e t.
  Proof.
    assert (NP : forall t, A.nopend [] q t) by (intros t p lid _ []).
    induction t as [z|p i d|f d c k IH|f d c k1 IH1 k2 IH2|f d c k1 IH1 k2 IH2 k3 IH3]; cbn [A.clean A.consis L.sound]; auto.
    - intros (Hd & Ck) (Xk & Hc). split; [auto|]. intros _. split; [exact Ck|]. rewrite (Hc (NP _)). cbn [A.den].
      rewrite (AP.val_den F1 F2 F3 e [] q k Ck Xk (NP k)). reflexivity.
    - intros (Hd & C1 & C2) (X1 & X2 & Hc). split; [auto|split; [auto|]]. intros _. split; [exact C1|split; [exact C2|]]. rewrite (Hc (NP _)). cbn [A.den].
      rewrite (AP.val_den F1 F2 F3 e [] q k1 C1 X1 (NP k1)), (AP.val_den F1 F2 F3 e [] q k2 C2 X2 (NP k2)). reflexivity.
    - intros (Hd & C1 & C2 & C3) (X1 & X2 & X3 & Hc). split; [auto|split; [auto|split; [auto|]]]. intros _. split; [exact C1|split; [exact C2|split; [exact C3|]]].
      rewrite (Hc (NP _)). cbn [A.den].
      rewrite (AP.val_den F1 F2 F3 e [] q k1 C1 X1 (NP k1)), (AP.val_den F1 F2 F3 e [] q k2 C2 X2 (NP k2)), (AP.val_den F1 F2 F3 e [] q k3 C3 X3 (NP k3)). reflexivity.
  Qed.
  Lemma make_binding_old_binds w e m w1 b : make_binding fn rtl w e m = inl (w1, b) ->
    b = length (w_binds w) /\ forall c, c <> b -> get_bind w1 c = get_bind w c.
  Proof.
    unfold make_binding. destruct (match m with MImmediate => Some 0 | MEvaluator ev => lookup (w_bevs w) ev end) as [ep|]; [|discriminate].
    destruct (nth_error (w_evps w) ep) as [st|]; [|discriminate].
    destruct (build fn rtl w (length (w_binds w)) 0 e) as [[[[w0 root] n1]|]|ex] eqn:Hb; try discriminate.
    intros H; inversion H; subst w1 b; clear H. destruct (PropReg.build_binds fn rtl _ _ _ _ _ _ _ Hb) as [_ B1].
    split; [reflexivity|]. intros c Hc. unfold get_bind; cbn [set_binds w_binds]. rewrite B1.
    destruct (Nat.lt_ge_cases c (length (w_binds w))) as [Hlt|Hge]; [rewrite nth_error_app1 by exact Hlt; reflexivity|].
    rewrite nth_error_app2 by exact Hge. destruct (c - length (w_binds w)) as [|n] eqn:En; [lia|].
    replace (nth_error (w_binds w) c) with (@None binding) by (symmetry; apply nth_error_None; lia). destruct n; reflexivity.
  Qed.

  (* p = makeBinding / makeBoundProperty(expression) for a fresh p, immediately or through an explicit evaluator *)
  (* the world w7 in which the new binding is installed and evaluated, just before setHelper(p, its value) *)
  Lemma bind_fresh_shape fuel w p e m w' :
    ML w -> NOEMIT w -> lookup (w_props w) p = None ->
    (match m with MImmediate => True | MEvaluator e0 => exists id, lookup (w_bevs w) e0 = Some id /\ id <> 0 end) ->
    step1 fn rtl fuel w (PBind p e m) = (w', None) ->
    exists w7 v b ep st0 ls,
      set_helper fn rtl fuel w7 p v = (w', None) /\ ML w7 /\
      b = length (w_binds w) /\ (forall c, c <> b -> bview w7 c = bview w c) /\ bview w7 b = Some (ls, Some p) /\
      (forall lf y, In lf ls -> lf_tg lf = Some y -> lookup (w_props w) y <> None) /\
      nth_error (w_evps w) ep = Some st0 /\
      w_evps w7 = upd (w_evps w) ep {| ep_registry := ep_registry st0 ++ [(S (ep_next st0), b)]; ep_next := S (ep_next st0) |} /\
      (forall y, lookup (w_props w7) y <> None <-> (y = p \/ lookup (w_props w) y <> None)).
  Proof.
    intros HML HNE Hp Hmode H. pose proof HML as (Hinv & Hna & HS & HM). cbn [step1] in H.
    destruct (make_binding fn rtl w e m) as [[w1 b]|x] eqn:Hm; [|discriminate H].
    destruct (PropGrow.make_binding_grow_m fn rtl _ _ _ _ _ Hinv Hm) as (G & Eb & xb & Hxb & Hevp & Htg & Htree).
    destruct (make_binding_pinv _ _ _ _ _ _ _ Hinv Hm) as (Hinv1 & _ & Hheld).
    destruct (make_binding_old_binds _ _ _ _ _ Hm) as (_ & Gold).
    assert (Hlazy : b_evp xb = 0 \/ b_evp xb <> 0 /\ m <> MImmediate).
    { destruct m as [|e0]; [left; exact Hevp|]. right. destruct Hmode as (id & Hid & Hne). rewrite Hid in Hevp. inversion Hevp; subst. split; [exact Hne|discriminate]. }
    pose proof G as (_ & _ & Gv & _ & Gobs & _).
    assert (Vp : values w1 p = None) by (rewrite Gv; unfold values; rewrite Hp; reflexivity).
    assert (Hp1 : lookup (w_props w1) p = None) by (unfold values in Vp; destruct (lookup (w_props w1) p); [discriminate Vp|reflexivity]).
    rewrite Hp1 in H.
    assert (Env1 : forall y, envof w1 y = envof w y).
    { intros y. pose proof (Gv y) as E. unfold values in E. unfold envof. destruct (lookup (w_props w1) y), (lookup (w_props w) y); cbn in E; congruence. }
    assert (Hna1 : NOACT w1) by (intros t pos ser label act Hs; exact (Hna t pos ser label act (Gobs t pos ser label act Hs))).
    (* the new tree *)
    destruct (Htree (envof w) 0) as (T & HT & Tc & Tx & Tl).
    { intros y v Hy. unfold values in Hy. unfold envof. destruct (lookup (w_props w) y); cbn in Hy; [congruence|discriminate Hy]. }
    assert (ST : L.sound F1 F2 F3 (envof w) T) by (apply (clean_consis_sound (envof w) 0); assumption).
    assert (Tnp : forall y lid, In (y, lid) (A.leaves T) -> y <> p).
    { intros y lid Hi ->. pose proof (Tl p lid Hi) as E. rewrite Vp in E. discriminate E. }
    assert (ML1 : LSIMP w1 /\ MS w1).
    { split.
      - intros c z Hz Hez. destruct (Nat.eq_dec c b) as [->|Hne]; [rewrite Hxb in Hz; inversion Hz; subst z; rewrite HT; discriminate|].
        rewrite (Gold c Hne) in Hz. exact (HS c z Hz Hez).
      - intros c U (z & Hz & Hez & Ha). apply (sound_ext (envof w1) (envof w)); [intros y; symmetry; apply Env1|].
        destruct (Nat.eq_dec c b) as [->|Hne]; [rewrite Hxb in Hz; inversion Hz; subst z; rewrite HT in Ha; inversion Ha; subst U; exact ST|].
        rewrite (Gold c Hne) in Hz. apply (HM c U). exists z. auto. }
    destruct (ML_new_prop w1 p 0%Z (conj Hinv1 (conj Hna1 ML1)) Hp1) as (Hinvn & Hnan & HSn & HMn).
    set (wn := set_props w1 (bind_key (w_props w1) p (prop_new 0%Z))) in *.
    unfold assign_binding in H.
    assert (Hpn : lookup (w_props wn) p = Some (prop_new 0%Z)) by (unfold wn; cbn [set_props w_props]; apply lookup_bind_same).
    rewrite Hpn in H. cbn [prop_new pr_updater ok] in H. rewrite Hpn in H.
    assert (Hbn : get_bind wn b = Some xb) by exact Hxb. rewrite Hbn in H.
    set (w5 := set_props wn (bind_key (w_props wn) p (prop_set_updater (prop_new 0%Z) (Some b)))) in *.
    set (xb3 := bind_with_target xb (Some p)) in *.
    set (w6 := put_bind w5 b xb3) in *.
    destruct (get_bind_lt _ _ _ Hbn) as [Hlt Hal0].
    assert (Bvb : bview wn b = Some (leaves (b_root xb), None)) by (unfold bview; rewrite Hbn, Htg; reflexivity).
    assert (HNT : NOTARGET p wn).
    { intros b' ls E. destruct (pi_tgt _ _ _ _ _ _ _ Hinvn _ _ _ E) as (vv & Ev & Eu). unfold pview in Ev. rewrite Hpn in Ev. assert (vv = psigs_of (prop_new 0%Z)) by congruence. subst vv. discriminate Eu. }
    assert (Hinv6 : pinv w6).
    { apply (install_updater wn p (prop_new 0%Z) b xb (leaves (b_root xb))); auto.
      eapply pinvg_mono; [| | | | | |exact Hinvn]; cbv beta; try (intros z Hz; exact Hz); try (intros z Hz; exact (False_ind _ Hz)). }
    destruct (eval fn rtl (values w6) (b_root xb)) as [[t r] lg] eqn:Hevl. destruct r as [v|ex]; [|discriminate H].
    pose proof (leaves_eval fn rtl (values w6) (b_root xb)) as Hl. rewrite Hevl in Hl. cbn [fst] in Hl.
    assert (Hb6 : get_bind w6 b = Some xb3).
    { unfold get_bind, w6, put_bind; cbn [set_binds w_binds]. change (w_binds w5) with (w_binds wn). rewrite nth_upd_same by exact Hlt. cbn [xb3 bind_with_target b_alive]. rewrite Hal0. reflexivity. }
    set (w7 := log_fns lg (put_bind w6 b (bind_with_root xb3 t))) in *.
    assert (V67 : views_eq w6 w7) by (eapply views_eq_trans; [apply (views_put_root w6 b xb3 t Hb6); exact Hl|apply views_log_fns]).
    assert (Hinv7 : pinv w7) by (eapply pinv_views; eauto).
    assert (G7 : forall b', get_bind w7 b' = if Nat.eqb b b' then Some (bind_with_root xb3 t) else get_bind wn b').
    { intros b'. unfold w7. rewrite get_bind_log_fns, (get_bind_put_root _ _ _ _ _ Hb6). destruct (Nat.eqb_spec b b') as [Ebb|Hne]; [reflexivity|].
      unfold get_bind, w6, put_bind; cbn [set_binds w_binds]. change (w_binds w5) with (w_binds wn). rewrite nth_upd_other by exact Hne. reflexivity. }
    assert (L7 : forall q, lookup (w_props w7) q = if Nat.eqb q p then Some (prop_set_updater (prop_new 0%Z) (Some b)) else lookup (w_props wn) q).
    { intros q. unfold w7. rewrite PropProofs.log_fns_props. change (w_props (put_bind w6 b (bind_with_root xb3 t))) with (w_props w5). unfold w5; cbn [set_props w_props]. apply lookup_bind. }
    assert (Env7 : forall y, envof w7 y = envof wn y).
    { intros y. unfold envof. rewrite L7. destruct (Nat.eqb_spec y p) as [->|]; [rewrite Hpn; reflexivity|reflexivity]. }
    assert (T7 : forall t0, tview w7 t0 = tview wn t0) by (intros t0; destruct V67 as (_ & T67 & _); rewrite T67; reflexivity).
    assert (Hna7 : NOACT w7) by (intros t0 pos ser label act (sl & fr & al & Hv & Hn); rewrite T7 in Hv; apply (Hnan t0 pos ser label act); exists sl, fr, al; auto).
    (* the tree after the first evaluation *)
    assert (Hval6 : forall p0 lid, In (p0, lid) (A.leaves T) -> values w6 p0 = Some (envof w p0)).
    { intros p0 lid Hi. pose proof (Tl p0 lid Hi) as E. pose proof (Tnp p0 lid Hi) as Hne.
      unfold values. change (w_props w6) with (w_props w5). unfold w5, wn; cbn [set_props w_props]. rewrite !lookup_bind.
      destruct (Nat.eqb_spec p0 p); [contradiction|]. exact E. }
    destruct (sim_eval fn rtl (values w6) (envof w) _ _ _ _ _ HT Hval6 Hevl) as [Et _].
    rewrite (AP.eval_clean F1 F2 F3 (envof w) T Tc) in Et. cbn [fst] in Et.
    assert (ML7 : LSIMP w7 /\ MS w7).
    { split.
      - intros c z Hz Hez. rewrite G7 in Hz. destruct (Nat.eqb_spec b c) as [<-|Hne]; [|exact (HSn c z Hz Hez)].
        inversion Hz; subst z. cbn [bind_with_root b_root]. rewrite Et. discriminate.
      - intros c U (z & Hz & Hez & Ha). apply (sound_ext (envof w7) (envof wn)); [intros y; symmetry; apply Env7|].
        rewrite G7 in Hz. destruct (Nat.eqb_spec b c) as [<-|Hne]; [|apply (HMn c U); exists z; auto].
        inversion Hz; subst z. cbn [bind_with_root b_root] in Ha. rewrite Et in Ha. inversion Ha; subst U.
        apply (sound_leaves_ext (envof wn) (envof w)); [|exact ST].
        intros y lid Hi. unfold envof, wn; cbn [set_props w_props]. rewrite lookup_bind. destruct (Nat.eqb_spec y p) as [->|]; [destruct (Tnp p lid Hi eq_refl)|].
        pose proof (Env1 y) as E1. unfold envof in E1. symmetry. exact E1. }
    destruct ML7 as (HS7 & HM7).
    (* the registry *)
    assert (Hevps : exists ep st0, nth_error (w_evps w) ep = Some st0 /\
              w_evps w1 = upd (w_evps w) ep {| ep_registry := ep_registry st0 ++ [(S (ep_next st0), b)]; ep_next := S (ep_next st0) |}).
    { clear - Hm. unfold make_binding in Hm. destruct (match m with MImmediate => Some 0 | MEvaluator ev => lookup (w_bevs w) ev end) as [ep|]; [|discriminate Hm].
      destruct (nth_error (w_evps w) ep) as [st0|] eqn:Hst; [|discriminate Hm].
      destruct (build fn rtl w (length (w_binds w)) 0 e) as [[[[w0 root] n1]|]|ex] eqn:Hb; try discriminate Hm.
      inversion Hm; subst w1 b. destruct (PropReg.build_binds fn rtl _ _ _ _ _ _ _ Hb) as [E1 _].
      exists ep, st0. split; [exact Hst|]. cbn [set_binds set_evps w_evps]. rewrite E1. reflexivity. }
    destruct Hevps as (ep & st0 & Hst0 & Hev1).
    exists w7, v, b, ep, st0, (leaves (b_root xb)).
    split; [exact H|]. split; [exact (conj Hinv7 (conj Hna7 (conj HS7 HM7)))|]. split; [exact Eb|].
    assert (BV7 : forall c, bview w7 c = if Nat.eqb b c then Some (leaves (b_root xb), Some p) else bview w1 c).
    { intros c. unfold bview. rewrite G7. destruct (Nat.eqb_spec b c) as [<-|Hne]; [cbn [bind_with_root xb3 bind_with_target b_root b_target]; rewrite Hl; reflexivity|reflexivity]. }
    split; [|split; [|split; [|split; [exact Hst0|split]]]].
    - intros c Hc. rewrite BV7. destruct (Nat.eqb_spec b c); [congruence|]. unfold bview. rewrite (Gold c Hc). reflexivity.
    - rewrite BV7, Nat.eqb_refl. reflexivity.
    - intros lf y Hlf Htgy.
      assert (Hleaf : has_leaf w1 b lf) by (exists (leaves (b_root xb)), None; split; [unfold bview; rewrite Hxb, Htg; reflexivity|exact Hlf]).
      pose proof (pi_leafx _ _ _ _ _ _ _ Hinv1 b lf y Hleaf Htgy) as Hex. unfold pview in Hex.
      pose proof (Gv y) as Evy. unfold values in Evy. destruct (lookup (w_props w1) y) eqn:E1y; [|exfalso; apply Hex; reflexivity].
      destruct (lookup (w_props w) y); [discriminate|discriminate Evy].
    - change (w_evps w7) with (w_evps (log_fns lg (put_bind w6 b (bind_with_root xb3 t)))). rewrite (proj1 (PropReg.log_fns_evps lg _)). exact Hev1.
    - intros y. rewrite L7. destruct (Nat.eqb_spec y p) as [->|Hne]; [split; [intros _; left; reflexivity|intros _; discriminate]|].
      unfold wn; cbn [set_props w_props]. rewrite lookup_bind. destruct (Nat.eqb_spec y p); [contradiction|].
      pose proof (Gv y) as Evy. unfold values in Evy. split.
      + intros Hy. right. destruct (lookup (w_props w1) y); [|contradiction]. destruct (lookup (w_props w) y); [discriminate|discriminate Evy].
      + intros [Hy|Hy]; [contradiction|]. destruct (lookup (w_props w) y); [|contradiction]. destruct (lookup (w_props w1) y); [discriminate|discriminate Evy].
  Qed.

  Lemma ML_bind_fresh fuel w p e m w' :
    ML w -> NOEMIT w -> lookup (w_props w) p = None ->
    (match m with MImmediate => True | MEvaluator e0 => exists id, lookup (w_bevs w) e0 = Some id /\ id <> 0 end) ->
    step1 fn rtl fuel w (PBind p e m) = (w', None) -> LSIMP w' /\ MS w' /\ NOACT w'.
  Proof.
    intros HML HNE Hp Hmode H. destruct (bind_fresh_shape fuel w p e m w' HML HNE Hp Hmode H) as (w7 & v & b & ep & st0 & ls & H7 & (Hinv7 & Hna7 & HS7 & HM7) & _).
    destruct (mixed_set_helper_keeps_sound fuel w7 p v w' Hinv7 Hna7 HS7 HM7 H7) as (_ & A2 & A3 & A4 & _). auto.
  Qed.

  (* an observer that does not act is connected *)
  Lemma ML_observe fuel w p k label h w' :
    ML w -> step1 fn rtl fuel w (PObserve p k label h None) = (w', None) -> LSIMP w' /\ MS w' /\ NOACT w'.
  Proof.
    intros HML H. pose proof HML as (Hinv & Hna & HS & HM). cbn [step1] in H.
    destruct (match k with KMoved => true | _ => false end); [discriminate H|].
    destruct (subscribe w p k (SObs label None)) as [[w1 hd]|] eqn:Hs; [|discriminate H]. inversion H; subst w'. clear H.
    pose proof (subscribe_ext _ _ _ _ _ _ Hs (pi_twf _ _ _ _ _ _ _ Hinv) (pi_own _ _ _ _ _ _ _ Hinv)) as E.
    set (w2 := set_obs w1 (bind_key (w_obs w1) h hd)).
    assert (G : forall b, get_bind w2 b = get_bind w b) by (intros b; unfold get_bind; change (w_binds w2) with (w_binds w1); rewrite (se_binds _ _ _ _ _ _ E); reflexivity).
    destruct (ML_lazy_same w w2 HML G) as (HS' & HM').
    { intros y _. pose proof (se_vals _ _ _ _ _ _ E y) as Ev. unfold values in Ev. unfold envof. change (w_props w2) with (w_props w1).
      destruct (lookup (w_props w1) y), (lookup (w_props w) y); cbn in Ev; congruence. }
    split; [exact HS'|]. split; [exact HM'|].
    intros t pos ser lab act Hsl. assert (Hsl1 : slot_at w1 t pos ser (SObs lab act)) by exact Hsl.
    destruct (se_new _ _ _ _ _ _ E _ _ _ _ Hsl1) as [Ho|(_ & _ & _ & Ex)]; [exact (Hna t pos ser lab act Ho)|]. inversion Ex; reflexivity.
  Qed.

  (* evaluateAll of an explicit evaluator *)
  Lemma ML_loop fuel id : id <> 0 -> forall l w w',
    ML w -> (forall rid b, In (rid, b) l -> b < length (w_binds w) /\ (PropReg.bkey w b = Some (id, rid) \/ PropReg.bkey w b = None)) ->
    PropSimLazy.evalall_loop fn rtl fuel id l w = (w', None) -> ML w'.
  Proof.
    intros Hid. induction l as [|[rid b] r IH]; intros w w' HML HK H; cbn [PropSimLazy.evalall_loop] in H.
    - inversion H; subst. exact HML.
    - destruct (match nth_error (w_evps w) id with Some st' => existsb (fun q => Nat.eqb (fst q) rid) (ep_registry st') | None => false end).
      + destruct (binding_evaluate fn rtl (set_helper fn rtl fuel) w b) as [w1 [ex|]] eqn:Hb; [discriminate H|].
        pose proof HML as (Hinv & Hna & HS & HM).
        destruct (get_bind w b) as [x|] eqn:Hgb; [|unfold binding_evaluate in Hb; rewrite Hgb in Hb; discriminate Hb].
        assert (Hev : b_evp x <> 0).
        { destruct (HK rid b (or_introl eq_refl)) as (_ & [Hk|Hk]); unfold PropReg.bkey in Hk; rewrite Hgb in Hk; [inversion Hk; subst; exact Hid|discriminate Hk]. }
        destruct (abs_tree (b_root x)) as [T|] eqn:HT; [|exfalso; exact (HS b x Hgb Hev HT)].
        destruct (mixed_lazy_evaluate fuel w b x T w1 Hinv Hna HS HM Hgb Hev HT Hb) as (A1 & A2 & A3 & A4 & _).
        pose proof (PropReg.binding_evaluate_rmono fn rtl _ (PropReg.set_helper_rmono fn rtl fuel) w b) as (_ & R2 & R3 & R4). rewrite Hb in R2, R3, R4. cbn [fst] in R2, R3, R4.
        apply (IH w1 w' (conj A1 (conj A2 (conj A3 A4)))); [|exact H].
        intros rid' b' Hi. destruct (HK rid' b' (or_intror Hi)) as (Hlt & Hk). split; [lia|]. destruct Hk as [Hk|Hk]; [exact (R4 b' _ Hk)|right; exact (R2 b' Hlt Hk)].
      + apply (IH w w' HML); [|exact H]. intros rid' b' Hi. exact (HK rid' b' (or_intror Hi)).
  Qed.

  Lemma ML_evalall fuel w e id w' :
    ML w -> PropReg.REGI w -> lookup (w_bevs w) e = Some id -> id <> 0 -> step1 fn rtl fuel w (BevEvalAll e) = (w', None) -> ML w'.
  Proof.
    intros HML HR He Hid H. cbn [step1] in H. rewrite He in H. destruct (nth_error (w_evps w) id) as [st|] eqn:Hst; [|discriminate H].
    change (PropSimLazy.evalall_loop fn rtl fuel id (ep_registry st) w = (w', None)) in H.
    apply (ML_loop fuel id Hid (ep_registry st) w w' HML); [|exact H].
    intros rid b Hi. pose proof (HR id st rid b Hst Hi) as Hk. split; [exact (PropReg.bkey_lt0 _ _ _ Hk)|left; exact Hk].
  Qed.

  (* Property::reset() *)
  Lemma ML_reset fuel w p w' : ML w -> step1 fn rtl fuel w (PReset p) = (w', None) -> LSIMP w' /\ MS w' /\ NOACT w'.
  Proof.
    intros HML H. pose proof HML as (Hinv & Hna & HS & HM). cbn [step1] in H.
    destruct (lookup (w_props w) p) as [pr|] eqn:Hp; [|discriminate H]. destruct (pr_updater pr) as [b|]; [|inversion H; subst w'; auto].
    destruct (destroy_binding w b) as [w1 [ex|]] eqn:Hd; [discriminate H|].
    destruct (destroy_binding_pinvg _ _ _ _ _ _ w b w1 Hinv (fun z => z) Hd) as (_ & Bb & _ & _ & P1 & _ & _ & _ & _ & Sl & _).
    pose proof (PropGrowMore.destroy_binding_get_bind w b w1 None Hd) as G1.
    assert (Gb : get_bind w1 b = None) by (unfold bview in Bb; destruct (get_bind w1 b); [discriminate Bb|reflexivity]).
    destruct (lookup (w_props w1) p) as [pr1|] eqn:Hp1; [|discriminate H]. inversion H; subst w'. clear H.
    set (w2 := set_props w1 (bind_key (w_props w1) p (prop_set_updater pr1 None))).
    assert (E2 : forall y, envof w2 y = envof w y).
    { intros y. unfold envof, w2; cbn [set_props w_props]. rewrite lookup_bind. destruct (Nat.eqb_spec y p) as [->|]; [|rewrite P1; reflexivity].
      rewrite P1 in Hp1. rewrite Hp1. reflexivity. }
    assert (G2 : forall c, get_bind w2 c = if Nat.eqb c b then None else get_bind w c).
    { intros c. change (get_bind w2 c) with (get_bind w1 c). destruct (Nat.eqb_spec c b) as [->|Hne]; [exact Gb|exact (G1 c Hne)]. }
    split; [|split].
    - intros c x Hx He. rewrite G2 in Hx. destruct (Nat.eqb c b); [discriminate Hx|exact (HS c x Hx He)].
    - intros c T (x & Hx & He & Ha). rewrite G2 in Hx. destruct (Nat.eqb c b); [discriminate Hx|].
      apply (sound_ext (envof w2) (envof w)); [intros y; symmetry; apply E2|]. apply (HM c T). exists x. auto.
    - intros t pos ser label act Hs. apply (Hna t pos ser label act). apply Sl. exact Hs.
  Qed.

  (* ~Property of a property that no live binding reads (bound or not, observed or not) *)
  Lemma ML_del fuel w p w' :
    ML w -> (forall b lf, has_leaf w b lf -> lf_tg lf <> Some p) ->
    step1 fn rtl fuel w (PDel p) = (w', None) -> LSIMP w' /\ MS w' /\ NOACT w'.
  Proof.
    intros HML Hnr H. pose proof HML as (Hinv & Hna & HS & HM).
    destruct (PropGrowMore.del_shape fn rtl fuel w p w' Hinv Hnr H) as (pr & Hp & Pw & Gw & Sw & _ & Hevs).
    (* every binding of w' is a binding of w *)
    assert (Gsub : forall c x, get_bind w' c = Some x -> get_bind w c = Some x).
    { intros c x Hx. destruct (pr_updater pr) as [bp|] eqn:Hu.
      - destruct (Nat.eq_dec c bp) as [->|Hne]; [|rewrite Gw in Hx by congruence; exact Hx]. exfalso.
        destruct Hevs as (w1 & _ & G1 & _ & Gb).
        assert (Pq : pview w p = Some (psigs_of pr)) by (unfold pview; rewrite Hp; reflexivity).
        destruct (pi_upd _ _ _ _ _ _ _ Hinv _ _ _ Pq Hu (fun z => z)) as (lsb & Ebw).
        destruct (get_bind w bp) as [xb|] eqn:Hxb; [|unfold bview in Ebw; rewrite Hxb in Ebw; discriminate Ebw].
        destruct (destroy_binding w1 bp) as [w2 e2] eqn:Hd. cbn [fst] in Gb.
        destruct (PropGrowLazyMore.destroy_shape w1 bp xb w2 e2 G1 Hd) as (_ & _ & Gn). rewrite Gb, Gn in Hx. discriminate Hx.
      - rewrite Gw in Hx by discriminate. exact Hx. }
    split; [|split].
    - intros c x Hx He. exact (HS c x (Gsub c x Hx) He).
    - intros c T (x & Hx & He & Ha). pose proof (Gsub c x Hx) as Hx0.
      apply (sound_leaves_ext (envof w') (envof w)); [|apply (HM c T); exists x; auto].
      intros y lid Hi. destruct (PropSim.abs_leaf_in (b_root x) T y lid Ha Hi) as (lf & Hlf & Htg & _).
      assert (Hne : y <> p).
      { intros ->. apply (Hnr c lf); [|exact Htg]. exists (leaves (b_root x)), (b_target x). split; [unfold bview; rewrite Hx0; reflexivity|exact Hlf]. }
      unfold envof. rewrite Pw, lookup_remove_other by exact Hne. reflexivity.
    - intros t pos ser label act Hs. exact (Hna t pos ser label act (Sw t pos ser _ Hs)).
  Qed.

  (* move construction of ANY property (an input with readers of either kind, a bound one, an observed one): every tree is the old one
     with the source renamed to the destination, which holds the source's value *)
  Lemma ML_movector fuel w src dst w' :
    ML w -> NOEMIT w -> step1 fn rtl fuel w (PMoveCtor src dst) = (w', None) -> LSIMP w' /\ MS w' /\ NOACT w'.
  Proof.
    intros HML HNE H. pose proof HML as (Hinv & Hna & HS & HM).
    destruct (PropMove.movector_shape fn rtl fuel w src dst w' Hinv HNE H) as (s0 & dn & sn & Hs & Hd & Hne & Vd & Ud & Vs & Us & PW & Sw & HB & _ & HT & EV & LEN).
    assert (Pd : pview w dst = None) by (unfold pview; rewrite Hd; reflexivity).
    split; [|split].
    - intros b x' Hx' He. pose proof (HB b) as Hb. rewrite Hx' in Hb. destruct (get_bind w b) as [x|] eqn:Hx; [|destruct Hb].
      destruct Hb as (Ee & Ea). rewrite Ea. rewrite Ee in He. pose proof (HS b x Hx He) as Hn. destruct (abs_tree (b_root x)); [discriminate|contradiction].
    - intros b T' (x' & Hx' & He & Ha). pose proof (HB b) as Hb. rewrite Hx' in Hb. destruct (get_bind w b) as [x|] eqn:Hx; [|destruct Hb].
      destruct Hb as (Ee & Ea). rewrite Ee in He. rewrite Ea in Ha. destruct (abs_tree (b_root x)) as [T|] eqn:HT0; [|discriminate Ha]. inversion Ha; subst T'.
      apply (PropMoveLazy.aren_sound fn (PropMove.rn src dst) (envof w)); [|apply (HM b T); exists x; auto].
      intros p lid Hi. destruct (PropSim.abs_leaf_in (b_root x) T p lid HT0 Hi) as (lf & Hlf & Htg & _).
      assert (Hl : has_leaf w b lf) by (exists (leaves (b_root x)), (b_target x); split; [unfold bview; rewrite Hx; reflexivity|exact Hlf]).
      assert (Hpd : p <> dst) by (intros ->; exact (pi_leafx _ _ _ _ _ _ _ Hinv _ _ _ Hl Htg Pd)).
      unfold envof, PropMove.rn. rewrite PW. destruct (Nat.eqb_spec p src) as [->|Hps].
      + rewrite Nat.eqb_refl, Hs, Vd. reflexivity.
      + destruct (Nat.eqb_spec p dst); [contradiction|]. destruct (Nat.eqb_spec p src); [contradiction|]. reflexivity.
    - intros t pos ser label act Hsl. apply Sw in Hsl. exact (Hna t pos ser label act Hsl).
  Qed.

  (* move ASSIGNMENT over a destination that no live binding reads (whatever it holds: a value, observers, a binding of its own - which is
     destroyed): the surviving trees are the old ones with the source renamed to the destination *)
  Lemma ML_moveassign fuel w dst src w' :
    ML w -> NOEMIT w -> (forall b lf, has_leaf w b lf -> lf_tg lf <> Some dst) ->
    step1 fn rtl fuel w (PMoveAssign dst src) = (w', None) -> LSIMP w' /\ MS w' /\ NOACT w'.
  Proof.
    intros HML HNE Hnr H. pose proof HML as (Hinv & Hna & HS & HM).
    destruct (PropMove.moveassign_shape fn rtl fuel w dst src w' Hinv HNE Hnr H)
      as (s0 & d0 & dn & sn & Hs & Hd & Hne & Vd & Ud & Vs & Us & PW & Sw & HB & HT & HD & LEN).
    (* a binding of the new world is the image of a binding of the old one *)
    assert (Old : forall b x', get_bind w' b = Some x' -> exists x, get_bind w b = Some x /\ b_evp x' = b_evp x /\
                    abs_tree (b_root x') = option_map (PropMove.aren (PropMove.rn src dst)) (abs_tree (b_root x))).
    { intros b x' Hx'. assert (Hnb : pr_updater d0 <> Some b).
      { intros E. rewrite E in HD. destruct HD as (x & _ & Hn & _). rewrite Hn in Hx'. discriminate Hx'. }
      pose proof (HB b Hnb) as Hb. rewrite Hx' in Hb. destruct (get_bind w b) as [x|] eqn:Hx; [|destruct Hb]. exists x. split; [reflexivity|exact Hb]. }
    split; [|split].
    - intros b x' Hx' He. destruct (Old b x' Hx') as (x & Hx & Ee & Ea). rewrite Ea. rewrite Ee in He.
      pose proof (HS b x Hx He) as Hn. destruct (abs_tree (b_root x)); [discriminate|contradiction].
    - intros b T' (x' & Hx' & He & Ha). destruct (Old b x' Hx') as (x & Hx & Ee & Ea). rewrite Ee in He. rewrite Ea in Ha.
      destruct (abs_tree (b_root x)) as [T|] eqn:HT0; [|discriminate Ha]. inversion Ha; subst T'.
      apply (PropMoveLazy.aren_sound fn (PropMove.rn src dst) (envof w)); [|apply (HM b T); exists x; auto].
      intros p lid Hi. destruct (PropSim.abs_leaf_in (b_root x) T p lid HT0 Hi) as (lf & Hlf & Htg & _).
      assert (Hl : has_leaf w b lf) by (exists (leaves (b_root x)), (b_target x); split; [unfold bview; rewrite Hx; reflexivity|exact Hlf]).
      assert (Hpd : p <> dst) by (intros ->; exact (Hnr b lf Hl Htg)).
      unfold envof, PropMove.rn. rewrite PW. destruct (Nat.eqb_spec p src) as [->|Hps].
      + rewrite Nat.eqb_refl, Hs, Vd. reflexivity.
      + destruct (Nat.eqb_spec p dst); [contradiction|]. destruct (Nat.eqb_spec p src); [contradiction|]. reflexivity.
    - intros t pos ser label act Hsl. apply Sw in Hsl. exact (Hna t pos ser label act Hsl).
  Qed.

  (* ---- histories: new properties, assignments, reads, plain observers, evaluator objects, fresh properties bound immediately or
     through an explicit evaluator, evaluateAll of explicit evaluators, reset() ---- *)
  Definition grow_op5 (w : world) (o : op) : Prop :=
    match o with
    | PNew _ _ | PSet _ _ _ | PGet _ | PHasBinding _ | BevNew _ | BevCopy _ _ | BevDel _ | PReset _ | PAssignFrom _ _ | PUnobserve _ | PMoveCtor _ _ => True
    | PObserve _ _ _ _ None => True
    | PBind p _ m => lookup (w_props w) p = None /\
                     match m with MImmediate => True | MEvaluator e0 => exists id, lookup (w_bevs w) e0 = Some id /\ id <> 0 end
    | BevEvalAll e0 => exists id, lookup (w_bevs w) e0 = Some id /\ id <> 0
    | PDel p => PropGrowMore.no_reader_b w p = true      (* destruction of a property no live binding reads *)
    | PMoveAssign dst _ => PropGrowMore.no_reader_b w dst = true      (* the overwritten property likewise *)
    | _ => False
    end.

  Theorem ML_step fuel w o w' :
    ML w -> NOEMIT w -> PropReg.REGI w -> grow_op5 w o -> step1 fn rtl fuel w o = (w', None) -> ML w'.
  Proof.
    intros HML HNE HR Ho H. pose proof HML as (Hinv & Hna & HS & HM).
    assert (Hinv' : pinv w') by (apply (step1_pinv fn rtl fuel w o w' None Hinv HNE H); exact I).
    assert (Same : (forall b, get_bind w' b = get_bind w b) -> w_props w' = w_props w -> w_tables w' = w_tables w -> ML w').
    { intros G Pp Tt. destruct (ML_lazy_same w w' HML G) as (A1 & A2); [intros y _; unfold envof; rewrite Pp; reflexivity|].
      split; [exact Hinv'|]. split; [|split; assumption].
      intros t pos ser label act (sl & fr & al & Hv & Hn). apply (Hna t pos ser label act). exists sl, fr, al. split; [|exact Hn].
      unfold tview, get_table in *. rewrite <- Tt. exact Hv. }
    destruct o; cbn [grow_op5] in Ho; try contradiction.
    - (* PNew *) cbn [step1] in H. destruct (lookup (w_props w) p) eqn:Hp; [discriminate H|]. inversion H; subst w'. apply ML_new_prop; assumption.
    - (* PDel *) destruct (ML_del fuel w p w' HML (PropGrowMore.no_reader_sound w p Ho) H) as (A1 & A2 & A3). split; [exact Hinv'|]. split; [exact A3|]. split; assumption.
    - (* PSet *) cbn [step1] in H. destruct (lookup (w_props w) p) as [pr|]; [|discriminate H]. destruct (pr_updater pr); [discriminate H|].
      destruct (mixed_set_helper_keeps_sound fuel w p v w' Hinv Hna HS HM H) as (A1 & A2 & A3 & A4 & _). split; [exact A1|]. split; [exact A2|]. split; assumption.
    - (* PGet *) cbn [step1] in H. destruct (lookup (w_props w) p); [|discriminate H]. inversion H; subst w'. apply Same; reflexivity.
    - (* PHasBinding *) cbn [step1] in H. destruct (lookup (w_props w) p); [|discriminate H]. inversion H; subst w'. apply Same; reflexivity.
    - (* PObserve *) destruct act; [contradiction|]. destruct (ML_observe fuel w p k label h w' HML H) as (A1 & A2 & A3).
      split; [exact Hinv'|]. split; [exact A3|]. split; assumption.
    - (* PUnobserve *) cbn [step1] in H. destruct (lookup (w_obs w) h) as [hd|]; [|discriminate H].
      destruct (unsubscribe_cases w hd w' None H (pi_dead _ _ _ _ _ _ _ Hinv)) as [[_ E]|[(-> & _)|(_ & s0 & E)]]; [discriminate E|exact HML|].
      destruct (ML_lazy_same w w' HML) as (A1 & A2).
      { intros b. unfold get_bind. rewrite (re_binds _ _ _ _ _ _ E). reflexivity. }
      { intros y _. unfold envof. rewrite (re_props _ _ _ _ _ _ E). reflexivity. }
      split; [exact Hinv'|]. split; [|split; assumption].
      intros t pos ser label act Hs. apply (Hna t pos ser label act). exact (proj1 (proj1 (re_sub _ _ _ _ _ _ E t pos ser _) Hs)).
    - (* PAssignFrom *) cbn [step1] in H. destruct (lookup (w_props w) p) as [pr|]; [|discriminate H]. destruct (lookup (w_props w) q) as [qr|]; [|discriminate H].
      destruct (pr_updater pr); [discriminate H|].
      destruct (mixed_set_helper_keeps_sound fuel w p (pr_value qr) w' Hinv Hna HS HM H) as (A1 & A2 & A3 & A4 & _). split; [exact A1|]. split; [exact A2|]. split; assumption.
    - (* PBind *) destruct Ho as (Hp & Hmode). destruct (ML_bind_fresh fuel w p e m w' HML HNE Hp Hmode H) as (A1 & A2 & A3).
      split; [exact Hinv'|]. split; [exact A3|]. split; assumption.
    - (* PReset *) destruct (ML_reset fuel w p w' HML H) as (A1 & A2 & A3). split; [exact Hinv'|]. split; [exact A3|]. split; assumption.
    - (* PMoveCtor *) destruct (ML_movector fuel w src dst w' HML HNE H) as (A1 & A2 & A3). split; [exact Hinv'|]. split; [exact A3|]. split; assumption.
    - (* PMoveAssign *) destruct (ML_moveassign fuel w dst src w' HML HNE (PropGrowMore.no_reader_sound w dst Ho) H) as (A1 & A2 & A3).
      split; [exact Hinv'|]. split; [exact A3|]. split; assumption.
    - (* BevNew *) cbn [step1] in H. destruct (lookup (w_bevs w) e); [discriminate H|]. inversion H; subst w'. apply Same; reflexivity.
    - (* BevCopy *) cbn [step1] in H. destruct (lookup (w_bevs w) src); [|discriminate H]. destruct (lookup (w_bevs w) dst); [discriminate H|].
      inversion H; subst w'. apply Same; reflexivity.
    - (* BevDel: the evaluator object goes, what it shares with its copies and its bindings stays *)
      cbn [step1] in H. destruct (lookup (w_bevs w) e); [|discriminate H]. inversion H; subst w'. apply Same; reflexivity.
    - (* BevEvalAll *) destruct Ho as (id & He & Hid). exact (ML_evalall fuel w e id w' HML HR He Hid H).
  Qed.

  Fixpoint run5_ok (fuel : nat) (w : world) (ops : list op) : Prop :=
    match ops with
    | [] => True
    | o :: r => grow_op5 w o /\ snd (step1 fn rtl fuel w o) = None /\ run5_ok fuel (step fn rtl fuel w o) r
    end.

  Lemma ML_log e w : ML w -> ML (log e w).
  Proof.
    intros HML. pose proof HML as (Hinv & Hna & _). destruct (ML_lazy_same w (log e w) HML (fun _ => eq_refl) (fun _ _ => eq_refl)) as (A1 & A2).
    split; [exact (pinv_views _ _ (views_log e w) Hinv)|]. split; [exact (NOACT_views _ _ (views_log e w) Hna)|]. split; assumption.
  Qed.

  Theorem ML_reachable fuel : forall ops w, ML w -> NOEMIT w -> PropReg.REGI w -> run5_ok fuel w ops -> ML (fold_left (step fn rtl fuel) ops w).
  Proof.
    induction ops as [|o r IH]; intros w HML HNE HR Hok; cbn [fold_left]; [exact HML|]. destruct Hok as (Ho & Hs & Hr).
    pose proof (PropReg.step_rmono fn rtl fuel w o) as (RM & _).
    assert (HNE' : NOEMIT (step fn rtl fuel w o)).
    { unfold step. pose proof (step1_tmono fn rtl fuel w o) as M. destruct (step1 fn rtl fuel w o) as [w1 r1]. cbn [fst] in M.
      intros t Ht. apply (NOEMIT_tmono _ _ HNE M t). exact Ht. }
    apply IH; [|exact HNE'|exact (RM HR)|exact Hr].
    unfold step. destruct (step1 fn rtl fuel w o) as [w1 r1] eqn:H1. cbn [snd] in Hs. subst r1. apply ML_log. exact (ML_step fuel w o w1 HML HNE HR Ho H1).
  Qed.

  Lemma ML_world0 : ML world0.
  Proof.
    split; [exact pinv_world0|]. split; [|split].
    - intros t pos ser label act (sl & fr & al & Hv & _). unfold tview, get_table, world0 in Hv. cbn in Hv. destruct t; discriminate Hv.
    - intros b x Hx. unfold get_bind, world0 in Hx. cbn in Hx. destruct b; discriminate Hx.
    - intros b T (x & Hx & _). unfold get_bind, world0 in Hx. cbn in Hx. destruct b; discriminate Hx.
  Qed.
  Lemma NOEMIT_world0 : NOEMIT world0.
  Proof. intros t (tb & Ht & _). unfold get_table, world0 in Ht. cbn in Ht. destruct t; discriminate Ht. Qed.

  (* every world a growing mixed network reaches: link invariant, observers that do not act, every cache of every evaluator-driven
     binding right for the current values *)
  Theorem mixed_reachable_ML fuel ops : run5_ok fuel world0 ops -> ML (run fn rtl fuel ops).
  Proof. intros Hok. exact (ML_reachable fuel ops world0 ML_world0 NOEMIT_world0 (PropReg.REGI_world0) Hok). Qed.

  (* ... so whenever an evaluator-driven binding is evaluated there (by evaluateAll of its evaluator), it assigns exactly the value of
     its expression over the current inputs *)
  Theorem mixed_reachable_evaluation_exact fuel ops b x w' :
    run5_ok fuel world0 ops -> get_bind (run fn rtl fuel ops) b = Some x -> b_evp x <> 0 ->
    binding_evaluate fn rtl (set_helper fn rtl fuel) (run fn rtl fuel ops) b = (w', None) ->
    ML w' /\ exists T t lg, abs_tree (b_root x) = Some T /\
      eval fn rtl (values (run fn rtl fuel ops)) (b_root x) = (t, inl (A.den F1 F2 F3 (envof (run fn rtl fuel ops)) T), lg).
  Proof.
    intros Hok Hb He H. destruct (mixed_reachable_ML fuel ops Hok) as (Hinv & Hna & HS & HM).
    destruct (abs_tree (b_root x)) as [T|] eqn:HT; [|exfalso; exact (HS b x Hb He HT)].
    destruct (mixed_lazy_evaluate fuel _ b x T w' Hinv Hna HS HM Hb He HT H) as (A1 & A2 & A3 & A4 & _ & t & lg & E).
    split; [exact (conj A1 (conj A2 (conj A3 A4)))|]. exists T, t, lg. auto.
  Qed.
End MixedLazy.
