(* C07 - No broken bindings: bound properties reject writes; reset / rebinding are clean. *)
From KDB Require PropReg.
From KDB Require Import Util PropDefs PropProofs PropFlags PropLink PropLinkTheorems.

(* every direct write to a property that has a binding raises ReadOnlyProperty and the world is unchanged *)
Theorem C07_write_rejected :
  forall fn rtl fuel w p v path pr b,
    lookup (w_props w) p = Some pr -> pr_updater pr = Some b ->
    step1 fn rtl fuel w (PSet p v path) = (w, Some PxReadOnly).
Proof. exact bound_rejects_writes. Qed.
Print Assumptions C07_write_rejected.

(* reset: value and observers stay, the updater is gone, nothing else about any property changes *)
Theorem C07_reset :
  forall fn rtl fuel w p pr b w',
    lookup (w_props w) p = Some pr -> pr_updater pr = Some b ->
    step1 fn rtl fuel w (PReset p) = (w', None) ->
    lookup (w_props w') p = Some (prop_set_updater pr None) /\
    (forall q, q <> p -> lookup (w_props w') q = lookup (w_props w) q) /\ w_obs w' = w_obs w.
Proof. exact reset_keeps_value. Qed.
Print Assumptions C07_reset.

(* ... and the property is writable again: the write runs the normal protocol (C03) *)
Theorem C07_writable_after_reset :
  forall fn rtl fuel w p v path pr,
    lookup (w_props w) p = Some pr -> pr_updater pr = None ->
    step1 fn rtl fuel w (PSet p v path) = set_helper fn rtl fuel w p v.
Proof. exact unbound_accepts_writes. Qed.
Print Assumptions C07_writable_after_reset.

(* destroying (resetting / replacing) a binding touches no property and no observer handle *)
Theorem C07_destroy_binding_frame :
  forall w b, w_props (fst (destroy_binding w b)) = w_props w /\ w_obs (fst (destroy_binding w b)) = w_obs w.
Proof. exact destroy_binding_props. Qed.
Print Assumptions C07_destroy_binding_frame.

(* after reset() the former binding is dead and owns no subscription in any signal of any property: no later write to a former
   input can reach it (every invocation of a node slot goes through such a subscription), the property has no updater and the link
   invariant still holds; pinv holds in every legal history (C10_links_hold_in_every_legal_history) *)
Theorem C07_reset_disconnects :
  forall fn rtl fuel w p pr b w',
    pinv w -> lookup (w_props w) p = Some pr -> pr_updater pr = Some b -> step1 fn rtl fuel w (PReset p) = (w', None) ->
    pinv w' /\ get_bind w' b = None /\ (forall t pos ser l, ~ slot_at w' t pos ser (SNode b l)) /\
    (exists pr', lookup (w_props w') p = Some pr' /\ pr_updater pr' = None).
Proof. exact reset_disconnects. Qed.
Print Assumptions C07_reset_disconnects.

(* ... and whoever is subscribed anywhere is a leaf of a binding that is alive (so a replaced binding is never evaluated again) *)
Theorem C07_only_live_bindings_are_subscribed :
  forall w t pos ser b l, pinv w -> slot_at w t pos ser (SNode b l) -> exists x, get_bind w b = Some x.
Proof. exact only_live_subscribed. Qed.
Print Assumptions C07_only_live_bindings_are_subscribed.

(* an updater and its binding refer to each other: a bound property has exactly one live binding, which targets it *)
Theorem C07_updater_target_mutual :
  forall w p pr b, pinv w -> lookup (w_props w) p = Some pr -> pr_updater pr = Some b -> exists x, get_bind w b = Some x /\ b_target x = Some p.
Proof. exact updater_target_mutual. Qed.
Print Assumptions C07_updater_target_mutual.

(* non-vacuity: bind, rejected write, reset, input change has no influence any more, write accepted *)
Example C07_example :
  let fn := fun (f : nat) (l : list Z) => Some (fold_right Z.add 0%Z l) in
  let ops := [PNew 0 1%Z; PNew 1 2%Z; PBind 2 (EOp2 0 (EProp 0) (EProp 1)) MImmediate; PSet 2 9%Z WSet; PReset 2;
              PSet 0 10%Z WSet; PGet 2; PSet 2 9%Z WAssign; PGet 2] in
  map (fun e => match e with EvVal v => v | _ => None end)
      (filter (fun e => match e with EvVal _ => true | EvDone (Some _) => true | _ => false end) (w_trace (run fn true 5 ops)))
  = [Some 9%Z; Some 3%Z; None].
Proof. vm_compute. reflexivity. Qed.

(* the binding a reset() or a replacement disposes of is dead, and dead for ever: no later operation of any history brings it back
   (coq/PropReg.v); with C07_only_live_bindings_are_subscribed no later write or notification can reach it *)
Theorem C07_disposed_binding_dead_for_ever :
  forall fn rtl fuel ops w b x,
    PropDefs.get_bind w b = Some x ->
    PropReg.bkey (fold_left (PropDefs.step fn rtl fuel) ops (fst (PropDefs.destroy_binding w b))) b = None.
Proof.
  intros fn rtl fuel ops w b x Hb. destruct (PropReg.destroy_binding_dead w b x Hb) as [Hk Hlt].
  exact (PropReg.dead_stays_dead fn rtl fuel ops _ b Hlt Hk).
Qed.
Print Assumptions C07_disposed_binding_dead_for_ever.
