(* C19 - No resource growth over repeated cycles and nothing left behind (bookkeeping part).
   Bytes are not modelled: the harness observes them (live tracked callables after every op, teardown counts; on the property layer the
   bytes held by the real library over repeated state-restoring cycles, compared with the model's footprint PropCheck.footprint). *)
From KDB Require Import Util GenIdx GenIdxProofs SigDefs SigInv SigTheorems SigEmit SigDisc.
From KDB Require PropDefs PropLink PropLinkTheorems PropCheck PropFn PropFootprint.

(* a table is exactly as large as its live entries plus its reusable positions *)
Theorem C19_table_size :
  forall (a : garray conn), wf a -> g_size a = length (g_live a) + length (ga_free (g_alloc a)).
Proof. exact (@table_size_is_live_plus_free conn). Qed.
Print Assumptions C19_table_size.

(* it grows only when no freed position is available; erasing never changes its size *)
Theorem C19_insert_grows_only_if_full :
  forall (a : garray conn) v a' k, wf a -> g_insert a v = (a', k) ->
    g_size a' = if ga_free (g_alloc a) then S (g_size a) else g_size a.
Proof. exact (@insert_grows_only_if_full conn). Qed.
Print Assumptions C19_insert_grows_only_if_full.

Theorem C19_erase_keeps_size : forall (a : garray conn) k, wf a -> g_size (g_erase a k) = g_size a.
Proof. exact (@erase_keeps_size conn). Qed.
Print Assumptions C19_erase_keeps_size.

(* ... in every reachable world *)
Theorem C19_tables_wf_reachable :
  forall tbl pf fuel ops i m, get_impl (run tbl pf fuel ops) i = Some m -> wf (i_conns m).
Proof. intros tbl pf fuel ops i m H. exact (proj1 (run_winv tbl pf fuel ops i m H)). Qed.
Print Assumptions C19_tables_wf_reachable.

(* queues are empty after a pass; a destroyed signal's table is empty *)
Theorem C19_queue_empty_after_pass :
  forall pf w e s,
    lookup (w_evs w) e = Some s -> e_alive s = true -> e_evaluating s = false -> length (e_queue s) < pf ->
    exists w', eval_pass pf quietR w e = (w', None) /\
               w_trace w' = rev (map pass_event (e_queue s)) ++ w_trace w /\
               lookup (w_evs w') e = Some {| e_alive := true; e_queue := []; e_evaluating := false |} /\
               w_impls w' = w_impls w.
Proof. exact pass_runs_queue_once. Qed.
Print Assumptions C19_queue_empty_after_pass.

Theorem C19_destroyed_signal_holds_nothing :
  forall w s i m, winv w -> lookup (w_sigs w) s = Some (Some i) -> get_impl w i = Some m -> i_emitting m = false ->
    exists m', get_impl (sig_disconnect_all w s) i = Some m' /\ i_alive m' = false /\
               (forall k, g_get (i_conns m') k = None) /\
               lookup (w_sigs (sig_disconnect_all w s)) s = Some None.
Proof. exact disconnect_all_empties. Qed.
Print Assumptions C19_destroyed_signal_holds_nothing.

(* non-vacuity: 3 connect/disconnect cycles on one signal reuse one position: the table has size 1 throughout *)
Example C19_example :
  let w := run (fun _ => []) 8 4 [OSigNew 0 1; OConnect 0 0 100 1 [] 0; ODiscH 0; OConnect 0 0 101 1 [] 0; ODiscH 0;
                                  OConnect 0 0 102 1 [] 0; ODiscH 0] in
  option_map (fun m => g_size (i_conns m)) (get_impl w 0) = Some 1.
Proof. vm_compute. reflexivity. Qed.

(* ---- property layer ---- *)
(* nothing accumulates: after ANY legal history (creations, bindings in both modes, rebinding, reset, moves, destructions in any order,
   acting observers) every connection the library made on its own behalf - a binding node subscribed to a signal of a property - is owned
   by a leaf of a LIVE binding through a handle that leaf holds; there is no connection that nobody owns *)
Theorem C19_property_layer_no_unowned_connection :
  forall fn rtl fuel ops t pos ser b l,
    PropLinkTheorems.run_ok fn rtl fuel PropDefs.world0 ops ->
    PropLink.slot_at (PropDefs.run fn rtl fuel ops) t pos ser (PropDefs.SNode b l) ->
    exists x lf, PropDefs.get_bind (PropDefs.run fn rtl fuel ops) b = Some x /\ In lf (PropLink.leaves (PropDefs.b_root x)) /\
                 PropLink.lf_id lf = l /\
                 In {| PropDefs.h_table := t; PropDefs.h_pos := pos; PropDefs.h_serial := ser |} (PropLink.lf_handles lf).
Proof. exact PropFootprint.reachable_no_unowned_subscription. Qed.
Print Assumptions C19_property_layer_no_unowned_connection.

(* non-vacuity of the tie: moving the input of a binding away and back and destroying the temporary is a state-restoring cycle of the
   model - its footprint (occupied slots, live tables, live bindings, properties, registry entries, held bindings, evaluators) after
   one repetition is the footprint after four; this is the "heap 0" the correspondence check expects from the real library *)
Example C19_property_cycle_example :
  let ops0 := [PropDefs.PNew 0 1%Z; PropDefs.PNew 1 2%Z;
               PropDefs.PBind 2 (PropDefs.EOp2 0 (PropDefs.EProp 0) (PropDefs.EProp 1)) PropDefs.MImmediate;
               PropDefs.PObserve 0 PropDefs.KChanged 100 0 None] in
  let cyc := [PropDefs.PMoveCtor 0 9; PropDefs.PMoveAssign 0 9; PropDefs.PDel 9] in
  PropLinkTheorems.run_okb PropFn.fn_std true 10 PropDefs.world0 (ops0 ++ cyc ++ cyc ++ cyc ++ cyc) = true /\
  PropCheck.footprint (PropDefs.run PropFn.fn_std true 10 (ops0 ++ cyc)) =
  PropCheck.footprint (PropDefs.run PropFn.fn_std true 10 (ops0 ++ cyc ++ cyc ++ cyc ++ cyc)) /\
  PropCheck.footprint (PropDefs.run PropFn.fn_std true 10 (ops0 ++ cyc)) = [7; 6; 1; 3; 1; 0; 0].
Proof. vm_compute. repeat split; reflexivity. Qed.
