(* Small list / finite-map utilities shared by all models. *)
From Coq Require Export List Arith NArith ZArith Lia Bool.
Export ListNotations.

Fixpoint upd {A} (l : list A) (i : nat) (x : A) : list A :=
  match l, i with
  | [], _ => []
  | _ :: t, O => x :: t
  | h :: t, S j => h :: upd t j x
  end.

Definition pad {A} (l : list (option A)) (n : nat) : list (option A) :=
  l ++ repeat None (n - length l).

(* association lists keyed by nat: the "variables" of a script *)
Definition nmap (X : Type) := list (nat * X).
Fixpoint lookup {X} (m : nmap X) (k : nat) : option X :=
  match m with
  | [] => None
  | (k', x) :: t => if Nat.eqb k k' then Some x else lookup t k
  end.
Fixpoint remove_key {X} (m : nmap X) (k : nat) : nmap X :=
  match m with
  | [] => []
  | (k', x) :: t => if Nat.eqb k k' then remove_key t k else (k', x) :: remove_key t k
  end.
Definition bind_key {X} (m : nmap X) (k : nat) (x : X) : nmap X := (k, x) :: remove_key m k.

Definition opt_eqb {A} (eqb : A -> A -> bool) (a b : option A) : bool :=
  match a, b with
  | Some x, Some y => eqb x y
  | None, None => true
  | _, _ => false
  end.
