(* The registries of the binding evaluators (evaluateAll iterates them) hold live bindings only, in EVERY world any history reaches,
   whatever the outcome of its calls and however its observers act; and a binding that died stays dead.  Hence a binding that was
   reset, replaced or destroyed - all three go through ~Binding = destroy_binding - is never evaluated again: not by evaluateAll
   (it is in no registry) and not by a change notification (it owns no subscription: PropLink, DEAD / SLOTX).
   Same shape as PropFlags.v: a preorder on worlds that every operation respects. *)
From KDB Require Import Util UtilProofs PropDefs PropFlags.

(* evaluator and registration id of a live binding *)
Definition bkey (w : world) (b : nat) : option (nat * nat) :=
  match get_bind w b with Some x => Some (b_evp x, b_regid x) | None => None end.

(* every registry entry refers to a live binding registered under that evaluator and id *)
Definition REGI (w : world) : Prop :=
  forall ep st rid b, nth_error (w_evps w) ep = Some st -> In (rid, b) (ep_registry st) -> bkey w b = Some (ep, rid).

Definition rmono (w w' : world) : Prop :=
  (REGI w -> REGI w') /\
  (forall b, b < length (w_binds w) -> bkey w b = None -> bkey w' b = None) /\
  length (w_binds w) <= length (w_binds w') /\
  (* evaluator and id of a binding never change while it lives *)
  (forall b k, bkey w b = Some k -> bkey w' b = Some k \/ bkey w' b = None).

Lemma bkey_lt0 w b k : bkey w b = Some k -> b < length (w_binds w).
Proof. unfold bkey, get_bind. intros H. apply nth_error_Some. destruct (nth_error (w_binds w) b); [discriminate|discriminate H]. Qed.
Lemma rmono_refl w : rmono w w.
Proof. split; [auto|split; [auto|split; [auto|auto]]]. Qed.
Lemma rmono_trans a b c : rmono a b -> rmono b c -> rmono a c.
Proof.
  intros (A1 & A2 & A3 & A4) (B1 & B2 & B3 & B4). split; [auto|]. split; [|split; [lia|]].
  - intros n Hn Hk. apply B2; [lia|]. apply A2; assumption.
  - intros n k Hk. destruct (A4 n k Hk) as [H|H]; [exact (B4 n k H)|]. right. apply B2; [|exact H]. pose proof (bkey_lt0 _ _ _ Hk). lia.
Qed.

Lemma rmono_keys w w' :
  w_evps w' = w_evps w -> (forall b, bkey w' b = bkey w b) -> length (w_binds w') = length (w_binds w) -> rmono w w'.
Proof.
  intros E K L. split; [|split; [intros b _ Hk; rewrite K; exact Hk|split; [lia|intros b k Hk; left; rewrite K; exact Hk]]].
  intros H ep st rid b Hst Hi. rewrite E in Hst. rewrite K. eauto.
Qed.
Lemma rmono_eb w w' : w_evps w' = w_evps w -> w_binds w' = w_binds w -> rmono w w'.
Proof. intros E B. apply rmono_keys; [exact E| |rewrite B; reflexivity]. intros b. unfold bkey, get_bind. rewrite B. reflexivity. Qed.

(* overwriting a live binding by one with the same evaluator and id *)
Lemma bkey_lt w b k : bkey w b = Some k -> b < length (w_binds w).
Proof. unfold bkey, get_bind. intros H. apply nth_error_Some. destruct (nth_error (w_binds w) b); [discriminate|discriminate H]. Qed.
Lemma bkey_put w b y b' : b < length (w_binds w) -> b_alive y = true ->
  bkey (put_bind w b y) b' = if Nat.eqb b b' then Some (b_evp y, b_regid y) else bkey w b'.
Proof.
  intros Hlt Ha. unfold bkey, get_bind, put_bind; cbn [set_binds w_binds]. destruct (Nat.eqb_spec b b') as [<-|Hne].
  - rewrite nth_upd_same by exact Hlt. rewrite Ha. reflexivity.
  - rewrite nth_upd_other by exact Hne. reflexivity.
Qed.
Lemma rmono_put w b y : bkey w b = Some (b_evp y, b_regid y) -> b_alive y = true -> rmono w (put_bind w b y).
Proof.
  intros Hk Ha. pose proof (bkey_lt _ _ _ Hk) as Hlt.
  apply rmono_keys; [reflexivity| |unfold put_bind; cbn [set_binds w_binds]; apply upd_length].
  intros b'. rewrite (bkey_put w b y b' Hlt Ha). destruct (Nat.eqb_spec b b') as [<-|]; [symmetry; exact Hk|reflexivity].
Qed.
Lemma get_bind_key w b x : get_bind w b = Some x -> bkey w b = Some (b_evp x, b_regid x) /\ b_alive x = true.
Proof.
  intros H. split; [unfold bkey; rewrite H; reflexivity|]. unfold get_bind in H. destruct (nth_error (w_binds w) b) as [z|]; [|discriminate H].
  destruct (b_alive z) eqn:A; [inversion H; subst; exact A|discriminate H].
Qed.

Lemma log_fns_evps l : forall w, w_evps (log_fns l w) = w_evps w /\ w_binds (log_fns l w) = w_binds w.
Proof. induction l as [|x r IH]; intros w; cbn [log_fns]; [auto|]. destruct (IH (log (EvFn x) w)) as [A B]. rewrite A, B. auto. Qed.
Lemma rmono_log_fns l w : rmono w (log_fns l w).
Proof. destruct (log_fns_evps l w) as [A B]. apply rmono_eb; assumption. Qed.

Lemma subscribe_rmono w p k s w1 h : subscribe w p k s = Some (w1, h) -> rmono w w1.
Proof.
  unfold subscribe. destruct (lookup (w_props w) p) as [pr|]; [|discriminate]. destruct (sig_of pr k) as [t|].
  - destruct (get_table w t) as [tb|]; [|discriminate]. destruct (t_free tb) as [|i f]; intros H; inversion H; subst; apply rmono_eb; reflexivity.
  - match goal with |- match get_table ?W _ with _ => _ end = _ -> _ => destruct (get_table W (length (w_tables w))) as [tb|] end; [|discriminate].
    destruct (t_free tb) as [|i f]; intros H; inversion H; subst; apply rmono_eb; reflexivity.
Qed.
Lemma unsubscribe_rmono w h : rmono w (fst (unsubscribe w h)).
Proof.
  unfold unsubscribe. destruct (get_table w (h_table h)) as [tb|]; [|apply rmono_refl]. destruct (negb (t_alive tb)); [apply rmono_refl|].
  destruct (nth_error (t_slots tb) (h_pos h)) as [[[ser s]|]|]; try apply rmono_refl.
  destruct (Nat.eqb ser (h_serial h)); [|apply rmono_refl]. destruct (t_emitting tb); [apply rmono_refl|]. apply rmono_eb; reflexivity.
Qed.
Lemma unsubscribe_all_rmono hs : forall w, rmono w (fst (unsubscribe_all w hs)).
Proof.
  induction hs as [|h r IH]; intros w; cbn [unsubscribe_all]; [apply rmono_refl|].
  pose proof (unsubscribe_rmono w h) as M. destruct (unsubscribe w h) as [w1 [e|]]; cbn [fst] in *; [exact M|]. eapply rmono_trans; [exact M|apply IH].
Qed.
Lemma kill_table_rmono w ot : rmono w (fst (kill_table w ot)).
Proof.
  unfold kill_table. destruct ot as [t|]; [|apply rmono_refl]. destruct (get_table w t) as [tb|]; [|apply rmono_refl].
  destruct (t_emitting tb); [apply rmono_refl|]. apply rmono_eb; reflexivity.
Qed.

(* ~Binding: the registry entry goes, the binding dies - no entry is left that refers to it *)
Lemma destroy_binding_rmono w b : rmono w (fst (destroy_binding w b)).
Proof.
  unfold destroy_binding. destruct (get_bind w b) as [x|] eqn:Hb; [|apply rmono_refl].
  eapply rmono_trans; [|apply unsubscribe_all_rmono].
  assert (Hlt : b < length (w_binds w)) by (unfold get_bind in Hb; apply nth_error_Some; destruct (nth_error (w_binds w) b); congruence).
  set (dead := {| b_root := b_root x; b_evp := b_evp x; b_regid := b_regid x; b_target := None; b_alive := false |}).
  set (w1 := match nth_error (w_evps w) (b_evp x) with
             | Some ep => set_evps w (upd (w_evps w) (b_evp x) {| ep_registry := filter (fun q => negb (Nat.eqb (fst q) (b_regid x))) (ep_registry ep); ep_next := ep_next ep |})
             | None => w end).
  assert (B1 : w_binds w1 = w_binds w) by (unfold w1; destruct (nth_error (w_evps w) (b_evp x)); reflexivity).
  assert (K : forall b', bkey (put_bind w1 b dead) b' = if Nat.eqb b b' then None else bkey w b').
  { intros b'. unfold bkey, get_bind, put_bind; cbn [set_binds w_binds]. rewrite B1. destruct (Nat.eqb_spec b b') as [<-|Hne].
    - rewrite nth_upd_same by exact Hlt. reflexivity.
    - rewrite nth_upd_other by exact Hne. reflexivity. }
  split; [|split; [|split]].
  - intros H ep st rid b' Hst Hi. rewrite K. change (w_evps (put_bind w1 b dead)) with (w_evps w1) in Hst.
    (* the entry was there before *)
    assert (Hold : exists st0, nth_error (w_evps w) ep = Some st0 /\ In (rid, b') (ep_registry st0) /\ (ep = b_evp x -> rid <> b_regid x)).
    { unfold w1 in Hst. destruct (nth_error (w_evps w) (b_evp x)) as [ep0|] eqn:He0; [|exists st; split; [exact Hst|split; [exact Hi|intros ->; congruence]]].
      cbn [set_evps w_evps] in Hst. destruct (Nat.eq_dec (b_evp x) ep) as [<-|Hne].
      - rewrite nth_upd_same in Hst by (apply nth_error_Some; congruence). inversion Hst; subst st. cbn [ep_registry] in Hi.
        apply filter_In in Hi. destruct Hi as [Hi Hf]. exists ep0. split; [exact He0|]. split; [exact Hi|]. intros _ E. cbn [fst] in Hf. rewrite E, Nat.eqb_refl in Hf. discriminate Hf.
      - rewrite nth_upd_other in Hst by exact Hne. exists st. split; [exact Hst|]. split; [exact Hi|]. intros E. congruence. }
    destruct Hold as (st0 & Hst0 & Hi0 & Hne0). pose proof (H ep st0 rid b' Hst0 Hi0) as Hk.
    destruct (Nat.eqb_spec b b') as [<-|Hne]; [|exact Hk]. exfalso. unfold bkey in Hk. rewrite Hb in Hk. inversion Hk; subst. exact (Hne0 eq_refl eq_refl).
  - intros b' _ Hk. rewrite K. destruct (Nat.eqb b b'); [reflexivity|exact Hk].
  - unfold put_bind; cbn [set_binds w_binds]. rewrite upd_length, B1. lia.
  - intros b' k Hk. rewrite K. destruct (Nat.eqb b b'); [right; reflexivity|left; exact Hk].
Qed.
Section Reg.
  Variable fn : nat -> list Z -> option Z.
  Variable rtl : bool.

  Lemma build_rmono b : forall e w next w1 nd n1, build fn rtl w b next e = inl (Some (w1, nd, n1)) -> rmono w w1.
  Proof.
    induction e as [v|p|f a IHa|f a IHa c IHc|f a IHa c IHc d IHd]; intros w next w' nd n' H; cbn [build] in H.
    - inversion H; subst. apply rmono_refl.
    - destruct (subscribe w p KChanged (SNode b next)) as [[w1 hc]|] eqn:S1; [|discriminate H].
      destruct (subscribe w1 p KMoved (SNode b next)) as [[w2 hm]|] eqn:S2; [|discriminate H].
      destruct (subscribe w2 p KDestroyed (SNode b next)) as [[w3 hd]|] eqn:S3; [|discriminate H].
      inversion H; subst. eapply rmono_trans; [eapply subscribe_rmono; eauto|]. eapply rmono_trans; eapply subscribe_rmono; eauto.
    - destruct (build fn rtl w b next a) as [[[[w1 na] n1]|]|ex] eqn:Ha; try discriminate H.
      destruct (eval fn rtl (values w1) (NOp1 f true 0%Z na)) as [[t r] l]. destruct r; [|discriminate H]. inversion H; subst.
      eapply rmono_trans; [eapply IHa; eauto|]. apply rmono_log_fns.
    - destruct (build fn rtl w b next a) as [[[[w1 na] n1]|]|ex] eqn:Ha; try discriminate H.
      destruct (build fn rtl w1 b n1 c) as [[[[w2 nc] n2]|]|ex] eqn:Hc; try discriminate H.
      destruct (eval fn rtl (values w2) (NOp2 f true 0%Z na nc)) as [[t r] l]. destruct r; [|discriminate H]. inversion H; subst.
      eapply rmono_trans; [eapply IHa; eauto|]. eapply rmono_trans; [eapply IHc; eauto|]. apply rmono_log_fns.
    - destruct (build fn rtl w b next a) as [[[[w1 na] n1]|]|ex] eqn:Ha; try discriminate H.
      destruct (build fn rtl w1 b n1 c) as [[[[w2 nc] n2]|]|ex] eqn:Hc; try discriminate H.
      destruct (build fn rtl w2 b n2 d) as [[[[w3 ndd] n3]|]|ex] eqn:Hd; try discriminate H.
      destruct (eval fn rtl (values w3) (NOp3 f true 0%Z na nc ndd)) as [[t r] l]. destruct r; [|discriminate H]. inversion H; subst.
      eapply rmono_trans; [eapply IHa; eauto|]. eapply rmono_trans; [eapply IHc; eauto|]. eapply rmono_trans; [eapply IHd; eauto|].
      apply rmono_log_fns.
  Qed.

  Lemma build_binds b : forall e w next w1 nd n1, build fn rtl w b next e = inl (Some (w1, nd, n1)) -> w_evps w1 = w_evps w /\ w_binds w1 = w_binds w.
  Proof.
    assert (Sb : forall w p k s w1 h, subscribe w p k s = Some (w1, h) -> w_evps w1 = w_evps w /\ w_binds w1 = w_binds w).
    { intros w p k s w1 h. unfold subscribe. destruct (lookup (w_props w) p) as [pr|]; [|discriminate]. destruct (sig_of pr k) as [t|].
      - destruct (get_table w t) as [tb|]; [|discriminate]. destruct (t_free tb) as [|i f]; intros H; inversion H; subst; auto.
      - match goal with |- match get_table ?W _ with _ => _ end = _ -> _ => destruct (get_table W (length (w_tables w))) as [tb|] end; [|discriminate].
        destruct (t_free tb) as [|i f]; intros H; inversion H; subst; auto. }
    induction e as [v|p|f a IHa|f a IHa c IHc|f a IHa c IHc d IHd]; intros w next w' nd n' H; cbn [build] in H.
    - inversion H; subst. auto.
    - destruct (subscribe w p KChanged (SNode b next)) as [[w1 hc]|] eqn:S1; [|discriminate H].
      destruct (subscribe w1 p KMoved (SNode b next)) as [[w2 hm]|] eqn:S2; [|discriminate H].
      destruct (subscribe w2 p KDestroyed (SNode b next)) as [[w3 hd]|] eqn:S3; [|discriminate H].
      inversion H; subst. destruct (Sb _ _ _ _ _ _ S1) as [A1 B1], (Sb _ _ _ _ _ _ S2) as [A2 B2], (Sb _ _ _ _ _ _ S3) as [A3 B3]. split; congruence.
    - destruct (build fn rtl w b next a) as [[[[w1 na] n1]|]|ex] eqn:Ha; try discriminate H.
      destruct (eval fn rtl (values w1) (NOp1 f true 0%Z na)) as [[t r] l]. destruct r; [|discriminate H]. inversion H; subst.
      destruct (IHa _ _ _ _ _ Ha) as [A1 B1]. destruct (log_fns_evps l w1) as [A2 B2]. split; congruence.
    - destruct (build fn rtl w b next a) as [[[[w1 na] n1]|]|ex] eqn:Ha; try discriminate H.
      destruct (build fn rtl w1 b n1 c) as [[[[w2 nc] n2]|]|ex] eqn:Hc; try discriminate H.
      destruct (eval fn rtl (values w2) (NOp2 f true 0%Z na nc)) as [[t r] l]. destruct r; [|discriminate H]. inversion H; subst.
      destruct (IHa _ _ _ _ _ Ha) as [A1 B1]. destruct (IHc _ _ _ _ _ Hc) as [A2 B2]. destruct (log_fns_evps l w2) as [A3 B3]. split; congruence.
    - destruct (build fn rtl w b next a) as [[[[w1 na] n1]|]|ex] eqn:Ha; try discriminate H.
      destruct (build fn rtl w1 b n1 c) as [[[[w2 nc] n2]|]|ex] eqn:Hc; try discriminate H.
      destruct (build fn rtl w2 b n2 d) as [[[[w3 ndd] n3]|]|ex] eqn:Hd; try discriminate H.
      destruct (eval fn rtl (values w3) (NOp3 f true 0%Z na nc ndd)) as [[t r] l]. destruct r; [|discriminate H]. inversion H; subst.
      destruct (IHa _ _ _ _ _ Ha) as [A1 B1]. destruct (IHc _ _ _ _ _ Hc) as [A2 B2]. destruct (IHd _ _ _ _ _ Hd) as [A3 B3]. destruct (log_fns_evps l w3) as [A4 B4]. split; congruence.
  Qed.

  (* a new binding: one more registry entry, for the new (live) binding *)
  Lemma make_binding_rmono w e m w' b : make_binding fn rtl w e m = inl (w', b) -> rmono w w'.
  Proof.
    unfold make_binding. destruct (match m with MImmediate => Some 0 | MEvaluator ev => lookup (w_bevs w) ev end) as [ep|]; [|discriminate].
    destruct (nth_error (w_evps w) ep) as [st|] eqn:Hst; [|discriminate].
    destruct (build fn rtl w (length (w_binds w)) 0 e) as [[[[w1 root] n1]|]|ex] eqn:Hb; try discriminate.
    intros H; inversion H; subst w' b; clear H. destruct (build_binds _ _ _ _ _ _ _ Hb) as [E1 B1].
    set (nb := {| b_root := root; b_evp := ep; b_regid := S (ep_next st); b_target := None; b_alive := true |}).
    assert (K : forall b', bkey (set_binds (set_evps w1 (upd (w_evps w1) ep {| ep_registry := ep_registry st ++ [(S (ep_next st), length (w_binds w))]; ep_next := S (ep_next st) |})) (w_binds w1 ++ [nb])) b' =
                           if Nat.eqb b' (length (w_binds w)) then Some (ep, S (ep_next st)) else bkey w b').
    { intros b'. unfold bkey, get_bind; cbn [set_binds set_evps w_binds]. rewrite B1. destruct (Nat.eqb_spec b' (length (w_binds w))) as [->|Hne].
      - rewrite nth_error_app2 by lia. rewrite Nat.sub_diag. reflexivity.
      - destruct (Nat.lt_ge_cases b' (length (w_binds w))) as [Hlt|Hge]; [rewrite nth_error_app1 by exact Hlt; reflexivity|].
        rewrite nth_error_app2 by exact Hge. destruct (b' - length (w_binds w)) as [|n] eqn:En; [lia|]. cbn. destruct n; cbn.
        + replace (nth_error (w_binds w) b') with (@None binding) by (symmetry; apply nth_error_None; lia). reflexivity.
        + replace (nth_error (w_binds w) b') with (@None binding) by (symmetry; apply nth_error_None; lia). reflexivity. }
    split; [|split; [|split]].
    - intros HR ep' st' rid b' Hst' Hi. rewrite K. cbn [set_binds set_evps w_evps] in Hst'. rewrite E1 in Hst'.
      destruct (Nat.eq_dec ep ep') as [<-|Hne].
      + rewrite nth_upd_same in Hst' by (apply nth_error_Some; congruence). inversion Hst'; subst st'. cbn [ep_registry] in Hi.
        apply in_app_iff in Hi. destruct Hi as [Hi|[Hi|[]]].
        * pose proof (HR _ _ _ _ Hst Hi) as Hk. destruct (Nat.eqb_spec b' (length (w_binds w))) as [->|]; [|exact Hk]. exfalso.
          unfold bkey, get_bind in Hk. replace (nth_error (w_binds w) (length (w_binds w))) with (@None binding) in Hk by (symmetry; apply nth_error_None; lia). discriminate Hk.
        * inversion Hi; subst. rewrite Nat.eqb_refl. reflexivity.
      + rewrite nth_upd_other in Hst' by exact Hne. pose proof (HR _ _ _ _ Hst' Hi) as Hk.
        destruct (Nat.eqb_spec b' (length (w_binds w))) as [->|]; [|exact Hk]. exfalso.
        unfold bkey, get_bind in Hk. replace (nth_error (w_binds w) (length (w_binds w))) with (@None binding) in Hk by (symmetry; apply nth_error_None; lia). discriminate Hk.
    - intros b' Hlt Hk. rewrite K. destruct (Nat.eqb_spec b' (length (w_binds w))); [lia|exact Hk].
    - cbn [set_binds w_binds]. rewrite app_length, B1. lia.
    - intros b' k Hk. left. rewrite K. destruct (Nat.eqb_spec b' (length (w_binds w))) as [->|]; [|exact Hk]. pose proof (bkey_lt0 _ _ _ Hk). lia.
  Qed.

  Definition goodG (R : world -> nat -> Z -> res) : Prop := forall w q v, rmono w (fst (R w q v)).

  Section Body.
    Variable R : world -> nat -> Z -> res.
    Hypothesis HR : goodG R.

    Lemma binding_evaluate_rmono w b : rmono w (fst (binding_evaluate fn rtl R w b)).
    Proof.
      unfold binding_evaluate. destruct (get_bind w b) as [x|] eqn:Hb; [|apply rmono_refl].
      destruct (eval fn rtl (values w) (b_root x)) as [[t r] l].
      assert (M : rmono w (log_fns l (put_bind w b (bind_with_root x t)))) by (destruct (get_bind_key _ _ _ Hb) as [Hk Ha]; eapply rmono_trans; [apply (rmono_put w b (bind_with_root x t)); [exact Hk|exact Ha]|apply rmono_log_fns]).
      destruct r as [v|ex]; [|exact M]. destruct (b_target x) as [p|]; [|exact M]. eapply rmono_trans; [exact M|apply HR].
    Qed.

    Lemma deliver_rmono w p k payload s : rmono w (fst (deliver fn rtl R w p k payload s)).
    Proof.
      destruct s as [label act|b leaf]; cbn [deliver].
      - set (w1 := log _ w). assert (M : rmono w w1) by (apply rmono_eb; reflexivity).
        destruct act as [[[|] q]|].
        + destruct (lookup (w_props w1) q) as [pr|]; [|exact M]. destruct (pr_updater pr) as [b|]; [|exact M].
          pose proof (destroy_binding_rmono w1 b) as M2. destruct (destroy_binding w1 b) as [w2 [e|]]; cbn [fst] in *.
          * exact (rmono_trans _ _ _ M M2).
          * destruct (lookup (w_props w2) q); cbn [fst]; (eapply rmono_trans; [exact M|]); (eapply rmono_trans; [exact M2|]); apply rmono_eb; reflexivity.
        + destruct payload as [|v pl]; [exact M|]. destruct (lookup (w_props w1) q) as [pr|]; [|exact M].
          destruct (pr_updater pr); [exact M|]. eapply rmono_trans; [exact M|apply HR].
        + destruct payload; exact M.
      - destruct (get_bind w b) as [x|] eqn:Hb; [|apply rmono_refl]. destruct (get_bind_key _ _ _ Hb) as [Hk Ha]. destruct k.
        + apply rmono_refl.
        + destruct (mark (b_root x) leaf) as [[t up]|]; [|apply rmono_refl].
          assert (M : rmono w (put_bind w b (bind_with_root x t))) by (apply rmono_put; [exact Hk|exact Ha]).
          destruct up; [|exact M]. destruct (Nat.eqb (b_evp x) 0); [|exact M]. eapply rmono_trans; [exact M|apply binding_evaluate_rmono].
        + apply rmono_put; [exact Hk|exact Ha].
        + destruct payload as [|a [|? ?]]; try apply rmono_refl. apply rmono_put; [exact Hk|exact Ha].
    Qed.

    Lemma walk_rmono t p k payload : forall idxs w, rmono w (fst (walk fn rtl R w t p k payload idxs)).
    Proof.
      induction idxs as [|x r IH]; intros w; cbn [walk]; [apply rmono_refl|].
      destruct (get_table w t) as [tb|]; [|apply rmono_refl].
      destruct (nth_error (t_slots tb) x) as [[[ser s]|]|]; try apply IH.
      pose proof (deliver_rmono w p k payload s) as M. destruct (deliver fn rtl R w p k payload s) as [w1 [e|]]; cbn [fst] in *; [exact M|].
      eapply rmono_trans; [exact M|apply IH].
    Qed.

    Lemma emit_rmono w ot p k payload : rmono w (fst (emit fn rtl R w ot p k payload)).
    Proof.
      unfold emit. destruct ot as [t|]; [|apply rmono_refl]. destruct (get_table w t) as [tb|]; [|apply rmono_refl].
      destruct (t_emitting tb); [apply rmono_refl|].
      match goal with |- context [walk fn rtl R ?W1 t p k payload ?I] => pose proof (walk_rmono t p k payload I W1) as M2; destruct (walk fn rtl R W1 t p k payload I) as [w2 e2];
        assert (M1 : rmono w W1) by (apply rmono_eb; reflexivity) end.
      cbn [fst] in M2. destruct (get_table w2 t) as [tb2|]; cbn [fst].
      - eapply rmono_trans; [exact M1|]. eapply rmono_trans; [exact M2|]. apply rmono_eb; reflexivity.
      - exact (rmono_trans _ _ _ M1 M2).
    Qed.
  End Body.

  Lemma set_helper_rmono : forall fuel, goodG (set_helper fn rtl fuel).
  Proof.
    induction fuel as [|f IH]; intros w q v; cbn [set_helper]; [apply rmono_refl|].
    destruct (lookup (w_props w) q) as [pr|]; [|apply rmono_refl].
    destruct (Z.eqb v (pr_value pr)); [apply rmono_refl|].
    pose proof (emit_rmono _ IH w (pr_about pr) q KAbout [pr_value pr; v]) as M1.
    destruct (emit fn rtl (set_helper fn rtl f) w (pr_about pr) q KAbout [pr_value pr; v]) as [w1 [e|]]; cbn [fst] in *; [exact M1|].
    destruct (lookup (w_props w1) q) as [pr1|]; [|exact M1].
    eapply rmono_trans; [exact M1|]. eapply rmono_trans; [|apply (emit_rmono _ IH)]. apply rmono_eb; reflexivity.
  Qed.

  Lemma assign_binding_rmono fuel w p b : rmono w (fst (assign_binding fn rtl fuel w p b)).
  Proof.
    unfold assign_binding. destruct (lookup (w_props w) p) as [pr|]; [|apply rmono_refl].
    match goal with |- context [let (_, _) := ?X in _] =>
      assert (M1 : rmono w (fst X)) by (destruct (pr_updater pr); [apply destroy_binding_rmono|apply rmono_refl]);
      revert M1; destruct X as [w1 [e|]]; intros M1; cbn [fst] in * end; [exact M1|].
    destruct (lookup (w_props w1) p) as [pr1|]; [|exact M1]. destruct (get_bind w1 b) as [x|] eqn:Hb; [|exact M1].
    destruct (get_bind_key _ _ _ Hb) as [Hk Ha].
    set (w2 := set_props w1 (bind_key (w_props w1) p (prop_set_updater pr1 (Some b)))).
    set (x1 := bind_with_target x (Some p)).
    set (w3 := put_bind w2 b x1).
    assert (M3 : rmono w1 w3).
    { eapply rmono_trans; [apply (rmono_eb w1 w2); reflexivity|]. apply rmono_put; [exact Hk|exact Ha]. }
    assert (Hlt : b < length (w_binds w2)) by exact (bkey_lt _ _ _ Hk).
    destruct (eval fn rtl (values w3) (b_root x)) as [[t r0] l].
    assert (M4 : rmono w1 (log_fns l (put_bind w3 b (bind_with_root x1 t)))).
    { eapply rmono_trans; [exact M3|]. eapply rmono_trans; [|apply rmono_log_fns]. apply rmono_put; [|exact Ha].
      unfold w3. rewrite (bkey_put w2 b x1 b Hlt Ha), Nat.eqb_refl. reflexivity. }
    eapply rmono_trans; [exact M1|]. destruct r0 as [v|ex]; [|exact M4]. eapply rmono_trans; [exact M4|apply set_helper_rmono].
  Qed.

  Ltac step_res M := match goal with |- rmono _ (fst (let '(_, _) := ?x in _)) => destruct x as [? [?|]] | |- rmono _ (fst (match ?x with (_, _) => _ end)) => destruct x as [? [?|]] end.

  Lemma destroy_prop_rmono fuel w p : rmono w (fst (destroy_prop fn rtl fuel w p)).
  Proof.
    unfold destroy_prop. destruct (lookup (w_props w) p) as [pr|]; [|apply rmono_refl].
    pose proof (emit_rmono _ (set_helper_rmono fuel) w (pr_destroyed pr) p KDestroyed []) as M1.
    destruct (emit fn rtl (set_helper fn rtl fuel) w (pr_destroyed pr) p KDestroyed []) as [w1 [e|]]; cbn [fst] in *; [exact M1|].
    match goal with |- context [let (_, _) := ?X in _] =>
      assert (M2 : rmono w1 (fst X)) by (destruct (pr_updater pr); [apply destroy_binding_rmono|apply rmono_refl]);
      revert M2; destruct X as [w2 [e|]]; intros M2; cbn [fst] in * end; [exact (rmono_trans _ _ _ M1 M2)|].
    pose proof (kill_table_rmono w2 (pr_destroyed pr)) as M3. destruct (kill_table w2 (pr_destroyed pr)) as [w3 [e|]]; cbn [fst] in *;
      [exact (rmono_trans _ _ _ M1 (rmono_trans _ _ _ M2 M3))|].
    pose proof (kill_table_rmono w3 (pr_moved pr)) as M4. destruct (kill_table w3 (pr_moved pr)) as [w4 [e|]]; cbn [fst] in *;
      [exact (rmono_trans _ _ _ M1 (rmono_trans _ _ _ M2 (rmono_trans _ _ _ M3 M4)))|].
    pose proof (kill_table_rmono w4 (pr_changed pr)) as M5. destruct (kill_table w4 (pr_changed pr)) as [w5 [e|]]; cbn [fst] in *;
      [exact (rmono_trans _ _ _ M1 (rmono_trans _ _ _ M2 (rmono_trans _ _ _ M3 (rmono_trans _ _ _ M4 M5))))|].
    pose proof (kill_table_rmono w5 (pr_about pr)) as M6. destruct (kill_table w5 (pr_about pr)) as [w6 [e|]]; cbn [fst] in *;
      [exact (rmono_trans _ _ _ M1 (rmono_trans _ _ _ M2 (rmono_trans _ _ _ M3 (rmono_trans _ _ _ M4 (rmono_trans _ _ _ M5 M6)))))|].
    eapply rmono_trans; [exact (rmono_trans _ _ _ M1 (rmono_trans _ _ _ M2 (rmono_trans _ _ _ M3 (rmono_trans _ _ _ M4 (rmono_trans _ _ _ M5 M6)))))|].
    apply rmono_eb; reflexivity.
  Qed.

  Lemma finish_move_rmono fuel w dst src om : rmono w (fst (finish_move fn rtl fuel w dst src om)).
  Proof.
    unfold finish_move. destruct (lookup (w_props w) dst) as [d|]; [|apply rmono_refl]. destruct (lookup (w_props w) src) as [s|]; [|apply rmono_refl].
    set (w1 := match pr_updater d with Some b => match get_bind w b with Some x => put_bind w b (bind_with_target x (Some dst)) | None => w end | None => w end).
    assert (M1 : rmono w w1).
    { unfold w1. destruct (pr_updater d) as [b|]; [|apply rmono_refl]. destruct (get_bind w b) as [x|] eqn:Hb; [|apply rmono_refl].
      destruct (get_bind_key _ _ _ Hb) as [Hk Ha]. apply rmono_put; [exact Hk|exact Ha]. }
    pose proof (emit_rmono _ (set_helper_rmono fuel) w1 om dst KMoved [Z.of_nat dst]) as M2.
    destruct (emit fn rtl (set_helper fn rtl fuel) w1 om dst KMoved [Z.of_nat dst]) as [w2 [e|]]; cbn [fst] in *; [exact (rmono_trans _ _ _ M1 M2)|].
    pose proof (emit_rmono _ (set_helper_rmono fuel) w2 (pr_moved s) dst KMoved [Z.of_nat dst]) as M3.
    destruct (emit fn rtl (set_helper fn rtl fuel) w2 (pr_moved s) dst KMoved [Z.of_nat dst]) as [w3 [e|]]; cbn [fst] in *;
      [exact (rmono_trans _ _ _ M1 (rmono_trans _ _ _ M2 M3))|].
    pose proof (kill_table_rmono w3 om) as M4. destruct (kill_table w3 om) as [w4 [e|]]; cbn [fst] in *;
      [exact (rmono_trans _ _ _ M1 (rmono_trans _ _ _ M2 (rmono_trans _ _ _ M3 M4)))|].
    assert (M : rmono w w4) by exact (rmono_trans _ _ _ M1 (rmono_trans _ _ _ M2 (rmono_trans _ _ _ M3 M4))).
    destruct (lookup (w_props w4) dst); [|exact M]. destruct (lookup (w_props w4) src); [|exact M].
    eapply rmono_trans; [exact M|]. apply rmono_eb; reflexivity.
  Qed.

  Lemma step1_rmono fuel w o : rmono w (fst (step1 fn rtl fuel w o)).
  Proof.
    destruct o; cbn [step1].
    - destruct (lookup (w_props w) p); [apply rmono_refl|apply rmono_eb; reflexivity].
    - apply destroy_prop_rmono.
    - destruct (lookup (w_props w) p) as [pr|]; [|apply rmono_refl]. destruct (pr_updater pr); [apply rmono_refl|apply set_helper_rmono].
    - destruct (lookup (w_props w) p); [apply rmono_eb; reflexivity|apply rmono_refl].
    - destruct (lookup (w_props w) p); [apply rmono_eb; reflexivity|apply rmono_refl].
    - destruct (match k, act with KMoved, _ => true | KDestroyed, Some _ => true | _, _ => false end); [apply rmono_refl|].
      destruct (subscribe w p k (SObs label act)) as [[w1 hd]|] eqn:Hs; [|apply rmono_refl].
      eapply rmono_trans; [eapply subscribe_rmono; eauto|]. apply rmono_eb; reflexivity.
    - destruct (lookup (w_obs w) h); [apply unsubscribe_rmono|apply rmono_refl].
    - destruct (lookup (w_props w) p) as [pr|]; [|apply rmono_refl]. destruct (lookup (w_props w) q); [|apply rmono_refl].
      destruct (pr_updater pr); [apply rmono_refl|apply set_helper_rmono].
    - destruct (make_binding fn rtl w e m) as [[w1 b]|x] eqn:Hm; [|apply rmono_refl].
      pose proof (make_binding_rmono _ _ _ _ _ Hm) as M. destruct (lookup (w_props w1) p).
      + eapply rmono_trans; [exact M|apply assign_binding_rmono].
      + eapply rmono_trans; [exact M|]. eapply rmono_trans; [|apply assign_binding_rmono]. apply rmono_eb; reflexivity.
    - destruct (lookup (w_props w) p) as [pr|]; [|apply rmono_refl]. destruct (pr_updater pr) as [b|]; [|apply rmono_refl].
      pose proof (destroy_binding_rmono w b) as M. destruct (destroy_binding w b) as [w1 [e|]]; cbn [fst] in *; [exact M|].
      destruct (lookup (w_props w1) p); [|exact M]. eapply rmono_trans; [exact M|]. apply rmono_eb; reflexivity.
    - destruct (lookup (w_props w) src) as [s|]; [|apply rmono_refl]. destruct (lookup (w_props w) dst); [apply rmono_refl|].
      eapply rmono_trans; [|apply finish_move_rmono]. apply rmono_eb; reflexivity.
    - destruct (lookup (w_props w) src) as [s|]; [|apply rmono_refl]. destruct (lookup (w_props w) dst) as [d|]; [|apply rmono_refl].
      destruct (Nat.eqb src dst); [apply rmono_refl|].
      pose proof (kill_table_rmono w (pr_about d)) as M1. destruct (kill_table w (pr_about d)) as [w1 [e|]]; cbn [fst] in *; [exact M1|].
      pose proof (kill_table_rmono w1 (pr_changed d)) as M2. destruct (kill_table w1 (pr_changed d)) as [w2 [e|]]; cbn [fst] in *; [exact (rmono_trans _ _ _ M1 M2)|].
      pose proof (kill_table_rmono w2 (pr_destroyed d)) as M3. destruct (kill_table w2 (pr_destroyed d)) as [w3 [e|]]; cbn [fst] in *;
        [exact (rmono_trans _ _ _ M1 (rmono_trans _ _ _ M2 M3))|].
      match goal with |- context [let (_, _) := ?X in _] =>
        assert (M4 : rmono w3 (fst X)) by (destruct (pr_updater d); [apply destroy_binding_rmono|apply rmono_refl]);
        revert M4; destruct X as [w4 [e|]]; intros M4; cbn [fst] in * end;
        [exact (rmono_trans _ _ _ M1 (rmono_trans _ _ _ M2 (rmono_trans _ _ _ M3 M4)))|].
      eapply rmono_trans; [exact (rmono_trans _ _ _ M1 (rmono_trans _ _ _ M2 (rmono_trans _ _ _ M3 M4)))|].
      eapply rmono_trans; [|apply finish_move_rmono]. apply rmono_eb; reflexivity.
    - destruct (lookup (w_bevs w) e); [apply rmono_refl|]. cbn [fst ok]. split; [|split; [intros b _ Hk; exact Hk|split; [cbn; lia|intros b k Hk; left; exact Hk]]].
      intros HR ep st rid b Hst Hi. change (bkey w b = Some (ep, rid)). cbn [set_bevs set_evps w_evps] in Hst.
      destruct (Nat.lt_ge_cases ep (length (w_evps w))) as [Hlt|Hge]; [rewrite nth_error_app1 in Hst by exact Hlt; eauto|].
      rewrite nth_error_app2 in Hst by exact Hge. destruct (ep - length (w_evps w)) as [|n]; cbn in Hst; [inversion Hst; subst st; destruct Hi|destruct n; discriminate Hst].
    - destruct (lookup (w_bevs w) src), (lookup (w_bevs w) dst); try apply rmono_refl. apply rmono_eb; reflexivity.
    - destruct (lookup (w_bevs w) e); [apply rmono_eb; reflexivity|apply rmono_refl].
    - destruct (lookup (w_bevs w) e) as [id|]; [|apply rmono_refl]. destruct (nth_error (w_evps w) id) as [st|]; [|apply rmono_refl].
      generalize (ep_registry st). intros l. revert w. induction l as [|[rid b] r IH]; intros w; [apply rmono_refl|].
      destruct (match nth_error (w_evps w) id with Some st' => existsb (fun q => Nat.eqb (fst q) rid) (ep_registry st') | None => false end); [|apply IH].
      pose proof (binding_evaluate_rmono _ (set_helper_rmono fuel) w b) as M.
      destruct (binding_evaluate fn rtl (set_helper fn rtl fuel) w b) as [w1 [x|]]; cbn [fst] in *; [exact M|].
      eapply rmono_trans; [exact M|apply IH].
    - destruct (lookup (w_held w) b); [apply rmono_refl|]. destruct (make_binding fn rtl w e m) as [[w1 id]|x] eqn:Hm; [|apply rmono_refl].
      eapply rmono_trans; [eapply make_binding_rmono; eauto|]. apply rmono_eb; reflexivity.
    - destruct (lookup (w_held w) b) as [id|]; [|apply rmono_refl].
      pose proof (destroy_binding_rmono w id) as M. destruct (destroy_binding w id) as [w1 [e|]]; cbn [fst] in *; [|exact M].
      eapply rmono_trans; [exact M|]. apply rmono_eb; reflexivity.
  Qed.

  Lemma step_rmono fuel w o : rmono w (step fn rtl fuel w o).
  Proof.
    unfold step. pose proof (step1_rmono fuel w o) as M. destruct (step1 fn rtl fuel w o) as [w' r]. cbn [fst] in M.
    eapply rmono_trans; [exact M|]. apply rmono_eb; reflexivity.
  Qed.

  Lemma run_rmono fuel : forall ops w, rmono w (fold_left (step fn rtl fuel) ops w).
  Proof. induction ops as [|o r IH]; intros w; cbn [fold_left]; [apply rmono_refl|]. eapply rmono_trans; [apply step_rmono|apply IH]. Qed.

  Lemma REGI_world0 : REGI world0.
  Proof. intros ep st rid b Hst Hi. cbn in Hst. destruct ep as [|[|ep]]; cbn in Hst; [inversion Hst; subst st; destruct Hi|discriminate Hst|discriminate Hst]. Qed.

  (* in every world any history reaches - whatever its calls answered, however its observers act - every registry entry of every
     evaluator (the immediate one included) refers to a live binding registered under that evaluator and that id *)
  Theorem reachable_REGI fuel ops : REGI (run fn rtl fuel ops).
  Proof. exact (proj1 (run_rmono fuel ops world0) REGI_world0). Qed.

  (* a binding that is dead stays dead, through every later history *)
  Theorem dead_stays_dead fuel ops w b : b < length (w_binds w) -> bkey w b = None -> bkey (fold_left (step fn rtl fuel) ops w) b = None.
  Proof. intros Hlt Hk. exact (proj1 (proj2 (run_rmono fuel ops w)) b Hlt Hk). Qed.

  (* ... and while it lives, a binding keeps its evaluator and its registration id *)
  Theorem key_is_stable fuel ops w b k : bkey w b = Some k -> bkey (fold_left (step fn rtl fuel) ops w) b = Some k \/ bkey (fold_left (step fn rtl fuel) ops w) b = None.
  Proof. intros Hk. exact (proj2 (proj2 (proj2 (run_rmono fuel ops w))) b k Hk). Qed.
End Reg.

(* ~Binding kills: afterwards the binding is dead (and, with REGI, in no registry) *)
Lemma destroy_binding_dead w b x : get_bind w b = Some x -> bkey (fst (destroy_binding w b)) b = None /\ b < length (w_binds (fst (destroy_binding w b))).
Proof.
  intros Hb. unfold destroy_binding. rewrite Hb.
  assert (Hlt : b < length (w_binds w)) by (unfold get_bind in Hb; apply nth_error_Some; destruct (nth_error (w_binds w) b); congruence).
  match goal with |- context [unsubscribe_all ?W ?HS] => pose proof (unsubscribe_all_rmono HS W) as (_ & M2 & M3 & _); set (W2 := W) in * end.
  assert (L2 : length (w_binds W2) = length (w_binds w)).
  { unfold W2, put_bind; cbn [set_binds w_binds]. rewrite upd_length. destruct (nth_error (w_evps w) (b_evp x)); reflexivity. }
  assert (K2 : bkey W2 b = None).
  { unfold W2, bkey, get_bind, put_bind; cbn [set_binds w_binds]. rewrite nth_upd_same by (destruct (nth_error (w_evps w) (b_evp x)); exact Hlt). reflexivity. }
  split; [apply M2; [rewrite L2; exact Hlt|exact K2]|lia].
Qed.

(* ... so no registry entry refers to a dead binding *)
Lemma dead_not_registered w b : REGI w -> bkey w b = None -> forall ep st rid, nth_error (w_evps w) ep = Some st -> ~ In (rid, b) (ep_registry st).
Proof. intros H Hk ep st rid Hst Hi. rewrite (H ep st rid b Hst Hi) in Hk. discriminate Hk. Qed.
