(* C19 on the property layer: nothing accumulates.  In every world reached by a legal history every connection the LIBRARY made on its
   own behalf (a node of a binding subscribed to a signal of a property) is owned by a leaf of a LIVE binding, through a handle that
   leaf holds - so the number of such connections is bounded by what the live bindings own, however long the history was.  (The
   executable footprint that the correspondence check compares with the bytes held by the real library is PropCheck.footprint.) *)
From KDB Require Import Util PropDefs PropLink PropLinkTheorems PropCheck.

Lemma reachable_no_unowned_subscription fn rtl fuel ops t pos ser b l :
  run_ok fn rtl fuel world0 ops -> slot_at (run fn rtl fuel ops) t pos ser (SNode b l) ->
  exists x lf, get_bind (run fn rtl fuel ops) b = Some x /\ In lf (leaves (b_root x)) /\ lf_id lf = l /\
               In {| h_table := t; h_pos := pos; h_serial := ser |} (lf_handles lf).
Proof. intros Hok Hs. exact (no_orphan_subscription _ t pos ser b l (reachable_pinv fn rtl fuel ops Hok) Hs). Qed.
