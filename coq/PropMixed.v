(* Worlds in which immediate and evaluator-driven bindings live together: coherence of the immediate part (PropSim.COH) is kept by
   evaluateAll - every value an evaluator-driven binding writes into its property is, for the immediate bindings that read that
   property, an assignment to an input. *)
From KDB Require Import Util UtilProofs PropDefs PropFlags PropLink PropLinkBasics PropLinkOps PropLinkMove PropLinkTheorems PropSim PropGrow PropGrowMore PropMove.
From KDB Require PropAbs PropAbsProofs PropProofs PropCheck PropReg PropSimLazy.
Module A := PropAbs.
Module AP := PropAbsProofs.

Section Mixed.
  Variable fn : nat -> list Z -> option Z.
  Variable rtl : bool.
  Notation F1 := (PropSim.F1 fn).
  Notation F2 := (PropSim.F2 fn).
  Notation F3 := (PropSim.F3 fn).
  Notation COH := (PropSim.COH fn).

  Lemma get_bind_log_fns lg : forall w0 b, get_bind (log_fns lg w0) b = get_bind w0 b.
  Proof. induction lg as [|g r IH]; intros w0 b; cbn [log_fns]; [reflexivity|]. rewrite IH. reflexivity. Qed.

  (* an assignment to any property that is not immediately bound (unbound, or bound through an evaluator) *)
  Theorem assignment_coherent_gen f w p v w' :
    SC w -> COH w -> imm_of w p = None -> set_helper fn rtl f w p v = (w', None) -> SC w' /\ COH w' /\ FR w w'.
  Proof.
    intros HSC (s & HRel & HInv) Hp H.
    destruct (sim_set fn rtl (ORD w) f w p v w' s HSC (fun _ => eq_refl) HRel H) as (SC' & FR' & Rel').
    split; [exact SC'|]. split; [|exact FR'].
    exists (A.set F1 F2 F3 (ORD w) f s p v). split; [exact Rel'|].
    apply (Inv_order_ext fn (ORD w)); [intros p0; apply FR_ORD; exact FR'|].
    destruct HRel as (R1 & R2 & R3). apply PropAbsProofs.set_consistent; auto.
    - rewrite R2, Hp. reflexivity.
    - destruct Rel' as (_ & _ & Q3). exact Q3.
  Qed.

  (* re-evaluating the tree of an evaluator-driven binding is invisible to the immediate part *)
  Lemma lazy_root_keeps w b x t lg :
    SC w -> COH w -> get_bind w b = Some x -> b_evp x <> 0 -> leaves t = leaves (b_root x) ->
    SC (log_fns lg (put_bind w b (bind_with_root x t))) /\ COH (log_fns lg (put_bind w b (bind_with_root x t))) /\
    FR w (log_fns lg (put_bind w b (bind_with_root x t))).
  Proof.
    intros (Hinv & Hna & Hsi) (s & HRel & HInv) Hb Hev Hl.
    assert (Hi : imm w b = None) by (unfold imm; rewrite Hb; destruct (Nat.eqb_spec (b_evp x) 0); [contradiction|reflexivity]).
    set (w1 := put_bind w b (bind_with_root x t)).
    assert (F01 : FR w w1) by (apply put_root_FR; assumption).
    assert (F : FR w (log_fns lg w1)) by (eapply FR_trans; [exact F01|apply FR_log_fns]).
    destruct (SC_FR _ _ F Hinv Hna) as [Hinv' Hna'].
    assert (Rel1 : Rel w1 s) by (apply put_root_Rel_other; assumption).
    assert (Rel' : Rel (log_fns lg w1) s) by (apply Rel_log_fns; exact Rel1).
    split; [|split; [|exact F]].
    - split; [exact Hinv'|]. split; [exact Hna'|]. apply SIMPLE_log_fns.
      intros q x' Hx'. destruct HRel as (_ & R2 & _). destruct Rel1 as (_ & Q2 & _). pose proof (Q2 q) as E. rewrite R2, Hx' in E.
      destruct (imm_of w q) as [x0|] eqn:E0; [|].
      + pose proof (Hsi _ _ E0) as Hn. rewrite E in Hn. exact Hn.
      + (* q was not immediately bound in w: it is not in w1 either *)
        exfalso. unfold imm_of in Hx', E0. change (w_props w1) with (w_props w) in Hx'.
        destruct (lookup (w_props w) q) as [pr|]; [|discriminate Hx']. destruct (pr_updater pr) as [b'|]; [|discriminate Hx'].
        unfold w1 in Hx'. rewrite (get_bind_put_root _ _ _ _ _ Hb) in Hx'. destruct (Nat.eqb_spec b b') as [Ebb|Hne].
        * cbn [bind_with_root b_evp] in Hx'. destruct (Nat.eqb_spec (b_evp x) 0); [contradiction|discriminate Hx'].
        * rewrite Hx' in E0. discriminate E0.
    - exists s. split; [exact Rel'|]. apply (Inv_order_ext fn (ORD w)); [intros p0; apply FR_ORD; exact F|exact HInv].
  Qed.

  (* Binding::evaluate of an evaluator-driven binding *)
  Lemma lazy_binding_evaluate_keeps fuel w b x w' :
    SC w -> COH w -> get_bind w b = Some x -> b_evp x <> 0 ->
    binding_evaluate fn rtl (set_helper fn rtl fuel) w b = (w', None) -> SC w' /\ COH w'.
  Proof.
    intros HSC HC Hb Hev H. unfold binding_evaluate in H. rewrite Hb in H.
    destruct (eval fn rtl (values w) (b_root x)) as [[t r] lg] eqn:Hevl.
    pose proof (leaves_eval fn rtl (values w) (b_root x)) as Hl. rewrite Hevl in Hl. cbn [fst] in Hl.
    destruct (lazy_root_keeps w b x t lg HSC HC Hb Hev Hl) as (SC1 & COH1 & F1').
    set (w1 := log_fns lg (put_bind w b (bind_with_root x t))) in *.
    destruct r as [v|ex]; [|discriminate H]. destruct (b_target x) as [p|] eqn:Htg; [|inversion H; subst; auto].
    (* its property is bound, but not immediately *)
    assert (Hip : imm_of w1 p = None).
    { pose proof HSC as (Hinv & _). assert (Bv : bview w b = Some (leaves (b_root x), Some p)) by (unfold bview; rewrite Hb, Htg; reflexivity).
      destruct (pi_tgt _ _ _ _ _ _ _ Hinv _ _ _ Bv) as (vq & Evq & Euq).
      assert (E0 : imm_of w p = None).
      { unfold imm_of. unfold pview in Evq. destruct (lookup (w_props w) p) as [pr|]; [|reflexivity]. inversion Evq; subst vq. cbn in Euq. rewrite Euq, Hb.
        destruct (Nat.eqb_spec (b_evp x) 0); [contradiction|reflexivity]. }
      destruct COH1 as (s1 & (_ & Q2 & _) & _). destruct HC as (s0 & (_ & R2 & _) & _).
      (* imm_of is the same in w1: through the frame *)
      unfold imm_of in *. unfold w1. rewrite PropProofs.log_fns_props. change (w_props (put_bind w b (bind_with_root x t))) with (w_props w).
      destruct (lookup (w_props w) p) as [pr|]; [|reflexivity]. destruct (pr_updater pr) as [b'|]; [|reflexivity].
      rewrite get_bind_log_fns, (get_bind_put_root _ _ _ _ _ Hb). destruct (Nat.eqb_spec b b') as [<-|Hne]; [cbn [bind_with_root b_evp]; destruct (Nat.eqb_spec (b_evp x) 0); [contradiction|reflexivity]|exact E0]. }
    destruct (assignment_coherent_gen fuel w1 p v w' SC1 COH1 Hip H) as (A1 & A2 & _). auto.
  Qed.

  (* evaluateAll of an explicit evaluator (index id <> 0): every entry it visits refers to a binding of this evaluator - the registry
     holds such bindings only (PropReg.REGI) and a binding keeps its evaluator while it lives (PropReg.rmono) *)
  Lemma evalall_loop_keeps fuel id : id <> 0 -> forall l w w',
    SC w -> COH w -> (forall rid b, In (rid, b) l -> PropReg.bkey w b = Some (id, rid) \/ PropReg.bkey w b = None) ->
    PropSimLazy.evalall_loop fn rtl fuel id l w = (w', None) -> SC w' /\ COH w'.
  Proof.
    intros Hid. induction l as [|[rid b] r IH]; intros w w' HSC HC HK H; cbn [PropSimLazy.evalall_loop] in H.
    - inversion H; subst. auto.
    - destruct (match nth_error (w_evps w) id with Some st' => existsb (fun q => Nat.eqb (fst q) rid) (ep_registry st') | None => false end).
      + destruct (binding_evaluate fn rtl (set_helper fn rtl fuel) w b) as [w1 [ex|]] eqn:Hb; [discriminate H|].
        assert (Hx : exists x, get_bind w b = Some x /\ b_evp x <> 0).
        { destruct (get_bind w b) as [x|] eqn:Hgb; [|unfold binding_evaluate in Hb; rewrite Hgb in Hb; discriminate Hb].
          exists x. split; [reflexivity|]. destruct (HK rid b (or_introl eq_refl)) as [Hk|Hk]; unfold PropReg.bkey in Hk; rewrite Hgb in Hk; [|discriminate Hk].
          inversion Hk; subst. exact Hid. }
        destruct Hx as (x & Hgb & Hev).
        destruct (lazy_binding_evaluate_keeps fuel w b x w1 HSC HC Hgb Hev Hb) as [SC1 COH1].
        pose proof (PropReg.binding_evaluate_rmono fn rtl _ (PropReg.set_helper_rmono fn rtl fuel) w b) as (_ & R2 & _ & R4). rewrite Hb in R2, R4. cbn [fst] in R2, R4.
        apply (IH w1 w' SC1 COH1); [|exact H]. intros rid' b' Hi. destruct (HK rid' b' (or_intror Hi)) as [Hk|Hk].
        * exact (R4 b' _ Hk).
        * right. destruct (Nat.lt_ge_cases b' (length (w_binds w))) as [Hlt|Hge]; [exact (R2 b' Hlt Hk)|].
          (* an index beyond the bindings of w: nothing evaluated here creates a binding *)
          destruct (PropReg.bkey w1 b') as [k|] eqn:Ek; [|reflexivity]. exfalso.
          destruct (lazy_root_keeps w b x (b_root x) [] HSC HC Hgb Hev eq_refl) as (_ & _ & _).
          assert (Hlen : length (w_binds w1) = length (w_binds w)).
          { unfold binding_evaluate in Hb. rewrite Hgb in Hb. destruct (eval fn rtl (values w) (b_root x)) as [[t r0] lg] eqn:Hevl.
            pose proof (leaves_eval fn rtl (values w) (b_root x)) as Hl. rewrite Hevl in Hl. cbn [fst] in Hl.
            destruct (lazy_root_keeps w b x t lg HSC HC Hgb Hev Hl) as (SCa & COHa & Fa).
            destruct r0 as [v|ex0]; [|discriminate Hb]. destruct (b_target x) as [p|] eqn:Htg.
            - assert (Hip : imm_of (log_fns lg (put_bind w b (bind_with_root x t))) p = None).
              { destruct (imm_of (log_fns lg (put_bind w b (bind_with_root x t))) p) as [xi|] eqn:Ei; [|reflexivity]. exfalso.
                pose proof HSC as (Hinv & _). assert (Bv : bview w b = Some (leaves (b_root x), Some p)) by (unfold bview; rewrite Hgb, Htg; reflexivity).
                destruct (pi_tgt _ _ _ _ _ _ _ Hinv _ _ _ Bv) as (vq & Evq & Euq).
                unfold imm_of in Ei. rewrite PropProofs.log_fns_props in Ei. change (w_props (put_bind w b (bind_with_root x t))) with (w_props w) in Ei.
                unfold pview in Evq. destruct (lookup (w_props w) p) as [pr|]; [|discriminate Ei]. inversion Evq; subst vq. cbn in Euq. rewrite Euq in Ei.
                rewrite get_bind_log_fns, (get_bind_put_root _ _ _ _ _ Hgb), Nat.eqb_refl in Ei. cbn [bind_with_root b_evp] in Ei.
                destruct (Nat.eqb_spec (b_evp x) 0); [contradiction|discriminate Ei]. }
              destruct (assignment_coherent_gen fuel _ p v w1 SCa COHa Hip Hb) as (_ & _ & Fb).
              destruct Fa as (_ & _ & _ & _ & _ & _ & _ & La). destruct Fb as (_ & _ & _ & _ & _ & _ & _ & Lb). congruence.
            - inversion Hb; subst w1. destruct Fa as (_ & _ & _ & _ & _ & _ & _ & La). exact La. }
          pose proof (PropReg.bkey_lt0 _ _ _ Ek). lia.
      + apply (IH w w' HSC HC); [|exact H]. intros rid' b' Hi. exact (HK rid' b' (or_intror Hi)).
  Qed.

  (* evaluateAll as a top-level call *)
  Lemma grow_evalall fuel w e w' :
    SC w -> COH w -> PropReg.REGI w -> step1 fn rtl fuel w (BevEvalAll e) = (w', None) ->
    match lookup (w_bevs w) e with Some id => id <> 0 | None => True end -> SC w' /\ COH w'.
  Proof.
    intros HSC HC HR H Hid. cbn [step1] in H. destruct (lookup (w_bevs w) e) as [id|]; [|discriminate H].
    destruct (nth_error (w_evps w) id) as [st|] eqn:Hst; [|discriminate H].
    change (PropSimLazy.evalall_loop fn rtl fuel id (ep_registry st) w = (w', None)) in H.
    apply (evalall_loop_keeps fuel id Hid (ep_registry st) w w' HSC HC); [|exact H].
    intros rid b Hi. left. exact (HR id st rid b Hst Hi).
  Qed.

  (* p = makeBoundProperty(evaluator, expression) for a fresh p, in a world that also has immediate bindings *)
  Lemma grow_bind_lazy_mixed fuel w p e e0 id w' :
    SC w -> COH w -> NOEMIT w -> lookup (w_props w) p = None -> lookup (w_bevs w) e0 = Some id -> id <> 0 ->
    step1 fn rtl fuel w (PBind p e (MEvaluator e0)) = (w', None) -> SC w' /\ COH w'.
  Proof.
    intros HSC HC HNE Hp He0 Hid H. pose proof HSC as (Hinv & Hna & Hsi). cbn [step1] in H.
    destruct (make_binding fn rtl w e (MEvaluator e0)) as [[w1 b]|x] eqn:Hm; [|discriminate H].
    destruct (make_binding_grow_m fn rtl _ _ _ _ _ Hinv Hm) as (G & Eb & xb & Hxb & Hevp & Htg & _).
    destruct (make_binding_pinv _ _ _ _ _ _ _ Hinv Hm) as (Hinv1 & _ & Hheld).
    rewrite He0 in Hevp. assert (Hev : b_evp xb <> 0) by (inversion Hevp; subst; exact Hid).
    assert (Vp : values w1 p = None) by (destruct G as (_ & _ & G3 & _); rewrite G3; unfold values; rewrite Hp; reflexivity).
    assert (Hp1 : lookup (w_props w1) p = None) by (unfold values in Vp; destruct (lookup (w_props w1) p); [discriminate Vp|reflexivity]).
    rewrite Hp1 in H.
    pose proof (GR_SC _ _ G Hinv1 HSC) as SC1. pose proof (GR_COH fn _ _ G HC) as COH1.
    destruct (grow_new fn w1 p 0%Z SC1 COH1 Hp1) as (SCn & COHn).
    set (wn := set_props w1 (bind_key (w_props w1) p (prop_new 0%Z))) in *.
    pose proof SCn as (Hinvn & Hnan & Hsin).
    (* Property::operator=(updater) *)
    unfold assign_binding in H.
    assert (Hpn : lookup (w_props wn) p = Some (prop_new 0%Z)) by (unfold wn; cbn [set_props w_props]; apply lookup_bind_same).
    rewrite Hpn in H. cbn [prop_new pr_updater ok] in H. rewrite Hpn in H.
    assert (Hbn : get_bind wn b = Some xb) by exact Hxb. rewrite Hbn in H.
    set (w5 := set_props wn (bind_key (w_props wn) p (prop_set_updater (prop_new 0%Z) (Some b)))) in *.
    set (xb3 := bind_with_target xb (Some p)) in *.
    set (w6 := put_bind w5 b xb3) in *.
    destruct (get_bind_lt _ _ _ Hbn) as [Hlt Hal0].
    assert (Bvb : bview wn b = Some (leaves (b_root xb), None)) by (unfold bview; rewrite Hbn, Htg; reflexivity).
    assert (HNT : NOTARGET p wn).
    { intros b' ls E. destruct (pi_tgt _ _ _ _ _ _ _ Hinvn _ _ _ E) as (vv & Ev & Eu). unfold pview in Ev. rewrite Hpn in Ev. assert (vv = psigs_of (prop_new 0%Z)) by congruence. subst vv. discriminate Eu. }
    assert (Hinv6 : pinv w6).
    { apply (install_updater wn p (prop_new 0%Z) b xb (leaves (b_root xb))); auto.
      eapply pinvg_mono; [| | | | | |exact Hinvn]; cbv beta; try (intros z Hz; exact Hz); try (intros z Hz; exact (False_ind _ Hz)). }
    destruct (eval fn rtl (values w6) (b_root xb)) as [[t r] lg] eqn:Hevl. destruct r as [v|ex]; [|discriminate H].
    pose proof (leaves_eval fn rtl (values w6) (b_root xb)) as Hl. rewrite Hevl in Hl. cbn [fst] in Hl.
    assert (Hb6 : get_bind w6 b = Some xb3).
    { unfold get_bind, w6, put_bind; cbn [set_binds w_binds]. change (w_binds w5) with (w_binds wn). rewrite nth_upd_same by exact Hlt. cbn [xb3 bind_with_target b_alive]. rewrite Hal0. reflexivity. }
    set (w7 := log_fns lg (put_bind w6 b (bind_with_root xb3 t))) in *.
    assert (V67 : views_eq w6 w7) by (eapply views_eq_trans; [apply (views_put_root w6 b xb3 t Hb6); exact Hl|apply views_log_fns]).
    assert (Hinv7 : pinv w7) by (eapply pinv_views; eauto).
    assert (G7 : forall b', get_bind w7 b' = if Nat.eqb b b' then Some (bind_with_root xb3 t) else get_bind wn b').
    { intros b'. unfold w7. rewrite get_bind_log_fns, (get_bind_put_root _ _ _ _ _ Hb6). destruct (Nat.eqb_spec b b') as [Ebb|Hne]; [reflexivity|].
      unfold get_bind, w6, put_bind; cbn [set_binds w_binds]. change (w_binds w5) with (w_binds wn). rewrite nth_upd_other by exact Hne. reflexivity. }
    assert (L7 : forall q, lookup (w_props w7) q = if Nat.eqb q p then Some (prop_set_updater (prop_new 0%Z) (Some b)) else lookup (w_props wn) q).
    { intros q. unfold w7. rewrite PropProofs.log_fns_props. change (w_props (put_bind w6 b (bind_with_root xb3 t))) with (w_props w5). unfold w5; cbn [set_props w_props]. apply lookup_bind. }
    assert (T7 : forall t0, tview w7 t0 = tview wn t0) by (intros t0; destruct V67 as (_ & T67 & _); rewrite T67; reflexivity).
    (* for the immediate part nothing happened: GR wn w7 *)
    assert (IMM7 : forall b', imm w7 b' = imm wn b').
    { intros b'. unfold imm. rewrite G7. destruct (Nat.eqb_spec b b') as [Ebb|Hne]; [subst b'|reflexivity]. rewrite Hbn. cbn [bind_with_root xb3 bind_with_target b_evp].
      destruct (Nat.eqb_spec (b_evp xb) 0); [contradiction|reflexivity]. }
    assert (IO7 : forall q, imm_of w7 q = imm_of wn q).
    { intros q. unfold imm_of. rewrite L7. destruct (Nat.eqb_spec q p) as [->|Hne].
      - rewrite Hpn. cbn [prop_set_updater pr_updater prop_new]. rewrite G7, Nat.eqb_refl. cbn [bind_with_root xb3 bind_with_target b_evp].
        destruct (Nat.eqb_spec (b_evp xb) 0); [contradiction|reflexivity].
      - destruct (lookup (w_props wn) q) as [pr'|] eqn:Hq; [|reflexivity]. destruct (pr_updater pr') as [b'|] eqn:Hu'; [|reflexivity]. rewrite G7.
        destruct (Nat.eqb_spec b b') as [Ebb|]; [|reflexivity]. subst b'. exfalso.
        assert (Pv' : pview wn q = Some (psigs_of pr')) by (unfold pview; rewrite Hq; reflexivity).
        destruct (pi_upd _ _ _ _ _ _ _ Hinvn _ _ _ Pv' Hu' (fun z => z)) as (ls & Ebv). congruence. }
    assert (G77 : GR wn w7).
    { split; [exact IO7|]. split; [exact IMM7|]. split; [|split].
      - intros q. unfold values. rewrite L7. destruct (Nat.eqb_spec q p) as [->|]; [rewrite Hpn; reflexivity|reflexivity].
      - intros p0 [q l] Hi. apply in_ORD in Hi. destruct Hi as (t0 & pos & ser & b' & (vv & Ev & Es) & Hs & Hi). apply in_ORD.
        exists t0, pos, ser, b'. split; [|split].
        + unfold owns, pview. rewrite L7. destruct (Nat.eqb_spec p0 p) as [->|].
          * unfold pview in Ev. rewrite Hpn in Ev. inversion Ev; subst vv. discriminate Es.
          * exact (ex_intro _ vv (conj Ev Es)).
        + unfold slot_at. rewrite T7. exact Hs.
        + rewrite IMM7. exact Hi.
      - split; [intros t0 pos ser label act Hs; unfold slot_at in *; rewrite T7 in Hs; exact Hs|].
        split.
        + intros q k t0 (vv & Ev & Es). unfold owns, pview. rewrite L7. destruct (Nat.eqb_spec q p) as [->|]; [|exact (ex_intro _ vv (conj Ev Es))].
          unfold pview in Ev. rewrite Hpn in Ev. inversion Ev; subst vv. destruct k; discriminate Es.
        + intros q vv t0 Ev Et. unfold pview in *. rewrite L7. destruct (Nat.eqb_spec q p) as [->|]; [|exists vv; auto].
          rewrite Hpn in Ev. inversion Ev; subst vv. discriminate Et. }
    pose proof (GR_SC _ _ G77 Hinv7 SCn) as SC7. pose proof (GR_COH fn _ _ G77 COHn) as COH7.
    assert (Hip : imm_of w7 p = None).
    { rewrite IO7. unfold imm_of. rewrite Hpn. reflexivity. }
    change (b_root xb) with (b_root xb) in H.
    destruct (assignment_coherent_gen fuel w7 p v w' SC7 COH7 Hip H) as (A1 & A2 & _). auto.
  Qed.

  (* operations on evaluator objects themselves do not touch properties, bindings or subscriptions *)
  Lemma GR_same w w' : w_props w' = w_props w -> w_binds w' = w_binds w -> w_tables w' = w_tables w -> GR w w'.
  Proof.
    intros P B T.
    assert (Gb : forall b, get_bind w' b = get_bind w b) by (intros b; unfold get_bind; rewrite B; reflexivity).
    assert (Tv : forall t, tview w' t = tview w t) by (intros t; unfold tview, get_table; rewrite T; reflexivity).
    assert (Pv : forall q, pview w' q = pview w q) by (intros q; unfold pview; rewrite P; reflexivity).
    split; [intros q; unfold imm_of; rewrite P; destruct (lookup (w_props w) q) as [pr|]; [|reflexivity]; destruct (pr_updater pr); [rewrite Gb|]; reflexivity|].
    split; [intros b; unfold imm; rewrite Gb; reflexivity|]. split; [intros q; unfold values; rewrite P; reflexivity|]. split.
    - intros p0 [q l] Hi. apply in_ORD in Hi. destruct Hi as (t0 & pos & ser & b' & Ho & Hs & Hi). apply in_ORD. exists t0, pos, ser, b'.
      split; [unfold owns; rewrite Pv; exact Ho|]. split; [unfold slot_at; rewrite Tv; exact Hs|unfold imm; rewrite Gb; exact Hi].
    - split; [intros t0 pos ser label act Hs; unfold slot_at in *; rewrite Tv in Hs; exact Hs|].
      split; [intros q k t0 Ho; unfold owns; rewrite Pv; exact Ho|intros q vv t0 Ev Et; exists vv; rewrite Pv; auto].
  Qed.

  (* ---- histories of mixed worlds: PropMove.grow_op3, evaluator objects, fresh properties bound through an evaluator, evaluateAll ---- *)
  Definition grow_op4 (w : world) (o : op) : Prop :=
    match o with
    | BevNew _ | BevCopy _ _ => True
    | PBind p _ (MEvaluator e0) => lookup (w_props w) p = None /\ match lookup (w_bevs w) e0 with Some id => Nat.eqb id 0 = false | None => False end
    | BevEvalAll e0 => match lookup (w_bevs w) e0 with Some id => Nat.eqb id 0 = false | None => False end
    | _ => PropMove.grow_op3 w o
    end.

  Theorem grow4_step fuel w o w' :
    SC w -> COH w -> NOEMIT w -> PropReg.REGI w -> grow_op4 w o -> step1 fn rtl fuel w o = (w', None) ->
    SC w' /\ COH w' /\ NOEMIT w' /\ PropReg.REGI w'.
  Proof.
    intros HSC HC HNE HR Ho H.
    assert (HNE' : NOEMIT w') by (pose proof (step1_tmono fn rtl fuel w o) as M; rewrite H in M; cbn [fst] in M; eapply NOEMIT_tmono; eauto).
    assert (HR' : PropReg.REGI w') by (pose proof (PropReg.step1_rmono fn rtl fuel w o) as (M & _); rewrite H in M; cbn [fst] in M; auto).
    assert (Hinv' : pinv w') by (eapply (step1_pinv fn rtl fuel w o w' None (proj1 HSC) HNE H); exact I).
    enough (SC w' /\ COH w') by tauto.
    destruct o; cbn [grow_op4] in Ho;
      try (destruct (PropMove.grow3_step fn rtl fuel w _ w' HSC HC HNE Ho H) as (A1 & A2 & _); split; [exact A1|exact A2]).
    - (* PBind *) destruct m as [|e0].
      + destruct (PropMove.grow3_step fn rtl fuel w _ w' HSC HC HNE Ho H) as (A1 & A2 & _). auto.
      + destruct Ho as [Hp He]. destruct (lookup (w_bevs w) e0) as [id|] eqn:He0; [|destruct He]. apply Nat.eqb_neq in He.
        exact (grow_bind_lazy_mixed fuel w p e e0 id w' HSC HC HNE Hp He0 He H).
    - (* BevNew *) cbn [step1] in H. destruct (lookup (w_bevs w) e); [discriminate H|]. inversion H; subst w'.
      assert (G : GR w (set_bevs (set_evps w (w_evps w ++ [{| ep_registry := []; ep_next := 0 |}])) (bind_key (w_bevs w) e (length (w_evps w))))) by (apply GR_same; reflexivity).
      split; [exact (GR_SC _ _ G Hinv' HSC)|exact (GR_COH fn _ _ G HC)].
    - (* BevCopy *) cbn [step1] in H. destruct (lookup (w_bevs w) src), (lookup (w_bevs w) dst); try discriminate H. inversion H; subst w'.
      match goal with |- SC ?W /\ _ => assert (G : GR w W) by (apply GR_same; reflexivity) end.
      split; [exact (GR_SC _ _ G Hinv' HSC)|exact (GR_COH fn _ _ G HC)].
    - (* BevEvalAll *) destruct (lookup (w_bevs w) e) as [id|] eqn:He0; [|destruct Ho]. apply Nat.eqb_neq in Ho.
      apply (grow_evalall fuel w e w' HSC HC HR H). rewrite He0. exact Ho.
  Qed.

  Fixpoint grow4_run_ok (fuel : nat) (w : world) (ops : list op) : Prop :=
    match ops with
    | [] => True
    | o :: r => grow_op4 w o /\ snd (step1 fn rtl fuel w o) = None /\ grow4_run_ok fuel (step fn rtl fuel w o) r
    end.

  Theorem grow4_coherent fuel : forall ops w, SC w -> COH w -> NOEMIT w -> PropReg.REGI w -> grow4_run_ok fuel w ops ->
    SC (fold_left (step fn rtl fuel) ops w) /\ COH (fold_left (step fn rtl fuel) ops w).
  Proof.
    induction ops as [|o r IH]; intros w HSC HC HNE HR Hok; cbn [fold_left]; [auto|]. destruct Hok as (Ho & Hn & Hr).
    pose proof (step_noemit fn rtl fuel w o HNE) as HNE1.
    pose proof (proj1 (PropReg.step_rmono fn rtl fuel w o) HR) as HR1.
    unfold step in *. destruct (step1 fn rtl fuel w o) as [w1 e] eqn:E. cbn [snd] in Hn. subst e.
    destruct (grow4_step fuel w o w1 HSC HC HNE HR Ho E) as (SC1 & COH1 & _ & _).
    apply IH; [apply SC_log; exact SC1|exact COH1|exact HNE1|exact HR1|exact Hr].
  Qed.

  (* C02 in mixed worlds: every immediately bound property equals its expression over the current values - among them the values of
     properties bound through evaluators, as they stand (stale until their evaluator is asked) *)
  Theorem grow4_reachable_consistent fuel ops q x pr z :
    grow4_run_ok fuel world0 ops ->
    let w := run fn rtl fuel ops in
    imm_of w q = Some x -> lookup (w_props w) q = Some pr ->
    PropCheck.den_node fn (values w) (b_root x) = Some z -> pr_value pr = z.
  Proof.
    intros Hok w Hi Hq Hd.
    destruct (grow4_coherent fuel ops world0 SC_world0 (COH_world0 fn) (PropMove.NOEMIT_world0) (PropReg.REGI_world0) Hok) as [HSC HC].
    eapply (coherent_bound_equals_expression fn); eauto.
  Qed.
End Mixed.
