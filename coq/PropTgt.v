(* Every live binding updates a property unless the user holds it himself (BHold): no operation but the creation of a binding
   produces a live binding without target, and an assignment of the new binding to a property gives it one.  Same shape as
   PropReg.v / PropFlags.v: a preorder on worlds respected by every primitive, closed by induction on the depth fuel. *)
From KDB Require Import Util UtilProofs PropDefs PropFlags PropReg.

Definition tless (w : world) (b : nat) : Prop := exists x, get_bind w b = Some x /\ b_target x = None.
(* every live target-less binding of w' was one of w *)
Definition tkeep (w w' : world) : Prop := forall b, tless w' b -> tless w b.
Definition ALLTGT (w : world) : Prop := forall b, ~ tless w b.

Lemma tkeep_refl w : tkeep w w.
Proof. intros b H; exact H. Qed.
Lemma tkeep_trans a b c : tkeep a b -> tkeep b c -> tkeep a c.
Proof. intros H1 H2 n Hn. auto. Qed.
Lemma tkeep_binds w w' : w_binds w' = w_binds w -> tkeep w w'.
Proof. intros E b (x & Hx & Ht). exists x. split; [|exact Ht]. unfold get_bind in *. rewrite <- E. exact Hx. Qed.
Lemma tkeep_put w b x y : get_bind w b = Some x -> (b_target y = None -> b_target x = None) -> tkeep w (put_bind w b y).
Proof.
  intros Hb Hy c (z & Hz & Ht).
  assert (Hlt : b < length (w_binds w)) by (unfold get_bind in Hb; apply nth_error_Some; destruct (nth_error (w_binds w) b); congruence).
  unfold get_bind, put_bind in Hz; cbn [set_binds w_binds] in Hz. destruct (Nat.eq_dec b c) as [<-|Hne].
  - rewrite nth_upd_same in Hz by exact Hlt. destruct (b_alive y); [|discriminate Hz]. inversion Hz; subst z. exists x. auto.
  - rewrite nth_upd_other in Hz by exact Hne. exists z. split; [exact Hz|exact Ht].
Qed.
Lemma tkeep_log_fns l w : tkeep w (log_fns l w).
Proof. apply tkeep_binds. exact (proj2 (log_fns_evps l w)). Qed.

Lemma subscribe_binds w p k s w1 h : subscribe w p k s = Some (w1, h) -> w_binds w1 = w_binds w.
Proof.
  unfold subscribe. destruct (lookup (w_props w) p) as [pr|]; [|discriminate]. destruct (sig_of pr k) as [t|].
  - destruct (get_table w t) as [tb|]; [|discriminate]. destruct (t_free tb) as [|i f]; intros H; inversion H; subst; reflexivity.
  - match goal with |- match get_table ?W _ with _ => _ end = _ -> _ => destruct (get_table W (length (w_tables w))) as [tb|] end; [|discriminate].
    destruct (t_free tb) as [|i f]; intros H; inversion H; subst; reflexivity.
Qed.
Lemma unsubscribe_binds w h : w_binds (fst (unsubscribe w h)) = w_binds w.
Proof.
  unfold unsubscribe. destruct (get_table w (h_table h)) as [tb|]; [|reflexivity]. destruct (negb (t_alive tb)); [reflexivity|].
  destruct (nth_error (t_slots tb) (h_pos h)) as [[[ser s]|]|]; try reflexivity.
  destruct (Nat.eqb ser (h_serial h)); [|reflexivity]. destruct (t_emitting tb); reflexivity.
Qed.
Lemma unsubscribe_all_binds hs : forall w, w_binds (fst (unsubscribe_all w hs)) = w_binds w.
Proof.
  induction hs as [|h r IH]; intros w; cbn [unsubscribe_all]; [reflexivity|].
  pose proof (unsubscribe_binds w h) as M. destruct (unsubscribe w h) as [w1 [e|]]; cbn [fst] in *; [exact M|]. rewrite IH. exact M.
Qed.
Lemma kill_table_tkeep w ot : tkeep w (fst (kill_table w ot)).
Proof.
  unfold kill_table. destruct ot as [t|]; [|apply tkeep_refl]. destruct (get_table w t) as [tb|]; [|apply tkeep_refl].
  destruct (t_emitting tb); [apply tkeep_refl|]. apply tkeep_binds; reflexivity.
Qed.

(* ~Binding: the binding is dead afterwards, nothing else changes *)
Lemma destroy_binding_tkeep w b : tkeep w (fst (destroy_binding w b)).
Proof.
  unfold destroy_binding. destruct (get_bind w b) as [x|] eqn:Hb; [|apply tkeep_refl].
  set (dead := {| b_root := b_root x; b_evp := b_evp x; b_regid := b_regid x; b_target := None; b_alive := false |}).
  set (w1 := match nth_error (w_evps w) (b_evp x) with
             | Some ep => set_evps w (upd (w_evps w) (b_evp x) {| ep_registry := filter (fun q => negb (Nat.eqb (fst q) (b_regid x))) (ep_registry ep); ep_next := ep_next ep |})
             | None => w end).
  assert (B1 : w_binds w1 = w_binds w) by (unfold w1; destruct (nth_error (w_evps w) (b_evp x)); reflexivity).
  assert (Hlt : b < length (w_binds w)) by (unfold get_bind in Hb; apply nth_error_Some; destruct (nth_error (w_binds w) b); congruence).
  eapply tkeep_trans; [|apply tkeep_binds; apply unsubscribe_all_binds].
  intros c (z & Hz & Ht). unfold get_bind, put_bind in Hz; cbn [set_binds w_binds] in Hz. rewrite B1 in Hz. destruct (Nat.eq_dec b c) as [<-|Hne].
  - rewrite nth_upd_same in Hz by exact Hlt. cbn in Hz. discriminate Hz.
  - rewrite nth_upd_other in Hz by exact Hne. exists z. split; [exact Hz|exact Ht].
Qed.

Section Tgt.
  Variable fn : nat -> list Z -> option Z.
  Variable rtl : bool.

  (* a new binding: the only new target-less live binding is the new one *)
  Lemma make_binding_tless w e m w' b : make_binding fn rtl w e m = inl (w', b) ->
    b = length (w_binds w) /\ (exists x, get_bind w' b = Some x) /\ forall c, tless w' c -> c = b \/ tless w c.
  Proof.
    unfold make_binding. destruct (match m with MImmediate => Some 0 | MEvaluator ev => lookup (w_bevs w) ev end) as [ep|]; [|discriminate].
    destruct (nth_error (w_evps w) ep) as [st|] eqn:Hst; [|discriminate].
    destruct (build fn rtl w (length (w_binds w)) 0 e) as [[[[w1 root] n1]|]|ex] eqn:Hb; try discriminate.
    intros H; inversion H; subst w' b; clear H. destruct (build_binds fn rtl _ _ _ _ _ _ _ Hb) as [E1 B1].
    split; [reflexivity|]. split.
    - eexists. unfold get_bind; cbn [set_binds w_binds]. rewrite B1, nth_error_app2 by lia. rewrite Nat.sub_diag. cbn. reflexivity.
    - intros c (z & Hz & Ht). unfold get_bind in Hz; cbn [set_binds w_binds] in Hz. rewrite B1 in Hz.
      destruct (Nat.lt_ge_cases c (length (w_binds w))) as [Hlt|Hge].
      + right. rewrite nth_error_app1 in Hz by exact Hlt. exists z. split; [exact Hz|exact Ht].
      + rewrite nth_error_app2 in Hz by exact Hge. destruct (c - length (w_binds w)) as [|n] eqn:En; [left; lia|].
        cbn in Hz. destruct n; discriminate Hz.
  Qed.

  Definition goodT (R : world -> nat -> Z -> res) : Prop := forall w q v, tkeep w (fst (R w q v)).

  Section Body.
    Variable R : world -> nat -> Z -> res.
    Hypothesis HR : goodT R.

    Lemma binding_evaluate_tkeep w b : tkeep w (fst (binding_evaluate fn rtl R w b)).
    Proof.
      unfold binding_evaluate. destruct (get_bind w b) as [x|] eqn:Hb; [|apply tkeep_refl].
      destruct (eval fn rtl (values w) (b_root x)) as [[t r] l].
      assert (M : tkeep w (log_fns l (put_bind w b (bind_with_root x t)))) by (eapply tkeep_trans; [apply (tkeep_put w b x (bind_with_root x t) Hb); auto|apply tkeep_log_fns]).
      destruct r as [v|ex]; [|exact M]. destruct (b_target x) as [p|]; [|exact M]. eapply tkeep_trans; [exact M|apply HR].
    Qed.

    Lemma deliver_tkeep w p k payload s : tkeep w (fst (deliver fn rtl R w p k payload s)).
    Proof.
      destruct s as [label act|b leaf]; cbn [deliver].
      - set (w1 := log _ w). assert (M : tkeep w w1) by (apply tkeep_binds; reflexivity).
        destruct act as [[[|] q]|].
        + destruct (lookup (w_props w1) q) as [pr|]; [|exact M]. destruct (pr_updater pr) as [b|]; [|exact M].
          pose proof (destroy_binding_tkeep w1 b) as M2. destruct (destroy_binding w1 b) as [w2 [e|]]; cbn [fst] in *.
          * exact (tkeep_trans _ _ _ M M2).
          * destruct (lookup (w_props w2) q); cbn [fst]; (eapply tkeep_trans; [exact M|]); (eapply tkeep_trans; [exact M2|]); apply tkeep_binds; reflexivity.
        + destruct payload as [|v pl]; [exact M|]. destruct (lookup (w_props w1) q) as [pr|]; [|exact M].
          destruct (pr_updater pr); [exact M|]. eapply tkeep_trans; [exact M|apply HR].
        + destruct payload; exact M.
      - destruct (get_bind w b) as [x|] eqn:Hb; [|apply tkeep_refl]. destruct k.
        + apply tkeep_refl.
        + destruct (mark (b_root x) leaf) as [[t up]|]; [|apply tkeep_refl].
          assert (M : tkeep w (put_bind w b (bind_with_root x t))) by (apply (tkeep_put w b x _ Hb); auto).
          destruct up; [|exact M]. destruct (Nat.eqb (b_evp x) 0); [|exact M]. eapply tkeep_trans; [exact M|apply binding_evaluate_tkeep].
        + apply (tkeep_put w b x _ Hb); auto.
        + destruct payload as [|a [|? ?]]; try apply tkeep_refl. apply (tkeep_put w b x _ Hb); auto.
    Qed.

    Lemma walk_tkeep t p k payload : forall idxs w, tkeep w (fst (walk fn rtl R w t p k payload idxs)).
    Proof.
      induction idxs as [|x r IH]; intros w; cbn [walk]; [apply tkeep_refl|].
      destruct (get_table w t) as [tb|]; [|apply tkeep_refl].
      destruct (nth_error (t_slots tb) x) as [[[ser s]|]|]; try apply IH.
      pose proof (deliver_tkeep w p k payload s) as M. destruct (deliver fn rtl R w p k payload s) as [w1 [e|]]; cbn [fst] in *; [exact M|].
      eapply tkeep_trans; [exact M|apply IH].
    Qed.

    Lemma emit_tkeep w ot p k payload : tkeep w (fst (emit fn rtl R w ot p k payload)).
    Proof.
      unfold emit. destruct ot as [t|]; [|apply tkeep_refl]. destruct (get_table w t) as [tb|]; [|apply tkeep_refl].
      destruct (t_emitting tb); [apply tkeep_refl|].
      match goal with |- context [walk fn rtl R ?W1 t p k payload ?I] => pose proof (walk_tkeep t p k payload I W1) as M2; destruct (walk fn rtl R W1 t p k payload I) as [w2 e2];
        assert (M1 : tkeep w W1) by (apply tkeep_binds; reflexivity) end.
      cbn [fst] in M2. destruct (get_table w2 t) as [tb2|]; cbn [fst].
      - eapply tkeep_trans; [exact M1|]. eapply tkeep_trans; [exact M2|]. apply tkeep_binds; reflexivity.
      - exact (tkeep_trans _ _ _ M1 M2).
    Qed.
  End Body.

  Lemma set_helper_tkeep : forall fuel, goodT (set_helper fn rtl fuel).
  Proof.
    induction fuel as [|f IH]; intros w q v; cbn [set_helper]; [apply tkeep_refl|].
    destruct (lookup (w_props w) q) as [pr|]; [|apply tkeep_refl].
    destruct (Z.eqb v (pr_value pr)); [apply tkeep_refl|].
    pose proof (emit_tkeep _ IH w (pr_about pr) q KAbout [pr_value pr; v]) as M1.
    destruct (emit fn rtl (set_helper fn rtl f) w (pr_about pr) q KAbout [pr_value pr; v]) as [w1 [e|]]; cbn [fst] in *; [exact M1|].
    destruct (lookup (w_props w1) q) as [pr1|]; [|exact M1].
    eapply tkeep_trans; [exact M1|]. eapply tkeep_trans; [|apply (emit_tkeep _ IH)]. apply tkeep_binds; reflexivity.
  Qed.

  (* Property::operator=(unique_ptr<Updater>): when it returns normally the binding it installed has a target *)
  Lemma assign_binding_tless fuel w p b w' :
    assign_binding fn rtl fuel w p b = (w', None) -> forall c, tless w' c -> c <> b /\ tless w c.
  Proof.
    unfold assign_binding. destruct (lookup (w_props w) p) as [pr|]; [|discriminate].
    match goal with |- context [let (_, _) := ?X in _] =>
      assert (M1 : tkeep w (fst X)) by (destruct (pr_updater pr); [apply destroy_binding_tkeep|apply tkeep_refl]);
      revert M1; destruct X as [w1 [e|]]; intros M1; cbn [fst] in * end; [discriminate|].
    destruct (lookup (w_props w1) p) as [pr1|]; [|discriminate]. destruct (get_bind w1 b) as [x|] eqn:Hb; [|discriminate].
    set (w2 := set_props w1 (bind_key (w_props w1) p (prop_set_updater pr1 (Some b)))).
    set (x1 := bind_with_target x (Some p)).
    set (w3 := put_bind w2 b x1).
    assert (Hb2 : get_bind w2 b = Some x) by exact Hb.
    assert (Hlt : b < length (w_binds w2)) by (unfold get_bind in Hb2; apply nth_error_Some; destruct (nth_error (w_binds w2) b); congruence).
    assert (Hal : b_alive x = true) by (unfold get_bind in Hb2; destruct (nth_error (w_binds w2) b) as [z|]; [|discriminate Hb2]; destruct (b_alive z) eqn:A; [inversion Hb2; subst; exact A|discriminate Hb2]).
    assert (K3 : forall c, tless w3 c -> c <> b /\ tless w1 c).
    { intros c (z & Hz & Ht). unfold w3, get_bind, put_bind in Hz; cbn [set_binds w_binds] in Hz. destruct (Nat.eq_dec b c) as [<-|Hne].
      - rewrite nth_upd_same in Hz by exact Hlt. cbn [x1 bind_with_target b_alive] in Hz. rewrite Hal in Hz. inversion Hz; subst z. discriminate Ht.
      - rewrite nth_upd_other in Hz by exact Hne. split; [auto|]. exists z. split; [exact Hz|exact Ht]. }
    destruct (eval fn rtl (values w3) (b_root x)) as [[t r0] l].
    assert (Hb3 : get_bind w3 b = Some x1).
    { unfold w3, get_bind, put_bind; cbn [set_binds w_binds]. rewrite nth_upd_same by exact Hlt. cbn [x1 bind_with_target b_alive]. rewrite Hal. reflexivity. }
    assert (M4 : tkeep w3 (log_fns l (put_bind w3 b (bind_with_root x1 t)))).
    { eapply tkeep_trans; [apply (tkeep_put w3 b x1 (bind_with_root x1 t) Hb3); auto|apply tkeep_log_fns]. }
    intros H c Hc. destruct r0 as [v|ex]; [|discriminate H].
    pose proof (set_helper_tkeep fuel (log_fns l (put_bind w3 b (bind_with_root x1 t))) p v) as M5. rewrite H in M5. cbn [fst] in M5.
    destruct (K3 c (M4 c (M5 c Hc))) as [Hne Hc1]. split; [exact Hne|exact (M1 c Hc1)].
  Qed.

  Lemma destroy_prop_tkeep fuel w p : tkeep w (fst (destroy_prop fn rtl fuel w p)).
  Proof.
    unfold destroy_prop. destruct (lookup (w_props w) p) as [pr|]; [|apply tkeep_refl].
    pose proof (emit_tkeep _ (set_helper_tkeep fuel) w (pr_destroyed pr) p KDestroyed []) as M1.
    destruct (emit fn rtl (set_helper fn rtl fuel) w (pr_destroyed pr) p KDestroyed []) as [w1 [e|]]; cbn [fst] in *; [exact M1|].
    match goal with |- context [let (_, _) := ?X in _] =>
      assert (M2 : tkeep w1 (fst X)) by (destruct (pr_updater pr); [apply destroy_binding_tkeep|apply tkeep_refl]);
      revert M2; destruct X as [w2 [e|]]; intros M2; cbn [fst] in * end; [exact (tkeep_trans _ _ _ M1 M2)|].
    pose proof (kill_table_tkeep w2 (pr_destroyed pr)) as M3. destruct (kill_table w2 (pr_destroyed pr)) as [w3 [e|]]; cbn [fst] in *;
      [exact (tkeep_trans _ _ _ M1 (tkeep_trans _ _ _ M2 M3))|].
    pose proof (kill_table_tkeep w3 (pr_moved pr)) as M4. destruct (kill_table w3 (pr_moved pr)) as [w4 [e|]]; cbn [fst] in *;
      [exact (tkeep_trans _ _ _ M1 (tkeep_trans _ _ _ M2 (tkeep_trans _ _ _ M3 M4)))|].
    pose proof (kill_table_tkeep w4 (pr_changed pr)) as M5. destruct (kill_table w4 (pr_changed pr)) as [w5 [e|]]; cbn [fst] in *;
      [exact (tkeep_trans _ _ _ M1 (tkeep_trans _ _ _ M2 (tkeep_trans _ _ _ M3 (tkeep_trans _ _ _ M4 M5))))|].
    pose proof (kill_table_tkeep w5 (pr_about pr)) as M6. destruct (kill_table w5 (pr_about pr)) as [w6 [e|]]; cbn [fst] in *;
      [exact (tkeep_trans _ _ _ M1 (tkeep_trans _ _ _ M2 (tkeep_trans _ _ _ M3 (tkeep_trans _ _ _ M4 (tkeep_trans _ _ _ M5 M6)))))|].
    eapply tkeep_trans; [exact (tkeep_trans _ _ _ M1 (tkeep_trans _ _ _ M2 (tkeep_trans _ _ _ M3 (tkeep_trans _ _ _ M4 (tkeep_trans _ _ _ M5 M6)))))|].
    apply tkeep_binds; reflexivity.
  Qed.

  Lemma finish_move_tkeep fuel w dst src om : tkeep w (fst (finish_move fn rtl fuel w dst src om)).
  Proof.
    unfold finish_move. destruct (lookup (w_props w) dst) as [d|]; [|apply tkeep_refl]. destruct (lookup (w_props w) src) as [s|]; [|apply tkeep_refl].
    set (w1 := match pr_updater d with Some b => match get_bind w b with Some x => put_bind w b (bind_with_target x (Some dst)) | None => w end | None => w end).
    assert (M1 : tkeep w w1).
    { unfold w1. destruct (pr_updater d) as [b|]; [|apply tkeep_refl]. destruct (get_bind w b) as [x|] eqn:Hb; [|apply tkeep_refl].
      apply (tkeep_put w b x _ Hb). cbn. discriminate. }
    pose proof (emit_tkeep _ (set_helper_tkeep fuel) w1 om dst KMoved [Z.of_nat dst]) as M2.
    destruct (emit fn rtl (set_helper fn rtl fuel) w1 om dst KMoved [Z.of_nat dst]) as [w2 [e|]]; cbn [fst] in *; [exact (tkeep_trans _ _ _ M1 M2)|].
    pose proof (emit_tkeep _ (set_helper_tkeep fuel) w2 (pr_moved s) dst KMoved [Z.of_nat dst]) as M3.
    destruct (emit fn rtl (set_helper fn rtl fuel) w2 (pr_moved s) dst KMoved [Z.of_nat dst]) as [w3 [e|]]; cbn [fst] in *;
      [exact (tkeep_trans _ _ _ M1 (tkeep_trans _ _ _ M2 M3))|].
    pose proof (kill_table_tkeep w3 om) as M4. destruct (kill_table w3 om) as [w4 [e|]]; cbn [fst] in *;
      [exact (tkeep_trans _ _ _ M1 (tkeep_trans _ _ _ M2 (tkeep_trans _ _ _ M3 M4)))|].
    assert (M : tkeep w w4) by exact (tkeep_trans _ _ _ M1 (tkeep_trans _ _ _ M2 (tkeep_trans _ _ _ M3 M4))).
    destruct (lookup (w_props w4) dst); [|exact M]. destruct (lookup (w_props w4) src); [|exact M].
    eapply tkeep_trans; [exact M|]. apply tkeep_binds; reflexivity.
  Qed.

  (* every operation but the creation of a user-held binding: a call that returns normally leaves no new target-less live binding *)
  Theorem step1_alltgt fuel w o w' :
    (match o with BHold _ _ _ => False | _ => True end) -> ALLTGT w -> step1 fn rtl fuel w o = (w', None) -> ALLTGT w'.
  Proof.
    intros Ho HA H.
    assert (K : tkeep w w' -> ALLTGT w') by (intros M b Hb; exact (HA b (M b Hb))).
    destruct o; cbn [step1] in H; try contradiction.
    - apply K. destruct (lookup (w_props w) p); [discriminate H|]. inversion H; subst. apply tkeep_binds; reflexivity.
    - apply K. pose proof (destroy_prop_tkeep fuel w p) as M. rewrite H in M. exact M.
    - apply K. destruct (lookup (w_props w) p) as [pr|]; [|discriminate H]. destruct (pr_updater pr); [discriminate H|].
      pose proof (set_helper_tkeep fuel w p v) as M. rewrite H in M. exact M.
    - apply K. destruct (lookup (w_props w) p); [|discriminate H]. inversion H; subst. apply tkeep_binds; reflexivity.
    - apply K. destruct (lookup (w_props w) p); [|discriminate H]. inversion H; subst. apply tkeep_binds; reflexivity.
    - apply K. destruct (match k, act with KMoved, _ => true | KDestroyed, Some _ => true | _, _ => false end); [discriminate H|].
      destruct (subscribe w p k (SObs label act)) as [[w1 hd]|] eqn:Hs; [|discriminate H]. inversion H; subst.
      apply tkeep_binds. cbn. exact (subscribe_binds _ _ _ _ _ _ Hs).
    - apply K. destruct (lookup (w_obs w) h); [|discriminate H]. apply tkeep_binds.
      pose proof (unsubscribe_binds w h0) as E. rewrite H in E. exact E.
    - apply K. destruct (lookup (w_props w) p) as [pr|]; [|discriminate H]. destruct (lookup (w_props w) q) as [qr|]; [|discriminate H].
      destruct (pr_updater pr); [discriminate H|]. pose proof (set_helper_tkeep fuel w p (pr_value qr)) as M. rewrite H in M. exact M.
    - destruct (make_binding fn rtl w e m) as [[w1 b]|x] eqn:Hm; [|discriminate H].
      destruct (make_binding_tless _ _ _ _ _ Hm) as (Eb & _ & Hnew).
      assert (F : forall w2, (forall c, tless w2 c -> tless w1 c) -> assign_binding fn rtl fuel w2 p b = (w', None) -> ALLTGT w').
      { intros w2 M2 H2 c Hc. destruct (assign_binding_tless fuel w2 p b w' H2 c Hc) as [Hne Hc2].
        destruct (Hnew c (M2 c Hc2)) as [E|Hw]; [exact (Hne E)|exact (HA c Hw)]. }
      destruct (lookup (w_props w1) p); [exact (F w1 (fun c Hc => Hc) H)|].
      apply (F (set_props w1 (bind_key (w_props w1) p (prop_new 0%Z))) (tkeep_binds w1 _ eq_refl) H).
    - apply K. destruct (lookup (w_props w) p) as [pr|]; [|discriminate H]. destruct (pr_updater pr) as [b|]; [|inversion H; subst; apply tkeep_refl].
      pose proof (destroy_binding_tkeep w b) as M. destruct (destroy_binding w b) as [w1 [e|]]; cbn [fst] in *; [discriminate H|].
      destruct (lookup (w_props w1) p); [|discriminate H]. inversion H; subst. eapply tkeep_trans; [exact M|]. apply tkeep_binds; reflexivity.
    - apply K. destruct (lookup (w_props w) src) as [s|]; [|discriminate H]. destruct (lookup (w_props w) dst); [discriminate H|].
      match type of H with finish_move _ _ _ ?W ?D ?S ?O = _ => pose proof (finish_move_tkeep fuel W D S O) as M; rewrite H in M; cbn [fst] in M end.
      eapply tkeep_trans; [|exact M]. apply tkeep_binds; reflexivity.
    - apply K. destruct (lookup (w_props w) src) as [s|]; [|discriminate H]. destruct (lookup (w_props w) dst) as [d|]; [|discriminate H].
      destruct (Nat.eqb src dst); [discriminate H|].
      pose proof (kill_table_tkeep w (pr_about d)) as M1. destruct (kill_table w (pr_about d)) as [w1 [e|]]; cbn [fst] in *; [discriminate H|].
      pose proof (kill_table_tkeep w1 (pr_changed d)) as M2. destruct (kill_table w1 (pr_changed d)) as [w2 [e|]]; cbn [fst] in *; [discriminate H|].
      pose proof (kill_table_tkeep w2 (pr_destroyed d)) as M3. destruct (kill_table w2 (pr_destroyed d)) as [w3 [e|]]; cbn [fst] in *; [discriminate H|].
      match type of H with context [let (_, _) := ?X in _] =>
        assert (M4 : tkeep w3 (fst X)) by (destruct (pr_updater d); [apply destroy_binding_tkeep|apply tkeep_refl]);
        revert M4 H; destruct X as [w4 [e|]]; intros M4 H; cbn [fst] in * end; [discriminate H|].
      eapply tkeep_trans; [exact (tkeep_trans _ _ _ M1 (tkeep_trans _ _ _ M2 (tkeep_trans _ _ _ M3 M4)))|].
      match type of H with finish_move _ _ _ ?W ?D ?S ?O = _ => pose proof (finish_move_tkeep fuel W D S O) as M; rewrite H in M; cbn [fst] in M end.
      eapply tkeep_trans; [|exact M]. apply tkeep_binds; reflexivity.
    - apply K. destruct (lookup (w_bevs w) e); inversion H; subst. apply tkeep_binds; reflexivity.
    - apply K. destruct (lookup (w_bevs w) src), (lookup (w_bevs w) dst); inversion H; subst. apply tkeep_binds; reflexivity.
    - apply K. destruct (lookup (w_bevs w) e); inversion H; subst. apply tkeep_binds; reflexivity.
    - apply K. destruct (lookup (w_bevs w) e) as [id|]; [|discriminate H]. destruct (nth_error (w_evps w) id) as [st|]; [|discriminate H].
      revert H. generalize (ep_registry st). intros l. revert w HA K. induction l as [|[rid b] r IH]; intros w HA K H; [inversion H; subst; apply tkeep_refl|].
      destruct (match nth_error (w_evps w) id with Some st' => existsb (fun q => Nat.eqb (fst q) rid) (ep_registry st') | None => false end).
      + pose proof (binding_evaluate_tkeep _ (set_helper_tkeep fuel) w b) as M.
        destruct (binding_evaluate fn rtl (set_helper fn rtl fuel) w b) as [w1 [x|]]; cbn [fst] in *; [discriminate H|].
        eapply tkeep_trans; [exact M|]. apply (IH w1); [intros c Hc; exact (HA c (M c Hc))|intros M' c Hc; exact (HA c (M c (M' c Hc)))|exact H].
      + apply (IH w HA K H).
    - apply K. destruct (lookup (w_held w) b) as [id|]; [|discriminate H].
      pose proof (destroy_binding_tkeep w id) as M. destruct (destroy_binding w id) as [w1 [e|]]; cbn [fst] in *; [inversion H|].
      inversion H; subst. eapply tkeep_trans; [exact M|]. apply tkeep_binds; reflexivity.
  Qed.
End Tgt.

(* registered and live, hence (no user-held binding was ever made) with a target *)
Lemma registered_has_target w : REGI w -> ALLTGT w -> forall ep st rb, nth_error (w_evps w) ep = Some st -> In rb (ep_registry st) ->
  exists x q, get_bind w (snd rb) = Some x /\ b_target x = Some q.
Proof.
  intros HR HA ep st [rid b] Hst Hi. pose proof (HR ep st rid b Hst Hi) as Hk. unfold bkey in Hk. cbn [snd].
  destruct (get_bind w b) as [x|] eqn:Hb; [|discriminate Hk]. destruct (b_target x) as [q|] eqn:Ht; [eauto|].
  exfalso. apply (HA b). exists x. auto.
Qed.
