(* Disconnection (C04), deferred queues (C05), moves of signals (C11), table/queue sizes (C19). *)
From KDB Require Import Util UtilProofs GenIdx GenIdxProofs SigDefs SigInv SigTheorems SigEmit.

(* ---------------------------------------------------------------------------------------------- *)
(* C04: a disconnected id is stale, for ever *)

Theorem disconnect_makes_stale w i k m :
  winv w -> get_impl w i = Some m -> i_emitting m = false -> In k (i_issued m) ->
  stale_in (impl_disconnect w i k) i k.
Proof.
  intros Hw Hm Hem Hin. pose proof (Hw _ _ Hm) as (Hwf & Hfr & _).
  destruct (g_get (i_conns m) k) as [c|] eqn:Hc.
  - rewrite (impl_disconnect_nonemitting w i k m c Hm Hem Hc) || idtac.
    exists (impl_with_conns m (g_erase (i_conns m) k)). split; [apply (impl_disconnect_nonemitting w i k m c Hm Hem Hc)|].
    cbn [i_conns impl_with_conns]. rewrite alloc_erase by assumption.
    destruct (wf_alloc_deallocate _ k (proj1 Hwf)) as (_ & _ & _ & _ & Hdead & _).
    pose proof (get_isLive _ _ _ Hwf Hc) as Hl. specialize (Hdead Hl).
    eexists; split; [exact Hdead|]. right; cbn; auto.
  - destruct (issued_live_or_stale _ _ _ Hfr Hin) as [Hl|Hs].
    + destruct (isLive_get _ _ Hwf Hl) as (v & Hv). congruence.
    + rewrite (stale_disconnect_noop w i k Hw (ex_intro _ m (conj Hm Hs))). rewrite Hm.
      exists m; split; [eapply get_put_same; eassumption|assumption].
Qed.

Lemma fold_winv tbl pf fuel ops : forall w, winv w -> winv (fold_left (step tbl pf fuel) ops w).
Proof. induction ops as [|o r IH]; intros w Hw; cbn [fold_left]; [assumption|]. apply IH. apply step_ok; assumption. Qed.

Theorem stale_final tbl pf fuel ops w i k :
  winv w -> stale_in w i k ->
  stale_in (fold_left (step tbl pf fuel) ops w) i k /\
  checked_lock (fold_left (step tbl pf fuel) ops w) {| h_impl := Some i; h_id := Some k |} = None.
Proof.
  intros Hw Hs. pose proof (stale_forever tbl pf fuel ops w i k Hw Hs) as H. split; [exact H|].
  apply stale_in_not_active; [apply fold_winv; assumption|exact H].
Qed.

(* C01, single-shot: the emission that invokes a single-shot connection makes its id stale - for arbitrary slot bodies and whatever
   way the emission ends - and (stale_final) it stays stale, inactive and out of every table through every later history *)
Lemma live_issued m k c : impl_ok m -> g_get (i_conns m) k = Some c -> In k (i_issued m).
Proof.
  intros (Hwf & (_ & _ & _ & Hlive) & _) Hc. pose proof (get_slot (i_conns m) k c) as [Hs _]. specialize (Hs Hc).
  pose proof (wf_slot_alloc _ _ _ _ Hwf Hs) as Ha. specialize (Hlive _ _ Ha eq_refl). cbn in Hlive. rewrite gidx_eta in Hlive. exact Hlive.
Qed.

Theorem single_shot_stale_after R w s args i k m c l :
  good R -> winv w -> lookup (w_sigs w) s = Some (Some i) -> get_impl w i = Some m -> i_emitting m = false ->
  g_get (i_conns m) k = Some c -> c_kind c = KSingle ->
  w_trace (fst (sig_emit R w s args)) = l ++ w_trace w -> In k (dkeys i l) ->
  stale_in (fst (sig_emit R w s args)) i k.
Proof.
  intros HR Hw Hs Hm Hem Hc Hk Hl Hin.
  pose proof (sig_emit_ok R HR w s args Hw) as [Hw' L].
  destruct (wle_impls _ _ _ _ _ L _ _ Hm) as (m' & Hm' & ((li & Hiss) & _) & _).
  pose proof (emit_single_shot_gone R HR i k w s args m c m' Hw Hs Hm Hem Hc Hk l Hl Hin Hm') as Hgone.
  exists m'. split; [exact Hm'|].
  pose proof (Hw' _ _ Hm') as Hok'. pose proof Hok' as (Hwf' & Hfr' & _).
  assert (Hi : In k (i_issued m')) by (rewrite Hiss; apply in_or_app; right; exact (live_issued m k c (Hw _ _ Hm) Hc)).
  destruct (issued_live_or_stale _ _ _ Hfr' Hi) as [Hlive|Hst]; [|exact Hst].
  destruct (isLive_get _ _ Hwf' Hlive) as (v & Hv). congruence.
Qed.

Theorem stale_not_in_table w i k m :
  winv w -> get_impl w i = Some m -> stale (g_alloc (i_conns m)) k -> g_get (i_conns m) k = None.
Proof. intros Hw Hm Hs. apply stale_get_none; [apply (Hw _ _ Hm)|exact Hs]. Qed.

(* disconnectAll on an idle Impl empties its table; the Impl dies, so every handle to it is inactive *)
Theorem disconnect_all_empties w s i m :
  winv w -> lookup (w_sigs w) s = Some (Some i) -> get_impl w i = Some m -> i_emitting m = false ->
  exists m', get_impl (sig_disconnect_all w s) i = Some m' /\ i_alive m' = false /\
             (forall k, g_get (i_conns m') k = None) /\
             lookup (w_sigs (sig_disconnect_all w s)) s = Some None.
Proof.
  intros Hw Hs Hm Hem. unfold sig_disconnect_all. rewrite Hs. unfold impl_disconnect_all. rewrite Hm.
  destruct (sweep_ok (fun _ => true) (seq 0 (g_size (i_conns m))) w i m Hw Hm Hem)
    as (m1 & Hg1 & He1 & _ & _ & _ & Hs1 & Hin1 & _).
  set (w1 := disconnect_where (fun _ : conn => true) w i (seq 0 (g_size (i_conns m)))) in *.
  unfold release_owner. rewrite Hg1.
  eexists. split; [cbn [set_sigs]; change (get_impl (set_sigs ?x _) i) with (get_impl x i); eapply get_put_same; eassumption|].
  cbn [impl_with_owner i_alive i_conns]. split; [assumption|]. split.
  - intros k. destruct (g_get (i_conns m1) k) as [c|] eqn:Hc; [|reflexivity].
    apply get_slot in Hc.
    assert (Hlt : gi_index k < g_size (i_conns m1)) by (unfold g_size; apply nth_error_Some; congruence).
    assert (Hx : In (gi_index k) (seq 0 (g_size (i_conns m)))) by (apply in_seq; lia).
    specialize (Hin1 _ Hx _ _ Hc). discriminate.
  - cbn [set_sigs w_sigs]. apply lookup_bind_same.
Qed.

(* ---------------------------------------------------------------------------------------------- *)
(* C05 *)

(* disconnecting a deferred connection outside a pass removes its queued invocations *)
Theorem dequeue_removes w e i k s m :
  lookup (w_evs w) e = Some s -> e_alive s = true -> e_evaluating s = false ->
  get_impl w i = Some m -> i_alive m = true ->
  exists s', lookup (w_evs (ev_dequeue w e {| h_impl := Some i; h_id := Some k |})) e = Some s' /\
             (forall v, ~ In ({| h_impl := Some i; h_id := Some k |}, v) (e_queue s')) /\
             (forall p, In p (e_queue s') -> In p (e_queue s)).
Proof.
  intros He Hal Hev Hm Hma. unfold ev_dequeue. rewrite He, Hal, Hev. cbn [negb].
  eexists. split; [cbn [set_evs w_evs]; apply lookup_bind_same|]. cbn [e_queue]. split.
  - intros v Hin. apply filter_In in Hin. destruct Hin as [_ Hf]. cbn [fst] in Hf.
    unfold handle_eqb, lock in Hf. cbn in Hf. rewrite Hm, Hma in Hf. rewrite Nat.eqb_refl, gidx_eqb_refl in Hf. discriminate.
  - intros p Hp. apply filter_In in Hp. tauto.
Qed.

(* a nested request to evaluate is a no-op *)
Theorem nested_evaluate_noop pf R w e s :
  lookup (w_evs w) e = Some s -> e_alive s = true -> e_evaluating s = true -> eval_pass pf R w e = (w, None).
Proof. intros He Hal Hev. unfold eval_pass. rewrite He, Hal, Hev. reflexivity. Qed.

(* a pass with slot bodies that do not call back: every queued invocation exactly once, in queue order; then empty *)
Definition pass_event (p : handle * invocation) : event :=
  EvSlot (handle_src (fst p)) false (v_label (snd p)) (v_args (snd p)).

Lemma pass_loop_quiet e s : forall fuel w pos,
  lookup (w_evs w) e = Some s -> length (e_queue s) - pos < fuel ->
  exists w', pass_loop quietR fuel w e pos = (w', None) /\
             w_trace w' = rev (map pass_event (skipn pos (e_queue s))) ++ w_trace w /\
             w_evs w' = w_evs w /\ w_impls w' = w_impls w.
Proof.
  induction fuel as [|f IH]; intros w pos He Hf; [lia|]. cbn [pass_loop]. rewrite He.
  destruct (nth_error (e_queue s) pos) as [[h v]|] eqn:Hn.
  - unfold invoke_slot, quietR, ok.
    assert (Hlt : pos < length (e_queue s)) by (apply nth_error_Some; congruence).
    destruct (IH (log (EvSlot (handle_src h) false (v_label v) (v_args v)) w) (S pos) He ltac:(lia))
      as (w' & Hl & Ht & Hev & Him).
    exists w'. split; [exact Hl|]. split; [|split; [exact Hev|exact Him]].
    rewrite Ht. cbn [log w_trace].
    assert (Hsk : skipn pos (e_queue s) = (h, v) :: skipn (S pos) (e_queue s)).
    { clear -Hn. revert pos Hn. induction (e_queue s) as [|a t IHq]; intros [|p] Hn; cbn in *; try discriminate.
      - inversion Hn; reflexivity.
      - apply IHq; assumption. }
    rewrite Hsk. cbn [map rev]. rewrite <- app_assoc. reflexivity.
  - exists w. split; [reflexivity|]. apply nth_error_None in Hn. rewrite skipn_all2 by assumption. auto.
Qed.

Theorem pass_runs_queue_once pf w e s :
  lookup (w_evs w) e = Some s -> e_alive s = true -> e_evaluating s = false -> length (e_queue s) < pf ->
  exists w', eval_pass pf quietR w e = (w', None) /\
             w_trace w' = rev (map pass_event (e_queue s)) ++ w_trace w /\
             lookup (w_evs w') e = Some {| e_alive := true; e_queue := []; e_evaluating := false |} /\
             w_impls w' = w_impls w.
Proof.
  intros He Hal Hev Hlen. unfold eval_pass. rewrite He, Hal, Hev. cbn [negb].
  set (w1 := set_evs w (bind_key (w_evs w) e {| e_alive := true; e_queue := e_queue s; e_evaluating := true |})).
  assert (He1 : lookup (w_evs w1) e = Some {| e_alive := true; e_queue := e_queue s; e_evaluating := true |})
    by (unfold w1; cbn [set_evs w_evs]; apply lookup_bind_same).
  destruct (pass_loop_quiet e _ pf w1 0 He1 ltac:(cbn [e_queue]; lia)) as (w2 & Hl & Ht & Hevs & Him).
  rewrite Hl. eexists; split; [reflexivity|]. cbn [e_queue skipn] in Ht.
  unfold ev_finish. rewrite Hevs, He1. cbn [set_evs w_trace w_evs w_impls e_alive].
  split; [exact Ht|]. split; [apply lookup_bind_same|exact Him].
Qed.

(* ... and a further pass with no new emission runs nothing *)
Theorem second_pass_runs_nothing pf w e :
  0 < pf -> lookup (w_evs w) e = Some {| e_alive := true; e_queue := []; e_evaluating := false |} ->
  exists w', eval_pass pf quietR w e = (w', None) /\ w_trace w' = w_trace w.
Proof.
  intros Hpf He. destruct (pass_runs_queue_once pf w e _ He eq_refl eq_refl Hpf) as (w' & Hl & Ht & _).
  exists w'; auto.
Qed.

(* ---------------------------------------------------------------------------------------------- *)
(* a pass with ARBITRARY re-entrant slot bodies (they may emit deferred signals of this evaluator, disconnect, destroy signals,
   request nested passes ...): [runs q l] says that the part l of the trace (newest first) written by the pass consists of the
   pass's own invocation of each element of q, once each and in queue order, each followed by whatever its body wrote *)
Inductive runs : list (handle * invocation) -> list event -> Prop :=
| runs_nil : runs [] []
| runs_cons p q body l : runs q l -> runs (p :: q) (l ++ body ++ [pass_event p]).

Lemma skipn_nth_cons {X} (l : list X) pos x : nth_error l pos = Some x -> skipn pos l = x :: skipn (S pos) l.
Proof.
  revert pos; induction l as [|a t IH]; intros [|p] Hn; cbn in *; try discriminate.
  - inversion Hn; reflexivity.
  - apply IH; assumption.
Qed.

Lemma winv_log ev w : winv w -> winv (log ev w).
Proof. intros H i m Hi. exact (H i m Hi). Qed.

Lemma pass_loop_reentrant R e : good R -> forall fuel w pos s w',
  winv w -> lookup (w_evs w) e = Some s -> e_evaluating s = true ->
  pass_loop R fuel w e pos = (w', None) ->
  winv w' /\ exists s' extra l,
    lookup (w_evs w') e = Some s' /\ e_evaluating s' = true /\ e_alive s' = e_alive s /\
    e_queue s' = e_queue s ++ extra /\ w_trace w' = l ++ w_trace w /\ runs (skipn pos (e_queue s')) l.
Proof.
  intros HR. induction fuel as [|f IH]; intros w pos s w' Hw He Hev H; [discriminate H|].
  cbn [pass_loop] in H. rewrite He in H.
  destruct (nth_error (e_queue s) pos) as [[h v]|] eqn:Hn.
  - unfold invoke_slot in H.
    set (ev := EvSlot (handle_src h) false (v_label v) (v_args v)) in *.
    pose proof (HR (log ev w) (v_script v) (winv_log ev w Hw)) as [Hw1 L1].
    destruct (R (log ev w) (v_script v)) as [w1 [x|]] eqn:ER; [discriminate H|]. cbn [fst] in Hw1, L1.
    destruct (wle_evs _ _ _ _ _ L1 e s He) as (s1 & He1 & K1). destruct (K1 I) as (Kev & Kq). destruct (Kq Hev) as (Kal & l1 & Kq1).
    destruct (wle_trace _ _ _ _ _ L1) as (lb & Ht1 & _).
    assert (Hev1 : e_evaluating s1 = true) by congruence.
    destruct (IH w1 (S pos) s1 w' Hw1 He1 Hev1 H) as (Hw' & s' & extra & l & He' & Hev' & Hal' & Hq' & Ht' & Hr).
    split; [exact Hw'|]. exists s', (l1 ++ extra), (l ++ lb ++ [ev]).
    split; [exact He'|]. split; [exact Hev'|]. split; [congruence|].
    split; [rewrite Hq', Kq1, app_assoc; reflexivity|].
    split; [rewrite Ht', Ht1; cbn [log w_trace]; rewrite <- !app_assoc; reflexivity|].
    assert (Hn' : nth_error (e_queue s') pos = Some (h, v)).
    { rewrite Hq', Kq1, <- app_assoc. rewrite nth_error_app1; [exact Hn|]. apply nth_error_Some; congruence. }
    rewrite (skipn_nth_cons _ _ _ Hn'). exact (runs_cons (h, v) _ lb l Hr).
  - inversion H; subst w'. split; [exact Hw|]. exists s, [], [].
    split; [exact He|]. split; [exact Hev|]. split; [reflexivity|]. split; [rewrite app_nil_r; reflexivity|]. split; [reflexivity|].
    apply nth_error_None in Hn. rewrite skipn_all2 by exact Hn. constructor.
Qed.

(* the whole pass: it runs the queue as it stood at the start AND everything the bodies appended meanwhile (extra), each
   element once, in queue order, and ends with the queue empty and the flag down - so nothing of it can run again *)
Theorem pass_reentrant pf R w e s w' :
  good R -> winv w -> lookup (w_evs w) e = Some s -> e_alive s = true -> e_evaluating s = false ->
  eval_pass pf R w e = (w', None) ->
  exists extra l, w_trace w' = l ++ w_trace w /\ runs (e_queue s ++ extra) l /\
                  lookup (w_evs w') e = Some {| e_alive := true; e_queue := []; e_evaluating := false |}.
Proof.
  intros HR Hw He Hal Hev H. unfold eval_pass in H. rewrite He, Hal, Hev in H. cbn [negb] in H.
  set (s1 := {| e_alive := true; e_queue := e_queue s; e_evaluating := true |}) in *.
  set (w1 := set_evs w (bind_key (w_evs w) e s1)) in *.
  assert (He1 : lookup (w_evs w1) e = Some s1) by (unfold w1; cbn [set_evs w_evs]; apply lookup_bind_same).
  assert (Hw1 : winv w1) by (intros i m Hi; exact (Hw i m Hi)).
  destruct (pass_loop R pf w1 e 0) as [w2 [x|]] eqn:EL; [discriminate H|]. inversion H; subst w'.
  destruct (pass_loop_reentrant R e HR pf w1 0 s1 w2 Hw1 He1 eq_refl EL) as (_ & s' & extra & l & He' & Hev' & Hal' & Hq' & Ht' & Hr).
  exists extra, l. unfold ev_finish. rewrite He'. cbn [set_evs w_trace w_evs].
  split; [exact Ht'|]. split; [cbn [skipn] in Hr; rewrite Hq' in Hr; exact Hr|].
  rewrite lookup_bind_same. cbn in Hal'. rewrite Hal'. reflexivity.
Qed.

(* [runs] pins the pass's own invocations down: as many as queue elements *)
Lemma runs_length q l : runs q l -> length q <= length l.
Proof. induction 1 as [|p q body l _ IH]; cbn; [lia|]. rewrite !app_length. cbn. lia. Qed.

(* for bodies that write nothing [runs q l] is the FIFO statement of pass_runs_queue_once *)
Lemma runs_quiet q : runs q (rev (map pass_event q)).
Proof.
  induction q as [|p q IH]; cbn [map rev]; [constructor|].
  change (rev (map pass_event q) ++ [pass_event p]) with (rev (map pass_event q) ++ [] ++ [pass_event p]). constructor. exact IH.
Qed.

(* ---------------------------------------------------------------------------------------------- *)
(* C11: moving a signal does not touch any Impl; the destination now holds the source's Impl, the source none *)

Theorem sig_move_ctor pf R w src dst x :
  lookup (w_sigs w) src = Some x -> src <> dst ->
  exists w', step1 pf R w (OSigMoveCtor src dst) = (w', None) /\
             w_impls w' = w_impls w /\ w_handles w' = w_handles w /\ w_evs w' = w_evs w /\
             lookup (w_sigs w') dst = Some x /\ lookup (w_sigs w') src = Some None /\
             (forall s, s <> src -> s <> dst -> lookup (w_sigs w') s = lookup (w_sigs w) s).
Proof.
  intros Hs Hne. cbn [step1]. rewrite Hs. eexists; split; [reflexivity|]. cbn [set_sigs w_sigs w_impls w_handles w_evs].
  repeat split.
  - apply lookup_bind_same.
  - rewrite lookup_bind_other by assumption. apply lookup_bind_same.
  - intros s H1 H2. rewrite !lookup_bind_other by assumption. reflexivity.
Qed.

(* handles follow: belongsTo answers for the destination exactly as it did for the source *)
Theorem sig_move_belongs pf R w src dst x hd :
  lookup (w_sigs w) src = Some x -> src <> dst ->
  belongs (fst (step1 pf R w (OSigMoveCtor src dst))) hd dst = belongs w hd src.
Proof.
  intros Hs Hne. destruct (sig_move_ctor pf R w src dst x Hs Hne) as (w' & Hst & Him & _ & _ & Hd & _).
  rewrite Hst. cbn [fst]. unfold belongs, lock, get_impl. rewrite Him, Hd, Hs. reflexivity.
Qed.

(* move assignment = destroy what the destination held (disconnectAll), then move *)
Theorem sig_move_assign pf R w dst src x y :
  lookup (w_sigs w) dst = Some y -> lookup (w_sigs w) src = Some x -> dst <> src ->
  step1 pf R w (OSigMoveAssign dst src) =
    (let w1 := sig_disconnect_all w dst in
     match lookup (w_sigs w1) src with
     | Some x' => (set_sigs w1 (bind_key (bind_key (w_sigs w1) src None) dst x'), None)
     | None => (w1, Some ExBadScript) end).
Proof.
  intros Hd Hs Hne. cbn [step1]. rewrite Hd, Hs.
  destruct (Nat.eqb_spec dst src); [contradiction|]. reflexivity.
Qed.

(* ---------------------------------------------------------------------------------------------- *)
(* C19: sizes *)

(* C11, scoped connections: a move transfers the guarded connection to the destination and leaves the source guarding nothing
   (its later expiry is a no-op); what the destination guarded before is disconnected, exactly as if it had expired *)
Lemma moved_from_guards_nothing w a : handle_disconnect w (handle_moved_from a) = w.
Proof. unfold handle_disconnect, checked_lock, handle_moved_from. cbn [h_id h_impl lock]. destruct (h_id a); reflexivity. Qed.

Theorem scoped_move_ctor pf R w src dst a :
  lookup (w_scoped w) src = Some a -> lookup (w_scoped w) dst = None -> src <> dst ->
  exists w', step1 pf R w (OScMoveCtor src dst) = (w', None) /\
             w_impls w' = w_impls w /\ w_evs w' = w_evs w /\
             lookup (w_scoped w') dst = Some a /\ lookup (w_scoped w') src = Some (handle_moved_from a) /\
             handle_disconnect w' (handle_moved_from a) = w'.
Proof.
  intros Hs Hd Hne. cbn [step1]. rewrite Hs, Hd. eexists; split; [reflexivity|]. cbn [set_scoped w_scoped w_impls w_evs].
  split; [reflexivity|]. split; [reflexivity|]. split; [apply lookup_bind_same|]. split; [|apply moved_from_guards_nothing].
  rewrite lookup_bind_other by exact Hne. apply lookup_bind_same.
Qed.

Theorem scoped_move_assign pf R w src dst a old :
  lookup (w_scoped w) src = Some a -> lookup (w_scoped w) dst = Some old -> src <> dst ->
  exists w', step1 pf R w (OScMove src dst) = (w', None) /\
             w_impls w' = w_impls (handle_disconnect w old) /\ w_evs w' = w_evs (handle_disconnect w old) /\
             lookup (w_scoped w') dst = Some a /\ lookup (w_scoped w') src = Some (handle_moved_from a).
Proof.
  intros Hs Hd Hne. cbn [step1]. rewrite Hs, Hd. destruct (Nat.eqb_spec src dst) as [E|_]; [contradiction|].
  eexists; split; [reflexivity|]. cbn [set_scoped w_scoped w_impls w_evs].
  split; [reflexivity|]. split; [reflexivity|]. split; [apply lookup_bind_same|].
  rewrite lookup_bind_other by exact Hne. apply lookup_bind_same.
Qed.

(* expiry of a scoped connection = disconnect through its handle *)
Theorem scoped_expiry pf R w c a :
  lookup (w_scoped w) c = Some a ->
  exists w', step1 pf R w (OScDrop c) = (w', None) /\ w_impls w' = w_impls (handle_disconnect w a) /\ lookup (w_scoped w') c = None.
Proof.
  intros Hc. cbn [step1]. rewrite Hc. eexists; split; [reflexivity|]. cbn [set_scoped w_scoped w_impls]. split; [reflexivity|].
  apply lookup_remove_same.
Qed.

Lemma slot_entries_length {T} (sl : list (option (N * T))) idxs :
  length (slot_entries sl idxs) = length (filter (fun i => match nth_error sl i with Some (Some _) => true | _ => false end) idxs).
Proof. rewrite <- (slot_entries_keys_index sl idxs). rewrite map_length. reflexivity. Qed.

(* the table is exactly as large as live + free positions: it grows only when no freed position is available *)
Theorem table_size_is_live_plus_free {T} (a : garray T) :
  wf a -> g_size a = length (g_live a) + length (ga_free (g_alloc a)).
Proof.
  intros Hwf. pose proof Hwf as ((Hnd & Hfree) & Hlen & Hag).
  rewrite (live_slots _ Hwf), slot_entries_length. unfold g_size.
  set (sl := g_slots a) in *. set (f := fun i => match nth_error sl i with Some (Some _) => true | _ => false end).
  assert (Hperm : length (filter (fun i => negb (f i)) (seq 0 (length sl))) = length (ga_free (g_alloc a))).
  { apply Nat.le_antisymm.
    - apply NoDup_incl_length; [apply NoDup_filter, seq_NoDup|].
      intros i Hi. apply filter_In in Hi. destruct Hi as [Hi Hf]. apply in_seq in Hi.
      apply Hfree. unfold f in Hf.
      assert (Hie : i < length (ga_entries (g_alloc a))) by lia.
      destruct (nth_error (ga_entries (g_alloc a)) i) as [e|] eqn:He; [|apply nth_error_None in He; lia].
      exists e; split; [reflexivity|]. specialize (Hag _ _ He). fold sl in Hag.
      destruct (nth_error sl i) as [[[g v]|]|]; [discriminate|assumption|contradiction].
    - apply NoDup_incl_length; [assumption|].
      intros i Hi. apply Hfree in Hi. destruct Hi as (e & He & Hd). apply filter_In. split.
      + assert (Hil : i < length sl) by (rewrite Hlen; apply nth_error_Some; congruence).
        apply in_seq. lia.
      + unfold f. specialize (Hag _ _ He). fold sl in Hag.
        destruct (nth_error sl i) as [[[g v]|]|]; [destruct Hag; congruence|reflexivity|contradiction]. }
  rewrite <- Hperm. clear Hperm.
  rewrite <- (seq_length (length sl) 0) at 1.
  generalize (seq 0 (length sl)). intros l. induction l as [|x r IH]; cbn; [reflexivity|].
  destruct (f x); cbn; lia.
Qed.

Theorem insert_grows_only_if_full {T} (a : garray T) v a' k :
  wf a -> g_insert a v = (a', k) -> g_size a' = if ga_free (g_alloc a) then S (g_size a) else g_size a.
Proof. intros Hwf Hins. destruct (insert_spec _ _ _ _ Hwf Hins) as (_ & _ & _ & _ & Hs & _). exact Hs. Qed.

Theorem erase_keeps_size {T} (a : garray T) k : wf a -> g_size (g_erase a k) = g_size a.
Proof. intros Hwf. destruct (erase_spec _ k Hwf) as (_ & _ & Hs & _). exact Hs. Qed.
