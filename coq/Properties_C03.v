(* C03 - Property change protocol: silent on equal; about-to-change, then changed, once.
   Two models: coq/PropDefs.v (Property::setHelper = set_helper) is the network model (observers that act, bindings, moves),
   its value type is Z with Z.eqb as equality; coq/PropEq.v is one property under an ARBITRARY equality relation eqv
   (operator==, a user-specialised equal_to, 'never equal', non-reflexive relations such as NaN), run against Property<T> for
   five element types by harness/eq_harness.cpp. *)
From Coq Require Import List ZArith.
Import ListNotations.
From KDB Require Import Util PropDefs PropProofs.
From KDB Require PropEq PropEqProofs PropSim PropNotify.

Theorem C03_equal_is_silent :
  forall fn rtl f w p pr, lookup (w_props w) p = Some pr -> set_helper fn rtl (S f) w p (pr_value pr) = (w, None).
Proof. exact set_equal_is_silent. Qed.
Print Assumptions C03_equal_is_silent.

(* any other value: every about-to-change observer is told (old, new) while get() = old, then the value is stored,
   then every changed observer is told (new) while get() = new; each once, in subscription order; nothing else changes *)
Theorem C03_protocol :
  forall fn rtl f w p v pr,
    lookup (w_props w) p = Some pr -> v <> pr_value pr ->
    table_ok w (pr_about pr) -> table_ok w (pr_changed pr) ->
    exists w', set_helper fn rtl (S f) w p v = (w', None) /\
      w_trace w' = rev (map (fun label => EvNotify label KChanged [v] (Some v)) (all_labels w (pr_changed pr)))
                   ++ rev (map (fun label => EvNotify label KAbout [pr_value pr; v] (Some (pr_value pr))) (all_labels w (pr_about pr)))
                   ++ w_trace w /\
      lookup (w_props w') p = Some (prop_set_value pr v) /\
      (forall q, q <> p -> lookup (w_props w') q = lookup (w_props w) q) /\
      w_tables w' = w_tables w /\ w_binds w' = w_binds w.
Proof. exact set_protocol. Qed.
Print Assumptions C03_protocol.

(* the same protocol when evaluator-driven bindings READ the property (coq/PropNotify.v): their nodes are only marked and nothing is
   recorded for them; observers do not act, every live binding is evaluator-driven *)
Theorem C03_protocol_with_evaluator_driven_readers :
  forall fn rtl f w p v pr w',
    PropSim.NOACT w -> PropNotify.lazyw w -> lookup (w_props w) p = Some pr -> v <> pr_value pr ->
    set_helper fn rtl (S f) w p v = (w', None) ->
    w_trace w' = rev (map (fun label => EvNotify label KChanged [v] (Some v)) (all_labels w (pr_changed pr)))
                 ++ rev (map (fun label => EvNotify label KAbout [pr_value pr; v] (Some (pr_value pr))) (all_labels w (pr_about pr)))
                 ++ w_trace w /\
    lookup (w_props w') p = Some (prop_set_value pr v) /\ (forall q, q <> p -> lookup (w_props w') q = lookup (w_props w) q).
Proof. exact PropNotify.lazy_set_protocol. Qed.
Print Assumptions C03_protocol_with_evaluator_driven_readers.

(* set(), operator= and operator>> are the same call; a binding writes through the same setHelper (definition of
   binding_evaluate) *)
Theorem C03_write_paths_agree :
  forall fn rtl fuel w p v path1 path2, step1 fn rtl fuel w (PSet p v path1) = step1 fn rtl fuel w (PSet p v path2).
Proof. exact write_paths_agree. Qed.
Print Assumptions C03_write_paths_agree.

(* non-vacuity: two observers of each kind, a run of equal values *)
Example C03_example :
  let ops := [PNew 0 5%Z; PObserve 0 KAbout 100 0 None; PObserve 0 KChanged 101 1 None; PSet 0 5%Z WSet; PSet 0 7%Z WStream; PSet 0 7%Z WAssign] in
  w_trace (run (fun _ _ => None) true 5 ops) =
    [EvDone None; EvDone None; EvNotify 101 KChanged [7%Z] (Some 7%Z); EvNotify 100 KAbout [5%Z; 7%Z] (Some 5%Z);
     EvDone None; EvDone None; EvDone None; EvDone None].
Proof. vm_compute. reflexivity. Qed.

(* ---- every equality relation (PropEq.v) ---- *)

(* a value the relation deems equal to the current one changes nothing and notifies nobody *)
Theorem C03_any_equality_equal_is_silent :
  forall (V : Type) (eqv : V -> V -> bool) s v, eqv v (PropEq.e_cur s) = true -> PropEq.ewrite V eqv s v = (s, []).
Proof. exact PropEqProofs.write_equal_silent. Qed.
Print Assumptions C03_any_equality_equal_is_silent.

(* any other value: first every about-to-change observer (indices 0..na-1: each once, in subscription order) is told (old, new)
   while get() = old, then every changed observer (0..nc-1) is told (new) while get() = new; the value stored is the new one *)
Theorem C03_any_equality_protocol :
  forall (V : Type) (eqv : V -> V -> bool) s v, eqv v (PropEq.e_cur s) = false ->
    PropEq.ewrite V eqv s v =
      ({| PropEq.e_cur := v; PropEq.e_na := PropEq.e_na s; PropEq.e_nc := PropEq.e_nc s |},
       map (fun i => PropEq.EAbout i (PropEq.e_cur s) v (PropEq.e_cur s)) (seq 0 (PropEq.e_na s)) ++
       map (fun j => PropEq.EChanged j v v) (seq 0 (PropEq.e_nc s))).
Proof. exact PropEqProofs.write_protocol. Qed.
Print Assumptions C03_any_equality_protocol.

(* the write path does not matter, and writing the property's own value (p = p.get()) is an ordinary write *)
Theorem C03_any_equality_paths_agree :
  forall (V : Type) (eqv : V -> V -> bool) s p q v,
    PropEq.estep V eqv s (PropEq.EW p v) = PropEq.estep V eqv s (PropEq.EW q v) /\
    PropEq.estep V eqv s (PropEq.EWCur p) = PropEq.ewrite V eqv s (PropEq.e_cur s).
Proof. intros. split; reflexivity. Qed.
Print Assumptions C03_any_equality_paths_agree.

(* "consequently an observer that replays the changed notifications always holds the property's current value": for every
   equality relation, every sequence of writes (any path, any value, the property's own value) and later subscriptions *)
Theorem C03_replay_holds_current_value :
  forall (V : Type) (eqv : V -> V -> bool) ops s idx held s' ls,
    idx < PropEq.e_nc s -> held = PropEq.e_cur s -> PropEq.erun V eqv s ops = (s', ls) ->
    PropEq.replay V idx held ls = PropEq.e_cur s'.
Proof. exact PropEqProofs.replay_holds_current. Qed.
Print Assumptions C03_replay_holds_current_value.

(* 'never equal' (types without comparison, or an equal_to that says so): every write is announced to every observer *)
Theorem C03_never_equal_always_announces :
  forall f s v, f = PropEq.FNever \/ f = PropEq.FNoEq ->
    length (snd (PropEq.ewrite Z (PropEq.eqv_of f) s v)) = PropEq.e_na s + PropEq.e_nc s.
Proof. exact PropEqProofs.never_equal_always_announces. Qed.
Print Assumptions C03_never_equal_always_announces.

(* equal under the custom relation but not identical: silent; a NaN re-assigned to itself: announced *)
Theorem C03_custom_equal_silent :
  forall s v, (v mod 10 = PropEq.e_cur s mod 10)%Z -> PropEq.ewrite Z (PropEq.eqv_of PropEq.FMod) s v = (s, []).
Proof. exact PropEqProofs.custom_equal_silent. Qed.
Print Assumptions C03_custom_equal_silent.
Theorem C03_nan_self_assignment_announced :
  forall s, (PropEq.e_cur s < 0)%Z -> PropEq.e_nc s > 0 ->
    snd (PropEq.estep Z (PropEq.eqv_of PropEq.FNan) s (PropEq.EWCur 1)) <> [].
Proof. exact PropEqProofs.nan_self_assign_announces. Qed.
Print Assumptions C03_nan_self_assignment_announced.

Example C03_any_equality_example :
  PropEq.erun_f PropEq.FMod 12 1 1 [PropEq.EW 0 22%Z; PropEq.EW 1 13%Z; PropEq.EWCur 1] =
    ({| PropEq.e_cur := 13%Z; PropEq.e_na := 1; PropEq.e_nc := 1 |},
     [[]; [PropEq.EAbout 0 12%Z 13%Z 12%Z; PropEq.EChanged 0 13%Z 13%Z]; []]).
Proof. vm_compute. reflexivity. Qed.
