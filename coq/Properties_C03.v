(* C03 - Property change protocol: silent on equal; about-to-change, then changed, once.
   Model: coq/PropDefs.v (Property::setHelper = set_helper).  The model's value type is Z with Z.eqb as equality;
   a user-specialised equal_to and types without operator== are exercised by the harness only (see DESIGN.md). *)
From KDB Require Import Util PropDefs PropProofs.

Theorem C03_equal_is_silent :
  forall fn rtl f w p pr, lookup (w_props w) p = Some pr -> set_helper fn rtl (S f) w p (pr_value pr) = (w, None).
Proof. exact set_equal_is_silent. Qed.
Print Assumptions C03_equal_is_silent.

(* any other value: every about-to-change observer is told (old, new) while get() = old, then the value is stored,
   then every changed observer is told (new) while get() = new; each once, in subscription order; nothing else changes *)
Theorem C03_protocol :
  forall fn rtl f w p v pr,
    lookup (w_props w) p = Some pr -> v <> pr_value pr ->
    table_ok w (pr_about pr) -> table_ok w (pr_changed pr) ->
    exists w', set_helper fn rtl (S f) w p v = (w', None) /\
      w_trace w' = rev (map (fun label => EvNotify label KChanged [v] (Some v)) (all_labels w (pr_changed pr)))
                   ++ rev (map (fun label => EvNotify label KAbout [pr_value pr; v] (Some (pr_value pr))) (all_labels w (pr_about pr)))
                   ++ w_trace w /\
      lookup (w_props w') p = Some (prop_set_value pr v) /\
      (forall q, q <> p -> lookup (w_props w') q = lookup (w_props w) q) /\
      w_tables w' = w_tables w /\ w_binds w' = w_binds w.
Proof. exact set_protocol. Qed.
Print Assumptions C03_protocol.

(* set(), operator= and operator>> are the same call; a binding writes through the same setHelper (definition of
   binding_evaluate) *)
Theorem C03_write_paths_agree :
  forall fn rtl fuel w p v path1 path2, step1 fn rtl fuel w (PSet p v path1) = step1 fn rtl fuel w (PSet p v path2).
Proof. exact write_paths_agree. Qed.
Print Assumptions C03_write_paths_agree.

(* non-vacuity: two observers of each kind, a run of equal values *)
Example C03_example :
  let ops := [PNew 0 5%Z; PObserve 0 KAbout 100 0 None; PObserve 0 KChanged 101 1 None; PSet 0 5%Z WSet; PSet 0 7%Z WStream; PSet 0 7%Z WAssign] in
  w_trace (run (fun _ _ => None) true 5 ops) =
    [EvDone None; EvDone None; EvNotify 101 KChanged [7%Z] (Some 7%Z); EvNotify 100 KAbout [5%Z; 7%Z] (Some 5%Z);
     EvDone None; EvDone None; EvDone None; EvDone None].
Proof. vm_compute. reflexivity. Qed.
