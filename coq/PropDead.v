(* tables of destroyed signals stay dead: forward facts about kill_table, unsubscribe and destroy_binding, used for move assignment
   while writing observers exist (PropMove.moveassign_shape2, PropGrowAct2.grow_moveassign_b) *)
From Coq Require Import List Arith ZArith Lia Bool.
Import ListNotations.
From KDB Require Import Util UtilProofs PropDefs PropLink PropLinkBasics.

Definition deadt (w : world) (t : nat) : Prop := exists sl fr, tview w t = Some (sl, fr, false).

Lemma kill_table_fw w ot w1 : kill_table w ot = (w1, None) ->
  forall t sl fr al, tview w t = Some (sl, fr, al) ->
    exists sl' fr' al', tview w1 t = Some (sl', fr', al') /\ (ot = Some t -> al' = false) /\ (al = false -> al' = false).
Proof.
  unfold kill_table. intros H t sl fr al Hv.
  destruct ot as [t0|]; [|inversion H; subst; exists sl, fr, al; split; [exact Hv|split; [discriminate|auto]]].
  destruct (get_table w t0) as [tb|] eqn:Ht.
  - destruct (t_emitting tb); [discriminate H|]. inversion H; subst w1; clear H.
    rewrite tview_put_table. pose proof (get_table_lt _ _ _ Ht) as Hlt. apply Nat.ltb_lt in Hlt. rewrite Hlt.
    destruct (Nat.eqb_spec t0 t) as [<-|Hne].
    + eexists _, _, _. split; [reflexivity|]. split; reflexivity.
    + exists sl, fr, al. split; [exact Hv|]. split; [intros E; inversion E; contradiction|auto].
  - inversion H; subst w1. exists sl, fr, al. split; [exact Hv|]. split; [|auto].
    intros E; inversion E; subst t0. unfold tview in Hv. rewrite Ht in Hv. discriminate Hv.
Qed.

Lemma kill_table_dead w ot w1 t : kill_table w ot = (w1, None) -> deadt w t -> deadt w1 t.
Proof.
  intros K (sl & fr & E). destruct (kill_table_fw w ot w1 K t sl fr false E) as (sl' & fr' & al' & E' & _ & A).
  rewrite (A eq_refl) in E'. exists sl', fr'. exact E'.
Qed.

Lemma kill_table_kills w t w1 : kill_table w (Some t) = (w1, None) -> tview w t <> None -> deadt w1 t.
Proof.
  intros K Hn. destruct (tview w t) as [[[sl fr] al]|] eqn:E; [|contradiction].
  destruct (kill_table_fw w (Some t) w1 K t sl fr al E) as (sl' & fr' & al' & E' & A & _).
  rewrite (A eq_refl) in E'. exists sl', fr'. exact E'.
Qed.

Lemma kill_table_exists w ot w1 t : kill_table w ot = (w1, None) -> tview w t <> None -> tview w1 t <> None.
Proof.
  intros K Hn. destruct (tview w t) as [[[sl fr] al]|] eqn:E; [|contradiction].
  destruct (kill_table_fw w ot w1 K t sl fr al E) as (sl' & fr' & al' & E' & _). rewrite E'. discriminate.
Qed.

Lemma unsubscribe_dead w h t : deadt w t -> deadt (fst (unsubscribe w h)) t.
Proof.
  intros (sl & fr & E). unfold unsubscribe.
  destruct (get_table w (h_table h)) as [tb|] eqn:Ht; [|exists sl, fr; exact E].
  destruct (negb (t_alive tb)) eqn:Ea; [exists sl, fr; exact E|].
  destruct (nth_error (t_slots tb) (h_pos h)) as [[[ser s]|]|]; try (exists sl, fr; exact E).
  destruct (Nat.eqb ser (h_serial h)); [|exists sl, fr; exact E].
  destruct (t_emitting tb); [exists sl, fr; exact E|]. cbn [fst ok].
  exists sl, fr. rewrite tview_put_table. destruct (Nat.eqb_spec (h_table h) t) as [Eq|]; [|exact E].
  exfalso. subst t. unfold tview in E. rewrite Ht in E. inversion E as [[E1 E2 E3]]. rewrite E3 in Ea. discriminate Ea.
Qed.

Lemma unsubscribe_all_dead t : forall hs w, deadt w t -> deadt (fst (unsubscribe_all w hs)) t.
Proof.
  induction hs as [|h r IH]; intros w D; cbn [unsubscribe_all]; [exact D|].
  pose proof (unsubscribe_dead w h t D) as D1. destruct (unsubscribe w h) as [w1 [e|]]; cbn [fst] in *; [exact D1|apply IH; exact D1].
Qed.

Lemma destroy_binding_dead w b t : deadt w t -> deadt (fst (destroy_binding w b)) t.
Proof.
  intros D. unfold destroy_binding. destruct (get_bind w b) as [x|]; [|exact D].
  apply unsubscribe_all_dead. destruct D as (sl & fr & E). exists sl, fr.
  destruct (nth_error (w_evps w) (b_evp x)); exact E.
Qed.
