(* General lemmas that lift boolean checks over the regenerated tables to semantic statements (C14, C18, C20, C17). *)
From KDB Require Import TablesDefs.
From Coq Require Import Lia ZArith.
Local Open Scope string_scope.

(* ---------------------------------------------------------------------------------------------- *)
(* C14: wiring of one operator overload.
   The node built by the overload evaluates its children (the makeNode arguments, in that order) and applies the
   lambda to their values; the lambda applies oe_body_op to its parameters in the order oe_body_args. *)
Section Ops.
  Variable V : Type.
  Variable dflt : V.
  Variable cop : string -> list V -> V.     (* ANY interpretation of the C++ operators *)

  Definition sem (e : opentry) (operands : list V) : V :=
    let children := map (fun i => nth i operands dflt) (oe_node_args e) in
    cop (oe_body_op e) (map (fun i => nth i children dflt) (oe_body_args e)).

  Definition ids (n : nat) : list nat := seq 0 n.

  Definition entry_ok (e : opentry) : bool :=
    let n := List.length (oe_kinds e) in
    String.eqb (oe_body_op e) (oe_op e) &&
    list_eqb Nat.eqb (oe_body_args e) (ids n) &&
    list_eqb Nat.eqb (oe_node_args e) (ids n) &&
    String.eqb (oe_ret_op e) (oe_op e) &&
    list_eqb Nat.eqb (oe_ret_args e) (ids n) &&
    list_eqb oacc_eqb (oe_ret_acc e) (map acc_of (oe_kinds e)).

  Lemma list_eqb_nat_eq l1 l2 : list_eqb Nat.eqb l1 l2 = true -> l1 = l2.
  Proof.
    revert l2; induction l1 as [|x r IH]; intros [|y s]; cbn; try discriminate; auto.
    rewrite andb_true_iff, Nat.eqb_eq. intros [-> H]. f_equal; auto.
  Qed.

  Lemma map_nth_ids (l : list V) : map (fun i => nth i l dflt) (ids (List.length l)) = l.
  Proof.
    unfold ids. induction l as [|x r IH]; [reflexivity|].
    cbn [List.length seq map nth]. f_equal. rewrite <- seq_shift, map_map. exact IH.
  Qed.

  (* a checked entry computes exactly OP applied to the operands in source order, and its declared result type is
     the type of that same expression (operator, operand order and accessors) *)
  Theorem entry_ok_sound e operands :
    entry_ok e = true -> List.length operands = List.length (oe_kinds e) ->
    sem e operands = cop (oe_op e) operands /\
    oe_ret_op e = oe_op e /\ oe_ret_args e = ids (List.length (oe_kinds e)) /\
    list_eqb oacc_eqb (oe_ret_acc e) (map acc_of (oe_kinds e)) = true.
  Proof.
    unfold entry_ok. rewrite !andb_true_iff. intros [[[[[H1 H2] H3] H4] H5] H6] Hlen.
    apply String.eqb_eq in H1. apply String.eqb_eq in H4.
    apply list_eqb_nat_eq in H2. apply list_eqb_nat_eq in H3. apply list_eqb_nat_eq in H5.
    repeat split; auto.
    unfold sem. rewrite H1, H2, H3, <- Hlen. rewrite map_nth_ids.
    replace (List.length operands) with (List.length operands) by reflexivity.
    rewrite map_nth_ids. reflexivity.
  Qed.
End Ops.

(* completeness: every operator of the list has one overload per operand-kind combination and nothing else *)
Definition unary_ops : list string := ["!"; "~"; "+"; "-"].
Definition binary_ops : list string := ["*"; "/"; "%"; "+"; "-"; "<<"; ">>"; "<"; "<="; ">"; ">="; "=="; "!="; "&"; "^"; "|"; "&&"; "||"].
Definition unary_kinds : list (list okind) := [[KP]; [KN]].
Definition binary_kinds : list (list okind) := [[KP; KV]; [KV; KP]; [KP; KP]; [KN; KV]; [KV; KN]; [KN; KN]; [KP; KN]; [KN; KP]].

Definition count_entries (t : list opentry) (op : string) (ks : list okind) : nat :=
  List.length (filter (fun e => String.eqb (oe_op e) op && list_eqb okind_eqb (oe_kinds e) ks) t).

Definition table_complete (t : list opentry) : bool :=
  forallb (fun op => forallb (fun ks => Nat.eqb (count_entries t op ks) 1) unary_kinds) unary_ops &&
  forallb (fun op => forallb (fun ks => Nat.eqb (count_entries t op ks) 1) binary_kinds) binary_ops &&
  Nat.eqb (List.length t) (List.length unary_ops * List.length unary_kinds + List.length binary_ops * List.length binary_kinds).
