(* General lemmas that lift boolean checks over the regenerated tables to semantic statements (C14, C18, C20, C17). *)
From KDB Require Import TablesDefs.
From Coq Require Import Lia ZArith.
Local Open Scope string_scope.

(* ---------------------------------------------------------------------------------------------- *)
(* C14: wiring of one operator overload.
   The node built by the overload evaluates its children (the makeNode arguments, in that order) and applies the
   lambda to their values; the lambda applies oe_body_op to its parameters in the order oe_body_args. *)
Section Ops.
  Variable V : Type.
  Variable dflt : V.
  Variable cop : string -> list V -> V.     (* ANY interpretation of the C++ operators *)

  Definition sem (e : opentry) (operands : list V) : V :=
    let children := map (fun i => nth i operands dflt) (oe_node_args e) in
    cop (oe_body_op e) (map (fun i => nth i children dflt) (oe_body_args e)).

  Definition ids (n : nat) : list nat := seq 0 n.

  Definition entry_ok (e : opentry) : bool :=
    let n := List.length (oe_kinds e) in
    String.eqb (oe_body_op e) (oe_op e) &&
    list_eqb Nat.eqb (oe_body_args e) (ids n) &&
    list_eqb Nat.eqb (oe_node_args e) (ids n) &&
    String.eqb (oe_ret_op e) (oe_op e) &&
    list_eqb Nat.eqb (oe_ret_args e) (ids n) &&
    list_eqb oacc_eqb (oe_ret_acc e) (map acc_of (oe_kinds e)).

  Lemma list_eqb_nat_eq l1 l2 : list_eqb Nat.eqb l1 l2 = true -> l1 = l2.
  Proof.
    revert l2; induction l1 as [|x r IH]; intros [|y s]; cbn; try discriminate; auto.
    rewrite andb_true_iff, Nat.eqb_eq. intros [-> H]. f_equal; auto.
  Qed.

  Lemma map_nth_ids (l : list V) : map (fun i => nth i l dflt) (ids (List.length l)) = l.
  Proof.
    unfold ids. induction l as [|x r IH]; [reflexivity|].
    cbn [List.length seq map nth]. f_equal. rewrite <- seq_shift, map_map. exact IH.
  Qed.

  (* a checked entry computes exactly OP applied to the operands in source order, and its declared result type is
     the type of that same expression (operator, operand order and accessors) *)
  Theorem entry_ok_sound e operands :
    entry_ok e = true -> List.length operands = List.length (oe_kinds e) ->
    sem e operands = cop (oe_op e) operands /\
    oe_ret_op e = oe_op e /\ oe_ret_args e = ids (List.length (oe_kinds e)) /\
    list_eqb oacc_eqb (oe_ret_acc e) (map acc_of (oe_kinds e)) = true.
  Proof.
    unfold entry_ok. rewrite !andb_true_iff. intros [[[[[H1 H2] H3] H4] H5] H6] Hlen.
    apply String.eqb_eq in H1. apply String.eqb_eq in H4.
    apply list_eqb_nat_eq in H2. apply list_eqb_nat_eq in H3. apply list_eqb_nat_eq in H5.
    repeat split; auto.
    unfold sem. rewrite H1, H2, H3, <- Hlen. rewrite map_nth_ids.
    replace (List.length operands) with (List.length operands) by reflexivity.
    rewrite map_nth_ids. reflexivity.
  Qed.
End Ops.

(* completeness: every operator of the list has one overload per operand-kind combination and nothing else *)
Definition unary_ops : list string := ["!"; "~"; "+"; "-"].
Definition binary_ops : list string := ["*"; "/"; "%"; "+"; "-"; "<<"; ">>"; "<"; "<="; ">"; ">="; "=="; "!="; "&"; "^"; "|"; "&&"; "||"].
Definition unary_kinds : list (list okind) := [[KP]; [KN]].
Definition binary_kinds : list (list okind) := [[KP; KV]; [KV; KP]; [KP; KP]; [KN; KV]; [KV; KN]; [KN; KN]; [KP; KN]; [KN; KP]].

Definition count_entries (t : list opentry) (op : string) (ks : list okind) : nat :=
  List.length (filter (fun e => String.eqb (oe_op e) op && list_eqb okind_eqb (oe_kinds e) ks) t).

Definition table_complete (t : list opentry) : bool :=
  forallb (fun op => forallb (fun ks => Nat.eqb (count_entries t op ks) 1) unary_kinds) unary_ops &&
  forallb (fun op => forallb (fun ks => Nat.eqb (count_entries t op ks) 1) binary_kinds) binary_ops &&
  Nat.eqb (List.length t) (List.length unary_ops * List.length unary_kinds + List.length binary_ops * List.length binary_kinds).

(* ---------------------------------------------------------------------------------------------- *)
(* C18: arity table and the bind_first law *)
Definition member_quals : list string :=
  let cv := [""; "const"; "volatile"; "const volatile"] in
  let rf := [""; "&"; "&&"] in
  let ne := [""; "noexcept"] in
  flat_map (fun n => flat_map (fun r => map (fun c =>
     let parts := filter (fun s => negb (String.eqb s "")) [c; r; n] in
     String.concat " " parts) cv) rf) ne.

Definition has_entry (t : list arity_entry) (k q : string) (f : aform) : bool :=
  Nat.eqb (List.length (filter (fun e => String.eqb (ar_kind e) k && String.eqb (ar_quals e) q) t)) 1 &&
  forallb (fun e => if String.eqb (ar_kind e) k && String.eqb (ar_quals e) q then aform_eqb (ar_formula e) f else true) t.

Definition arity_complete (t : list arity_entry) : bool :=
  forallb (fun q => has_entry t "member" q FN1) member_quals &&
  has_entry t "fnptr" "" FN && has_entry t "fnptr" "noexcept" FN &&
  has_entry t "generic" "" FCallOpMinus1 &&
  Nat.eqb (List.length t) (List.length member_quals + 3).

(* std::bind as assumed from the standard: bound values are passed as they are, placeholder _n is replaced by the
   n-th call argument *)
Section Bind.
  Local Open Scope list_scope.
  Variable V : Type.
  Variable dflt : V.
  Inductive barg := BVal (v : V) | BPh (n : nat).
  Definition resolve (emitted : list V) (a : barg) : V :=
    match a with BVal v => v | BPh n => nth (n - 1) emitted dflt end.
  (* what bind_first builds: the bound values, then placeholders Is + offset for Is < arity - |bound| *)
  Definition bind_first_args (offset arity : nat) (bound : list V) : list barg :=
    map BVal bound ++ map (fun i => BPh (i + offset)) (seq 0 (arity - List.length bound)).

  Lemma firstn_as_map (l : list V) : forall k, k <= List.length l -> map (fun i => nth i l dflt) (seq 0 k) = firstn k l.
  Proof.
    induction l as [|x r IH]; intros [|k] Hk; cbn in *; try reflexivity; try lia.
    f_equal. rewrite <- seq_shift, map_map. apply IH. lia.
  Qed.

  (* the callable receives the bound values followed by exactly the first (arity - |bound|) emitted values, in order *)
  Theorem bind_first_law arity bound emitted :
    arity - List.length bound <= List.length emitted ->
    map (resolve emitted) (bind_first_args 1 arity bound) = bound ++ firstn (arity - List.length bound) emitted.
  Proof.
    intros H. unfold bind_first_args. rewrite map_app, !map_map. f_equal.
    - cbn [resolve]. apply map_id.
    - cbn [resolve]. rewrite <- firstn_as_map by exact H. apply map_ext. intros i. f_equal. lia.
  Qed.
End Bind.

(* ---------------------------------------------------------------------------------------------- *)
(* C20: value categories along the forwarding chains.
   A caller's l-value reaches a library function through an l-value reference or a forwarding reference.  It is
   altered only if it is turned into an r-value (std::move) AND the r-value then initialises an object (by-value or
   r-value-reference sink).  std::forward preserves the category; a const-reference sink copies. *)
Definition pkind_caller_lvalue (k : pkind) : bool :=
  match k with PForwarding | PLvalueRef => true | PConstRef | PRvalueRef => false end.

Definition site_harmless (s : fwd_site) : bool :=
  if negb (pkind_caller_lvalue (fs_pkind s)) then true       (* const& cannot be moved from; && was given away by the caller *)
  else match fs_how s with
       | HForward => true
       | HMove => match fs_sink s with SConstRef => true | _ => false end
       end.

(* the three possible fates of an argument, and when the caller's object is altered *)
Inductive category := LValue | RValue.
Definition after (h : fhow) (c : category) : category := match h with HForward => c | HMove => RValue end.
Definition steals (c : category) (sink : fsink) : bool :=
  match c, sink with
  | RValue, (SByValue | SRvalueRef | SUnknown | SNone) => true
  | _, _ => false
  end.

Theorem site_harmless_sound s :
  site_harmless s = true -> pkind_caller_lvalue (fs_pkind s) = true ->
  steals (after (fs_how s) LValue) (fs_sink s) = false.
Proof.
  unfold site_harmless. intros H Hk. rewrite Hk in H. cbn [negb] in H.
  destruct (fs_how s); cbn [after]; [|reflexivity].
  destruct (fs_sink s); cbn [steals]; congruence.
Qed.

(* ---------------------------------------------------------------------------------------------- *)
(* C17: thread confinement.
   The footprint discipline: a call made by thread t reads and writes only the objects t owns (reached from objects t
   created - covered by the sequential models) plus the library's variables of static storage duration.  If every such
   variable is thread-local or immutable, a thread's component evolves under every interleaving exactly as it would
   alone, and two threads never touch a common mutable cell. *)
Definition static_confined (s : static_var) : bool := sv_thread_local s || sv_const s.

Section Confine.
  Variable S : Type.            (* everything thread-owned, including that thread's thread_local statics *)
  Variable E : Type.            (* the immutable statics *)
  Variable stp : E -> nat -> S -> S.     (* one library call of a thread (the nat names the call) *)

  Definition cstate := nat -> S.
  Definition cstep (env : E) (st : cstate) (ev : nat * nat) : cstate :=
    fun t => if Nat.eqb t (fst ev) then stp env (snd ev) (st t) else st t.
  Definition crun (env : E) (st : cstate) (sched : list (nat * nat)) : cstate := fold_left (cstep env) sched st.

  (* the calls of thread t in a schedule, in order *)
  Definition calls_of (t : nat) (sched : list (nat * nat)) : list nat :=
    map snd (filter (fun ev => Nat.eqb t (fst ev)) sched).

  Theorem confined_projection env sched : forall st t,
    crun env st sched t = fold_left (fun s c => stp env c s) (calls_of t sched) (st t).
  Proof.
    induction sched as [|[u c] r IH]; intros st t; [reflexivity|].
    unfold crun in *. cbn [fold_left]. rewrite IH. unfold calls_of. cbn [filter fst snd]. unfold cstep at 1. cbn [fst snd].
    destruct (Nat.eqb t u); reflexivity.
  Qed.

  (* consequence: any two interleavings of the same per-thread call sequences give every thread the same result *)
  Corollary schedule_independent env st s1 s2 t :
    calls_of t s1 = calls_of t s2 -> crun env st s1 t = crun env st s2 t.
  Proof. intros H. rewrite !confined_projection, H. reflexivity. Qed.
End Confine.
