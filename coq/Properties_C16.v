(* C16 - Library-raised errors never leave objects permanently damaged (signal layer).
   The model's calls end with `Some e` when the library raises; the theorems below hold whatever the outcome. *)
From KDB Require Import Util GenIdx GenIdxProofs SigDefs SigInv SigTheorems.

(* after EVERY top-level call - including calls that ended in out_of_range, "already emitting", "evaluator gone",
   also when raised from inside nested emissions / evaluation passes - no Impl is left emitting, no evaluator
   evaluating, no disconnect pending *)
Theorem C16_healthy_after_any_call :
  forall tbl pass_fuel fuel w o, winv w -> healthy w -> healthy (step tbl pass_fuel fuel w o).
Proof. exact healthy_after_any_step. Qed.
Print Assumptions C16_healthy_after_any_call.

Theorem C16_healthy_reachable :
  forall tbl pass_fuel fuel ops, healthy (run tbl pass_fuel fuel ops).
Proof. exact run_healthy. Qed.
Print Assumptions C16_healthy_reachable.

Theorem C16_no_pending_disconnects :
  forall tbl pass_fuel fuel ops i m k c,
    get_impl (run tbl pass_fuel fuel ops) i = Some m -> g_get (i_conns m) k = Some c -> c_tbd c = false.
Proof. exact no_pending_disconnects. Qed.
Print Assumptions C16_no_pending_disconnects.

(* the structural invariant (well-formed tables, duplicate-free id history) also survives every failing call *)
Theorem C16_invariant_reachable :
  forall tbl pass_fuel fuel ops, winv (run tbl pass_fuel fuel ops).
Proof. exact run_winv. Qed.
Print Assumptions C16_invariant_reachable.

(* non-vacuity: a history in which an emission towards a dead evaluator raises, from inside a slot-triggered nesting *)
Example C16_failing_history :
  let tbl := fun sid => match sid with 1 => [OEmit 1 [5%Z]] | _ => [] end in
  let w := run tbl 8 4 [OSigNew 0 1; OSigNew 1 1; OEvNew 0; OConnectD 1 0 100 0 0; OEvDrop 0;
                        OConnect 0 1 101 1 [] 1; OEmit 0 [7%Z]] in
  hd (EvDone None) (w_trace w) = EvDone (Some ExEvaluatorGone).
Proof. vm_compute. reflexivity. Qed.
