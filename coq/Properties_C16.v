(* C16 - Library-raised errors never leave objects permanently damaged (signal layer; the property layer at the end).
   The model's calls end with `Some e` when the library raises; the theorems below hold whatever the outcome. *)
From Coq Require Import List ZArith.
Import ListNotations.
From KDB Require Import Util GenIdx GenIdxProofs SigDefs SigInv SigTheorems.
From KDB Require PropDefs PropFlags PropLink PropLinkTheorems.

(* after EVERY top-level call - including calls that ended in out_of_range, "already emitting", "evaluator gone",
   also when raised from inside nested emissions / evaluation passes - no Impl is left emitting, no evaluator
   evaluating, no disconnect pending *)
Theorem C16_healthy_after_any_call :
  forall tbl pass_fuel fuel w o, winv w -> healthy w -> healthy (step tbl pass_fuel fuel w o).
Proof. exact healthy_after_any_step. Qed.
Print Assumptions C16_healthy_after_any_call.

Theorem C16_healthy_reachable :
  forall tbl pass_fuel fuel ops, healthy (run tbl pass_fuel fuel ops).
Proof. exact run_healthy. Qed.
Print Assumptions C16_healthy_reachable.

Theorem C16_no_pending_disconnects :
  forall tbl pass_fuel fuel ops i m k c,
    get_impl (run tbl pass_fuel fuel ops) i = Some m -> g_get (i_conns m) k = Some c -> c_tbd c = false.
Proof. exact no_pending_disconnects. Qed.
Print Assumptions C16_no_pending_disconnects.

(* the structural invariant (well-formed tables, duplicate-free id history) also survives every failing call *)
Theorem C16_invariant_reachable :
  forall tbl pass_fuel fuel ops, winv (run tbl pass_fuel fuel ops).
Proof. exact run_winv. Qed.
Print Assumptions C16_invariant_reachable.

(* non-vacuity: a history in which an emission towards a dead evaluator raises, from inside a slot-triggered nesting *)
Example C16_failing_history :
  let tbl := fun sid => match sid with 1 => [OEmit 1 [5%Z]] | _ => [] end in
  let w := run tbl 8 4 [OSigNew 0 1; OSigNew 1 1; OEvNew 0; OConnectD 1 0 100 0 0; OEvDrop 0;
                        OConnect 0 1 101 1 [] 1; OEmit 0 [7%Z]] in
  hd (EvDone None) (w_trace w) = EvDone (Some ExEvaluatorGone).
Proof. vm_compute. reflexivity. Qed.

(* ---- property layer (coq/PropDefs.v) ---- *)
(* whatever a top-level call on properties / bindings answers - normally, or ReadOnlyProperty, PropertyDestroyedError, "already
   emitting", an exception thrown by a user function (okx: anything but the model's own "not a legal script / not modelled / out
   of fuel") - the link structure of the world is intact afterwards: every leaf of a live binding refers to an existing property
   and is subscribed to exactly its signals, every subscription belongs to a live object, updater and target are mutual
   (pinv; observers may write or reset other properties, any expression, both evaluation orders) *)
Theorem C16_property_links_survive_every_library_exception :
  forall fn rtl fuel w o w' e,
    PropLink.pinv w -> PropFlags.NOEMIT w -> PropDefs.step1 fn rtl fuel w o = (w', e) -> PropLink.okx e -> PropLink.pinv w'.
Proof. exact PropLinkTheorems.step1_pinv. Qed.
Print Assumptions C16_property_links_survive_every_library_exception.

(* ... and no signal of any property is left in the middle of an emission, however the call ended: the next assignment or
   emission is not answered with "already emitting" because of an earlier failure *)
Theorem C16_no_property_signal_left_emitting :
  forall fn rtl fuel w o, PropFlags.NOEMIT w -> PropFlags.NOEMIT (PropDefs.step fn rtl fuel w o).
Proof. exact PropFlags.step_noemit. Qed.
Print Assumptions C16_no_property_signal_left_emitting.

(* in every world reached by a history whose calls are legal scripts (failing ones included) both hold *)
Theorem C16_property_layer_healthy_reachable :
  forall fn rtl fuel ops, PropLinkTheorems.run_ok fn rtl fuel PropDefs.world0 ops ->
    PropLink.pinv (PropDefs.run fn rtl fuel ops) /\ PropFlags.NOEMIT (PropDefs.run fn rtl fuel ops).
Proof. intros fn rtl fuel ops H. exact (PropLinkTheorems.run_pinv fn rtl fuel ops PropDefs.world0 PropLinkTheorems.pinv_world0 PropLinkTheorems.noemit_world0 H). Qed.
Print Assumptions C16_property_layer_healthy_reachable.

(* non-vacuity: a write to a bound property fails with ReadOnlyProperty; after reset() the same write succeeds and is seen *)
Example C16_property_example :
  let fn := fun (f : nat) (l : list Z) => Some (fold_right Z.add 0%Z l) in
  let ops := [PropDefs.PNew 0 1%Z; PropDefs.PBind 1 (PropDefs.EOp1 0 (PropDefs.EProp 0)) PropDefs.MImmediate;
              PropDefs.PSet 1 9%Z PropDefs.WSet; PropDefs.PReset 1; PropDefs.PSet 1 9%Z PropDefs.WSet; PropDefs.PGet 1] in
  PropLinkTheorems.run_ok fn true 8 PropDefs.world0 ops /\
  map (fun e => match e with PropDefs.EvDone x => x | _ => None end)
      (filter (fun e => match e with PropDefs.EvDone _ => true | _ => false end) (PropDefs.w_trace (PropDefs.run fn true 8 ops)))
    = [None; None; None; Some PropDefs.PxReadOnly; None; None] /\
  nth_error (PropDefs.w_trace (PropDefs.run fn true 8 ops)) 1 = Some (PropDefs.EvVal (Some 9%Z)).
Proof. vm_compute. repeat split; reflexivity. Qed.
