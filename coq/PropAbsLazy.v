(* Abstract model of evaluator-driven (lazy) bindings: a change notification only marks (Dirtyable::markDirty with early return);
   BindingEvaluator::evaluateAll evaluates the registered bindings in creation order, each evaluation re-computing exactly the
   dirty part of its tree, assigning the result (Property::setHelper with equality suppression) and thereby marking the readers of
   the assigned property.  Proof-only abstraction of coq/PropDefs.v; trees, marking and evaluation are those of coq/PropAbs.v. *)
From Coq Require Import List Arith ZArith Lia Bool.
Import ListNotations.
From KDB Require Import PropAbs PropAbsProofs.

Section Lazy.
Variable F1 : nat -> Z -> Z.
Variable F2 : nat -> Z -> Z -> Z.
Variable F3 : nat -> Z -> Z -> Z -> Z.
Variable order : nat -> list (nat * nat).   (* readers of p: (bound property, leaf id), in delivery order *)

Notation den := (den F1 F2 F3).
Notation eval := (eval F1 F2 F3).

Record lstate := { lenv : nat -> Z; ltr : nat -> option tree }.

Definition mark_one (s : lstate) (qi : nat * nat) : lstate :=
  match ltr s (fst qi) with
  | Some t => {| lenv := lenv s; ltr := PropAbs.set_tr (ltr s) (fst qi) (fst (mark t (snd qi))) |}
  | None => s
  end.
Definition mark_all (s : lstate) (subs : list (nat * nat)) : lstate := fold_left mark_one subs s.

(* Property::setHelper of p: equal value = nothing; otherwise store and notify the readers (which only mark) *)
Definition lset (s : lstate) (p : nat) (v : Z) : lstate :=
  if Z.eqb v (lenv s p) then s else mark_all {| lenv := set_env (lenv s) p v; ltr := ltr s |} (order p).

(* Binding::evaluate of the binding that updates q *)
Definition eval_one (s : lstate) (q : nat) : lstate :=
  match ltr s q with
  | None => s
  | Some t => let '(t2, v) := eval (lenv s) t in lset {| lenv := lenv s; ltr := PropAbs.set_tr (ltr s) q t2 |} q v
  end.

(* BindingEvaluator::evaluateAll over the registered bindings in creation order *)
Definition eval_all (regs : list nat) (s : lstate) : lstate := fold_left eval_one regs s.

(* ---- dirty flags are sound: a clean operator node has clean children and caches what it would compute from them ---- *)
Fixpoint sound (e : nat -> Z) (t : tree) : Prop :=
  match t with
  | Const _ | Leaf _ _ _ => True
  | Un f d c k => sound e k /\ (d = false -> clean k /\ c = F1 f (val e k))
  | Bin f d c k1 k2 => sound e k1 /\ sound e k2 /\ (d = false -> clean k1 /\ clean k2 /\ c = F2 f (val e k1) (val e k2))
  | Tern f d c k1 k2 k3 => sound e k1 /\ sound e k2 /\ sound e k3 /\
                           (d = false -> clean k1 /\ clean k2 /\ clean k3 /\ c = F3 f (val e k1) (val e k2) (val e k3))
  end.

(* every leaf labelled p is dirty *)
Fixpoint pdirty (p : nat) (t : tree) : Prop :=
  match t with
  | Const _ => True
  | Leaf p' _ d => p' = p -> d = true
  | Un _ _ _ k => pdirty p k
  | Bin _ _ _ k1 k2 => pdirty p k1 /\ pdirty p k2
  | Tern _ _ _ k1 k2 k3 => pdirty p k1 /\ pdirty p k2 /\ pdirty p k3
  end.

Lemma clean_sound_den e t : clean t -> sound e t -> val e t = den e t.
Proof.
  induction t as [z|p i d|f d c k IH|f d c k1 IH1 k2 IH2|f d c k1 IH1 k2 IH2 k3 IH3]; cbn; auto.
  - intros (-> & Ck) (Sk & H). destruct (H eq_refl) as (_ & ->). rewrite IH; auto.
  - intros (-> & C1 & C2) (S1 & S2 & H). destruct (H eq_refl) as (_ & _ & ->). rewrite IH1, IH2; auto.
  - intros (-> & C1 & C2 & C3) (S1 & S2 & S3 & H). destruct (H eq_refl) as (_ & _ & _ & ->). rewrite IH1, IH2, IH3; auto.
Qed.

(* a clean tree none of whose leaves is labelled p (all p-leaves are dirty, none is dirty) does not depend on p *)
Lemma clean_pdirty_val e p v t : clean t -> pdirty p t -> val (set_env e p v) t = val e t.
Proof.
  destruct t as [z|p' i d|f d c k|f d c k1 k2|f d c k1 k2 k3]; cbn; auto.
  intros -> H. unfold set_env. destruct (Nat.eqb_spec p' p) as [E|]; [specialize (H E); discriminate H|reflexivity].
Qed.

Lemma sound_env_change e p v t : sound e t -> pdirty p t -> sound (set_env e p v) t.
Proof.
  induction t as [z|p' i d|f d c k IH|f d c k1 IH1 k2 IH2|f d c k1 IH1 k2 IH2 k3 IH3]; cbn; auto.
  - intros (Sk & H) Pk. split; [auto|]. intros Hd. destruct (H Hd) as (Ck & ->). split; [exact Ck|]. rewrite clean_pdirty_val; auto.
  - intros (S1 & S2 & H) (P1 & P2). split; [auto|split; [auto|]]. intros Hd. destruct (H Hd) as (C1 & C2 & ->). repeat split; auto.
    rewrite !clean_pdirty_val; auto.
  - intros (S1 & S2 & S3 & H) (P1 & P2 & P3). split; [auto|split; [auto|split; [auto|]]]. intros Hd. destruct (H Hd) as (C1 & C2 & C3 & ->).
    repeat split; auto. rewrite !clean_pdirty_val; auto.
Qed.

(* evaluation: everything clean afterwards, caches right, result = denotation *)
Lemma eval_sound e t : sound e t -> let '(t2, v) := eval e t in clean t2 /\ sound e t2 /\ v = val e t2 /\ leaves t2 = leaves t.
Proof.
  induction t as [z|p i d|f d c k IH|f d c k1 IH1 k2 IH2|f d c k1 IH1 k2 IH2 k3 IH3]; cbn [PropAbs.eval sound].
  - intros _. cbn. auto.
  - intros _. cbn. auto.
  - intros (Sk & H). destruct d.
    + specialize (IH Sk). destruct (eval e k) as [k' vk]. destruct IH as (Ck & Sk' & -> & Lk). cbn. repeat split; auto.
    + destruct (H eq_refl) as (Ck & Ec). cbn. repeat split; auto.
  - intros (S1 & S2 & H). destruct d.
    + specialize (IH1 S1). specialize (IH2 S2). destruct (eval e k1) as [k1' v1], (eval e k2) as [k2' v2].
      destruct IH1 as (C1 & S1' & -> & L1), IH2 as (C2 & S2' & -> & L2). cbn. repeat split; auto. congruence.
    + destruct (H eq_refl) as (C1 & C2 & Ec). cbn. repeat split; auto.
  - intros (S1 & S2 & S3 & H). destruct d.
    + specialize (IH1 S1). specialize (IH2 S2). specialize (IH3 S3). destruct (eval e k1) as [k1' v1], (eval e k2) as [k2' v2], (eval e k3) as [k3' v3].
      destruct IH1 as (C1 & S1' & -> & L1), IH2 as (C2 & S2' & -> & L2), IH3 as (C3 & S3' & -> & L3). cbn. repeat split; auto. congruence.
    + destruct (H eq_refl) as (C1 & C2 & C3 & Ec). cbn. repeat split; auto.
Qed.

(* ---- marking ---- *)
Fixpoint lflags (t : tree) : list (nat * nat * bool) :=
  match t with
  | Const _ => []
  | Leaf p i d => [(p, i, d)]
  | Un _ _ _ k => lflags k
  | Bin _ _ _ k1 k2 => lflags k1 ++ lflags k2
  | Tern _ _ _ k1 k2 k3 => lflags k1 ++ lflags k2 ++ lflags k3
  end.

Definition mflag (lid : nat) (x : nat * nat * bool) : nat * nat * bool := (fst x, snd x || Nat.eqb (snd (fst x)) lid).

Lemma mark_lflags lid : forall t, lflags (fst (mark t lid)) = map (mflag lid) (lflags t).
Proof.
  induction t as [z|p i d|f d c k IH|f d c k1 IH1 k2 IH2|f d c k1 IH1 k2 IH2 k3 IH3]; cbn [mark lflags map].
  - reflexivity.
  - unfold mflag; cbn [fst snd]. destruct (Nat.eqb i lid); [destruct d; reflexivity|rewrite orb_false_r; reflexivity].
  - destruct (mark k lid) as [k' up]. cbn [fst] in IH. destruct up, d; cbn [fst lflags]; exact IH.
  - destruct (mark k1 lid) as [k1' up1], (mark k2 lid) as [k2' up2]. cbn [fst] in *. rewrite map_app, <- IH1, <- IH2.
    destruct (up1 || up2), d; reflexivity.
  - destruct (mark k1 lid) as [k1' up1], (mark k2 lid) as [k2' up2], (mark k3 lid) as [k3' up3]. cbn [fst] in *. rewrite !map_app, <- IH1, <- IH2, <- IH3.
    destruct (up1 || up2 || up3), d; reflexivity.
Qed.

Lemma lflags_leaves : forall t, map fst (lflags t) = leaves t.
Proof.
  induction t as [z|p i d|f d c k IH|f d c k1 IH1 k2 IH2|f d c k1 IH1 k2 IH2 k3 IH3]; cbn [lflags leaves map]; auto.
  - rewrite map_app, IH1, IH2. reflexivity.
  - rewrite !map_app, IH1, IH2, IH3. reflexivity.
Qed.

Lemma pdirty_flags p : forall t, (forall lid d, In (p, lid, d) (lflags t) -> d = true) -> pdirty p t.
Proof.
  induction t as [z|p' i d|f d c k IH|f d c k1 IH1 k2 IH2|f d c k1 IH1 k2 IH2 k3 IH3]; cbn [lflags pdirty]; auto.
  - intros H E. subst p'. apply (H i d). left. reflexivity.
  - intros H. split; [apply IH1|apply IH2]; intros lid d0 Hi; apply (H lid d0); apply in_or_app; auto.
  - intros H. split; [apply IH1|split; [apply IH2|apply IH3]]; intros lid d0 Hi; apply (H lid d0); apply in_or_app; auto; right; apply in_or_app; auto.
Qed.

Lemma clean_flags : forall t, clean t -> forall x, In x (lflags t) -> snd x = false.
Proof.
  induction t as [z|p i d|f d c k IH|f d c k1 IH1 k2 IH2|f d c k1 IH1 k2 IH2 k3 IH3]; cbn [clean lflags].
  - intros _ x [].
  - intros -> x [<-|[]]. reflexivity.
  - intros (_ & Ck). auto.
  - intros (_ & C1 & C2) x Hi. apply in_app_or in Hi. destruct Hi; auto.
  - intros (_ & C1 & C2 & C3) x Hi. apply in_app_or in Hi. destruct Hi as [Hi|Hi]; auto. apply in_app_or in Hi. destruct Hi; auto.
Qed.

(* on a clean tree a mark that does not reach the root changed nothing *)
Lemma mark_clean_noup lid : forall t, clean t -> snd (mark t lid) = false -> fst (mark t lid) = t.
Proof.
  induction t as [z|p i d|f d c k IH|f d c k1 IH1 k2 IH2|f d c k1 IH1 k2 IH2 k3 IH3]; cbn [clean mark].
  - reflexivity.
  - intros ->. destruct (Nat.eqb i lid); cbn; [discriminate|reflexivity].
  - intros (-> & Ck). specialize (IH Ck). destruct (mark k lid) as [k' up]. cbn [fst snd] in *. destruct up; cbn; [discriminate|]. intros _. rewrite IH; reflexivity.
  - intros (-> & C1 & C2). specialize (IH1 C1). specialize (IH2 C2). destruct (mark k1 lid) as [k1' up1], (mark k2 lid) as [k2' up2]. cbn [fst snd] in *.
    destruct up1, up2; cbn; try discriminate. intros _. rewrite IH1, IH2; reflexivity.
  - intros (-> & C1 & C2 & C3). specialize (IH1 C1). specialize (IH2 C2). specialize (IH3 C3).
    destruct (mark k1 lid) as [k1' up1], (mark k2 lid) as [k2' up2], (mark k3 lid) as [k3' up3]. cbn [fst snd] in *.
    destruct up1, up2, up3; cbn; try discriminate. intros _. rewrite IH1, IH2, IH3; reflexivity.
Qed.

Lemma mark_sound e lid : forall t, sound e t -> sound e (fst (mark t lid)).
Proof.
  induction t as [z|p i d|f d c k IH|f d c k1 IH1 k2 IH2|f d c k1 IH1 k2 IH2 k3 IH3]; cbn [sound mark].
  - auto.
  - intros _. destruct (Nat.eqb i lid); [destruct d|]; cbn; auto.
  - intros (Sk & H). specialize (IH Sk). pose proof (mark_clean_noup lid k) as MC. destruct (mark k lid) as [k' up]. cbn [fst snd] in *.
    destruct up; [destruct d; cbn; (split; [exact IH|discriminate])|].
    cbn. split; [exact IH|]. intros Hd. destruct (H Hd) as (Ck & Ec). rewrite (MC Ck eq_refl). auto.
  - intros (S1 & S2 & H). specialize (IH1 S1). specialize (IH2 S2). pose proof (mark_clean_noup lid k1) as M1. pose proof (mark_clean_noup lid k2) as M2.
    destruct (mark k1 lid) as [k1' up1], (mark k2 lid) as [k2' up2]. cbn [fst snd] in *.
    destruct (up1 || up2) eqn:Hup; [destruct d; cbn; (split; [exact IH1|split; [exact IH2|discriminate]])|].
    apply orb_false_elim in Hup as (-> & ->). cbn. split; [exact IH1|split; [exact IH2|]]. intros Hd. destruct (H Hd) as (C1 & C2 & Ec).
    rewrite (M1 C1 eq_refl), (M2 C2 eq_refl). auto.
  - intros (S1 & S2 & S3 & H). specialize (IH1 S1). specialize (IH2 S2). specialize (IH3 S3).
    pose proof (mark_clean_noup lid k1) as M1. pose proof (mark_clean_noup lid k2) as M2. pose proof (mark_clean_noup lid k3) as M3.
    destruct (mark k1 lid) as [k1' up1], (mark k2 lid) as [k2' up2], (mark k3 lid) as [k3' up3]. cbn [fst snd] in *.
    destruct (up1 || up2 || up3) eqn:Hup; [destruct d; cbn; (split; [exact IH1|split; [exact IH2|split; [exact IH3|discriminate]]])|].
    apply orb_false_elim in Hup as (Hup & ->). apply orb_false_elim in Hup as (-> & ->). cbn. split; [exact IH1|split; [exact IH2|split; [exact IH3|]]].
    intros Hd. destruct (H Hd) as (C1 & C2 & C3 & Ec). rewrite (M1 C1 eq_refl), (M2 C2 eq_refl), (M3 C3 eq_refl). auto.
Qed.

(* ---- worlds ---- *)
Definition hits (q : nat) (L : list (nat * nat)) (x : nat * nat * bool) : bool :=
  existsb (fun y => Nat.eqb (fst y) q && Nat.eqb (snd y) (snd (fst x))) L.

Lemma mark_all_spec : forall L s,
  lenv (mark_all s L) = lenv s /\
  forall q, match ltr s q with
            | None => ltr (mark_all s L) q = None
            | Some t => exists t', ltr (mark_all s L) q = Some t' /\ leaves t' = leaves t /\
                          (forall e, sound e t -> sound e t') /\
                          lflags t' = map (fun x => (fst x, snd x || hits q L x)) (lflags t)
            end.
Proof.
  induction L as [|[q0 lid] L IH]; intros s; cbn [mark_all fold_left].
  - split; [reflexivity|]. intros q. destruct (ltr s q) as [t|]; [|reflexivity]. exists t. repeat split; auto.
    rewrite <- (map_id (lflags t)) at 1. apply map_ext. intros [[p i] d]. cbn. rewrite orb_false_r. reflexivity.
  - destruct (IH (mark_one s (q0, lid))) as [E1 E2]. fold (mark_all (mark_one s (q0, lid)) L) in *. split.
    + rewrite E1. unfold mark_one; cbn [fst]. destruct (ltr s q0); reflexivity.
    + intros q. specialize (E2 q). unfold mark_one in E2 at 1; cbn [fst snd] in E2.
      destruct (ltr s q0) as [t0|] eqn:E0.
      * cbn [ltr] in E2. unfold PropAbs.set_tr in E2. destruct (Nat.eqb_spec q q0) as [->|Hne].
        -- rewrite E0. destruct E2 as (t' & Et' & El & Es & Ef). exists t'. split; [exact Et'|]. split; [rewrite El; apply mark_leaves|].
           split; [intros e Hs; apply Es; apply mark_sound; exact Hs|]. rewrite Ef, mark_lflags, map_map. apply map_ext. intros [[p i] d].
           unfold mflag, hits; cbn [fst snd existsb]. rewrite Nat.eqb_refl. cbn [andb]. rewrite (Nat.eqb_sym lid i), orb_assoc. reflexivity.
        -- destruct (ltr s q) as [t|]; [|exact E2]. destruct E2 as (t' & Et' & El & Es & Ef). exists t'. repeat split; auto.
           rewrite Ef. apply map_ext. intros [[p i] d]. unfold hits; cbn [fst snd existsb]. destruct (Nat.eqb_spec q0 q); [congruence|]. reflexivity.
      * destruct (ltr s q) as [t|] eqn:Eq; [|exact E2]. destruct E2 as (t' & Et' & El & Es & Ef). exists t'. repeat split; auto.
        rewrite Ef. apply map_ext. intros [[p i] d]. unfold hits; cbn [fst snd existsb]. destruct (Nat.eqb_spec q0 q) as [->|]; [congruence|]. reflexivity.
Qed.

(* invariant: flags sound, leaf ids unique, every leaf is among the readers of the property it reads (completeness), and every
   reader entry designates a leaf that reads that property (soundness of the subscriptions) *)
Definition LInv (s : lstate) : Prop :=
  forall q t, ltr s q = Some t ->
    sound (lenv s) t /\ NoDup (map snd (leaves t)) /\
    (forall p lid, In (p, lid) (leaves t) -> In (q, lid) (order p)) /\
    (forall p p' lid, In (q, lid) (order p) -> In (p', lid) (leaves t) -> p' = p).

Lemma in_leaves_flags t p i : In (p, i) (leaves t) <-> exists d, In (p, i, d) (lflags t).
Proof.
  rewrite <- lflags_leaves. rewrite in_map_iff. split.
  - intros ([[p0 i0] d] & E & Hi). cbn in E. inversion E; subst. eauto.
  - intros (d & Hi). exists (p, i, d). auto.
Qed.

(* Property::setHelper keeps the invariant *)
Lemma lset_inv s p v : LInv s -> LInv (lset s p v).
Proof.
  intros HI. unfold lset. destruct (Z.eqb v (lenv s p)); [exact HI|].
  set (s0 := {| lenv := set_env (lenv s) p v; ltr := ltr s |}).
  destruct (mark_all_spec (order p) s0) as [Ee Et]. intros q t' Hq. specialize (Et q). cbn [s0 ltr] in Et.
  destruct (ltr s q) as [t|] eqn:Eq; [|congruence]. destruct Et as (t'' & Et'' & El & Es & Ef). rewrite Hq in Et''. inversion Et''; subst t''.
  destruct (HI q t Eq) as (S0 & ND & Co & So). rewrite Ee. cbn [s0 lenv]. split; [|rewrite El; auto].
  apply sound_env_change; [apply Es; exact S0|]. apply pdirty_flags. intros lid d Hi. rewrite Ef in Hi. apply in_map_iff in Hi.
  destruct Hi as ([[p0 i0] d0] & E & Hi0). cbn [fst snd] in E. injection E as E1 E2 E3. subst p0 i0. rewrite <- E3.
  assert (Hl : In (p, lid) (leaves t)) by (apply in_leaves_flags; eauto).
  assert (Hh : hits q (order p) (p, lid, d0) = true).
  { unfold hits. apply existsb_exists. exists (q, lid). split; [apply Co; exact Hl|]. cbn. rewrite !Nat.eqb_refl. reflexivity. }
  rewrite Hh. apply orb_true_r.
Qed.

Lemma mark_notin : forall t lid, ~ In lid (map snd (leaves t)) -> mark t lid = (t, false).
Proof.
  induction t as [z|p i d|f d c k IH|f d c k1 IH1 k2 IH2|f d c k1 IH1 k2 IH2 k3 IH3]; intros lid Hn; cbn [mark].
  - reflexivity.
  - destruct (Nat.eqb_spec i lid) as [->|]; [exfalso; apply Hn; left; reflexivity|reflexivity].
  - rewrite IH by exact Hn. reflexivity.
  - cbn [leaves] in Hn. rewrite map_app, in_app_iff in Hn. rewrite IH1, IH2 by tauto. reflexivity.
  - cbn [leaves] in Hn. rewrite !map_app, !in_app_iff in Hn. rewrite IH1, IH2, IH3 by tauto. reflexivity.
Qed.

Lemma mark_all_untouched q t : forall L s,
  (forall lid, In (q, lid) L -> ~ In lid (map snd (leaves t))) -> ltr s q = Some t -> ltr (mark_all s L) q = Some t.
Proof.
  induction L as [|[q0 lid] L IH]; intros s Hn Hq; cbn [mark_all fold_left]; [exact Hq|].
  apply IH; [intros l Hi; apply Hn; right; exact Hi|].
  unfold mark_one; cbn [fst snd]. destruct (ltr s q0) as [t0|] eqn:E0; [|exact Hq]. cbn [ltr]. unfold PropAbs.set_tr.
  destruct (Nat.eqb_spec q q0) as [->|]; [|exact Hq]. rewrite Hq in E0. inversion E0; subst t0.
  rewrite (mark_notin t lid); [reflexivity|]. apply Hn. left. reflexivity.
Qed.

Lemma lset_env s p v x : lenv (lset s p v) x = if Nat.eqb x p then v else lenv s x.
Proof.
  unfold lset. destruct (Z.eqb_spec v (lenv s p)) as [E|_].
  - destruct (Nat.eqb_spec x p) as [->|]; [symmetry; exact E|reflexivity].
  - destruct (mark_all_spec (order p) {| lenv := set_env (lenv s) p v; ltr := ltr s |}) as [Ee _]. rewrite Ee. reflexivity.
Qed.

Lemma lset_leaves s p v q t' : ltr (lset s p v) q = Some t' -> exists t, ltr s q = Some t /\ leaves t' = leaves t.
Proof.
  unfold lset. destruct (Z.eqb v (lenv s p)); [intros H; exists t'; auto|].
  destruct (mark_all_spec (order p) {| lenv := set_env (lenv s) p v; ltr := ltr s |}) as [_ Et]. specialize (Et q). cbn [ltr] in Et.
  destruct (ltr s q) as [t|]; [|congruence]. destruct Et as (t'' & E & El & _). intros H. exists t. split; [reflexivity|congruence].
Qed.

(* a tree that does not read p is left alone by an assignment to p *)
Lemma lset_untouched s p v q t :
  LInv s -> ltr s q = Some t -> (forall lid, ~ In (p, lid) (leaves t)) -> ltr (lset s p v) q = Some t.
Proof.
  intros HI Hq Hn. unfold lset. destruct (Z.eqb v (lenv s p)); [exact Hq|].
  apply mark_all_untouched; [|exact Hq]. intros lid Hi Hin. apply in_map_iff in Hin. destruct Hin as ([p' i] & E & Hl). cbn in E. subst i.
  destruct (HI q t Hq) as (_ & _ & _ & So). rewrite (So p p' lid Hi Hl) in Hl. exact (Hn lid Hl).
Qed.

Definition done (s : lstate) (q : nat) : Prop := forall t, ltr s q = Some t -> clean t /\ lenv s q = den (lenv s) t.
Definition AVOID (s : lstate) (q : nat) (L : list nat) : Prop := forall t p lid, ltr s q = Some t -> In (p, lid) (leaves t) -> ~ In p L.
Fixpoint chain (s : lstate) (regs : list nat) : Prop :=
  match regs with [] => True | q :: r => AVOID s q (q :: r) /\ chain s r end.

Lemma eval_one_inv s q : LInv s -> LInv (eval_one s q).
Proof.
  intros HI. unfold eval_one. destruct (ltr s q) as [t|] eqn:Eq; [|exact HI].
  pose proof (eval_sound (lenv s) t) as ES. destruct (HI q t Eq) as (S0 & ND & Co & So). specialize (ES S0).
  destruct (eval (lenv s) t) as [t2 v]. destruct ES as (C2 & S2 & Ev & El). apply lset_inv.
  intros q' t' Hq'. cbn [ltr lenv] in *. unfold PropAbs.set_tr in Hq'. destruct (Nat.eqb_spec q' q) as [->|]; [|exact (HI q' t' Hq')].
  inversion Hq'; subst t'. rewrite El. auto.
Qed.

Lemma eval_leaves e : forall t, leaves (fst (eval e t)) = leaves t.
Proof.
  induction t as [z|p i d|f d c k IH|f d c k1 IH1 k2 IH2|f d c k1 IH1 k2 IH2 k3 IH3]; cbn [PropAbs.eval]; auto.
  - destruct d; [|reflexivity]. destruct (eval e k) as [k' v]. cbn in *. exact IH.
  - destruct d; [|reflexivity]. destruct (eval e k1) as [k1' v1], (eval e k2) as [k2' v2]. cbn in *. congruence.
  - destruct d; [|reflexivity]. destruct (eval e k1) as [k1' v1], (eval e k2) as [k2' v2], (eval e k3) as [k3' v3]. cbn in *. congruence.
Qed.

Lemma eval_one_leaves s q q' t' : ltr (eval_one s q) q' = Some t' -> exists t, ltr s q' = Some t /\ leaves t' = leaves t.
Proof.
  unfold eval_one. destruct (ltr s q) as [t|] eqn:Eq; [|intros H; exists t'; auto].
  pose proof (eval_leaves (lenv s) t) as EL. destruct (eval (lenv s) t) as [t2 v]. cbn [fst] in EL. intros H. apply lset_leaves in H. destruct H as (t0 & E0 & El).
  cbn [ltr] in E0. unfold PropAbs.set_tr in E0. destruct (Nat.eqb_spec q' q) as [->|]; [|eauto].
  inversion E0; subst t0. exists t. split; [exact Eq|]. congruence.
Qed.

Lemma AVOID_eval_one s q q' L : AVOID s q' L -> AVOID (eval_one s q) q' L.
Proof. intros H t' p lid Ht' Hi. destruct (eval_one_leaves _ _ _ _ Ht') as (t & Et & El). rewrite El in Hi. eauto. Qed.
Lemma chain_eval_one s q : forall L, chain s L -> chain (eval_one s q) L.
Proof. induction L as [|x r IH]; cbn; auto. intros [A C]. split; [apply AVOID_eval_one; exact A|auto]. Qed.

Lemma eval_one_done s q : LInv s -> AVOID s q [q] -> done (eval_one s q) q.
Proof.
  intros HI HA. unfold eval_one. destruct (ltr s q) as [t|] eqn:Eq; [|intros t' E; congruence].
  pose proof (eval_sound (lenv s) t) as ES. destruct (HI q t Eq) as (S0 & ND & Co & So). specialize (ES S0).
  destruct (eval (lenv s) t) as [t2 v]. destruct ES as (C2 & S2 & Ev & El).
  set (s1 := {| lenv := lenv s; ltr := PropAbs.set_tr (ltr s) q t2 |}).
  assert (HI1 : LInv s1).
  { intros q' t' Hq'. cbn [s1 ltr lenv] in *. unfold PropAbs.set_tr in Hq'. destruct (Nat.eqb_spec q' q) as [->|]; [|exact (HI q' t' Hq')].
    inversion Hq'; subst t'. rewrite El. auto. }
  assert (Hq1 : ltr s1 q = Some t2) by (cbn [s1 ltr]; unfold PropAbs.set_tr; rewrite Nat.eqb_refl; reflexivity).
  assert (Hn : forall lid, ~ In (q, lid) (leaves t2)) by (intros lid Hi; rewrite El in Hi; apply (HA t q lid Eq Hi); left; reflexivity).
  intros t' Ht'. rewrite (lset_untouched s1 q v q t2 HI1 Hq1 Hn) in Ht'. inversion Ht'; subst t'. split; [exact C2|].
  rewrite lset_env, Nat.eqb_refl. rewrite Ev, (clean_sound_den _ _ C2 S2). symmetry. apply den_ext.
  intros p lid Hi. rewrite lset_env. destruct (Nat.eqb_spec p q) as [->|]; [exfalso; exact (Hn lid Hi)|reflexivity].
Qed.

Lemma eval_one_keeps s q q' : LInv s -> q' <> q -> AVOID s q' [q] -> done s q' -> done (eval_one s q) q'.
Proof.
  intros HI Hne HA HD. unfold eval_one. destruct (ltr s q) as [t|] eqn:Eq; [|exact HD].
  pose proof (eval_sound (lenv s) t) as ES. destruct (HI q t Eq) as (S0 & ND & Co & So). specialize (ES S0).
  destruct (eval (lenv s) t) as [t2 v]. destruct ES as (C2 & S2 & Ev & El).
  set (s1 := {| lenv := lenv s; ltr := PropAbs.set_tr (ltr s) q t2 |}).
  assert (HI1 : LInv s1).
  { intros q0 t0 Hq0. cbn [s1 ltr lenv] in *. unfold PropAbs.set_tr in Hq0. destruct (Nat.eqb_spec q0 q) as [->|]; [|exact (HI q0 t0 Hq0)].
    inversion Hq0; subst t0. rewrite El. auto. }
  intros t' Ht'. destruct (ltr s q') as [t0|] eqn:E0.
  - assert (Hq1 : ltr s1 q' = Some t0) by (cbn [s1 ltr]; unfold PropAbs.set_tr; destruct (Nat.eqb_spec q' q); [contradiction|exact E0]).
    assert (Hn : forall lid, ~ In (q, lid) (leaves t0)) by (intros lid Hi; apply (HA t0 q lid E0 Hi); left; reflexivity).
    rewrite (lset_untouched s1 q v q' t0 HI1 Hq1 Hn) in Ht'. inversion Ht'; subst t'. destruct (HD t0 E0) as [C0 E].
    split; [exact C0|]. rewrite lset_env. destruct (Nat.eqb_spec q' q); [contradiction|]. cbn [s1 lenv]. rewrite E. symmetry. apply den_ext.
    intros p lid Hi. rewrite lset_env. destruct (Nat.eqb_spec p q) as [->|]; [exfalso; exact (Hn lid Hi)|reflexivity].
  - destruct (lset_leaves _ _ _ _ _ Ht') as (t0 & E1 & _). cbn [s1 ltr] in E1. unfold PropAbs.set_tr in E1. destruct (Nat.eqb_spec q' q); [contradiction|congruence].
Qed.

Lemma eval_all_done : forall post pre s,
  LInv s -> NoDup (pre ++ post) -> chain s post -> (forall q', In q' pre -> AVOID s q' post /\ done s q') ->
  forall q', In q' (pre ++ post) -> done (eval_all post s) q'.
Proof.
  induction post as [|q r IH]; intros pre s HI ND HC HP q' Hin; cbn [eval_all fold_left].
  - rewrite app_nil_r in Hin. apply HP. exact Hin.
  - destruct HC as [HA HC].
    assert (Hq : ~ In q pre /\ ~ In q r).
    { clear - ND. induction pre as [|x p IHp]; cbn in ND.
      - inversion ND; subst. split; [intros []|assumption].
      - inversion ND; subst. destruct (IHp H2) as [A B]. split; [|exact B]. intros [->|Hi]; [apply H1; apply in_or_app; right; left; reflexivity|contradiction]. }
    change (done (eval_all r (eval_one s q)) q'). apply (IH (pre ++ [q])).
    + apply eval_one_inv. exact HI.
    + rewrite <- app_assoc. exact ND.
    + apply chain_eval_one. exact HC.
    + intros x Hx. apply in_app_or in Hx. destruct Hx as [Hx|[<-|[]]].
      * destruct (HP x Hx) as [A D]. split.
        -- apply AVOID_eval_one. intros t p lid Ht Hi Hr. apply (A t p lid Ht Hi). right. exact Hr.
        -- apply eval_one_keeps; auto; [intros ->; apply (proj1 Hq); exact Hx|]. intros t p lid Ht Hi [<-|[]]. apply (A t q lid Ht Hi). left. reflexivity.
      * split.
        -- apply AVOID_eval_one. intros t p lid Ht Hi Hr. apply (HA t p lid Ht Hi). right. exact Hr.
        -- apply eval_one_done; [exact HI|]. intros t p lid Ht Hi [<-|[]]. apply (HA t q lid Ht Hi). left. reflexivity.
    + rewrite <- app_assoc. exact Hin.
Qed.

(* C06 on the abstract layer: one evaluateAll over bindings registered in dependency order (no binding reads itself or a
   binding registered after it) leaves every registered binding clean and every bound property equal to the denotation of its
   expression over the values after the pass *)
Theorem eval_all_consistent regs s :
  LInv s -> NoDup regs -> chain s regs ->
  forall q t, In q regs -> ltr (eval_all regs s) q = Some t -> clean t /\ lenv (eval_all regs s) q = den (lenv (eval_all regs s)) t.
Proof.
  intros HI ND HC q t Hin Ht. apply (eval_all_done regs [] s HI ND HC (fun _ H => False_ind _ H) q Hin t Ht).
Qed.

Lemma eval_all_inv : forall regs s, LInv s -> LInv (eval_all regs s).
Proof. induction regs as [|q r IH]; intros s H; cbn [eval_all fold_left]; [exact H|]. apply IH. apply eval_one_inv. exact H. Qed.

Theorem linv_kept s : LInv s -> (forall p v, LInv (lset s p v)) /\ (forall q, LInv (eval_one s q)).
Proof. intros H. split; [intros p v; apply lset_inv; exact H|intros q; apply eval_one_inv; exact H]. Qed.

(* until then: an assignment changes no bound property and runs no function (it only marks) *)
Theorem lset_silent s p v q : ltr s p = None -> q <> p -> lenv (lset s p v) q = lenv s q.
Proof. intros _ Hne. rewrite lset_env. destruct (Nat.eqb_spec q p); [contradiction|reflexivity]. Qed.
End Lazy.
