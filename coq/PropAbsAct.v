(* The abstract propagation model of coq/PropAbs.v extended by ACTING OBSERVERS: a subscriber of p.valueChanged is either the leaf of a
   binding (as before) or an observer that assigns the announced value to another property (`q.set(v)` from inside the slot: what the
   harness' `pobsset` observers of kind "changed" do).  An assignment made from inside a notification is a complete nested assignment -
   equality suppression, the target's own subscribers, further observers - running while the outer walk still has subscribers to serve.
   Theorem: whenever an assignment returns normally, every bound property equals its expression over the current values - for every
   network of trees, every placement of such observers, every delivery order (the pending-set invariant of PropAbsProofs.v is general
   enough: a nested assignment starts from "consistent up to the pending leaves" and hands back the same).
   An emission carries its payload (the value that was stored) to every subscriber; the observer writes that payload.  The executable model
   refines this layer (coq/PropSimAct.v).
   Not covered here: observers of valueAboutToChange that write (they run before the new value is stored; a cycle through one of them is not
   detected by the library - DESIGN.md 7, observations), observers that reset() bindings. *)
From Coq Require Import List Arith ZArith Lia Bool.
From KDB Require Import PropAbs PropAbsProofs.
Import ListNotations.

Inductive sub := SLeaf (q lid : nat) | SAct (tgt : nat).

Definition leafsubs (l : list sub) : list (nat * nat) :=
  flat_map (fun x => match x with SLeaf q lid => [(q, lid)] | SAct _ => [] end) l.

Section Act.
Variable F1 : nat -> Z -> Z.
Variable F2 : nat -> Z -> Z -> Z.
Variable F3 : nat -> Z -> Z -> Z -> Z.
Variable order' : nat -> list sub.          (* subscribers of p.valueChanged in delivery order, observers included *)

Definition lorder (p : nat) : list (nat * nat) := leafsubs (order' p).

Section Step.
  (* an emission carries its payload - the value that was stored - to every subscriber *)
  Variable notify_rec : state -> nat -> Z -> state.
  Definition nrec2 (s : state) (q : nat) : state := notify_rec s q (env s q).   (* a binding emits the value it has just stored *)

  (* the observer's slot: tgt.set(v0).  A bound target rejects the write (ReadOnlyProperty leaves the emission: the assignment
     does not return normally); an equal value changes nothing; otherwise store and serve tgt's subscribers *)
  Definition act (s : state) (v0 : Z) (tgt : nat) : state :=
    if oof s then s else
    match tr s tgt with
    | Some _ => {| env := env s; tr := tr s; oof := true |}
    | None =>
        if Z.eqb v0 (env s tgt) then s
        else notify_rec {| env := set_env (env s) tgt v0; tr := tr s; oof := false |} tgt v0
    end.

  Definition deliver' (v0 : Z) (s : state) (x : sub) : state :=
    match x with
    | SLeaf q lid => PropAbs.deliver F1 F2 F3 nrec2 s (q, lid)
    | SAct tgt => act s v0 tgt
    end.

  Definition notify_body' (s : state) (p : nat) (v0 : Z) : state := fold_left (deliver' v0) (order' p) s.
End Step.

Fixpoint notify' (fuel : nat) (s : state) (p : nat) (v0 : Z) : state :=
  match fuel with
  | O => {| env := env s; tr := tr s; oof := true |}
  | S f => notify_body' (notify' f) s p v0
  end.

Definition set' (fuel : nat) (s : state) (p : nat) (v : Z) : state :=
  if Z.eqb v (env s p) then s
  else notify' fuel {| env := set_env (env s) p v; tr := tr s; oof := oof s |} p v.

Definition sets' (fuel : nat) (s : state) (ws : list (nat * Z)) : state :=
  fold_left (fun s pv => set' fuel s (fst pv) (snd pv)) ws s.

(* ---------------------------------------------------------------------------------------------------------------------------- *)
Notation Inv := (Inv F1 F2 F3 lorder).
Notation rec_ok := (rec_ok F1 F2 F3 lorder).
(* the contract of the recursive knot, for every payload *)
Definition rec_ok3 (R : state -> nat -> Z -> state) : Prop :=
  (forall s r v, oof s = true -> oof (R s r v) = true) /\
  (forall s r v P, Inv s (lorder r ++ P) -> oof (R s r v) = false -> Inv (R s r v) P).

Section StepProofs.
  Variable R : state -> nat -> Z -> state.
  Hypothesis HR3 : rec_ok3 R.
  Lemma HR : rec_ok (nrec2 R).
  Proof. split; [intros s r H; apply (proj1 HR3); exact H|intros s r P HI Ho; apply (proj2 HR3); assumption]. Qed.

  Lemma act_oof s p tgt : oof s = true -> act R s p tgt = s.
  Proof. intros H; unfold act; rewrite H; reflexivity. Qed.

  (* a nested assignment keeps "consistent up to the pending leaves P", whatever P is and whatever value is written *)
  Lemma act_ok s v0 tgt P : Inv s P -> oof (act R s v0 tgt) = false -> Inv (act R s v0 tgt) P.
  Proof.
    intros HI. unfold act. destruct (oof s) eqn:Ho; [congruence|].
    destruct (tr s tgt) as [t|] eqn:Ht; [cbn; congruence|].
    destruct (Z.eqb v0 (env s tgt)); [intros _; exact HI|].
    intros Hf. apply (proj2 HR3); [|exact Hf].
    apply (Inv_env_change F1 F2 F3 lorder s P tgt v0).
    - intros q t Hq. destruct (HI q t Hq) as (A & B & C & D). repeat split; auto.
    - intros t Hq; congruence.
  Qed.

  Lemma deliver'_oof p s x : oof s = true -> deliver' R p s x = s.
  Proof. intros H. destruct x as [q lid|tgt]; cbn [deliver']; [apply deliver_oof; exact H|apply act_oof; exact H]. Qed.

  Lemma loop'_oof p L : forall s, oof s = true -> fold_left (deliver' R p) L s = s.
  Proof. induction L as [|x L IH]; cbn; auto. intros s H. rewrite deliver'_oof by exact H. apply IH; exact H. Qed.

  Lemma loop'_ok p L : forall s P,
    Inv s (leafsubs L ++ P) -> oof (fold_left (deliver' R p) L s) = false -> Inv (fold_left (deliver' R p) L s) P.
  Proof.
    induction L as [|x L IH]; cbn [fold_left]; intros s P HI Ho; [exact HI|].
    assert (Hd : oof (deliver' R p s x) = false).
    { destruct (oof (deliver' R p s x)) eqn:Hd; [|reflexivity]. rewrite loop'_oof in Ho by exact Hd. congruence. }
    apply IH; [|exact Ho]. destruct x as [q lid|tgt]; cbn [deliver'] in *.
    - apply (deliver_ok F1 F2 F3 lorder (nrec2 R) HR); [exact HI|exact Hd].
    - apply act_ok; [exact HI|exact Hd].
  Qed.

  Lemma body'_ok : rec_ok3 (notify_body' R).
  Proof.
    split.
    - intros s r v H. unfold notify_body'. rewrite loop'_oof by exact H. exact H.
    - intros s r v P HI Ho. unfold notify_body' in *. apply loop'_ok; assumption.
  Qed.
End StepProofs.

Lemma notify'_ok fuel : rec_ok3 (notify' fuel).
Proof.
  induction fuel as [|f IH]; cbn [notify'].
  - split; [intros; reflexivity|intros s r v P _ H; cbn in H; discriminate].
  - apply body'_ok; exact IH.
Qed.

Theorem set'_consistent fuel s p v :
  tr s p = None -> oof s = false -> Inv s [] -> oof (set' fuel s p v) = false -> Inv (set' fuel s p v) [].
Proof.
  intros Hp Ho HI. unfold set'. destruct (Z.eqb v (env s p)); [intros _; exact HI|].
  intros Hf. apply (proj2 (notify'_ok fuel)); [|exact Hf].
  rewrite Ho. apply (Inv_env_change F1 F2 F3 lorder s [] p v).
  - intros q t Ht. destruct (HI q t Ht) as (A & B & C & D). repeat split; auto.
  - intros t Ht; congruence.
Qed.

(* which properties are bound never changes *)
Lemma set'_tr fuel s p v : forall q, tr (set' fuel s p v) q = None <-> tr s q = None.
Proof.
  assert (Hdel : forall R : state -> nat -> Z -> state, (forall s r v0 q, tr (R s r v0) q = None <-> tr s q = None) ->
                 forall v0 l s q, tr (fold_left (deliver' R v0) l s) q = None <-> tr s q = None).
  { intros R HR v0 l. induction l as [|x l IH]; intros s0 q; cbn [fold_left]; [tauto|].
    rewrite IH. destruct x as [q0 lid|tgt]; cbn [deliver'].
    - unfold deliver. destruct (oof s0); [tauto|].
      destruct (tr s0 q0) as [t|] eqn:Ht; [|tauto].
      destruct (mark t lid) as [t1 up]. destruct up.
      + destruct (PropAbs.eval F1 F2 F3 (env s0) t1) as [t2 v1].
        destruct (Z.eqb v1 (env s0 q0)); cbn [tr]; [|unfold nrec2; rewrite HR; cbn [tr]];
          unfold PropAbs.set_tr; destruct (Nat.eqb_spec q q0) as [->|]; try tauto; rewrite Ht; split; discriminate.
      + cbn [tr]. unfold PropAbs.set_tr. destruct (Nat.eqb_spec q q0) as [->|]; try tauto. rewrite Ht; split; discriminate.
    - unfold act. destruct (oof s0); [tauto|]. destruct (tr s0 tgt); [cbn [tr]; tauto|].
      destruct (Z.eqb v0 (env s0 tgt)); [tauto|]. rewrite HR; cbn [tr]; tauto. }
  assert (Hn : forall fuel s r v0 q, tr (notify' fuel s r v0) q = None <-> tr s q = None).
  { induction fuel0 as [|f IH]; intros s0 r v0 q; cbn [notify']; [cbn; tauto|].
    unfold notify_body'. apply Hdel. exact IH. }
  intros q. unfold set'. destruct (Z.eqb v (env s p)); [tauto|]. rewrite Hn. cbn [tr]. tauto.
Qed.

Theorem sets'_consistent fuel : forall ws s,
  (forall p v, In (p, v) ws -> tr s p = None) -> oof s = false -> Inv s [] ->
  oof (sets' fuel s ws) = false -> Inv (sets' fuel s ws) [].
Proof.
  induction ws as [|[p v] r IH]; intros s Hin Ho HI Hf; unfold sets' in *; cbn [fold_left fst snd] in *; [exact HI|].
  set (s1 := set' fuel s p v) in *.
  assert (Ho1 : oof s1 = false).
  { destruct (oof s1) eqn:E; [|reflexivity]. exfalso.
    assert (Hmono : forall l s0, oof s0 = true -> oof (fold_left (fun s pv => set' fuel s (fst pv) (snd pv)) l s0) = true).
    { induction l as [|[p0 v0] l IHl]; intros s0 H0; cbn [fold_left]; [exact H0|]. apply IHl.
      unfold set'. cbn [fst snd]. destruct (Z.eqb v0 (env s0 p0)); [exact H0|].
      apply (proj1 (notify'_ok fuel)). cbn. exact H0. }
    rewrite (Hmono r s1 E) in Hf. discriminate. }
  apply IH.
  - intros q u Hq. apply (set'_tr fuel s p v). apply (Hin q u). right; exact Hq.
  - exact Ho1.
  - apply set'_consistent; [apply (Hin p v); left; reflexivity|exact Ho|exact HI|exact Ho1].
  - exact Hf.
Qed.
End Act.
