(* C06 - Evaluator-driven bindings change only on evaluateAll, then are fully up to date.
   Proved on coq/PropDefs.v (the executable model): silence (below).
   Proved on the abstract model coq/PropAbsLazy.v (trees, markDirty with early return and cached evaluation of coq/PropAbs.v; a
   notification only marks; evaluateAll evaluates the registered bindings in creation order, each assigning its result through
   setHelper, which marks the readers): ONE evaluateAll over bindings registered in dependency order leaves every registered
   binding clean and every bound property equal to the denotation of its expression over the values after the pass
   (C06_one_pass_consistent_abstract), for every network, every interpretation of the functions and every delivery order.
   Refinement (coq/PropSimLazy.v): in worlds all of whose bindings belong to one explicit evaluator and whose observers do not act,
   Property::setHelper of the executable model is the abstract `lset` and evaluateAll is the abstract `eval_all`; hence a coherent
   world stays coherent, an assignment changes no other property, and after ONE evaluateAll over bindings registered in dependency
   order every registered bound property equals its expression recomputed from scratch (C06_one_pass_consistent).
   The state conditions of that theorem are established and kept by every history that creates properties, attaches plain observers,
   binds fresh properties through the evaluator, assigns to inputs and calls evaluateAll (coq/PropGrowLazy.v:
   C06_state_conditions_reachable, C06_reachable_one_pass).
   The same holds for histories that also reset() bound properties and destroy properties nobody reads (coq/PropGrowLazyMore.v:
   C06_network_with_resets_one_pass), and a
   reset binding is dead and no longer in the registry that evaluateAll iterates (C06_reset_binding_never_evaluated_again); it owns
   no subscription any more (C07_reset_disconnects, C10_no_orphan_subscription).
   The networks may use SEVERAL evaluators (bindings and evaluateAll calls through any of them): the theorems speak about the bindings
   registered with the evaluator `ev` that is asked to evaluate; the others are only marked (C06_several_evaluators_example).
   "Emits change notifications only for values that actually changed" (coq/PropNotify.v): in ANY world a Binding::evaluate whose result
   equals the current value calls no observer and changes no property; in worlds of evaluator-driven bindings an evaluateAll changes no
   property that is not registered with it, and if it leaves every registered property with the value it had it has called no observer.
   MIXED worlds (immediate and evaluator-driven bindings together; coq/PropMixedLazy.v, coq/PropMixedPass.v): the caches of the evaluator-driven
   trees are right for the current values in every world a growing mixed network reaches, every evaluation is exact, and ONE evaluateAll
   brings every registered bound property up to date (C06_mixed_network_one_pass).
   PARTIAL: acting observers, direct rebinding and moves/destruction in mixed worlds are covered by the extracted checker PropCheck.check_c06_after_evalall on every evaluateAll of every generated
   history and by correspondence. *)
From KDB Require Import Util PropDefs PropProofs.
From KDB Require PropAbs PropAbsLazy PropCheck PropSim PropSimLazy PropGrowLazy PropGrowMore PropGrowLazyMore PropReg PropMoveLazy PropNotify PropMixedLazy PropMixedPass PropLink.

(* a notification reaching a node of an evaluator-driven binding only sets dirty flags *)
Theorem C06_notification_only_marks :
  forall fn rtl R w p payload b leaf x t up,
    get_bind w b = Some x -> b_evp x <> 0 -> mark (b_root x) leaf = Some (t, up) ->
    deliver fn rtl R w p KChanged payload (SNode b leaf) = (put_bind w b (bind_with_root x t), None).
Proof. exact manual_delivery_only_marks. Qed.
Print Assumptions C06_notification_only_marks.

(* an assignment to an input whose subscribers are plain observers and nodes of evaluator-driven bindings: no other
   property changes its value, no user function runs, only the input's own observers are notified *)
Theorem C06_silent_until_evaluate :
  forall fn rtl f w p v pr t tb,
    lookup (w_props w) p = Some pr -> v <> pr_value pr ->
    table_ok w (pr_about pr) -> pr_changed pr = Some t -> get_table w t = Some tb -> quiet_table w tb ->
    exists l, w_trace (fst (set_helper fn rtl (S f) w p v)) = l ++ w_trace w /\ only_notifications l /\
              lookup (w_props (fst (set_helper fn rtl (S f) w p v))) p = Some (prop_set_value pr v) /\
              (forall q, q <> p -> lookup (w_props (fst (set_helper fn rtl (S f) w p v))) q = lookup (w_props w) q).
Proof. exact set_is_silent_for_manual. Qed.
Print Assumptions C06_silent_until_evaluate.

(* an evaluation of a tree in which nothing is dirty runs no user function; each function at most once otherwise *)
Theorem C06_clean_runs_nothing : forall fn rtl val t, root_dirty t = false -> snd (eval fn rtl val t) = [].
Proof. exact eval_clean_runs_nothing. Qed.
Print Assumptions C06_clean_runs_nothing.

(* ---- the abstract model of evaluator-driven bindings ---- *)
(* LInv: dirty flags sound (a clean operator node has clean children and caches what it would compute from them), leaf ids unique,
   every leaf among the readers of the property it reads and every reader entry designating such a leaf; chain: no registered binding
   reads itself or one registered after it *)
Theorem C06_one_pass_consistent_abstract :
  forall F1 F2 F3 order regs s,
    PropAbsLazy.LInv F1 F2 F3 order s -> NoDup regs -> PropAbsLazy.chain s regs ->
    forall q t, In q regs -> PropAbsLazy.ltr (PropAbsLazy.eval_all F1 F2 F3 order regs s) q = Some t ->
      PropAbs.clean t /\
      PropAbsLazy.lenv (PropAbsLazy.eval_all F1 F2 F3 order regs s) q =
        PropAbs.den F1 F2 F3 (PropAbsLazy.lenv (PropAbsLazy.eval_all F1 F2 F3 order regs s)) t.
Proof. exact PropAbsLazy.eval_all_consistent. Qed.
Print Assumptions C06_one_pass_consistent_abstract.

(* the invariant is kept by assignments (which only mark) and by evaluations *)
Theorem C06_invariant_kept_abstract :
  forall F1 F2 F3 order s,
    PropAbsLazy.LInv F1 F2 F3 order s ->
    (forall p v, PropAbsLazy.LInv F1 F2 F3 order (PropAbsLazy.lset order s p v)) /\
    (forall q, PropAbsLazy.LInv F1 F2 F3 order (PropAbsLazy.eval_one F1 F2 F3 order s q)).
Proof. exact PropAbsLazy.linv_kept. Qed.
Print Assumptions C06_invariant_kept_abstract.

(* until the pass an assignment to an input changes the value of no other property *)
Theorem C06_assignment_changes_nothing_else_abstract :
  forall (F1 : nat -> Z -> Z) (F2 : nat -> Z -> Z -> Z) (F3 : nat -> Z -> Z -> Z -> Z) order s p v q,
    PropAbsLazy.ltr s p = None -> q <> p -> PropAbsLazy.lenv (PropAbsLazy.lset order s p v) q = PropAbsLazy.lenv s q.
Proof. exact PropAbsLazy.lset_silent. Qed.
Print Assumptions C06_assignment_changes_nothing_else_abstract.

(* ---- the executable model ---- *)
(* LSC: link invariant, no acting observer, every live binding registered with the evaluator ev; LCOH: the abstraction of the world
   satisfies the abstract invariant for the delivery order of the world itself; regs_of: the properties updated by the registered
   bindings in registration order; lchain: no registered binding reads the property it updates or one updated by a later one *)
Theorem C06_assignment_only_marks :
  forall fn rtl ev, ev <> 0 -> forall f w p v w',
    PropSimLazy.LSC ev w -> PropSimLazy.LCOH fn w -> set_helper fn rtl (S f) w p v = (w', None) ->
    PropSimLazy.LSC ev w' /\ PropSimLazy.LCOH fn w' /\ PropSimLazy.LFR w w' /\ (forall q, q <> p -> values w' q = values w q).
Proof. intros fn rtl ev _. exact (PropSimLazy.lazy_assignment fn rtl ev). Qed.
Print Assumptions C06_assignment_only_marks.

Theorem C06_one_pass_consistent :
  forall fn rtl ev, ev <> 0 -> forall fuel w e st w',
    PropSimLazy.LSC ev w -> PropSimLazy.LCOH fn w -> lookup (w_bevs w) e = Some ev -> nth_error (w_evps w) ev = Some st ->
    NoDup (PropSimLazy.regs_of w (ep_registry st)) -> PropSimLazy.lchain w (PropSimLazy.regs_of w (ep_registry st)) ->
    step1 fn rtl fuel w (BevEvalAll e) = (w', None) ->
    PropSimLazy.LSC ev w' /\ PropSimLazy.LCOH fn w' /\
    forall q x pr z, In q (PropSimLazy.regs_of w (ep_registry st)) -> PropSimLazy.lz_of w' q = Some x -> lookup (w_props w') q = Some pr ->
      PropCheck.den_node fn (values w') (b_root x) = Some z -> pr_value pr = z.
Proof. intros fn rtl ev _. exact (PropSimLazy.lazy_evalall_consistent fn rtl ev). Qed.
Print Assumptions C06_one_pass_consistent.

(* the state conditions hold in every world reached by a history of a growing network of evaluator-driven bindings (LSND: dirty
   flags sound in the abstraction - LCOH follows from it and the link invariant, PropGrowLazy.LCOH_of_LSND; LREG: the registration
   order is duplicate free and is a dependency order) *)
Theorem C06_state_conditions_reachable :
  forall fn rtl ev, ev <> 0 -> forall f ops w,
    PropSimLazy.LSC ev w -> PropGrowLazy.LSND fn w -> PropGrowLazy.LREG ev w -> PropGrowLazy.lazy_run_ok fn rtl f w ops ->
    PropSimLazy.LSC ev (fold_left (step fn rtl (S f)) ops w) /\ PropGrowLazy.LSND fn (fold_left (step fn rtl (S f)) ops w) /\
    PropGrowLazy.LREG ev (fold_left (step fn rtl (S f)) ops w).
Proof. exact PropGrowLazy.lazy_grow_coherent. Qed.
Print Assumptions C06_state_conditions_reachable.

(* end to end from the empty world: in a growing network creation order is dependency order, so ONE evaluateAll makes every
   registered bound property equal to its expression recomputed from scratch - no further premise *)
Theorem C06_reachable_one_pass :
  forall fn rtl ev, ev <> 0 -> forall f ops e w',
    PropGrowLazy.lazy_run_ok fn rtl f world0 ops ->
    lookup (w_bevs (run fn rtl (S f) ops)) e = Some ev ->
    step1 fn rtl (S f) (run fn rtl (S f) ops) (BevEvalAll e) = (w', None) ->
    forall st, nth_error (w_evps (run fn rtl (S f) ops)) ev = Some st ->
    forall q x pr z, In q (PropSimLazy.regs_of (run fn rtl (S f) ops) (ep_registry st)) -> PropSimLazy.lz_of w' q = Some x ->
      lookup (w_props w') q = Some pr -> PropCheck.den_node fn (values w') (b_root x) = Some z -> pr_value pr = z.
Proof. exact PropGrowLazy.lazy_reachable_one_pass. Qed.
Print Assumptions C06_reachable_one_pass.

(* ... and for histories in which bound properties are also reset() and properties that no binding reads (bound through an evaluator
   or not) are destroyed: lazy_run2_ok = the growing-network operations plus reset plus destruction of unread properties *)
Theorem C06_network_with_resets_one_pass :
  forall fn rtl ev, ev <> 0 -> forall f ops e w',
    PropGrowLazyMore.lazy_run2_ok fn rtl f world0 ops ->
    lookup (w_bevs (run fn rtl (S f) ops)) e = Some ev ->
    step1 fn rtl (S f) (run fn rtl (S f) ops) (BevEvalAll e) = (w', None) ->
    forall st, nth_error (w_evps (run fn rtl (S f) ops)) ev = Some st ->
    forall q x pr z, In q (PropSimLazy.regs_of (run fn rtl (S f) ops) (ep_registry st)) -> PropSimLazy.lz_of w' q = Some x ->
      lookup (w_props w') q = Some pr -> PropCheck.den_node fn (values w') (b_root x) = Some z -> pr_value pr = z.
Proof. exact PropGrowLazyMore.lazy2_reachable_one_pass. Qed.
Print Assumptions C06_network_with_resets_one_pass.

(* "Bindings that were reset ... are never evaluated again": after reset() the binding is dead and the property is not among the
   registered targets that evaluateAll iterates *)
Theorem C06_reset_binding_never_evaluated_again :
  forall fn rtl ev fuel w p pr b w',
    PropSimLazy.LSC ev w -> lookup (w_props w) p = Some pr -> pr_updater pr = Some b ->
    step1 fn rtl fuel w (PReset p) = (w', None) ->
    get_bind w' b = None /\ forall st, nth_error (w_evps w') ev = Some st -> ~ In p (PropSimLazy.regs_of w' (ep_registry st)).
Proof. exact PropGrowLazyMore.reset_leaves_registry. Qed.
Print Assumptions C06_reset_binding_never_evaluated_again.

(* non-vacuity of the destruction case: the end of a chain (bound through the evaluator) is destroyed; the rest is brought up to date
   by one evaluateAll; destroying property 1 while 2 reads it would not be such a history *)
Example C06_destruction_example :
  let fn := fun (f : nat) (l : list Z) => Some (fold_right Z.add (Z.of_nat f) l) in
  let ops := [PNew 0 1%Z; BevNew 0; PBind 1 (EOp1 1 (EProp 0)) (MEvaluator 0); PBind 2 (EOp1 2 (EProp 1)) (MEvaluator 0);
              PBind 3 (EOp1 3 (EProp 2)) (MEvaluator 0); PDel 3; PSet 0 7%Z WSet] in
  PropGrowLazyMore.lazy_run2_ok fn true 7 world0 ops /\
  PropGrowMore.no_reader_b (run fn true 8 (firstn 5 ops)) 1 = false /\
  map (fun e => match e with EvVal v => v | _ => None end)
      (filter (fun e => match e with EvVal _ => true | _ => false end) (w_trace (run fn true 8 (ops ++ [BevEvalAll 0; PGet 1; PGet 2]))))
  = [Some 10%Z; Some 8%Z].
Proof. split; [vm_compute; repeat split; reflexivity|split; vm_compute; reflexivity]. Qed.

(* non-vacuity: a chain of three, the middle one reset, then written directly; one evaluateAll brings the end of the chain up to date *)
Example C06_reset_example :
  let fn := fun (f : nat) (l : list Z) => Some (fold_right Z.add (Z.of_nat f) l) in
  let ops := [PNew 0 1%Z; BevNew 0; PBind 1 (EOp1 1 (EProp 0)) (MEvaluator 0); PBind 2 (EOp1 2 (EProp 1)) (MEvaluator 0);
              PReset 1; PSet 1 20%Z WSet; PSet 0 7%Z WSet] in
  PropGrowLazyMore.lazy_run2_ok fn true 7 world0 ops /\
  map (fun e => match e with EvVal v => v | _ => None end)
      (filter (fun e => match e with EvVal _ => true | _ => false end) (w_trace (run fn true 8 (ops ++ [BevEvalAll 0; PGet 1; PGet 2]))))
  = [Some 22%Z; Some 20%Z].
Proof. split; [vm_compute; repeat split; reflexivity|vm_compute; reflexivity]. Qed.

(* ... and for histories that also MOVE-CONSTRUCT properties (inputs, evaluator-driven ones, observed ones) and MOVE-ASSIGN them over a
   property that no live binding reads (an unread input, or the target of another evaluator-driven binding - that binding dies and
   leaves its evaluator's registry): coq/PropMoveLazy.v - every registered target, tree and leaf is the old one with the source
   renamed to the destination *)
Theorem C06_network_with_moves_one_pass :
  forall fn rtl ev, ev <> 0 -> forall f ops e w',
    PropMoveLazy.lazy_run3_ok fn rtl f world0 ops ->
    lookup (w_bevs (run fn rtl (S f) ops)) e = Some ev ->
    step1 fn rtl (S f) (run fn rtl (S f) ops) (BevEvalAll e) = (w', None) ->
    forall st, nth_error (w_evps (run fn rtl (S f) ops)) ev = Some st ->
    forall q x pr z, In q (PropSimLazy.regs_of (run fn rtl (S f) ops) (ep_registry st)) -> PropSimLazy.lz_of w' q = Some x ->
      lookup (w_props w') q = Some pr -> PropCheck.den_node fn (values w') (b_root x) = Some z -> pr_value pr = z.
Proof. exact PropMoveLazy.lazy3_reachable_one_pass. Qed.
Print Assumptions C06_network_with_moves_one_pass.

(* non-vacuity: the input 0 and the evaluator-driven property 1 of the chain 0 -> 1 -> 2 are move-constructed to 10 and 11; an
   assignment to the NEW input and one evaluateAll bring 11 and 2 up to date *)
Example C06_moves_example :
  let fn := fun (f : nat) (l : list Z) => Some (fold_right Z.add (Z.of_nat f) l) in
  let ops := [PNew 0 1%Z; BevNew 0; PBind 1 (EOp1 1 (EProp 0)) (MEvaluator 0); PBind 2 (EOp1 2 (EProp 1)) (MEvaluator 0);
              PMoveCtor 0 10; PMoveCtor 1 11; PSet 10 7%Z WSet] in
  PropMoveLazy.lazy_run3_ok fn true 7 world0 ops /\
  map (fun e => match e with EvVal v => v | _ => None end)
      (filter (fun e => match e with EvVal _ => true | _ => false end) (w_trace (run fn true 8 (ops ++ [BevEvalAll 0; PGet 11; PGet 2]))))
  = [Some 10%Z; Some 8%Z].
Proof. split; [vm_compute; repeat split; reflexivity|vm_compute; reflexivity]. Qed.

(* non-vacuity: the evaluator-driven property 1 (= f1(0)) is move-ASSIGNED over the evaluator-driven property 3 (= f3(0)), whose binding dies;
   property 2 = f2(1) now reads the new location; an assignment to the input and one evaluateAll bring 3 and 2 up to date, and the
   dead binding of 3 is not evaluated (3 holds f1(7) = 8, not f3(7) = 10) *)
Example C06_move_assignment_example :
  let fn := fun (f : nat) (l : list Z) => Some (fold_right Z.add (Z.of_nat f) l) in
  let ops := [PNew 0 1%Z; BevNew 0; PBind 1 (EOp1 1 (EProp 0)) (MEvaluator 0); PBind 2 (EOp1 2 (EProp 1)) (MEvaluator 0);
              PBind 3 (EOp1 3 (EProp 0)) (MEvaluator 0); PMoveAssign 3 1; PSet 0 7%Z WSet] in
  PropMoveLazy.lazy_run3_ok fn true 7 world0 ops /\
  map (fun e => match e with EvVal v => v | _ => None end)
      (filter (fun e => match e with EvVal _ => true | _ => false end) (w_trace (run fn true 8 (ops ++ [BevEvalAll 0; PGet 3; PGet 2]))))
  = [Some 10%Z; Some 8%Z].
Proof. split; [vm_compute; repeat split; reflexivity|vm_compute; reflexivity]. Qed.

(* ---- "... and emits change notifications only for values that actually changed" (coq/PropNotify.v) ---- *)
(* any world, any observers, any evaluation mode: a Binding::evaluate whose result equals the current value of its property stops in
   setHelper's equality test - no observer is called, no property and no connection table changes *)
Theorem C06_equal_result_notifies_nobody :
  forall fn rtl fuel w b x q pr t v lg w' r,
    get_bind w b = Some x -> b_target x = Some q -> lookup (w_props w) q = Some pr ->
    eval fn rtl (values w) (b_root x) = (t, inl v, lg) -> v = pr_value pr ->
    binding_evaluate fn rtl (set_helper fn rtl (S fuel)) w b = (w', r) ->
    r = None /\ PropNotify.notes w' = PropNotify.notes w /\ w_props w' = w_props w /\ w_tables w' = w_tables w.
Proof. exact PropNotify.evaluate_equal_result_notifies_nobody. Qed.
Print Assumptions C06_equal_result_notifies_nobody.

(* worlds of evaluator-driven bindings: evaluateAll changes no property that is not registered with the evaluator asked, and if every
   registered property has afterwards the value it had before, no observer at all has been called *)
Theorem C06_evaluate_all_notifies_only_changes :
  forall fn rtl ev fuel w e st w',
    PropSimLazy.LSC ev w -> lookup (w_bevs w) e = Some ev -> nth_error (w_evps w) ev = Some st ->
    NoDup (PropSimLazy.regs_of w (ep_registry st)) ->
    step1 fn rtl fuel w (BevEvalAll e) = (w', None) ->
    (forall p, ~ In p (PropSimLazy.regs_of w (ep_registry st)) -> values w' p = values w p) /\
    ((forall q, In q (PropSimLazy.regs_of w (ep_registry st)) -> values w' q = values w q) -> PropNotify.notes w' = PropNotify.notes w).
Proof. exact PropNotify.lazy_evalall_notifies_only_changes. Qed.
Print Assumptions C06_evaluate_all_notifies_only_changes.

(* ... the premises hold after every history of the networks above (creations, observers, bindings through evaluators, assignments,
   evaluateAll, reset, destruction of unread properties, both moves) *)
Theorem C06_network_notifies_only_changes :
  forall fn rtl ev, ev <> 0 -> forall f ops e w',
    PropMoveLazy.lazy_run3_ok fn rtl f world0 ops ->
    lookup (w_bevs (run fn rtl (S f) ops)) e = Some ev ->
    step1 fn rtl (S f) (run fn rtl (S f) ops) (BevEvalAll e) = (w', None) ->
    forall st, nth_error (w_evps (run fn rtl (S f) ops)) ev = Some st ->
    (forall p, ~ In p (PropSimLazy.regs_of (run fn rtl (S f) ops) (ep_registry st)) -> values w' p = values (run fn rtl (S f) ops) p) /\
    ((forall q, In q (PropSimLazy.regs_of (run fn rtl (S f) ops) (ep_registry st)) -> values w' q = values (run fn rtl (S f) ops) q) ->
     PropNotify.notes w' = PropNotify.notes (run fn rtl (S f) ops)).
Proof. exact PropNotify.lazy3_reachable_notifies_only_changes. Qed.
Print Assumptions C06_network_notifies_only_changes.

(* non-vacuity: property 1 = g(0) with g constant 5, observed; the input changes, evaluateAll runs g (EvFn 9 is logged) and the result is
   the old value: the observer of property 1 is not called; the second binding 2 = 0 + 2 changes and ITS observer is called once *)
Example C06_notifies_only_changes_example :
  let fn := fun (f : nat) (l : list Z) => if Nat.eqb f 9 then Some 5%Z else Some (fold_right Z.add (Z.of_nat f) l) in
  let ops := [PNew 0 1%Z; BevNew 0; PBind 1 (EOp1 9 (EProp 0)) (MEvaluator 0); PBind 2 (EOp1 2 (EProp 0)) (MEvaluator 0);
              PObserve 1 KChanged 100 0 None; PObserve 2 KChanged 200 1 None; PSet 0 7%Z WSet] in
  PropMoveLazy.lazy_run3_ok fn true 7 world0 ops /\
  PropNotify.notes (run fn true 8 ops) = [] /\
  PropNotify.notes (run fn true 8 (ops ++ [BevEvalAll 0])) = [EvNotify 200 KChanged [9%Z] (Some 9%Z)] /\
  filter (fun e => match e with EvFn _ => true | _ => false end) (w_trace (run fn true 8 (ops ++ [BevEvalAll 0]))) = [EvFn 2; EvFn 9; EvFn 2; EvFn 9].
Proof. split; [vm_compute; repeat split; reflexivity|]. split; [vm_compute; reflexivity|]. split; vm_compute; reflexivity. Qed.

(* ... and a value that DID change is announced: every about-to-change observer of the property once with (current, new) while get()
   still returns the current value, then every changed observer once with the new value while get() already returns it, in
   connection order, and nobody else (the bindings that read the property are only marked: nothing is recorded for them) *)
Theorem C06_changed_value_is_announced_once :
  forall fn rtl ev f w b x q pr t v lg w',
    PropSimLazy.LSC ev w -> get_bind w b = Some x -> b_target x = Some q -> lookup (w_props w) q = Some pr ->
    eval fn rtl (values w) (b_root x) = (t, inl v, lg) -> v <> pr_value pr ->
    binding_evaluate fn rtl (set_helper fn rtl (S f)) w b = (w', None) ->
    PropNotify.notes w' =
      rev (map (fun label => EvNotify label KChanged [v] (Some v)) (PropProofs.all_labels w (pr_changed pr)))
      ++ rev (map (fun label => EvNotify label KAbout [pr_value pr; v] (Some (pr_value pr))) (PropProofs.all_labels w (pr_about pr)))
      ++ PropNotify.notes w /\
    values w' q = Some v.
Proof. exact PropNotify.lazy_evaluate_announces_change. Qed.
Print Assumptions C06_changed_value_is_announced_once.

(* a second evaluateAll right after the first leaves the WHOLE world as it is - values, trees, connection tables, the record of observer
   calls and of user-function calls (every registered binding updates a property; duplicate-free dependency order) *)
Theorem C06_second_evaluate_all_changes_nothing :
  forall fn rtl ev fuel w e st w1,
    PropSimLazy.LSC ev w -> PropSimLazy.LCOH fn w -> lookup (w_bevs w) e = Some ev -> nth_error (w_evps w) ev = Some st ->
    NoDup (PropSimLazy.regs_of w (ep_registry st)) -> PropSimLazy.lchain w (PropSimLazy.regs_of w (ep_registry st)) ->
    (forall rb, In rb (ep_registry st) -> PropSimLazy.lz w (snd rb) <> None) ->
    step1 fn rtl (S fuel) w (BevEvalAll e) = (w1, None) ->
    step1 fn rtl (S fuel) w1 (BevEvalAll e) = (w1, None).
Proof. exact PropNotify.lazy_second_evalall_identity. Qed.
Print Assumptions C06_second_evaluate_all_changes_nothing.

(* ... and for the networks of C06_network_with_moves_one_pass no premise is left: after ANY such history an evaluateAll directly
   following another one returns the very same world (coq/PropTgt.v: no user-held bindings there, so every registered binding updates a
   property; registries hold live bindings only: coq/PropReg.v) *)
Theorem C06_network_second_evaluate_all_changes_nothing :
  forall fn rtl ev, ev <> 0 -> forall f ops e w1,
    PropMoveLazy.lazy_run3_ok fn rtl f world0 ops ->
    lookup (w_bevs (run fn rtl (S f) ops)) e = Some ev ->
    step1 fn rtl (S f) (run fn rtl (S f) ops) (BevEvalAll e) = (w1, None) ->
    step1 fn rtl (S f) w1 (BevEvalAll e) = (w1, None).
Proof. exact PropNotify.lazy3_reachable_second_evalall_identity. Qed.
Print Assumptions C06_network_second_evaluate_all_changes_nothing.

(* non-vacuity: the chain of C06_premises_example after an assignment: the first evaluateAll changes both bound properties, the second
   one returns the very same world *)
Example C06_second_evaluate_all_example :
  let fn := fun (f : nat) (l : list Z) => Some (fold_right Z.add (Z.of_nat f) l) in
  let ops := [PNew 0 1%Z; BevNew 0; PBind 1 (EOp1 1 (EProp 0)) (MEvaluator 0); PBind 2 (EOp1 2 (EProp 1)) (MEvaluator 0); PSet 0 10%Z WSet] in
  let w := run fn true 8 ops in
  let w1 := step fn true 8 w (BevEvalAll 0) in
  (exists st, nth_error (w_evps w) 1 = Some st /\ forallb (fun rb => match PropSimLazy.lz w (snd rb) with Some _ => true | None => false end) (ep_registry st) = true) /\
  values w 2 = Some 4%Z /\ values w1 2 = Some 13%Z /\ step1 fn true 8 w1 (BevEvalAll 0) = (w1, None).
Proof. split; [eexists; split; vm_compute; reflexivity|]. split; [vm_compute; reflexivity|]. split; vm_compute; reflexivity. Qed.

(* ---- MIXED worlds: immediate and evaluator-driven bindings together, observers that do not act (coq/PropMixedLazy.v) ---- *)
(* MS w: every cache of every evaluator-driven binding is right for the CURRENT values (a clean operator node has clean children and holds
   what it would compute from them).  An assignment keeps this, whatever cascade of immediate re-evaluations it sets off in between:
   every evaluator-driven leaf that reads a property whose value changes is marked before setHelper of that property returns *)
Theorem C06_mixed_assignment_keeps_caches_right :
  forall fn rtl fuel w p v w',
    PropLink.pinv w -> PropSim.NOACT w -> PropMixedLazy.LSIMP w -> PropMixedLazy.MS fn w ->
    set_helper fn rtl fuel w p v = (w', None) ->
    PropLink.pinv w' /\ PropSim.NOACT w' /\ PropMixedLazy.LSIMP w' /\ PropMixedLazy.MS fn w' /\ PropLinkBasics.views_eq w w'.
Proof. exact PropMixedLazy.mixed_set_helper_keeps_sound. Qed.
Print Assumptions C06_mixed_assignment_keeps_caches_right.

(* ... hence an evaluation of an evaluator-driven binding hands to setHelper exactly the value of its expression over the current
   inputs - no cache is ever stale - and leaves every cache right again *)
Theorem C06_mixed_evaluation_is_exact :
  forall fn rtl fuel w b x T w',
    PropLink.pinv w -> PropSim.NOACT w -> PropMixedLazy.LSIMP w -> PropMixedLazy.MS fn w ->
    get_bind w b = Some x -> b_evp x <> 0 -> PropSim.abs_tree (b_root x) = Some T ->
    binding_evaluate fn rtl (set_helper fn rtl fuel) w b = (w', None) ->
    PropLink.pinv w' /\ PropSim.NOACT w' /\ PropMixedLazy.LSIMP w' /\ PropMixedLazy.MS fn w' /\ PropLinkBasics.views_eq w w' /\
    exists t lg, eval fn rtl (values w) (b_root x) =
                 (t, inl (PropAbs.den (PropSim.F1 fn) (PropSim.F2 fn) (PropSim.F3 fn) (PropMixedLazy.envof w) T), lg).
Proof. exact PropMixedLazy.mixed_lazy_evaluate. Qed.
Print Assumptions C06_mixed_evaluation_is_exact.

(* ... and the premises hold in every world a growing MIXED network reaches (histories run5_ok: new properties, assignments, reads, plain
   observers, evaluator objects, fresh properties bound immediately or through an explicit evaluator - reading any existing properties,
   bound or not, in either mode -, evaluateAll of explicit evaluators) *)
Theorem C06_mixed_network_caches_always_right :
  forall fn rtl fuel ops, PropMixedLazy.run5_ok fn rtl fuel world0 ops -> PropMixedLazy.ML fn (run fn rtl fuel ops).
Proof. exact PropMixedLazy.mixed_reachable_ML. Qed.
Print Assumptions C06_mixed_network_caches_always_right.

Theorem C06_mixed_network_evaluation_is_exact :
  forall fn rtl fuel ops b x w',
    PropMixedLazy.run5_ok fn rtl fuel world0 ops -> get_bind (run fn rtl fuel ops) b = Some x -> b_evp x <> 0 ->
    binding_evaluate fn rtl (set_helper fn rtl fuel) (run fn rtl fuel ops) b = (w', None) ->
    PropMixedLazy.ML fn w' /\ exists T t lg, PropSim.abs_tree (b_root x) = Some T /\
      eval fn rtl (values (run fn rtl fuel ops)) (b_root x) =
      (t, inl (PropAbs.den (PropSim.F1 fn) (PropSim.F2 fn) (PropSim.F3 fn) (PropMixedLazy.envof (run fn rtl fuel ops)) T), lg).
Proof. exact PropMixedLazy.mixed_reachable_evaluation_exact. Qed.
Print Assumptions C06_mixed_network_evaluation_is_exact.

(* ONE evaluateAll in a mixed world (coq/PropMixedPass.v): if some rank on the properties puts every binding's inputs below the property it
   updates (RKI) and the evaluator's registry lists its bindings in increasing rank of their properties (rord) - in a growing network:
   creation order -, then after the pass every registered bound property equals its expression over the values after the pass, with a
   clean tree.  (setHelper(q) changes no property ranked below q but q and leaves alone every evaluator-driven tree whose inputs all rank
   below q: PropMixedPass.set_helper_frame.) *)
Theorem C06_mixed_one_pass :
  forall fn rtl rk fuel w e id st w',
    PropMixedLazy.ML fn w -> PropMixedPass.RKI rk w -> PropReg.REGI w -> lookup (w_bevs w) e = Some id -> id <> 0 ->
    nth_error (w_evps w) id = Some st -> PropMixedPass.rord rk w (ep_registry st) 0 ->
    step1 fn rtl fuel w (BevEvalAll e) = (w', None) ->
    PropMixedLazy.ML fn w' /\ PropLinkBasics.views_eq w w' /\ w_evps w' = w_evps w /\
    forall rid b, In (rid, b) (ep_registry st) ->
      exists x T q, get_bind w' b = Some x /\ PropSim.abs_tree (b_root x) = Some T /\ b_target x = Some q /\ PropAbs.clean T /\
                    PropMixedLazy.envof w' q = PropAbs.den (PropSim.F1 fn) (PropSim.F2 fn) (PropSim.F3 fn) (PropMixedLazy.envof w') T.
Proof. exact PropMixedPass.mixed_evalall_one_pass. Qed.
Print Assumptions C06_mixed_one_pass.

(* ... and in a growing mixed network such a rank exists - creation order (PropMixedPass.RANK_reachable) -, so, end to end: after ANY
   history of new properties, assignments, reads, plain observers, evaluator objects, fresh properties bound immediately or through an
   explicit evaluator (over any existing properties) and evaluateAll calls, ONE evaluateAll of an explicit evaluator makes every property
   bound through it equal to its expression over the values after the pass; the histories may also reset() bound properties of either kind *)
Theorem C06_mixed_network_one_pass :
  forall fn rtl fuel ops e id st w',
    PropMixedLazy.run5_ok fn rtl fuel world0 ops ->
    lookup (w_bevs (run fn rtl fuel ops)) e = Some id -> id <> 0 -> nth_error (w_evps (run fn rtl fuel ops)) id = Some st ->
    step1 fn rtl fuel (run fn rtl fuel ops) (BevEvalAll e) = (w', None) ->
    PropMixedLazy.ML fn w' /\
    forall rid b, In (rid, b) (ep_registry st) ->
      exists x T q, get_bind w' b = Some x /\ PropSim.abs_tree (b_root x) = Some T /\ b_target x = Some q /\ PropAbs.clean T /\
                    PropMixedLazy.envof w' q = PropAbs.den (PropSim.F1 fn) (PropSim.F2 fn) (PropSim.F3 fn) (PropMixedLazy.envof w') T.
Proof. exact PropMixedPass.mixed_reachable_one_pass. Qed.
Print Assumptions C06_mixed_network_one_pass.

(* non-vacuity: 1 = f1(0) immediate, 2 = f2(1) through the evaluator, 3 = f3(2) immediate: after the assignment 1 is up to date at once,
   2 and 3 wait; one evaluateAll brings 2 and, through it, 3 up to date *)
Example C06_mixed_example :
  let fn := fun (f : nat) (l : list Z) => Some (fold_right Z.add (Z.of_nat f) l) in
  let ops := [PNew 0 1%Z; BevNew 0; PBind 1 (EOp1 1 (EProp 0)) MImmediate; PBind 2 (EOp1 2 (EProp 1)) (MEvaluator 0);
              PBind 3 (EOp1 3 (EProp 2)) MImmediate; PSet 0 7%Z WSet] in
  PropMixedLazy.run5_ok fn true 8 world0 (ops ++ [BevEvalAll 0; PReset 2; PSet 0 9%Z WSet; BevEvalAll 0]) /\
  map (values (run fn true 8 ops)) [1; 2; 3] = [Some 8%Z; Some 4%Z; Some 7%Z] /\
  map (values (run fn true 8 (ops ++ [BevEvalAll 0]))) [1; 2; 3] = [Some 8%Z; Some 10%Z; Some 13%Z].
Proof.
  split; [|split; vm_compute; reflexivity].
  cbn [app PropMixedLazy.run5_ok PropMixedLazy.grow_op5]. repeat split; try (vm_compute; reflexivity); try (exists 1; split; [vm_compute; reflexivity|discriminate]).
Qed.

(* non-vacuity with destruction in a MIXED world: 1 = f1(0) immediate, 2 = f2(1) through the evaluator, 3 = f3(2) immediate, 4 = f4(0) through
   the evaluator; the unread properties 3 (immediately bound) and 4 (evaluator-driven: its registration goes) are destroyed, the input is
   assigned, and one evaluateAll brings 2 up to date *)
Example C06_mixed_destruction_example :
  let fn := fun (f : nat) (l : list Z) => Some (fold_right Z.add (Z.of_nat f) l) in
  let ops := [PNew 0 1%Z; BevNew 0; PBind 1 (EOp1 1 (EProp 0)) MImmediate; PBind 2 (EOp1 2 (EProp 1)) (MEvaluator 0);
              PBind 3 (EOp1 3 (EProp 2)) MImmediate; PBind 4 (EOp1 4 (EProp 0)) (MEvaluator 0); PDel 3; PDel 4; PSet 0 7%Z WSet] in
  PropMixedLazy.run5_ok fn true 8 world0 (ops ++ [BevEvalAll 0]) /\
  map (values (run fn true 8 ops)) [1; 2; 3; 4] = [Some 8%Z; Some 4%Z; None; None] /\
  map (values (run fn true 8 (ops ++ [BevEvalAll 0]))) [1; 2] = [Some 8%Z; Some 10%Z].
Proof.
  split; [|split; vm_compute; reflexivity].
  cbn [app PropMixedLazy.run5_ok PropMixedLazy.grow_op5]. repeat split; try (vm_compute; reflexivity); try (exists 1; split; [vm_compute; reflexivity|discriminate]).
Qed.

(* non-vacuity with both MOVES in a mixed world: 1 = f1(0) immediate, 2 = f2(1) through the evaluator, 3 = f3(2) immediate; the input 0 is move-constructed
   into 5 (the binding of 1 follows), the evaluator-driven property 2 is move-constructed into 6 (its registration now updates 6, the
   immediate binding of 3 reads 6), the unread property 3 is move-assigned over by a fresh plain property 7 (the binding of 3 is destroyed);
   after an assignment to 5 one evaluateAll brings 6 up to date *)
Example C06_mixed_moves_example :
  let fn := fun (f : nat) (l : list Z) => Some (fold_right Z.add (Z.of_nat f) l) in
  let ops := [PNew 0 1%Z; BevNew 0; PBind 1 (EOp1 1 (EProp 0)) MImmediate; PBind 2 (EOp1 2 (EProp 1)) (MEvaluator 0);
              PBind 3 (EOp1 3 (EProp 2)) MImmediate; PMoveCtor 0 5; PMoveCtor 2 6; PNew 7 50%Z; PMoveAssign 3 7; PSet 5 7%Z WSet] in
  PropMixedLazy.run5_ok fn true 8 world0 (ops ++ [BevEvalAll 0]) /\
  map (values (run fn true 8 ops)) [1; 6; 3] = [Some 8%Z; Some 4%Z; Some 50%Z] /\
  map (values (run fn true 8 (ops ++ [BevEvalAll 0]))) [1; 6; 3] = [Some 8%Z; Some 10%Z; Some 50%Z].
Proof.
  split; [|split; vm_compute; reflexivity].
  cbn [app PropMixedLazy.run5_ok PropMixedLazy.grow_op5]. repeat split; try (vm_compute; reflexivity); try (exists 1; split; [vm_compute; reflexivity|discriminate]).
Qed.

(* ---- "Bindings that were reset, replaced or destroyed are never evaluated again", for EVERY history (coq/PropReg.v) ---- *)
(* all three end in ~Binding = destroy_binding, which leaves the binding dead ... *)
Theorem C06_destroyed_binding_is_dead :
  forall w b x, get_bind w b = Some x ->
    PropReg.bkey (fst (destroy_binding w b)) b = None /\ b < length (w_binds (fst (destroy_binding w b))).
Proof. exact PropReg.destroy_binding_dead. Qed.
Print Assumptions C06_destroyed_binding_is_dead.

(* ... a dead binding stays dead through every later history, whatever its calls answer and however observers act ... *)
Theorem C06_dead_binding_stays_dead :
  forall fn rtl fuel ops w b, b < length (w_binds w) -> PropReg.bkey w b = None ->
    PropReg.bkey (fold_left (step fn rtl fuel) ops w) b = None.
Proof. exact PropReg.dead_stays_dead. Qed.
Print Assumptions C06_dead_binding_stays_dead.

(* ... and in every world any history reaches, every entry of every evaluator's registry - what evaluateAll iterates - refers to
   a LIVE binding registered under that evaluator and id; so evaluateAll never evaluates a dead one (a change notification can not
   reach one either: it owns no subscription, C07_only_live_bindings_are_subscribed) *)
Theorem C06_registries_hold_live_bindings_only :
  forall fn rtl fuel ops ep st rid b,
    nth_error (w_evps (run fn rtl fuel ops)) ep = Some st -> In (rid, b) (ep_registry st) ->
    PropReg.bkey (run fn rtl fuel ops) b = Some (ep, rid).
Proof. intros fn rtl fuel ops. exact (PropReg.reachable_REGI fn rtl fuel ops). Qed.
Print Assumptions C06_registries_hold_live_bindings_only.

(* non-vacuity: a lazily bound property gets a replacement binding: binding 0 is dead, the registry holds the replacement only,
   and evaluateAll runs the replacement's function (3) only *)
Example C06_replaced_binding_example :
  let fn := fun (f : nat) (l : list Z) => Some (fold_right Z.add (Z.of_nat f) l) in
  let ops := [PNew 0 1%Z; BevNew 0; PBind 1 (EOp1 2 (EProp 0)) (MEvaluator 0); PBind 1 (EOp1 3 (EProp 0)) (MEvaluator 0); PSet 0 10%Z WSet] in
  let w := run fn true 8 ops in
  PropReg.bkey w 0 = None /\ PropReg.bkey w 1 = Some (1, 2) /\
  option_map ep_registry (nth_error (w_evps w) 1) = Some [(2, 1)] /\
  filter (fun e => match e with EvFn _ => true | _ => false end) (firstn 3 (w_trace (run fn true 8 (ops ++ [BevEvalAll 0])))) = [EvFn 3].
Proof. vm_compute. repeat split; reflexivity. Qed.

(* non-vacuity, several evaluators: property 1 is bound through evaluator A (index 1), property 2 = f(p1) through evaluator B (index 2);
   the history is a lazy_run_ok history; evaluateAll(B) alone recomputes 2 from the (still stale) 1, evaluateAll(A) then updates 1 and
   only marks 2, a second evaluateAll(B) brings 2 up to date *)
Example C06_several_evaluators_example :
  let fn := fun (f : nat) (l : list Z) => Some (fold_right Z.add (Z.of_nat f) l) in
  let ops := [PNew 0 1%Z; BevNew 0; BevNew 1; PBind 1 (EOp1 1 (EProp 0)) (MEvaluator 0); PBind 2 (EOp1 2 (EProp 1)) (MEvaluator 1);
              PSet 0 10%Z WSet; BevEvalAll 1; PGet 2; BevEvalAll 0; PGet 1; PGet 2; BevEvalAll 1; PGet 2] in
  PropGrowLazy.lazy_run_ok fn true 7 world0 ops /\
  map (fun e => match e with EvVal v => v | _ => None end)
      (filter (fun e => match e with EvVal _ => true | _ => false end) (w_trace (run fn true 8 ops)))
  = [Some 13%Z; Some 4%Z; Some 11%Z; Some 4%Z].
Proof. split; [vm_compute; repeat split; reflexivity|vm_compute; reflexivity]. Qed.

(* non-vacuity of the premises: a chain of two evaluator-driven bindings created in dependency order is such a history, its
   registration order is duplicate free and dependency ordered *)
Example C06_premises_example :
  let fn := fun (f : nat) (l : list Z) => Some (fold_right Z.add (Z.of_nat f) l) in
  let ops := [PNew 0 1%Z; BevNew 0; PBind 1 (EOp1 1 (EProp 0)) (MEvaluator 0); PBind 2 (EOp1 2 (EProp 1)) (MEvaluator 0); PSet 0 10%Z WSet] in
  let w := run fn true 8 ops in
  PropGrowLazy.lazy_run_ok fn true 7 world0 ops /\ lookup (w_bevs w) 0 = Some 1 /\
  (exists st, nth_error (w_evps w) 1 = Some st /\ PropSimLazy.regs_of w (ep_registry st) = [1; 2]) /\
  PropSimLazy.lchain w [1; 2].
Proof.
  split; [vm_compute; repeat split; reflexivity|]. split; [vm_compute; reflexivity|]. split; [eexists; split; vm_compute; reflexivity|].
  cbn [PropSimLazy.lchain]. split; [|split; [|exact I]].
  - intros x lf p E Hi Ht. vm_compute in E. inversion E; subst x. cbn in Hi. destruct Hi as [<-|[]]. cbn in Ht. inversion Ht; subst p. intros [H|[H|[]]]; discriminate H.
  - intros x lf p E Hi Ht. vm_compute in E. inversion E; subst x. cbn in Hi. destruct Hi as [<-|[]]. cbn in Ht. inversion Ht; subst p. intros [H|[]]; discriminate H.
Qed.

(* non-vacuity: a chain created in dependency order is consistent after ONE evaluateAll; before it nothing moves *)
Example C06_example :
  let fn := fun (f : nat) (l : list Z) => Some (fold_right Z.add (Z.of_nat f) l) in
  let ops := [PNew 0 1%Z; BevNew 0; PBind 1 (EOp1 1 (EProp 0)) (MEvaluator 0); PBind 2 (EOp1 2 (EProp 1)) (MEvaluator 0);
              PSet 0 10%Z WSet; PGet 2; BevCopy 0 1; BevEvalAll 1; PGet 1; PGet 2] in
  map (fun e => match e with EvVal v => v | _ => None end)
      (filter (fun e => match e with EvVal _ => true | _ => false end) (w_trace (run fn true 8 ops)))
  = [Some 13%Z; Some 11%Z; Some 4%Z].
Proof. vm_compute. reflexivity. Qed.
