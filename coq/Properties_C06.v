(* C06 - Evaluator-driven bindings change only on evaluateAll, then are fully up to date.
   Proved on coq/PropDefs.v: silence (below).  "Fully up to date after one evaluateAll, in creation order, notifying
   only real changes" is checked on every generated history by the model's own checker PropCheck.check_c06_after_evalall
   and by correspondence with the real library (a test, not a proof); bindings that were reset / replaced / destroyed
   leave the registry in destroy_binding (definition), which is what evaluateAll iterates. *)
From KDB Require Import Util PropDefs PropProofs.

(* a notification reaching a node of an evaluator-driven binding only sets dirty flags *)
Theorem C06_notification_only_marks :
  forall fn rtl R w p payload b leaf x t up,
    get_bind w b = Some x -> b_evp x <> 0 -> mark (b_root x) leaf = Some (t, up) ->
    deliver fn rtl R w p KChanged payload (SNode b leaf) = (put_bind w b (bind_with_root x t), None).
Proof. exact manual_delivery_only_marks. Qed.
Print Assumptions C06_notification_only_marks.

(* an assignment to an input whose subscribers are plain observers and nodes of evaluator-driven bindings: no other
   property changes its value, no user function runs, only the input's own observers are notified *)
Theorem C06_silent_until_evaluate :
  forall fn rtl f w p v pr t tb,
    lookup (w_props w) p = Some pr -> v <> pr_value pr ->
    table_ok w (pr_about pr) -> pr_changed pr = Some t -> get_table w t = Some tb -> quiet_table w tb ->
    exists l, w_trace (fst (set_helper fn rtl (S f) w p v)) = l ++ w_trace w /\ only_notifications l /\
              lookup (w_props (fst (set_helper fn rtl (S f) w p v))) p = Some (prop_set_value pr v) /\
              (forall q, q <> p -> lookup (w_props (fst (set_helper fn rtl (S f) w p v))) q = lookup (w_props w) q).
Proof. exact set_is_silent_for_manual. Qed.
Print Assumptions C06_silent_until_evaluate.

(* an evaluation of a tree in which nothing is dirty runs no user function; each function at most once otherwise *)
Theorem C06_clean_runs_nothing : forall fn rtl val t, root_dirty t = false -> snd (eval fn rtl val t) = [].
Proof. exact eval_clean_runs_nothing. Qed.
Print Assumptions C06_clean_runs_nothing.

(* non-vacuity: a chain created in dependency order is consistent after ONE evaluateAll; before it nothing moves *)
Example C06_example :
  let fn := fun (f : nat) (l : list Z) => Some (fold_right Z.add (Z.of_nat f) l) in
  let ops := [PNew 0 1%Z; BevNew 0; PBind 1 (EOp1 1 (EProp 0)) (MEvaluator 0); PBind 2 (EOp1 2 (EProp 1)) (MEvaluator 0);
              PSet 0 10%Z WSet; PGet 2; BevCopy 0 1; BevEvalAll 1; PGet 1; PGet 2] in
  map (fun e => match e with EvVal v => v | _ => None end)
      (filter (fun e => match e with EvVal _ => true | _ => false end) (w_trace (run fn true 8 ops)))
  = [Some 13%Z; Some 11%Z; Some 4%Z].
Proof. vm_compute. reflexivity. Qed.
