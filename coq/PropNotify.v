(* "evaluateAll ... emits change notifications only for values that actually changed" (C06).
   1. any world, any observers: a Binding::evaluate whose result equals the current value of its property stops in setHelper's
      equality test - no observer is called, no property, no connection table changes;
   2. worlds of evaluator-driven bindings: one Binding::evaluate changes no property but its own, and calls an observer only if
      that property's value is different afterwards;
   3. hence an evaluateAll over a duplicate-free registry after which every registered property has the value it had before has
      called no observer at all, and in any case no unregistered property changed. *)
From KDB Require Import Util UtilProofs PropDefs PropFlags PropLink PropLinkBasics PropLinkOps PropLinkTheorems PropSim PropSimLazy PropGrowLazy.
From KDB Require PropAbs PropAbsProofs PropAbsLazy PropProofs PropCheck PropMove PropMoveLazy.
Module L := PropAbsLazy.
Module A := PropAbs.

Definition is_note (e : event) : bool := match e with EvNotify _ _ _ _ => true | _ => false end.
(* the observer calls recorded so far, newest first *)
Definition notes (w : world) : list event := filter is_note (w_trace w).

Lemma notes_log_fns l : forall w, notes (log_fns l w) = notes w.
Proof. induction l as [|f r IH]; intros w; cbn [log_fns]; [reflexivity|]. rewrite IH. reflexivity. Qed.
Lemma tables_log_fns l : forall w, w_tables (log_fns l w) = w_tables w.
Proof. induction l as [|f r IH]; intros w; cbn [log_fns]; [reflexivity|]. rewrite IH. reflexivity. Qed.

Section Notify.
  Variable fn : nat -> list Z -> option Z.
  Variable rtl : bool.
  Notation F1 := (PropSim.F1 fn).
  Notation F2 := (PropSim.F2 fn).
  Notation F3 := (PropSim.F3 fn).

  (* ---- 1. any world ---- *)
  Theorem evaluate_equal_result_silent fuel w b x q pr t v lg :
    get_bind w b = Some x -> b_target x = Some q -> lookup (w_props w) q = Some pr ->
    eval fn rtl (values w) (b_root x) = (t, inl v, lg) -> v = pr_value pr ->
    binding_evaluate fn rtl (set_helper fn rtl (S fuel)) w b = (log_fns lg (put_bind w b (bind_with_root x t)), None).
  Proof.
    intros Hb Ht Hq He Hv. unfold binding_evaluate. rewrite Hb, He, Ht. cbn [set_helper].
    rewrite PropProofs.log_fns_props. change (w_props (put_bind w b (bind_with_root x t))) with (w_props w). rewrite Hq.
    subst v. rewrite Z.eqb_refl. reflexivity.
  Qed.

  Corollary evaluate_equal_result_notifies_nobody fuel w b x q pr t v lg w' r :
    get_bind w b = Some x -> b_target x = Some q -> lookup (w_props w) q = Some pr ->
    eval fn rtl (values w) (b_root x) = (t, inl v, lg) -> v = pr_value pr ->
    binding_evaluate fn rtl (set_helper fn rtl (S fuel)) w b = (w', r) ->
    r = None /\ notes w' = notes w /\ w_props w' = w_props w /\ w_tables w' = w_tables w.
  Proof.
    intros Hb Ht Hq He Hv H. rewrite (evaluate_equal_result_silent fuel w b x q pr t v lg Hb Ht Hq He Hv) in H. inversion H; subst.
    split; [reflexivity|]. split; [rewrite notes_log_fns; reflexivity|]. split; [rewrite PropProofs.log_fns_props; reflexivity|rewrite tables_log_fns; reflexivity].
  Qed.

  (* ---- 2. worlds of evaluator-driven bindings ---- *)
  Section Lazy.
    Variable ev : nat.
    Hypothesis ev_pos : ev <> 0.
    Notation LSC := (PropSimLazy.LSC ev).

    Definition canon (w : world) : L.lstate :=
      {| L.lenv := fun p => match lookup (w_props w) p with Some pr => pr_value pr | None => 0%Z end;
         L.ltr := fun q => match lz_of w q with Some x => abs_tree (b_root x) | None => None end |}.
    Lemma LRel_canon w : LRel w (canon w).
    Proof. split; [intros p pr Hp; cbn; rewrite Hp; reflexivity|intros q; reflexivity]. Qed.

    Lemma values_LRel w s p : LRel w s -> values w p = match lookup (w_props w) p with Some _ => Some (L.lenv s p) | None => None end.
    Proof. intros (R1 & _). unfold values. destruct (lookup (w_props w) p) as [pr|] eqn:Hp; [|reflexivity]. cbn. rewrite (R1 _ _ Hp). reflexivity. Qed.

    Lemma LFR_lookup w w' p : LFR w w' -> (lookup (w_props w') p = None <-> lookup (w_props w) p = None).
    Proof.
      intros (_ & _ & P3 & _). pose proof (P3 p) as E. unfold pview in E.
      destruct (lookup (w_props w') p), (lookup (w_props w) p); try discriminate E; split; intros; congruence.
    Qed.

    Lemma eval_one_env order s q p : p <> q -> L.lenv (L.eval_one F1 F2 F3 order s q) p = L.lenv s p.
    Proof.
      intros Hne. unfold L.eval_one. destruct (L.ltr s q) as [T|]; [|reflexivity].
      destruct (A.eval F1 F2 F3 (L.lenv s) T) as [T2 vT]. rewrite (L.lset_env F1 F2 F3). destruct (Nat.eqb_spec p q); [contradiction|reflexivity].
    Qed.

    (* one Binding::evaluate: no property but its own changes value *)
    Lemma lazy_evaluate_frame fuel w b w' :
      LSC w -> binding_evaluate fn rtl (set_helper fn rtl fuel) w b = (w', None) ->
      LSC w' /\ LFR w w' /\ forall p, lz w b <> Some p -> values w' p = values w p.
    Proof.
      intros HSC H.
      destruct (sim_lbinding_evaluate fn rtl ev (LORD w) fuel w (canon w) b w' HSC (fun _ => eq_refl) (LRel_canon w) H) as (SC' & FR' & Rel').
      split; [exact SC'|]. split; [exact FR'|]. intros p Hp.
      rewrite (values_LRel w' _ p Rel'), (values_LRel w _ p (LRel_canon w)).
      pose proof (LFR_lookup w w' p FR') as Hl.
      destruct (lookup (w_props w') p) as [pr'|] eqn:E', (lookup (w_props w) p) as [pr|] eqn:E; try reflexivity;
        try (exfalso; destruct Hl as [Hl1 Hl2]; (discriminate (Hl1 eq_refl) || discriminate (Hl2 eq_refl))).
      f_equal. destruct (lz w b) as [q|]; [|reflexivity]. apply eval_one_env. intros ->. apply Hp. reflexivity.
    Qed.

    (* ... and it calls an observer only if the value of its property is different afterwards *)
    Lemma lazy_evaluate_notes fuel w b w' :
      LSC w -> binding_evaluate fn rtl (set_helper fn rtl fuel) w b = (w', None) ->
      notes w' = notes w \/ exists q, lz w b = Some q /\ values w' q <> values w q.
    Proof.
      intros HSC H. pose proof HSC as (Hinv & Hna & Hsi & Hal).
      destruct (sim_lbinding_evaluate fn rtl ev (LORD w) fuel w (canon w) b w' HSC (fun _ => eq_refl) (LRel_canon w) H) as (SC' & FR' & Rel').
      pose proof H as H0. unfold binding_evaluate in H.
      destruct (get_bind w b) as [x|] eqn:Hb; [|discriminate H].
      destruct (eval fn rtl (values w) (b_root x)) as [[t r] lg] eqn:He. destruct r as [v|ex]; [|discriminate H].
      destruct (b_target x) as [q|] eqn:Htg.
      - assert (Bv : bview w b = Some (leaves (b_root x), Some q)) by (unfold bview; rewrite Hb, Htg; reflexivity).
        destruct (pi_tgt _ _ _ _ _ _ _ Hinv _ _ _ Bv) as (vq & Evq & Euq).
        unfold pview in Evq. destruct (lookup (w_props w) q) as [pr|] eqn:Hq; [|discriminate Evq].
        assert (vq = psigs_of pr) by (cbn in Evq; congruence). subst vq. cbn in Euq.
        destruct (Z.eq_dec v (pr_value pr)) as [Ev|Ev].
        + left. destruct fuel as [|f]; [cbn [set_helper] in H; discriminate H|].
          destruct (evaluate_equal_result_notifies_nobody f w b x q pr t v lg w' None Hb Htg Hq He Ev H0) as (_ & N & _). exact N.
        + right. exists q. split; [unfold lz; rewrite Hb; exact Htg|].
          assert (Hlz : lz_of w q = Some x) by (unfold lz_of; rewrite Hq, Euq; exact Hb).
          destruct (abs_tree (b_root x)) as [T|] eqn:HT; [|exfalso; exact (Hsi _ _ Hlz HT)].
          assert (Hval : forall p0 lid, In (p0, lid) (A.leaves T) -> values w p0 = Some (L.lenv (canon w) p0)).
          { intros p0 lid Hi. destruct (abs_leaf_in _ _ _ _ HT Hi) as (lf & Hlf & Htg0 & _).
            destruct (leaf_target_exists w b x lf p0 Hinv Hb Hlf Htg0) as (pr0 & Hp & _). unfold values. rewrite Hp. cbn. rewrite Hp. reflexivity. }
          destruct (sim_eval fn rtl (values w) (L.lenv (canon w)) _ _ _ _ _ HT Hval He) as [_ EvT].
          assert (Hl : lz w b = Some q) by (unfold lz; rewrite Hb; exact Htg). rewrite Hl in Rel'.
          rewrite (values_LRel w' _ q Rel'). unfold values. rewrite Hq. cbn [option_map].
          pose proof (LFR_lookup w w' q FR') as Hlk. destruct (lookup (w_props w') q) as [pr'|] eqn:E'; [|intros; discriminate].
          intros E. apply Ev. injection E as E1. rewrite <- E1. unfold L.eval_one.
          assert (Htr : L.ltr (canon w) q = Some T) by (cbn; rewrite Hlz; exact HT). rewrite Htr.
          destruct (A.eval F1 F2 F3 (L.lenv (canon w)) T) as [T2 vT] eqn:HeT. cbn [snd] in EvT. rewrite (L.lset_env F1 F2 F3), Nat.eqb_refl. exact EvT.
      - left. inversion H; subst w'. rewrite notes_log_fns. reflexivity.
    Qed.

    (* ---- 3. the loop of evaluateAll ---- *)
    Lemma loop_frame fuel id : forall l w w' st,
      LSC w -> nth_error (w_evps w) id = Some st -> (forall rb, In rb l -> In rb (ep_registry st)) ->
      evalall_loop fn rtl fuel id l w = (w', None) ->
      LFR w w' /\ forall p, ~ In p (regs_of w l) -> values w' p = values w p.
    Proof.
      induction l as [|[rid b] r IH]; intros w w' st HSC Hst Hin H; cbn [evalall_loop] in H.
      - inversion H; subst. split; [apply LFR_refl|reflexivity].
      - rewrite Hst in H.
        assert (Hstill : existsb (fun q => Nat.eqb (fst q) rid) (ep_registry st) = true).
        { apply existsb_exists. exists (rid, b). split; [apply Hin; left; reflexivity|cbn; apply Nat.eqb_refl]. }
        rewrite Hstill in H.
        destruct (binding_evaluate fn rtl (set_helper fn rtl fuel) w b) as [w1 [ex|]] eqn:Hb; [discriminate H|].
        destruct (lazy_evaluate_frame fuel w b w1 HSC Hb) as (SC1 & FR1 & V1).
        assert (Hst1 : nth_error (w_evps w1) id = Some st) by (destruct FR1 as (_ & _ & _ & _ & _ & _ & _ & _ & E & _); rewrite E; exact Hst).
        destruct (IH w1 w' st SC1 Hst1 (fun rb Hi => Hin rb (or_intror Hi)) H) as (FR' & V').
        split; [eapply LFR_trans; eauto|]. intros p Hp. unfold regs_of in Hp. cbn [flat_map snd] in Hp. fold (regs_of w r) in Hp.
        rewrite V'; [apply V1|rewrite (regs_of_LFR _ _ r FR1)]; intros Hx; apply Hp; apply in_or_app; [left|right; exact Hx].
        rewrite Hx. left. reflexivity.
    Qed.

    Lemma loop_notes fuel id : forall l w w' st,
      LSC w -> nth_error (w_evps w) id = Some st -> (forall rb, In rb l -> In rb (ep_registry st)) ->
      NoDup (regs_of w l) ->
      evalall_loop fn rtl fuel id l w = (w', None) ->
      (forall q, In q (regs_of w l) -> values w' q = values w q) -> notes w' = notes w.
    Proof.
      induction l as [|[rid b] r IH]; intros w w' st HSC Hst Hin ND H Hsame; cbn [evalall_loop] in H.
      - inversion H; subst. reflexivity.
      - rewrite Hst in H.
        assert (Hstill : existsb (fun q => Nat.eqb (fst q) rid) (ep_registry st) = true).
        { apply existsb_exists. exists (rid, b). split; [apply Hin; left; reflexivity|cbn; apply Nat.eqb_refl]. }
        rewrite Hstill in H.
        destruct (binding_evaluate fn rtl (set_helper fn rtl fuel) w b) as [w1 [ex|]] eqn:Hb; [discriminate H|].
        destruct (lazy_evaluate_frame fuel w b w1 HSC Hb) as (SC1 & FR1 & V1).
        assert (Hst1 : nth_error (w_evps w1) id = Some st) by (destruct FR1 as (_ & _ & _ & _ & _ & _ & _ & _ & E & _); rewrite E; exact Hst).
        destruct (loop_frame fuel id r w1 w' st SC1 Hst1 (fun rb Hi => Hin rb (or_intror Hi)) H) as (FR' & V').
        unfold regs_of in ND, Hsame. cbn [flat_map snd] in ND, Hsame. fold (regs_of w r) in ND, Hsame.
        assert (NDr : NoDup (regs_of w r)) by (destruct (lz w b); [inversion ND; assumption|exact ND]).
        assert (N' : notes w' = notes w1).
        { apply (IH w1 w' st SC1 Hst1 (fun rb Hi => Hin rb (or_intror Hi))); [rewrite (regs_of_LFR _ _ r FR1); exact NDr|exact H|].
          intros q Hq. rewrite (regs_of_LFR _ _ r FR1) in Hq. rewrite (Hsame q (in_or_app _ _ _ (or_intror Hq))). symmetry. apply V1.
          intros El. rewrite El in ND. cbn in ND. inversion ND as [|? ? Hni _]. exact (Hni Hq). }
        rewrite N'. destruct (lazy_evaluate_notes fuel w b w1 HSC Hb) as [N1|(q & El & Hd)]; [exact N1|]. exfalso. apply Hd.
        rewrite El in ND, Hsame. cbn in ND, Hsame. inversion ND as [|? ? Hni _].
        rewrite <- (V' q); [apply Hsame; left; reflexivity|rewrite (regs_of_LFR _ _ r FR1); exact Hni].
    Qed.

    (* BindingEvaluator::evaluateAll *)
    Theorem lazy_evalall_notifies_only_changes fuel w e st w' :
      LSC w -> lookup (w_bevs w) e = Some ev -> nth_error (w_evps w) ev = Some st -> NoDup (regs_of w (ep_registry st)) ->
      step1 fn rtl fuel w (BevEvalAll e) = (w', None) ->
      (forall p, ~ In p (regs_of w (ep_registry st)) -> values w' p = values w p) /\
      ((forall q, In q (regs_of w (ep_registry st)) -> values w' q = values w q) -> notes w' = notes w).
    Proof.
      intros HSC He Hst ND H. cbn [step1] in H. rewrite He, Hst in H.
      change (evalall_loop fn rtl fuel ev (ep_registry st) w = (w', None)) in H. split.
      - exact (proj2 (loop_frame fuel ev (ep_registry st) w w' st HSC Hst (fun rb Hi => Hi) H)).
      - exact (loop_notes fuel ev (ep_registry st) w w' st HSC Hst (fun rb Hi => Hi) ND H).
    Qed.

    (* ---- 4. a second evaluateAll right after the first: nothing at all happens ---- *)
    Lemma eval_clean_root val env : forall t T,
      PropProofs.root_dirty t = false -> abs_tree t = Some T -> (forall p lid, In (p, lid) (A.leaves T) -> val p = Some (env p)) ->
      eval fn rtl val t = (t, inl (A.val env T), []).
    Proof.
      intros t T Hd Ha Hv. destruct t as [v|tg d l hc hm hd|f d c a|f d c a b|f d c a b e0]; cbn [PropProofs.root_dirty abs_tree eval] in *.
      - inversion Ha; subst. reflexivity.
      - destruct tg as [p|]; [|discriminate Ha]. inversion Ha; subst T. subst d. rewrite (Hv p l (or_introl eq_refl)). reflexivity.
      - destruct (abs_tree a) as [a'|]; [|discriminate Ha]. inversion Ha; subst T. subst d. reflexivity.
      - destruct (abs_tree a) as [a'|]; [|discriminate Ha]. destruct (abs_tree b) as [b'|]; [|discriminate Ha]. inversion Ha; subst T. subst d. reflexivity.
      - destruct (abs_tree a) as [a'|]; [|discriminate Ha]. destruct (abs_tree b) as [b'|]; [|discriminate Ha]. destruct (abs_tree e0) as [e'|]; [|discriminate Ha].
        inversion Ha; subst T. subst d. reflexivity.
    Qed.

    Lemma clean_root t T : abs_tree t = Some T -> A.clean T -> PropProofs.root_dirty t = false.
    Proof.
      intros Ha Hc. destruct t as [v|tg d l hc hm hd|f d c a|f d c a b|f d c a b e0]; cbn [PropProofs.root_dirty abs_tree] in *; [reflexivity| | | |].
      - destruct tg; [|discriminate Ha]. inversion Ha; subst T. exact Hc.
      - destruct (abs_tree a); [|discriminate Ha]. inversion Ha; subst T. exact (proj1 Hc).
      - destruct (abs_tree a); [|discriminate Ha]. destruct (abs_tree b); [|discriminate Ha]. inversion Ha; subst T. exact (proj1 Hc).
      - destruct (abs_tree a); [|discriminate Ha]. destruct (abs_tree b); [|discriminate Ha]. destruct (abs_tree e0); [|discriminate Ha]. inversion Ha; subst T. exact (proj1 Hc).
    Qed.

    Lemma put_bind_same w b x : get_bind w b = Some x -> put_bind w b (bind_with_root x (b_root x)) = w.
    Proof.
      intros Hb. assert (Hn : nth_error (w_binds w) b = Some x).
      { unfold get_bind in Hb. destruct (nth_error (w_binds w) b) as [y|]; [|discriminate Hb]. destruct (b_alive y); [congruence|discriminate Hb]. }
      assert (Ex : bind_with_root x (b_root x) = x) by (destruct x; reflexivity). rewrite Ex.
      unfold put_bind. rewrite (upd_same _ _ _ Hn). destruct w; reflexivity.
    Qed.

    (* a registered binding that is settled (clean tree, property = expression): evaluating it changes NOTHING *)
    Lemma settled_evaluate_identity fuel w s b q :
      LSC w -> LRel w s -> L.LInv F1 F2 F3 (LORD w) s -> lz w b = Some q -> L.done F1 F2 F3 s q ->
      binding_evaluate fn rtl (set_helper fn rtl (S fuel)) w b = (w, None).
    Proof.
      intros (Hinv & Hna & Hsi & Hal) HRel HInv Hl Hdone. pose proof HRel as (R1 & R2).
      unfold lz in Hl. destruct (get_bind w b) as [x|] eqn:Hb; [|discriminate Hl].
      assert (Bv : bview w b = Some (leaves (b_root x), Some q)) by (unfold bview; rewrite Hb, Hl; reflexivity).
      destruct (pi_tgt _ _ _ _ _ _ _ Hinv _ _ _ Bv) as (vq & Evq & Euq).
      unfold pview in Evq. destruct (lookup (w_props w) q) as [pr|] eqn:Hq; [|discriminate Evq].
      assert (vq = psigs_of pr) by (cbn in Evq; congruence). subst vq. cbn in Euq.
      assert (Hlz : lz_of w q = Some x) by (unfold lz_of; rewrite Hq, Euq; exact Hb).
      destruct (abs_tree (b_root x)) as [T|] eqn:HT; [|exfalso; exact (Hsi _ _ Hlz HT)].
      assert (Htr : L.ltr s q = Some T) by (rewrite R2, Hlz; exact HT).
      destruct (Hdone T Htr) as (Hc & Eden). destruct (HInv q T Htr) as (Hsound & _).
      assert (Hval : forall p0 lid, In (p0, lid) (A.leaves T) -> values w p0 = Some (L.lenv s p0)).
      { intros p0 lid Hi. destruct (abs_leaf_in _ _ _ _ HT Hi) as (lf & Hlf & Htg0 & _).
        destruct (leaf_target_exists w b x lf p0 Hinv Hb Hlf Htg0) as (pr0 & Hp & _). unfold values. rewrite Hp. cbn. rewrite (R1 _ _ Hp). reflexivity. }
      pose proof (eval_clean_root (values w) (L.lenv s) _ _ (clean_root _ _ HT Hc) HT Hval) as He.
      assert (Ev : A.val (L.lenv s) T = pr_value pr).
      { rewrite (L.clean_sound_den F1 F2 F3 _ _ Hc Hsound), <- Eden. apply R1. exact Hq. }
      rewrite (evaluate_equal_result_silent fuel w b x q pr _ _ _ Hb Hl Hq He Ev). cbn [log_fns]. rewrite (put_bind_same w b x Hb). reflexivity.
    Qed.

    Lemma settled_loop_identity fuel id w s st :
      LSC w -> LRel w s -> L.LInv F1 F2 F3 (LORD w) s -> nth_error (w_evps w) id = Some st ->
      (forall rb, In rb (ep_registry st) -> exists q, lz w (snd rb) = Some q /\ L.done F1 F2 F3 s q) ->
      forall l, (forall rb, In rb l -> In rb (ep_registry st)) -> evalall_loop fn rtl (S fuel) id l w = (w, None).
    Proof.
      intros HSC HRel HInv Hst Hall. induction l as [|[rid b] r IH]; intros Hin; cbn [evalall_loop]; [reflexivity|].
      rewrite Hst. destruct (existsb (fun q => Nat.eqb (fst q) rid) (ep_registry st)); [|apply IH; intros rb Hi; apply Hin; right; exact Hi].
      destruct (Hall (rid, b) (Hin _ (or_introl eq_refl))) as (q & Hl & Hd). cbn [snd] in Hl.
      rewrite (settled_evaluate_identity fuel w s b q HSC HRel HInv Hl Hd). apply IH. intros rb Hi. apply Hin. right. exact Hi.
    Qed.

    (* evaluateAll twice in a row: the second call leaves the whole world - values, trees, connection tables, the record of observer
       calls and of user-function calls - exactly as it is (every registered binding updates a property, registration order is a
       duplicate-free dependency order) *)
    Theorem lazy_second_evalall_identity fuel w e st w1 :
      LSC w -> LCOH fn w -> lookup (w_bevs w) e = Some ev -> nth_error (w_evps w) ev = Some st ->
      NoDup (regs_of w (ep_registry st)) -> lchain w (regs_of w (ep_registry st)) ->
      (forall rb, In rb (ep_registry st) -> lz w (snd rb) <> None) ->
      step1 fn rtl (S fuel) w (BevEvalAll e) = (w1, None) ->
      step1 fn rtl (S fuel) w1 (BevEvalAll e) = (w1, None).
    Proof.
      intros HSC (s & HRel & HInv) He Hst ND HC Htg H. cbn [step1] in H. rewrite He, Hst in H.
      change (evalall_loop fn rtl (S fuel) ev (ep_registry st) w = (w1, None)) in H.
      destruct (sim_lloop fn rtl ev (LORD w) (S fuel) ev (ep_registry st) w s w1 st HSC (fun _ => eq_refl) HRel Hst (fun rb Hi => Hi) H) as (SC' & FR' & Rel').
      set (regs := regs_of w (ep_registry st)) in *. set (s' := L.eval_all F1 F2 F3 (LORD w) regs s) in *.
      assert (HInv' : L.LInv F1 F2 F3 (LORD w1) s').
      { apply (LInv_order_ext fn (LORD w)); [intros p0; apply LFR_LORD; exact FR'|apply L.eval_all_inv; exact HInv]. }
      pose proof FR' as (A1 & _ & _ & _ & _ & _ & _ & _ & Eev & Ebev & _).
      cbn [step1]. rewrite Ebev, He, Eev, Hst.
      change (evalall_loop fn rtl (S fuel) ev (ep_registry st) w1 = (w1, None)).
      apply (settled_loop_identity fuel ev w1 s' st SC' Rel' HInv'); [rewrite Eev; exact Hst| |intros rb Hi; exact Hi].
      intros rb Hi. rewrite A1. destruct (lz w (snd rb)) as [q|] eqn:El; [|exfalso; exact (Htg rb Hi El)].
      exists q. split; [reflexivity|]. intros T HT.
      assert (Hq : In q regs). { unfold regs, regs_of. apply in_flat_map. exists rb. split; [exact Hi|rewrite El; left; reflexivity]. }
      exact (L.eval_all_consistent F1 F2 F3 (LORD w) regs s HInv ND (chain_of_lchain w s HRel regs HC) q T Hq HT).
    Qed.

    Corollary lazy_second_evalall_runs_nothing fuel w e st w1 w2 r :
      LSC w -> LCOH fn w -> lookup (w_bevs w) e = Some ev -> nth_error (w_evps w) ev = Some st ->
      NoDup (regs_of w (ep_registry st)) -> lchain w (regs_of w (ep_registry st)) ->
      (forall rb, In rb (ep_registry st) -> lz w (snd rb) <> None) ->
      step1 fn rtl (S fuel) w (BevEvalAll e) = (w1, None) ->
      step1 fn rtl (S fuel) w1 (BevEvalAll e) = (w2, r) -> r = None /\ w_trace w2 = w_trace w1.
    Proof.
      intros HSC HC He Hst ND HL Htg H1 H2. rewrite (lazy_second_evalall_identity fuel w e st w1 HSC HC He Hst ND HL Htg H1) in H2.
      inversion H2; subst. split; reflexivity.
    Qed.

    (* ... in every world reached by a history of PropMoveLazy.grow_op_lazy3 operations no premise is left *)
    Theorem lazy3_reachable_notifies_only_changes f ops e w' :
      PropMoveLazy.lazy_run3_ok fn rtl f world0 ops ->
      let w := run fn rtl (S f) ops in
      lookup (w_bevs w) e = Some ev ->
      step1 fn rtl (S f) w (BevEvalAll e) = (w', None) ->
      forall st, nth_error (w_evps w) ev = Some st ->
      (forall p, ~ In p (regs_of w (ep_registry st)) -> values w' p = values w p) /\
      ((forall q, In q (regs_of w (ep_registry st)) -> values w' q = values w q) -> notes w' = notes w).
    Proof.
      intros Hok w He H st Hst.
      destruct (PropMoveLazy.lazy_grow3_coherent fn rtl ev ev_pos f ops world0 (PropGrowLazy.LSC_world0 ev ev_pos) (PropGrowLazy.LSND_world0 fn) (PropGrowLazy.LREG_world0 ev ev_pos) (PropMove.NOEMIT_world0) Hok) as (HSC & HS & HR).
      change (LSC w) in HSC. change (PropGrowLazy.LREG ev w) in HR. unfold PropGrowLazy.LREG in HR. rewrite Hst in HR. destruct HR as (ND & _).
      exact (lazy_evalall_notifies_only_changes (S f) w e st w' HSC He Hst ND H).
    Qed.
  End Lazy.
End Notify.
