(* "evaluateAll ... emits change notifications only for values that actually changed" (C06).
   1. any world, any observers: a Binding::evaluate whose result equals the current value of its property stops in setHelper's
      equality test - no observer is called, no property, no connection table changes;
   2. worlds of evaluator-driven bindings: one Binding::evaluate changes no property but its own, and calls an observer only if
      that property's value is different afterwards;
   3. hence an evaluateAll over a duplicate-free registry after which every registered property has the value it had before has
      called no observer at all, and in any case no unregistered property changed. *)
From KDB Require Import Util UtilProofs PropDefs PropFlags PropLink PropLinkBasics PropLinkOps PropLinkTheorems PropSim PropSimLazy PropGrowLazy.
From KDB Require PropAbs PropAbsProofs PropAbsLazy PropProofs PropCheck PropMove PropMoveLazy PropMixed PropReg PropTgt.
Module L := PropAbsLazy.
Module A := PropAbs.

Definition is_note (e : event) : bool := match e with EvNotify _ _ _ _ => true | _ => false end.
(* the observer calls recorded so far, newest first *)
Definition notes (w : world) : list event := filter is_note (w_trace w).

Lemma notes_log_fns l : forall w, notes (log_fns l w) = notes w.
Proof. induction l as [|f r IH]; intros w; cbn [log_fns]; [reflexivity|]. rewrite IH. reflexivity. Qed.
Lemma tables_log_fns l : forall w, w_tables (log_fns l w) = w_tables w.
Proof. induction l as [|f r IH]; intros w; cbn [log_fns]; [reflexivity|]. rewrite IH. reflexivity. Qed.

Section Notify.
  Variable fn : nat -> list Z -> option Z.
  Variable rtl : bool.
  Notation F1 := (PropSim.F1 fn).
  Notation F2 := (PropSim.F2 fn).
  Notation F3 := (PropSim.F3 fn).

  (* ---- 1. any world ---- *)
  Theorem evaluate_equal_result_silent fuel w b x q pr t v lg :
    get_bind w b = Some x -> b_target x = Some q -> lookup (w_props w) q = Some pr ->
    eval fn rtl (values w) (b_root x) = (t, inl v, lg) -> v = pr_value pr ->
    binding_evaluate fn rtl (set_helper fn rtl (S fuel)) w b = (log_fns lg (put_bind w b (bind_with_root x t)), None).
  Proof.
    intros Hb Ht Hq He Hv. unfold binding_evaluate. rewrite Hb, He, Ht. cbn [set_helper].
    rewrite PropProofs.log_fns_props. change (w_props (put_bind w b (bind_with_root x t))) with (w_props w). rewrite Hq.
    subst v. rewrite Z.eqb_refl. reflexivity.
  Qed.

  Corollary evaluate_equal_result_notifies_nobody fuel w b x q pr t v lg w' r :
    get_bind w b = Some x -> b_target x = Some q -> lookup (w_props w) q = Some pr ->
    eval fn rtl (values w) (b_root x) = (t, inl v, lg) -> v = pr_value pr ->
    binding_evaluate fn rtl (set_helper fn rtl (S fuel)) w b = (w', r) ->
    r = None /\ notes w' = notes w /\ w_props w' = w_props w /\ w_tables w' = w_tables w.
  Proof.
    intros Hb Ht Hq He Hv H. rewrite (evaluate_equal_result_silent fuel w b x q pr t v lg Hb Ht Hq He Hv) in H. inversion H; subst.
    split; [reflexivity|]. split; [rewrite notes_log_fns; reflexivity|]. split; [rewrite PropProofs.log_fns_props; reflexivity|rewrite tables_log_fns; reflexivity].
  Qed.

  (* ---- 2. worlds of evaluator-driven bindings ---- *)
  Section Lazy.
    Variable ev : nat.
    Hypothesis ev_pos : ev <> 0.
    Notation LSC := (PropSimLazy.LSC ev).

    Definition canon (w : world) : L.lstate :=
      {| L.lenv := fun p => match lookup (w_props w) p with Some pr => pr_value pr | None => 0%Z end;
         L.ltr := fun q => match lz_of w q with Some x => abs_tree (b_root x) | None => None end |}.
    Lemma LRel_canon w : LRel w (canon w).
    Proof. split; [intros p pr Hp; cbn; rewrite Hp; reflexivity|intros q; reflexivity]. Qed.

    Lemma values_LRel w s p : LRel w s -> values w p = match lookup (w_props w) p with Some _ => Some (L.lenv s p) | None => None end.
    Proof. intros (R1 & _). unfold values. destruct (lookup (w_props w) p) as [pr|] eqn:Hp; [|reflexivity]. cbn. rewrite (R1 _ _ Hp). reflexivity. Qed.

    Lemma LFR_lookup w w' p : LFR w w' -> (lookup (w_props w') p = None <-> lookup (w_props w) p = None).
    Proof.
      intros (_ & _ & P3 & _). pose proof (P3 p) as E. unfold pview in E.
      destruct (lookup (w_props w') p), (lookup (w_props w) p); try discriminate E; split; intros; congruence.
    Qed.

    Lemma eval_one_env order s q p : p <> q -> L.lenv (L.eval_one F1 F2 F3 order s q) p = L.lenv s p.
    Proof.
      intros Hne. unfold L.eval_one. destruct (L.ltr s q) as [T|]; [|reflexivity].
      destruct (A.eval F1 F2 F3 (L.lenv s) T) as [T2 vT]. rewrite (L.lset_env F1 F2 F3). destruct (Nat.eqb_spec p q); [contradiction|reflexivity].
    Qed.

    (* one Binding::evaluate: no property but its own changes value *)
    Lemma lazy_evaluate_frame fuel w b w' :
      LSC w -> binding_evaluate fn rtl (set_helper fn rtl fuel) w b = (w', None) ->
      LSC w' /\ LFR w w' /\ forall p, lz w b <> Some p -> values w' p = values w p.
    Proof.
      intros HSC H.
      destruct (sim_lbinding_evaluate fn rtl ev (LORD w) fuel w (canon w) b w' HSC (fun _ => eq_refl) (LRel_canon w) H) as (SC' & FR' & Rel').
      split; [exact SC'|]. split; [exact FR'|]. intros p Hp.
      rewrite (values_LRel w' _ p Rel'), (values_LRel w _ p (LRel_canon w)).
      pose proof (LFR_lookup w w' p FR') as Hl.
      destruct (lookup (w_props w') p) as [pr'|] eqn:E', (lookup (w_props w) p) as [pr|] eqn:E; try reflexivity;
        try (exfalso; destruct Hl as [Hl1 Hl2]; (discriminate (Hl1 eq_refl) || discriminate (Hl2 eq_refl))).
      f_equal. destruct (lz w b) as [q|]; [|reflexivity]. apply eval_one_env. intros ->. apply Hp. reflexivity.
    Qed.

    (* ... and it calls an observer only if the value of its property is different afterwards *)
    Lemma lazy_evaluate_notes fuel w b w' :
      LSC w -> binding_evaluate fn rtl (set_helper fn rtl fuel) w b = (w', None) ->
      notes w' = notes w \/ exists q, lz w b = Some q /\ values w' q <> values w q.
    Proof.
      intros HSC H. pose proof HSC as (Hinv & Hna & Hsi & Hal).
      destruct (sim_lbinding_evaluate fn rtl ev (LORD w) fuel w (canon w) b w' HSC (fun _ => eq_refl) (LRel_canon w) H) as (SC' & FR' & Rel').
      pose proof H as H0. unfold binding_evaluate in H.
      destruct (get_bind w b) as [x|] eqn:Hb; [|discriminate H].
      destruct (eval fn rtl (values w) (b_root x)) as [[t r] lg] eqn:He. destruct r as [v|ex]; [|discriminate H].
      destruct (b_target x) as [q|] eqn:Htg.
      - assert (Bv : bview w b = Some (leaves (b_root x), Some q)) by (unfold bview; rewrite Hb, Htg; reflexivity).
        destruct (pi_tgt _ _ _ _ _ _ _ Hinv _ _ _ Bv) as (vq & Evq & Euq).
        unfold pview in Evq. destruct (lookup (w_props w) q) as [pr|] eqn:Hq; [|discriminate Evq].
        assert (vq = psigs_of pr) by (cbn in Evq; congruence). subst vq. cbn in Euq.
        destruct (Z.eq_dec v (pr_value pr)) as [Ev|Ev].
        + left. destruct fuel as [|f]; [cbn [set_helper] in H; discriminate H|].
          destruct (evaluate_equal_result_notifies_nobody f w b x q pr t v lg w' None Hb Htg Hq He Ev H0) as (_ & N & _). exact N.
        + right. exists q. split; [unfold lz; rewrite Hb; exact Htg|].
          assert (Hlz : lz_of w q = Some x) by (unfold lz_of; rewrite Hq, Euq; exact Hb).
          destruct (abs_tree (b_root x)) as [T|] eqn:HT; [|exfalso; exact (Hsi _ _ Hlz HT)].
          assert (Hval : forall p0 lid, In (p0, lid) (A.leaves T) -> values w p0 = Some (L.lenv (canon w) p0)).
          { intros p0 lid Hi. destruct (abs_leaf_in _ _ _ _ HT Hi) as (lf & Hlf & Htg0 & _).
            destruct (leaf_target_exists w b x lf p0 Hinv Hb Hlf Htg0) as (pr0 & Hp & _). unfold values. rewrite Hp. cbn. rewrite Hp. reflexivity. }
          destruct (sim_eval fn rtl (values w) (L.lenv (canon w)) _ _ _ _ _ HT Hval He) as [_ EvT].
          assert (Hl : lz w b = Some q) by (unfold lz; rewrite Hb; exact Htg). rewrite Hl in Rel'.
          rewrite (values_LRel w' _ q Rel'). unfold values. rewrite Hq. cbn [option_map].
          pose proof (LFR_lookup w w' q FR') as Hlk. destruct (lookup (w_props w') q) as [pr'|] eqn:E'; [|intros; discriminate].
          intros E. apply Ev. injection E as E1. rewrite <- E1. unfold L.eval_one.
          assert (Htr : L.ltr (canon w) q = Some T) by (cbn; rewrite Hlz; exact HT). rewrite Htr.
          destruct (A.eval F1 F2 F3 (L.lenv (canon w)) T) as [T2 vT] eqn:HeT. cbn [snd] in EvT. rewrite (L.lset_env F1 F2 F3), Nat.eqb_refl. exact EvT.
      - left. inversion H; subst w'. rewrite notes_log_fns. reflexivity.
    Qed.

    (* ---- 3. the loop of evaluateAll ---- *)
    Lemma loop_frame fuel id : forall l w w' st,
      LSC w -> nth_error (w_evps w) id = Some st -> (forall rb, In rb l -> In rb (ep_registry st)) ->
      evalall_loop fn rtl fuel id l w = (w', None) ->
      LFR w w' /\ forall p, ~ In p (regs_of w l) -> values w' p = values w p.
    Proof.
      induction l as [|[rid b] r IH]; intros w w' st HSC Hst Hin H; cbn [evalall_loop] in H.
      - inversion H; subst. split; [apply LFR_refl|reflexivity].
      - rewrite Hst in H.
        assert (Hstill : existsb (fun q => Nat.eqb (fst q) rid) (ep_registry st) = true).
        { apply existsb_exists. exists (rid, b). split; [apply Hin; left; reflexivity|cbn; apply Nat.eqb_refl]. }
        rewrite Hstill in H.
        destruct (binding_evaluate fn rtl (set_helper fn rtl fuel) w b) as [w1 [ex|]] eqn:Hb; [discriminate H|].
        destruct (lazy_evaluate_frame fuel w b w1 HSC Hb) as (SC1 & FR1 & V1).
        assert (Hst1 : nth_error (w_evps w1) id = Some st) by (destruct FR1 as (_ & _ & _ & _ & _ & _ & _ & _ & E & _); rewrite E; exact Hst).
        destruct (IH w1 w' st SC1 Hst1 (fun rb Hi => Hin rb (or_intror Hi)) H) as (FR' & V').
        split; [eapply LFR_trans; eauto|]. intros p Hp. unfold regs_of in Hp. cbn [flat_map snd] in Hp. fold (regs_of w r) in Hp.
        rewrite V'; [apply V1|rewrite (regs_of_LFR _ _ r FR1)]; intros Hx; apply Hp; apply in_or_app; [left|right; exact Hx].
        rewrite Hx. left. reflexivity.
    Qed.

    Lemma loop_notes fuel id : forall l w w' st,
      LSC w -> nth_error (w_evps w) id = Some st -> (forall rb, In rb l -> In rb (ep_registry st)) ->
      NoDup (regs_of w l) ->
      evalall_loop fn rtl fuel id l w = (w', None) ->
      (forall q, In q (regs_of w l) -> values w' q = values w q) -> notes w' = notes w.
    Proof.
      induction l as [|[rid b] r IH]; intros w w' st HSC Hst Hin ND H Hsame; cbn [evalall_loop] in H.
      - inversion H; subst. reflexivity.
      - rewrite Hst in H.
        assert (Hstill : existsb (fun q => Nat.eqb (fst q) rid) (ep_registry st) = true).
        { apply existsb_exists. exists (rid, b). split; [apply Hin; left; reflexivity|cbn; apply Nat.eqb_refl]. }
        rewrite Hstill in H.
        destruct (binding_evaluate fn rtl (set_helper fn rtl fuel) w b) as [w1 [ex|]] eqn:Hb; [discriminate H|].
        destruct (lazy_evaluate_frame fuel w b w1 HSC Hb) as (SC1 & FR1 & V1).
        assert (Hst1 : nth_error (w_evps w1) id = Some st) by (destruct FR1 as (_ & _ & _ & _ & _ & _ & _ & _ & E & _); rewrite E; exact Hst).
        destruct (loop_frame fuel id r w1 w' st SC1 Hst1 (fun rb Hi => Hin rb (or_intror Hi)) H) as (FR' & V').
        unfold regs_of in ND, Hsame. cbn [flat_map snd] in ND, Hsame. fold (regs_of w r) in ND, Hsame.
        assert (NDr : NoDup (regs_of w r)) by (destruct (lz w b); [inversion ND; assumption|exact ND]).
        assert (N' : notes w' = notes w1).
        { apply (IH w1 w' st SC1 Hst1 (fun rb Hi => Hin rb (or_intror Hi))); [rewrite (regs_of_LFR _ _ r FR1); exact NDr|exact H|].
          intros q Hq. rewrite (regs_of_LFR _ _ r FR1) in Hq. rewrite (Hsame q (in_or_app _ _ _ (or_intror Hq))). symmetry. apply V1.
          intros El. rewrite El in ND. cbn in ND. inversion ND as [|? ? Hni _]. exact (Hni Hq). }
        rewrite N'. destruct (lazy_evaluate_notes fuel w b w1 HSC Hb) as [N1|(q & El & Hd)]; [exact N1|]. exfalso. apply Hd.
        rewrite El in ND, Hsame. cbn in ND, Hsame. inversion ND as [|? ? Hni _].
        rewrite <- (V' q); [apply Hsame; left; reflexivity|rewrite (regs_of_LFR _ _ r FR1); exact Hni].
    Qed.

    (* BindingEvaluator::evaluateAll *)
    Theorem lazy_evalall_notifies_only_changes fuel w e st w' :
      LSC w -> lookup (w_bevs w) e = Some ev -> nth_error (w_evps w) ev = Some st -> NoDup (regs_of w (ep_registry st)) ->
      step1 fn rtl fuel w (BevEvalAll e) = (w', None) ->
      (forall p, ~ In p (regs_of w (ep_registry st)) -> values w' p = values w p) /\
      ((forall q, In q (regs_of w (ep_registry st)) -> values w' q = values w q) -> notes w' = notes w).
    Proof.
      intros HSC He Hst ND H. cbn [step1] in H. rewrite He, Hst in H.
      change (evalall_loop fn rtl fuel ev (ep_registry st) w = (w', None)) in H. split.
      - exact (proj2 (loop_frame fuel ev (ep_registry st) w w' st HSC Hst (fun rb Hi => Hi) H)).
      - exact (loop_notes fuel ev (ep_registry st) w w' st HSC Hst (fun rb Hi => Hi) ND H).
    Qed.

    (* ---- 4. a second evaluateAll right after the first: nothing at all happens ---- *)
    Lemma eval_clean_root val env : forall t T,
      PropProofs.root_dirty t = false -> abs_tree t = Some T -> (forall p lid, In (p, lid) (A.leaves T) -> val p = Some (env p)) ->
      eval fn rtl val t = (t, inl (A.val env T), []).
    Proof.
      intros t T Hd Ha Hv. destruct t as [v|tg d l hc hm hd|f d c a|f d c a b|f d c a b e0]; cbn [PropProofs.root_dirty abs_tree eval] in *.
      - inversion Ha; subst. reflexivity.
      - destruct tg as [p|]; [|discriminate Ha]. inversion Ha; subst T. subst d. rewrite (Hv p l (or_introl eq_refl)). reflexivity.
      - destruct (abs_tree a) as [a'|]; [|discriminate Ha]. inversion Ha; subst T. subst d. reflexivity.
      - destruct (abs_tree a) as [a'|]; [|discriminate Ha]. destruct (abs_tree b) as [b'|]; [|discriminate Ha]. inversion Ha; subst T. subst d. reflexivity.
      - destruct (abs_tree a) as [a'|]; [|discriminate Ha]. destruct (abs_tree b) as [b'|]; [|discriminate Ha]. destruct (abs_tree e0) as [e'|]; [|discriminate Ha].
        inversion Ha; subst T. subst d. reflexivity.
    Qed.

    Lemma clean_root t T : abs_tree t = Some T -> A.clean T -> PropProofs.root_dirty t = false.
    Proof.
      intros Ha Hc. destruct t as [v|tg d l hc hm hd|f d c a|f d c a b|f d c a b e0]; cbn [PropProofs.root_dirty abs_tree] in *; [reflexivity| | | |].
      - destruct tg; [|discriminate Ha]. inversion Ha; subst T. exact Hc.
      - destruct (abs_tree a); [|discriminate Ha]. inversion Ha; subst T. exact (proj1 Hc).
      - destruct (abs_tree a); [|discriminate Ha]. destruct (abs_tree b); [|discriminate Ha]. inversion Ha; subst T. exact (proj1 Hc).
      - destruct (abs_tree a); [|discriminate Ha]. destruct (abs_tree b); [|discriminate Ha]. destruct (abs_tree e0); [|discriminate Ha]. inversion Ha; subst T. exact (proj1 Hc).
    Qed.

    Lemma put_bind_same w b x : get_bind w b = Some x -> put_bind w b (bind_with_root x (b_root x)) = w.
    Proof.
      intros Hb. assert (Hn : nth_error (w_binds w) b = Some x).
      { unfold get_bind in Hb. destruct (nth_error (w_binds w) b) as [y|]; [|discriminate Hb]. destruct (b_alive y); [congruence|discriminate Hb]. }
      assert (Ex : bind_with_root x (b_root x) = x) by (destruct x; reflexivity). rewrite Ex.
      unfold put_bind. rewrite (upd_same _ _ _ Hn). destruct w; reflexivity.
    Qed.

    (* a registered binding that is settled (clean tree, property = expression): evaluating it changes NOTHING *)
    Lemma settled_evaluate_identity fuel w s b q :
      LSC w -> LRel w s -> L.LInv F1 F2 F3 (LORD w) s -> lz w b = Some q -> L.done F1 F2 F3 s q ->
      binding_evaluate fn rtl (set_helper fn rtl (S fuel)) w b = (w, None).
    Proof.
      intros (Hinv & Hna & Hsi & Hal) HRel HInv Hl Hdone. pose proof HRel as (R1 & R2).
      unfold lz in Hl. destruct (get_bind w b) as [x|] eqn:Hb; [|discriminate Hl].
      assert (Bv : bview w b = Some (leaves (b_root x), Some q)) by (unfold bview; rewrite Hb, Hl; reflexivity).
      destruct (pi_tgt _ _ _ _ _ _ _ Hinv _ _ _ Bv) as (vq & Evq & Euq).
      unfold pview in Evq. destruct (lookup (w_props w) q) as [pr|] eqn:Hq; [|discriminate Evq].
      assert (vq = psigs_of pr) by (cbn in Evq; congruence). subst vq. cbn in Euq.
      assert (Hlz : lz_of w q = Some x) by (unfold lz_of; rewrite Hq, Euq; exact Hb).
      destruct (abs_tree (b_root x)) as [T|] eqn:HT; [|exfalso; exact (Hsi _ _ Hlz HT)].
      assert (Htr : L.ltr s q = Some T) by (rewrite R2, Hlz; exact HT).
      destruct (Hdone T Htr) as (Hc & Eden). destruct (HInv q T Htr) as (Hsound & _).
      assert (Hval : forall p0 lid, In (p0, lid) (A.leaves T) -> values w p0 = Some (L.lenv s p0)).
      { intros p0 lid Hi. destruct (abs_leaf_in _ _ _ _ HT Hi) as (lf & Hlf & Htg0 & _).
        destruct (leaf_target_exists w b x lf p0 Hinv Hb Hlf Htg0) as (pr0 & Hp & _). unfold values. rewrite Hp. cbn. rewrite (R1 _ _ Hp). reflexivity. }
      pose proof (eval_clean_root (values w) (L.lenv s) _ _ (clean_root _ _ HT Hc) HT Hval) as He.
      assert (Ev : A.val (L.lenv s) T = pr_value pr).
      { rewrite (L.clean_sound_den F1 F2 F3 _ _ Hc Hsound), <- Eden. apply R1. exact Hq. }
      rewrite (evaluate_equal_result_silent fuel w b x q pr _ _ _ Hb Hl Hq He Ev). cbn [log_fns]. rewrite (put_bind_same w b x Hb). reflexivity.
    Qed.

    Lemma settled_loop_identity fuel id w s st :
      LSC w -> LRel w s -> L.LInv F1 F2 F3 (LORD w) s -> nth_error (w_evps w) id = Some st ->
      (forall rb, In rb (ep_registry st) -> exists q, lz w (snd rb) = Some q /\ L.done F1 F2 F3 s q) ->
      forall l, (forall rb, In rb l -> In rb (ep_registry st)) -> evalall_loop fn rtl (S fuel) id l w = (w, None).
    Proof.
      intros HSC HRel HInv Hst Hall. induction l as [|[rid b] r IH]; intros Hin; cbn [evalall_loop]; [reflexivity|].
      rewrite Hst. destruct (existsb (fun q => Nat.eqb (fst q) rid) (ep_registry st)); [|apply IH; intros rb Hi; apply Hin; right; exact Hi].
      destruct (Hall (rid, b) (Hin _ (or_introl eq_refl))) as (q & Hl & Hd). cbn [snd] in Hl.
      rewrite (settled_evaluate_identity fuel w s b q HSC HRel HInv Hl Hd). apply IH. intros rb Hi. apply Hin. right. exact Hi.
    Qed.

    (* evaluateAll twice in a row: the second call leaves the whole world - values, trees, connection tables, the record of observer
       calls and of user-function calls - exactly as it is (every registered binding updates a property, registration order is a
       duplicate-free dependency order) *)
    Theorem lazy_second_evalall_identity fuel w e st w1 :
      LSC w -> LCOH fn w -> lookup (w_bevs w) e = Some ev -> nth_error (w_evps w) ev = Some st ->
      NoDup (regs_of w (ep_registry st)) -> lchain w (regs_of w (ep_registry st)) ->
      (forall rb, In rb (ep_registry st) -> lz w (snd rb) <> None) ->
      step1 fn rtl (S fuel) w (BevEvalAll e) = (w1, None) ->
      step1 fn rtl (S fuel) w1 (BevEvalAll e) = (w1, None).
    Proof.
      intros HSC (s & HRel & HInv) He Hst ND HC Htg H. cbn [step1] in H. rewrite He, Hst in H.
      change (evalall_loop fn rtl (S fuel) ev (ep_registry st) w = (w1, None)) in H.
      destruct (sim_lloop fn rtl ev (LORD w) (S fuel) ev (ep_registry st) w s w1 st HSC (fun _ => eq_refl) HRel Hst (fun rb Hi => Hi) H) as (SC' & FR' & Rel').
      set (regs := regs_of w (ep_registry st)) in *. set (s' := L.eval_all F1 F2 F3 (LORD w) regs s) in *.
      assert (HInv' : L.LInv F1 F2 F3 (LORD w1) s').
      { apply (LInv_order_ext fn (LORD w)); [intros p0; apply LFR_LORD; exact FR'|apply L.eval_all_inv; exact HInv]. }
      pose proof FR' as (A1 & _ & _ & _ & _ & _ & _ & _ & Eev & Ebev & _).
      cbn [step1]. rewrite Ebev, He, Eev, Hst.
      change (evalall_loop fn rtl (S fuel) ev (ep_registry st) w1 = (w1, None)).
      apply (settled_loop_identity fuel ev w1 s' st SC' Rel' HInv'); [rewrite Eev; exact Hst| |intros rb Hi; exact Hi].
      intros rb Hi. rewrite A1. destruct (lz w (snd rb)) as [q|] eqn:El; [|exfalso; exact (Htg rb Hi El)].
      exists q. split; [reflexivity|]. intros T HT.
      assert (Hq : In q regs). { unfold regs, regs_of. apply in_flat_map. exists rb. split; [exact Hi|rewrite El; left; reflexivity]. }
      exact (L.eval_all_consistent F1 F2 F3 (LORD w) regs s HInv ND (chain_of_lchain w s HRel regs HC) q T Hq HT).
    Qed.

    Corollary lazy_second_evalall_runs_nothing fuel w e st w1 w2 r :
      LSC w -> LCOH fn w -> lookup (w_bevs w) e = Some ev -> nth_error (w_evps w) ev = Some st ->
      NoDup (regs_of w (ep_registry st)) -> lchain w (regs_of w (ep_registry st)) ->
      (forall rb, In rb (ep_registry st) -> lz w (snd rb) <> None) ->
      step1 fn rtl (S fuel) w (BevEvalAll e) = (w1, None) ->
      step1 fn rtl (S fuel) w1 (BevEvalAll e) = (w2, r) -> r = None /\ w_trace w2 = w_trace w1.
    Proof.
      intros HSC HC He Hst ND HL Htg H1 H2. rewrite (lazy_second_evalall_identity fuel w e st w1 HSC HC He Hst ND HL Htg H1) in H2.
      inversion H2; subst. split; reflexivity.
    Qed.

    (* ---- 5. the exact record of one assignment in a world of evaluator-driven bindings: the change protocol of C03 with bindings
       reading the property (their nodes are only marked: nothing is recorded for them) ---- *)
    Definition lazyw (w : world) : Prop := forall b x, get_bind w b = Some x -> b_evp x <> 0.

    Lemma walk_lazy_trace R t p k payload tb :
      k = KAbout \/ k = KChanged ->
      (forall x ser label act, nth_error (t_slots tb) x = Some (Some (ser, SObs label act)) -> act = None) ->
      forall idxs w w', get_table w t = Some tb -> lazyw w ->
        walk fn rtl R w t p k payload idxs = (w', None) ->
        w_trace w' = rev (map (fun label => EvNotify label k payload (values w p)) (PropProofs.labels_at tb idxs)) ++ w_trace w /\
        w_tables w' = w_tables w /\ w_props w' = w_props w /\ lazyw w'.
    Proof.
      intros Hk Hact. induction idxs as [|x r IH]; intros w w' Ht Hlz H; cbn [walk PropProofs.labels_at flat_map] in *.
      - inversion H; subst. repeat split; auto.
      - rewrite Ht in H. destruct (nth_error (t_slots tb) x) as [[[ser s]|]|] eqn:Hx; [|exact (IH w w' Ht Hlz H)..].
        destruct s as [label act|b l]; cbn [deliver] in H.
        + rewrite (Hact _ _ _ _ Hx) in H.
          set (w1 := log (EvNotify label k payload (values w p)) w) in *.
          assert (E1 : (match payload with | _ => ok w1 end) = ok w1) by (destruct payload; reflexivity).
          assert (H1 : walk fn rtl R w1 t p k payload r = (w', None)) by (destruct payload; exact H).
          destruct (IH w1 w' Ht Hlz H1) as (Htr & Htb & Hpr & Hl'). split; [|auto].
          rewrite Htr. cbn [app map rev]. rewrite <- app_assoc. reflexivity.
        + destruct (get_bind w b) as [y|] eqn:Hy; [|discriminate H].
          destruct Hk as [-> | ->]; [discriminate H|].
          destruct (mark (b_root y) l) as [[t1 up]|]; [|discriminate H].
          set (w1 := put_bind w b (bind_with_root y t1)) in *.
          assert (Hev : Nat.eqb (b_evp y) 0 = false) by (apply Nat.eqb_neq; exact (Hlz _ _ Hy)). rewrite Hev in H.
          assert (H1 : walk fn rtl R w1 t p KChanged payload r = (w', None)) by (destruct up; exact H).
          assert (Hlz1 : lazyw w1).
          { intros c z Hz. unfold w1 in Hz. rewrite (get_bind_put_root _ _ _ _ c Hy) in Hz. destruct (Nat.eqb b c); [|exact (Hlz _ _ Hz)].
            inversion Hz; subst z. cbn [bind_with_root b_evp]. exact (Hlz _ _ Hy). }
          destruct (IH w1 w' Ht Hlz1 H1) as (Htr & Htb & Hpr & Hl'). auto.
    Qed.

    Lemma emit_lazy_trace R w ot p k payload w' :
      k = KAbout \/ k = KChanged ->
      (forall t tb x ser label act, ot = Some t -> get_table w t = Some tb -> nth_error (t_slots tb) x = Some (Some (ser, SObs label act)) -> act = None) ->
      lazyw w -> emit fn rtl R w ot p k payload = (w', None) ->
      w_trace w' = rev (map (fun label => EvNotify label k payload (values w p)) (PropProofs.all_labels w ot)) ++ w_trace w /\
      w_tables w' = w_tables w /\ w_props w' = w_props w /\ lazyw w'.
    Proof.
      intros Hk Hact Hlz H. destruct ot as [t|]; cbn [emit PropProofs.all_labels] in *; [|inversion H; subst; repeat split; auto].
      destruct (get_table w t) as [tb|] eqn:Ht; [|discriminate H]. destruct (t_emitting tb) eqn:Hem; [discriminate H|].
      set (tb1 := {| t_slots := t_slots tb; t_free := t_free tb; t_emitting := true; t_alive := t_alive tb |}) in *.
      set (w1 := put_table w t tb1) in *.
      assert (Hlt : t < length (w_tables w)) by (apply nth_error_Some; unfold get_table in Ht; congruence).
      assert (Ht1 : get_table w1 t = Some tb1) by (unfold get_table, w1, put_table; cbn; apply nth_upd_same; assumption).
      destruct (walk fn rtl R w1 t p k payload (seq 0 (length (t_slots tb)))) as [w2 [e|]] eqn:Hw.
      { destruct (get_table w2 t); discriminate H. }
      destruct (walk_lazy_trace R t p k payload tb1 Hk (fun x ser label act Hx => Hact t tb x ser label act eq_refl Ht Hx)
                  (seq 0 (length (t_slots tb))) w1 w2 Ht1 Hlz Hw) as (Htr & Htb & Hpr & Hl2).
      unfold get_table in H. rewrite Htb in H. fold (get_table w1 t) in H. rewrite Ht1 in H. inversion H; subst w'. clear H.
      cbn [put_table set_tables w_trace w_tables w_props]. split; [exact Htr|]. split; [|split; [exact Hpr|exact Hl2]].
      rewrite Htb. unfold w1, put_table; cbn. rewrite upd_upd. apply upd_same.
      unfold get_table in Ht. rewrite Ht. destruct tb; cbn in *; subst; reflexivity.
    Qed.

    Theorem lazy_set_protocol f w p v pr w' :
      NOACT w -> lazyw w -> lookup (w_props w) p = Some pr -> v <> pr_value pr -> set_helper fn rtl (S f) w p v = (w', None) ->
      w_trace w' = rev (map (fun label => EvNotify label KChanged [v] (Some v)) (PropProofs.all_labels w (pr_changed pr)))
                   ++ rev (map (fun label => EvNotify label KAbout [pr_value pr; v] (Some (pr_value pr))) (PropProofs.all_labels w (pr_about pr)))
                   ++ w_trace w /\
      lookup (w_props w') p = Some (prop_set_value pr v) /\ (forall q, q <> p -> lookup (w_props w') q = lookup (w_props w) q).
    Proof.
      intros Hna Hlz Hp Hne H. cbn [set_helper] in H. rewrite Hp in H.
      destruct (Z.eqb_spec v (pr_value pr)) as [E|_]; [contradiction|].
      assert (Hact : forall w0, w_tables w0 = w_tables w -> forall ot t tb x ser label act, ot = Some t -> get_table w0 t = Some tb ->
                       nth_error (t_slots tb) x = Some (Some (ser, SObs label act)) -> act = None).
      { intros w0 E0 ot t tb x ser label act _ Ht Hx. apply (Hna t x ser label act).
        exists (t_slots tb), (t_free tb), (t_alive tb). split; [unfold tview, get_table in *; rewrite <- E0, Ht; reflexivity|exact Hx]. }
      destruct (emit fn rtl (set_helper fn rtl f) w (pr_about pr) p KAbout [pr_value pr; v]) as [w1 [e|]] eqn:He1; [discriminate H|].
      destruct (emit_lazy_trace _ w (pr_about pr) p KAbout _ w1 (or_introl eq_refl) (Hact w eq_refl (pr_about pr)) Hlz He1) as (Htr1 & Htb1 & Hpr1 & Hlz1).
      rewrite Hpr1, Hp in H.
      set (w2 := set_props w1 (bind_key (w_props w) p (prop_set_value pr v))) in *.
      cbn [prop_set_value pr_changed] in H.
      assert (Hlz2 : lazyw w2) by exact Hlz1.
      destruct (emit_lazy_trace _ w2 (pr_changed pr) p KChanged _ w' (or_intror eq_refl) (Hact w2 Htb1 (pr_changed pr)) Hlz2 H) as (Htr3 & Htb3 & Hpr3 & _).
      assert (Hv2 : values w2 p = Some v) by (unfold values, w2; cbn [set_props w_props]; rewrite lookup_bind_same; reflexivity).
      assert (Hv0 : values w p = Some (pr_value pr)) by (unfold values; rewrite Hp; reflexivity).
      assert (Hl2 : PropProofs.all_labels w2 (pr_changed pr) = PropProofs.all_labels w (pr_changed pr)).
      { unfold PropProofs.all_labels, get_table, w2; cbn. rewrite Htb1. reflexivity. }
      split.
      - rewrite Htr3, Hv2, Hl2. change (w_trace w2) with (w_trace w1). rewrite Htr1, Hv0. reflexivity.
      - rewrite Hpr3. unfold w2; cbn [set_props w_props]. split; [apply lookup_bind_same|intros q Hq; apply lookup_bind_other; assumption].
    Qed.

    (* Binding::evaluate with a result different from the current value: every about-to-change observer of the property is called once
       with (current, new) while get() is still the current value, then every changed observer once with the new value while get()
       already returns it, in connection order - and no other observer of anything *)
    Theorem lazy_evaluate_announces_change f w b x q pr t v lg w' :
      LSC w -> get_bind w b = Some x -> b_target x = Some q -> lookup (w_props w) q = Some pr ->
      eval fn rtl (values w) (b_root x) = (t, inl v, lg) -> v <> pr_value pr ->
      binding_evaluate fn rtl (set_helper fn rtl (S f)) w b = (w', None) ->
      notes w' = rev (map (fun label => EvNotify label KChanged [v] (Some v)) (PropProofs.all_labels w (pr_changed pr)))
                 ++ rev (map (fun label => EvNotify label KAbout [pr_value pr; v] (Some (pr_value pr))) (PropProofs.all_labels w (pr_about pr)))
                 ++ notes w /\
      values w' q = Some v.
    Proof.
      intros (Hinv & Hna & Hsi & Hal) Hb Htg Hq He Hne H. unfold binding_evaluate in H. rewrite Hb, He, Htg in H.
      set (w1 := log_fns lg (put_bind w b (bind_with_root x t))) in *.
      assert (Etb : w_tables w1 = w_tables w) by (unfold w1; rewrite tables_log_fns; reflexivity).
      assert (Hna1 : NOACT w1).
      { intros t0 pos ser label act (sl & fr & al & Hv & Hn). apply (Hna t0 pos ser label act). exists sl, fr, al. split; [|exact Hn].
        unfold tview, get_table in *. rewrite <- Etb. exact Hv. }
      assert (Hlz1 : lazyw w1).
      { intros c z Hz. unfold w1 in Hz. rewrite PropMixed.get_bind_log_fns in Hz. rewrite (get_bind_put_root _ _ _ _ c Hb) in Hz.
        destruct (Nat.eqb b c); [|exact (proj2 Hal _ _ Hz)]. inversion Hz; subst z. cbn [bind_with_root b_evp]. exact (proj2 Hal _ _ Hb). }
      assert (Hq1 : lookup (w_props w1) q = Some pr) by (unfold w1; rewrite PropProofs.log_fns_props; exact Hq).
      destruct (lazy_set_protocol f w1 q v pr w' Hna1 Hlz1 Hq1 Hne H) as (Htr & Hst & _).
      assert (El : forall ot, PropProofs.all_labels w1 ot = PropProofs.all_labels w ot) by (intros ot; unfold PropProofs.all_labels, get_table; rewrite Etb; reflexivity).
      split.
      - unfold notes. rewrite Htr, !filter_app, !El. fold (notes w1). unfold w1. rewrite notes_log_fns.
        assert (Fa : forall (g : nat -> event) l, (forall a, is_note (g a) = true) -> filter is_note (rev (map g l)) = rev (map g l)).
        { intros g l Hg. assert (G : forall l0 : list event, (forall e, In e l0 -> is_note e = true) -> filter is_note l0 = l0).
          { induction l0 as [|e0 l0 IH0]; intros Hall; cbn; [reflexivity|]. rewrite (Hall e0 (or_introl eq_refl)), IH0; [reflexivity|intros; apply Hall; right; assumption]. }
          apply G. intros e Hi. apply in_rev in Hi. apply in_map_iff in Hi. destruct Hi as (a & <- & _). apply Hg. }
        rewrite !Fa by (intros; reflexivity). reflexivity.
      - unfold values. rewrite Hst. reflexivity.
    Qed.

    (* ---- 6. ... with no premise left for the networks of PropMoveLazy.grow_op_lazy3 (no user-held bindings there: every registered
       binding updates a property, PropTgt.v) ---- *)
    Lemma lazy3_alltgt f : forall ops w, PropTgt.ALLTGT w -> PropMoveLazy.lazy_run3_ok fn rtl f w ops ->
      PropTgt.ALLTGT (fold_left (step fn rtl (S f)) ops w).
    Proof.
      induction ops as [|o r IH]; intros w HA Hok; cbn [fold_left]; [exact HA|]. destruct Hok as (Ho & Hs & Hr). apply IH; [|exact Hr].
      unfold step. destruct (step1 fn rtl (S f) w o) as [w' res] eqn:H1. cbn [snd] in Hs. subst res.
      assert (HA' : PropTgt.ALLTGT w').
      { apply (PropTgt.step1_alltgt fn rtl (S f) w o w'); [|exact HA|exact H1]. destruct o; try exact I. exact Ho. }
      intros b (x & Hx & Ht). apply (HA' b). exists x. split; [exact Hx|exact Ht].
    Qed.

    Theorem lazy3_reachable_second_evalall_identity f ops e w1 :
      PropMoveLazy.lazy_run3_ok fn rtl f world0 ops ->
      let w := run fn rtl (S f) ops in
      lookup (w_bevs w) e = Some ev ->
      step1 fn rtl (S f) w (BevEvalAll e) = (w1, None) ->
      step1 fn rtl (S f) w1 (BevEvalAll e) = (w1, None).
    Proof.
      intros Hok w He H.
      destruct (PropMoveLazy.lazy_grow3_coherent fn rtl ev ev_pos f ops world0 (PropGrowLazy.LSC_world0 ev ev_pos) (PropGrowLazy.LSND_world0 fn) (PropGrowLazy.LREG_world0 ev ev_pos) (PropMove.NOEMIT_world0) Hok) as (HSC & HS & HR).
      change (LSC w) in HSC. change (PropGrowLazy.LSND fn w) in HS. change (PropGrowLazy.LREG ev w) in HR.
      assert (HA : PropTgt.ALLTGT w).
      { apply (lazy3_alltgt f ops world0); [|exact Hok]. intros b (x & Hx & _). unfold get_bind, world0 in Hx. cbn in Hx. destruct b; discriminate Hx. }
      pose proof (PropReg.reachable_REGI fn rtl (S f) ops) as HRG. change (PropReg.REGI w) in HRG.
      destruct (nth_error (w_evps w) ev) as [st|] eqn:Hst; [|cbn [step1] in H; rewrite He, Hst in H; discriminate H].
      unfold PropGrowLazy.LREG in HR. rewrite Hst in HR. destruct HR as (ND & HC & _).
      apply (lazy_second_evalall_identity f w e st w1 HSC (PropGrowLazy.LCOH_of_LSND fn ev ev_pos w (proj1 HSC) HS) He Hst ND HC); [|exact H].
      intros rb Hi. destruct (PropTgt.registered_has_target w HRG HA ev st rb Hst Hi) as (x & q & Hx & Ht). unfold lz. rewrite Hx, Ht. discriminate.
    Qed.

    (* ... in every world reached by a history of PropMoveLazy.grow_op_lazy3 operations no premise is left *)
    Theorem lazy3_reachable_notifies_only_changes f ops e w' :
      PropMoveLazy.lazy_run3_ok fn rtl f world0 ops ->
      let w := run fn rtl (S f) ops in
      lookup (w_bevs w) e = Some ev ->
      step1 fn rtl (S f) w (BevEvalAll e) = (w', None) ->
      forall st, nth_error (w_evps w) ev = Some st ->
      (forall p, ~ In p (regs_of w (ep_registry st)) -> values w' p = values w p) /\
      ((forall q, In q (regs_of w (ep_registry st)) -> values w' q = values w q) -> notes w' = notes w).
    Proof.
      intros Hok w He H st Hst.
      destruct (PropMoveLazy.lazy_grow3_coherent fn rtl ev ev_pos f ops world0 (PropGrowLazy.LSC_world0 ev ev_pos) (PropGrowLazy.LSND_world0 fn) (PropGrowLazy.LREG_world0 ev ev_pos) (PropMove.NOEMIT_world0) Hok) as (HSC & HS & HR).
      change (LSC w) in HSC. change (PropGrowLazy.LREG ev w) in HR. unfold PropGrowLazy.LREG in HR. rewrite Hst in HR. destruct HR as (ND & _).
      exact (lazy_evalall_notifies_only_changes (S f) w e st w' HSC He Hst ND H).
    Qed.
  End Lazy.
End Notify.
