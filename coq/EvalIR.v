(* A small structured IR for the three methods of ConnectionEvaluator (connection_evaluator.h), the syntactic facts
   the concurrency argument rests on, and the IR the theorems were written for (expected_evaluate etc.).  The current IR is
   regenerated from the source by translate/evalir.py into generated/EvalIRCurrent.v and compared in Properties_C08.v. *)
From Coq Require Export List String Bool Arith.
Export ListNotations.

Inductive instr :=
| ILock                                  (* std::lock_guard<std::recursive_mutex> lock(m_slotInvocationMutex): held to the end of the enclosing block *)
| IIfFlagReturn                          (* if (m_isEvaluating) return; *)
| ISetFlag (b : bool)                    (* m_isEvaluating = b; *)
| IForIndexCallCopy                      (* for (i = 0; i < queue.size(); ++i) { copy = queue[i].second; copy(); } *)
| IForIndexCallInPlace                   (* same, calling the element in place *)
| IForRangeCall                          (* range-for over the queue, calling elements in place *)
| ITry (body handler : list instr)       (* try { body } catch (...) { handler } *)
| IClear                                 (* queue.clear() *)
| IPushBack                              (* queue.push_back({handle, invocation}) *)
| IMatchByHandle                         (* the predicate "pair.first == handle" *)
| IEraseMatching                         (* queue.erase(remove_if(begin, end, predicate), end) *)
| IRethrow                               (* throw; *)
| IBlock (body : list instr)             (* { ... } *)
| ICallHook                              (* onInvocationAdded() *)
| IUnknown (what : string).

Definition expected_evaluate : list instr :=
  [ILock; IIfFlagReturn; ISetFlag true; ITry [IForIndexCallCopy] [IClear; ISetFlag false; IRethrow]; IClear; ISetFlag false].
Definition expected_enqueue : list instr := [IBlock [ILock; IPushBack]; ICallHook].
Definition expected_dequeue : list instr := [ILock; IIfFlagReturn; IMatchByHandle; IEraseMatching].
Definition expected_fields : list (string * string) :=
  [("m_deferredSlotInvocations", "std::vector<std::pair<ConnectionHandle, std::function<void ()>>>");
   ("m_isEvaluating", "bool"); ("m_slotInvocationMutex", "std::recursive_mutex")]%string.

(* decidable equality of IR (for the tie) *)
Fixpoint instr_eqb (a b : instr) {struct a} : bool :=
  let fix list_eqb (l1 l2 : list instr) {struct l1} : bool :=
    match l1, l2 with
    | [], [] => true
    | x :: r, y :: s => instr_eqb x y && list_eqb r s
    | _, _ => false
    end in
  match a, b with
  | ILock, ILock | IIfFlagReturn, IIfFlagReturn | IForIndexCallCopy, IForIndexCallCopy
  | IForIndexCallInPlace, IForIndexCallInPlace | IForRangeCall, IForRangeCall | IClear, IClear | IPushBack, IPushBack
  | IMatchByHandle, IMatchByHandle | IEraseMatching, IEraseMatching | IRethrow, IRethrow | ICallHook, ICallHook => true
  | ISetFlag x, ISetFlag y => Bool.eqb x y
  | ITry b1 h1, ITry b2 h2 => list_eqb b1 b2 && list_eqb h1 h2
  | IBlock b1, IBlock b2 => list_eqb b1 b2
  | IUnknown s1, IUnknown s2 => String.eqb s1 s2
  | _, _ => false
  end.

(* ------------------------------------------------------------------------------------------------ *)
(* lock discipline, syntactically: walking a body with "is the mutex held here?";
   a lock_guard stays held to the end of its block; shared state is touched only while it is held;
   the user hook is called only while it is NOT held; nothing unknown occurs *)
Fixpoint disciplined (fuel : nat) (held : bool) (l : list instr) : bool :=
  match fuel with
  | O => false
  | S f =>
      match l with
      | [] => true
      | i :: r =>
          match i with
          | ILock => negb held && disciplined f true r
          | IIfFlagReturn | ISetFlag _ | IForIndexCallCopy | IClear | IPushBack | IEraseMatching => held && disciplined f held r
          | IForIndexCallInPlace | IForRangeCall => false       (* calling queue elements in place: invalidated by a push_back from the slot *)
          | IMatchByHandle | IRethrow => disciplined f held r
          | ITry b h => disciplined f held b && disciplined f held h && disciplined f held r
          | IBlock b => disciplined f held b && disciplined f held r     (* what the block locked is released at its end *)
          | ICallHook => negb held && disciplined f held r
          | IUnknown _ => false
          end
      end
  end.

(* the lock skeleton of a body: what it does to the mutex and where it calls the user hook *)
Inductive lact := AcqM | RelM | AcqL | RelL.

Fixpoint skeleton (fuel : nat) (l : list instr) : list lact * bool (* holds the mutex at the end of this list *) :=
  match fuel with
  | O => ([], false)
  | S f =>
      match l with
      | [] => ([], false)
      | ILock :: r => let '(s, _) := skeleton f r in (AcqM :: s, true)
      | IBlock b :: r =>
          let '(sb, hb) := skeleton f b in
          let '(sr, hr) := skeleton f r in
          (sb ++ (if hb then [RelM] else []) ++ sr, hr)
      | ICallHook :: r => let '(s, h) := skeleton f r in (AcqL :: RelL :: s, h)     (* a hook that takes a user lock *)
      | _ :: r => skeleton f r
      end
  end.

Definition method_skeleton (l : list instr) : list lact :=
  let '(s, h) := skeleton 50 l in s ++ (if h then [RelM] else []).
