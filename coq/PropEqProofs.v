(* Theorems about PropEq.v: for EVERY equality relation. *)
From Coq Require Import List ZArith Bool Lia.
Import ListNotations.
From KDB Require Import PropEq.

Section Proofs.
  Variable V : Type.
  Variable eqv : V -> V -> bool.
  Notation ewrite := (ewrite V eqv).
  Notation estep := (estep V eqv).
  Notation erun := (erun V eqv).

  Lemma write_equal_silent s v : eqv v (e_cur s) = true -> ewrite s v = (s, []).
  Proof. intros H. unfold ewrite. rewrite H. reflexivity. Qed.

  Lemma write_protocol s v : eqv v (e_cur s) = false ->
    ewrite s v = ({| e_cur := v; e_na := e_na s; e_nc := e_nc s |},
                  map (fun i => EAbout i (e_cur s) v (e_cur s)) (seq 0 (e_na s)) ++ map (fun j => EChanged j v v) (seq 0 (e_nc s))).
  Proof. intros H. unfold ewrite. rewrite H. reflexivity. Qed.

  (* the events of one write: first the about-to-change observers, then the changed observers; when the write is announced the
     indices are 0..na-1 and 0..nc-1 - every observer exactly once, in subscription order; inside an about-to-change notification
     get() still returns the old value, inside a changed notification the new one; a silent write has no events *)
  Lemma write_events_shape s v : exists la lc,
    snd (ewrite s v) = la ++ lc /\
    (forall ev, In ev la -> exists i, ev = EAbout i (e_cur s) v (e_cur s) /\ i < e_na s) /\
    (forall ev, In ev lc -> exists j, ev = EChanged j v v /\ j < e_nc s) /\
    (eqv v (e_cur s) = false -> map (fun ev => match ev with EAbout i _ _ _ => i | EChanged j _ _ => j end) la = seq 0 (e_na s) /\
                                map (fun ev => match ev with EAbout i _ _ _ => i | EChanged j _ _ => j end) lc = seq 0 (e_nc s)) /\
    (eqv v (e_cur s) = true -> la = [] /\ lc = []).
  Proof.
    unfold ewrite. destruct (eqv v (e_cur s)) eqn:E.
    - exists [], []. cbn. repeat split; try (intros ev []); try discriminate; reflexivity.
    - exists (map (fun i => EAbout i (e_cur s) v (e_cur s)) (seq 0 (e_na s))), (map (fun j => EChanged j v v) (seq 0 (e_nc s))).
      cbn [snd]. split; [reflexivity|]. split; [|split; [|split]].
      + intros ev Hin. apply in_map_iff in Hin. destruct Hin as (i & <- & Hi). apply in_seq in Hi. exists i. split; [reflexivity|lia].
      + intros ev Hin. apply in_map_iff in Hin. destruct Hin as (j & <- & Hj). apply in_seq in Hj. exists j. split; [reflexivity|lia].
      + intros _. rewrite !map_map. cbn. rewrite !map_id. split; reflexivity.
      + discriminate.
  Qed.

  (* the path does not matter: set(), operator= and stream extraction are the same write *)
  Lemma path_irrelevant s p q v : estep s (EW p v) = estep s (EW q v).
  Proof. reflexivity. Qed.
  Lemma path_irrelevant_cur s p q : estep s (EWCur p) = estep s (EWCur q).
  Proof. reflexivity. Qed.

  (* writing the property's own value is an ordinary write: silent iff the relation says the value equals itself *)
  Lemma write_cur_announces s : eqv (e_cur s) (e_cur s) = false -> e_nc s > 0 -> snd (estep s (EWCur 1)) <> [].
  Proof.
    intros H Hn. cbn [estep]. rewrite write_protocol by exact H. cbn [snd]. destruct (e_nc s) as [|n]; [lia|].
    cbn [seq map]. intros E. apply app_eq_nil in E. destruct E as [_ E]. discriminate E.
  Qed.

  (* the number of observers only grows by EObs; a write never changes it *)
  Lemma step_counts s o : e_na s <= e_na (fst (estep s o)) /\ e_nc s <= e_nc (fst (estep s o)).
  Proof.
    destruct o as [p v|p|[|]]; cbn [estep]; try (cbn; lia); unfold PropEq.ewrite;
      match goal with |- context [if ?b then _ else _] => destruct b end; cbn; lia.
  Qed.

  (* replay: an observer (index idx, subscribed from the start) that holds the property's value and replays the changed
     notifications holds the current value after any sequence of operations - for every equality relation *)
  Lemma replay1_write s v idx held : idx < e_nc s -> held = e_cur s ->
    replay1 V idx held (snd (ewrite s v)) = e_cur (fst (ewrite s v)).
  Proof.
    intros Hi ->. unfold PropEq.ewrite. destruct (eqv v (e_cur s)); [reflexivity|]. cbn [fst snd e_cur]. unfold replay1.
    rewrite fold_left_app.
    assert (E1 : forall l h, fold_left (fun h ev => match ev with EChanged j v0 _ => if Nat.eqb j idx then v0 else h | _ => h end)
                   (map (fun i => EAbout i (e_cur s) v (e_cur s)) l) h = h).
    { induction l as [|a t IH]; intros h; cbn; [reflexivity|apply IH]. }
    rewrite E1.
    assert (E2 : forall l h, fold_left (fun h ev => match ev with EChanged j v0 _ => if Nat.eqb j idx then v0 else h | _ => h end)
                   (map (fun j => EChanged j v v) l) h = if existsb (Nat.eqb idx) l then v else h).
    { induction l as [|a t IH]; intros h; cbn [map fold_left existsb]; [reflexivity|]. rewrite IH.
      rewrite (Nat.eqb_sym idx a). destruct (Nat.eqb a idx); cbn; [destruct (existsb (Nat.eqb idx) t); reflexivity|reflexivity]. }
    rewrite E2.
    assert (Hex : existsb (Nat.eqb idx) (seq 0 (e_nc s)) = true).
    { apply existsb_exists. exists idx. split; [apply in_seq; lia|apply Nat.eqb_refl]. }
    rewrite Hex. reflexivity.
  Qed.

  Theorem replay_holds_current : forall ops s idx held s' ls,
    idx < e_nc s -> held = e_cur s -> erun s ops = (s', ls) -> replay V idx held ls = e_cur s'.
  Proof.
    induction ops as [|o r IH]; intros s idx held s' ls Hi Hh H; cbn [PropEq.erun] in H.
    - inversion H; subst s' ls. cbn. exact Hh.
    - destruct (estep s o) as [s1 l] eqn:E1. destruct (erun s1 r) as [s2 ls2] eqn:E2. inversion H; subst s' ls.
      unfold replay. cbn [fold_left]. fold (replay V idx (replay1 V idx held l) ls2).
      pose proof (step_counts s o) as [_ Hc]. rewrite E1 in Hc. cbn [fst] in Hc.
      apply (IH s1 idx _ s2 ls2); [lia| |exact E2].
      destruct o as [p v|p|[|]]; cbn [PropEq.estep] in E1.
      + pose proof (replay1_write s v idx held Hi Hh) as R. rewrite E1 in R. exact R.
      + pose proof (replay1_write s (e_cur s) idx held Hi Hh) as R. rewrite E1 in R. exact R.
      + inversion E1; subst s1 l. exact Hh.
      + inversion E1; subst s1 l. exact Hh.
  Qed.
End Proofs.

(* 'never equal': every write is announced to every observer *)
Lemma never_equal_always_announces f s v : (f = FNever \/ f = FNoEq) ->
  length (snd (ewrite Z (eqv_of f) s v)) = e_na s + e_nc s.
Proof.
  intros [-> | ->]; unfold ewrite; cbn [eqv_of snd]; rewrite app_length, !map_length, !seq_length; reflexivity.
Qed.

(* values that are equal under the custom equality but not identical are still "equal": nothing happens *)
Lemma custom_equal_silent s v : (v mod 10 = e_cur s mod 10)%Z -> ewrite Z (eqv_of FMod) s v = (s, []).
Proof. intros H. apply write_equal_silent. cbn [eqv_of]. rewrite H. apply Z.eqb_refl. Qed.

(* NaN: re-assigning the property's own NaN value IS announced (it is not equal to itself) *)
Lemma nan_self_assign_announces s : (e_cur s < 0)%Z -> e_nc s > 0 -> snd (estep Z (eqv_of FNan) s (EWCur 1)) <> [].
Proof.
  intros H Hn. apply write_cur_announces; [|exact Hn]. cbn [eqv_of]. destruct (Z.ltb_spec (e_cur s) 0); [reflexivity|lia].
Qed.
