(* C15 - Blocking is a per-connection switch; scoped blockers restore what they found. *)
From KDB Require Import Util GenIdx GenIdxProofs SigDefs SigInv SigTheorems SigEmit SigBlock.

(* block(b) returns the previous setting, sets exactly that connection's flag, leaves all others alone *)
Theorem C15_block_is_a_switch :
  forall w i k b m c,
    winv w -> get_impl w i = Some m -> g_get (i_conns m) k = Some c ->
    snd (impl_block w i k b) = Some (c_blocked c) /\
    (forall k', conn_of (fst (impl_block w i k b)) i k' = if gidx_eqb k k' then Some (conn_set_blocked c b) else conn_of w i k') /\
    (forall j, j <> i -> get_impl (fst (impl_block w i k b)) j = get_impl w j).
Proof. exact block_effect. Qed.
Print Assumptions C15_block_is_a_switch.

(* a blocked connection contributes nothing to an emission (neither a call nor a queued invocation);
   together with C01_emit_exact: every other connection still fires *)
Theorem C15_skipped_while_blocked :
  forall i args k c, c_blocked c = true -> fire_events i args (k, c) = [].
Proof. exact blocked_fires_nothing. Qed.
Print Assumptions C15_skipped_while_blocked.

(* inactive handle: block, isBlocked and blocker construction raise out_of_range and the world is unchanged *)
Theorem C15_inactive_rejected :
  forall pass_fuel R w h hd b bl,
    lookup (w_handles w) h = Some hd -> checked_lock w hd = None ->
    step1 pass_fuel R w (OBlockH h b) = (w, Some ExOutOfRange) /\
    step1 pass_fuel R w (OIsBlockedH h) = (w, Some ExOutOfRange) /\
    step1 pass_fuel R w (OBlNew bl h) = (w, Some ExOutOfRange).
Proof. exact inactive_rejected. Qed.
Print Assumptions C15_inactive_rejected.

(* for EVERY well-nested sequence of blocker constructions and destructions, on active or inactive handles: afterwards
   every connection has the blocked setting it had before and the blocker table is what it was *)
Theorem C15_blockers_restore :
  forall tbl pass_fuel fuel ids l, bal ids l -> forall w,
    winv w -> (forall b, In b ids -> lookup (w_blockers w) b = None) ->
    restored w (fold_left (step tbl pass_fuel fuel) l w).
Proof. exact blockers_restore. Qed.
Print Assumptions C15_blockers_restore.

(* destroying a blocker never raises; if its connection disappeared nothing but the blocker itself changes *)
Theorem C15_blocker_destructor_total : forall pf R w b, snd (step1 pf R w (OBlDrop b)) = None.
Proof. exact bldrop_total. Qed.
Print Assumptions C15_blocker_destructor_total.

Theorem C15_blocker_harmless_when_gone :
  forall pf R w b hd was,
    lookup (w_blockers w) b = Some (hd, was) -> checked_lock w hd = None ->
    step1 pf R w (OBlDrop b) = (set_blockers w (remove_key (w_blockers w) b), None).
Proof. exact bldrop_gone. Qed.
Print Assumptions C15_blocker_harmless_when_gone.

(* non-vacuity: nesting depth 2 on an explicitly blocked connection; an inner blocker on a dead handle *)
Example C15_example :
  bal [0; 1; 2] [OBlNew 0 0; OBlNew 1 0; OBlDrop 1; OBlNew 2 5; OBlDrop 2; OBlDrop 0] /\
  let w0 := run (fun _ => []) 8 4 [OSigNew 0 1; OConnect 0 0 100 1 [] 0; OHNew 5; OBlockH 0 true] in
  blocked_of (fold_left (step (fun _ => []) 8 4) [OBlNew 0 0; OBlNew 1 0; OBlDrop 1; OBlNew 2 5; OBlDrop 2; OBlDrop 0] w0)
             0 {| gi_index := 0; gi_gen := 0 |} = Some true.
Proof.
  split; [|vm_compute; reflexivity].
  change [0; 1; 2] with (0 :: ([1] ++ [2])).
  change [OBlNew 0 0; OBlNew 1 0; OBlDrop 1; OBlNew 2 5; OBlDrop 2; OBlDrop 0]
    with (OBlNew 0 0 :: ([OBlNew 1 0; OBlDrop 1] ++ [OBlNew 2 5; OBlDrop 2]) ++ [OBlDrop 0]).
  apply bal_wrap.
  - apply bal_app.
    + apply (bal_wrap 1 0 [] []); [constructor|intros []].
    + apply (bal_wrap 2 5 [] []); [constructor|intros []].
    + intros b [<-|[]] [E|[]]; discriminate.
  - intros [E|[E|[]]]; discriminate.
Qed.
