(* evaluateAll in MIXED worlds: ONE pass over the bindings registered with an explicit evaluator makes every registered bound property
   equal to its expression over the values after the pass.
   What an assignment can touch is bounded by a rank on the properties under which every binding's inputs rank below its target
   (creation order in a growing network): setHelper(q) changes no property ranked below q other than q itself and leaves alone every
   evaluator-driven tree all of whose inputs rank below q. *)
From KDB Require Import Util UtilProofs PropDefs PropFlags PropLink PropLinkBasics PropLinkOps PropLinkTheorems PropSim PropMixedLazy.
From KDB Require PropLinkMove PropMove PropAbs PropAbsProofs PropAbsLazy PropProofs PropReg PropSimLazy PropGrowMore PropGrowLazyMore.
Module A := PropAbs.
Module AP := PropAbsProofs.
Module L := PropAbsLazy.

Section Frame.
  Variable fn : nat -> list Z -> option Z.
  Variable rtl : bool.
  Variable rk : nat -> nat.
  Notation F1 := (PropSim.F1 fn).
  Notation F2 := (PropSim.F2 fn).
  Notation F3 := (PropSim.F3 fn).

  (* every input of a binding ranks below the property the binding updates *)
  Definition RKI (w : world) : Prop :=
    forall b ls q lf y, bview w b = Some (ls, Some q) -> In lf ls -> lf_tg lf = Some y -> rk y < rk q.
  Lemma RKI_views w w' : views_eq w w' -> RKI w -> RKI w'.
  Proof. intros (B & _) H b ls q lf y Hb. rewrite B in Hb. exact (H b ls q lf y Hb). Qed.

  (* an evaluator-driven binding all of whose inputs rank below m *)
  Definition lazy_low (m : nat) (x : binding) : Prop :=
    b_evp x <> 0 /\ forall lf y, In lf (leaves (b_root x)) -> lf_tg lf = Some y -> rk y < m.

  Definition FR3 (n m : nat) (w w' : world) : Prop :=
    views_eq w w' /\ (forall y, rk y < n -> envof w' y = envof w y) /\
    (forall b x, get_bind w b = Some x -> lazy_low m x -> get_bind w' b = Some x) /\ w_evps w' = w_evps w.
  Lemma FR3_refl n m w : FR3 n m w w.
  Proof. split; [apply views_eq_refl|]. split; auto. Qed.
  Lemma FR3_trans n m a b c : FR3 n m a b -> FR3 n m b c -> FR3 n m a c.
  Proof.
    intros (V1 & A1 & B1 & E1) (V2 & A2 & B2 & E2). split; [eapply views_eq_trans; eauto|]. split; [|split].
    - intros y Hy. rewrite (A2 y Hy). apply A1. exact Hy.
    - intros k x Hk Hl. apply B2; [apply B1; assumption|exact Hl].
    - congruence.
  Qed.
  Lemma FR3_same n m w w' : views_eq w w' -> (forall b, get_bind w' b = get_bind w b) -> w_props w' = w_props w -> w_evps w' = w_evps w -> FR3 n m w w'.
  Proof. intros V G P E. split; [exact V|]. split; [intros y _; unfold envof; rewrite P; reflexivity|split; [intros b x Hb _; rewrite G; exact Hb|exact E]]. Qed.

  Definition FRAMEH (R : world -> nat -> Z -> res) : Prop :=
    forall n m w q v w', NOACT w -> pinv w -> RKI w -> m <= rk q -> n <= S (rk q) -> R w q v = (w', None) ->
      views_eq w w' /\ (forall y, rk y < n -> y <> q -> envof w' y = envof w y) /\ envof w' q = v /\
      (forall b x, get_bind w b = Some x -> lazy_low m x -> get_bind w' b = Some x) /\ w_evps w' = w_evps w.

  Section Body.
    Variable R : world -> nat -> Z -> res.
    Hypothesis HR : FRAMEH R.

    (* an immediate binding that reads p is evaluated *)
    Lemma imm_evaluate_frame n m w b0 x0 p w' :
      NOACT w -> pinv w -> RKI w -> get_bind w b0 = Some x0 -> b_evp x0 = 0 ->
      (exists lf, In lf (leaves (b_root x0)) /\ lf_tg lf = Some p) -> m <= rk p -> n <= S (rk p) ->
      binding_evaluate fn rtl R w b0 = (w', None) -> FR3 n m w w'.
    Proof.
      intros Hna Hinv Hrk Hb He (lf & Hlf & Htg) Hm Hn H. unfold binding_evaluate in H. rewrite Hb in H.
      destruct (eval fn rtl (values w) (b_root x0)) as [[t r] lg] eqn:Hev.
      pose proof (leaves_eval fn rtl (values w) (b_root x0)) as Hl. rewrite Hev in Hl. cbn [fst] in Hl.
      set (w1 := log_fns lg (put_bind w b0 (bind_with_root x0 t))) in *.
      assert (V1 : views_eq w w1) by (eapply views_eq_trans; [apply (views_put_root w b0 x0 t Hb Hl)|apply views_log_fns]).
      assert (F1' : FR3 n m w w1).
      { split; [exact V1|]. split; [intros y _; unfold envof, w1; rewrite PropProofs.log_fns_props; reflexivity|]. split.
        - intros b x Hbx (Hex & _). unfold w1. rewrite get_bind_log_fns, (get_bind_put_root _ _ _ _ b Hb).
          destruct (Nat.eqb_spec b0 b) as [<-|]; [rewrite Hb in Hbx; inversion Hbx; subst x; contradiction|exact Hbx].
        - unfold w1. rewrite (proj1 (PropReg.log_fns_evps lg _)). reflexivity. }
      destruct r as [v|ex]; [|discriminate H]. destruct (b_target x0) as [q0|] eqn:Ht0; [|inversion H; subst w'; exact F1'].
      assert (Hq0 : rk p < rk q0) by (apply (Hrk b0 (leaves (b_root x0)) q0 lf p); [unfold bview; rewrite Hb, Ht0; reflexivity|exact Hlf|exact Htg]).
      destruct (HR n m w1 q0 v w' (NOACT_views _ _ V1 Hna) (pinv_views _ _ V1 Hinv) (RKI_views _ _ V1 Hrk)) as (V2 & A2 & _ & B2 & E2); [lia|lia|exact H|].
      apply (FR3_trans n m w w1 w' F1'). split; [exact V2|]. split; [|split; [exact B2|exact E2]]. intros y Hy. apply A2; [exact Hy|]. intros ->. lia.
    Qed.

    Lemma deliver_frame n m w p t pos ser v s w' :
      NOACT w -> pinv w -> RKI w -> owns w p KChanged t -> slot_at w t pos ser s -> m <= rk p -> n <= S (rk p) ->
      deliver fn rtl R w p KChanged [v] s = (w', None) -> FR3 n m w w'.
    Proof.
      intros Hna Hinv Hrk Hown Hs Hm Hn H. destruct s as [label act|b0 l]; cbn [deliver] in H.
      - rewrite (Hna t pos ser label act Hs) in H. inversion H; subst w'. apply FR3_same; [apply views_log|reflexivity|reflexivity|reflexivity].
      - destruct (get_bind w b0) as [x0|] eqn:Hb; [|discriminate H].
        destruct (mark (b_root x0) l) as [[t1 up]|] eqn:Hmk; [|discriminate H].
        (* the subscribed node is a leaf of b0 that reads p *)
        destruct (pi_slot _ _ _ _ _ _ _ Hinv t pos ser b0 l (fun z => z) Hs) as (lf & Hleaf & Hid & _).
        pose proof (pi_slotown _ _ _ _ _ _ _ Hinv t pos ser b0 l lf p KChanged Hs Hleaf Hid Hown (fun z => z)) as Htg.
        assert (Hlf : In lf (leaves (b_root x0))).
        { destruct Hleaf as (ls & tg & Ebv & Hi). unfold bview in Ebv. rewrite Hb in Ebv. inversion Ebv; subst ls. exact Hi. }
        set (w1 := put_bind w b0 (bind_with_root x0 t1)) in *.
        pose proof (leaves_mark _ _ _ _ Hmk) as Hl1.
        assert (V1 : views_eq w w1) by (apply views_put_root; [exact Hb|exact Hl1]).
        assert (F1' : FR3 n m w w1).
        { split; [exact V1|]. split; [intros y _; reflexivity|]. split; [|reflexivity].
          intros b x Hbx (Hex & Hlow). unfold w1. rewrite (get_bind_put_root _ _ _ _ b Hb).
          destruct (Nat.eqb_spec b0 b) as [<-|]; [|exact Hbx]. rewrite Hb in Hbx. inversion Hbx; subst x. pose proof (Hlow lf p Hlf Htg). lia. }
        destruct (Nat.eqb_spec (b_evp x0) 0) as [He|He].
        + destruct up; [|inversion H; subst w'; exact F1'].
          assert (Hb1 : get_bind w1 b0 = Some (bind_with_root x0 t1)) by (unfold w1; rewrite (get_bind_put_root _ _ _ _ b0 Hb), Nat.eqb_refl; reflexivity).
          apply (FR3_trans n m w w1 w' F1').
          apply (imm_evaluate_frame n m w1 b0 _ p w' (NOACT_views _ _ V1 Hna) (pinv_views _ _ V1 Hinv) (RKI_views _ _ V1 Hrk) Hb1 He); [|exact Hm|exact Hn|exact H].
          exists lf. cbn [bind_with_root b_root]. rewrite Hl1. auto.
        + assert (H1 : (w1, @None pexn) = (w', None)) by (destruct up; exact H). inversion H1; subst w'. exact F1'.
    Qed.

    Lemma owns_views w w' p k t : views_eq w w' -> owns w p k t -> owns w' p k t.
    Proof. intros (_ & _ & P & _) (vv & Hv & Hs). exists vv. rewrite P. auto. Qed.

    Lemma walk_frame n m p t v : forall idxs w w',
      NOACT w -> pinv w -> RKI w -> owns w p KChanged t -> m <= rk p -> n <= S (rk p) ->
      walk fn rtl R w t p KChanged [v] idxs = (w', None) -> FR3 n m w w'.
    Proof.
      induction idxs as [|x r IH]; intros w w' Hna Hinv Hrk Hown Hm Hn H; cbn [walk] in H.
      - inversion H; subst. apply FR3_refl.
      - destruct (get_table w t) as [tb|] eqn:Ht; [|discriminate H].
        destruct (nth_error (t_slots tb) x) as [[[ser s]|]|] eqn:Hx; [|exact (IH w w' Hna Hinv Hrk Hown Hm Hn H)..].
        destruct (deliver fn rtl R w p KChanged [v] s) as [w1 [e|]] eqn:Hd; [discriminate H|].
        assert (Hs : slot_at w t x ser s) by (exists (t_slots tb), (t_free tb), (t_alive tb); split; [unfold tview; rewrite Ht; reflexivity|exact Hx]).
        pose proof (deliver_frame n m w p t x ser v s w1 Hna Hinv Hrk Hown Hs Hm Hn Hd) as F1'. pose proof F1' as (V1 & _).
        apply (FR3_trans n m w w1 w' F1').
        exact (IH w1 w' (NOACT_views _ _ V1 Hna) (pinv_views _ _ V1 Hinv) (RKI_views _ _ V1 Hrk) (owns_views _ _ _ _ _ V1 Hown) Hm Hn H).
    Qed.

    Lemma emit_frame n m w ot p v w' :
      NOACT w -> pinv w -> RKI w -> (forall t, ot = Some t -> owns w p KChanged t) -> m <= rk p -> n <= S (rk p) ->
      emit fn rtl R w ot p KChanged [v] = (w', None) -> FR3 n m w w'.
    Proof.
      intros Hna Hinv Hrk Hown Hm Hn H. destruct ot as [t|]; cbn [emit] in H; [|inversion H; subst; apply FR3_refl].
      destruct (get_table w t) as [tb|] eqn:Ht; [|discriminate H]. destruct (t_emitting tb); [discriminate H|].
      set (tb1 := {| t_slots := t_slots tb; t_free := t_free tb; t_emitting := true; t_alive := t_alive tb |}) in *.
      set (w1 := put_table w t tb1) in *.
      assert (V1 : views_eq w w1) by (apply views_put_flag; exact Ht).
      assert (F1' : FR3 n m w w1) by (apply FR3_same; [exact V1|reflexivity|reflexivity|reflexivity]).
      destruct (walk fn rtl R w1 t p KChanged [v] (seq 0 (length (t_slots tb)))) as [w2 [e|]] eqn:Hw.
      { destruct (get_table w2 t); discriminate H. }
      pose proof (walk_frame n m p t v _ w1 w2 (NOACT_views _ _ V1 Hna) (pinv_views _ _ V1 Hinv) (RKI_views _ _ V1 Hrk) (owns_views _ _ _ _ _ V1 (Hown t eq_refl)) Hm Hn Hw) as F2'.
      destruct (get_table w2 t) as [tb2|] eqn:Ht2.
      - inversion H; subst w'. apply (FR3_trans n m w w1 _ F1'). apply (FR3_trans n m w1 w2 _ F2'). apply FR3_same; [apply views_put_flag; exact Ht2|reflexivity|reflexivity|reflexivity].
      - inversion H; subst w'. exact (FR3_trans n m w w1 w2 F1' F2').
    Qed.
  End Body.

  Lemma walk_about_evps R t p payload : forall idxs w w',
    NOACT w -> walk fn rtl R w t p KAbout payload idxs = (w', None) -> w_evps w' = w_evps w.
  Proof.
    induction idxs as [|x r IH]; intros w w' Hna Hw; cbn [walk] in Hw; [inversion Hw; reflexivity|].
    destruct (get_table w t) as [tbx|] eqn:Htx; [|discriminate Hw].
    destruct (nth_error (t_slots tbx) x) as [[[ser s]|]|] eqn:Hx; [|exact (IH w w' Hna Hw)..].
    destruct s as [label act|b lid]; cbn [deliver] in Hw; [|destruct (get_bind w b); discriminate Hw].
    assert (act = None) by (apply (Hna t x ser label act); exists (t_slots tbx), (t_free tbx), (t_alive tbx); split; [unfold tview; rewrite Htx; reflexivity|exact Hx]).
    subst act. set (wl := log (EvNotify label KAbout payload (values w p)) w) in *.
    assert (H1 : walk fn rtl R wl t p KAbout payload r = (w', None)) by (destruct payload; exact Hw).
    rewrite (IH wl w' (NOACT_views _ _ (views_log _ w) Hna) H1). reflexivity.
  Qed.

  Lemma emit_about_same R w ot p payload w' :
    NOACT w -> emit fn rtl R w ot p KAbout payload = (w', None) ->
    (forall b, get_bind w' b = get_bind w b) /\ w_props w' = w_props w /\ views_eq w w' /\ w_evps w' = w_evps w.
  Proof.
    intros Hna H. destruct ot as [t|]; cbn [emit] in H; [|inversion H; subst; split; [reflexivity|split; [reflexivity|split; [apply views_eq_refl|reflexivity]]]].
    destruct (get_table w t) as [tb|] eqn:Ht; [|discriminate H]. destruct (t_emitting tb); [discriminate H|].
    set (tb1 := {| t_slots := t_slots tb; t_free := t_free tb; t_emitting := true; t_alive := t_alive tb |}) in *.
    set (w1 := put_table w t tb1) in *.
    assert (V1 : views_eq w w1) by (apply views_put_flag; exact Ht).
    destruct (walk fn rtl R w1 t p KAbout payload (seq 0 (length (t_slots tb)))) as [w2 [e|]] eqn:Hw.
    { destruct (get_table w2 t); discriminate H. }
    destruct (walk_about fn rtl R t p payload _ w1 w2 (NOACT_views _ _ V1 Hna) Hw) as (G2 & P2 & V2).
    assert (E2 : w_evps w2 = w_evps w) by (rewrite (walk_about_evps R t p payload _ w1 w2 (NOACT_views _ _ V1 Hna) Hw); reflexivity).
    destruct (get_table w2 t) as [tb2|] eqn:Ht2; inversion H; subst w'.
    - split; [intros b; exact (G2 b)|]. split; [exact P2|]. split; [|exact E2]. eapply views_eq_trans; [exact V1|]. eapply views_eq_trans; [exact V2|apply views_put_flag; exact Ht2].
    - split; [intros b; exact (G2 b)|]. split; [exact P2|]. split; [|exact E2]. eapply views_eq_trans; eauto.
  Qed.

  Theorem set_helper_frame : forall fuel, FRAMEH (set_helper fn rtl fuel).
  Proof.
    induction fuel as [|f IH]; intros n m w q v w' Hna Hinv Hrk Hm Hn H; cbn [set_helper] in H; [discriminate H|].
    destruct (lookup (w_props w) q) as [pr|] eqn:Hq; [|discriminate H].
    destruct (Z.eqb_spec v (pr_value pr)) as [Ev|Ev].
    { inversion H; subst w'. split; [apply views_eq_refl|]. split; [auto|]. split; [unfold envof; rewrite Hq; symmetry; exact Ev|auto]. }
    destruct (emit fn rtl (set_helper fn rtl f) w (pr_about pr) q KAbout [pr_value pr; v]) as [w1 [e|]] eqn:He1; [discriminate H|].
    destruct (emit_about_same _ w _ q _ w1 Hna He1) as (G1 & P1 & V1 & Ev1).
    rewrite P1, Hq in H.
    set (w2 := set_props w1 (bind_key (w_props w) q (prop_set_value pr v))) in *.
    assert (Hq1 : lookup (w_props w1) q = Some pr) by (rewrite P1; exact Hq).
    assert (V2 : views_eq w1 w2) by (unfold w2; rewrite <- P1; apply views_set_value; exact Hq1).
    assert (V02 : views_eq w w2) by (eapply views_eq_trans; eauto).
    cbn [prop_set_value pr_changed] in H.
    assert (Hown : forall t, pr_changed pr = Some t -> owns w2 q KChanged t).
    { intros t Ht. exists (psigs_of (prop_set_value pr v)). split; [unfold pview, w2; cbn [set_props w_props]; rewrite lookup_bind_same; reflexivity|cbn; exact Ht]. }
    pose proof (emit_frame (set_helper fn rtl f) IH (S (rk q)) m w2 (pr_changed pr) q v w' (NOACT_views _ _ V02 Hna) (pinv_views _ _ V02 Hinv) (RKI_views _ _ V02 Hrk) Hown Hm (le_n _) H) as (V3 & A3 & B3 & E3).
    assert (E2 : forall y, envof w2 y = if Nat.eqb y q then v else envof w y).
    { intros y. unfold envof, w2; cbn [set_props w_props]. rewrite lookup_bind. destruct (Nat.eqb_spec y q); [reflexivity|]. reflexivity. }
    split; [eapply views_eq_trans; eauto|]. split; [|split; [|split]].
    - intros y Hy Hne. rewrite (A3 y); [|lia]. rewrite E2. destruct (Nat.eqb_spec y q); [contradiction|reflexivity].
    - rewrite (A3 q); [|lia]. rewrite E2, Nat.eqb_refl. reflexivity.
    - intros b x Hb Hl. apply B3; [|exact Hl]. change (get_bind w2 b) with (get_bind w1 b). rewrite G1. exact Hb.
    - rewrite E3. change (w_evps w2) with (w_evps w1). exact Ev1.
  Qed.
End Frame.

Section Pass.
  Variable fn : nat -> list Z -> option Z.
  Variable rtl : bool.
  Variable rk : nat -> nat.
  Notation F1 := (PropSim.F1 fn).
  Notation F2 := (PropSim.F2 fn).
  Notation F3 := (PropSim.F3 fn).
  Notation RKI := (RKI rk).

  (* an evaluator-driven binding that is up to date: clean tree, its property holds the value of the root; target ranked below lo *)
  Definition SETTLED (lo : nat) (w : world) (b : nat) : Prop :=
    exists x T q, get_bind w b = Some x /\ b_evp x <> 0 /\ abs_tree (b_root x) = Some T /\ A.clean T /\ b_target x = Some q /\
                  envof w q = A.val (envof w) T /\ rk q < lo.
  Lemma SETTLED_mono lo lo' w b : lo <= lo' -> SETTLED lo w b -> SETTLED lo' w b.
  Proof. intros Hle (x & T & q & A1 & A2 & A3 & A4 & A5 & A6 & A7). exists x, T, q. repeat split; auto. lia. Qed.

  (* registry entries in increasing rank of the properties they update, all at least lo *)
  Fixpoint rord (w : world) (l : list (nat * nat)) (lo : nat) : Prop :=
    match l with
    | [] => True
    | rb :: r => exists ls q, bview w (snd rb) = Some (ls, Some q) /\ lo <= rk q /\ rord w r (S (rk q))
    end.
  Lemma rord_views w w' : views_eq w w' -> forall l lo, rord w l lo -> rord w' l lo.
  Proof.
    intros V. induction l as [|rb r IH]; intros lo H; cbn [rord] in *; [exact I|]. destruct H as (ls & q & Hb & Hlo & Hr).
    exists ls, q. split; [destruct V as (B & _); rewrite B; exact Hb|]. split; [exact Hlo|apply IH; exact Hr].
  Qed.

  Lemma low_of_RKI w b x q : RKI w -> get_bind w b = Some x -> b_evp x <> 0 -> b_target x = Some q -> forall m, rk q <= m -> lazy_low rk m x.
  Proof.
    intros Hrk Hb He Ht m Hm. split; [exact He|]. intros lf y Hlf Htg.
    pose proof (Hrk b (leaves (b_root x)) q lf y) as H. unfold bview in H. rewrite Hb, Ht in H. specialize (H eq_refl Hlf Htg). lia.
  Qed.

  (* Binding::evaluate of an evaluator-driven binding: it is up to date afterwards, and so is every up-to-date binding whose
     property ranks below its property *)
  Lemma lazy_evaluate_settles fuel w b x q w' :
    ML fn w -> RKI w -> get_bind w b = Some x -> b_evp x <> 0 -> b_target x = Some q ->
    binding_evaluate fn rtl (set_helper fn rtl fuel) w b = (w', None) ->
    ML fn w' /\ views_eq w w' /\ w_evps w' = w_evps w /\ SETTLED (S (rk q)) w' b /\
    (forall b', SETTLED (rk q) w b' -> SETTLED (rk q) w' b').
  Proof.
    intros HML Hrk Hb He Ht H. pose proof HML as (Hinv & Hna & HS & HM).
    destruct (abs_tree (b_root x)) as [T|] eqn:HT; [|exfalso; exact (HS b x Hb He HT)].
    destruct (mixed_lazy_evaluate fn rtl fuel w b x T w' Hinv Hna HS HM Hb He HT H) as (A1 & A2 & A3 & A4 & V & _).
    split; [exact (conj A1 (conj A2 (conj A3 A4)))|]. split; [exact V|].
    unfold binding_evaluate in H. rewrite Hb in H.
    destruct (eval fn rtl (values w) (b_root x)) as [[t r] lg] eqn:Hev. destruct r as [v|ex]; [|discriminate H]. rewrite Ht in H.
    assert (Hval : forall p0 lid, In (p0, lid) (A.leaves T) -> values w p0 = Some (envof w p0)).
    { intros p0 lid Hi. destruct (abs_leaf_in _ _ _ _ HT Hi) as (lf & Hlf & Htg0 & _).
      destruct (leaf_target_exists w b x lf p0 Hinv Hb Hlf Htg0) as (pr0 & Hp & _). unfold values, envof. rewrite Hp. reflexivity. }
    destruct (sim_eval fn rtl (values w) (envof w) _ _ _ _ _ HT Hval Hev) as [Et Ev].
    assert (So : L.sound F1 F2 F3 (envof w) T) by (apply (HM b T); exists x; auto).
    pose proof (L.eval_sound F1 F2 F3 (envof w) T So) as ES. destruct (A.eval F1 F2 F3 (envof w) T) as [T2 vT] eqn:HeT. cbn [fst snd] in *.
    destruct ES as (C2 & _ & Ev2 & L2). subst vT.
    pose proof (leaves_eval fn rtl (values w) (b_root x)) as Hl. rewrite Hev in Hl. cbn [fst] in Hl.
    set (xA := bind_with_root x t) in *. set (wA := log_fns lg (put_bind w b xA)) in *.
    assert (V1 : views_eq w wA) by (eapply views_eq_trans; [apply (views_put_root w b x t Hb Hl)|apply views_log_fns]).
    assert (GA : forall c, get_bind wA c = if Nat.eqb b c then Some xA else get_bind w c).
    { intros c. unfold wA. rewrite get_bind_log_fns. apply get_bind_put_root. exact Hb. }
    assert (EA : forall y, envof wA y = envof w y) by (intros y; unfold envof, wA; rewrite PropProofs.log_fns_props; reflexivity).
    assert (EvA : w_evps wA = w_evps w) by (unfold wA; rewrite (proj1 (PropReg.log_fns_evps lg _)); reflexivity).
    destruct (set_helper_frame fn rtl rk fuel (S (rk q)) (rk q) wA q v w' (NOACT_views _ _ V1 Hna) (pinv_views _ _ V1 Hinv) (RKI_views rk _ _ V1 Hrk) (le_n _) (le_n _) H)
      as (V2 & F2' & Eq & B2 & Ev2').
    split; [congruence|].
    assert (Low : forall lf y, In lf (leaves (b_root x)) -> lf_tg lf = Some y -> rk y < rk q).
    { intros lf y Hlf Htg. pose proof (Hrk b (leaves (b_root x)) q lf y) as K. unfold bview in K. rewrite Hb, Ht in K. exact (K eq_refl Hlf Htg). }
    assert (Same : forall U z, abs_tree (b_root z) = Some U -> (forall lf y, In lf (leaves (b_root z)) -> lf_tg lf = Some y -> rk y < rk q) ->
              A.val (envof w') U = A.val (envof w) U).
    { intros U z HU Hlow. apply val_leaves_ext. intros y lid Hi. destruct (abs_leaf_in _ _ _ _ HU Hi) as (lf & Hlf & Htg & _).
      pose proof (Hlow lf y Hlf Htg) as Hy. rewrite (F2' y); [apply EA|lia|intros ->; lia]. }
    split.
    - exists xA, T2, q. split; [apply B2; [rewrite GA, Nat.eqb_refl; reflexivity|]|].
      + split; [exact He|]. intros lf y Hlf Htg. cbn [xA bind_with_root b_root] in Hlf. rewrite Hl in Hlf. exact (Low lf y Hlf Htg).
      + split; [exact He|]. split; [cbn [xA bind_with_root b_root]; exact Et|]. split; [exact C2|]. split; [exact Ht|]. split; [|lia].
        rewrite Eq. rewrite (Same T2 xA); [exact Ev2|cbn [xA bind_with_root b_root]; exact Et|].
        intros lf y Hlf Htg. cbn [xA bind_with_root b_root] in Hlf. rewrite Hl in Hlf. exact (Low lf y Hlf Htg).
    - intros b' (x' & T' & q' & G' & He' & HT' & C' & Ht' & Hv' & Hr').
      assert (Hne : b' <> b) by (intros ->; rewrite Hb in G'; inversion G'; subst x'; rewrite Ht in Ht'; inversion Ht'; subst q'; lia).
      assert (Low' : forall lf y, In lf (leaves (b_root x')) -> lf_tg lf = Some y -> rk y < rk q).
      { intros lf y Hlf Htg. pose proof (Hrk b' (leaves (b_root x')) q' lf y) as K. unfold bview in K. rewrite G', Ht' in K. specialize (K eq_refl Hlf Htg). lia. }
      exists x', T', q'. split; [apply B2; [rewrite GA; destruct (Nat.eqb_spec b b'); [congruence|exact G']|split; [exact He'|exact Low']]|].
      split; [exact He'|]. split; [exact HT'|]. split; [exact C'|]. split; [exact Ht'|]. split; [|exact Hr'].
      rewrite (Same T' x' HT' Low'). rewrite (F2' q'); [|lia|intros ->; lia]. rewrite EA. exact Hv'.
  Qed.

  (* the loop of evaluateAll over entries in increasing rank *)
  Lemma pass_settles fuel id st : id <> 0 -> forall l w w' lo (done : list nat),
    ML fn w -> RKI w -> nth_error (w_evps w) id = Some st -> (forall rb, In rb l -> In rb (ep_registry st)) ->
    (forall rid b, In (rid, b) l -> PropReg.bkey w b = Some (id, rid)) ->
    rord w l lo -> (forall b, In b done -> SETTLED lo w b) ->
    PropSimLazy.evalall_loop fn rtl fuel id l w = (w', None) ->
    ML fn w' /\ views_eq w w' /\ w_evps w' = w_evps w /\ (forall b, In b done -> exists hi, SETTLED hi w' b) /\ (forall rb, In rb l -> exists hi, SETTLED hi w' (snd rb)).
  Proof.
    intros Hid. induction l as [|[rid b] r IH]; intros w w' lo done HML Hrk Hst Hsub HK Hord Hdone H; cbn [PropSimLazy.evalall_loop] in H.
    - inversion H; subst w'. split; [exact HML|]. split; [apply views_eq_refl|]. split; [reflexivity|]. split; [intros b Hb; exists lo; auto|intros rb []].
    - rewrite Hst in H.
      assert (Hstill : existsb (fun q => Nat.eqb (fst q) rid) (ep_registry st) = true).
      { apply existsb_exists. exists (rid, b). split; [apply Hsub; left; reflexivity|cbn; apply Nat.eqb_refl]. }
      rewrite Hstill in H.
      destruct (binding_evaluate fn rtl (set_helper fn rtl fuel) w b) as [w1 [ex|]] eqn:Hb; [discriminate H|].
      cbn [rord snd] in Hord. destruct Hord as (ls & q & Hbv & Hlo & Hord).
      unfold bview in Hbv. destruct (get_bind w b) as [x|] eqn:Hgb; [|discriminate Hbv]. inversion Hbv as [[E1 E2]].
      assert (Hev : b_evp x <> 0).
      { pose proof (HK rid b (or_introl eq_refl)) as Hk. unfold PropReg.bkey in Hk. rewrite Hgb in Hk. inversion Hk; subst. exact Hid. }
      destruct (lazy_evaluate_settles fuel w b x q w1 HML Hrk Hgb Hev E2 Hb) as (ML1 & V1 & Ev1 & Sb & Keep).
      pose proof (PropReg.binding_evaluate_rmono fn rtl _ (PropReg.set_helper_rmono fn rtl fuel) w b) as (_ & _ & _ & R4). rewrite Hb in R4. cbn [fst] in R4.
      assert (HK1 : forall rid' b', In (rid', b') r -> PropReg.bkey w1 b' = Some (id, rid')).
      { intros rid' b' Hi. pose proof (HK rid' b' (or_intror Hi)) as Hk. destruct (R4 b' _ Hk) as [K|K]; [exact K|]. exfalso.
        (* the binding is still alive: its view is unchanged *)
        unfold PropReg.bkey in Hk, K. destruct (get_bind w b') as [z|] eqn:Hz; [|discriminate Hk].
        destruct V1 as (B1 & _). pose proof (B1 b') as Eb. unfold bview in Eb. rewrite Hz in Eb. destruct (get_bind w1 b'); [discriminate K|discriminate Eb]. }
      destruct (IH w1 w' (S (rk q)) (b :: done) ML1 (RKI_views rk _ _ V1 Hrk)) as (ML' & V' & E' & D' & L'); [rewrite Ev1; exact Hst|intros rb Hi; apply Hsub; right; exact Hi|exact HK1|
        apply (rord_views _ _ V1); exact Hord| |exact H|].
      { intros b0 [<-|Hi]; [exact Sb|]. apply (SETTLED_mono (rk q)); [lia|]. apply Keep. apply (SETTLED_mono lo); [exact Hlo|]. exact (Hdone b0 Hi). }
      split; [exact ML'|]. split; [eapply views_eq_trans; eauto|]. split; [congruence|]. split; [intros b0 Hi; apply D'; right; exact Hi|].
      intros rb [<-|Hi]; [cbn [snd]; apply D'; left; reflexivity|apply L'; exact Hi].
  Qed.

  (* BindingEvaluator::evaluateAll in a mixed world *)
  Theorem mixed_evalall_one_pass fuel w e id st w' :
    ML fn w -> RKI w -> PropReg.REGI w -> lookup (w_bevs w) e = Some id -> id <> 0 -> nth_error (w_evps w) id = Some st ->
    rord w (ep_registry st) 0 -> step1 fn rtl fuel w (BevEvalAll e) = (w', None) ->
    ML fn w' /\ views_eq w w' /\ w_evps w' = w_evps w /\
    forall rid b, In (rid, b) (ep_registry st) ->
      exists x T q, get_bind w' b = Some x /\ abs_tree (b_root x) = Some T /\ b_target x = Some q /\ A.clean T /\
                    envof w' q = A.den F1 F2 F3 (envof w') T.
  Proof.
    intros HML Hrk HR He Hid Hst Hord H. cbn [step1] in H. rewrite He, Hst in H.
    change (PropSimLazy.evalall_loop fn rtl fuel id (ep_registry st) w = (w', None)) in H.
    destruct (pass_settles fuel id st Hid (ep_registry st) w w' 0 [] HML Hrk Hst (fun rb Hi => Hi)) as (ML' & V' & E' & _ & L'); [|exact Hord|intros b []|exact H|].
    { intros rid b Hi. exact (HR id st rid b Hst Hi). }
    split; [exact ML'|]. split; [exact V'|]. split; [exact E'|]. intros rid b Hi. destruct (L' (rid, b) Hi) as (hi & x & T & q & G & Hev & HT & C & Ht & Hv & _).
    exists x, T, q. split; [exact G|]. split; [exact HT|]. split; [exact Ht|]. split; [exact C|].
    destruct ML' as (_ & _ & _ & HM'). rewrite Hv. apply (L.clean_sound_den F1 F2 F3); [exact C|]. apply (HM' b T). exists x. auto.
  Qed.
End Pass.

(* ================================================================================================================== *)
(* growing mixed networks are ranked: creation order *)
Section Rank.
  Variable fn : nat -> list Z -> option Z.
  Variable rtl : bool.
  Notation F1 := (PropSim.F1 fn).
  Notation F2 := (PropSim.F2 fn).
  Notation F3 := (PropSim.F3 fn).

  Definition RANKED (rk : nat -> nat) (M : nat) (w : world) : Prop :=
    RKI rk w /\ (forall id st, nth_error (w_evps w) id = Some st -> rord rk w (ep_registry st) 0) /\
    (forall y, lookup (w_props w) y <> None -> rk y < M).

  Lemma rord_transfer rk rk' w w' : forall l lo,
    (forall rb, In rb l -> bview w' (snd rb) = bview w (snd rb) /\ forall ls q, bview w (snd rb) = Some (ls, Some q) -> rk' q = rk q) ->
    rord rk w l lo -> rord rk' w' l lo.
  Proof.
    induction l as [|rb r IH]; intros lo Hall H; cbn [rord] in *; [exact I|]. destruct H as (ls & q & Hb & Hlo & Hr).
    destruct (Hall rb (or_introl eq_refl)) as (E1 & E2). exists ls, q. rewrite E1, (E2 ls q Hb). split; [exact Hb|]. split; [exact Hlo|].
    apply IH; [intros rb' Hi; apply Hall; right; exact Hi|exact Hr].
  Qed.

  Lemma rord_snoc rk w rb ls p M : bview w (snd rb) = Some (ls, Some p) -> rk p = M -> forall l lo,
    (forall rb' ls' q', In rb' l -> bview w (snd rb') = Some (ls', Some q') -> rk q' < M) -> lo <= M ->
    rord rk w l lo -> rord rk w (l ++ [rb]) lo.
  Proof.
    intros Hb Hp. induction l as [|r0 r IH]; intros lo Hall Hlo H; cbn [rord app] in *.
    - exists ls, p. split; [exact Hb|]. split; [lia|exact I].
    - destruct H as (ls0 & q0 & Hb0 & Hlo0 & Hr). exists ls0, q0. split; [exact Hb0|]. split; [exact Hlo0|].
      apply IH; [intros rb' ls' q' Hi; apply Hall; right; exact Hi| |exact Hr]. pose proof (Hall r0 ls0 q0 (or_introl eq_refl) Hb0). lia.
  Qed.


  Lemma rord_weaken rk w : forall l lo lo', lo <= lo' -> rord rk w l lo' -> rord rk w l lo.
  Proof. destruct l as [|rb r]; intros lo lo' Hle H; cbn [rord] in *; [exact I|]. destruct H as (ls & q & Hb & Hlo & Hr). exists ls, q. split; [exact Hb|]. split; [lia|exact Hr]. Qed.

  (* dropping entries keeps the order *)
  Lemma rord_filter rk w w' (f : nat * nat -> bool) : forall l lo,
    (forall rb, In rb l -> f rb = true -> bview w' (snd rb) = bview w (snd rb)) -> rord rk w l lo -> rord rk w' (filter f l) lo.
  Proof.
    induction l as [|rb r IH]; intros lo Hall H; cbn [rord filter] in *; [exact I|]. destruct H as (ls & q & Hb & Hlo & Hr).
    destruct (f rb) eqn:Ef.
    - cbn [rord]. exists ls, q. rewrite (Hall rb (or_introl eq_refl) Ef). split; [exact Hb|]. split; [exact Hlo|].
      apply IH; [intros rb' Hi; apply Hall; right; exact Hi|exact Hr].
    - apply (rord_weaken rk w' _ lo (S (rk q))); [lia|]. apply IH; [intros rb' Hi; apply Hall; right; exact Hi|exact Hr].
  Qed.

  (* renaming the targets keeps the order if the new ranking gives the renamed target its old rank *)
  Lemma rord_renamed rk rk' w w' (rho : nat -> nat) : forall l lo,
    (forall rb ls q, In rb l -> bview w (snd rb) = Some (ls, Some q) -> (exists ls', bview w' (snd rb) = Some (ls', Some (rho q))) /\ rk' (rho q) = rk q) ->
    rord rk w l lo -> rord rk' w' l lo.
  Proof.
    induction l as [|rb r IH]; intros lo Hall H; cbn [rord] in *; [exact I|]. destruct H as (ls & q & Hb & Hlo & Hr).
    destruct (Hall rb ls q (or_introl eq_refl) Hb) as ((ls' & Hb') & Erk). exists ls', (rho q). split; [exact Hb'|]. rewrite Erk. split; [exact Hlo|].
    apply IH; [intros rb' ls0 q0 Hi; apply Hall; right; exact Hi|exact Hr].
  Qed.

  (* dropping entries and renaming the targets of those that stay *)
  Lemma rord_filter_renamed rk rk' w w' (rho : nat -> nat) (f : nat * nat -> bool) : forall l lo,
    (forall rb ls q, In rb l -> f rb = true -> bview w (snd rb) = Some (ls, Some q) ->
       (exists ls', bview w' (snd rb) = Some (ls', Some (rho q))) /\ rk' (rho q) = rk q) ->
    rord rk w l lo -> rord rk' w' (filter f l) lo.
  Proof.
    induction l as [|rb r IH]; intros lo Hall H; cbn [rord filter] in *; [exact I|]. destruct H as (ls & q & Hb & Hlo & Hr).
    destruct (f rb) eqn:Ef.
    - cbn [rord]. destruct (Hall rb ls q (or_introl eq_refl) Ef Hb) as ((ls' & Hb') & Erk). exists ls', (rho q). split; [exact Hb'|]. rewrite Erk. split; [exact Hlo|].
      apply IH; [intros rb' ls0 q0 Hi; apply Hall; right; exact Hi|exact Hr].
    - apply (rord_weaken rk' w' _ lo (S (rk q))); [lia|]. apply IH; [intros rb' ls0 q0 Hi; apply Hall; right; exact Hi|exact Hr].
  Qed.

  Lemma RANKED_same rk M w w' :
    (forall b, bview w' b = bview w b) -> w_evps w' = w_evps w -> (forall y, lookup (w_props w') y <> None -> lookup (w_props w) y <> None) ->
    RANKED rk M w -> RANKED rk M w'.
  Proof.
    intros B E D (H1 & H2 & H3). split; [|split].
    - intros b ls q lf y Hb. rewrite B in Hb. exact (H1 b ls q lf y Hb).
    - intros id st Hst. rewrite E in Hst. apply (rord_transfer rk rk w w' _ 0); [intros rb _; split; [apply B|auto]|exact (H2 id st Hst)].
    - intros y Hy. exact (H3 y (D y Hy)).
  Qed.
  Lemma RANKED_views rk M w w' : views_eq w w' -> w_evps w' = w_evps w -> RANKED rk M w -> RANKED rk M w'.
  Proof.
    intros (B & _ & P & _) E. apply RANKED_same; [exact B|exact E|]. intros y Hy Hn. apply Hy. pose proof (P y) as Ey. unfold pview in Ey.
    rewrite Hn in Ey. destruct (lookup (w_props w') y); [discriminate Ey|reflexivity].
  Qed.

  Definition bump (rk : nat -> nat) (p M : nat) : nat -> nat := fun y => if Nat.eqb y p then M else rk y.

  (* every property a live binding mentions exists *)
  Lemma mentioned_exist w : pinv w -> forall b ls tg, bview w b = Some (ls, tg) ->
    (forall q, tg = Some q -> lookup (w_props w) q <> None) /\ (forall lf y, In lf ls -> lf_tg lf = Some y -> lookup (w_props w) y <> None).
  Proof.
    intros Hinv b ls tg Hb. split.
    - intros q ->. destruct (pi_tgt _ _ _ _ _ _ _ Hinv b ls q Hb) as (vv & Hv & _). unfold pview in Hv. destruct (lookup (w_props w) q); [discriminate|discriminate Hv].
    - intros lf y Hlf Htg. assert (Hleaf : has_leaf w b lf) by (exists ls, tg; auto).
      pose proof (pi_leafx _ _ _ _ _ _ _ Hinv b lf y Hleaf Htg) as Hex. unfold pview in Hex. destruct (lookup (w_props w) y); [discriminate|exfalso; apply Hex; reflexivity].
  Qed.

  Lemma RANKED_new_prop rk M w p v : pinv w -> RANKED rk M w -> lookup (w_props w) p = None ->
    RANKED (bump rk p M) (S M) (set_props w (bind_key (w_props w) p (prop_new v))).
  Proof.
    intros Hinv (H1 & H2 & H3) Hp. set (w' := set_props w _). set (rk' := bump rk p M).
    assert (Old : forall y, lookup (w_props w) y <> None -> rk' y = rk y).
    { intros y Hy. unfold rk', bump. destruct (Nat.eqb_spec y p) as [->|]; [contradiction|reflexivity]. }
    split; [|split].
    - intros b ls q lf y Hb Hlf Htg. change (bview w' b) with (bview w b) in Hb. destruct (mentioned_exist w Hinv b ls (Some q) Hb) as (Eq & El).
      rewrite (Old q (Eq q eq_refl)), (Old y (El lf y Hlf Htg)). exact (H1 b ls q lf y Hb Hlf Htg).
    - intros id st Hst. change (w_evps w') with (w_evps w) in Hst. apply (rord_transfer rk rk' w w' _ 0); [|exact (H2 id st Hst)].
      intros rb _. split; [reflexivity|]. intros ls q Hb. destruct (mentioned_exist w Hinv _ ls (Some q) Hb) as (Eq & _). exact (Old q (Eq q eq_refl)).
    - intros y Hy. unfold w' in Hy; cbn [set_props w_props] in Hy. rewrite lookup_bind in Hy. unfold rk', bump. destruct (Nat.eqb_spec y p); [lia|].
      pose proof (H3 y Hy). lia.
  Qed.

  (* p = makeBinding / makeBoundProperty for a fresh p *)
  Lemma RANKED_bind_fresh rk M fuel w p e m w' :
    ML fn w -> NOEMIT w -> PropReg.REGI w -> RANKED rk M w -> lookup (w_props w) p = None ->
    (match m with MImmediate => True | MEvaluator e0 => exists id, lookup (w_bevs w) e0 = Some id /\ id <> 0 end) ->
    step1 fn rtl fuel w (PBind p e m) = (w', None) -> RANKED (bump rk p M) (S M) w'.
  Proof.
    intros HML HNE HR (H1 & H2 & H3) Hp Hmode H. pose proof HML as (Hinv & _).
    destruct (bind_fresh_shape fn rtl fuel w p e m w' HML HNE Hp Hmode H) as (w7 & v & b & ep & st0 & ls & H7 & (Hinv7 & Hna7 & _) & Eb & Bold & Bnew & Lex & Hst0 & Hev7 & Dom7).
    set (rk' := bump rk p M).
    assert (Old : forall y, lookup (w_props w) y <> None -> rk' y = rk y).
    { intros y Hy. unfold rk', bump. destruct (Nat.eqb_spec y p) as [->|]; [contradiction|reflexivity]. }
    assert (Newp : rk' p = M) by (unfold rk', bump; rewrite Nat.eqb_refl; reflexivity).
    assert (R7 : RANKED rk' (S M) w7).
    { split; [|split].
      - intros c ls0 q lf y Hb Hlf Htg. destruct (Nat.eq_dec c b) as [->|Hne].
        + rewrite Bnew in Hb. inversion Hb; subst ls0 q. rewrite Newp, (Old y (Lex lf y Hlf Htg)). exact (H3 y (Lex lf y Hlf Htg)).
        + rewrite (Bold c Hne) in Hb. destruct (mentioned_exist w Hinv c ls0 (Some q) Hb) as (Eq & El).
          rewrite (Old q (Eq q eq_refl)), (Old y (El lf y Hlf Htg)). exact (H1 c ls0 q lf y Hb Hlf Htg).
      - intros id st Hst. rewrite Hev7 in Hst.
        assert (Tr : forall l, (forall rb, In rb l -> snd rb <> b) -> rord rk w l 0 -> rord rk' w7 l 0).
        { intros l Hl. apply rord_transfer. intros rb Hi. split; [apply Bold; exact (Hl rb Hi)|].
          intros ls0 q Hb. destruct (mentioned_exist w Hinv _ ls0 (Some q) Hb) as (Eq & _). exact (Old q (Eq q eq_refl)). }
        assert (Reg : forall id' st' rb, nth_error (w_evps w) id' = Some st' -> In rb (ep_registry st') -> snd rb <> b).
        { intros id' st' [rid c] Hs Hi. pose proof (HR id' st' rid c Hs Hi) as Hk. pose proof (PropReg.bkey_lt0 _ _ _ Hk). cbn [snd]. lia. }
        destruct (Nat.eq_dec ep id) as [<-|Hne].
        + rewrite nth_upd_same in Hst by (apply nth_error_Some; congruence). inversion Hst; subst st. cbn [ep_registry].
          apply (rord_snoc rk' w7 (S (ep_next st0), b) ls p M); [cbn [snd]; exact Bnew|exact Newp| |lia|].
          * intros rb' ls' q' Hi Hb'. rewrite (Bold _ (Reg ep st0 rb' Hst0 Hi)) in Hb'. destruct (mentioned_exist w Hinv _ ls' (Some q') Hb') as (Eq & _).
            rewrite (Old q' (Eq q' eq_refl)). exact (H3 q' (Eq q' eq_refl)).
          * apply Tr; [intros rb Hi; exact (Reg ep st0 rb Hst0 Hi)|exact (H2 ep st0 Hst0)].
        + rewrite nth_upd_other in Hst by exact Hne. apply Tr; [intros rb Hi; exact (Reg id st rb Hst Hi)|exact (H2 id st Hst)].
      - intros y Hy. apply Dom7 in Hy. destruct Hy as [->|Hy]; [rewrite Newp; lia|]. rewrite (Old y Hy). pose proof (H3 y Hy). lia. }
    destruct R7 as (K1 & K2 & K3).
    assert (Hp7 : rk' p <= rk' p) by lia.
    destruct (set_helper_frame fn rtl rk' fuel 0 0 w7 p v w' Hna7 Hinv7 K1 (Nat.le_0_l _) (Nat.le_0_l _) H7) as (V & _ & _ & _ & Ev).
    apply (RANKED_views rk' (S M) w7 w' V Ev). split; [exact K1|split; [exact K2|exact K3]].
  Qed.

  Definition RANK (w : world) : Prop := exists rk M, RANKED rk M w.

  Theorem RANK_step fuel w o w' :
    ML fn w -> NOEMIT w -> PropReg.REGI w -> RANK w -> grow_op5 w o -> step1 fn rtl fuel w o = (w', None) -> RANK w'.
  Proof.
    intros HML HNE HR (rk & M & HRK) Ho H. pose proof HML as (Hinv & Hna & HS & HM). pose proof HRK as (K1 & K2 & K3).
    assert (Same : (forall b, get_bind w' b = get_bind w b) -> w_props w' = w_props w -> w_evps w' = w_evps w -> RANK w').
    { intros G Pp E. exists rk, M. apply (RANKED_same rk M w w'); [intros b; unfold bview; rewrite G; reflexivity|exact E|intros y; rewrite Pp; auto|exact HRK]. }
    destruct o; cbn [grow_op5] in Ho; try contradiction.
    - (* PNew *) cbn [step1] in H. destruct (lookup (w_props w) p) eqn:Hp; [discriminate H|]. inversion H; subst w'.
      exists (bump rk p M), (S M). apply RANKED_new_prop; assumption.
    - (* PDel: a property that no live binding reads *)
      destruct (PropGrowMore.del_shape fn rtl fuel w p w' Hinv (PropGrowMore.no_reader_sound w p Ho) H) as (pr & Hp & Pw & Gw & _ & _ & Hevs).
      assert (Pv : pview w p = Some (psigs_of pr)) by (unfold pview; rewrite Hp; reflexivity).
      assert (K3' : forall y, lookup (w_props w') y <> None -> rk y < M).
      { intros y Hy. apply K3. rewrite Pw in Hy. destruct (Nat.eq_dec y p) as [->|Hne]; [rewrite lookup_remove_same in Hy; contradiction|].
        rewrite lookup_remove_other in Hy by exact Hne. exact Hy. }
      destruct (pr_updater pr) as [b|] eqn:Hu.
      + destruct (pi_upd _ _ _ _ _ _ _ Hinv p _ b Pv Hu (fun z => z)) as (ls & Ebv).
        unfold bview in Ebv. destruct (get_bind w b) as [x|] eqn:Hb; [|discriminate Ebv].
        destruct Hevs as (w1 & E1 & G1 & Ev & Gb).
        destruct (destroy_binding w1 b) as [w2 e2] eqn:Hd. cbn [fst] in Ev, Gb.
        destruct (PropGrowLazyMore.destroy_shape w1 b x w2 e2 G1 Hd) as (Ev2 & _ & Gn). rewrite E1 in Ev2.
        assert (B2 : forall c, bview w' c = if Nat.eqb c b then None else bview w c).
        { intros c. unfold bview. destruct (Nat.eqb_spec c b) as [->|Hne]; [rewrite Gb, Gn; reflexivity|rewrite Gw by congruence; reflexivity]. }
        exists rk, M. split; [|split; [|exact K3']].
        * intros c ls0 q lf y Hc. rewrite B2 in Hc. destruct (Nat.eqb c b); [discriminate Hc|exact (K1 c ls0 q lf y Hc)].
        * intros id st Hst. rewrite Ev, Ev2 in Hst.
          assert (Keep : forall id' st' rb, nth_error (w_evps w) id' = Some st' -> In rb (ep_registry st') ->
                    (id' <> b_evp x \/ fst rb <> b_regid x) -> bview w' (snd rb) = bview w (snd rb)).
          { intros id' st' [rid c] Hs Hi Hor. cbn [snd fst] in *. rewrite B2. destruct (Nat.eqb_spec c b) as [->|]; [|reflexivity]. exfalso.
            pose proof (HR id' st' rid b Hs Hi) as Hk. unfold PropReg.bkey in Hk. rewrite Hb in Hk. inversion Hk; subst. destruct Hor as [Ho'|Ho']; apply Ho'; reflexivity. }
          destruct (nth_error (w_evps w) (b_evp x)) as [ep0|] eqn:He0.
          -- destruct (Nat.eq_dec (b_evp x) id) as [<-|Hne].
             ++ rewrite nth_upd_same in Hst by (apply nth_error_Some; congruence). inversion Hst; subst st. cbn [ep_registry].
                apply (rord_filter rk w w'); [|exact (K2 _ ep0 He0)].
                intros rb Hi Hf. apply (Keep (b_evp x) ep0 rb He0 Hi). right. cbn in Hf. destruct (Nat.eqb_spec (fst rb) (b_regid x)); [discriminate Hf|assumption].
             ++ rewrite nth_upd_other in Hst by exact Hne. apply (rord_transfer rk rk w w' _ 0); [|exact (K2 id st Hst)].
                intros rb Hi. split; [apply (Keep id st rb Hst Hi); left; auto|auto].
          -- apply (rord_transfer rk rk w w' _ 0); [|exact (K2 id st Hst)].
             intros rb Hi. split; [|auto]. destruct (Nat.eq_dec id (b_evp x)) as [->|Hne]; [congruence|apply (Keep id st rb Hst Hi); left; exact Hne].
      + exists rk, M. split; [|split; [|exact K3']].
        * intros c ls0 q lf y Hc. unfold bview in Hc. rewrite Gw in Hc by discriminate. exact (K1 c ls0 q lf y Hc).
        * intros id st Hst. rewrite Hevs in Hst. apply (rord_transfer rk rk w w' _ 0); [|exact (K2 id st Hst)].
          intros rb _. split; [unfold bview; rewrite Gw by discriminate; reflexivity|auto].
    - (* PSet *) cbn [step1] in H. destruct (lookup (w_props w) p) as [pr|]; [|discriminate H]. destruct (pr_updater pr); [discriminate H|].
      destruct (set_helper_frame fn rtl rk fuel 0 0 w p v w' Hna Hinv K1 (Nat.le_0_l _) (Nat.le_0_l _) H) as (V & _ & _ & _ & Ev).
      exists rk, M. exact (RANKED_views rk M w w' V Ev HRK).
    - cbn [step1] in H. destruct (lookup (w_props w) p); [|discriminate H]. inversion H; subst w'. apply Same; reflexivity.
    - cbn [step1] in H. destruct (lookup (w_props w) p); [|discriminate H]. inversion H; subst w'. apply Same; reflexivity.
    - (* PObserve *) destruct act; [contradiction|]. cbn [step1] in H.
      destruct (match k with KMoved => true | _ => false end); [discriminate H|].
      destruct (subscribe w p k (SObs label None)) as [[w1 hd]|] eqn:Hs; [|discriminate H]. inversion H; subst w'. clear H.
      pose proof (subscribe_ext _ _ _ _ _ _ Hs (pi_twf _ _ _ _ _ _ _ Hinv) (pi_own _ _ _ _ _ _ _ Hinv)) as E.
      exists rk, M. apply (RANKED_same rk M w); [| | |exact HRK].
      + intros b. unfold bview, get_bind. cbn [set_obs w_binds]. rewrite (se_binds _ _ _ _ _ _ E). reflexivity.
      + cbn [set_obs w_evps]. exact (se_evps _ _ _ _ _ _ E).
      + intros y Hy Hn. cbn [set_obs w_props] in Hy. pose proof (proj2 (se_pdom _ _ _ _ _ _ E y)) as D. unfold pview in D. rewrite Hn in D. specialize (D eq_refl).
        destruct (lookup (w_props w1) y); [discriminate D|contradiction].
    - (* PUnobserve *) cbn [step1] in H. destruct (lookup (w_obs w) h) as [hd|]; [|discriminate H].
      destruct (unsubscribe_cases w hd w' None H (pi_dead _ _ _ _ _ _ _ Hinv)) as [[_ E]|[(-> & _)|(_ & s0 & E)]]; [discriminate E|exists rk, M; exact HRK|].
      exists rk, M. apply (RANKED_same rk M w); [| | |exact HRK].
      + intros b. unfold bview, get_bind. rewrite (re_binds _ _ _ _ _ _ E). reflexivity.
      + exact (re_evps _ _ _ _ _ _ E).
      + intros y. rewrite (re_props _ _ _ _ _ _ E). auto.
    - (* PAssignFrom *) cbn [step1] in H. destruct (lookup (w_props w) p) as [pr|]; [|discriminate H]. destruct (lookup (w_props w) q) as [qr|]; [|discriminate H].
      destruct (pr_updater pr); [discriminate H|].
      destruct (set_helper_frame fn rtl rk fuel 0 0 w p (pr_value qr) w' Hna Hinv K1 (Nat.le_0_l _) (Nat.le_0_l _) H) as (V & _ & _ & _ & Ev).
      exists rk, M. exact (RANKED_views rk M w w' V Ev HRK).
    - (* PBind *) destruct Ho as (Hp & Hmode). exists (bump rk p M), (S M). exact (RANKED_bind_fresh rk M fuel w p e m w' HML HNE HR HRK Hp Hmode H).
    - (* PReset *) cbn [step1] in H. destruct (lookup (w_props w) p) as [pr|] eqn:Hp; [|discriminate H].
      destruct (pr_updater pr) as [b|] eqn:Hu; [|inversion H; subst w'; exists rk, M; exact HRK].
      destruct (destroy_binding w b) as [w1 [ex|]] eqn:Hd; [discriminate H|].
      destruct (destroy_binding_pinvg _ _ _ _ _ _ w b w1 Hinv (fun z => z) Hd) as (_ & Bb & Bo & _ & P1 & _).
      destruct (lookup (w_props w1) p) as [pr1|] eqn:Hp1; [|discriminate H]. inversion H; subst w'. clear H.
      assert (Pv : pview w p = Some (psigs_of pr)) by (unfold pview; rewrite Hp; reflexivity).
      destruct (pi_upd _ _ _ _ _ _ _ Hinv p _ b Pv Hu (fun z => z)) as (ls & Ebv).
      unfold bview in Ebv. destruct (get_bind w b) as [x|] eqn:Hb; [|discriminate Ebv].
      destruct (PropGrowLazyMore.destroy_shape w b x w1 None Hb Hd) as (Ev1 & _ & _).
      set (w2 := set_props w1 (bind_key (w_props w1) p (prop_set_updater pr1 None))).
      assert (B2 : forall c, bview w2 c = if Nat.eqb c b then None else bview w c).
      { intros c. change (bview w2 c) with (bview w1 c). destruct (Nat.eqb_spec c b) as [->|Hne]; [exact Bb|exact (Bo c Hne)]. }
      exists rk, M. split; [|split].
      + intros c ls0 q lf y Hc. rewrite B2 in Hc. destruct (Nat.eqb c b); [discriminate Hc|exact (K1 c ls0 q lf y Hc)].
      + intros id st Hst. change (w_evps w2) with (w_evps w1) in Hst. rewrite Ev1 in Hst.
        assert (Keep : forall id' st' rb, nth_error (w_evps w) id' = Some st' -> In rb (ep_registry st') ->
                  (id' <> b_evp x \/ fst rb <> b_regid x) -> bview w2 (snd rb) = bview w (snd rb)).
        { intros id' st' [rid c] Hs Hi Hor. cbn [snd fst] in *. rewrite B2. destruct (Nat.eqb_spec c b) as [->|]; [|reflexivity]. exfalso.
          pose proof (HR id' st' rid b Hs Hi) as Hk. unfold PropReg.bkey in Hk. rewrite Hb in Hk. inversion Hk; subst. destruct Hor as [Ho'|Ho']; apply Ho'; reflexivity. }
        destruct (nth_error (w_evps w) (b_evp x)) as [ep0|] eqn:He0.
        * destruct (Nat.eq_dec (b_evp x) id) as [<-|Hne].
          -- rewrite nth_upd_same in Hst by (apply nth_error_Some; congruence). inversion Hst; subst st. cbn [ep_registry].
             apply (rord_filter rk w w2); [|exact (K2 _ ep0 He0)].
             intros rb Hi Hf. apply (Keep (b_evp x) ep0 rb He0 Hi). right. cbn in Hf. destruct (Nat.eqb_spec (fst rb) (b_regid x)); [discriminate Hf|assumption].
          -- rewrite nth_upd_other in Hst by exact Hne. apply (rord_transfer rk rk w w2 _ 0); [|exact (K2 id st Hst)].
             intros rb Hi. split; [apply (Keep id st rb Hst Hi); left; auto|auto].
        * apply (rord_transfer rk rk w w2 _ 0); [|exact (K2 id st Hst)].
          intros rb Hi. split; [|auto]. destruct (Nat.eq_dec id (b_evp x)) as [->|Hne]; [congruence|apply (Keep id st rb Hst Hi); left; exact Hne].
      + intros y Hy. apply K3. unfold w2 in Hy; cbn [set_props w_props] in Hy. rewrite lookup_bind in Hy. destruct (Nat.eqb_spec y p) as [E|E]; [rewrite E, Hp; discriminate|rewrite <- P1; exact Hy].
    - (* PMoveCtor: the destination takes the rank of the source *)
      destruct (PropMove.movector_shape fn rtl fuel w src dst w' Hinv HNE H) as (s0 & dn & sn & Hs & Hd & Hne & Vd & Ud & Vs & Us & PW & Sw & HB & _ & HT & EV & LEN).
      assert (Pd : pview w dst = None) by (unfold pview; rewrite Hd; reflexivity).
      set (rk' := bump rk dst (rk src)).
      assert (Erk : forall y, y <> dst -> rk' (PropMove.rn src dst y) = rk y).
      { intros y Hy. unfold rk', bump, PropMove.rn. destruct (Nat.eqb_spec y src) as [->|Hys]; [rewrite Nat.eqb_refl; reflexivity|].
        destruct (Nat.eqb_spec y dst); [contradiction|reflexivity]. }
      (* the view of every binding: the old one renamed *)
      assert (BV : forall b ls tg, bview w b = Some (ls, tg) -> bview w' b = Some (map (PropLinkMove.mvl src dst) ls, option_map (PropMove.rn src dst) tg)).
      { intros b ls tg Hb. unfold bview in *. pose proof (HB b) as Hbb. destruct (get_bind w b) as [x|] eqn:Hx; [|discriminate Hb].
        destruct (get_bind w' b) as [x'|] eqn:Hx'; [|destruct Hbb]. destruct (HT b x x' Hx Hx') as (Et & El). inversion Hb; subst ls tg. rewrite Et, El. reflexivity. }
      assert (BVb : forall b ls' tg', bview w' b = Some (ls', tg') -> exists ls tg, bview w b = Some (ls, tg) /\ ls' = map (PropLinkMove.mvl src dst) ls /\ tg' = option_map (PropMove.rn src dst) tg).
      { intros b ls' tg' Hb'. pose proof (HB b) as Hbb. unfold bview in Hb'. destruct (get_bind w' b) as [x'|] eqn:Hx'; [|discriminate Hb'].
        destruct (get_bind w b) as [x|] eqn:Hx; [|destruct Hbb]. exists (leaves (b_root x)), (b_target x). split; [unfold bview; rewrite Hx; reflexivity|].
        pose proof (BV b _ _ ltac:(unfold bview; rewrite Hx; reflexivity)) as E. unfold bview in E. rewrite Hx' in E. inversion E; subst. inversion Hb'; subst. auto. }
      assert (Tgx : forall b ls q, bview w b = Some (ls, Some q) -> q <> dst).
      { intros b ls q Hb ->. destruct (pi_tgt _ _ _ _ _ _ _ Hinv _ _ _ Hb) as (v & Ev & _). congruence. }
      exists rk', M. split; [|split].
      + intros b ls' q' lf' y' Hb' Hlf' Hty'. destruct (BVb b ls' (Some q') Hb') as (ls & tg & Hb & -> & Etg).
        destruct tg as [q|]; [|discriminate Etg]. cbn [option_map] in Etg. inversion Etg; subst q'.
        apply in_map_iff in Hlf'. destruct Hlf' as (lf & <- & Hlf). rewrite (PropLinkMove.mvl_tg src dst lf Hne) in Hty'.
        destruct (lf_tg lf) as [y0|] eqn:Ety; [|discriminate Hty'].
        assert (Hl : has_leaf w b lf) by (exists ls, (Some q); split; [exact Hb|exact Hlf]).
        assert (Hy0 : y0 <> dst) by (intros ->; exact (pi_leafx _ _ _ _ _ _ _ Hinv _ _ _ Hl Ety Pd)).
        destruct (Nat.eqb_spec y0 dst); [contradiction|].
        assert (Ey' : y' = PropMove.rn src dst y0) by (unfold PropMove.rn; destruct (Nat.eqb y0 src); congruence). subst y'.
        rewrite (Erk y0 Hy0), (Erk q (Tgx b ls q Hb)). exact (K1 b ls q lf y0 Hb Hlf Ety).
      + intros id st Hst. rewrite EV in Hst. apply (rord_renamed rk rk' w w' (PropMove.rn src dst)); [|exact (K2 id st Hst)].
        intros rb ls q _ Hb. split; [exists (map (PropLinkMove.mvl src dst) ls); exact (BV _ _ _ Hb)|exact (Erk q (Tgx _ ls q Hb))].
      + intros y Hy. rewrite PW in Hy. unfold rk', bump. destruct (Nat.eqb_spec y dst) as [Eyd|Hyd]; [apply K3; rewrite Hs; discriminate|].
        destruct (Nat.eqb_spec y src) as [Eys|Hys]; [subst y; apply K3; rewrite Hs; discriminate|exact (K3 y Hy)].
    - (* PMoveAssign over an unread destination: the destination takes the rank of the source, its old binding leaves the registry *)
      pose proof (PropGrowMore.no_reader_sound w dst Ho) as Hnr.
      destruct (PropMove.moveassign_shape fn rtl fuel w dst src w' Hinv HNE Hnr H)
        as (s0 & d0 & dn & sn & Hs & Hd & Hne & Vd & Ud & Vs & Us & PW & Sw & HB & HT & HD & LEN).
      assert (Pd : pview w dst = Some (psigs_of d0)) by (unfold pview; rewrite Hd; reflexivity).
      set (rk' := bump rk dst (rk src)).
      assert (Erk : forall y, y <> dst -> rk' (PropMove.rn src dst y) = rk y).
      { intros y Hy. unfold rk', bump, PropMove.rn. destruct (Nat.eqb_spec y src) as [->|Hys]; [rewrite Nat.eqb_refl; reflexivity|].
        destruct (Nat.eqb_spec y dst); [contradiction|reflexivity]. }
      assert (Dead : forall b, pr_updater d0 = Some b -> bview w' b = None).
      { intros b E. rewrite E in HD. destruct HD as (x & _ & Hn & _). unfold bview. rewrite Hn. reflexivity. }
      assert (BV : forall b ls tg, pr_updater d0 <> Some b -> bview w b = Some (ls, tg) ->
                     bview w' b = Some (map (PropLinkMove.mvl src dst) ls, option_map (PropMove.rn src dst) tg)).
      { intros b ls tg Hnb Hb. unfold bview in *. pose proof (HB b Hnb) as Hbb. destruct (get_bind w b) as [x|] eqn:Hx; [|discriminate Hb].
        destruct (get_bind w' b) as [x'|] eqn:Hx'; [|destruct Hbb]. destruct (HT b x x' Hnb Hx Hx') as (Et & El). inversion Hb; subst ls tg. rewrite Et, El. reflexivity. }
      assert (BVb : forall b ls' tg', bview w' b = Some (ls', tg') -> pr_updater d0 <> Some b /\
                      exists ls tg, bview w b = Some (ls, tg) /\ ls' = map (PropLinkMove.mvl src dst) ls /\ tg' = option_map (PropMove.rn src dst) tg).
      { intros b ls' tg' Hb'. assert (Hnb : pr_updater d0 <> Some b) by (intros E; rewrite (Dead b E) in Hb'; discriminate Hb').
        split; [exact Hnb|]. pose proof (HB b Hnb) as Hbb. unfold bview in Hb'. destruct (get_bind w' b) as [x'|] eqn:Hx'; [|discriminate Hb'].
        destruct (get_bind w b) as [x|] eqn:Hx; [|destruct Hbb]. exists (leaves (b_root x)), (b_target x). split; [unfold bview; rewrite Hx; reflexivity|].
        pose proof (BV b _ _ Hnb ltac:(unfold bview; rewrite Hx; reflexivity)) as E. unfold bview in E. rewrite Hx' in E. inversion E; subst. inversion Hb'; subst. auto. }
      (* a surviving binding does not update dst *)
      assert (Tgx : forall b ls q, pr_updater d0 <> Some b -> bview w b = Some (ls, Some q) -> q <> dst).
      { intros b ls q Hnb Hb ->. destruct (pi_tgt _ _ _ _ _ _ _ Hinv _ _ _ Hb) as (v & Ev & Uv). rewrite Pd in Ev. inversion Ev; subst v. cbn in Uv. congruence. }
      exists rk', M. split; [|split].
      + intros b ls' q' lf' y' Hb' Hlf' Hty'. destruct (BVb b ls' (Some q') Hb') as (Hnb & ls & tg & Hb & -> & Etg).
        destruct tg as [q|]; [|discriminate Etg]. cbn [option_map] in Etg. inversion Etg; subst q'.
        apply in_map_iff in Hlf'. destruct Hlf' as (lf & <- & Hlf). rewrite (PropLinkMove.mvl_tg src dst lf Hne) in Hty'.
        destruct (lf_tg lf) as [y0|] eqn:Ety; [|discriminate Hty'].
        assert (Hl : has_leaf w b lf) by (exists ls, (Some q); split; [exact Hb|exact Hlf]).
        assert (Hy0 : y0 <> dst) by (intros ->; exact (Hnr b lf Hl Ety)).
        destruct (Nat.eqb_spec y0 dst); [contradiction|].
        assert (Ey' : y' = PropMove.rn src dst y0) by (unfold PropMove.rn; destruct (Nat.eqb y0 src); congruence). subst y'.
        rewrite (Erk y0 Hy0), (Erk q (Tgx b ls q Hnb Hb)). exact (K1 b ls q lf y0 Hb Hlf Ety).
      + intros id st Hst.
        assert (Ren : forall id' st' rb ls q, nth_error (w_evps w) id' = Some st' -> In rb (ep_registry st') -> pr_updater d0 <> Some (snd rb) ->
                        bview w (snd rb) = Some (ls, Some q) ->
                        (exists ls', bview w' (snd rb) = Some (ls', Some (PropMove.rn src dst q))) /\ rk' (PropMove.rn src dst q) = rk q).
        { intros id' st' rb ls q _ _ Hnb Hb. split; [exists (map (PropLinkMove.mvl src dst) ls); exact (BV _ _ _ Hnb Hb)|exact (Erk q (Tgx _ ls q Hnb Hb))]. }
        assert (Ef : forall l : list (nat * nat), filter (fun _ => true) l = l) by (induction l as [|a l IHl]; cbn; [reflexivity|rewrite IHl; reflexivity]).
        destruct (pr_updater d0) as [bd|] eqn:Hud.
        * destruct HD as (x & Hbx & _ & Ev). rewrite Ev in Hst.
          assert (Keep : forall id' st' rb, nth_error (w_evps w) id' = Some st' -> In rb (ep_registry st') ->
                    (id' <> b_evp x \/ fst rb <> b_regid x) -> Some bd <> Some (snd rb)).
          { intros id' st' [rid c] Hs' Hi Hor E. cbn [snd fst] in *. inversion E; subst c.
            pose proof (HR id' st' rid bd Hs' Hi) as Hk. unfold PropReg.bkey in Hk. rewrite Hbx in Hk. inversion Hk; subst. destruct Hor as [Ho'|Ho']; apply Ho'; reflexivity. }
          destruct (nth_error (w_evps w) (b_evp x)) as [ep0|] eqn:He0.
          -- destruct (Nat.eq_dec (b_evp x) id) as [<-|Hneid].
             ++ rewrite nth_upd_same in Hst by (apply nth_error_Some; congruence). inversion Hst; subst st. cbn [ep_registry].
                apply (rord_filter_renamed rk rk' w w' (PropMove.rn src dst)); [|exact (K2 _ ep0 He0)].
                intros rb ls q Hi Hf Hb. apply (Ren (b_evp x) ep0 rb ls q He0 Hi); [|exact Hb].
                apply (Keep (b_evp x) ep0 rb He0 Hi). right. cbn in Hf. destruct (Nat.eqb_spec (fst rb) (b_regid x)); [discriminate Hf|assumption].
             ++ rewrite nth_upd_other in Hst by exact Hneid. rewrite <- (Ef (ep_registry st)).
                apply (rord_filter_renamed rk rk' w w' (PropMove.rn src dst)); [|exact (K2 id st Hst)].
                intros rb ls q Hi _ Hb. apply (Ren id st rb ls q Hst Hi); [|exact Hb]. apply (Keep id st rb Hst Hi). left. auto.
          -- rewrite <- (Ef (ep_registry st)). apply (rord_filter_renamed rk rk' w w' (PropMove.rn src dst)); [|exact (K2 id st Hst)].
             intros rb ls q Hi _ Hb. apply (Ren id st rb ls q Hst Hi); [|exact Hb]. apply (Keep id st rb Hst Hi). left. intros ->. congruence.
        * rewrite HD in Hst. rewrite <- (Ef (ep_registry st)). apply (rord_filter_renamed rk rk' w w' (PropMove.rn src dst)); [|exact (K2 id st Hst)].
          intros rb ls q Hi _ Hb. apply (Ren id st rb ls q Hst Hi); [discriminate|exact Hb].
      + intros y Hy. rewrite PW in Hy. unfold rk', bump. destruct (Nat.eqb_spec y dst) as [Eyd|Hyd]; [apply K3; rewrite Hs; discriminate|].
        destruct (Nat.eqb_spec y src) as [Eys|Hys]; [subst y; apply K3; rewrite Hs; discriminate|exact (K3 y Hy)].
    - (* BevNew *) cbn [step1] in H. destruct (lookup (w_bevs w) e); [discriminate H|]. inversion H; subst w'. exists rk, M. split; [|split].
      + intros b ls q lf y Hb. exact (K1 b ls q lf y Hb).
      + intros id st Hst. cbn [set_bevs set_evps w_evps] in Hst.
        destruct (Nat.lt_ge_cases id (length (w_evps w))) as [Hlt|Hge]; [rewrite nth_error_app1 in Hst by exact Hlt; apply (rord_transfer rk rk w _ _ 0); [intros rb _; split; [reflexivity|auto]|exact (K2 id st Hst)]|].
        rewrite nth_error_app2 in Hst by exact Hge. destruct (id - length (w_evps w)) as [|n]; cbn in Hst; [inversion Hst; subst st; exact I|destruct n; discriminate Hst].
      + exact K3.
    - (* BevCopy *) cbn [step1] in H. destruct (lookup (w_bevs w) src); [|discriminate H]. destruct (lookup (w_bevs w) dst); [discriminate H|].
      inversion H; subst w'. apply Same; reflexivity.
    - (* BevDel *) cbn [step1] in H. destruct (lookup (w_bevs w) e); [|discriminate H]. inversion H; subst w'. apply Same; reflexivity.
    - (* BevEvalAll *) destruct Ho as (id & He & Hid). pose proof H as H0. cbn [step1] in H0. rewrite He in H0.
      destruct (nth_error (w_evps w) id) as [st|] eqn:Hst; [|discriminate H0].
      destruct (mixed_evalall_one_pass fn rtl rk fuel w e id st w' HML K1 HR He Hid Hst (K2 id st Hst) H) as (_ & V & Ev & _).
      exists rk, M. exact (RANKED_views rk M w w' V Ev HRK).
  Qed.

  Lemma RANK_world0 : RANK world0.
  Proof.
    exists (fun _ => 0), 0. split; [|split].
    - intros b ls q lf y Hb. unfold bview, get_bind, world0 in Hb. cbn in Hb. destruct b; discriminate Hb.
    - intros id st Hst. unfold world0 in Hst. cbn in Hst. destruct id as [|[|id]]; cbn in Hst; [inversion Hst; subst st; exact I|discriminate Hst|discriminate Hst].
    - intros y Hy. exfalso. apply Hy. reflexivity.
  Qed.

  Theorem RANK_reachable fuel : forall ops w, ML fn w -> NOEMIT w -> PropReg.REGI w -> RANK w -> run5_ok fn rtl fuel w ops ->
    RANK (fold_left (step fn rtl fuel) ops w).
  Proof.
    induction ops as [|o r IH]; intros w HML HNE HR HK Hok; cbn [fold_left]; [exact HK|]. destruct Hok as (Ho & Hs & Hr).
    pose proof (PropReg.step_rmono fn rtl fuel w o) as (RM & _).
    assert (HNE' : NOEMIT (step fn rtl fuel w o)).
    { unfold step. pose proof (step1_tmono fn rtl fuel w o) as Mo. destruct (step1 fn rtl fuel w o) as [w1 r1]. cbn [fst] in Mo.
      intros t Ht. apply (NOEMIT_tmono _ _ HNE Mo t). exact Ht. }
    assert (St : ML fn (step fn rtl fuel w o) /\ RANK (step fn rtl fuel w o)).
    { unfold step. destruct (step1 fn rtl fuel w o) as [w1 r1] eqn:H1. cbn [snd] in Hs. subst r1. split.
      - apply ML_log. exact (ML_step fn rtl fuel w o w1 HML HNE HR Ho H1).
      - destruct (RANK_step fuel w o w1 HML HNE HR HK Ho H1) as (rk & M & HRK). exists rk, M. apply (RANKED_same rk M w1); [reflexivity|reflexivity|auto|exact HRK]. }
    destruct St as (ML' & RK'). apply IH; [exact ML'|exact HNE'|exact (RM HR)|exact RK'|exact Hr].
  Qed.

  (* C06 in mixed worlds, end to end: after ANY history of a growing mixed network ONE evaluateAll of an explicit evaluator makes
     every property bound through it equal to its expression over the values after the pass *)
  Theorem mixed_reachable_one_pass fuel ops e id st w' :
    run5_ok fn rtl fuel world0 ops ->
    let w := run fn rtl fuel ops in
    lookup (w_bevs w) e = Some id -> id <> 0 -> nth_error (w_evps w) id = Some st ->
    step1 fn rtl fuel w (BevEvalAll e) = (w', None) ->
    ML fn w' /\
    forall rid b, In (rid, b) (ep_registry st) ->
      exists x T q, get_bind w' b = Some x /\ abs_tree (b_root x) = Some T /\ b_target x = Some q /\ A.clean T /\
                    envof w' q = A.den F1 F2 F3 (envof w') T.
  Proof.
    intros Hok w He Hid Hst H.
    pose proof (mixed_reachable_ML fn rtl fuel ops Hok) as HML. change (ML fn w) in HML.
    destruct (RANK_reachable fuel ops world0 (ML_world0 fn) NOEMIT_world0 PropReg.REGI_world0 RANK_world0 Hok) as (rk & M & (K1 & K2 & _)).
    pose proof (PropReg.reachable_REGI fn rtl fuel ops) as HR. change (PropReg.REGI w) in HR.
    destruct (mixed_evalall_one_pass fn rtl rk fuel w e id st w' HML K1 HR He Hid Hst (K2 id st Hst) H) as (A1 & _ & _ & A4). auto.
  Qed.
End Rank.
