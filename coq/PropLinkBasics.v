(* Basic facts for the link invariant: leaves under mark / eval / retarget, views under the world setters,
   transfer of every conjunct along equal views. *)
From KDB Require Import Util UtilProofs PropDefs PropLink.

Ltac wsimpl := cbn [w_tables w_props w_binds w_evps w_bevs w_obs w_held w_serial w_trace
                    set_tables set_props set_binds set_evps set_bevs set_obs set_held set_serial log
                    put_table put_bind get_table] in *.

(* ------------------------------------------------------------------------------------------------ *)
(* leaves *)

Lemma leaves_mark t leaf : forall t' up, mark t leaf = Some (t', up) -> leaves t' = leaves t.
Proof.
  induction t as [v|tg d l hc hm hd|f d c a IHa|f d c a IHa b IHb|f d c a IHa b IHb e IHe]; intros t' up H; cbn [mark] in H.
  - discriminate H.
  - destruct (Nat.eqb l leaf); [|discriminate H]. destruct d; inversion H; reflexivity.
  - destruct (mark a leaf) as [[a' u]|]; [|discriminate H]. specialize (IHa _ _ eq_refl).
    destruct u, d; inversion H; cbn [leaves]; exact IHa.
  - destruct (mark a leaf) as [[a' u]|].
    + specialize (IHa _ _ eq_refl). destruct u, d; inversion H; cbn [leaves]; rewrite IHa; reflexivity.
    + destruct (mark b leaf) as [[b' u]|]; [|discriminate H]. specialize (IHb _ _ eq_refl).
      destruct u, d; inversion H; cbn [leaves]; rewrite IHb; reflexivity.
  - destruct (mark a leaf) as [[a' u]|].
    + specialize (IHa _ _ eq_refl). destruct u, d; inversion H; cbn [leaves]; rewrite IHa; reflexivity.
    + destruct (mark b leaf) as [[b' u]|].
      * specialize (IHb _ _ eq_refl). destruct u, d; inversion H; cbn [leaves]; rewrite IHb; reflexivity.
      * destruct (mark e leaf) as [[e' u]|]; [|discriminate H]. specialize (IHe _ _ eq_refl).
        destruct u, d; inversion H; cbn [leaves]; rewrite IHe; reflexivity.
Qed.

Lemma leaves_eval fn rtl val t : leaves (fst (fst (eval fn rtl val t))) = leaves t.
Proof.
  induction t as [v|tg d l hc hm hd|f d c a IHa|f d c a IHa b IHb|f d c a IHa b IHb e IHe]; cbn [eval].
  - reflexivity.
  - destruct tg as [p|]; [destruct (val p)|]; reflexivity.
  - destruct d; [|reflexivity]. destruct (eval fn rtl val a) as [[a' ra] la]. cbn [fst] in IHa.
    destruct ra as [va|x]; [destruct (fn f [va])|]; cbn [fst leaves]; exact IHa.
  - destruct d; [|reflexivity].
    destruct (eval fn rtl val a) as [[a' ra] la], (eval fn rtl val b) as [[b' rb] lb]. cbn [fst] in IHa, IHb.
    destruct rtl.
    + destruct rb as [vb|x]; [destruct ra as [va|x]; [destruct (fn f [va; vb])|]|]; cbn [fst leaves]; rewrite ?IHa, ?IHb; reflexivity.
    + destruct ra as [va|x]; [destruct rb as [vb|x]; [destruct (fn f [va; vb])|]|]; cbn [fst leaves]; rewrite ?IHa, ?IHb; reflexivity.
  - destruct d; [|reflexivity].
    destruct (eval fn rtl val a) as [[a' ra] la], (eval fn rtl val b) as [[b' rb] lb], (eval fn rtl val e) as [[e' re] le].
    cbn [fst] in IHa, IHb, IHe.
    destruct rtl.
    + destruct re as [ve|x]; [destruct rb as [vb|x]; [destruct ra as [va|x]; [destruct (fn f [va; vb; ve])|]|]|];
        cbn [fst leaves]; rewrite ?IHa, ?IHb, ?IHe; reflexivity.
    + destruct ra as [va|x]; [destruct rb as [vb|x]; [destruct re as [ve|x]; [destruct (fn f [va; vb; ve])|]|]|];
        cbn [fst leaves]; rewrite ?IHa, ?IHb, ?IHe; reflexivity.
Qed.

Definition lf_set_tg (lf : leaf) (tg : option nat) : leaf :=
  {| lf_tg := tg; lf_id := lf_id lf; lf_hc := lf_hc lf; lf_hm := lf_hm lf; lf_hd := lf_hd lf |}.
Definition lf_retarget (l : nat) (f : option nat -> option nat) (lf : leaf) : leaf :=
  if Nat.eqb (lf_id lf) l then lf_set_tg lf (f (lf_tg lf)) else lf.

Lemma leaves_retarget t l f : leaves (retarget t l f) = map (lf_retarget l f) (leaves t).
Proof.
  induction t as [v|tg d l0 hc hm hd|g d c a IHa|g d c a IHa b IHb|g d c a IHa b IHb e IHe]; cbn [retarget leaves map].
  - reflexivity.
  - unfold lf_retarget; cbn [lf_id]. destruct (Nat.eqb l0 l); reflexivity.
  - exact IHa.
  - rewrite map_app, IHa, IHb; reflexivity.
  - rewrite !map_app, IHa, IHb, IHe; reflexivity.
Qed.

Lemma node_handles_leaves t : node_handles t = flat_map lf_handles (leaves t).
Proof.
  induction t as [v|tg d l0 hc hm hd|g d c a IHa|g d c a IHa b IHb|g d c a IHa b IHb e IHe]; cbn [node_handles leaves flat_map].
  - reflexivity.
  - reflexivity.
  - exact IHa.
  - rewrite flat_map_app, IHa, IHb; reflexivity.
  - rewrite !flat_map_app, IHa, IHb, IHe; reflexivity.
Qed.

Lemma lf_retarget_id l f lf : lf_id (lf_retarget l f lf) = lf_id lf.
Proof. unfold lf_retarget. destruct (Nat.eqb (lf_id lf) l); reflexivity. Qed.
Lemma lf_retarget_handles l f lf : lf_handles (lf_retarget l f lf) = lf_handles lf.
Proof. unfold lf_retarget. destruct (Nat.eqb (lf_id lf) l); reflexivity. Qed.
Lemma lf_retarget_h l f lf k : lf_h k (lf_retarget l f lf) = lf_h k lf.
Proof. unfold lf_retarget. destruct (Nat.eqb (lf_id lf) l); destruct k; reflexivity. Qed.

(* ------------------------------------------------------------------------------------------------ *)
(* views under the setters *)

Definition views_eq (w w' : world) : Prop :=
  (forall b, bview w' b = bview w b) /\ (forall t, tview w' t = tview w t) /\ (forall p, pview w' p = pview w p) /\
  w_obs w' = w_obs w /\ w_held w' = w_held w /\ w_serial w' = w_serial w /\ length (w_binds w') = length (w_binds w).

Lemma views_eq_refl w : views_eq w w.
Proof. repeat split. Qed.
Lemma views_eq_trans a b c : views_eq a b -> views_eq b c -> views_eq a c.
Proof.
  intros (B1 & T1 & P1 & O1 & H1 & S1 & L1) (B2 & T2 & P2 & O2 & H2 & S2 & L2).
  repeat split; intros; congruence.
Qed.

Lemma bview_put_bind w b y b' :
  bview (put_bind w b y) b' =
  if Nat.eqb b b' then (if Nat.ltb b (length (w_binds w)) then (if b_alive y then Some (leaves (b_root y), b_target y) else None) else None)
  else bview w b'.
Proof.
  unfold bview, get_bind, put_bind; cbn [set_binds w_binds]. rewrite nth_upd.
  destruct (Nat.eqb b b'); [|reflexivity]. destruct (Nat.ltb b (length (w_binds w))); [|reflexivity].
  destruct (b_alive y); reflexivity.
Qed.

Lemma get_bind_lt w b x : get_bind w b = Some x -> b < length (w_binds w) /\ b_alive x = true.
Proof.
  unfold get_bind. destruct (nth_error (w_binds w) b) as [y|] eqn:E; [|discriminate].
  destruct (b_alive y) eqn:A; [|discriminate]. intros H; inversion H; subst. split; [|exact A].
  apply nth_error_Some. congruence.
Qed.

(* replacing the tree of a live binding by one with the same leaves changes no view *)
Lemma views_put_root w b x t :
  get_bind w b = Some x -> leaves t = leaves (b_root x) -> views_eq w (put_bind w b (bind_with_root x t)).
Proof.
  intros Hb Hl. destruct (get_bind_lt _ _ _ Hb) as [Hlt Hal].
  repeat split; try reflexivity; [|unfold put_bind; cbn [set_binds w_binds]; apply upd_length]. intros b'. rewrite bview_put_bind.
  destruct (Nat.eqb_spec b b') as [<-|]; [|reflexivity].
  apply Nat.ltb_lt in Hlt. rewrite Hlt. cbn [bind_with_root b_alive b_root b_target]. rewrite Hal, Hl.
  unfold bview. rewrite Hb. reflexivity.
Qed.

Lemma tview_put_table w t tb t' :
  tview (put_table w t tb) t' =
  if Nat.eqb t t' then (if Nat.ltb t (length (w_tables w)) then Some (t_slots tb, t_free tb, t_alive tb) else None) else tview w t'.
Proof.
  unfold tview, get_table, put_table; cbn [set_tables w_tables]. rewrite nth_upd.
  destruct (Nat.eqb t t'); [|reflexivity]. destruct (Nat.ltb t (length (w_tables w))); reflexivity.
Qed.

Lemma get_table_lt w t tb : get_table w t = Some tb -> t < length (w_tables w).
Proof. unfold get_table. intros H. apply nth_error_Some. congruence. Qed.

(* changing only the emitting flag of a table changes no view *)
Lemma views_put_flag w t tb e :
  get_table w t = Some tb ->
  views_eq w (put_table w t {| t_slots := t_slots tb; t_free := t_free tb; t_emitting := e; t_alive := t_alive tb |}).
Proof.
  intros Ht. repeat split; try reflexivity. intros t'. rewrite tview_put_table.
  destruct (Nat.eqb_spec t t') as [<-|]; [|reflexivity].
  pose proof (get_table_lt _ _ _ Ht) as Hlt. apply Nat.ltb_lt in Hlt. rewrite Hlt. cbn [t_slots t_free t_alive].
  unfold tview. rewrite Ht. reflexivity.
Qed.

Lemma pview_bind w p pr q :
  pview (set_props w (bind_key (w_props w) p pr)) q = if Nat.eqb q p then Some (psigs_of pr) else pview w q.
Proof.
  unfold pview; cbn [set_props w_props]. rewrite lookup_bind.
  destruct (Nat.eqb q p); reflexivity.
Qed.

Lemma views_set_value w p pr v :
  lookup (w_props w) p = Some pr -> views_eq w (set_props w (bind_key (w_props w) p (prop_set_value pr v))).
Proof.
  intros Hp. repeat split; try reflexivity. intros q. rewrite pview_bind.
  destruct (Nat.eqb_spec q p) as [->|]; [|reflexivity]. unfold pview. rewrite Hp. reflexivity.
Qed.

Lemma views_log e w : views_eq w (log e w).
Proof. repeat split. Qed.
Lemma views_log_fns l : forall w, views_eq w (log_fns l w).
Proof.
  induction l as [|f r IH]; intros w; cbn [log_fns]; [apply views_eq_refl|].
  eapply views_eq_trans; [apply (views_log (EvFn f))|apply IH].
Qed.
Lemma views_set_evps w x : views_eq w (set_evps w x).
Proof. repeat split. Qed.

(* ------------------------------------------------------------------------------------------------ *)
(* every conjunct only looks at the views *)

Section Transfer.
  Variables w w' : world.
  Hypothesis V : views_eq w w'.

  Let B := proj1 V.
  Let T := proj1 (proj2 V).
  Let P := proj1 (proj2 (proj2 V)).
  Let O := proj1 (proj2 (proj2 (proj2 V))).
  Let Hd := proj1 (proj2 (proj2 (proj2 (proj2 V)))).
  Let Sr := proj1 (proj2 (proj2 (proj2 (proj2 (proj2 V))))).
  Let Ln := proj2 (proj2 (proj2 (proj2 (proj2 (proj2 V))))).

  Lemma slot_at_views t pos ser s : slot_at w' t pos ser s <-> slot_at w t pos ser s.
  Proof. unfold slot_at. rewrite T. tauto. Qed.
  Lemma live_views h s : live w' h s <-> live w h s.
  Proof. apply slot_at_views. Qed.
  Lemma has_leaf_views b lf : has_leaf w' b lf <-> has_leaf w b lf.
  Proof. unfold has_leaf. rewrite B. tauto. Qed.
  Lemma owns_views p k t : owns w' p k t <-> owns w p k t.
  Proof. unfold owns. rewrite P. tauto. Qed.

  Lemma TWF_views : TWF w -> TWF w'.
  Proof. intros H t sl fr al Ht. rewrite T in Ht. eauto. Qed.
  Lemma OWN_views S : OWN S w -> OWN S w'.
  Proof. intros H p k t Ho Hs. apply owns_views in Ho. destruct (H _ _ _ Ho Hs) as (sl & fr & E). exists sl, fr. rewrite T. exact E. Qed.
  Lemma DEAD_views : DEAD w -> DEAD w'.
  Proof. intros H t sl fr pos x H1 H2. rewrite T in H1. eauto. Qed.
  Lemma OWNINJ_views : OWNINJ w -> OWNINJ w'.
  Proof. intros H p k p' k' t H1 H2. apply owns_views in H1, H2. eauto. Qed.
  Lemma QUIET_views : QUIET w -> QUIET w'.
  Proof. intros H p k t pos ser s H1 Hk H2. apply owns_views in H1. apply slot_at_views in H2. eauto. Qed.
  Lemma LEAFX_views : LEAFX w -> LEAFX w'.
  Proof. intros H b lf p H1 H2. apply has_leaf_views in H1. rewrite P. eauto. Qed.
  Lemma LEAFK_views k S : LEAFK k S w -> LEAFK k S w'.
  Proof.
    intros H b lf p H1 H2 H3. apply has_leaf_views in H1. destruct (H _ _ _ H1 H2 H3) as [Ha Hb].
    split; [apply owns_views|apply live_views]; assumption.
  Qed.
  Lemma SLOTX_views X : SLOTX X w -> SLOTX X w'.
  Proof.
    intros H t pos ser b l Hx H1. apply slot_at_views in H1. destruct (H _ _ _ _ _ Hx H1) as (lf & Ha & Hb & Hc).
    exists lf. split; [apply has_leaf_views; exact Ha|auto].
  Qed.
  Lemma SLOT_views : SLOT w -> SLOT w'.
  Proof. apply SLOTX_views. Qed.
  Lemma SLOTOWN_views S : SLOTOWN S w -> SLOTOWN S w'.
  Proof.
    intros H t pos ser b l lf p k H1 H2 H3 H4 H5. apply slot_at_views in H1. apply has_leaf_views in H2. apply owns_views in H4. eauto.
  Qed.
  Lemma LEAFIDS_views : LEAFIDS w -> LEAFIDS w'.
  Proof. intros H b ls tg H1. rewrite B in H1. eauto. Qed.
  Lemma SER_views : SER w -> SER w'.
  Proof.
    intros (H1 & H2 & H3). unfold SER. rewrite Sr, O. repeat split.
    - intros t pos ser s Hs. apply slot_at_views in Hs. eauto.
    - exact H2.
    - intros b lf h Hl Hi. apply has_leaf_views in Hl. eauto.
  Qed.
  Lemma OBSN_views : OBSN w -> OBSN w'.
  Proof. intros H n h t pos s H1 H2. rewrite O in H1. apply slot_at_views in H2. eauto. Qed.
  Lemma NODEU_views : NODEU w -> NODEU w'.
  Proof. intros H b lf h t pos s H1 H2 H3. apply has_leaf_views in H1. apply slot_at_views in H3. eauto. Qed.
  Lemma UPD_views S : UPD S w -> UPD S w'.
  Proof. intros H p v b H1 H2 H3. rewrite P in H1. destruct (H _ _ _ H1 H2 H3) as (ls & E). exists ls. rewrite B. exact E. Qed.
  Lemma TGT_views : TGT w -> TGT w'.
  Proof. intros H b ls p H1. rewrite B in H1. destruct (H _ _ _ H1) as (v & E1 & E2). exists v. rewrite P. auto. Qed.
  Lemma HELD_views : HELD w -> HELD w'.
  Proof. intros H n b H1. rewrite Hd in H1. destruct (H _ _ H1) as [Ha Hb]. split; [rewrite Ln; exact Ha|]. intros ls tg H2. rewrite B in H2. eauto. Qed.

  Lemma pinvg_views X Sc Sm Sd So Su : pinvg X Sc Sm Sd So Su w -> pinvg X Sc Sm Sd So Su w'.
  Proof.
    intros [].
    constructor; auto using TWF_views, DEAD_views, OWN_views, OWNINJ_views, QUIET_views, LEAFX_views, LEAFK_views, SLOTX_views,
      SLOTOWN_views, LEAFIDS_views, SER_views, OBSN_views, NODEU_views, UPD_views, TGT_views, HELD_views.
  Qed.
  Lemma pinv_views : pinv w -> pinv w'.
  Proof. apply pinvg_views. Qed.
End Transfer.

(* ------------------------------------------------------------------------------------------------ *)
(* Signal::connect: what one subscription changes *)

Record sub_ext (w : world) (p : nat) (k : sigkind) (s : subscriber) (h : handle) (w1 : world) : Prop := {
  se_live : live w1 h s;
  se_old : forall t pos ser s', slot_at w t pos ser s' -> slot_at w1 t pos ser s';
  se_new : forall t pos ser s', slot_at w1 t pos ser s' ->
             slot_at w t pos ser s' \/ (t = h_table h /\ pos = h_pos h /\ ser = h_serial h /\ s' = s);
  se_owns_old : forall q k' t, owns w q k' t -> owns w1 q k' t;
  se_owns_new : forall q k' t, owns w1 q k' t -> owns w q k' t \/ (q = p /\ k' = k /\ t = h_table h /\ tview w t = None);
  se_owns_h : owns w1 p k (h_table h);
  se_pdom : forall q, pview w1 q = None <-> pview w q = None;
  se_upd : forall q v v1, pview w q = Some v -> pview w1 q = Some v1 -> ps_updater v1 = ps_updater v;
  se_twf : TWF w -> TWF w1;
  se_alive : forall t sl fr, tview w t = Some (sl, fr, true) -> exists sl' fr', tview w1 t = Some (sl', fr', true);
  se_alive_h : exists sl fr, tview w1 (h_table h) = Some (sl, fr, true);
  se_binds : w_binds w1 = w_binds w;
  se_obs : w_obs w1 = w_obs w;
  se_held : w_held w1 = w_held w;
  se_evps : w_evps w1 = w_evps w;
  se_serial : w_serial w1 = S (w_serial w);
  se_hser : h_serial h = w_serial w;
  se_vals : forall q, values w1 q = values w q;
  se_bevs : w_bevs w1 = w_bevs w }.

Lemma nth_error_app_Some {A} (l : list A) x i y : nth_error (l ++ [x]) i = Some y -> nth_error l i = Some y \/ (i = length l /\ y = x).
Proof.
  intros H. destruct (Nat.lt_ge_cases i (length l)) as [Hlt|Hge].
  - rewrite nth_error_app1 in H by assumption. auto.
  - rewrite nth_error_app2 in H by assumption. destruct (i - length l) as [|n] eqn:E.
    + cbn in H. inversion H. right. split; [lia|reflexivity].
    + cbn in H. destruct n; discriminate H.
Qed.

(* inserting subscriber s (serial ser) into a table: LIFO reuse of freed positions *)
Definition tb_insert (tb : table) (ser : nat) (s : subscriber) : table * nat :=
  match t_free tb with
  | i :: f => ({| t_slots := upd (t_slots tb) i (Some (ser, s)); t_free := f; t_emitting := t_emitting tb; t_alive := t_alive tb |}, i)
  | [] => ({| t_slots := t_slots tb ++ [Some (ser, s)]; t_free := []; t_emitting := t_emitting tb; t_alive := t_alive tb |}, length (t_slots tb))
  end.

Lemma tb_insert_spec tb ser s tb' pos :
  tb_insert tb ser s = (tb', pos) ->
  NoDup (t_free tb) -> (forall i, In i (t_free tb) -> nth_error (t_slots tb) i = Some None) ->
  nth_error (t_slots tb') pos = Some (Some (ser, s)) /\
  (forall j, j <> pos -> nth_error (t_slots tb') j = nth_error (t_slots tb) j \/ (nth_error (t_slots tb) j = None /\ nth_error (t_slots tb') j = None)) /\
  (nth_error (t_slots tb) pos = Some None \/ nth_error (t_slots tb) pos = None) /\
  NoDup (t_free tb') /\ (forall i, In i (t_free tb') -> nth_error (t_slots tb') i = Some None) /\
  t_alive tb' = t_alive tb.
Proof.
  unfold tb_insert. intros H ND FR. destruct (t_free tb) as [|i f] eqn:Ef.
  - inversion H; subst; clear H. cbn [t_slots t_free t_alive]. repeat split.
    + rewrite nth_error_app2 by lia. rewrite Nat.sub_diag. reflexivity.
    + intros j Hj. destruct (Nat.lt_ge_cases j (length (t_slots tb))) as [Hlt|Hge].
      * left. apply nth_error_app1. assumption.
      * right. split; [apply nth_error_None; assumption|]. apply nth_error_None. rewrite app_length. cbn. lia.
    + right. apply nth_error_None. lia.
    + constructor.
    + intros i [].
  - inversion H; subst; clear H. cbn [t_slots t_free t_alive].
    assert (Hi : nth_error (t_slots tb) pos = Some None) by (apply FR; left; reflexivity).
    assert (Hlt : pos < length (t_slots tb)) by (apply nth_error_Some; congruence).
    inversion ND as [|a b Hnin ND']; subst. repeat split.
    + apply nth_upd_same. assumption.
    + intros j Hj. left. apply nth_upd_other. congruence.
    + left. exact Hi.
    + exact ND'.
    + intros i Hin. rewrite nth_upd_other.
      * apply FR. right. exact Hin.
      * intros ->. contradiction.
Qed.

Lemma subscribe_unfold w p k s :
  subscribe w p k s =
  match lookup (w_props w) p with
  | None => None
  | Some pr =>
      let '(w1, t) := match sig_of pr k with
                      | Some t => (w, t)
                      | None => let t := length (w_tables w) in
                                (set_props (set_tables w (w_tables w ++ [table_new]))
                                           (bind_key (w_props w) p (prop_set_sig pr k (Some t))), t)
                      end in
      match get_table w1 t with
      | None => None
      | Some tb =>
          let '(tb', pos) := tb_insert tb (w_serial w1) s in
          Some (set_serial (put_table w1 t tb') (S (w_serial w1)), {| h_table := t; h_pos := pos; h_serial := w_serial w1 |})
      end
  end.
Proof.
  unfold subscribe, tb_insert. destruct (lookup (w_props w) p) as [pr|]; [|reflexivity].
  destruct (sig_of pr k) as [t|].
  - destruct (get_table w t) as [tb|]; [|reflexivity]. destruct (t_free tb); reflexivity.
  - destruct (get_table _ _) as [tb|]; [|reflexivity]. destruct (t_free tb); reflexivity.
Qed.

Lemma tview_Some w t sl fr al : tview w t = Some (sl, fr, al) <-> exists tb, get_table w t = Some tb /\ t_slots tb = sl /\ t_free tb = fr /\ t_alive tb = al.
Proof.
  unfold tview. destruct (get_table w t) as [tb|]; split.
  - intros H; inversion H; subst. exists tb. auto.
  - intros (tb0 & E & <- & <- & <-). inversion E; reflexivity.
  - discriminate.
  - intros (tb0 & E & _). discriminate E.
Qed.

Lemma insert_slots w0 t tb tb' pos s :
  get_table w0 t = Some tb -> tb_insert tb (w_serial w0) s = (tb', pos) ->
  NoDup (t_free tb) -> (forall i, In i (t_free tb) -> nth_error (t_slots tb) i = Some None) ->
  let w1 := set_serial (put_table w0 t tb') (S (w_serial w0)) in
  slot_at w1 t pos (w_serial w0) s /\
  (forall t' pos' ser s', slot_at w0 t' pos' ser s' -> slot_at w1 t' pos' ser s') /\
  (forall t' pos' ser s', slot_at w1 t' pos' ser s' -> slot_at w0 t' pos' ser s' \/ (t' = t /\ pos' = pos /\ ser = w_serial w0 /\ s' = s)) /\
  (forall t', t' <> t -> tview w1 t' = tview w0 t') /\
  tview w1 t = Some (t_slots tb', t_free tb', t_alive tb) /\
  NoDup (t_free tb') /\ (forall i, In i (t_free tb') -> nth_error (t_slots tb') i = Some None).
Proof.
  intros Ht Hins ND FR w1.
  destruct (tb_insert_spec _ _ _ _ _ Hins ND FR) as (Hpos & Hoth & Hwas & ND' & FR' & Hal).
  pose proof (get_table_lt _ _ _ Ht) as Hlt. apply Nat.ltb_lt in Hlt.
  assert (Tv : forall t', tview w1 t' = if Nat.eqb t t' then Some (t_slots tb', t_free tb', t_alive tb') else tview w0 t').
  { intros t'. unfold w1. change (tview (set_serial (put_table w0 t tb') (S (w_serial w0))) t') with (tview (put_table w0 t tb') t').
    rewrite tview_put_table. rewrite Hlt. reflexivity. }
  assert (Tv0 : tview w0 t = Some (t_slots tb, t_free tb, t_alive tb)) by (unfold tview; rewrite Ht; reflexivity).
  repeat split.
  - exists (t_slots tb'), (t_free tb'), (t_alive tb'). rewrite Tv, Nat.eqb_refl. auto.
  - intros t' pos' ser s' (sl & fr & al & E & N). unfold slot_at. rewrite Tv.
    destruct (Nat.eqb_spec t t') as [<-|Hne]; [|eauto].
    rewrite Tv0 in E. inversion E; subst. do 3 eexists. split; [reflexivity|].
    destruct (Nat.eq_dec pos' pos) as [->|Hp].
    + destruct Hwas as [Hw|Hw]; rewrite Hw in N; discriminate N.
    + destruct (Hoth pos' Hp) as [Ho|[Ho _]]; [rewrite Ho; exact N|rewrite Ho in N; discriminate N].
  - intros t' pos' ser s' (sl & fr & al & E & N). rewrite Tv in E.
    destruct (Nat.eqb_spec t t') as [<-|Hne].
    + inversion E; subst. destruct (Nat.eq_dec pos' pos) as [->|Hp].
      * rewrite Hpos in N. inversion N; subst. right. auto.
      * left. exists (t_slots tb), (t_free tb), (t_alive tb). split; [exact Tv0|].
        destruct (Hoth pos' Hp) as [Ho|[_ Ho]]; [rewrite <- Ho; exact N|rewrite Ho in N; discriminate N].
    + left. exists sl, fr, al. auto.
  - intros t' Hne. rewrite Tv. destruct (Nat.eqb_spec t t'); [congruence|reflexivity].
  - rewrite Tv, Nat.eqb_refl, Hal. reflexivity.
  - exact ND'.
  - exact FR'.
Qed.

Lemma psig_set_sig pr k x k' : psig (psigs_of (prop_set_sig pr k x)) k' = if kind_eqb k k' then x else psig (psigs_of pr) k'.
Proof. destruct k, k'; reflexivity. Qed.
Lemma upd_set_sig pr k x : ps_updater (psigs_of (prop_set_sig pr k x)) = ps_updater (psigs_of pr).
Proof. destruct k; reflexivity. Qed.
Lemma kind_eqb_spec a b : reflect (a = b) (kind_eqb a b).
Proof. destruct a, b; constructor; congruence. Qed.
Lemma psig_sig_of pr k : psig (psigs_of pr) k = sig_of pr k.
Proof. destruct k; reflexivity. Qed.

Lemma subscribe_ext w p k s w1 h :
  subscribe w p k s = Some (w1, h) -> TWF w -> OWN none_of w -> sub_ext w p k s h w1.
Proof.
  rewrite subscribe_unfold. intros H Htwf Hown.
  destruct (lookup (w_props w) p) as [pr|] eqn:Hp; [|discriminate H].
  assert (Pv : pview w p = Some (psigs_of pr)) by (unfold pview; rewrite Hp; reflexivity).
  destruct (sig_of pr k) as [t|] eqn:Hsig.
  - (* the signal already has its Impl *)
    destruct (get_table w t) as [tb|] eqn:Ht; [|discriminate H].
    destruct (tb_insert tb (w_serial w) s) as [tb' pos] eqn:Hins. inversion H; subst w1 h; clear H.
    assert (Tv0 : tview w t = Some (t_slots tb, t_free tb, t_alive tb)) by (unfold tview; rewrite Ht; reflexivity).
    destruct (Htwf _ _ _ _ Tv0) as [ND FR].
    destruct (insert_slots w t tb tb' pos s Ht Hins ND FR) as (Hl & Hold & Hnew & Toth & Tt & ND' & FR').
    assert (Ow : owns w p k t) by (exists (psigs_of pr); split; [exact Pv|rewrite psig_sig_of; exact Hsig]).
    assert (Hal : t_alive tb = true).
    { destruct (Hown _ _ _ Ow (fun x => x)) as (sl & fr & E). rewrite Tv0 in E. inversion E; reflexivity. }
    constructor; cbn [h_table h_pos h_serial]; [| | | | | | | | | | |reflexivity|reflexivity|reflexivity|reflexivity|reflexivity|reflexivity| |reflexivity].
    + exact Hl.
    + exact Hold.
    + exact Hnew.
    + intros q k' t' Ho. exact Ho.
    + intros q k' t' Ho. left. exact Ho.
    + exact Ow.
    + intros q. reflexivity.
    + intros q v v1 E1 E2. change (pview w q = Some v1) in E2. congruence.
    + intros _ t' sl fr al E. destruct (Nat.eq_dec t' t) as [->|Hne].
      * rewrite Tt in E. inversion E; subst. auto.
      * rewrite (Toth _ Hne) in E. eauto.
    + intros t' sl fr E. destruct (Nat.eq_dec t' t) as [->|Hne].
      * rewrite Tt. rewrite Tv0 in E. inversion E; subst. eauto.
      * rewrite (Toth _ Hne). eauto.
    + rewrite Tt, Hal. eauto.
    + intros q. reflexivity.
  - (* ensureImpl creates it *)
    cbv beta iota zeta in H.
    set (t := length (w_tables w)) in *.
    set (w0 := set_props (set_tables w (w_tables w ++ [table_new])) (bind_key (w_props w) p (prop_set_sig pr k (Some t)))) in *.
    assert (Ht0 : get_table w0 t = Some table_new).
    { unfold get_table, w0; cbn [set_props set_tables w_tables]. unfold t. rewrite nth_error_app2 by lia. rewrite Nat.sub_diag. reflexivity. }
    rewrite Ht0 in H. cbn [tb_insert table_new t_free t_slots t_emitting t_alive] in H.
    change (w_serial w0) with (w_serial w) in H. inversion H; subst w1 h; clear H.
    assert (TvN : tview w t = None).
    { unfold tview, get_table. replace (nth_error (w_tables w) t) with (@None table); [reflexivity|]. symmetry. apply nth_error_None. unfold t; lia. }
    assert (Tv0 : forall t', tview w0 t' = if Nat.eqb t' t then Some ([], [], true) else tview w t').
    { intros t'. unfold tview, get_table, w0; cbn [set_props set_tables w_tables].
      destruct (Nat.eqb_spec t' t) as [->|Hne].
      - unfold t. rewrite nth_error_app2 by lia. rewrite Nat.sub_diag. reflexivity.
      - destruct (Nat.lt_ge_cases t' t) as [Hlt|Hge].
        + rewrite nth_error_app1 by exact Hlt. reflexivity.
        + replace (nth_error (w_tables w ++ [table_new]) t') with (@None table).
          * replace (nth_error (w_tables w) t') with (@None table); [reflexivity|]. symmetry. apply nth_error_None. unfold t in Hge. lia.
          * symmetry. apply nth_error_None. rewrite app_length. cbn. unfold t in *. lia. }
    assert (S0 : forall t' pos' ser s', slot_at w0 t' pos' ser s' <-> slot_at w t' pos' ser s').
    { intros. unfold slot_at. rewrite Tv0. destruct (Nat.eqb_spec t' t) as [->|Hne]; [|tauto].
      rewrite TvN. split; intros (sl & fr & al & E & N); [|discriminate E]. inversion E; subst. destruct pos'; discriminate N. }
    assert (ND0 : NoDup (t_free table_new)) by constructor.
    assert (FR0 : forall i, In i (t_free table_new) -> nth_error (t_slots table_new) i = Some None) by (intros i []).
    assert (Hins : tb_insert table_new (w_serial w0) s =
                   ({| t_slots := [] ++ [Some (w_serial w, s)]; t_free := []; t_emitting := false; t_alive := true |}, 0)) by reflexivity.
    destruct (insert_slots w0 t table_new _ 0 s Ht0 Hins ND0 FR0) as (Hl & Hold & Hnew & Toth & Tt & ND' & FR').
    change (w_serial w0) with (w_serial w) in *.
    assert (Pv0 : forall q, pview w0 q = if Nat.eqb q p then Some (psigs_of (prop_set_sig pr k (Some t))) else pview w q).
    { intros q. unfold w0. apply (pview_bind (set_tables w (w_tables w ++ [table_new]))). }
    set (w1 := set_serial (put_table w0 t _) (S (w_serial w))) in *.
    assert (Pv1 : forall q, pview w1 q = pview w0 q) by reflexivity.
    constructor; cbn [h_table h_pos h_serial]; [| | | | | | | | | | |reflexivity|reflexivity|reflexivity|reflexivity|reflexivity|reflexivity| |reflexivity].
    + exact Hl.
    + intros t' pos' ser s' Hs. apply Hold. apply S0. exact Hs.
    + intros t' pos' ser s' Hs. destruct (Hnew _ _ _ _ Hs) as [Ho|Hn]; [left; apply S0; exact Ho|right; exact Hn].
    + intros q k' t' (v & E & Es). unfold owns. rewrite Pv1, Pv0. destruct (Nat.eqb_spec q p) as [->|Hne]; [|eauto].
      rewrite Pv in E. inversion E; subst v. eexists. split; [reflexivity|]. rewrite psig_set_sig.
      destruct (kind_eqb_spec k k') as [<-|Hk]; [|exact Es]. rewrite psig_sig_of in Es. congruence.
    + intros q k' t' (v & E & Es). rewrite Pv1, Pv0 in E. destruct (Nat.eqb_spec q p) as [->|Hne].
      * inversion E; subst v. rewrite psig_set_sig in Es. destruct (kind_eqb_spec k k') as [<-|Hk].
        -- inversion Es; subst t'. right. auto.
        -- left. exists (psigs_of pr). auto.
      * left. exists v. auto.
    + exists (psigs_of (prop_set_sig pr k (Some t))). rewrite Pv1, Pv0, Nat.eqb_refl. split; [reflexivity|].
      rewrite psig_set_sig. destruct (kind_eqb_spec k k); [reflexivity|congruence].
    + intros q. rewrite Pv1, Pv0. destruct (Nat.eqb_spec q p) as [->|Hne]; [|tauto]. rewrite Pv. split; discriminate.
    + intros q v v1 E1 E2. rewrite Pv1, Pv0 in E2. destruct (Nat.eqb_spec q p) as [->|Hne]; [|congruence].
      rewrite Pv in E1. inversion E1; inversion E2; subst. apply upd_set_sig.
    + intros Hw t' sl fr al E. destruct (Nat.eq_dec t' t) as [->|Hne].
      * rewrite Tt in E. inversion E; subst. auto.
      * rewrite (Toth _ Hne), Tv0 in E. destruct (Nat.eqb_spec t' t); [congruence|]. eauto.
    + intros t' sl fr E. destruct (Nat.eq_dec t' t) as [->|Hne]; [congruence|].
      rewrite (Toth _ Hne), Tv0. destruct (Nat.eqb_spec t' t); [congruence|]. eauto.
    + rewrite Tt. cbn. eauto.
    + intros q. unfold values. change (w_props w1) with (w_props w0). unfold w0; cbn [set_props w_props]. rewrite lookup_bind.
      destruct (Nat.eqb_spec q p) as [->|]; [|reflexivity]. rewrite Hp. destruct k; reflexivity.
Qed.

Lemma bview_binds w w1 : w_binds w1 = w_binds w -> forall b, bview w1 b = bview w b.
Proof. intros E b. unfold bview, get_bind. rewrite E. reflexivity. Qed.
Lemma has_leaf_binds w w1 : w_binds w1 = w_binds w -> forall b lf, has_leaf w1 b lf <-> has_leaf w b lf.
Proof. intros E b lf. unfold has_leaf. rewrite (bview_binds _ _ E). tauto. Qed.

Definition quiet_sub (s : subscriber) : Prop := (exists label, s = SObs label None) \/ (exists b l, s = SNode b l).

Section SubExt.
  Variables (w : world) (p : nat) (k : sigkind) (s : subscriber) (h : handle) (w1 : world).
  Hypothesis E : sub_ext w p k s h w1.

  Let HL := has_leaf_binds w w1 (se_binds _ _ _ _ _ _ E).
  Let BV := bview_binds w w1 (se_binds _ _ _ _ _ _ E).

  Lemma se_pview_back q v1 : pview w1 q = Some v1 -> exists v, pview w q = Some v /\ ps_updater v1 = ps_updater v.
  Proof.
    intros H1. destruct (pview w q) as [v|] eqn:Ev.
    - exists v. split; [reflexivity|]. eapply se_upd; eauto.
    - apply (se_pdom _ _ _ _ _ _ E) in Ev. congruence.
  Qed.
  Lemma se_pview_fwd q v : pview w q = Some v -> exists v1, pview w1 q = Some v1 /\ ps_updater v1 = ps_updater v.
  Proof.
    intros H1. destruct (pview w1 q) as [v1|] eqn:Ev.
    - exists v1. split; [reflexivity|]. eapply se_upd; eauto.
    - apply (se_pdom _ _ _ _ _ _ E) in Ev. congruence.
  Qed.

  Lemma DEAD_sub : DEAD w -> DEAD w1.
  Proof.
    intros H t sl fr pos x Ht Hn. destruct x as [[ser s']|]; [|reflexivity]. exfalso.
    assert (Hsl : slot_at w1 t pos ser s') by (exists sl, fr, false; auto).
    destruct (se_new _ _ _ _ _ _ E _ _ _ _ Hsl) as [(sl0 & fr0 & al0 & Et & En)|(-> & -> & -> & ->)].
    - destruct al0.
      + destruct (se_alive _ _ _ _ _ _ E _ _ _ Et) as (sl' & fr' & Et'). congruence.
      + specialize (H _ _ _ _ _ Et En). discriminate H.
    - destruct (se_alive_h _ _ _ _ _ _ E) as (sl' & fr' & Et'). congruence.
  Qed.
  Lemma OWN_sub : OWN none_of w -> OWN none_of w1.
  Proof.
    intros H q k' t Ho _. destruct (se_owns_new _ _ _ _ _ _ E _ _ _ Ho) as [Ho'|(-> & -> & -> & _)].
    - destruct (H _ _ _ Ho' (fun x => x)) as (sl & fr & Et). eapply se_alive; eauto.
    - eapply se_alive_h; eauto.
  Qed.
  Lemma OWNINJ_sub : OWN none_of w -> OWNINJ w -> OWNINJ w1.
  Proof.
    intros Hown H q k1 q' k2 t H1 H2.
    destruct (se_owns_new _ _ _ _ _ _ E _ _ _ H1) as [O1|(-> & -> & -> & N1)],
             (se_owns_new _ _ _ _ _ _ E _ _ _ H2) as [O2|(-> & -> & Et & N2)].
    - eauto.
    - subst t. destruct (Hown _ _ _ O1 (fun x => x)) as (sl & fr & Et). congruence.
    - destruct (Hown _ _ _ O2 (fun x => x)) as (sl & fr & Et). congruence.
    - auto.
  Qed.
  Lemma QUIET_sub : OWN none_of w -> OWNINJ w -> QUIET w -> (k = KDestroyed \/ k = KMoved -> quiet_sub s) -> QUIET w1.
  Proof.
    intros Hown Hinj H Hs q k' t pos ser s' Ho Hk Hsl.
    destruct (se_new _ _ _ _ _ _ E _ _ _ _ Hsl) as [Hold|(-> & -> & -> & ->)].
    - destruct (se_owns_new _ _ _ _ _ _ E _ _ _ Ho) as [Ho'|(-> & -> & -> & N)].
      + eapply H; eauto.
      + destruct Hold as (sl & fr & al & Et & _). congruence.
    - destruct (OWNINJ_sub Hown Hinj _ _ _ _ _ Ho (se_owns_h _ _ _ _ _ _ E)) as [_ ->]. apply Hs. exact Hk.
  Qed.
  Lemma LEAFX_sub : LEAFX w -> LEAFX w1.
  Proof. intros H b lf q H1 H2. apply HL in H1. rewrite (se_pdom _ _ _ _ _ _ E). eauto. Qed.
  Lemma LEAFK_sub k' S : LEAFK k' S w -> LEAFK k' S w1.
  Proof.
    intros H b lf q H1 H2 H3. apply HL in H1. destruct (H _ _ _ H1 H2 H3) as [Ha Hb].
    split; [eapply se_owns_old; eauto|eapply se_old; eauto].
  Qed.
  Lemma SLOTX_sub X : SLOTX X w -> (forall b l, s = SNode b l -> X b) -> SLOTX X w1.
  Proof.
    intros H Hs t pos ser b l Hx Hsl.
    destruct (se_new _ _ _ _ _ _ E _ _ _ _ Hsl) as [Hold|(-> & -> & -> & Es)].
    - destruct (H _ _ _ _ _ Hx Hold) as (lf & Ha & Hb & Hc). exists lf. split; [apply HL; exact Ha|auto].
    - symmetry in Es. apply Hs in Es. contradiction.
  Qed.
  Lemma SLOTOWN_sub S : SLOTOWN S w -> (forall b l, s = SNode b l -> bview w b = None) -> SLOTOWN S w1.
  Proof.
    intros H Hs t pos ser b l lf q k' Hsl Hlf Hid Ho Hq. apply HL in Hlf.
    destruct (se_new _ _ _ _ _ _ E _ _ _ _ Hsl) as [Hold|(-> & -> & -> & Es)].
    - destruct (se_owns_new _ _ _ _ _ _ E _ _ _ Ho) as [Ho'|(-> & -> & -> & N)].
      + eapply H; eauto.
      + destruct Hold as (sl & fr & al & Et & _). congruence.
    - symmetry in Es. apply Hs in Es. destruct Hlf as (ls & tg & Eb & _). congruence.
  Qed.
  Lemma LEAFIDS_sub : LEAFIDS w -> LEAFIDS w1.
  Proof. intros H b ls tg H1. rewrite BV in H1. eauto. Qed.
  Lemma SER_sub : SER w -> SER w1.
  Proof.
    intros (H1 & H2 & H3). unfold SER. rewrite (se_serial _ _ _ _ _ _ E), (se_obs _ _ _ _ _ _ E). repeat split.
    - intros t pos ser s' Hsl. destruct (se_new _ _ _ _ _ _ E _ _ _ _ Hsl) as [Hold|(-> & -> & -> & ->)].
      + specialize (H1 _ _ _ _ Hold). lia.
      + rewrite (se_hser _ _ _ _ _ _ E). lia.
    - intros n h0 Hn. specialize (H2 _ _ Hn). lia.
    - intros b lf h0 Hl Hi. apply HL in Hl. specialize (H3 _ _ _ Hl Hi). lia.
  Qed.
  Lemma OBSN_sub : SER w -> OBSN w -> OBSN w1.
  Proof.
    intros (_ & S2 & _) H n h0 t pos s' Hn Hsl. rewrite (se_obs _ _ _ _ _ _ E) in Hn.
    destruct (se_new _ _ _ _ _ _ E _ _ _ _ Hsl) as [Hold|(-> & -> & Es & ->)].
    - eauto.
    - specialize (S2 _ _ Hn). rewrite (se_hser _ _ _ _ _ _ E) in Es. lia.
  Qed.
  Lemma NODEU_sub : SER w -> NODEU w -> NODEU w1.
  Proof.
    intros (_ & _ & S3) H b lf h0 t pos s' Hl Hi Hsl. apply HL in Hl.
    destruct (se_new _ _ _ _ _ _ E _ _ _ _ Hsl) as [Hold|(-> & -> & Es & ->)].
    - eauto.
    - specialize (S3 _ _ _ Hl Hi). rewrite (se_hser _ _ _ _ _ _ E) in Es. lia.
  Qed.
  Lemma UPD_sub S : UPD S w -> UPD S w1.
  Proof.
    intros H q v1 b H1 H2 H3. destruct (se_pview_back _ _ H1) as (v & Ev & Eu). rewrite Eu in H2.
    destruct (H _ _ _ Ev H2 H3) as (ls & Eb). exists ls. rewrite BV. exact Eb.
  Qed.
  Lemma TGT_sub : TGT w -> TGT w1.
  Proof.
    intros H b ls q H1. rewrite BV in H1. destruct (H _ _ _ H1) as (v & Ev & Eu).
    destruct (se_pview_fwd _ _ Ev) as (v1 & Ev1 & Eu1). exists v1. split; [exact Ev1|congruence].
  Qed.
  Lemma HELD_sub : HELD w -> HELD w1.
  Proof.
    intros H n b H1. rewrite (se_held _ _ _ _ _ _ E) in H1. destruct (H _ _ H1) as [Ha Hb].
    split; [rewrite (se_binds _ _ _ _ _ _ E); exact Ha|]. intros ls tg H2. rewrite BV in H2. eauto.
  Qed.
End SubExt.

Lemma pinvg_sub X Sc Sm Sd Su w p k s h w1 :
  sub_ext w p k s h w1 -> pinvg X Sc Sm Sd none_of Su w ->
  (k = KDestroyed \/ k = KMoved -> quiet_sub s) -> (forall b l, s = SNode b l -> X b /\ bview w b = None) ->
  pinvg X Sc Sm Sd none_of Su w1.
Proof.
  intros E [] Hq Hs.
  constructor; eauto using se_twf, DEAD_sub, OWN_sub, OWNINJ_sub, QUIET_sub, LEAFX_sub, LEAFK_sub, LEAFIDS_sub, SER_sub, OBSN_sub, NODEU_sub,
    UPD_sub, TGT_sub, HELD_sub.
  - eapply SLOTX_sub; eauto. intros b l Es. apply (Hs _ _ Es).
  - eapply SLOTOWN_sub; eauto. intros b l Es. apply (Hs _ _ Es).
Qed.

(* ------------------------------------------------------------------------------------------------ *)
(* ConnectionHandle::disconnect: what freeing one slot changes *)

Record rem_ext (w : world) (t pos ser : nat) (s : subscriber) (w1 : world) : Prop := {
  re_was : slot_at w t pos ser s;
  re_sub : forall t' pos' ser' s', slot_at w1 t' pos' ser' s' <-> (slot_at w t' pos' ser' s' /\ ~ (t' = t /\ pos' = pos));
  re_tables : forall t' sl fr al, tview w t' = Some (sl, fr, al) -> exists sl' fr', tview w1 t' = Some (sl', fr', al);
  re_tables_back : forall t' sl fr al, tview w1 t' = Some (sl, fr, al) -> exists sl' fr', tview w t' = Some (sl', fr', al);
  re_twf : TWF w -> TWF w1;
  re_dead : DEAD w -> DEAD w1;
  re_props : w_props w1 = w_props w;
  re_binds : w_binds w1 = w_binds w;
  re_obs : w_obs w1 = w_obs w;
  re_held : w_held w1 = w_held w;
  re_evps : w_evps w1 = w_evps w;
  re_serial : w_serial w1 = w_serial w }.

Lemma unsubscribe_cases w h w1 e :
  unsubscribe w h = (w1, e) -> DEAD w ->
  (w1 = w /\ e = Some PxUnmodelled) \/
  (w1 = w /\ e = None /\ forall s, ~ slot_at w (h_table h) (h_pos h) (h_serial h) s) \/
  (e = None /\ exists s, rem_ext w (h_table h) (h_pos h) (h_serial h) s w1).
Proof.
  unfold unsubscribe. intros H Hdead.
  destruct (get_table w (h_table h)) as [tb|] eqn:Ht.
  2:{ inversion H; subst. right; left. repeat split. intros s (sl & fr & al & E & _). unfold tview in E. rewrite Ht in E. discriminate E. }
  assert (Tv : tview w (h_table h) = Some (t_slots tb, t_free tb, t_alive tb)) by (unfold tview; rewrite Ht; reflexivity).
  destruct (t_alive tb) eqn:Hal; cbn [negb] in H.
  2:{ inversion H; subst. right; left. repeat split. intros s (sl & fr & al & E & N). rewrite Tv in E. inversion E; subst.
      specialize (Hdead _ _ _ _ _ Tv N). discriminate Hdead. }
  destruct (nth_error (t_slots tb) (h_pos h)) as [[[ser s]|]|] eqn:Hn.
  2,3: inversion H; subst; right; left; repeat split; intros s' (sl & fr & al & E & N); rewrite Tv in E; inversion E; subst; congruence.
  destruct (Nat.eqb_spec ser (h_serial h)) as [->|Hne].
  2:{ inversion H; subst. right; left. repeat split. intros s' (sl & fr & al & E & N). rewrite Tv in E. inversion E; subst. congruence. }
  destruct (t_emitting tb) eqn:Hem.
  { inversion H; subst. left. auto. }
  inversion H; subst w1 e; clear H. right; right. split; [reflexivity|]. exists s.
  set (t := h_table h) in *. set (pos := h_pos h) in *.
  set (tb' := {| t_slots := upd (t_slots tb) pos None; t_free := pos :: t_free tb; t_emitting := false; t_alive := true |}).
  pose proof (get_table_lt _ _ _ Ht) as Hlt. apply Nat.ltb_lt in Hlt.
  assert (Tv1 : forall t', tview (put_table w t tb') t' = if Nat.eqb t t' then Some (t_slots tb', t_free tb', true) else tview w t').
  { intros t'. rewrite tview_put_table, Hlt. reflexivity. }
  assert (Hpl : pos < length (t_slots tb)) by (apply nth_error_Some; congruence).
  constructor; try reflexivity.
  - exists (t_slots tb), (t_free tb), true. auto.
  - intros t' pos' ser' s'. unfold slot_at. rewrite Tv1. destruct (Nat.eqb_spec t t') as [<-|Hne].
    + split.
      * intros (sl & fr & al & E & N). inversion E; subst. cbn [tb' t_slots] in N.
        destruct (Nat.eq_dec pos' pos) as [->|Hp]; [rewrite nth_upd_same in N by exact Hpl; discriminate N|].
        rewrite nth_upd_other in N by congruence. split; [|tauto]. exists (t_slots tb), (t_free tb), true. auto.
      * intros [(sl & fr & al & E & N) Hd]. rewrite Tv in E. inversion E; subst. do 3 eexists. split; [reflexivity|].
        cbn [tb' t_slots]. rewrite nth_upd_other; [exact N|]. intros ->. apply Hd. auto.
    + split; [intros Hs; split; [exact Hs|intros [? ?]; congruence]|tauto].
  - intros t' sl fr al E. rewrite Tv1. destruct (Nat.eqb_spec t t') as [<-|Hne]; [|eauto].
    rewrite Tv in E. inversion E; subst. eauto.
  - intros t' sl fr al E. rewrite Tv1 in E. destruct (Nat.eqb_spec t t') as [<-|Hne]; [|eauto].
    inversion E; subst. rewrite Tv. eauto.
  - intros Htwf t' sl fr al E. rewrite Tv1 in E. destruct (Nat.eqb_spec t t') as [<-|Hne]; [|eauto].
    inversion E; subst; clear E. destruct (Htwf _ _ _ _ Tv) as [ND FR]. cbn [tb' t_slots t_free]. split.
    + constructor; [|exact ND]. intros Hin. specialize (FR _ Hin). congruence.
    + intros i [<-|Hin]; [apply nth_upd_same; exact Hpl|].
      destruct (Nat.eq_dec pos i) as [<-|Hp]; [apply nth_upd_same; exact Hpl|]. rewrite nth_upd_other by exact Hp. auto.
  - intros Hd t' sl fr pos' x E N. rewrite Tv1 in E. destruct (Nat.eqb_spec t t') as [<-|Hne]; [discriminate E|eauto].
Qed.

Section RemExt.
  Variables (w : world) (t pos ser : nat) (s : subscriber) (w1 : world).
  Hypothesis E : rem_ext w t pos ser s w1.

  Let HL := has_leaf_binds w w1 (re_binds _ _ _ _ _ _ E).
  Let BV := bview_binds w w1 (re_binds _ _ _ _ _ _ E).
  Lemma re_pview q : pview w1 q = pview w q.
  Proof. unfold pview. rewrite (re_props _ _ _ _ _ _ E). reflexivity. Qed.
  Lemma re_owns q k u : owns w1 q k u <-> owns w q k u.
  Proof. unfold owns. rewrite re_pview. tauto. Qed.
  Lemma re_slot_old t' pos' ser' s' : slot_at w1 t' pos' ser' s' -> slot_at w t' pos' ser' s'.
  Proof. intros H. apply (re_sub _ _ _ _ _ _ E) in H. tauto. Qed.

  Lemma OWN_rem S : OWN S w -> OWN S w1.
  Proof. intros H q k u Ho Hs. apply re_owns in Ho. destruct (H _ _ _ Ho Hs) as (sl & fr & Et). eapply re_tables; eauto. Qed.
  Lemma OWNINJ_rem : OWNINJ w -> OWNINJ w1.
  Proof. intros H q k q' k' u H1 H2. apply re_owns in H1, H2. eauto. Qed.
  Lemma QUIET_rem : QUIET w -> QUIET w1.
  Proof. intros H q k u pos' ser' s' Ho Hk Hs. apply re_owns in Ho. apply re_slot_old in Hs. eauto. Qed.
  Lemma LEAFX_rem : LEAFX w -> LEAFX w1.
  Proof. intros H b lf q H1 H2. apply HL in H1. rewrite re_pview. eauto. Qed.
  Lemma LEAFK_rem k S : LEAFK k S w -> (forall b lf, has_leaf w b lf -> s <> SNode b (lf_id lf)) -> LEAFK k S w1.
  Proof.
    intros H Hs b lf q H1 H2 H3. apply HL in H1. destruct (H _ _ _ H1 H2 H3) as [Ha Hb].
    split; [apply re_owns; exact Ha|]. apply (re_sub _ _ _ _ _ _ E). split; [exact Hb|].
    intros [Et Ep]. destruct Hb as (sl & fr & al & Etv & En). destruct (re_was _ _ _ _ _ _ E) as (sl' & fr' & al' & Etv' & En').
    rewrite Et, Etv' in Etv. injection Etv as E1 E2 E3. rewrite Ep, <- E1, En' in En. injection En as E4 E5. exact (Hs _ _ H1 E5).
  Qed.
  Lemma SLOTX_rem X : SLOTX X w -> SLOTX X w1.
  Proof.
    intros H t' pos' ser' b l Hx Hs. apply re_slot_old in Hs. destruct (H _ _ _ _ _ Hx Hs) as (lf & Ha & Hb).
    exists lf. split; [apply HL; exact Ha|exact Hb].
  Qed.
  Lemma SLOTOWN_rem S : SLOTOWN S w -> SLOTOWN S w1.
  Proof. intros H t' pos' ser' b l lf q k Hs Hl Hid Ho Hq. apply re_slot_old in Hs. apply HL in Hl. apply re_owns in Ho. eauto. Qed.
  Lemma LEAFIDS_rem : LEAFIDS w -> LEAFIDS w1.
  Proof. intros H b ls tg H1. rewrite BV in H1. eauto. Qed.
  Lemma SER_rem : SER w -> SER w1.
  Proof.
    intros (H1 & H2 & H3). unfold SER. rewrite (re_serial _ _ _ _ _ _ E), (re_obs _ _ _ _ _ _ E). repeat split.
    - intros t' pos' ser' s' Hs. apply re_slot_old in Hs. eauto.
    - exact H2.
    - intros b lf h0 Hl Hi. apply HL in Hl. eauto.
  Qed.
  Lemma OBSN_rem : OBSN w -> OBSN w1.
  Proof. intros H n h0 t' pos' s' Hn Hs. rewrite (re_obs _ _ _ _ _ _ E) in Hn. apply re_slot_old in Hs. eauto. Qed.
  Lemma NODEU_rem : NODEU w -> NODEU w1.
  Proof. intros H b lf h0 t' pos' s' Hl Hi Hs. apply HL in Hl. apply re_slot_old in Hs. eauto. Qed.
  Lemma UPD_rem S : UPD S w -> UPD S w1.
  Proof. intros H q v b H1 H2 H3. rewrite re_pview in H1. destruct (H _ _ _ H1 H2 H3) as (ls & Eb). exists ls. rewrite BV. exact Eb. Qed.
  Lemma TGT_rem : TGT w -> TGT w1.
  Proof. intros H b ls q H1. rewrite BV in H1. destruct (H _ _ _ H1) as (v & Ev & Eu). exists v. rewrite re_pview. auto. Qed.
  Lemma HELD_rem : HELD w -> HELD w1.
  Proof.
    intros H n b H1. rewrite (re_held _ _ _ _ _ _ E) in H1. destruct (H _ _ H1) as [Ha Hb].
    split; [rewrite (re_binds _ _ _ _ _ _ E); exact Ha|]. intros ls tg H2. rewrite BV in H2. eauto.
  Qed.

  Lemma pinvg_rem X Sc Sm Sd So Su :
    pinvg X Sc Sm Sd So Su w -> (forall b lf, has_leaf w b lf -> s <> SNode b (lf_id lf)) -> pinvg X Sc Sm Sd So Su w1.
  Proof.
    intros [] Hs.
    constructor; eauto using re_twf, re_dead, OWN_rem, OWNINJ_rem, QUIET_rem, LEAFX_rem, LEAFK_rem, SLOTX_rem, SLOTOWN_rem,
      LEAFIDS_rem, SER_rem, OBSN_rem, NODEU_rem, UPD_rem, TGT_rem, HELD_rem.
  Qed.
End RemExt.

(* ------------------------------------------------------------------------------------------------ *)
(* ~Signal: the table of a destroyed signal *)

Record kill_ext (w : world) (t : nat) (w1 : world) : Prop := {
  ke_t : exists sl fr al, tview w t = Some (sl, fr, al) /\ tview w1 t = Some (map (fun _ => None) sl, fr, false);
  ke_other : forall t', t' <> t -> tview w1 t' = tview w t';
  ke_props : w_props w1 = w_props w;
  ke_binds : w_binds w1 = w_binds w;
  ke_obs : w_obs w1 = w_obs w;
  ke_held : w_held w1 = w_held w;
  ke_evps : w_evps w1 = w_evps w;
  ke_serial : w_serial w1 = w_serial w }.

Lemma kill_table_cases w ot w1 e :
  kill_table w ot = (w1, e) ->
  (w1 = w /\ e = Some PxUnmodelled) \/
  (w1 = w /\ e = None /\ (ot = None \/ exists t, ot = Some t /\ tview w t = None)) \/
  (e = None /\ exists t, ot = Some t /\ kill_ext w t w1).
Proof.
  unfold kill_table. intros H. destruct ot as [t|]; [|inversion H; subst; right; left; auto].
  destruct (get_table w t) as [tb|] eqn:Ht.
  2:{ inversion H; subst. right; left. repeat split. right. exists t. split; [reflexivity|]. unfold tview. rewrite Ht. reflexivity. }
  destruct (t_emitting tb); [inversion H; subst; left; auto|].
  inversion H; subst w1 e; clear H. right; right. split; [reflexivity|]. exists t. split; [reflexivity|].
  pose proof (get_table_lt _ _ _ Ht) as Hlt. apply Nat.ltb_lt in Hlt.
  constructor; try reflexivity.
  - exists (t_slots tb), (t_free tb), (t_alive tb). split; [unfold tview; rewrite Ht; reflexivity|].
    rewrite tview_put_table, Nat.eqb_refl, Hlt. reflexivity.
  - intros t' Hne. rewrite tview_put_table. destruct (Nat.eqb_spec t t'); [congruence|reflexivity].
Qed.

Section KillExt.
  Variables (w : world) (t : nat) (w1 : world).
  Hypothesis E : kill_ext w t w1.

  Let HL := has_leaf_binds w w1 (ke_binds _ _ _ E).
  Let BV := bview_binds w w1 (ke_binds _ _ _ E).
  Lemma ke_pview q : pview w1 q = pview w q.
  Proof. unfold pview. rewrite (ke_props _ _ _ E). reflexivity. Qed.
  Lemma ke_owns q k u : owns w1 q k u <-> owns w q k u.
  Proof. unfold owns. rewrite ke_pview. tauto. Qed.
  Lemma ke_slot t' pos ser s : slot_at w1 t' pos ser s <-> (slot_at w t' pos ser s /\ t' <> t).
  Proof.
    destruct (Nat.eq_dec t' t) as [->|Hne].
    - split; [|tauto]. intros (sl & fr & al & Et & En). exfalso.
      destruct (ke_t _ _ _ E) as (sl0 & fr0 & al0 & _ & Et1). rewrite Et1 in Et. inversion Et; subst.
      rewrite nth_error_map in En. destruct (nth_error sl0 pos); discriminate En.
    - unfold slot_at. rewrite (ke_other _ _ _ E _ Hne). tauto.
  Qed.

  Lemma TWF_kill : TWF w -> TWF w1.
  Proof.
    intros H t' sl fr al Et. destruct (Nat.eq_dec t' t) as [->|Hne].
    - destruct (ke_t _ _ _ E) as (sl0 & fr0 & al0 & Et0 & Et1). rewrite Et1 in Et. inversion Et; subst.
      destruct (H _ _ _ _ Et0) as [ND FR]. split; [exact ND|]. intros i Hi. specialize (FR _ Hi).
      rewrite nth_error_map, FR. reflexivity.
    - rewrite (ke_other _ _ _ E _ Hne) in Et. eauto.
  Qed.
  Lemma DEAD_kill : DEAD w -> DEAD w1.
  Proof.
    intros H t' sl fr pos x Et En. destruct (Nat.eq_dec t' t) as [->|Hne].
    - destruct (ke_t _ _ _ E) as (sl0 & fr0 & al0 & Et0 & Et1). rewrite Et1 in Et. inversion Et; subst.
      rewrite nth_error_map in En. destruct (nth_error sl0 pos); inversion En; reflexivity.
    - rewrite (ke_other _ _ _ E _ Hne) in Et. eauto.
  Qed.
  Lemma OWN_kill S : OWN S w -> (forall q k, owns w q k t -> S q) -> OWN S w1.
  Proof.
    intros H Hs q k u Ho Hq. apply ke_owns in Ho. destruct (H _ _ _ Ho Hq) as (sl & fr & Et).
    destruct (Nat.eq_dec u t) as [->|Hne]; [exfalso; eauto|]. rewrite (ke_other _ _ _ E _ Hne). eauto.
  Qed.
  Lemma OWNINJ_kill : OWNINJ w -> OWNINJ w1.
  Proof. intros H q k q' k' u H1 H2. apply ke_owns in H1, H2. eauto. Qed.
  Lemma QUIET_kill : QUIET w -> QUIET w1.
  Proof. intros H q k u pos ser s Ho Hk Hs. apply ke_owns in Ho. apply ke_slot in Hs. destruct Hs. eauto. Qed.
  Lemma LEAFX_kill : LEAFX w -> LEAFX w1.
  Proof. intros H b lf q H1 H2. apply HL in H1. rewrite ke_pview. eauto. Qed.
  Lemma LEAFK_kill k S : LEAFK k S w -> (forall q, owns w q k t -> S q) -> LEAFK k S w1.
  Proof.
    intros H Hs b lf q H1 H2 H3. apply HL in H1. destruct (H _ _ _ H1 H2 H3) as [Ha Hb].
    split; [apply ke_owns; exact Ha|]. apply ke_slot. split; [exact Hb|]. intros Et. rewrite Et in Ha. eauto.
  Qed.
  Lemma SLOTX_kill X : SLOTX X w -> SLOTX X w1.
  Proof.
    intros H t' pos ser b l Hx Hs. apply ke_slot in Hs. destruct Hs as [Hs _]. destruct (H _ _ _ _ _ Hx Hs) as (lf & Ha & Hb).
    exists lf. split; [apply HL; exact Ha|exact Hb].
  Qed.
  Lemma SLOTOWN_kill S : SLOTOWN S w -> SLOTOWN S w1.
  Proof. intros H t' pos ser b l lf q k Hs Hl Hid Ho Hq. apply ke_slot in Hs. destruct Hs. apply HL in Hl. apply ke_owns in Ho. eauto. Qed.
  Lemma LEAFIDS_kill : LEAFIDS w -> LEAFIDS w1.
  Proof. intros H b ls tg H1. rewrite BV in H1. eauto. Qed.
  Lemma SER_kill : SER w -> SER w1.
  Proof.
    intros (H1 & H2 & H3). unfold SER. rewrite (ke_serial _ _ _ E), (ke_obs _ _ _ E). repeat split.
    - intros t' pos ser s Hs. apply ke_slot in Hs. destruct Hs. eauto.
    - exact H2.
    - intros b lf h0 Hl Hi. apply HL in Hl. eauto.
  Qed.
  Lemma OBSN_kill : OBSN w -> OBSN w1.
  Proof. intros H n h0 t' pos s Hn Hs. rewrite (ke_obs _ _ _ E) in Hn. apply ke_slot in Hs. destruct Hs. eauto. Qed.
  Lemma NODEU_kill : NODEU w -> NODEU w1.
  Proof. intros H b lf h0 t' pos s Hl Hi Hs. apply HL in Hl. apply ke_slot in Hs. destruct Hs. eauto. Qed.
  Lemma UPD_kill S : UPD S w -> UPD S w1.
  Proof. intros H q v b H1 H2 H3. rewrite ke_pview in H1. destruct (H _ _ _ H1 H2 H3) as (ls & Eb). exists ls. rewrite BV. exact Eb. Qed.
  Lemma TGT_kill : TGT w -> TGT w1.
  Proof. intros H b ls q H1. rewrite BV in H1. destruct (H _ _ _ H1) as (v & Ev & Eu). exists v. rewrite ke_pview. auto. Qed.
  Lemma HELD_kill : HELD w -> HELD w1.
  Proof.
    intros H n b H1. rewrite (ke_held _ _ _ E) in H1. destruct (H _ _ H1) as [Ha Hb].
    split; [rewrite (ke_binds _ _ _ E); exact Ha|]. intros ls tg H2. rewrite BV in H2. eauto.
  Qed.

  Lemma pinvg_kill X Sc Sm Sd So Su :
    pinvg X Sc Sm Sd So Su w ->
    (forall q k, owns w q k t -> So q /\ (k = KChanged -> Sc q) /\ (k = KMoved -> Sm q) /\ (k = KDestroyed -> Sd q)) ->
    pinvg X Sc Sm Sd So Su w1.
  Proof.
    intros [] Hs.
    constructor; eauto using TWF_kill, DEAD_kill, OWNINJ_kill, QUIET_kill, LEAFX_kill, SLOTX_kill, SLOTOWN_kill,
      LEAFIDS_kill, SER_kill, OBSN_kill, NODEU_kill, UPD_kill, TGT_kill, HELD_kill.
    - apply OWN_kill; [assumption|]. intros q k Ho. apply (Hs _ _ Ho).
    - apply LEAFK_kill; [assumption|]. intros q Ho. apply (Hs _ _ Ho). reflexivity.
    - apply LEAFK_kill; [assumption|]. intros q Ho. apply (Hs _ _ Ho). reflexivity.
    - apply LEAFK_kill; [assumption|]. intros q Ho. apply (Hs _ _ Ho). reflexivity.
  Qed.
End KillExt.

(* ------------------------------------------------------------------------------------------------ *)
(* exemptions only weaken *)
Lemma pinvg_mono (X Sc Sm Sd So Su X' Sc' Sm' Sd' So' Su' : nat -> Prop) w :
  (forall x, X x -> X' x) -> (forall x, Sc x -> Sc' x) -> (forall x, Sm x -> Sm' x) -> (forall x, Sd x -> Sd' x) ->
  (forall x, So x -> So' x) -> (forall x, Su x -> Su' x) ->
  pinvg X Sc Sm Sd So Su w -> pinvg X' Sc' Sm' Sd' So' Su' w.
Proof.
  intros HX Hc Hm Hd Ho Hu []. constructor; auto.
  - intros p k t H1 H2. eauto.
  - intros b lf p H1 H2 H3. eauto.
  - intros b lf p H1 H2 H3. eauto.
  - intros b lf p H1 H2 H3. eauto.
  - intros t pos ser b l H1 H2. eauto.
  - intros t pos ser b l lf p k H1 H2 H3 H4 H5. eauto.
  - intros p v b H1 H2 H3. eauto.
Qed.
