// F10 (C12): Signal::isConnectionBlocked(foreign handle) answers for another connection (NDEBUG) instead of out_of_range.
#define NDEBUG 1
#include <kdbindings/signal.h>
#include <cstdio>
using namespace KDBindings;
int main() {
    Signal<> s1, s2;
    auto h1 = s1.connect([] {}); auto h2 = s2.connect([] {});
    s2.blockConnection(h2, true);
    try { bool b = s2.isConnectionBlocked(h1); std::printf("no throw, answered %d\n", (int)b); return 1; }
    catch (const std::out_of_range &) { std::printf("out_of_range\n"); return 0; }
}
