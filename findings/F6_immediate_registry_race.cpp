// F6 (C17): all immediate-mode bindings register in one process-wide std::map without synchronisation.
// Build with clang++ -fsanitize=thread.
#include <kdbindings/binding.h>
#include <thread>
#include <vector>
using namespace KDBindings;
int main() {
    std::vector<std::thread> ts;
    for (int t = 0; t < 4; ++t) ts.emplace_back([] {
        for (int i = 0; i < 2000; ++i) {
            Property<int> a{i}; auto p = makeBoundProperty(a + 1); a = i + 1;
            if (p.get() != i + 2) __builtin_trap();
        }
    });
    for (auto &t : ts) t.join();
    return 0;
}
