// F1 (C16): a library exception leaving Impl::emit leaves m_isEmitting set forever.
#include <kdbindings/signal.h>
#include <cstdio>
using namespace KDBindings;
int main() {
    Signal<int> s; int ran = 0;
    auto ev = std::make_shared<ConnectionEvaluator>();
    auto h = s.connectDeferred(ev, [&](int) { ++ran; });
    auto h2 = s.connect([&](int) { ++ran; });
    ev.reset();
    bool threw = false;
    try { s.emit(1); } catch (const std::runtime_error &) { threw = true; }
    h.disconnect(); // remove the cause
    bool ok = true;
    try { s.emit(2); } catch (const std::runtime_error &e) { ok = false; std::printf("second emit threw: %s\n", e.what()); }
    std::printf("threw=%d ok=%d ran=%d active=%d\n", threw, ok, ran, (int)h.isActive());
    return (threw && ok && ran >= 1) ? 0 : 1;
}
