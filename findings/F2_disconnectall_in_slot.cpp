// F2 (C09): disconnectAll() from inside a slot frees the Impl under the emission walk.
#include <kdbindings/signal.h>
#include <cstdio>
using namespace KDBindings;
int main() {
    auto *s = new Signal<int>; int ran = 0;
    auto h1 = s->connect([&](int) { ++ran; s->disconnectAll(); });
    auto h2 = s->connect([&](int) { ++ran; });
    s->emit(1);
    std::printf("ran=%d a1=%d a2=%d\n", ran, (int)h1.isActive(), (int)h2.isActive());
    s->emit(2);
    delete s;
    return (!h1.isActive() && !h2.isActive()) ? 0 : 1;
}
