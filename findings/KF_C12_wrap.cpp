// KF-C12-wrap (C12): the generation counter is uint32_t. After exactly 2^32 erase/insert cycles on one storage
// position an id retained from the very first insertion designates the value inserted last.
// Build: g++ -std=c++17 -O2 -I/repo/src ; runs ~30 s.  Exit 0 = finding reproduced (stale id resolves), 1 = not reproduced.
#include <kdbindings/genindex_array.h>
#include <cstdio>
using namespace KDBindings::Private;
int main()
{
    GenerationalIndexArray<int> a;
    const GenerationalIndex first = a.insert(111);
    GenerationalIndex cur = first;
    for (unsigned long long i = 0; i < (1ull << 32); ++i) {
        a.erase(cur);
        cur = a.insert(222);
    }
    const int *p = a.get(first);
    std::printf("stale get -> %s%d\n", p ? "" : "null ", p ? *p : 0);
    return (p && *p == 222) ? 0 : 1;
}
