// F4 (C05): a deferred slot emitting a deferred signal of the same evaluator:
// push_back during the range-for (iterator invalidation) / invocation lost by clear().
#include <kdbindings/signal.h>
#include <cstdio>
using namespace KDBindings;
int main() {
    auto ev = std::make_shared<ConnectionEvaluator>();
    Signal<int> a, b; int ranA = 0, ranB = 0;
    auto hb = b.connectDeferred(ev, [&](int) { ++ranB; });
    auto ha = a.connectDeferred(ev, [&](int v) { ++ranA; for (int i = 0; i < 40; ++i) b.emit(v); });
    a.emit(1);
    ev->evaluateDeferredConnections();
    ev->evaluateDeferredConnections();
    std::printf("ranA=%d ranB=%d\n", ranA, ranB);
    return (ranA == 1 && ranB == 40) ? 0 : 1;
}
