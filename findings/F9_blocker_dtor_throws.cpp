// F9 (C15): ~ConnectionBlocker throws out_of_range (-> std::terminate) when the connection vanished.
#include <kdbindings/signal.h>
#include <cstdio>
using namespace KDBindings;
int main() {
    Signal<> s; auto h = s.connect([] {});
    { ConnectionBlocker b(h); h.disconnect(); }
    { auto *s2 = new Signal<>; auto h2 = s2->connect([] {}); ConnectionBlocker b(h2); delete s2; }
    std::printf("survived\n");
    return 0;
}
