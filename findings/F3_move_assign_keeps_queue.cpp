// F3 (C04/C05/C11): move-assigning over a signal drops its Impl without disconnecting:
// queued deferred invocations of the overwritten signal still run.
#include <kdbindings/signal.h>
#include <cstdio>
using namespace KDBindings;
int main() {
    auto ev = std::make_shared<ConnectionEvaluator>();
    Signal<int> dst, src; int ran = 0;
    auto h = dst.connectDeferred(ev, [&](int v) { ran += v; });
    dst.emit(5);
    dst = std::move(src);
    ev->evaluateDeferredConnections();
    std::printf("ran=%d active=%d\n", ran, (int)h.isActive());
    return ran == 0 && !h.isActive() ? 0 : 1;
}
