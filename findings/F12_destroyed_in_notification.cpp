// Destroying a bound property from inside a notification of one of its inputs (handler connected BEFORE the binding).
#include <kdbindings/binding.h>
#include <cstdio>
#include <memory>
using namespace KDBindings;
int main()
{
    Property<int> a{ 1 };
    std::unique_ptr<Property<int>> c;
    auto h = a.valueChanged().connect([&](int) { c.reset(); });   // connected first
    c = std::make_unique<Property<int>>(makeBoundProperty(a + 1)); // the binding's node subscribes after the handler
    a = 2; // handler destroys c (binding, nodes); the emission then reaches the node's own slot
    std::puts("done");
    return 0;
}
