#include <kdbindings/binding.h>
#include <iostream>
using namespace KDBindings;
int main(){
  Property<int> a{1}, b{10};
  auto* d = new Property<int>(100);
  auto broken = makeBoundProperty(a + *d);                       // subscribed to a first
  auto later  = makeBoundProperty([](int x,int y){return x+y;},  // g(h(a), b), subscribed to a second
                 Private::makeNode([](int v){return v*2;}, a), b);
  int seen=-1; auto obs = a.valueChanged().connect([&](int v){ seen=v; });   // observer, subscribed third
  delete d;
  try { a = 2; } catch(PropertyDestroyedError&){ std::cout<<"a=2 threw PropertyDestroyedError; a="<<a.get()<<" observer saw "<<seen<<"\n"; }
  std::cout<<"later="<<later.get()<<" expected "<<(a.get()*2+b.get())<<"\n";
  broken.reset();                                                // cause removed
  try { b = 11; std::cout<<"b=11 returned normally\n"; } catch(std::exception&e){ std::cout<<"b=11 threw "<<e.what()<<"\n"; }
  std::cout<<"later="<<later.get()<<" expected "<<(a.get()*2+b.get())<<"\n";
  try { a = 3; std::cout<<"a=3 returned normally\n"; } catch(std::exception&e){ std::cout<<"a=3 threw "<<e.what()<<"\n"; }
  std::cout<<"later="<<later.get()<<" expected "<<(a.get()*2+b.get())<<" observer saw "<<seen<<"\n";
}
