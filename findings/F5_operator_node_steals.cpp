// F5 (C20): OperatorNode moves from a forwarding reference: caller's l-value callable is emptied.
#include <kdbindings/binding.h>
#include <cstdio>
#include <vector>
using namespace KDBindings;
int main() {
    Property<int> a{1}, b{2};
    std::function<int(int,int)> f = [](int x, int y) { return x + y; };
    auto p = makeBoundProperty(f, a, b);
    std::vector<int> cap{1,2,3};
    auto lam = [cap](int x, int y) { return x + y + (int)cap.size(); };
    auto q = makeBoundProperty(lam, a, b);
    std::printf("f usable=%d lam(0,0)=%d p=%d q=%d\n", (int)(bool)f, lam(0,0), p.get(), q.get());
    return ((bool)f && lam(0,0) == 3) ? 0 : 1;
}
